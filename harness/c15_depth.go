package main

// C15, layering depth (round 14): a chain of three real stores
//
//	A  "things" (root)                     name (unique index), roles (set index)
//	C  child of A, path <pc>               code *string, nullable unique index
//	G  child of C, path <pc>/<…>           tag  *string, nullable unique index (flag i) or no index (flag n)
//
// G is declared with `Parent: C` (a child store of a child store) and registered with C
// (RegisterChildStoreStrategy on C), C with A — the wiring boltz/manager_store_test.go uses, one level further.
//
// case line:   t<c><g><i><shape> <tx>;<tx>;…     c, g = p (plain) | x (.Extended()) for C and G; i = i | n;
//              shape = 0 (u | ext | ext.g), 1 (u | c1 | c1.d.g), 2 (u.v | x.y | x.y.z)
// ops as for h; store 0 = A, 1 = C, 2 = G; the child token of an op through G is <code>:<tag>
// output: per transaction  <results> commit|abort F … P … Q … I … X … D <dump>   (no entity events, no DeleteWhere)

import (
	"bufio"
	"context"
	"fmt"
	"os"
	"path/filepath"
	"sort"
	"strconv"
	"strings"

	"github.com/openziti/storage/ast"
	"github.com/openziti/storage/boltz"
	"go.etcd.io/bbolt"
)

type c15Mid struct {
	c15Thing
	Code *string
}

type c15Low struct {
	c15Mid
	Tag *string
}

type c15MidStrategy struct{ parent *boltz.BaseStore[*c15Thing] }

func (s *c15MidStrategy) NewEntity() *c15Mid { return new(c15Mid) }
func (s *c15MidStrategy) FillEntity(e *c15Mid, bucket *boltz.TypedBucket) {
	_, err := s.parent.LoadEntity(bucket.Tx(), e.Id, &e.c15Thing)
	bucket.SetError(err)
	e.Code = bucket.GetString("code")
}
func (s *c15MidStrategy) PersistEntity(e *c15Mid, ctx *boltz.PersistContext) {
	s.parent.GetEntityStrategy().PersistEntity(&e.c15Thing, ctx.GetParentContext())
	ctx.SetStringP("code", e.Code)
}

type c15LowStrategy struct{ parent *boltz.BaseStore[*c15Mid] }

func (s *c15LowStrategy) NewEntity() *c15Low { return new(c15Low) }
func (s *c15LowStrategy) FillEntity(e *c15Low, bucket *boltz.TypedBucket) {
	_, err := s.parent.LoadEntity(bucket.Tx(), e.Id, &e.c15Mid)
	bucket.SetError(err)
	e.Tag = bucket.GetString("tag")
}
func (s *c15LowStrategy) PersistEntity(e *c15Low, ctx *boltz.PersistContext) {
	s.parent.GetEntityStrategy().PersistEntity(&e.c15Mid, ctx.GetParentContext())
	ctx.SetStringP("tag", e.Tag)
}

func c15ChainMapper(entity boltz.Entity) boltz.Entity {
	switch e := entity.(type) {
	case *c15Low:
		return &e.c15Mid
	case *c15Mid:
		return &e.c15Thing
	}
	return entity
}

type c15ChainCfg struct {
	cExt, gExt, gIdx bool
	base, pc, pg     []string
}

func c15ParseChain(tok string) (c15ChainCfg, bool) {
	var c c15ChainCfg
	if len(tok) != 5 || tok[0] != 't' {
		return c, false
	}
	c.cExt, c.gExt, c.gIdx = tok[1] == 'x', tok[2] == 'x', tok[3] == 'i'
	switch tok[4] {
	case '0':
		c.base, c.pc, c.pg = []string{"u"}, []string{"ext"}, []string{"ext", "g"}
	case '1':
		c.base, c.pc, c.pg = []string{"u"}, []string{"c1"}, []string{"c1", "d", "g"}
	case '2':
		c.base, c.pc, c.pg = []string{"u", "v"}, []string{"x", "y"}, []string{"x", "y", "z"}
	default:
		return c, false
	}
	return c, true
}

type c15Chain struct {
	a                *boltz.BaseStore[*c15Thing]
	c                *boltz.BaseStore[*c15Mid]
	g                *boltz.BaseStore[*c15Low]
	nameIdx, codeIdx boltz.ReadIndex
	tagIdx           boltz.ReadIndex
	roleIdx          boltz.SetReadIndex
}

func c15NewChain(cfg c15ChainCfg) *c15Chain {
	s := &c15Chain{}
	s.a = boltz.NewBaseStore(boltz.StoreDefinition[*c15Thing]{
		EntityType: "things", EntityStrategy: c15ThingStrategy{}, BasePath: cfg.base, EntityNotFoundF: c15NotFound,
	})
	s.a.InitImpl(s.a)
	s.c = boltz.NewBaseStore(boltz.StoreDefinition[*c15Mid]{
		EntityStrategy: &c15MidStrategy{parent: s.a}, BasePath: cfg.pc, Parent: s.a, ParentMapper: c15ChainMapper, EntityNotFoundF: c15NotFound,
	})
	if cfg.cExt {
		s.c.Extended()
	}
	s.c.InitImpl(s.c)
	s.g = boltz.NewBaseStore(boltz.StoreDefinition[*c15Low]{
		EntityStrategy: &c15LowStrategy{parent: s.c}, BasePath: cfg.pg, Parent: s.c, ParentMapper: c15ChainMapper, EntityNotFoundF: c15NotFound,
	})
	if cfg.gExt {
		s.g.Extended()
	}
	s.g.InitImpl(s.g)

	s.a.RegisterChildStoreStrategy(&boltz.ChildStoreUpdateHandler[*c15Thing, *c15Mid]{
		Store: s.c,
		Mapper: func(ctx boltz.MutateContext, parent *c15Thing) (*c15Mid, bool) {
			if !s.c.IsEntityPresent(ctx.Tx(), parent.Id) {
				return nil, false
			}
			child, found, _ := s.c.FindById(ctx.Tx(), parent.Id)
			if !found || child == nil {
				return nil, false
			}
			child.c15Thing = *parent
			return child, true
		},
	})
	s.c.RegisterChildStoreStrategy(&boltz.ChildStoreUpdateHandler[*c15Mid, *c15Low]{
		Store: s.g,
		Mapper: func(ctx boltz.MutateContext, parent *c15Mid) (*c15Low, bool) {
			if !s.g.IsEntityPresent(ctx.Tx(), parent.Id) {
				return nil, false
			}
			child, found, _ := s.g.FindById(ctx.Tx(), parent.Id)
			if !found || child == nil {
				return nil, false
			}
			child.c15Mid = *parent
			return child, true
		},
	})

	s.a.AddIdSymbol("id", ast.NodeTypeString)
	s.nameIdx = s.a.AddUniqueIndex(s.a.AddSymbol("name", ast.NodeTypeString))
	s.roleIdx = s.a.AddSetIndex(s.a.AddSetSymbol("roles", ast.NodeTypeString))
	s.a.GrantSymbols(s.c)
	s.codeIdx = s.c.AddNullableUniqueIndex(s.c.AddSymbol("code", ast.NodeTypeString))
	s.c.GrantSymbols(s.g)
	symTag := s.g.AddSymbol("tag", ast.NodeTypeString)
	if cfg.gIdx {
		s.tagIdx = s.g.AddNullableUniqueIndex(symTag)
	}
	return s
}

func c15OptInt(xs []*int, i int) *string {
	if i >= len(xs) || xs[i] == nil {
		return nil
	}
	v := c15ValS(*xs[i])
	return &v
}

func c15ParseChilds(tok string) []*int {
	var out []*int
	for _, x := range strings.Split(tok, ":") {
		if x == "n" {
			out = append(out, nil)
			continue
		}
		n, err := strconv.Atoi(x)
		if err != nil {
			panic("bad child value in case: " + tok)
		}
		out = append(out, &n)
	}
	return out
}

type c15ChainOp struct {
	op     c15Op
	childs []*int
}

func c15ParseChainOp(src string) c15ChainOp {
	f := strings.Split(src, "/")
	var childs []*int
	if (f[0] == "c" || f[0] == "u") && len(f) > 5 {
		childs = c15ParseChilds(f[5])
		f[5] = "n"
	}
	return c15ChainOp{op: c15ParseOp(strings.Join(f, "/")), childs: childs}
}

func (s *c15Chain) apply(ctx boltz.MutateContext, co *c15ChainOp) error {
	op := &co.op
	mid := func() *c15Mid { return &c15Mid{c15Thing: op.thing(), Code: c15OptInt(co.childs, 0)} }
	low := func() *c15Low { return &c15Low{c15Mid: *mid(), Tag: c15OptInt(co.childs, 1)} }
	switch op.kind {
	case 'c':
		switch op.sel {
		case 0:
			t := op.thing()
			return s.a.Create(ctx, &t)
		case 1:
			return s.c.Create(ctx, mid())
		default:
			return s.g.Create(ctx, low())
		}
	case 'u':
		switch op.sel {
		case 0:
			t := op.thing()
			return s.a.Update(ctx, &t, c15ChainChecker(op))
		case 1:
			return s.c.Update(ctx, mid(), c15ChainChecker(op))
		default:
			return s.g.Update(ctx, low(), c15ChainChecker(op))
		}
	case 'd':
		return []boltz.Store{s.a, s.c, s.g}[op.sel].DeleteById(ctx, c15IdS(op.id))
	}
	panic("bad op in chain case: " + op.source)
}

func c15ChainChecker(op *c15Op) boltz.FieldChecker {
	fc := op.checker()
	if m, ok := fc.(boltz.MapFieldChecker); ok && op.chk != nil && strings.Contains(*op.chk, "c") {
		m["tag"] = struct{}{}
	}
	return fc
}

func (s *c15Chain) find(tx *bbolt.Tx, sel int, id string) string {
	switch sel {
	case 0:
		e, found, err := s.a.FindById(tx, id)
		if err != nil {
			return "err:" + toWire(err.Error())
		} else if !found {
			return "-"
		}
		return c15ThingStr(e) + "/_"
	case 1:
		e, found, err := s.c.FindById(tx, id)
		if err != nil {
			return "err:" + toWire(err.Error())
		} else if !found {
			return "-"
		}
		return c15ThingStr(&e.c15Thing) + "/" + c15OptVal(e.Code)
	default:
		e, found, err := s.g.FindById(tx, id)
		if err != nil {
			return "err:" + toWire(err.Error())
		} else if !found {
			return "-"
		}
		return c15ThingStr(&e.c15Thing) + "/" + c15OptVal(e.Code) + ":" + c15OptVal(e.Tag)
	}
}

func (s *c15Chain) observe(tx *bbolt.Tx) string {
	var b strings.Builder
	stores := []boltz.Store{s.a, s.c, s.g}
	b.WriteString("F")
	for sel := 0; sel < 3; sel++ {
		for id := 1; id <= c15NIds; id++ {
			fmt.Fprintf(&b, " %d.%d=%s", sel, id, s.find(tx, sel, c15IdS(id)))
		}
	}
	b.WriteString(" P")
	for sel, st := range stores {
		for id := 1; id <= c15NIds; id++ {
			flags := "-"
			if st.IsEntityPresent(tx, c15IdS(id)) {
				flags = "P"
			}
			fmt.Fprintf(&b, " %d.%d=%s", sel, id, flags)
		}
	}
	queries := [][2]string{{"t", "true"}, {"n1", `name = "v1"`}, {"r1", `anyOf(roles) = "r1"`}, {"s", "true sort by name"}}
	b.WriteString(" Q")
	for sel, st := range stores {
		for _, q := range queries {
			ids, count, err := st.QueryIds(tx, q[1])
			if err != nil {
				fmt.Fprintf(&b, " %d.%s=err:%s", sel, q[0], toWire(err.Error()))
				continue
			}
			fmt.Fprintf(&b, " %d.%s=%s", sel, q[0], c15Ids(ids))
			if int(count) != len(ids) {
				fmt.Fprintf(&b, "#%d", count)
			}
		}
	}
	b.WriteString(" I")
	for sel, st := range stores {
		fmt.Fprintf(&b, " %d.i=%s", sel, c15Ids(c15Cursor(st.IterateIds(tx, ast.BoolNodeTrue))))
		fmt.Fprintf(&b, " %d.v=%s", sel, c15Ids(c15Cursor(st.IterateValidIds(tx, ast.BoolNodeTrue))))
	}
	b.WriteString(" X")
	uniq := func(tag string, idx boltz.ReadIndex) {
		for v := 1; v <= c15NVals; v++ {
			if idx == nil {
				fmt.Fprintf(&b, " %s.%d=-", tag, v)
			} else if id := idx.Read(tx, []byte(c15ValS(v))); id == nil {
				fmt.Fprintf(&b, " %s.%d=-", tag, v)
			} else {
				fmt.Fprintf(&b, " %s.%d=%s", tag, v, c15Code("e", string(id)))
			}
		}
	}
	uniq("n", s.nameIdx)
	for v := 1; v <= c15NVals; v++ {
		var ids []string
		s.roleIdx.Read(tx, []byte(c15RoleS(v)), func(val []byte) { ids = append(ids, string(val)) })
		sort.Strings(ids)
		fmt.Fprintf(&b, " r.%d=%s", v, c15Ids(ids))
	}
	uniq("c", s.codeIdx)
	uniq("g", s.tagIdx)
	b.WriteString(" D ")
	b.WriteString(c15Dump(tx))
	return b.String()
}

func c15ChainExec(f []string) string {
	cfg, ok := c15ParseChain(f[0])
	if !ok || len(f) != 2 {
		return "bad-case"
	}
	dir, err := os.MkdirTemp("/dev/shm", "verif-*")
	if err != nil {
		dir, err = os.MkdirTemp("", "verif-*")
	}
	if err != nil {
		panic(err)
	}
	defer os.RemoveAll(dir)
	db, err := boltz.Open(filepath.Join(dir, "c15.db"), cfg.base[0])
	if err != nil {
		panic(err)
	}
	defer func() { _ = db.Close() }()
	s := c15NewChain(cfg)
	err = db.Update(nil, func(ctx boltz.MutateContext) error {
		if b := boltz.GetOrCreatePath(ctx.Tx(), append(append([]string{}, cfg.base...), "things")...); b.HasError() {
			return b.GetError()
		}
		holder := &c15ErrHolder{}
		s.a.InitializeIndexes(ctx.Tx(), holder)
		s.c.InitializeIndexes(ctx.Tx(), holder)
		s.g.InitializeIndexes(ctx.Tx(), holder)
		return holder.err
	})
	if err != nil {
		panic(err)
	}
	var segs []string
	for _, txs := range strings.Split(f[1], ";") {
		var ops []c15ChainOp
		for _, o := range strings.Split(txs, ",") {
			ops = append(ops, c15ParseChainOp(o))
		}
		var res []string
		err := db.Update(boltz.NewMutateContext(context.Background()), func(ctx boltz.MutateContext) error {
			for i := range ops {
				e := s.apply(ctx, &ops[i])
				res = append(res, c15ErrStr(e))
				if e != nil {
					return e
				}
			}
			return nil
		})
		seg := strings.Join(res, ",")
		if err == nil {
			seg += " commit "
		} else {
			seg += " abort "
		}
		_ = db.View(func(tx *bbolt.Tx) error {
			seg += s.observe(tx)
			return nil
		})
		segs = append(segs, seg)
	}
	return strings.Join(segs, " ;; ")
}

// ---------------------------------------------------------------- generator (three-level chains)

// Universe of the generated chain histories: C and G plain or extended, G with or without an own index,
// three path shapes; create / update / patch / DeleteById through every store on every id (so Create through G
// also meets entities that exist in A without C data, and extended G stores meet root-only rows).
var c15ChainTokens = []string{"tppi0", "txpi0", "tppn0", "txpn1", "tppi1", "tppi2", "txpi2", "tppn2", "tpxi0", "txxi1", "tpxn2"}

func c15ChainChild(r *rng, sel int) string {
	one := func() string {
		switch r.intn(7) {
		case 0:
			return "n"
		case 1:
			return "0"
		}
		return strconv.Itoa(1 + r.intn(c15NVals))
	}
	switch sel {
	case 0:
		return "n"
	case 1:
		return one()
	}
	return one() + ":" + one()
}

// at most three roles (more are refused by the root strategy's validation, which the chain model leaves out)
func c15ChainRoles(r *rng) string {
	n := r.intn(4)
	if n == 0 {
		return "-"
	}
	var out []string
	for i := 0; i < n; i++ {
		out = append(out, strconv.Itoa(1+r.intn(3)))
	}
	return strings.Join(out, ".")
}

func c15ChainOpText(r *rng) string {
	name := func() int {
		if r.chance(1, 25) {
			return 0
		}
		return 1 + r.intn(c15NVals)
	}
	switch k := r.intn(10); {
	case k < 4: // create
		id := 1 + r.intn(c15NIds)
		if r.chance(1, 30) {
			id = 0
		}
		sel := r.intn(3)
		return fmt.Sprintf("c/%d/%d/%d/%s/%s", sel, id, name(), c15ChainRoles(r), c15ChainChild(r, sel))
	case k < 8: // update / patch
		sel := r.intn(3)
		return fmt.Sprintf("u/%d/%d/%d/%s/%s/%s", sel, 1+r.intn(c15NIds), name(), c15ChainRoles(r), c15ChainChild(r, sel), c15Chk(r))
	default:
		return fmt.Sprintf("d/%d/%d", r.intn(3), 1+r.intn(c15NIds))
	}
}

func c15GenChainCases(tier string, r *rng, out *bufio.Writer) {
	var toks []string
	for _, t := range c15ChainTokens {
		toks = append(toks, t)
	}
	child := map[int]string{1: "3", 2: "3:2"}
	for _, tok := range toks {
		for cs := 1; cs <= 2; cs++ {
			for os_ := 0; os_ < 3; os_++ {
				oc := map[int]string{0: "n", 1: "4", 2: "4:1"}[os_]
				for _, second := range []string{
					fmt.Sprintf("u/%d/3/2/2/%s/*", os_, oc), fmt.Sprintf("u/%d/3/3/-/n/n", os_),
					fmt.Sprintf("u/%d/3/4/1.3/%s/rc", os_, oc), fmt.Sprintf("d/%d/3", os_),
				} {
					fmt.Fprintf(out, "%s c/0/1/3/1/n;c/1/4/2/2/2;c/%d/3/1/1.2/%s;%s;d/0/1;c/2/3/1/1/1:2\n", tok, cs, child[cs], second)
				}
			}
		}
	}
	// Create through G over an entity that exists in A only (new name / same name), then the freed name is taken
	for _, tok := range toks {
		fmt.Fprintf(out, "%s c/0/3/1/1/n;c/2/3/2/3/3:2;c/0/4/1/-/n\n", tok)
		fmt.Fprintf(out, "%s c/0/3/1/1/n;c/2/3/1/1/3:2;u/0/3/2/2/n/*\n", tok)
	}
	n := 150
	if tier == "thorough" {
		n = 6000
	}
	for i := 0; i < n; i++ {
		tok := toks[i%len(toks)]
		ntx := 4 + r.intn(7)
		var txs []string
		for t := 0; t < ntx; t++ {
			nops := 1
			if r.chance(1, 3) {
				nops = 2 + r.intn(2)
			}
			var ops []string
			for o := 0; o < nops; o++ {
				ops = append(ops, c15ChainOpText(r))
			}
			txs = append(txs, strings.Join(ops, ","))
		}
		fmt.Fprintln(out, tok+" "+strings.Join(txs, ";"))
	}
}
