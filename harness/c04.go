package main

// C04 — foreign keys: targets exist, back-references exact, delete restricts or cascades.
//
// Real stores wired through the exported API:
//
//	store A ("things", base path ["u"])   owner *string  nullable fk index  -> B.things  (AddNullableFkIndex)
//	                                      boss  string   fk index, cascade  -> A.minions (AddFkIndexCascadeDelete, self reference)
//	                                      dep   *string  fk constraint      -> B         (AddFkConstraint, nullable?, cascade none|delete)
//	store B ("owners", base path ["u"])   things fk-set (back-references of A.owner)
//	stores C, C2: plain sibling child stores of A (entity paths ["ext1"], ["ext2"] inside A's entity bucket):
//	         tag *string, mentor *string (fk -> B), guard *string (fk -> B).  Per schema variant a child store declares
//	         AddNullableFkIndex(mentor, B.mentees1 / B.mentees2) and / or AddFkConstraint(guard, nullable, CascadeNone).
//	         Create through a child store (also over an already existing A entity, possibly holding data of the sibling:
//	         the parent's old fk values are captured and ProcessAfterUpdate runs with IsCreate = true), Update through
//	         it, Update through A is handed to the first registered child store that holds data for the entity,
//	         DeleteById through it goes to A.DeleteById, which runs one processDeleteConstraints round per child store
//	         holding data (A's constraints + that child store's) and then A's own.
//
// Schema variant v (0..255): bit0 = dep cascades on delete (else restrict), bit1 = dep nullable,
// bit2 = the dep constraint is wired before the indexes (changes the constraint order on A and B),
// bit3 / bit4 = C / C2 declares the mentor fk index, bit5 / bit6 = C / C2 declares the guard fk constraint,
// bit7 = C2's ChildStoreStrategy is registered before C's,
// bits 8-9 = naming of the fk fields owner, boss, dep, mentor, guard (each has a symbol name f, a stored key and a
// caller-side name the FieldChecker is asked for): 0 all three are f; 1 key = caller name = fId (AddFkSymbolWithKey);
// 2 key = fId, caller name = f (PersistContext.WithFieldOverrides); 3 key = fId, caller name = fRef.
//
// Case line:   h|v|k|w <variant> <tx> <tx> ...    (v, w = verbose: full observation instead of a digest)
//
//	h / v: bbolt opened directly, a fresh MutateContext for every transaction;
//	k / w: the database is a boltz.Db and ONE MutateContext object is handed to every Db.Update of the history (the
//	       context — with the "cascading delete in progress" map it carries — outlives rolled-back transactions)
//
//	tx  = op,op,...      (one bbolt transaction; the first failing op aborts and rolls it back)
//	op  = cb:<id> | ca:<id>:<owner>:<boss>:<dep> | ua:<id>:<mask>:<owner>:<boss>:<dep> | da:<id> | db:<id>
//	    | cc:<id>:<owner>:<boss>:<dep>:<tag>[:<mentor>:<guard>] | uc:<id>:<mask>:<owner>:<boss>:<dep>:<tag>[:<mentor>:<guard>]
//	    | dc:<id>   (through child store C)      c2: / u2: / d2: the same through C2
//	    | xa:<id>:<v> | xb:<id>:<v>   A / B.DeleteById(id) while an EntityConstraint on store A refuses (ProcessPreCommit
//	      error) the delete of A entity v: a cascade that reaches v fails part-way and is rolled back
//	      tag, mentor, guard like owner; mask additionally 16 = tag, 32 = mentor, 64 = guard
//	      owner/dep: "~" = nil pointer, otherwise wire string ("-" = empty); boss: wire string
//	      mask: bit0 owner, bit1 boss, bit2 dep are in the FieldChecker; 8 = nil checker (all fields)
//	      a mask may be written <m>/<k>/<y>: m lists the fields by their caller-side names (what selects a field),
//	      k additionally puts the STORED KEYS, y the SYMBOL NAMES of those fields into the MapFieldChecker (they select
//	      the field only where the naming makes them coincide with the caller-side name)
//
// Output line: one token per transaction
//
//	<res>#<fine>#<coarse>@<nA>,<nB>     res = ok | <opIndex>:<errenum>; nA, nB = number of surviving A / B entities
//
// fine   = digest of the canonicalised boltz.Traverse dump (every bucket / key / value below the two
//
//	entity buckets), i.e. including which back-reference buckets exist although empty;
//
// coarse = digest of: surviving ids of A and B (IterateIds), stored field values of every A,
//
//	GetRelatedEntitiesIdList(things / mentees1 / mentees2) of every B and GetRelatedEntitiesIdList(minions) of every A,
//	and what each child store holds for every A (FindById through it: "!" = no child data, otherwise tag/mentor/guard).
//
// In verbose mode the two observation texts are printed instead of their digests.

import (
	"bufio"
	"context"
	"encoding/hex"
	"errors"
	"fmt"
	"os"
	"path/filepath"
	"sort"
	"strconv"
	"strings"

	"github.com/openziti/storage/ast"
	"github.com/openziti/storage/boltz"
	"go.etcd.io/bbolt"
)

func init() {
	register("c04", &propHarness{gen: c04Gen, exec: c04Exec})
}

const (
	c04TypeA = "things"
	c04TypeB = "owners"
)

type c04A struct {
	Id    string
	Owner *string
	Boss  string
	Dep   *string
}

func (e *c04A) GetId() string         { return e.Id }
func (e *c04A) SetId(id string)       { e.Id = id }
func (e *c04A) GetEntityType() string { return c04TypeA }

type c04B struct{ Id string }

func (e *c04B) GetId() string         { return e.Id }
func (e *c04B) SetId(id string)       { e.Id = id }
func (e *c04B) GetEntityType() string { return c04TypeB }

// c04Naming: the three names of an fk field under naming variant nv (see the header)
type c04Naming int

func (nv c04Naming) key(f string) string {
	if nv == 0 {
		return f
	}
	return f + "Id"
}

func (nv c04Naming) chk(f string) string {
	switch nv {
	case 1:
		return f + "Id"
	case 3:
		return f + "Ref"
	}
	return f
}

// overrides: the WithFieldOverrides map of a strategy for its fk fields (stored key -> caller-side name)
func (nv c04Naming) overrides(fields ...string) map[string]string {
	m := map[string]string{}
	for _, f := range fields {
		if nv.key(f) != nv.chk(f) {
			m[nv.key(f)] = nv.chk(f)
		}
	}
	return m
}

// c04C: entity of the plain child store of A
type c04C struct {
	c04A
	Tag    *string
	Mentor *string
	Guard  *string
}

type c04CStrategy struct {
	parent *boltz.BaseStore[*c04A]
	nv     c04Naming
}

func (s *c04CStrategy) NewEntity() *c04C { return &c04C{} }
func (s *c04CStrategy) FillEntity(e *c04C, b *boltz.TypedBucket) {
	_, err := s.parent.LoadEntity(b.Tx(), e.Id, &e.c04A)
	b.SetError(err)
	e.Tag = b.GetString("tag")
	e.Mentor = b.GetString(s.nv.key("mentor"))
	e.Guard = b.GetString(s.nv.key("guard"))
}
func (s *c04CStrategy) PersistEntity(e *c04C, ctx *boltz.PersistContext) {
	s.parent.GetEntityStrategy().PersistEntity(&e.c04A, ctx.GetParentContext())
	if ov := s.nv.overrides("mentor", "guard"); len(ov) > 0 {
		ctx.WithFieldOverrides(ov)
	}
	ctx.SetStringP("tag", e.Tag)
	ctx.SetStringP(s.nv.key("mentor"), e.Mentor)
	ctx.SetStringP(s.nv.key("guard"), e.Guard)
}

type c04AStrategy struct{ nv c04Naming }

func (c04AStrategy) NewEntity() *c04A { return &c04A{} }
func (s c04AStrategy) FillEntity(e *c04A, b *boltz.TypedBucket) {
	e.Owner = b.GetString(s.nv.key("owner"))
	e.Boss = b.GetStringWithDefault(s.nv.key("boss"), "")
	e.Dep = b.GetString(s.nv.key("dep"))
}
func (s c04AStrategy) PersistEntity(e *c04A, ctx *boltz.PersistContext) {
	if ov := s.nv.overrides("owner", "boss", "dep"); len(ov) > 0 {
		ctx.WithFieldOverrides(ov)
	}
	ctx.SetStringP(s.nv.key("owner"), e.Owner)
	ctx.SetString(s.nv.key("boss"), e.Boss)
	ctx.SetStringP(s.nv.key("dep"), e.Dep)
}

type c04BStrategy struct{}

func (c04BStrategy) NewEntity() *c04B                           { return &c04B{} }
func (c04BStrategy) FillEntity(*c04B, *boltz.TypedBucket)       {}
func (c04BStrategy) PersistEntity(*c04B, *boltz.PersistContext) {}

type c04AStore struct{ *boltz.BaseStore[*c04A] }
type c04BStore struct{ *boltz.BaseStore[*c04B] }
type c04CStore struct{ *boltz.BaseStore[*c04C] }

type c04Stores struct {
	nv c04Naming
	a *c04AStore
	b *c04BStore
	c *c04CStore
	c2 *c04CStore
}

func (st *c04Stores) child(second bool) *c04CStore {
	if second {
		return st.c2
	}
	return st.c
}

func c04NewStores(variant int) *c04Stores {
	nv := c04Naming((variant >> 8) & 3)
	a := &c04AStore{BaseStore: boltz.NewBaseStore(boltz.StoreDefinition[*c04A]{
		EntityType:      c04TypeA,
		EntityStrategy:  c04AStrategy{nv: nv},
		BasePath:        []string{"u"},
		EntityNotFoundF: func(id string) error { return boltz.NewNotFoundError(c04TypeA, "id", id) },
	})}
	a.InitImpl(a)
	b := &c04BStore{BaseStore: boltz.NewBaseStore(boltz.StoreDefinition[*c04B]{
		EntityType:      c04TypeB,
		EntityStrategy:  c04BStrategy{},
		BasePath:        []string{"u"},
		EntityNotFoundF: func(id string) error { return boltz.NewNotFoundError(c04TypeB, "id", id) },
	})}
	b.InitImpl(b)

	a.AddIdSymbol("id", ast.NodeTypeString)
	b.AddIdSymbol("id", ast.NodeTypeString)
	owner := a.AddFkSymbolWithKey("owner", nv.key("owner"), b)
	boss := a.AddFkSymbolWithKey("boss", nv.key("boss"), a)
	dep := a.AddFkSymbolWithKey("dep", nv.key("dep"), b)
	things := b.AddFkSetSymbol("things", a)
	minions := a.AddFkSetSymbol("minions", a)

	cascade := boltz.CascadeType(boltz.CascadeNone)
	if variant&1 != 0 {
		cascade = boltz.CascadeDelete
	}
	nullable := variant&2 != 0
	if variant&4 != 0 {
		a.AddFkConstraint(dep, nullable, cascade)
	}
	a.AddNullableFkIndex(owner, things)
	a.AddFkIndexCascadeDelete(boss, minions)
	if variant&4 == 0 {
		a.AddFkConstraint(dep, nullable, cascade)
	}

	// the two plain sibling child stores of A: their data lives in <entity bucket>/ext1, /ext2
	newChild := func(path string) *c04CStore {
		c := &c04CStore{BaseStore: boltz.NewBaseStore(boltz.StoreDefinition[*c04C]{
			EntityStrategy: &c04CStrategy{parent: a.BaseStore, nv: nv},
			BasePath:       []string{path},
			Parent:         a,
			ParentMapper: func(e boltz.Entity) boltz.Entity {
				if x, ok := e.(*c04C); ok {
					return &x.c04A
				}
				return e
			},
			EntityNotFoundF: func(id string) error { return boltz.NewNotFoundError(c04TypeA, "id", id) },
		})}
		c.InitImpl(c)
		a.GrantSymbols(c)
		c.AddSymbol("tag", ast.NodeTypeString)
		return c
	}
	c, c2 := newChild("ext1"), newChild("ext2")
	// fks DECLARED BY the child stores (B's delete constraints for them come after A's, C's before C2's)
	declare := func(ch *c04CStore, setName string, idx, fk bool) {
		mentor := ch.AddFkSymbolWithKey("mentor", nv.key("mentor"), b)
		guard := ch.AddFkSymbolWithKey("guard", nv.key("guard"), b)
		mentees := b.AddFkSetSymbol(setName, ch)
		if idx {
			ch.AddNullableFkIndex(mentor, mentees)
		}
		if fk {
			ch.AddFkConstraint(guard, true, boltz.CascadeNone)
		}
	}
	declare(c, "mentees1", variant&8 != 0, variant&32 != 0)
	declare(c2, "mentees2", variant&16 != 0, variant&64 != 0)
	// an update through A of an entity that has child data is carried out by the first registered child store holding
	// data for it (new parent values, stored child fields); deletes through A run one round per child store holding data
	register := func(ch *c04CStore) {
		a.RegisterChildStoreStrategy(&boltz.ChildStoreUpdateHandler[*c04A, *c04C]{
			Store: ch,
			Mapper: func(ctx boltz.MutateContext, p *c04A) (*c04C, bool) {
				cur, found, _ := ch.FindById(ctx.Tx(), p.Id)
				if !found || cur == nil {
					return nil, false
				}
				return &c04C{c04A: *p, Tag: cur.Tag, Mentor: cur.Mentor, Guard: cur.Guard}, true
			},
		})
	}
	if variant&128 != 0 {
		register(c2)
		register(c)
	} else {
		register(c)
		register(c2)
	}
	a.AddEntityConstraint(c04VetoConstraint{})
	return &c04Stores{nv: nv, a: a, b: b, c: c, c2: c2}
}

// c04Protected: the A entity whose delete the entity constraint below refuses during the current operation
var c04Protected struct {
	on bool
	id string
}

type c04VetoError struct{ id string }

func (e c04VetoError) Error() string { return "veto: " + e.id + " is protected" }

type c04VetoConstraint struct{}

func (c04VetoConstraint) ProcessPreCommit(state *boltz.EntityChangeState[*c04A]) error {
	if state.ChangeType == boltz.EntityDeleted && c04Protected.on && state.EntityId == c04Protected.id {
		return c04VetoError{id: state.EntityId}
	}
	return nil
}

func (c04VetoConstraint) ProcessPostCommit(*boltz.EntityChangeState[*c04A]) {}

var c04StoreCache = map[int]*c04Stores{}

func c04GetStores(variant int) *c04Stores {
	s, ok := c04StoreCache[variant]
	if !ok {
		s = c04NewStores(variant)
		c04StoreCache[variant] = s
	}
	return s
}

// ------------------------------------------------------------------ database (one per process)

var c04Db *bbolt.DB

func c04OpenDb() *bbolt.DB {
	if c04Db != nil {
		return c04Db
	}
	dir, err := os.MkdirTemp("", "verif-*")
	if err != nil {
		panic(err)
	}
	db, err := bbolt.Open(filepath.Join(dir, "c04.db"), 0600, &bbolt.Options{NoSync: true, NoFreelistSync: true})
	if err != nil {
		panic(err)
	}
	c04Db = db
	// the file stays usable through its descriptor; nothing is left behind when the process ends
	_ = os.RemoveAll(dir)
	return db
}

// c04Guard counts Tx() calls of one operation.  Before /repo commit bda5470 the cascading DeleteById
// recursion had no termination argument for reference cycles (fatal Go stack overflow); an operation
// that keeps going is cut off with a recoverable panic and reported as "diverge", so that the harness
// survives a reverted or broken tree and the check can report the history.
type c04Guard struct {
	boltz.MutateContext
	n int
}

type c04Diverge struct{}

const c04GuardLimit = 4000

// C04_NOGUARD=1 switches the cut-off off (to reproduce the fatal stack overflow by hand)
var c04NoGuard = os.Getenv("C04_NOGUARD") == "1"

func (g *c04Guard) Tx() *bbolt.Tx {
	g.n++
	if g.n > c04GuardLimit && !c04NoGuard {
		panic(c04Diverge{})
	}
	return g.MutateContext.Tx()
}

func c04ErrEnum(err error) string {
	switch {
	case err == nil:
		return "ok"
	case boltz.IsErrNotFoundErr(err):
		return "notfound"
	case boltz.IsReferenceExistsError(err):
		return "refexists"
	case errors.As(err, &c04VetoError{}):
		return "veto"
	case strings.Contains(err.Error(), "does not allow null or empty values"):
		return "null-not-allowed"
	}
	return "other"
}

func c04OptStr(w string) *string {
	if w == "~" {
		return nil
	}
	s := fromWire(w)
	return &s
}

// c04Checker: a MapFieldChecker-like set of field names
type c04Checker struct{ names map[string]bool }

func (c c04Checker) IsUpdated(f string) bool { return c.names[f] }

var c04MaskBits = []struct {
	bit  int
	name string
}{{1, "owner"}, {2, "boss"}, {4, "dep"}, {16, "tag"}, {32, "mentor"}, {64, "guard"}}

// c04ParseChecker: "<m>" or "<m>/<k>/<y>" -> nil (bit 8 of m) or the checker holding the caller-side names of the
// fields in m, the stored keys of those in k and the symbol names of those in y
func c04ParseChecker(nv c04Naming, w string) boltz.FieldChecker {
	parts := strings.Split(w, "/")
	m, _ := strconv.Atoi(parts[0])
	if m&8 != 0 {
		return nil
	}
	k, y := 0, 0
	if len(parts) == 3 {
		k, _ = strconv.Atoi(parts[1])
		y, _ = strconv.Atoi(parts[2])
	}
	names := map[string]bool{}
	for _, mb := range c04MaskBits {
		if mb.name == "tag" {
			if (m|k|y)&mb.bit != 0 {
				names["tag"] = true
			}
			continue
		}
		if m&mb.bit != 0 {
			names[nv.chk(mb.name)] = true
		}
		if k&mb.bit != 0 {
			names[nv.key(mb.name)] = true
		}
		if y&mb.bit != 0 {
			names[mb.name] = true
		}
	}
	return c04Checker{names: names}
}

func c04Apply(st *c04Stores, ctx boltz.MutateContext, op string) error {
	f := strings.Split(op, ":")
	switch f[0] {
	case "cb":
		return st.b.Create(ctx, &c04B{Id: fromWire(f[1])})
	case "ca":
		return st.a.Create(ctx, &c04A{Id: fromWire(f[1]), Owner: c04OptStr(f[2]), Boss: fromWire(f[3]), Dep: c04OptStr(f[4])})
	case "ua":
		checker := c04ParseChecker(st.nv, f[2])
		if m, _ := strconv.Atoi(strings.Split(f[2], "/")[0]); m >= 8 {
			checker = nil // "ua": any mask >= 8 is the nil checker
		}
		return st.a.Update(ctx, &c04A{Id: fromWire(f[1]), Owner: c04OptStr(f[3]), Boss: fromWire(f[4]), Dep: c04OptStr(f[5])}, checker)
	case "cc", "c2":
		e := &c04C{c04A: c04A{Id: fromWire(f[1]), Owner: c04OptStr(f[2]), Boss: fromWire(f[3]), Dep: c04OptStr(f[4])},
			Tag: c04OptStr(f[5])}
		if len(f) >= 8 {
			e.Mentor, e.Guard = c04OptStr(f[6]), c04OptStr(f[7])
		}
		return st.child(f[0] == "c2").Create(ctx, e)
	case "uc", "u2":
		checker := c04ParseChecker(st.nv, f[2])
		e := &c04C{c04A: c04A{Id: fromWire(f[1]), Owner: c04OptStr(f[3]), Boss: fromWire(f[4]), Dep: c04OptStr(f[5])},
			Tag: c04OptStr(f[6])}
		if len(f) >= 9 {
			e.Mentor, e.Guard = c04OptStr(f[7]), c04OptStr(f[8])
		}
		return st.child(f[0] == "u2").Update(ctx, e, checker)
	case "dc", "d2":
		return st.child(f[0] == "d2").DeleteById(ctx, fromWire(f[1]))
	case "xa", "xb":
		c04Protected.on, c04Protected.id = true, fromWire(f[2])
		defer func() { c04Protected.on = false }()
		if f[0] == "xa" {
			return st.a.DeleteById(ctx, fromWire(f[1]))
		}
		return st.b.DeleteById(ctx, fromWire(f[1]))
	case "da":
		return st.a.DeleteById(ctx, fromWire(f[1]))
	case "db":
		return st.b.DeleteById(ctx, fromWire(f[1]))
	}
	panic("bad op " + op)
}

// runs one transaction; returns the result token
// c04Runner: how a history's transactions are run and observed
type c04Runner struct {
	update func(fn func(ctx boltz.MutateContext) error) error
	view   func(fn func(btx *bbolt.Tx) error) error
	// housekeeping with a context of its own
	fresh func(fn func(ctx boltz.MutateContext) error) error
}

// fresh MutateContext per transaction, directly on bbolt
func c04DirectRunner(db *bbolt.DB) *c04Runner {
	upd := func(fn func(ctx boltz.MutateContext) error) error {
		return db.Update(func(btx *bbolt.Tx) error {
			return fn(boltz.NewTxMutateContext(context.Background(), btx))
		})
	}
	return &c04Runner{update: upd, view: db.View, fresh: upd}
}

var c04BoltzDb *boltz.DbImpl

func c04OpenBoltzDb() *boltz.DbImpl {
	if c04BoltzDb != nil {
		return c04BoltzDb
	}
	base := ""
	if fi, err := os.Stat("/dev/shm"); err == nil && fi.IsDir() {
		base = "/dev/shm" // boltz.Open syncs every commit: keep the file in memory
	}
	dir, err := os.MkdirTemp(base, "verif-*")
	if err != nil {
		dir, err = os.MkdirTemp("", "verif-*")
		if err != nil {
			panic(err)
		}
	}
	db, err := boltz.Open(filepath.Join(dir, "c04k.db"), "u")
	if err != nil {
		panic(err)
	}
	c04BoltzDb = db
	_ = os.RemoveAll(dir)
	return db
}

// ONE MutateContext object for every Db.Update of the history
func c04ReuseRunner(db *boltz.DbImpl) *c04Runner {
	shared := boltz.NewMutateContext(context.Background())
	return &c04Runner{
		update: func(fn func(ctx boltz.MutateContext) error) error { return db.Update(shared, fn) },
		view:   db.View,
		fresh:  func(fn func(ctx boltz.MutateContext) error) error { return db.Update(nil, fn) },
	}
}

func c04RunTx(rn *c04Runner, st *c04Stores, tx string) (res string) {
	ops := strings.Split(tx, ",")
	failed := -1
	defer func() {
		if r := recover(); r != nil {
			if _, ok := r.(c04Diverge); ok {
				res = fmt.Sprintf("%d:diverge", failed)
				return
			}
			panic(r)
		}
	}()
	err := rn.update(func(base boltz.MutateContext) error {
		for i, op := range ops {
			failed = i
			if err := c04Apply(st, &c04Guard{MutateContext: base}, op); err != nil {
				return err
			}
		}
		return nil
	})
	if err != nil {
		return fmt.Sprintf("%d:%s", failed, c04ErrEnum(err))
	}
	return "ok"
}

type c04Visitor struct{ lines []string }

func (v *c04Visitor) VisitBucket(path string, key []byte, _ *bbolt.Bucket) bool {
	v.lines = append(v.lines, "B:"+hex.EncodeToString([]byte(path))+":"+hex.EncodeToString(key))
	return true
}

func (v *c04Visitor) VisitKeyValue(path string, key, value []byte) bool {
	v.lines = append(v.lines, "K:"+hex.EncodeToString([]byte(path))+":"+hex.EncodeToString(key)+":"+hex.EncodeToString(value))
	return true
}

var c04Structural = map[string]bool{
	"B:" + ":" + hex.EncodeToString([]byte("u")):                                         true,
	"B:" + hex.EncodeToString([]byte("/u")) + ":" + hex.EncodeToString([]byte(c04TypeA)): true,
	"B:" + hex.EncodeToString([]byte("/u")) + ":" + hex.EncodeToString([]byte(c04TypeB)): true,
}

func c04HexList(xs []string) string {
	hs := make([]string, len(xs))
	for i, x := range xs {
		hs[i] = toWire(x)
	}
	return "[" + strings.Join(hs, ",") + "]"
}

func c04Ids(btx *bbolt.Tx, store boltz.Store) []string {
	var ids []string
	for c := store.IterateIds(btx, ast.BoolNodeTrue); c.IsValid(); c.Next() {
		ids = append(ids, string(c.Current()))
	}
	return ids
}

func c04FV(p *string) string {
	if p == nil {
		return "~"
	}
	return toWire(*p)
}

// observation texts after a transaction
func c04Observe(rn *c04Runner, st *c04Stores) (fine, coarse string, nA, nB int) {
	_ = rn.view(func(btx *bbolt.Tx) error {
		v := &c04Visitor{}
		boltz.Traverse(btx, "", v)
		var lines []string
		for _, l := range v.lines {
			if !c04Structural[l] {
				lines = append(lines, l)
			}
		}
		sort.Strings(lines)
		fine = strings.Join(lines, "\n")

		var cl []string
		aIds := c04Ids(btx, st.a)
		bIds := c04Ids(btx, st.b)
		nA, nB = len(aIds), len(bIds)
		cl = append(cl, "SA:"+c04HexList(aIds), "SB:"+c04HexList(bIds))
		for _, id := range aIds {
			e, found, err := st.a.FindById(btx, id)
			if err != nil || !found {
				cl = append(cl, "A:"+toWire(id)+":unreadable")
				continue
			}
			boss := "~"
			if bk := st.a.GetEntityBucket(btx, []byte(id)); bk != nil {
				boss = c04FV(bk.GetString(st.nv.key("boss")))
			}
			extOf := func(ch *c04CStore) string {
				ext := "!"
				if ce, cfound, cerr := ch.FindById(btx, id); cerr != nil {
					ext = "unreadable"
				} else if cfound {
					ext = c04FV(ce.Tag) + "/" + c04FV(ce.Mentor) + "/" + c04FV(ce.Guard)
					if c04FV(ce.Owner) != c04FV(e.Owner) || ce.Boss != e.Boss || c04FV(ce.Dep) != c04FV(e.Dep) {
						ext += "/parent-fields-differ"
					}
				}
				if ch.IsEntityPresent(btx, id) != (ext != "!") {
					ext += "/presence-differs"
				}
				return ext
			}
			cl = append(cl, "A:"+toWire(id)+":"+c04FV(e.Owner)+":"+boss+":"+c04FV(e.Dep)+":"+
				c04HexList(st.a.GetRelatedEntitiesIdList(btx, id, "minions"))+":"+extOf(st.c)+":"+extOf(st.c2))
		}
		for _, id := range bIds {
			cl = append(cl, "B:"+toWire(id)+":"+c04HexList(st.b.GetRelatedEntitiesIdList(btx, id, "things"))+":"+
				c04HexList(st.b.GetRelatedEntitiesIdList(btx, id, "mentees1"))+":"+
				c04HexList(st.b.GetRelatedEntitiesIdList(btx, id, "mentees2")))
		}
		coarse = strings.Join(cl, "\n")
		return nil
	})
	return
}

func c04Fnv(s string) string {
	h := uint64(14695981039346656037)
	for i := 0; i < len(s); i++ {
		h ^= uint64(s[i])
		h *= 1099511628211
	}
	return fmt.Sprintf("%016x", h)
}

func c04Exec(line string) string {
	f := fields(line)
	if len(f) >= 2 && (f[0] == "t" || f[0] == "T") {
		return c04TierExec(f) // the three-store chain (c04_tier.go)
	}
	if len(f) >= 2 && (f[0] == "g" || f[0] == "G") {
		return c04GenExec(f) // random schemas over the schema-parametric model (c04_gen.go)
	}
	if len(f) < 2 || (f[0] != "h" && f[0] != "v" && f[0] != "k" && f[0] != "w") {
		return "bad-case"
	}
	verbose := f[0] == "v" || f[0] == "w"
	reuse := f[0] == "k" || f[0] == "w"
	variant, err := strconv.Atoi(f[1])
	if err != nil || variant < 0 || variant > 1023 {
		return "bad-case"
	}
	var rn *c04Runner
	if reuse {
		rn = c04ReuseRunner(c04OpenBoltzDb())
	} else {
		rn = c04DirectRunner(c04OpenDb())
	}
	st := c04GetStores(variant)
	// fresh database content for every history (with a context of its own)
	_ = rn.fresh(func(ctx boltz.MutateContext) error {
		if ctx.Tx().Bucket([]byte("u")) != nil {
			return ctx.Tx().DeleteBucket([]byte("u"))
		}
		return nil
	})
	var out []string
	for _, tx := range f[2:] {
		if tx == "" {
			continue
		}
		res := c04RunTx(rn, st, tx)
		fine, coarse, nA, nB := c04Observe(rn, st)
		cnt := fmt.Sprintf("@%d,%d", nA, nB)
		if verbose {
			out = append(out, res+"#{"+strings.ReplaceAll(fine, "\n", "|")+"}#{"+strings.ReplaceAll(coarse, "\n", "|")+"}"+cnt)
		} else {
			out = append(out, res+"#"+c04Fnv(fine)+"#"+c04Fnv(coarse)+cnt)
		}
	}
	if len(out) == 0 {
		return "empty"
	}
	return strings.Join(out, " ")
}

// ------------------------------------------------------------------ generator

// hostile id pool: quotes, backslashes, filter keywords, filter fragments, control bytes, a long id
var c04Pool = []string{
	"a", "b", "c",
	"a\"b", "a\\", "a\\nb", "x\" or name != \"", "x\" or id != \"", "and", "null", "true", "\"",
	"a\nb", "a\x00b", "\xff\xfe", "a b", "a\" or true or id = \"",
	strings.Repeat("0123456789", 30),
}

// shadow of the store content, only used to steer the generator towards interesting operations
// (it predicts success approximately; the verdicts come from the implementation and the model)
type c04Shadow struct {
	boss, owner, dep map[string]string
	b                map[string]bool
	ext              map[string]bool // A ids with data in child store C
	ext2             map[string]bool // ... in child store C2
	// mentor / guard values held by C (index 0) and C2 (index 1), "" = null
	cm, cg [2]map[string]string
}

func c04NewShadow() *c04Shadow {
	return &c04Shadow{boss: map[string]string{}, owner: map[string]string{}, dep: map[string]string{}, b: map[string]bool{},
		ext: map[string]bool{}, ext2: map[string]bool{},
		cm: [2]map[string]string{{}, {}}, cg: [2]map[string]string{{}, {}}}
}

func (sh *c04Shadow) has(second bool) map[string]bool {
	if second {
		return sh.ext2
	}
	return sh.ext
}

// anyExt: ids with data in at least one child store
func (sh *c04Shadow) anyExt() []string {
	m := map[string]bool{}
	for k := range sh.ext {
		m[k] = true
	}
	for k := range sh.ext2 {
		m[k] = true
	}
	return c04BKeys(m)
}

func (sh *c04Shadow) clone() *c04Shadow {
	n := c04NewShadow()
	for k, v := range sh.boss {
		n.boss[k] = v
	}
	for k, v := range sh.owner {
		n.owner[k] = v
	}
	for k, v := range sh.dep {
		n.dep[k] = v
	}
	for k := range sh.b {
		n.b[k] = true
	}
	for k := range sh.ext {
		n.ext[k] = true
	}
	for k := range sh.ext2 {
		n.ext2[k] = true
	}
	for i := 0; i < 2; i++ {
		for k, v := range sh.cm[i] {
			n.cm[i][k] = v
		}
		for k, v := range sh.cg[i] {
			n.cg[i][k] = v
		}
	}
	return n
}

func (sh *c04Shadow) dropChildData(id string) {
	delete(sh.ext, id)
	delete(sh.ext2, id)
	for i := 0; i < 2; i++ {
		delete(sh.cm[i], id)
		delete(sh.cg[i], id)
	}
}

func c04Keys(m map[string]string) []string {
	ks := make([]string, 0, len(m))
	for k := range m {
		ks = append(ks, k)
	}
	sort.Strings(ks)
	return ks
}

func c04BKeys(m map[string]bool) []string {
	ks := make([]string, 0, len(m))
	for k := range m {
		ks = append(ks, k)
	}
	sort.Strings(ks)
	return ks
}

// onCycle: following boss from id comes back to id
func (sh *c04Shadow) onCycle(id string) bool {
	cur, ok := sh.boss[id]
	for i := 0; ok && i <= len(sh.boss); i++ {
		if cur == id {
			return true
		}
		cur, ok = sh.boss[cur]
	}
	return false
}

// inSubtree: x refers to id transitively (or is id)
func (sh *c04Shadow) inSubtree(id, x string) bool {
	cur := x
	for i := 0; i <= len(sh.boss)+1; i++ {
		if cur == id {
			return true
		}
		nxt, ok := sh.boss[cur]
		if !ok {
			return false
		}
		cur = nxt
	}
	return false
}

func (sh *c04Shadow) deleteA(id string) {
	if _, ok := sh.boss[id]; !ok {
		return
	}
	for _, k := range c04Keys(sh.boss) {
		if k != id && sh.inSubtree(id, k) {
			delete(sh.boss, k)
			delete(sh.owner, k)
			delete(sh.dep, k)
			sh.dropChildData(k)
		}
	}
	delete(sh.boss, id)
	delete(sh.owner, id)
	delete(sh.dep, id)
	sh.dropChildData(id)
}

type c04GenCtx struct {
	r       *rng
	variant int
	// the A entity whose delete last failed part-way (a protected referrer): what it refers to is deleted next
	lastVetoed string
	aPool   []string
	bPool   []string
	sh      *c04Shadow
}

func c04Opt(v string, isNil bool) string {
	if isNil {
		return "~"
	}
	return toWire(v)
}

func (g *c04GenCtx) pickB(allowNil bool) (string, bool) {
	r := g.r
	ex := c04BKeys(g.sh.b)
	switch x := r.intn(20); {
	case x < 4 && allowNil:
		return "", true
	case x < 5:
		return "", false // empty string: treated like null by the indexes
	case x < 6 || len(ex) == 0:
		return pick(r, g.bPool), false // possibly missing
	default:
		return pick(r, ex), false
	}
}

func (g *c04GenCtx) pickBoss(self string, avoidSubtreeOf string) string {
	r := g.r
	ex := c04Keys(g.sh.boss)
	switch x := r.intn(20); {
	case x < 1:
		return ""
	case x < 2:
		return pick(r, g.aPool) // possibly missing
	case x < 4 || len(ex) == 0:
		return self
	default:
		for try := 0; try < 4; try++ {
			c := pick(r, ex)
			if avoidSubtreeOf == "" || !g.sh.inSubtree(avoidSubtreeOf, c) || r.chance(1, 8) {
				return c
			}
		}
		return pick(r, ex)
	}
}

// fkOk: would the shadow accept these fk values for entity id
func (g *c04GenCtx) fkOk(id, owner string, ownerNil bool, boss, dep string, depNil bool) bool {
	sh := g.sh
	depNullable := g.variant&2 != 0
	_, bossOk := sh.boss[boss]
	return (bossOk || boss == id) && boss != "" && (ownerNil || owner == "" || sh.b[owner]) &&
		(((depNil || dep == "") && depNullable) || (!depNil && dep != "" && sh.b[dep]))
}

// nameMask: how the caller's checker lists the fields of `mask` — by caller-side name, by stored key, by symbol name
// (any subset of the three per field).  Returns the checker word and the mask of the fields that end up SELECTED under
// the history's naming (what the shadow works with).
func (g *c04GenCtx) nameMask(mask int) (string, int) {
	r := g.r
	nv := (g.variant >> 8) & 3
	if mask&8 != 0 || !r.chance(1, 2) {
		return strconv.Itoa(mask), mask
	}
	m, k, y, eff := mask&(8|16), 0, 0, mask&(8|16)
	for _, b := range []int{1, 2, 4, 32, 64} {
		if mask&b == 0 {
			// now and then a field is listed only under a name that is not its caller-side name
			if r.chance(1, 6) {
				if r.chance(1, 2) {
					k |= b
				} else {
					y |= b
				}
			} else {
				continue
			}
		} else {
			switch r.intn(4) {
			case 0:
				m |= b
			case 1:
				k |= b
			case 2:
				y |= b
			default:
				m |= b
				k |= b
				y |= b
			}
		}
		c, kk, yy := m&b != 0, k&b != 0, y&b != 0
		sel := c
		switch nv {
		case 0:
			sel = c || kk || yy
		case 1:
			sel = c || kk
		case 2:
			sel = c || yy
		}
		if sel {
			eff |= b
		}
	}
	return fmt.Sprintf("%d/%d/%d", m, k, y), eff
}

// declared: does child store ci (0 = C, 1 = C2) declare the mentor index / the guard constraint
func (g *c04GenCtx) declared(ci int) (idx, fk bool) {
	return g.variant&(8<<ci) != 0, g.variant&(32<<ci) != 0
}

// pickChildFks: mentor and guard values for a write through a child store
func (g *c04GenCtx) pickChildFks() (m string, mNil bool, gd string, gNil bool) {
	m, mNil = g.pickB(true)
	gd, gNil = g.pickB(true)
	if g.r.chance(1, 3) {
		gd, gNil = m, mNil
	}
	return
}

func (g *c04GenCtx) childFksOk(ci int, m string, mNil bool, gd string, gNil bool) bool {
	idx, fk := g.declared(ci)
	return (!idx || mNil || m == "" || g.sh.b[m]) && (!fk || gNil || gd == "" || g.sh.b[gd])
}

// genChildCreate: Create through a child store — over an existing parent without data in that child store (plain, or
// already holding data of the SIBLING child store; fk values equal / changed / cleared), for a fresh id, or over an
// entity that already has data there (refused)
func (g *c04GenCtx) genChildCreate() (string, bool) {
	r, sh := g.r, g.sh
	depNullable := g.variant&2 != 0
	second := r.chance(1, 2)
	ci := 0
	if second {
		ci = 1
	}
	has := sh.has(second)
	var plain, sibling []string
	for _, k := range c04Keys(sh.boss) {
		if !has[k] {
			plain = append(plain, k)
			if sh.has(!second)[k] {
				sibling = append(sibling, k)
			}
		}
	}
	tag, tagNil := pick(r, []string{"t", "", "a\"b"}), r.chance(1, 4)
	var id, owner, boss, dep string
	var ownerNil, depNil bool
	mode := r.intn(10)
	switch {
	case mode < 6 && len(plain) > 0:
		id = pick(r, plain)
		if len(sibling) > 0 && r.chance(1, 2) {
			id = pick(r, sibling) // the entity will hold data in both child stores
		}
		owner, boss, dep = sh.owner[id], sh.boss[id], sh.dep[id]
		ownerNil, depNil = owner == "" && r.chance(2, 3), dep == "" && r.chance(2, 3)
		switch sub := r.intn(10); {
		case sub < 4: // every fk value as stored
		case sub < 6: // one value changed
			switch r.intn(3) {
			case 0:
				owner, ownerNil = g.pickB(true)
			case 1:
				boss = g.pickBoss(id, id)
			default:
				dep, depNil = g.pickB(depNullable || r.chance(1, 8))
			}
		case sub < 8: // all changed
			owner, ownerNil = g.pickB(true)
			boss = g.pickBoss(id, id)
			dep, depNil = g.pickB(depNullable || r.chance(1, 8))
		default: // cleared where that is possible
			owner, ownerNil = "", r.chance(1, 2)
			if depNullable || r.chance(1, 6) {
				dep, depNil = "", r.chance(1, 2)
			}
			if r.chance(1, 8) {
				boss = ""
			}
		}
	case mode < 9 || len(has) == 0:
		id = pick(r, g.aPool)
		for _, c := range g.aPool {
			if _, used := sh.boss[c]; !used && r.chance(3, 4) {
				id = c
				break
			}
		}
		owner, ownerNil = g.pickB(true)
		dep, depNil = g.pickB(depNullable || r.chance(1, 8))
		boss = g.pickBoss(id, "")
	default:
		id = pick(r, c04BKeys(has))
		owner, boss, dep = sh.owner[id], sh.boss[id], sh.dep[id]
		ownerNil, depNil = owner == "", dep == ""
	}
	m, mNil, gd, gNil := g.pickChildFks()
	ok := !has[id] && g.fkOk(id, owner, ownerNil, boss, dep, depNil) && g.childFksOk(ci, m, mNil, gd, gNil)
	if ok {
		if ownerNil {
			owner = ""
		}
		if depNil {
			dep = ""
		}
		sh.boss[id], sh.owner[id], sh.dep[id], has[id] = boss, owner, dep, true
		sh.cm[ci][id], sh.cg[ci][id] = m, gd
		if mNil {
			sh.cm[ci][id] = ""
		}
		if gNil {
			sh.cg[ci][id] = ""
		}
	}
	verb := "cc:"
	if second {
		verb = "c2:"
	}
	return verb + toWire(id) + ":" + c04Opt(owner, ownerNil) + ":" + toWire(boss) + ":" + c04Opt(dep, depNil) + ":" + c04Opt(tag, tagNil) +
		":" + c04Opt(m, mNil) + ":" + c04Opt(gd, gNil), ok
}

// genChildUpdate: Update through a child store (not found without data in that child store)
func (g *c04GenCtx) genChildUpdate() (string, bool) {
	r, sh := g.r, g.sh
	depNullable := g.variant&2 != 0
	second := r.chance(1, 2)
	if len(sh.has(second)) == 0 && len(sh.has(!second)) > 0 {
		second = !second
	}
	ci := 0
	if second {
		ci = 1
	}
	has := sh.has(second)
	id := pick(r, c04Keys(sh.boss))
	if ex := c04BKeys(has); len(ex) > 0 && r.chance(5, 6) {
		id = pick(r, ex)
	}
	maskWord, mask := g.nameMask(pick(r, []int{1, 2, 2, 4, 16, 17, 18, 3, 6, 7, 23, 8, 24, 0, 32, 32, 64, 96, 34, 33, 100, 48}))
	owner, ownerNil := g.pickB(true)
	dep, depNil := g.pickB(depNullable || r.chance(1, 8))
	boss := g.pickBoss(id, id)
	tag, tagNil := pick(r, []string{"t", "u", ""}), r.chance(1, 4)
	m, mNil, gd, gNil := g.pickChildFks()
	all := mask&8 != 0
	nb, no, nd := sh.boss[id], sh.owner[id], sh.dep[id]
	nm, ng := sh.cm[ci][id], sh.cg[ci][id]
	idx, fk := g.declared(ci)
	ok := has[id]
	if ok {
		if mask&2 != 0 || all {
			_, bossOk := sh.boss[boss]
			if boss != nb && (!bossOk || boss == "") {
				ok = false
			}
			nb = boss
		}
		if mask&1 != 0 || all {
			o := owner
			if ownerNil {
				o = ""
			}
			if !(o == "" || sh.b[o] || o == no) {
				ok = false
			}
			no = o
		}
		if mask&4 != 0 || all {
			d := dep
			if depNil {
				d = ""
			}
			if !((d == "" && (depNullable || nd == "")) || (d != "" && sh.b[d]) || d == nd) {
				ok = false
			}
			nd = d
		}
		if mask&32 != 0 || all {
			v := m
			if mNil {
				v = ""
			}
			if idx && !(v == "" || sh.b[v] || v == nm) {
				ok = false
			}
			nm = v
		}
		if mask&64 != 0 || all {
			v := gd
			if gNil {
				v = ""
			}
			if fk && !(v == "" || sh.b[v] || v == ng) {
				ok = false
			}
			ng = v
		}
		if ok {
			sh.boss[id], sh.owner[id], sh.dep[id] = nb, no, nd
			sh.cm[ci][id], sh.cg[ci][id] = nm, ng
		}
	}
	verb := "uc:"
	if second {
		verb = "u2:"
	}
	return verb + toWire(id) + ":" + maskWord + ":" + c04Opt(owner, ownerNil) + ":" + toWire(boss) + ":" + c04Opt(dep, depNil) + ":" + c04Opt(tag, tagNil) +
		":" + c04Opt(m, mNil) + ":" + c04Opt(gd, gNil), ok
}

// genOp returns the operation and whether the shadow expects it to succeed
func (g *c04GenCtx) genOp() (string, bool) {
	r, sh := g.r, g.sh
	depNullable := g.variant&2 != 0
	aEx := c04Keys(sh.boss)
	x := r.intn(100)
	if len(sh.b) == 0 && r.chance(3, 4) {
		x = 0
	}
	switch {
	case x < 8:
		id := pick(r, g.bPool)
		ok := !sh.b[id]
		sh.b[id] = true
		return "cb:" + toWire(id), ok
	case x >= 34 && x < 46 && len(aEx) > 0:
		return g.genChildCreate()
	case x >= 64 && x < 72 && len(aEx) > 0:
		if len(sh.ext)+len(sh.ext2) == 0 && r.chance(4, 5) {
			return g.genChildCreate()
		}
		return g.genChildUpdate()
	case x < 34 || len(aEx) == 0:
		id := pick(r, g.aPool)
		if _, ok := sh.boss[id]; ok && r.chance(4, 5) {
			// prefer a fresh id
			for _, c := range g.aPool {
				if _, ok := sh.boss[c]; !ok {
					id = c
					break
				}
			}
		}
		owner, ownerNil := g.pickB(true)
		dep, depNil := g.pickB(depNullable || r.chance(1, 8))
		boss := g.pickBoss(id, "")
		_, exists := sh.boss[id]
		_, bossOk := sh.boss[boss]
		ok := !exists && (bossOk || boss == id) && boss != "" && (ownerNil || owner == "" || sh.b[owner]) &&
			(((depNil || dep == "") && depNullable) || (!depNil && dep != "" && sh.b[dep]))
		if ok {
			sh.boss[id] = boss
			sh.owner[id] = owner
			sh.dep[id] = dep
		}
		return "ca:" + toWire(id) + ":" + c04Opt(owner, ownerNil) + ":" + toWire(boss) + ":" + c04Opt(dep, depNil), ok
	case x < 64:
		id := pick(r, aEx)
		if r.chance(1, 15) {
			id = pick(r, g.aPool)
		}
		maskWord, mask := g.nameMask(pick(r, []int{1, 1, 2, 2, 2, 4, 3, 5, 6, 7, 8, 0}))
		owner, ownerNil := g.pickB(true)
		dep, depNil := g.pickB(depNullable || r.chance(1, 8))
		boss := g.pickBoss(id, id)
		_, ok := sh.boss[id]
		if ok {
			nb, no, nd := sh.boss[id], sh.owner[id], sh.dep[id]
			if mask&2 != 0 || mask == 8 {
				_, bossOk := sh.boss[boss]
				if boss != nb && (!bossOk || boss == "") {
					ok = false
				}
				nb = boss
			}
			if mask&1 != 0 || mask == 8 {
				if ownerNil {
					owner = ""
				}
				if !(owner == "" || sh.b[owner] || owner == no) {
					ok = false
				}
				no = owner
			}
			if mask&4 != 0 || mask == 8 {
				if depNil {
					dep = ""
				}
				if !((dep == "" && (depNullable || nd == "")) || (dep != "" && sh.b[dep]) || dep == nd) {
					ok = false
				}
				nd = dep
			}
			if ok {
				sh.boss[id], sh.owner[id], sh.dep[id] = nb, no, nd
			}
		}
		return "ua:" + toWire(id) + ":" + maskWord + ":" + c04Opt(owner, ownerNil) + ":" + toWire(boss) + ":" + c04Opt(dep, depNil), ok
	case x < 90:
		id := pick(r, aEx)
		switch {
		case r.chance(1, 15):
			id = pick(r, g.aPool)
		case r.chance(1, 4):
			// an entity with child data: ProcessBeforeDelete runs twice; preferably one whose boss refers back to it
			// (the second round then finds the boss deleted by the first round's cascade, /repo 001d2d2)
			if ex := sh.anyExt(); len(ex) > 0 {
				id = pick(r, ex)
				for _, c := range ex {
					if sh.ext[c] && sh.ext2[c] && r.chance(1, 2) {
						id = c // data in both child stores: the delete fans out over both
						break
					}
					if b := sh.boss[c]; b != c && sh.inSubtree(c, b) && r.chance(2, 3) {
						id = c
						break
					}
				}
			}
		case r.chance(2, 5):
			// prefer the entity with the most transitive referrers (roots are self references: cycles)
			best := -1
			for _, c := range aEx {
				n := 0
				for _, k := range aEx {
					if k != c && sh.inSubtree(c, k) {
						n++
					}
				}
				if n > best || (n == best && r.chance(1, 2)) {
					best, id = n, c
				}
			}
		}
		if g.lastVetoed != "" && r.chance(2, 3) {
			// after a cascade that failed part-way at T: delete what T refers to — its cascade has to go through T
			if b, okb := sh.boss[g.lastVetoed]; okb && b != g.lastVetoed {
				id = b
			}
			g.lastVetoed = ""
		}
		_, ok := sh.boss[id]
		if ok && r.chance(1, 5) {
			// the caller's entity constraint protects a (transitive) referrer: the cascade fails part-way
			var sub []string
			for _, k := range aEx {
				if k != id && sh.inSubtree(id, k) {
					sub = append(sub, k)
				}
			}
			v := pick(r, aEx)
			if len(sub) > 0 && r.chance(4, 5) {
				v = pick(r, sub)
			}
			if v == id || sh.inSubtree(id, v) {
				g.lastVetoed = id
				return "xa:" + toWire(id) + ":" + toWire(v), false
			}
			sh.deleteA(id)
			return "xa:" + toWire(id) + ":" + toWire(v), true
		}
		sh.deleteA(id)
		verb := "da:"
		if r.chance(1, 4) {
			verb = pick(r, []string{"dc:", "d2:"}) // through a child store (goes to the parent's DeleteById)
		}
		return verb + toWire(id), ok
	default:
		id := pick(r, g.bPool)
		if ex := c04BKeys(sh.b); len(ex) > 0 && r.chance(7, 8) {
			id = pick(r, ex)
		}
		ok := sh.b[id]
		if ok {
			for _, k := range c04Keys(sh.owner) {
				if sh.owner[k] == id && id != "" {
					ok = false
				}
			}
			// restrict through the fks the child stores declare (checked after A's constraints)
			childRef := false
			for ci := 0; ci < 2; ci++ {
				idx, fk := g.declared(ci)
				for k, v := range sh.cm[ci] {
					if idx && v == id && id != "" && sh.has(ci == 1)[k] {
						childRef = true
					}
				}
				for k, v := range sh.cg[ci] {
					if fk && v == id && id != "" && sh.has(ci == 1)[k] {
						childRef = true
					}
				}
			}
			var deps []string
			for _, k := range c04Keys(sh.dep) {
				if sh.dep[k] == id {
					deps = append(deps, k)
				}
			}
			ok = ok && (len(deps) == 0 || g.variant&1 != 0)
			if ok && childRef {
				// the dep cascade may have removed the child-store referrers: look again on a copy
				probe := sh.clone()
				for _, k := range deps {
					probe.deleteA(k)
				}
				for ci := 0; ci < 2; ci++ {
					idx, fk := g.declared(ci)
					for _, v := range probe.cm[ci] {
						if idx && v == id {
							ok = false
						}
					}
					for _, v := range probe.cg[ci] {
						if fk && v == id {
							ok = false
						}
					}
				}
			}
			if ok && len(deps) > 0 && r.chance(1, 4) {
				// a B delete whose dep cascade meets a protected entity
				v := pick(r, deps)
				for _, k := range aEx {
					if sh.inSubtree(v, k) && r.chance(1, 2) {
						v = k
						break
					}
				}
				g.lastVetoed = pick(r, deps)
				return "xb:" + toWire(id) + ":" + toWire(v), false
			}
			if ok {
				for _, k := range deps {
					sh.deleteA(k)
				}
				delete(sh.b, id)
			}
		}
		return "db:" + toWire(id), ok
	}
}

func c04GenHistory(r *rng, out *bufio.Writer, hostile bool) {
	g := &c04GenCtx{r: r, variant: r.intn(8), sh: c04NewShadow()}
	if r.chance(3, 4) {
		// which child store declares the mentor index / the guard constraint, and the registration order of the two
		g.variant |= r.intn(32) << 3
	}
	if r.chance(1, 2) {
		// naming of the fk fields: symbol name / stored key / caller-side name
		g.variant |= (1 + r.intn(3)) << 8
	}
	pool := c04Pool
	if !hostile {
		pool = []string{"a", "b", "c", "d", "e", "f", "g"}
	}
	na, nb := 3+r.intn(7), 2+r.intn(2)
	for i := 0; i < na; i++ {
		g.aPool = append(g.aPool, pick(r, pool))
	}
	for i := 0; i < nb; i++ {
		g.bPool = append(g.bPool, pick(r, pool))
	}
	if r.chance(1, 2) {
		// an id that names an entity in BOTH stores (a dep / owner reference between entities with byte-equal ids)
		g.bPool[0] = g.aPool[r.intn(len(g.aPool))]
	}
	ntx := 6 + r.intn(26)
	kind := "h"
	if r.chance(2, 5) {
		kind = "k" // one MutateContext object for all transactions of the history
	}
	fmt.Fprintf(out, "%s %d", kind, g.variant)
	for t := 0; t < ntx; t++ {
		nops := 1
		if r.chance(1, 4) {
			nops = 2 + r.intn(2)
		}
		before := g.sh.clone()
		allOk := true
		var ops []string
		if ex := c04Keys(g.sh.boss); len(ex) > 0 && r.chance(1, 9) {
			// burst: several new referrers of one boss (and one owner) in a single transaction
			boss := pick(r, ex)
			owner, ownerNil := g.pickB(true)
			dep := g.sh.dep[boss]
			for _, id := range g.aPool {
				if _, used := g.sh.boss[id]; used || len(ops) >= 4 {
					continue
				}
				ops = append(ops, "ca:"+toWire(id)+":"+c04Opt(owner, ownerNil)+":"+toWire(boss)+":"+c04Opt(dep, dep == "" && g.variant&2 != 0))
				if (ownerNil || owner == "" || g.sh.b[owner]) && (dep != "" || g.variant&2 != 0) {
					g.sh.boss[id], g.sh.owner[id], g.sh.dep[id] = boss, owner, dep
				} else {
					allOk = false
				}
			}
			nops = 0
			if len(ops) == 0 {
				nops = 1
			}
		}
		for i := 0; i < nops; i++ {
			op, ok := g.genOp()
			ops = append(ops, op)
			if !ok {
				allOk = false
				break // the transaction aborts here
			}
		}
		if !allOk {
			g.sh = before
		}
		out.WriteString(" " + strings.Join(ops, ","))
	}
	out.WriteByte('\n')
}

// scripted families: every pool id as the deleted target, referenced / unreferenced, through every
// reference kind, under every schema variant
func c04GenScripts(out *bufio.Writer) {
	w := toWire
	for v := 0; v < 8; v++ {
		for i, x := range c04Pool {
			y := c04Pool[(i+5)%len(c04Pool)] // unrelated hostile ids
			z := c04Pool[(i+9)%len(c04Pool)]
			if y == x || z == x || y == z {
				continue
			}
			r, m1, m2, u, k := "r", y, z, "u", "k"
			if x == r || y == r || z == r {
				r = "root"
			}
			if x == u || y == u || z == u {
				u = "unrelated"
			}
			if x == k || y == k || z == k {
				k = "keep"
			}
			// prelude: B entity k (never deleted), root r (self reference, dep k)
			pre := fmt.Sprintf("h %d cb:%s ca:%s:~:%s:%s", v, w(k), w(r), w(r), w(k))
			// B id x unreferenced; then referenced through owner by m1 (restrict), released, deleted
			fmt.Fprintf(out, "%s cb:%s cb:%s db:%s ca:%s:%s:%s:%s ca:%s:%s:%s:%s db:%s ua:%s:1:~:: db:%s\n",
				pre, w(x), w(y), w(x), w(m1), w(y), w(r), w(k), w(u), w(k), w(r), w(k), w(y), w(m1), w(y))
			// B id x referenced through dep by m1, which has a boss-minion m2; unrelated u keeps dep k
			fmt.Fprintf(out, "%s cb:%s ca:%s:~:%s:%s ca:%s:~:%s:%s ca:%s:~:%s:%s db:%s db:%s\n",
				pre, w(x), w(m1), w(r), w(x), w(m2), w(m1), w(k), w(u), w(r), w(k), w(x), w(x))
			// A id x in the middle of a boss chain with hostile-id minions and an unrelated sibling
			fmt.Fprintf(out, "%s cb:%s ca:%s:%s:%s:%s ca:%s:~:%s:%s ca:%s:%s:%s:%s ca:%s:~:%s:%s da:%s\n",
				pre, w(y), w(x), w(y), w(r), w(k), w(m1), w(x), w(k), w(m2), w(y), w(m1), w(k), w(u), w(r), w(k), w(x))
			// re-parenting away from x before deleting it, null-out of owner
			fmt.Fprintf(out, "%s cb:%s ca:%s:%s:%s:%s ca:%s:%s:%s:%s ca:%s:~:%s:%s ua:%s:2::%s: ua:%s:1:~:: da:%s db:%s\n",
				pre, w(y), w(x), w(y), w(r), w(k), w(m1), w(y), w(x), w(k), w(m2), w(x), w(k), w(m1), w(r), w(m1), w(x), w(y))
			// child store.  Promote x (create through the child store over the existing plain entity) with every
			// reference unchanged: y must still list x (restrict refuses), r's cascade must still take x
			fmt.Fprintf(out, "%s cb:%s ca:%s:%s:%s:%s ca:%s:~:%s:%s cc:%s:%s:%s:%s:74 db:%s dc:%s da:%s db:%s\n",
				pre, w(y), w(x), w(y), w(r), w(k), w(m1), w(x), w(k), w(x), w(y), w(r), w(k), w(y), w(m1), w(r), w(y))
			// promote with changed / cleared references, update through the child store and (handed over) through A
			fmt.Fprintf(out, "%s cb:%s ca:%s:%s:%s:%s ca:%s:~:%s:%s cc:%s:~:%s:%s:~ db:%s cb:%s uc:%s:17:%s:%s:~:75 db:%s ua:%s:1:~::~ db:%s da:%s\n",
				pre, w(y), w(x), w(y), w(r), w(k), w(m1), w(r), w(k), w(x), w(m1), w(k), w(y), w(y), w(x), w(y), w(m1), w(y), w(x), w(y), w(m1))
			// delete of an entity with child data (both ProcessBeforeDelete rounds), minions with and without child data
			fmt.Fprintf(out, "%s cb:%s cc:%s:%s:%s:%s:74 ca:%s:%s:%s:%s cc:%s:~:%s:%s:~ ca:%s:~:%s:%s da:%s db:%s\n",
				pre, w(y), w(x), w(y), w(r), w(k), w(m1), w(y), w(x), w(k), w(m2), w(m1), w(k), w(u), w(r), w(k), w(x), w(y))
			// the same id in both stores: A entity x refers to B entity x through dep (and m1 through owner)
			fmt.Fprintf(out, "h %d cb:%s cb:%s ca:%s:~:%s:%s cc:%s:%s:%s:%s:~ db:%s ua:%s:1:~::~ db:%s\n",
				v, w(x), w(k), w(x), w(x), w(x), w(m1), w(x), w(x), w(k), w(x), w(m1), w(x))
		}
	}
}

// scripted families for the fks declared by the child stores: every combination of "who declares the mentor index /
// the guard constraint" and both registration orders; an entity x holding data in BOTH child stores refers to y through
// every child fk; y must be refused while x is there, x's delete (through A, C, C2) must clear every back-reference, y
// must go afterwards; clearing / moving the references through the child stores releases y as well
func c04GenChildFkScripts(out *bufio.Writer) {
	w := toWire
	for hi := 0; hi < 32; hi++ {
		for li, lo := range []int{1, 6} {
			v := hi<<3 | lo
			for i := (hi + li) % 6; i < len(c04Pool); i += 6 {
				x := c04Pool[i]
				y := c04Pool[(i+5)%len(c04Pool)]
				z := c04Pool[(i+9)%len(c04Pool)]
				r, k := "r", "k"
				if x == r || y == r || z == r {
					r = "root"
				}
				if x == k || y == k || z == k {
					k = "keep"
				}
				pre := fmt.Sprintf("h %d cb:%s cb:%s ca:%s:~:%s:%s", v, w(k), w(y), w(r), w(r), w(k))
				del := []string{"da", "dc", "d2"}[(hi+i)%3]
				// created through C then C2 (and the other way round), deleted, then y
				fmt.Fprintf(out, "%s cc:%s:~:%s:%s:74:%s:%s c2:%s:~:%s:%s:75:%s:%s db:%s %s:%s db:%s\n",
					pre, w(x), w(r), w(k), w(y), w(y), w(x), w(r), w(k), w(y), w(y), w(y), del, w(x), w(y))
				fmt.Fprintf(out, "%s c2:%s:~:%s:%s:74:%s:%s cc:%s:~:%s:%s:75:%s:%s ca:%s:~:%s:%s %s:%s db:%s\n",
					pre, w(x), w(r), w(k), w(y), w(k), w(x), w(r), w(k), w(k), w(y), w(z), w(x), w(k), del, w(x), w(y))
				// references moved / cleared through the child stores, missing target, then y
				fmt.Fprintf(out, "%s cc:%s:~:%s:%s:74:%s:~ c2:%s:~:%s:%s:~:~:%s uc:%s:32:~:%s:~:~:%s:~ u2:%s:64:~:%s:~:~:~:%s db:%s uc:%s:96:~:%s:~:~:%s:%s u2:%s:8:~:%s:%s:~:~:~ db:%s\n",
					pre, w(x), w(r), w(k), w(y), w(x), w(r), w(k), w(y), w(x), w(r), w(z), w(x), w(r), w(k), w(y), w(x), w(r), w(k), w(k), w(x), w(r), w(k), w(y))
			}
		}
	}
}

// scripted families for the naming variants: patch updates that list an fk field by its caller-side name, by its
// stored key, by its symbol name; the written reference must be checked and indexed exactly when the field is selected
func c04GenNamingScripts(out *bufio.Writer) {
	w := toWire
	for nv := 1; nv <= 3; nv++ {
		for _, lo := range []int{0, 5} {
			for _, hi := range []int{0, 31} {
				v := nv<<8 | hi<<3 | lo
				for i := (nv + lo + hi) % 9; i < len(c04Pool); i += 9 {
					x := c04Pool[i]
					y := c04Pool[(i+5)%len(c04Pool)]
					z := c04Pool[(i+9)%len(c04Pool)] // never created: a missing target
					r, k := "r", "k"
					if x == r || y == r || z == r {
						r = "root"
					}
					if x == k || y == k || z == k {
						k = "keep"
					}
					pre := fmt.Sprintf("h %d cb:%s cb:%s ca:%s:~:%s:%s ca:%s:~:%s:%s", v, w(k), w(y), w(r), w(r), w(k), w(x), w(r), w(k))
					for _, how := range []string{"%d/0/0", "0/%d/0", "0/0/%d", "%[1]d/%[1]d/%[1]d"} {
						sel := func(b int) string { return fmt.Sprintf(how, b) }
						// owner := y (then y must be refused), owner := missing z, owner cleared, y deleted
						fmt.Fprintf(out, "%s ua:%s:%s:%s:%s:~ db:%s ua:%s:%s:%s:%s:~ ua:%s:%s:~:%s:~ db:%s\n",
							pre, w(x), sel(1), w(y), w(r), w(y), w(x), sel(1), w(z), w(r), w(x), sel(1), w(r), w(y))
						// boss := x (self) / missing z / null; dep := missing z / y; then the cascade from r and y
						fmt.Fprintf(out, "%s ua:%s:%s:~:%s:~ ua:%s:%s:~:%s:~ ua:%s:%s:~::~ ua:%s:%s:~:%s:%s ua:%s:%s:~:%s:%s da:%s db:%s\n",
							pre, w(x), sel(2), w(x), w(x), sel(2), w(z), w(x), sel(2), w(x), sel(4), w(r), w(z), w(x), sel(4), w(r), w(y), w(r), w(y))
						// through the child stores: mentor / guard := y, missing z, cleared
						fmt.Fprintf(out, "%s cc:%s:~:%s:%s:74:~:~ c2:%s:~:%s:%s:~:~:~ uc:%s:%s:~:%s:~:~:%s:~ u2:%s:%s:~:%s:~:~:~:%s db:%s uc:%s:%s:~:%s:~:~:%s:~ u2:%s:%s:~:%s:~:~:~:%s uc:%s:%s:~:%s:~:~:~:~ u2:%s:%s:~:%s:~:~:~:~ db:%s\n",
							pre, w(x), w(r), w(k), w(x), w(r), w(k), w(x), sel(32), w(r), w(y), w(x), sel(64), w(r), w(y), w(y),
							w(x), sel(32), w(r), w(z), w(x), sel(64), w(r), w(z), w(x), sel(32), w(r), w(x), sel(64), w(r), w(y))
					}
				}
			}
		}
	}
}

// scripted families for cascades that FAIL part-way (a protected transitive referrer) and what they leave behind in
// the mutate context: chain r <- m <- t <- x (<- y); the delete of t (or of the B entity t depends on) is vetoed at x,
// then m (which t refers to) is deleted: its cascade must go through t, x, y.  Run with a fresh context per transaction
// (h) and with ONE context object for the whole history (k).
func c04GenVetoScripts(out *bufio.Writer) {
	w := toWire
	for _, kind := range []string{"h", "k"} {
		for v := 0; v < 8; v++ {
			for i := v % 3; i < len(c04Pool); i += 3 {
				t := c04Pool[i]
				x := c04Pool[(i+5)%len(c04Pool)]
				y := c04Pool[(i+9)%len(c04Pool)]
				r, m, k, d := "r", "m", "k", "d"
				for _, n := range []*string{&r, &m, &k, &d} {
					if *n == t || *n == x || *n == y {
						*n = *n + *n + "2"
					}
				}
				pre := fmt.Sprintf("%s %d cb:%s cb:%s ca:%s:~:%s:%s ca:%s:~:%s:%s ca:%s:~:%s:%s ca:%s:~:%s:%s ca:%s:~:%s:%s",
					kind, v, w(k), w(d), w(r), w(r), w(k), w(m), w(r), w(k), w(t), w(m), w(d), w(x), w(t), w(k), w(y), w(x), w(k))
				// vetoed at a transitive referrer, at the entity itself, not at all; then the boss
				fmt.Fprintf(out, "%s xa:%s:%s xa:%s:%s da:%s\n", pre, w(t), w(y), w(t), w(t), w(m))
				fmt.Fprintf(out, "%s xa:%s:%s,da:%s xa:%s:%s dc:%s\n", pre, w(t), w(x), w(m), w(x), w(m), w(m))
				// a B delete whose dep cascade (cascade variants) is vetoed, then the delete of m, then the B delete again
				fmt.Fprintf(out, "%s xb:%s:%s da:%s xb:%s:%s db:%s\n", pre, w(d), w(x), w(m), w(d), w(r), w(d))
				// a cycle t <-> m made by re-parenting, vetoed at the other member, then deleted from the other side
				fmt.Fprintf(out, "%s ua:%s:2:~:%s:~ xa:%s:%s xa:%s:%s da:%s\n", pre, w(m), w(t), w(t), w(m), w(m), w(y), w(m))
			}
		}
	}
}

func c04Gen(tier string, seed uint64, out *bufio.Writer) {
	r := newRng(seed)
	c04GenScripts(out)
	c04GenChildFkScripts(out)
	c04GenNamingScripts(out)
	c04GenVetoScripts(out)
	n := 1500
	if tier == "thorough" {
		n = 50000
	}
	for i := 0; i < n; i++ {
		c04GenHistory(r, out, !r.chance(1, 5))
	}
	c04GenTier(tier, r, out) // round 9: the three-store chain, after the older streams (their cases stay as they were)
	c04GenG(tier, r, out)    // round 14: random schemas over the schema-parametric model, after everything else
}
