package main

// C05, self-referential wiring: ONE store whose set symbol `peers` is linked with itself
// (store.AddLinkCollection(peers, peers)), so an entity can be linked to itself.
//
// Case line:  S <pool> <tx> <tx> ...      (same transaction / operation syntax as H-cases, without the side field)
//
//	c:id  cl:id:keys  d:id  al|rl|sl:id:keys  a1|r1:id:k  gl:id
//
// Output per transaction: `<op results>|<partial view>|<view>`; view = for every pool id
// `<id>=<exists>/<GetLinks>/<IsLinked bits against the pool>;` then `#` and the bucket dump.
import (
	"bufio"
	"context"
	"fmt"
	"os"
	"path/filepath"
	"sort"
	"strings"

	"github.com/openziti/storage/ast"
	"github.com/openziti/storage/boltz"
	"go.etcd.io/bbolt"
)

const (
	c05SelfType  = "nodes"
	c05SelfField = "peers"
)

type c05SelfEnv struct {
	db    *boltz.DbImpl
	store *boltz.BaseStore[*c05Ent]
	links boltz.LinkCollection
}

var c05selfEnv *c05SelfEnv

func c05SelfOpen() *c05SelfEnv {
	dir, err := os.MkdirTemp("", "verif-*")
	if err != nil {
		panic(err)
	}
	db, err := boltz.Open(filepath.Join(dir, "c05s.db"), c05Root)
	if err != nil {
		panic(err)
	}
	_ = os.RemoveAll(dir) // bbolt keeps working on the open descriptor
	st := c05NewStore(c05SelfType, c05SelfField)
	st.AddIdSymbol("id", ast.NodeTypeString)
	peers := st.AddFkSetSymbol(c05SelfField, st)
	return &c05SelfEnv{db: db, store: st, links: st.AddLinkCollection(peers, peers)}
}

func (e *c05SelfEnv) wipe() {
	err := e.db.Update(nil, func(ctx boltz.MutateContext) error {
		tx := ctx.Tx()
		var names [][]byte
		_ = tx.ForEach(func(name []byte, _ *bbolt.Bucket) error {
			names = append(names, append([]byte{}, name...))
			return nil
		})
		for _, n := range names {
			if err := tx.DeleteBucket(n); err != nil {
				return err
			}
		}
		return nil
	})
	if err != nil {
		panic(err)
	}
}

func (e *c05SelfEnv) op(ctx boltz.MutateContext, op string) (string, bool) {
	tx := ctx.Tx()
	f := strings.Split(op, ":")
	id := fromWire(f[1])
	ret := "u"
	var err error
	switch f[0] {
	case "c":
		err = e.store.Create(ctx, &c05Ent{Id: id, Type: c05SelfType})
	case "cl":
		err = e.store.Create(ctx, &c05Ent{Id: id, Type: c05SelfType, SetLinks: true, Links: c05List(f[2])})
	case "d":
		err = e.store.DeleteById(ctx, id)
	case "al":
		err = e.links.AddLinks(tx, id, c05List(f[2])...)
	case "rl":
		err = e.links.RemoveLinks(tx, id, c05List(f[2])...)
	case "sl":
		err = e.links.SetLinks(tx, id, c05List(f[2]))
	case "a1":
		var ch bool
		ch, err = e.links.AddLink(tx, []byte(id), []byte(fromWire(f[2])))
		ret = c05Bool(ch)
	case "r1":
		var ch bool
		ch, err = e.links.RemoveLink(tx, []byte(id), []byte(fromWire(f[2])))
		ret = c05Bool(ch)
	case "gl":
		ret = "[" + c05Wires(e.links.GetLinks(tx, id)) + "]"
	default:
		panic("bad op " + op)
	}
	return ret + c05Err(err), err != nil
}

type c05SelfVisitor struct {
	ents  map[string][]string
	extra []string
}

func (v *c05SelfVisitor) VisitBucket(path string, key []byte, _ *bbolt.Bucket) bool {
	p := strings.Split(path, "/")
	switch {
	case len(p) == 1 && string(key) == c05Root:
	case len(p) == 2 && string(key) == c05SelfType:
	case len(p) == 3 && p[2] == c05SelfType:
		if _, ok := v.ents[string(key)]; !ok {
			v.ents[string(key)] = nil
		}
	case len(p) == 4 && p[2] == c05SelfType && string(key) == c05SelfField:
	default:
		v.extra = append(v.extra, "bucket:"+path+"/"+toWire(string(key)))
	}
	return true
}

func (v *c05SelfVisitor) VisitKeyValue(path string, key, value []byte) bool {
	p := strings.Split(path, "/")
	if len(p) == 5 && p[2] == c05SelfType && p[4] == c05SelfField && len(value) == 0 {
		if t, k := boltz.GetTypeAndValue(key); t == boltz.TypeString {
			v.ents[p[3]] = append(v.ents[p[3]], toWire(string(k)))
			return true
		}
	}
	v.extra = append(v.extra, "kv:"+path+"/"+toWire(string(key))+"="+toWire(string(value)))
	return true
}

func (e *c05SelfEnv) view(tx *bbolt.Tx, pool []string) string {
	var b strings.Builder
	for _, id := range pool {
		b.WriteString(toWire(id) + "=" + c05Bool(e.store.IsEntityPresent(tx, id)))
		b.WriteString("/" + c05Wires(e.links.GetLinks(tx, id)) + "/")
		for _, k := range pool {
			b.WriteString(c05Bool(e.links.IsLinked(tx, []byte(id), []byte(k))))
		}
		b.WriteString(";")
	}
	b.WriteString("#")
	v := &c05SelfVisitor{ents: map[string][]string{}}
	boltz.Traverse(tx, "", v)
	ids := make([]string, 0, len(v.ents))
	for id := range v.ents {
		ids = append(ids, id)
	}
	sort.Strings(ids)
	for _, id := range ids {
		b.WriteString(toWire(id) + "[" + strings.Join(v.ents[id], ",") + "];")
	}
	if len(v.extra) > 0 {
		sort.Strings(v.extra)
		b.WriteString("EXTRA:" + strings.Join(v.extra, ","))
	}
	return b.String()
}

func c05SelfExec(line string) string {
	if c05selfEnv == nil {
		c05selfEnv = c05SelfOpen()
	}
	e := c05selfEnv
	e.wipe()
	f := fields(line)
	pool := c05List(f[1])
	var out []string
	for _, txs := range f[2:] {
		ops := strings.Split(txs, ";")
		var results []string
		partial := ""
		err := e.db.Update(boltz.NewMutateContext(context.Background()), func(ctx boltz.MutateContext) error {
			for _, op := range ops {
				r, failed := e.op(ctx, op)
				results = append(results, r)
				if failed {
					partial = e.view(ctx.Tx(), pool)
					return fmt.Errorf("op failed")
				}
			}
			return nil
		})
		if err != nil && partial == "" {
			results = append(results, "commit-error("+strings.ReplaceAll(err.Error(), " ", "_")+")")
		}
		var after string
		_ = e.db.View(func(tx *bbolt.Tx) error {
			after = e.view(tx, pool)
			return nil
		})
		out = append(out, strings.Join(results, ";")+"|"+partial+"|"+after)
	}
	return strings.Join(out, " ")
}

// generator: small pools so that self links, deletes and re-creations meet often; several
// operations per transaction (whether a bucket was written earlier in the same transaction
// decides whether the delete walk skips)
func c05SelfGen(g *c05Gen_, tier string) {
	n := 400
	if tier == "thorough" {
		n = 8000
	}
	r := g.r
	for i := 0; i < n; i++ {
		np := 2 + r.intn(4)
		pool := append([]string{}, c05Alphabet[:np]...)
		if r.chance(1, 4) {
			pool[r.intn(np)] = pick(r, c05IdPool)
			seen := map[string]bool{}
			ok := true
			for _, p := range pool {
				if seen[p] {
					ok = false
				}
				seen[p] = true
			}
			if !ok {
				pool = append([]string{}, c05Alphabet[:np]...)
			}
		}
		keys := func() string {
			m := r.intn(np + 2)
			var ks []string
			for j := 0; j < m; j++ {
				ks = append(ks, pick(r, pool))
			}
			return c05Wires(ks)
		}
		var txs []string
		var first []string
		for _, id := range pool {
			if r.chance(5, 6) {
				first = append(first, "c:"+toWire(id))
			}
		}
		if len(first) > 0 {
			txs = append(txs, strings.Join(first, ";"))
		}
		ntx := 1 + r.intn(5)
		for t := 0; t < ntx; t++ {
			nops := 1 + r.intn(4)
			var ops []string
			for o := 0; o < nops; o++ {
				id := toWire(pick(r, pool))
				k := toWire(pick(r, pool))
				switch w := r.intn(100); {
				case w < 8:
					ops = append(ops, "c:"+id)
				case w < 12:
					ops = append(ops, "cl:"+id+":"+keys())
				case w < 32:
					ops = append(ops, "d:"+id)
				case w < 50:
					ops = append(ops, "al:"+id+":"+keys())
				case w < 58:
					ops = append(ops, "rl:"+id+":"+keys())
				case w < 72:
					ops = append(ops, "sl:"+id+":"+keys())
				case w < 82:
					ops = append(ops, "a1:"+id+":"+k)
				case w < 90:
					ops = append(ops, "r1:"+id+":"+k)
				default:
					ops = append(ops, "gl:"+id)
				}
			}
			txs = append(txs, strings.Join(ops, ";"))
		}
		fmt.Fprintf(g.out, "S %s %s\n", c05Wires(pool), strings.Join(txs, " "))
	}
}

var _ = bufio.NewWriter
