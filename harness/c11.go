package main

import (
	"bufio"
	"fmt"
	"strconv"
	"strings"

	"github.com/openziti/storage/ast"
	"github.com/openziti/storage/zitiql"
)

// C11 cases
//
//	u <lit> <s>                      ParseZqlString(lit)            -> hex of the result
//	e <op> <lit> <s> <field>...      parse `f <op> lit`, EvalBool with f := each field -> bits
//	b <op> <lit> <s> <value>... [E]  the same through Store.QueryIds of a bolt store (c11_bolt.go)
//	d <form> <lit> <s> <lit2> <s2> <field>...   two literals in one filter (or / in / and-ne)
//	m <s> <filter in prefix form> . <field>...  a whole filter with repeated literals under mixed operators (c11_mixed.go)
//	s <s> <filter in prefix form> . <rows>      a whole filter over SET symbols (anyOf / allOf), memory + bolt (c11_sets.go)
//
// <lit> is the quoted literal, built by the *generator* from s with a random choice, per
// control character occurrence, of escaped or raw form (raw control characters are not
// lexable, so `e` cases always escape them); <s> is the intended string.
func init() {
	register("c11", &propHarness{gen: c11Gen, exec: c11Exec})
}

// `*` stands for the characters that mean something in glob / regex / LIKE patterns: in a literal it denotes itself
var c11Alphabet = []string{"a", "n", "t", "\\", "\"", " ", "\n", "\t", "x", "*"}
var c11Extra = []string{"r", "f", "\r", "\f", "é", "and", "\\\\", "\"\"", "'", "%", "世",
	// characters with an ASCII look-alike or no width: a literal must denote them as they are
	// keywords and punctuation of the filter language inside a literal are just characters
	"o", "not", "NOT ", "in", "or", " and ", "null", "true", "contains", "(", ")", "[", "]", ",", "=", "!",
	// pattern metacharacters (glob, regex, SQL LIKE), alone and in the usual shapes
	"*", "*", "%", "_", "?", ".", "^", "$", "~", "/", "|", "+", "{", "}", ".*", "\\*", "[a-z]",
	"\u00a0", "\u202f", "\u201c", "\u201d", "\u2018", "\uff02", "\uff3c", "\u200b", "\ufeff", "e\u0301", "A", "N"}

// c11Confusable maps each character that has an ASCII look-alike (or no width) to it
var c11Confusable = strings.NewReplacer("\u00a0", " ", "\u202f", " ", "\u201c", "\"", "\u201d", "\"", "\u2018", "'",
	"\uff02", "\"", "\uff3c", "\\", "\u200b", "", "\ufeff", "", "e\u0301", "é")

func c11Escape(s string, r *rng, alwaysCtl bool) string {
	var b strings.Builder
	for i := 0; i < len(s); i++ {
		c := s[i]
		esc := alwaysCtl || r == nil || r.chance(1, 2)
		switch {
		case c == '\\':
			b.WriteString(`\\`)
		case c == '"':
			b.WriteString(`\"`)
		case c == '\n' && esc:
			b.WriteString(`\n`)
		case c == '\t' && esc:
			b.WriteString(`\t`)
		case c == '\r' && esc:
			b.WriteString(`\r`)
		case c == '\f' && esc:
			b.WriteString(`\f`)
		default:
			b.WriteByte(c)
		}
	}
	return `"` + b.String() + `"`
}

var c11Ops = []string{"eq", "ne", "in", "nin", "contains", "ncontains"}

// the case-insensitive operators are generated for ASCII-only strings (the model upper-cases ASCII)
var c11OpsAscii = []string{"eq", "ne", "in", "nin", "contains", "ncontains", "icontains", "nicontains", "icontains"}

func c11IsAscii(s string) bool {
	for i := 0; i < len(s); i++ {
		if s[i] >= 0x80 {
			return false
		}
	}
	return true
}

// c11Neighbour returns a string that a normalising front end would identify with s
func c11Neighbour(s string, r *rng) string {
	switch r.intn(5) {
	case 0:
		return strings.ReplaceAll(s, " ", "  ")
	case 1:
		return strings.Join(strings.Fields(s), " ")
	case 2:
		return " " + s
	case 3:
		return s + " "
	default:
		if c11IsAscii(s) {
			if u := strings.ToUpper(s); u != s {
				return u
			}
			return strings.ToLower(s)
		}
		return strings.ReplaceAll(s, " ", "\t")
	}
}

func c11PickOp(r *rng, s string) string {
	if c11IsAscii(s) {
		return pick(r, c11OpsAscii)
	}
	return pick(r, c11Ops)
}

func c11Fields(s string, r *rng) []string {
	// the intended string, the misreadings a faulty unescape would produce, and neighbours
	fs := []string{s}
	repl := strings.NewReplacer(`\n`, "\n", `\t`, "\t", `\r`, "\r", `\f`, "\f")
	fs = append(fs, repl.Replace(s))
	fs = append(fs, strings.ReplaceAll(s, `\\`, `\`))
	fs = append(fs, strings.ReplaceAll(s, `\"`, `"`))
	fs = append(fs, s+"x", "x"+s+"y")
	if c := c11Confusable.Replace(s); c != s {
		fs = append(fs, c)
	}
	if c11IsAscii(s) {
		// what a re-escaped or re-quoted operand would look like, and a case variant
		q := strconv.Quote(s)
		fs = append(fs, q[1:len(q)-1], strings.ToUpper(s), strings.ToLower(s))
	}
	if len(s) > 0 {
		fs = append(fs, s[1:], s[:len(s)-1])
	}
	// what a pattern reading of a metacharacter in s would match (value = literal minus metacharacter + suffix)
	fs = append(fs, c11MetaFields(s)...)
	fs = append(fs, "")
	return fs
}

func c11Emit(out *bufio.Writer, s string, r *rng) {
	lit := c11Escape(s, r, false)
	fmt.Fprintf(out, "u %s %s\n", toWire(lit), toWire(s))
	litE := c11Escape(s, r, true)
	op := c11PickOp(r, s)
	fmt.Fprintf(out, "e %s %s %s", op, toWire(litE), toWire(s))
	for _, f := range c11Fields(s, r) {
		fmt.Fprintf(out, " %s", toWire(f))
	}
	out.WriteByte('\n')
	// two literals in one filter: `f = lit or f = lit2` (and `f in [lit, lit2]`): the value of one literal must not depend
	// on another literal being unescaped after it
	if r.chance(1, 3) {
		s2 := s + pick(r, c11Alphabet)
		if rs := []rune(s); r.chance(1, 2) && len(rs) > 0 {
			s2 = pick(r, c11Alphabet) + string(rs[:len(rs)-1]) // whole characters only: inputs are valid UTF-8
		}
		form := pick(r, []string{"or", "in", "and-ne"})
		fmt.Fprintf(out, "d %s %s %s %s %s", form, toWire(c11Escape(s, r, true)), toWire(s), toWire(c11Escape(s2, r, true)), toWire(s2))
		for _, f := range append(c11Fields(s, r), s2) {
			fmt.Fprintf(out, " %s", toWire(f))
		}
		out.WriteByte('\n')
	}
	// a whole filter with several comparisons whose literals repeat (c11_mixed.go)
	if r.chance(1, 2) {
		c11EmitMixed(out, s, r)
	}
	// a whole filter over set symbols, several comparisons on the same set (c11_sets.go)
	if r.chance(1, c11SetRate) {
		c11EmitSets(out, s, r)
	}
	// the same through a bolt-backed store (ids and a string field), for one string in eight and
	// always for short ones: values must be usable bbolt keys (non-empty) and distinct
	if len(s) <= 2 || r.chance(1, 8) {
		seen := map[string]bool{}
		var vals []string
		for _, f := range c11Fields(s, r) {
			if f != "" && !seen[f] {
				seen[f] = true
				vals = append(vals, f)
			}
		}
		if len(vals) > 0 {
			fmt.Fprintf(out, "b %s %s %s", c11PickOp(r, s), toWire(litE), toWire(s))
			for _, f := range vals {
				fmt.Fprintf(out, " %s", toWire(f))
			}
			out.WriteString(" E\n")
		}
		// two neighbouring literals in sequence on one store: texts that differ only where a normalising
		// front end (blank collapsing, trimming, case folding) would identify them
		if s2 := c11Neighbour(s, r); s2 != s && s2 != "" {
			if !seen[s2] {
				vals = append(vals, s2)
			}
			op := c11PickOp(r, s+s2)
			a, b := s, s2
			if r.chance(1, 2) {
				a, b = s2, s
			}
			if a != "" {
				fmt.Fprintf(out, "c %s %s %s %s %s", op, toWire(c11Escape(a, r, true)), toWire(a), toWire(c11Escape(b, r, true)), toWire(b))
				for _, f := range vals {
					fmt.Fprintf(out, " %s", toWire(f))
				}
				out.WriteString(" E\n")
			}
		}
	}
}

// one string in c11SetRate gets an s case (each costs a bolt database)
var c11SetRate = 4

func c11Gen(tier string, seed uint64, out *bufio.Writer) {
	r := newRng(seed)
	maxLen := 4
	if tier == "thorough" {
		maxLen = 5
		c11SetRate = 8
	}
	// bounded-exhaustive: all strings over the 9-character alphabet up to maxLen
	var rec func(prefix string, n int)
	rec = func(prefix string, n int) {
		c11Emit(out, prefix, r)
		if n == 0 {
			return
		}
		for _, a := range c11Alphabet {
			rec(prefix+a, n-1)
		}
	}
	rec("", maxLen)
	// random longer strings over the wider alphabet
	n := 3000
	if tier == "thorough" {
		n = 60000
	}
	wide := append(append([]string{}, c11Alphabet...), c11Extra...)
	for i := 0; i < n; i++ {
		l := 1 + r.intn(24)
		var b strings.Builder
		for j := 0; j < l; j++ {
			b.WriteString(pick(r, wide))
		}
		c11Emit(out, b.String(), r)
	}
}

var c11Syms = func() *memSymbols {
	m := newMemSymbols()
	m.types["f"] = ast.NodeTypeString
	return m
}()

func c11Exec(line string) string {
	f := fields(line)
	switch f[0] {
	case "u":
		return toWire(zitiql.ParseZqlString(fromWire(f[1])))
	case "e":
		lit := fromWire(f[2])
		var q string
		switch f[1] {
		case "eq":
			q = "f = " + lit
		case "ne":
			q = "f != " + lit
		case "in":
			q = "f in [" + lit + "]"
		case "nin":
			q = "f not in [" + lit + "]"
		case "contains":
			q = "f contains " + lit
		case "ncontains":
			q = "f not contains " + lit
		case "icontains":
			q = "f icontains " + lit
		case "nicontains":
			q = "f not icontains " + lit
		}
		syms := newMemSymbols()
		syms.types["f"] = ast.NodeTypeString
		query, err := ast.Parse(syms, q)
		if err != nil {
			return "parse-error"
		}
		var b strings.Builder
		for _, fv := range f[4:] {
			syms.scalars["f"] = fromWire(fv)
			if query.EvalBool(syms) {
				b.WriteByte('1')
			} else {
				b.WriteByte('0')
			}
		}
		return b.String()
	case "b", "c":
		return c11ExecBolt(f)
	case "m":
		return c11ExecMixed(f)
	case "s":
		return c11ExecSets(f)
	case "d":
		l1, l2 := fromWire(f[2]), fromWire(f[4])
		var q string
		switch f[1] {
		case "or":
			q = "f = " + l1 + " or f = " + l2
		case "in":
			q = "f in [" + l1 + ", " + l2 + "]"
		default:
			q = "f != " + l1 + " and f != " + l2
		}
		syms := newMemSymbols()
		syms.types["f"] = ast.NodeTypeString
		query, err := ast.Parse(syms, q)
		if err != nil {
			return "parse-error"
		}
		var b strings.Builder
		for _, fv := range f[6:] {
			syms.scalars["f"] = fromWire(fv)
			if query.EvalBool(syms) {
				b.WriteByte('1')
			} else {
				b.WriteByte('0')
			}
		}
		return b.String()
	}
	return "bad-case"
}
