package main

import (
	"fmt"
	"strconv"
	"strings"
	"sync"
	"sync/atomic"

	"github.com/openziti/storage/ast"
	"go.etcd.io/bbolt"
)

// C18 round 4: one COMPILED query evaluated by several read transactions at once.
//
//	sq <readers> <rounds> <seed> <tx> <tx> ...
//	    the transactions are committed first.  Baseline (token s.0): every text of c18SharedTexts parsed and run by the
//	    harness alone (observation kind S<j>).  Then <rounds> rounds: every text is parsed ONCE (ast.Parse), the resulting
//	    query objects are handed to <readers> goroutines which are released together; each, inside its own read
//	    transaction, runs every shared object through QueryIdsC (each reader starts at another text).  A parsed node is
//	    therefore used for the first time by several goroutines at the same moment, <rounds> times.  Every text spells out
//	    skip AND limit, so scanner.setPaging stores nothing in the query: evaluation of such a query is read-only in the
//	    code as it is, and the answers must be the serial ones.  Recorded: baseline, round 0 of every reader, and (<= 3 per
//	    reader) every read transaction with an answer that differs from the baseline; output format and verdict as for cr.
//
// The texts cover the node classes that could keep evaluation state: `in [...]` over string / int / float arrays, between,
// icontains (upper-cased constant), set functions, a composite set symbol, a sub-query with its own paging, an external
// and a map symbol, negation, and the sorting scanner.
var c18SharedTexts = []string{
	/* 0 */ `name in ["n100", "n121", "n150", "n162", "zz"] skip 0 limit 1000`,
	/* 1 */ `rank in [1, 3, 5] skip 0 limit 1000`,
	/* 2 */ `rank in [0.0, 2.0, 4.5] skip 0 limit 1000`,
	/* 3 */ `rank between 1 and 3 skip 0 limit 1000`,
	/* 4 */ `name icontains "N1" skip 0 limit 1000`,
	/* 5 */ `anyOf(roles) = "r1" skip 0 limit 1000`,
	/* 6 */ `isEmpty(roles) skip 0 limit 1000`,
	/* 7 */ `anyOf(groups.label) = "L1" skip 0 limit 1000`,
	/* 8 */ `count(from groups where label = "L1" skip 0 limit 10) > 0 skip 0 limit 1000`,
	/* 9 */ `even = true and tags.site.name in ["s0", "s1"] skip 0 limit 1000`,
	/* 10 */ `anyOf(roles) in ["r0", "r2"] skip 0 limit 1000`,
	/* 11 */ `not (name in ["n100", "n110", "n120"]) and rank >= 2 skip 0 limit 1000`,
	/* 12 */ `true sort by rank desc skip 1 limit 3`,
	/* 13 */ `name not in ["n100", "n131"] and name contains "n1" skip 0 limit 1000`,
	// round 9: sorted on 1..8 fields (text 13+k has k sort fields, the first is never id: the sorting scanner runs and
	// newRowComparator appends its terminal `id` field to what GetSortFields handed out); fields with ties first so that
	// every position of the list decides some pair of rows; ext is nil for some rows (nil sorts first)
	/* 14 */ `true sort by rank skip 0 limit 1000`,
	/* 15 */ `true sort by even desc, rank skip 0 limit 1000`,
	/* 16 */ `rank >= 1 sort by even, rank desc, name desc skip 1 limit 20`,
	/* 17 */ `true sort by rank, even, ext desc, name skip 0 limit 1000`,
	/* 18 */ `true sort by even, rank desc, even desc, ext, name desc skip 2 limit 30`,
	/* 19 */ `rank >= 2 sort by rank, rank desc, even, ext desc, ext, name skip 0 limit 1000`,
	/* 20 */ `true sort by ext, even desc, rank, rank, even, ext desc, name desc skip 0 limit 7`,
	/* 21 */ `true sort by even, ext, rank desc, even desc, ext desc, rank, name, name desc skip 3 limit 1000`,
}

// c18SortFieldsTwice is observation kind O<k> (k = 1..8 sort fields): what two scans of ONE parsed query do with its sort
// fields, played in one goroutine - caller 1 takes GetSortFields() and appends its own terminal field (as newRowComparator
// does), caller 2 does the same with another element, then caller 1 looks at what it holds.
// answer: len(mine) . mine[k] is my element . len(theirs) . theirs[k] is their element
func (e *c18Env) c18SortFieldsTwice(k int) string {
	if k < 1 || 13+k >= len(c18SharedTexts) {
		return "bad-q"
	}
	q, err := ast.Parse(e.things, c18SharedTexts[13+k])
	if err != nil {
		return "err"
	}
	mineExtra := ast.NewSortFieldNode("id", true)
	theirsExtra := ast.NewSortFieldNode("name", false)
	mine := append(q.GetSortFields(), mineExtra)
	theirs := append(q.GetSortFields(), theirsExtra)
	b := func(ok bool) int {
		if ok {
			return 1
		}
		return 0
	}
	return fmt.Sprintf("%d.%d.%d.%d", len(mine), b(len(mine) == k+1 && mine[k] == ast.SortField(mineExtra)), len(theirs), b(len(theirs) == k+1 && theirs[k] == ast.SortField(theirsExtra)))
}

func (e *c18Env) runShared(tx *bbolt.Tx, q ast.Query) string {
	ids, _, err := e.things.QueryIdsC(tx, q)
	if err != nil {
		return "err"
	}
	return c18IdNums(ids)
}

func c18Sq(f []string) string {
	if len(f) < 4 {
		return "bad-case"
	}
	readers, _ := strconv.Atoi(f[1])
	rounds, _ := strconv.Atoi(f[2])
	txs := f[4:]
	e, err := c18Open()
	if err != nil {
		return "setup-failed " + err.Error()
	}
	defer e.close()
	if _, werr := e.runWriter(txs, false); werr != "" {
		return werr
	}
	n := len(c18SharedTexts)
	baseline := make([]string, n)
	var baseTok string
	setupErr := ""
	_ = e.db.View(func(tx *bbolt.Tx) error {
		tagS := c18Tag(tx)
		obs := make([]string, 0, n)
		for j, text := range c18SharedTexts {
			q, err := ast.Parse(e.things, text)
			if err != nil {
				setupErr = fmt.Sprintf("parse-error:%d:%s", j, strings.ReplaceAll(err.Error(), " ", "_"))
				return nil
			}
			if q.GetSkip() == nil || q.GetLimit() == nil || *q.GetLimit() < 0 {
				setupErr = fmt.Sprintf("paging-not-explicit:%d", j)
				return nil
			}
			baseline[j] = e.runShared(tx, q)
			obs = append(obs, fmt.Sprintf("S%d=%s", j, baseline[j]))
		}
		baseTok = fmt.Sprintf("s.0:%d:%d:%s", tagS, c18Tag(tx), strings.Join(obs, "|"))
		return nil
	})
	if setupErr != "" {
		return setupErr
	}
	logs := make([][]string, readers)
	deviating := make([]int, readers)
	var problem atomic.Value
	for round := 0; round < rounds; round++ {
		shared := make([]ast.Query, n)
		for j, text := range c18SharedTexts {
			q, err := ast.Parse(e.things, text)
			if err != nil {
				return "parse-error-in-round"
			}
			shared[j] = q
		}
		var ready, done sync.WaitGroup
		start := make(chan struct{})
		for ri := 0; ri < readers; ri++ {
			ready.Add(1)
			done.Add(1)
			ri := ri
			go func() {
				defer done.Done()
				defer func() {
					if rec := recover(); rec != nil {
						problem.Store(fmt.Sprintf("reader-panic:%v", rec))
					}
				}()
				differs := false
				var tok string
				err := e.db.View(func(tx *bbolt.Tx) error {
					tagS := c18Tag(tx)
					ready.Done()
					<-start
					obs := make([]string, 0, n)
					for k := 0; k < n; k++ {
						// readers walk the texts in the same order (offset by a few) so that they meet on the same node
						j := (k + ri%2) % n
						a := e.runShared(tx, shared[j])
						if a != baseline[j] {
							differs = true
						}
						obs = append(obs, fmt.Sprintf("S%d=%s", j, a))
					}
					tok = fmt.Sprintf("%d.%d:%d:%d:%s", ri, round, tagS, c18Tag(tx), strings.Join(obs, "|"))
					return nil
				})
				if err != nil {
					problem.Store("view-error:" + err.Error())
					return
				}
				if round == 0 || (differs && deviating[ri] < 3) {
					logs[ri] = append(logs[ri], tok)
					if differs {
						deviating[ri]++
					}
				}
			}()
		}
		ready.Wait()
		close(start)
		done.Wait()
		if problem.Load() != nil {
			break
		}
	}
	if p := problem.Load(); p != nil {
		return strings.ReplaceAll(p.(string), " ", "_")
	}
	final := int64(-1)
	_ = e.db.View(func(tx *bbolt.Tx) error { final = c18Tag(tx); return nil })
	out := []string{fmt.Sprintf("v%d", final), baseTok}
	for _, l := range logs {
		out = append(out, l...)
	}
	return strings.Join(out, " ")
}

func c18GenSq(r *rng, rounds int) string {
	line := c18GenCr(r, []string{"S"}, rounds) // cr <readers> <rounds> <seed> S <txs...>
	f := strings.SplitN(line, " ", 6)
	return fmt.Sprintf("sq %d %s %s %s", 3+r.intn(3), f[2], f[3], f[5])
}
