package main

// Shared by C02 (paging / sorting of the bolt store) and C19 (objectz = bolt).
//
// One dataset is loaded into a real bolt store "things" and into an objectz.ObjectStore:
//
//	id     string (bucket key / id symbol)
//	b      bool      nullable            symbol type Bool
//	i      int64     nullable            symbol type Int64
//	n      int32     nullable            symbol type Int64 (stored as int32: FieldToInt64 widens)
//	f      float64   nullable            symbol type Float64
//	s      string    nullable            symbol type String
//	t      time.Time nullable            symbol type Datetime
//	roles  []string                      set symbol + set index (bolt only; cursor providers)
//
// and two child stores of "things" (bolt only): "child" (plain, path ext1) and "ext" (extended, path
// ext2).  A row is created through the root store, the plain child store or the extended child
// store according to its last field, so that the scanners' child-store test has something to skip.
//
// Wire format of a dataset: "-" = the entities bucket does not exist; "0" = bucket exists, no rows
// (one entity created and deleted); otherwise rows joined by ";", a row = id,b,i,n,f,s,t,roles,child with
//
//	N null | bool 0/1 | ints decimal | float 16 hex digits (IEEE bits) | string S<hex> | time
//	decimal Unix nanoseconds | roles R<r1>.<r2>... | child C (root only), C1 (plain child data), C2 (extended child data)
//
// Any of the six value columns may instead hold a TYPED token — the value is then stored under the
// column's key with the token's own type, whatever the column's symbol type is (the typed bucket
// admits any type under any key; the symbol reads it through FieldTo<symbol type>):
//
//	B0/B1 bool | I<dec> int64 | J<dec> int32 | F<16 hex>x<hex of FormatFloat(v,'f',-1,64)> float64 |
//	S<hex> string | T<dec> time

import (
	"context"
	"fmt"
	"math"
	"os"
	"path/filepath"
	"sort"
	"strconv"
	"strings"
	"time"

	"github.com/openziti/foundation/v2/errorz"
	"github.com/openziti/storage/ast"
	"github.com/openziti/storage/boltz"
	"github.com/openziti/storage/objectz"
	"go.etcd.io/bbolt"
)

type pgThing struct {
	Id    string
	B     *bool
	I     *int64
	N     *int32
	F     *float64
	S     *string
	T     *time.Time
	Roles []string
	Child string  // "", "1" (plain child data) or "2" (extended child data)
	Owner *string // fk to the owners store (bolt only)
	// explicit nil marker (SetNil) instead of an absent key, for odd rows
	explicitNil bool
	// columns whose stored type differs from the column's native type: key -> typed value
	over map[string]*pgTyped
}

type pgTyped struct {
	kind byte // B I J F S T
	b    bool
	i    int64
	f    float64
	s    string
	t    time.Time
}

// pgTypedTok parses a typed field token; ok = false for the positional (untyped) forms.
func pgTypedTok(tok string) (*pgTyped, bool) {
	if len(tok) == 0 || !strings.ContainsRune("BIJFST", rune(tok[0])) {
		return nil, false
	}
	v := &pgTyped{kind: tok[0]}
	body := tok[1:]
	switch tok[0] {
	case 'B':
		v.b = body == "1"
	case 'I':
		v.i, _ = strconv.ParseInt(body, 10, 64)
	case 'J':
		v.i, _ = strconv.ParseInt(body, 10, 32)
	case 'F':
		bits, _ := strconv.ParseUint(strings.SplitN(body, "x", 2)[0], 16, 64)
		v.f = math.Float64frombits(bits)
	case 'S':
		v.s = fromWire(orDash(body))
	case 'T':
		v.t = pgTimeOf(body)
	}
	return v, true
}

// pgFloatTok renders a typed float token (bits + the text strconv prints, computed here, outside /repo).
func pgFloatTok(v float64) string {
	return fmt.Sprintf("F%016xx%s", math.Float64bits(v), strings.TrimPrefix(toWire(strconv.FormatFloat(v, 'f', -1, 64)), "-"))
}

func (v *pgTyped) persist(name string, ctx *boltz.PersistContext) {
	switch v.kind {
	case 'B':
		ctx.Bucket.SetBool(name, v.b, ctx.FieldChecker)
	case 'I':
		ctx.Bucket.SetInt64(name, v.i, ctx.FieldChecker)
	case 'J':
		ctx.Bucket.SetInt32(name, int32(v.i), ctx.FieldChecker)
	case 'F':
		ctx.Bucket.SetFloat64(name, v.f, ctx.FieldChecker)
	case 'S':
		ctx.Bucket.SetString(name, v.s, ctx.FieldChecker)
	case 'T':
		ctx.Bucket.SetTime(name, v.t, ctx.FieldChecker)
	}
}

func (e *pgThing) GetId() string         { return e.Id }
func (e *pgThing) SetId(id string)       { e.Id = id }
func (e *pgThing) GetEntityType() string { return "things" }

type pgStrategy struct{}

func (pgStrategy) NewEntity() *pgThing                         { return &pgThing{} }
func (pgStrategy) FillEntity(e *pgThing, b *boltz.TypedBucket) {}
func (pgStrategy) PersistEntity(e *pgThing, ctx *boltz.PersistContext) {
	null := func(name string) {
		if e.explicitNil {
			ctx.Bucket.SetNil(name)
		}
	}
	for name, v := range e.over {
		v.persist(name, ctx)
	}
	if e.over["b"] != nil {
	} else if e.B != nil {
		ctx.SetBool("b", *e.B)
	} else {
		null("b")
	}
	if e.over["i"] != nil {
	} else if e.I != nil {
		ctx.SetInt64("i", *e.I)
	} else {
		null("i")
	}
	if e.over["n"] != nil {
	} else if e.N != nil {
		ctx.SetInt32("n", *e.N)
	} else {
		null("n")
	}
	if e.over["f"] != nil {
	} else if e.F != nil {
		ctx.Bucket.SetFloat64("f", *e.F, ctx.FieldChecker)
	} else {
		null("f")
	}
	if e.over["s"] != nil {
	} else if e.S != nil {
		ctx.SetString("s", *e.S)
	} else {
		null("s")
	}
	if e.over["t"] != nil {
	} else if e.T != nil {
		ctx.SetTimeP("t", e.T)
	} else {
		null("t")
	}
	ctx.SetStringList("roles", e.Roles)
	ctx.SetStringP("owner", e.Owner)
	// the map symbol `tags`: one element k mirroring the string field (sorting on tags.k is refused, the
	// values only matter if a comparator were ever built for it)
	tags := map[string]interface{}{}
	if e.S != nil {
		tags["k"] = *e.S
	}
	ctx.SetMap("tags", tags)
}

// pgAliases: a second set of symbol names for the six stored fields (AddSymbolWithKey / the object stores' map keys):
// names that contain or end in ZitiQL keywords (asc, desc, by, sort, limit, skip, none, not, in, and, or, contains,
// between, from, where, null, true, isEmpty), in mixed case, with an underscore, and one quoted identifier that IS a
// keyword.  Symbol names are opaque to the engine: an alias must behave exactly like the name it stands for.
var pgAliases = [][2]string{
	{"shortDesc", "s"},
	{"sortBy", "s"},
	{"nota", "s"},
	{"'desc'", "s"},
	{"ShortDESC", "s"},
	{"containsx", "s"},
	{"idx", "i"},
	{"inx", "i"},
	{"limitX", "i"},
	{"android", "i"},
	{"iDesc", "i"},
	{"skipper", "n"},
	{"basc", "n"},
	{"ore", "n"},
	{"byB", "b"},
	{"nullable", "b"},
	{"isEmptyB", "b"},
	{"trueish", "b"},
	{"fdesc", "f"},
	{"ascending", "f"},
	{"noneF", "f"},
	{"betweenx", "f"},
	{"descT", "t"},
	{"fromT", "t"},
	{"whereabouts", "t"},
	{"t_desc", "t"},
}

func pgBaseOf(name string) string {
	for _, a := range pgAliases {
		if a[0] == name {
			return a[1]
		}
	}
	return name
}

func pgAliasesOf(base string) []string {
	var out []string
	for _, a := range pgAliases {
		if a[1] == base {
			out = append(out, a[0])
		}
	}
	return out
}

// pgOwner: the store the fk `things.owner` points to; its fk set symbol `things` is the back-reference
// list the fk index maintains (GetRelatedEntitiesCursor, OpenSetCursorForQuery).
type pgOwner struct {
	Id    string
	Label *string
}

func (e *pgOwner) GetId() string         { return e.Id }
func (e *pgOwner) SetId(id string)       { e.Id = id }
func (e *pgOwner) GetEntityType() string { return "owners" }

type pgOwnerStrategy struct{}

func (pgOwnerStrategy) NewEntity() *pgOwner                         { return &pgOwner{} }
func (pgOwnerStrategy) FillEntity(e *pgOwner, b *boltz.TypedBucket) {}
func (pgOwnerStrategy) PersistEntity(e *pgOwner, ctx *boltz.PersistContext) {
	ctx.SetStringP("label", e.Label)
}

// the owners every dataset has: o1 (label "x"), o2 (no label), o3 (label "a")
var pgOwnerIds = []string{"o1", "o2", "o3"}

type pgChild struct {
	pgThing
	Code string
}

type pgChildStrategy struct{ parent *boltz.BaseStore[*pgThing] }

func (s *pgChildStrategy) NewEntity() *pgChild                         { return &pgChild{} }
func (s *pgChildStrategy) FillEntity(e *pgChild, b *boltz.TypedBucket) {}
func (s *pgChildStrategy) PersistEntity(e *pgChild, ctx *boltz.PersistContext) {
	s.parent.GetEntityStrategy().PersistEntity(&e.pgThing, ctx.GetParentContext())
	ctx.SetString("code", e.Code)
}

func pgParentMapper(entity boltz.Entity) boltz.Entity {
	if e, ok := entity.(*pgChild); ok {
		return &e.pgThing
	}
	return entity
}

type pgStores struct {
	dir      string
	db       *bbolt.DB
	things   *boltz.BaseStore[*pgThing]
	child    *boltz.BaseStore[*pgChild]
	ext      *boltz.BaseStore[*pgChild]
	owners   *boltz.BaseStore[*pgOwner]
	idxRoles boltz.SetReadIndex
	rows     []*pgThing
	objs     *objectz.ObjectStore[*pgThing]
	objsSub  *objectz.ObjectStore[*pgThing] // declares only id, s, i
	objsNoId *objectz.ObjectStore[*pgThing] // declares everything but id
	objOrder []*pgThing                     // iteration order of the object store
	useMap   bool                           // iterate with objectz.IterateMap (Go map order) instead of objOrder
	nilIter  bool                           // the iterator function returns nil
}

type pgSliceIter struct {
	xs  []*pgThing
	pos int
}

func (it *pgSliceIter) IsValid() bool { return it.pos < len(it.xs) }
func (it *pgSliceIter) Next()         { it.pos++ }
func (it *pgSliceIter) Current() *pgThing {
	if it.pos < len(it.xs) {
		return it.xs[it.pos]
	}
	return nil
}

func pgParseRows(ds string) []*pgThing {
	if ds == "-" || ds == "0" {
		return nil
	}
	var rows []*pgThing
	for idx, r := range strings.Split(ds, ";") {
		f := strings.Split(r, ",")
		e := &pgThing{Id: f[0], explicitNil: idx%2 == 1}
		// typed tokens: native type of the column -> the struct field, any other type -> override
		native := map[int]byte{1: 'B', 2: 'I', 3: 'J', 4: 'F', 5: 'S', 6: 'T'}
		names := map[int]string{1: "b", 2: "i", 3: "n", 4: "f", 5: "s", 6: "t"}
		for c := 1; c <= 6; c++ {
			if v, ok := pgTypedTok(f[c]); ok {
				if v.kind == native[c] {
					switch c {
					case 1:
						f[c] = map[bool]string{true: "1", false: "0"}[v.b]
					case 2, 3:
						f[c] = strconv.FormatInt(v.i, 10)
					case 4:
						f[c] = fmt.Sprintf("%016x", math.Float64bits(v.f))
					case 6:
						f[c] = f[c][1:]
					}
				} else {
					if e.over == nil {
						e.over = map[string]*pgTyped{}
					}
					e.over[names[c]] = v
					f[c] = "N"
				}
			}
		}
		if f[1] != "N" {
			v := f[1] == "1"
			e.B = &v
		}
		if f[2] != "N" {
			v, _ := strconv.ParseInt(f[2], 10, 64)
			e.I = &v
		}
		if f[3] != "N" {
			v, _ := strconv.ParseInt(f[3], 10, 32)
			w := int32(v)
			e.N = &w
		}
		if f[4] != "N" {
			bits, _ := strconv.ParseUint(f[4], 16, 64)
			v := math.Float64frombits(bits)
			e.F = &v
		}
		if f[5] != "N" {
			v := fromWire(orDash(f[5][1:]))
			e.S = &v
		}
		if f[6] != "N" {
			v := pgTimeOf(f[6])
			e.T = &v
		}
		if len(f[7]) > 1 {
			e.Roles = strings.Split(f[7][1:], ".")
		}
		if len(f) > 8 {
			e.Child = f[8][1:]
		}
		if len(f) > 9 && len(f[9]) > 1 {
			o := f[9][1:]
			e.Owner = &o
		}
		rows = append(rows, e)
	}
	return rows
}

func orDash(s string) string {
	if s == "" {
		return "-"
	}
	return s
}

var pgCache *pgStores
var pgCacheKey string

// pgLoad returns the stores for a dataset, reusing the previous ones when the dataset is the same
// (the generator emits many queries per dataset in a row).
func pgLoad(ds string) *pgStores {
	if pgCache != nil && pgCacheKey == ds {
		return pgCache
	}
	pgClose()
	dir, err := os.MkdirTemp("", "verif-*")
	if err != nil {
		panic(err)
	}
	db, err := bbolt.Open(filepath.Join(dir, "db"), 0o600, &bbolt.Options{NoSync: true, NoFreelistSync: true, Timeout: time.Second})
	if err != nil {
		panic(err)
	}
	// the database file stays usable through bbolt's open descriptor; removing the directory now
	// means nothing is left behind when the process ends with the last dataset still cached
	_ = os.RemoveAll(dir)
	s := &pgStores{dir: dir, db: db}
	s.things = boltz.NewBaseStore(boltz.StoreDefinition[*pgThing]{
		EntityType:     "things",
		EntityStrategy: pgStrategy{},
		BasePath:       []string{"u"},
		EntityNotFoundF: func(id string) error {
			return boltz.NewNotFoundError("thing", "id", id)
		},
	})
	s.things.InitImpl(s.things)
	s.things.AddIdSymbol("id", ast.NodeTypeString)
	s.things.AddSymbol("b", ast.NodeTypeBool)
	s.things.AddSymbol("i", ast.NodeTypeInt64)
	s.things.AddSymbol("n", ast.NodeTypeInt64)
	s.things.AddSymbol("f", ast.NodeTypeFloat64)
	s.things.AddSymbol("s", ast.NodeTypeString)
	s.things.AddSymbol("t", ast.NodeTypeDatetime)
	for _, a := range pgAliases {
		s.things.AddSymbolWithKey(a[0], map[string]ast.NodeType{"b": ast.NodeTypeBool, "i": ast.NodeTypeInt64, "n": ast.NodeTypeInt64,
			"f": ast.NodeTypeFloat64, "s": ast.NodeTypeString, "t": ast.NodeTypeDatetime}[a[1]], a[1])
	}
	s.things.AddSymbolWithKey("a", ast.NodeTypeAnyType, "s")
	s.things.AddMapSymbol("tags", ast.NodeTypeAnyType, "tags")
	symRoles := s.things.AddSetSymbol("roles", ast.NodeTypeString)
	s.idxRoles = s.things.AddSetIndex(symRoles)
	s.owners = boltz.NewBaseStore(boltz.StoreDefinition[*pgOwner]{
		EntityType:     "owners",
		EntityStrategy: pgOwnerStrategy{},
		BasePath:       []string{"u"},
		EntityNotFoundF: func(id string) error {
			return boltz.NewNotFoundError("owner", "id", id)
		},
	})
	s.owners.InitImpl(s.owners)
	s.owners.AddIdSymbol("id", ast.NodeTypeString)
	s.owners.AddSymbol("label", ast.NodeTypeString)
	symOwnerThings := s.owners.AddFkSetSymbol("things", s.things)
	symOwner := s.things.AddFkSymbol("owner", s.owners)
	s.things.AddNullableFkIndex(symOwner, symOwnerThings)
	notFound := func(id string) error { return boltz.NewNotFoundError("thing", "id", id) }
	s.child = boltz.NewBaseStore(boltz.StoreDefinition[*pgChild]{
		EntityStrategy: &pgChildStrategy{parent: s.things}, BasePath: []string{"ext1"}, Parent: s.things,
		ParentMapper: pgParentMapper, EntityNotFoundF: notFound,
	})
	s.child.InitImpl(s.child)
	s.ext = boltz.NewBaseStore(boltz.StoreDefinition[*pgChild]{
		EntityStrategy: &pgChildStrategy{parent: s.things}, BasePath: []string{"ext2"}, Parent: s.things,
		ParentMapper: pgParentMapper, EntityNotFoundF: notFound,
	}).Extended()
	s.ext.InitImpl(s.ext)
	s.things.GrantSymbols(s.child)
	s.things.GrantSymbols(s.ext)
	s.child.AddSymbol("code", ast.NodeTypeString)
	s.ext.AddSymbol("code", ast.NodeTypeString)

	s.rows = pgParseRows(ds)
	err = db.Update(func(tx *bbolt.Tx) error {
		h := &errorz.ErrorHolderImpl{}
		s.things.InitializeIndexes(tx, h)
		s.owners.InitializeIndexes(tx, h)
		if h.Err != nil {
			return h.Err
		}
		ctx := boltz.NewTxMutateContext(context.Background(), tx)
		x, a := "x", "a"
		for i, lbl := range []*string{&x, nil, &a} {
			if err := s.owners.Create(ctx, &pgOwner{Id: pgOwnerIds[i], Label: lbl}); err != nil {
				return err
			}
		}
		return nil
	})
	if err != nil {
		panic(err)
	}
	if ds != "-" {
		err = db.Update(func(tx *bbolt.Tx) error {
			ctx := boltz.NewTxMutateContext(context.Background(), tx)
			if ds == "0" {
				if err := s.things.Create(ctx, &pgThing{Id: "tmp"}); err != nil {
					return err
				}
				return s.things.DeleteById(ctx, "tmp")
			}
			for _, e := range s.rows {
				var err error
				switch e.Child {
				case "1":
					err = s.child.Create(ctx, &pgChild{pgThing: *e, Code: "c"})
				case "2":
					err = s.ext.Create(ctx, &pgChild{pgThing: *e, Code: "x"})
				default:
					err = s.things.Create(ctx, e)
				}
				if err != nil {
					return err
				}
			}
			return nil
		})
		if err != nil {
			panic(err)
		}
	}

	s.objOrder = append([]*pgThing{}, s.rows...)
	iter := func() objectz.ObjectIterator[*pgThing] {
		if s.nilIter {
			return nil
		}
		if s.useMap {
			m := map[string]*pgThing{}
			for _, e := range s.rows {
				m[e.Id] = e
			}
			return objectz.IterateMap(m)
		}
		return &pgSliceIter{xs: s.objOrder}
	}
	// three object stores over the same collection: every Add…Symbol kind / a subset of the symbols / no id symbol
	s.objs = objectz.NewObjectStore(iter)
	s.objsSub = objectz.NewObjectStore(iter)
	s.objsNoId = objectz.NewObjectStore(iter)
	for _, o := range []*objectz.ObjectStore[*pgThing]{s.objs, s.objsSub} {
		o.AddStringSymbol("id", func(e *pgThing) *string { return &e.Id })
	}
	for _, o := range []*objectz.ObjectStore[*pgThing]{s.objs, s.objsNoId} {
		o.AddBoolSymbol("b", func(e *pgThing) *bool { return e.B })
		o.AddInt64Symbol("n", func(e *pgThing) *int64 {
			if e.N == nil {
				return nil
			}
			v := int64(*e.N)
			return &v
		})
		o.AddFloat64Symbol("f", func(e *pgThing) *float64 { return e.F })
		o.AddDatetimeSymbol("t", func(e *pgThing) *time.Time { return e.T })
	}
	for _, o := range []*objectz.ObjectStore[*pgThing]{s.objs, s.objsSub, s.objsNoId} {
		o.AddInt64Symbol("i", func(e *pgThing) *int64 { return e.I })
		o.AddStringSymbol("s", func(e *pgThing) *string { return e.S })
	}
	// the alias names (map keys of the object store's symbol table) in the stores that declare every field
	for _, o := range []*objectz.ObjectStore[*pgThing]{s.objs, s.objsNoId} {
		for _, a := range pgAliases {
			switch a[1] {
			case "b":
				o.AddBoolSymbol(a[0], func(e *pgThing) *bool { return e.B })
			case "i":
				o.AddInt64Symbol(a[0], func(e *pgThing) *int64 { return e.I })
			case "n":
				o.AddInt64Symbol(a[0], func(e *pgThing) *int64 {
					if e.N == nil {
						return nil
					}
					v := int64(*e.N)
					return &v
				})
			case "f":
				o.AddFloat64Symbol(a[0], func(e *pgThing) *float64 { return e.F })
			case "s":
				o.AddStringSymbol(a[0], func(e *pgThing) *string { return e.S })
			case "t":
				o.AddDatetimeSymbol(a[0], func(e *pgThing) *time.Time { return e.T })
			}
		}
	}

	pgCache, pgCacheKey = s, ds
	return s
}

func pgClose() {
	if pgCache != nil {
		_ = pgCache.db.Close()
		_ = os.RemoveAll(pgCache.dir)
		pgCache = nil
	}
}

// ------------------------------------------------------------------ query text

var pgOpText = map[string]string{"eq": "=", "ne": "!=", "lt": "<", "le": "<=", "gt": ">", "ge": ">="}

func pgConstText(field, tok string) string {
	switch pgBaseOf(field) {
	case "b":
		if tok == "1" {
			return "true"
		}
		return "false"
	case "i", "n":
		return tok
	case "f":
		bits, _ := strconv.ParseUint(tok, 16, 64)
		s := strconv.FormatFloat(math.Float64frombits(bits), 'f', -1, 64)
		if !strings.Contains(s, ".") {
			s += ".0"
		}
		return s
	case "t":
		return "datetime(" + pgTimeOf(tok).Format(time.RFC3339Nano) + ")"
	}
	// string symbols, the id, and names the stores do not know: a string constant
	return strconv.Quote(fromWire(orDash(tok[1:])))
}

func pgAtomText(atom string) string {
	f := strings.Split(atom, ".")
	switch f[0] {
	case "true":
		return "true"
	case "null":
		return f[1] + " = null"
	case "notnull":
		return f[1] + " != null"
	case "cmp":
		return f[1] + " " + pgOpText[f[2]] + " " + pgConstText(f[1], f[3])
	case "setfn":
		// a set function applied to symbol f[2]
		switch f[1] {
		case "anyOf", "allOf":
			return f[1] + "(" + f[2] + ") = \"a\""
		case "count":
			return "count(" + f[2] + ") > 0"
		default:
			return "isEmpty(" + f[2] + ")"
		}
	}
	return atom
}

// pgFilterText renders a filter token: an atom, or prefix notation over "~": and~A~B, or~A~B, not~A
func pgFilterText(filter string) string {
	toks := strings.Split(filter, "~")
	var rec func() string
	rec = func() string {
		if len(toks) == 0 {
			return "true"
		}
		t := toks[0]
		toks = toks[1:]
		switch t {
		case "and", "or":
			a := rec()
			b := rec()
			return "(" + a + " " + t + " " + b + ")"
		case "not":
			return "(not (" + rec() + "))"
		}
		return pgAtomText(t)
	}
	return rec()
}

// pgQueryText renders filter / sort / skip / limit tokens as ZitiQL.
func pgQueryText(filter, sortTok, skip, limit string) string {
	var parts []string
	parts = append(parts, pgFilterText(filter))
	if sortTok != "-" {
		var fs []string
		for _, sf := range strings.Split(sortTok, ",") {
			name, dir := sf[:len(sf)-1], sf[len(sf)-1]
			switch dir {
			case '+':
				fs = append(fs, name+" ASC")
			case '-':
				fs = append(fs, name+" DESC")
			case '^':
				fs = append(fs, name+" asc")
			case '*':
				fs = append(fs, name+" desc")
			case '!':
				fs = append(fs, name+" DeSc")
			default: // '~' : no direction keyword (ascending by default)
				fs = append(fs, name)
			}
		}
		parts = append(parts, "sort by "+strings.Join(fs, ", "))
	}
	num := func(tok string) string {
		if tok == "x" {
			return "1.5"
		}
		if tok == "big" {
			return "9223372036854775808"
		}
		return tok
	}
	if skip != "-" {
		parts = append(parts, "skip "+num(skip))
	}
	if limit != "-" {
		parts = append(parts, "limit "+num(limit))
	}
	return strings.Join(parts, " ")
}

// pgErr maps an error to a small enum: the three refusals of newRowComparator by kind, anything else "err".
func pgErr(err error) string {
	msg := err.Error()
	switch {
	case strings.HasPrefix(msg, "no such sort field"):
		return "err:nosuch"
	case strings.HasPrefix(msg, "invalid sort field"):
		return "err:set"
	case strings.HasPrefix(msg, "unsupported sort field type"):
		return "err:type"
	}
	return "err"
}

func pgIds(ids []string, count int64, err error) string {
	if err != nil {
		return pgErr(err)
	}
	return strings.Join(ids, ",") + "#" + strconv.FormatInt(count, 10)
}

func pgThingIds(xs []*pgThing) []string {
	var ids []string
	for _, e := range xs {
		ids = append(ids, e.Id)
	}
	return ids
}

// ------------------------------------------------------------------ generator pieces

var pgIdPool = []string{"a", "aa", "ab", "b", "b0", "c", "d", "e", "f", "g", "zz"}
var pgBoolPool = []string{"N", "0", "1", "1"}
var pgIntPool = []string{"N", "-1", "0", "7", "7", "9223372036854775807", "-9223372036854775808"}
var pgInt32Pool = []string{"N", "-1", "0", "7", "2147483647"}

// -1.5, -0.0, +0.0, 0.5, 2.5, +Inf, -Inf, 0.5 again, NaN (two bit patterns: NaNs tie with each other and sort before every number)
var pgFloatPool = []string{"N", "bff8000000000000", "8000000000000000", "0000000000000000", "3fe0000000000000", "4004000000000000", "7ff0000000000000", "fff0000000000000", "3fe0000000000000",
	"7ff8000000000001", "fff8000000000000", "7ff8000000000001"}
var pgFloatConsts = []string{"bff8000000000000", "0000000000000000", "3fe0000000000000", "4004000000000000"}
var pgStrPool = []string{"N", "S", "S61", "S42", "S6162", "S62", "S61"}
var pgStrConsts = []string{"S", "S61", "S6162", "S62"}

// 2020-01-01T00:00:00Z, 2021-03-04T05:06:07Z, +1ns, 1969-12-31T23:59:59Z
var pgTimePool = []string{"N", "1577836800000000000", "1614834367000000000", "1614834367000000001", "-1000000000", "1614834367000000000", pgZeroTime}
var pgTimeConsts = []string{"1577836800000000000", "1614834367000000000", "-1000000000", pgZeroTime}

// pgZeroTime is the zero time.Time (January 1, year 1 UTC) in nanoseconds since the Unix epoch; it does not fit an
// int64, so it travels as this decimal string (the Lean side reads an unbounded Int).  A non-nil pointer to the zero
// time is a value, not null.
const pgZeroTime = "-62135596800000000000"

func pgTimeOf(tok string) time.Time {
	if tok == pgZeroTime {
		return time.Time{}
	}
	ns, _ := strconv.ParseInt(tok, 10, 64)
	return time.Unix(0, ns).UTC()
}

var pgRolePool = []string{"r", "w", "x"}
var pgSortFields = []string{"id", "b", "i", "n", "f", "s", "t"}
var pgOps = []string{"eq", "ne", "lt", "le", "gt", "ge"}

func pgGenRows(r *rng, n int) string {
	if n == 0 {
		return "0"
	}
	ids := append([]string{}, pgIdPool...)
	// random subset of n ids, kept in pool order (= byte order)
	for len(ids) > n {
		k := r.intn(len(ids))
		ids = append(ids[:k], ids[k+1:]...)
	}
	var rows []string
	for _, id := range ids {
		roles := "R"
		var rs []string
		for _, ro := range pgRolePool {
			if r.chance(1, 2) {
				rs = append(rs, ro)
			}
		}
		roles += strings.Join(rs, ".")
		f := []string{id, pick(r, pgBoolPool), pick(r, pgIntPool), pick(r, pgInt32Pool),
			pick(r, pgFloatPool), pick(r, pgStrPool), pick(r, pgTimePool), roles, pick(r, []string{"C", "C", "C1", "C1", "C2"})}
		rows = append(rows, strings.Join(append(f, pgOwnerOf(f)), ","))
	}
	return strings.Join(rows, ";")
}

// pgOwnerOf derives the row's owner from its other fields (no extra random draw: the generated stream of
// datasets stays what it was before owners existed): none, o1, o2 or o3.
func pgOwnerOf(f []string) string {
	k := 0
	for _, t := range f {
		k += len(t) + int(t[0])
	}
	return []string{"O", "Oo1", "Oo2", "Oo3", "Oo1"}[k%5]
}

func pgGenFilter(r *rng, simpleOnly bool) string {
	k := r.intn(10)
	switch {
	case k < 4:
		return "true"
	case k < 6:
		return "null." + pick(r, []string{"b", "i", "n", "f", "s", "t"})
	case k < 7:
		return "notnull." + pick(r, []string{"b", "i", "n", "f", "s", "t"})
	}
	field := pick(r, []string{"b", "i", "n", "f", "s", "t", "id"})
	switch field {
	case "b":
		return "cmp.b." + pick(r, []string{"eq", "ne"}) + ".1"
	case "i", "n":
		return "cmp." + field + "." + pick(r, pgOps) + "." + pick(r, []string{"-1", "0", "7"})
	case "f":
		return "cmp.f." + pick(r, pgOps) + "." + pick(r, pgFloatConsts)
	case "s":
		return "cmp.s." + pick(r, pgOps) + "." + pick(r, pgStrConsts)
	case "id":
		return "cmp.id." + pick(r, pgOps) + "." + pick(r, []string{"S61", "S62", "S63", "S6161"})
	default:
		return "cmp.t." + pick(r, pgOps) + "." + pick(r, pgTimeConsts)
	}
}

// pgAliasFilter: a filter of pgGenFilter with its field renamed to one of the field's aliases
func pgAliasFilter(r *rng) string {
	f := strings.Split(pgGenFilter(r, false), ".")
	if len(f) < 2 || f[1] == "id" {
		return strings.Join(f, ".")
	}
	f[1] = pick(r, pgAliasesOf(f[1]))
	return strings.Join(f, ".")
}

// pgGenAliasSort: 1-4 sort fields, mostly alias names, with every spelling of the direction
func pgGenAliasSort(r *rng) string {
	n := 1 + r.intn(4)
	var fs []string
	for i := 0; i < n; i++ {
		name := pgAliases[r.intn(len(pgAliases))][0]
		if r.chance(1, 5) {
			name = pick(r, pgSortFields)
		}
		fs = append(fs, name+pick(r, []string{"~", "~", "~", "+", "-", "^", "*", "!"}))
	}
	return strings.Join(fs, ",")
}

func pgGenSort(r *rng) string {
	k := r.intn(20)
	if k < 4 {
		return "-"
	}
	nf := 1 + r.intn(5)
	if k == 19 {
		nf = 6 // more than SortMax
	}
	var fs []string
	for j := 0; j < nf; j++ {
		name := pick(r, pgSortFields)
		if j == 0 && k < 7 {
			name = "id"
		}
		if j == 0 && k >= 7 && name == "id" {
			name = "s"
		}
		fs = append(fs, name+pick(r, []string{"+", "-", "~"}))
	}
	return strings.Join(fs, ",")
}

func pgSkipPool(n int) []string {
	nn := int64(n)
	vals := []int64{math.MinInt64, -5, -1, 0, 1, 2, nn - 1, nn, nn + 1, 2 * nn, math.MaxInt64 - 1, math.MaxInt64}
	out := []string{"-"}
	for _, v := range vals {
		out = append(out, strconv.FormatInt(v, 10))
	}
	return out
}

func pgLimitPool(n int) []string { return append(pgSkipPool(n), "none") }

// pgPickPaging: half of the time a value near the data (so that the page is non-empty and cut
// somewhere inside), otherwise uniform over the whole boundary pool.
func pgPickPaging(r *rng, pool []string, n int, isLimit bool) string {
	if r.chance(1, 2) {
		near := []string{"-", "0", "1", "2", strconv.Itoa(n - 1), strconv.Itoa(n), "-1"}
		if isLimit {
			near = append(near, "none", strconv.Itoa(n+1), "3")
		}
		return pick(r, near)
	}
	return pick(r, pool)
}

func pgRowCount(ds string) int {
	if ds == "-" || ds == "0" {
		return 0
	}
	return strings.Count(ds, ";") + 1
}

func pgSortedCopy(xs []string) []string {
	ys := append([]string{}, xs...)
	sort.Strings(ys)
	return ys
}

var _ = fmt.Sprint
