package main

// C20 — naming: stores whose symbols are stored under a KEY that differs from the NAME a query addresses them by.
//
// `AddMapSymbol(name, type, key)`, `AddSymbolWithKey(name, type, key)`, `AddFkSymbolWithKey(name, key, store)` register
// a symbol under `name` (that is what `publicSymbols`, `mapSymbols`, `symbols` are keyed by on the declaring store and
// what a query writes) and read it from the bucket key `key`.  "Public" is a statement about names.  The keyed schemas
// below declare the same names with the same types as the plain store A (so every query text, built tree and API
// recipe of the generator is valid on them and types identically) but choose every key to be the NAME of some other
// symbol of the store:
//
//   k1  maps swapped (tags -> key "meta", meta -> key "tags"), scalars swapped (name <-> n), boss stored under "name"
//   k2  map keys are scalar names (tags -> "name", meta -> "n"), scalar keys are map names (name -> "tags", n -> "meta"),
//       f -> "boss", boss -> "f"
//   k3  map keys are the names of the always-public symbols (tags -> "id", meta -> "boss"), name -> "id", at -> "flag"
//
// so for every assignment there are public maps whose key names a non-public symbol and non-public maps whose key
// names a public one (and the same for scalars).  A case line names its schema by a prefix of the mask field
// (`k2:442`, `k1:442^7749`); the `<maps>` field of every level lists `name=key` where they differ, followed by
// `;name=key,…` for the non-map symbols — both read off the real store (mapSymbols by reflection, GetPath() of the
// symbols), not off the schema table.
//
// Child stores of a keyed store: `inheritMapSymbol` registers an inherited map under its KEY, so on the child (and
// below) the map is addressed by what was the key on the root, name = key.  Query texts / recipes are renamed
// accordingly (`tags.` -> `<key of tags>.`) and re-parsed against the child; texts that do not parse there are skipped.
// Ancestor masks never make a root map public BEFORE the grant: `GrantSymbols` passes the root's map NAME to the
// child's MakeSymbolPublic, which (depending on Go's map iteration order) marks nothing or another map — see notes.

import (
	"fmt"
	"reflect"
	"sort"
	"strconv"
	"strings"

	"github.com/openziti/storage/ast"
	"github.com/openziti/storage/boltz"
)

type c20Schema struct {
	maps    map[string]string // map symbol name -> key
	scalars map[string]string // scalar symbol name -> key
	boss    string            // key of the fk symbol boss
}

var c20Schemas = []c20Schema{
	{}, // 0: name = key everywhere (c20NewPair)
	{maps: map[string]string{"tags": "meta", "meta": "tags"}, scalars: map[string]string{"name": "n", "n": "name"}, boss: "name"},
	{maps: map[string]string{"tags": "name", "meta": "n"}, scalars: map[string]string{"name": "tags", "n": "meta", "f": "boss"}, boss: "f"},
	{maps: map[string]string{"tags": "id", "meta": "boss"}, scalars: map[string]string{"name": "id", "at": "flag"}, boss: "boss"},
}

var c20ScalarTypes = [][2]interface{}{{"name", ast.NodeTypeString}, {"n", ast.NodeTypeInt64}, {"f", ast.NodeTypeFloat64},
	{"flag", ast.NodeTypeBool}, {"at", ast.NodeTypeDatetime}}

// a fresh pair of stores for a schema, nothing made public yet (besides id / boss, public by construction)
func c20NewPairSchema(schema int) (*boltz.BaseStore[*c20Ent], *boltz.BaseStore[*c20Ent]) {
	if schema == 0 {
		return c20NewPair()
	}
	sc := c20Schemas[schema]
	mk := func(name string) *boltz.BaseStore[*c20Ent] {
		s := boltz.NewBaseStore(boltz.StoreDefinition[*c20Ent]{EntityType: name, EntityStrategy: c20Strategy{}, BasePath: []string{"c20"}})
		s.InitImpl(s)
		return s
	}
	a, b, tmp := mk("things"), mk("others"), mk("things")
	b.AddIdSymbol("id", ast.NodeTypeString)
	b.AddSymbol("name", ast.NodeTypeString)
	b.AddSymbol("label", ast.NodeTypeString)
	b.AddSymbol("n", ast.NodeTypeInt64)
	b.AddMapSymbol("tags", ast.NodeTypeAnyType, "tags")
	b.MakeSymbolPublic("tags")
	b.AddFkSetSymbol("owners", a)
	a.AddIdSymbol("id", ast.NodeTypeString)
	a.AddFkSymbolWithKey("boss", sc.boss, b)
	for _, st := range c20ScalarTypes {
		name, typ := st[0].(string), st[1].(ast.NodeType)
		key, ok := sc.scalars[name]
		if !ok {
			key = name
		}
		// AddSymbolWithKey makes the symbol public; a symbol with a key that is declared non-public is built by a
		// scratch store and registered with AddEntitySymbol (as NewEntitySymbol + AddEntitySymbol do for name = key)
		a.AddEntitySymbol(tmp.AddSymbolWithKey(name, typ, key))
	}
	a.AddMapSymbol("tags", ast.NodeTypeAnyType, sc.maps["tags"])
	a.AddMapSymbol("meta", ast.NodeTypeString, sc.maps["meta"])
	a.AddSetSymbol("roles", ast.NodeTypeString)
	a.AddSetSymbol("nums", ast.NodeTypeInt64)
	a.AddFkSetSymbol("kids", b)
	return a, b
}

// (name, key) of the entries of store.mapSymbols, read off the real store
func c20MapKeysOf(s *boltz.BaseStore[*c20Ent]) [][2]string {
	var res [][2]string
	rv := reflect.ValueOf(s).Elem().FieldByName("mapSymbols")
	if !rv.IsValid() || rv.Kind() != reflect.Map {
		return nil
	}
	it := rv.MapRange()
	for it.Next() {
		key := "?"
		if v := it.Value(); v.Kind() == reflect.Ptr && !v.IsNil() {
			if kf := v.Elem().FieldByName("key"); kf.IsValid() && kf.Kind() == reflect.String {
				key = kf.String()
			}
		}
		res = append(res, [2]string{it.Key().String(), key})
	}
	sort.Slice(res, func(i, j int) bool { return res[i][0] < res[j][0] })
	return res
}

var c20PlainSyms = []string{"at", "boss", "f", "flag", "id", "kids", "n", "name", "nums", "roles"}

// (name, key) of the non-map symbols whose key (last element of GetPath()) differs from their name
func c20SymKeysOf(s *boltz.BaseStore[*c20Ent]) [][2]string {
	var res [][2]string
	for _, n := range c20PlainSyms {
		sym := s.GetSymbol(n)
		if sym == nil {
			continue
		}
		p := sym.GetPath()
		if len(p) > 0 && p[len(p)-1] != n {
			res = append(res, [2]string{n, p[len(p)-1]})
		}
	}
	return res
}

func c20HasMap(s *boltz.BaseStore[*c20Ent], name string) bool {
	for _, m := range c20MapKeysOf(s) {
		if m[0] == name {
			return true
		}
	}
	return false
}

// the `<maps>` field of one store: `name[=key],…[;name=key,…]`
func c20MapsField(s *boltz.BaseStore[*c20Ent]) string {
	ent := func(p [2]string) string {
		if p[0] == p[1] {
			return c20Name(p[0])
		}
		return c20Name(p[0]) + "=" + c20Name(p[1])
	}
	var ms, ss []string
	for _, p := range c20MapKeysOf(s) {
		ms = append(ms, ent(p))
	}
	for _, p := range c20SymKeysOf(s) {
		ss = append(ss, ent(p))
	}
	out := "-"
	if len(ms) > 0 {
		out = strings.Join(ms, ",")
	}
	if len(ss) > 0 {
		out += ";" + strings.Join(ss, ",")
	}
	return out
}

// `[k<schema>:]<mask>^<mask>…`
func c20ParseCfg(s string) (int, []c20Level, bool) {
	schema := 0
	if strings.HasPrefix(s, "k") {
		i := strings.IndexByte(s, ':')
		if i < 0 {
			return 0, nil, false
		}
		n, err := strconv.Atoi(s[1:i])
		if err != nil || n <= 0 || n >= len(c20Schemas) {
			return 0, nil, false
		}
		schema, s = n, s[i+1:]
	}
	chain, ok := c20ParseChain(s)
	return schema, chain, ok
}

func c20CfgKey(schema int, chain []c20Level) string {
	if schema == 0 {
		return c20ChainKey(chain)
	}
	return fmt.Sprintf("k%d:%s", schema, c20ChainKey(chain))
}

// a mask is applied name by name; a name the store does not know (a keyed root's map name on its child) is skipped
func c20ApplyMaskKnown(s *boltz.BaseStore[*c20Ent], mask uint64) {
	for i, name := range c20Bits {
		if mask&(1<<uint(i)) != 0 && (s.GetSymbol(name) != nil || c20HasMap(s, name)) {
			s.MakeSymbolPublic(name)
		}
	}
}

const c20MapBits = uint64(1)<<5 | uint64(1)<<11 // tags, meta

// the stores of a keyed configuration (schema > 0); `levels`, `pubs` own first
func c20StoreForCfg(schema int, chain []c20Level) *c20Stores {
	if schema == 0 {
		return c20StoreForChain(chain)
	}
	key := c20CfgKey(schema, chain)
	if v, ok := c20StoreCache.Load(key); ok {
		return v.(*c20Stores)
	}
	top, b := c20NewPairSchema(schema)
	levels := make([]*boltz.BaseStore[*c20Ent], len(chain))
	levels[len(chain)-1] = top
	for i := len(chain) - 1; i >= 1; i-- {
		if chain[i].inherit {
			m := chain[i].mask
			if i == len(chain)-1 {
				m &^= c20MapBits // see the file comment
			}
			c20ApplyMaskKnown(levels[i], m)
		}
		child := boltz.NewBaseStore(boltz.StoreDefinition[*c20Ent]{EntityStrategy: c20Strategy{}, BasePath: []string{"c20"},
			Parent: levels[i], ParentMapper: func(e boltz.Entity) boltz.Entity { return e }})
		child.InitImpl(child)
		levels[i].GrantSymbols(child)
		levels[i-1] = child
	}
	for i := len(chain) - 1; i >= 1; i-- {
		if !chain[i].inherit {
			c20ApplyMaskKnown(levels[i], chain[i].mask)
		}
	}
	c20ApplyMaskKnown(levels[0], chain[0].mask)
	st := &c20Stores{a: levels[0], b: b, schema: schema, levels: levels}
	for _, l := range levels {
		pub := l.GetPublicSymbols()
		sort.Strings(pub)
		st.pubs = append(st.pubs, pub)
	}
	st.pub = st.pubs[0]
	c20StoreCache.Store(key, st)
	return st
}

func c20IsIdent(c byte) bool {
	return c == '_' || c == '.' || (c >= '0' && c <= '9') || (c >= 'a' && c <= 'z') || (c >= 'A' && c <= 'Z')
}

// on a child of a keyed store a map is addressed by its key: rename `tags.x` / `meta.x` where the identifier starts
func c20RenameMaps(schema int, text string) string {
	sc := c20Schemas[schema]
	var out strings.Builder
	for i := 0; i < len(text); {
		done := false
		if i == 0 || !c20IsIdent(text[i-1]) {
			for name, key := range sc.maps {
				if strings.HasPrefix(text[i:], name+".") {
					out.WriteString(key + ".")
					i += len(name) + 1
					done = true
					break
				}
			}
		}
		if !done {
			out.WriteByte(text[i])
			i++
		}
	}
	return out.String()
}

func c20RenameRecipe(schema int, recipe string) string {
	parts := strings.Split(recipe, "\x1f")
	if len(parts) != 3 {
		return recipe
	}
	ops := strings.Split(parts[2], ";")
	for i, op := range ops {
		if len(op) > 1 && (op[0] == 'I' || op[0] == 'B') {
			ops[i] = op[:1] + c20RenameMaps(schema, op[1:])
		}
	}
	return c20RenameMaps(schema, parts[0]) + "\x1f" + c20RenameMaps(schema, parts[1]) + "\x1f" + strings.Join(ops, ";")
}

// tokens of a `p` line for `query` parsed against store st (typed tree // untyped tree // symbol types)
func c20ParsedToks(st *c20Stores, query string) ([]string, []string, bool) {
	q, err := c20SafeParse(st.a, query)
	if err != nil {
		return nil, nil, false
	}
	toks, strs, werr := c20WalkNode(q, nil)
	if werr != "" {
		return nil, nil, false
	}
	if query != "" {
		n, err := c20UntypedTree(query)
		if err != nil {
			return nil, nil, false
		}
		ut, ustrs, _ := c20WalkNode(n, nil)
		strs = append(strs, ustrs...)
		toks = append(append(toks, "//"), ut...)
		toks = append(append(toks, "//"), c20SymTabFor(st.a, ut, ustrs)...)
	}
	return toks, strs, true
}

// keyed variants of a case: the same query / tree / recipe with the same own assignment against a keyed store, and
// (less often) against a child / grandchild of a keyed store
func (e *c20Emitter) keyedVariants(tag string, mask uint64, query string, toks []string) {
	e.nKeyed++
	k := e.nKeyed
	schema := 1 + k%(len(c20Schemas)-1)
	e.lineCfg(tag, schema, []c20Level{{mask: mask}}, query, toks)
	if k%4 != 0 {
		return
	}
	// child stores: own assignment `mask` (as far as the child knows the names), ancestors differing
	schema = 1 + (k/4)%(len(c20Schemas)-1)
	rnd := e.r.next() & c20AllBits
	var chain []c20Level
	switch (k / 12) % 4 {
	case 0:
		chain = []c20Level{{mask: mask}, {mask: c20AllBits}}
	case 1:
		chain = []c20Level{{mask: mask}, {mask: c20AllBits &^ mask}}
	case 2:
		chain = []c20Level{{mask: mask & rnd}, {mask: mask &^ rnd, inherit: true}}
	case 3:
		chain = []c20Level{{mask: mask}, {mask: rnd, inherit: e.r.chance(1, 2)}, {mask: e.r.next() & c20AllBits}}
	}
	st := c20StoreForCfg(schema, chain)
	switch tag {
	case "p":
		q2 := c20RenameMaps(schema, query)
		t2, _, ok := c20ParsedToks(st, q2)
		if !ok {
			return
		}
		e.lineCfg(tag, schema, chain, q2, t2)
	case "a":
		r2 := c20RenameRecipe(schema, query)
		q, err := c20RunRecipe(st, r2)
		if err != nil {
			return
		}
		t2, _, werr := c20WalkNode(q, nil)
		x, g, err := c20RecipeExpected(r2)
		if err != nil || werr != "" {
			return
		}
		t2 = append(append(append(t2, "//", "X", c20Names(x)), "//", "G"), c20Names(g))
		e.lineCfg(tag, schema, chain, r2, t2)
	case "s":
		e.lineCfg(tag, schema, chain, query, toks)
	}
}

func (e *c20Emitter) lineCfg(tag string, schema int, chain []c20Level, query string, toks []string) {
	st := c20StoreForCfg(schema, chain)
	q := "-"
	if tag != "s" {
		q = c20Name(query)
	}
	ms, ps := st.cfgFields()
	l := fmt.Sprintf("%s %s %s %s %s %s", tag, c20CfgKey(schema, chain), ms, ps, q, strings.Join(toks, " "))
	if e.seen[l] {
		return
	}
	e.seen[l] = true
	e.out.WriteString(l)
	e.out.WriteByte('\n')
	e.n++
}
