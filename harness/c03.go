package main

// C03 — unique and set indexes mirror entity state; uniqueness is enforced.
//
// One store "things" (base path ["u"]) wired through the exported API only:
//
//	name   string    unique index (non-nullable)
//	alias  *string   unique index (nullable)
//	roles  []string  set index with a SetChangeListener
//
// Case line:   h <vals> <tx>|<tx>|...
//
//	<vals>  list of byte strings read back through ReadIndex.Read / SetReadIndex.Read after every tx
//	<tx>    <op>,<op>,...                  one Db.Update; the first failing op aborts (rolls back) the tx
//	<op>    c:<id>:<name>:<alias>:<roles>          Create
//	        u:<id>:<name>:<alias>:<roles>:<chk>    Update; <chk> = * (nil checker) or a subset of "nar"
//	                                               ("0" = checker selecting no field)
//	        d:<id>                                 DeleteById
//
// Output line: one record per tx, joined by "|":
//
//	<res>#<dump>#<reads>#<log>
//	<res>    ok | err:<kind>@<index of the failing op>
//	<dump>   canonical whole-database dump (boltz.Traverse), "=" when identical to the previous record's
//	<reads>  n:<v>=<id>;a:<v>=<id>;r:<v>=<ids>;... ;k=<keys>   (ReadIndex.Read, SetReadIndex.Read, ReadKeys)
//	<log>    listener calls of this tx (also of a tx that is rolled back afterwards): <id>:<old>:<new>,...

import (
	"bufio"
	"fmt"
	"strings"

	"github.com/openziti/foundation/v2/errorz"
	"github.com/openziti/storage/ast"
	"github.com/openziti/storage/boltz"
	"go.etcd.io/bbolt"
)

func init() {
	register("c03", &propHarness{gen: c03Gen, exec: c03Exec})
}

type c03Thing struct {
	Id    string
	Name  string
	Alias *string
	Roles []string
}

func (e *c03Thing) GetId() string         { return e.Id }
func (e *c03Thing) SetId(id string)       { e.Id = id }
func (e *c03Thing) GetEntityType() string { return "things" }

type c03Strategy struct{}

func (c03Strategy) NewEntity() *c03Thing { return &c03Thing{} }
func (c03Strategy) FillEntity(e *c03Thing, b *boltz.TypedBucket) {
	e.Name = b.GetStringWithDefault("name", "")
	e.Alias = b.GetString("alias")
	e.Roles = b.GetStringList("roles")
}
func (c03Strategy) PersistEntity(e *c03Thing, ctx *boltz.PersistContext) {
	ctx.SetString("name", e.Name)
	ctx.SetStringP("alias", e.Alias)
	ctx.SetStringList("roles", e.Roles)
}

type c03Stores struct {
	things   *boltz.BaseStore[*c03Thing]
	idxName  boltz.ReadIndex
	idxAlias boltz.ReadIndex
	idxRoles boltz.SetReadIndex
	log      []string
}

func c03Wire() *c03Stores {
	s := &c03Stores{}
	s.things = boltz.NewBaseStore(boltz.StoreDefinition[*c03Thing]{
		EntityType:     "things",
		EntityStrategy: c03Strategy{},
		BasePath:       []string{"u"},
		EntityNotFoundF: func(id string) error {
			return boltz.NewNotFoundError("thing", "id", id)
		},
	})
	s.things.InitImpl(s.things)
	s.things.AddIdSymbol("id", ast.NodeTypeString)
	symName := s.things.AddSymbol("name", ast.NodeTypeString)
	s.idxName = s.things.AddUniqueIndex(symName)
	symAlias := s.things.AddSymbol("alias", ast.NodeTypeString)
	s.idxAlias = s.things.AddNullableUniqueIndex(symAlias)
	symRoles := s.things.AddSetSymbol("roles", ast.NodeTypeString)
	s.idxRoles = s.things.AddSetIndex(symRoles)
	s.idxRoles.AddListener(func(_ boltz.MutateContext, rowId []byte, old []boltz.FieldTypeAndValue, new []boltz.FieldTypeAndValue, _ errorz.ErrorHolder) {
		f := func(xs []boltz.FieldTypeAndValue) string {
			var vs []string
			for _, x := range xs {
				vs = append(vs, string(x.Value))
			}
			return csList(vs)
		}
		s.log = append(s.log, toWire(string(rowId))+":"+f(old)+":"+f(new))
	})
	return s
}

type c03Op struct {
	kind  byte
	id    string
	name  string
	alias *string
	roles []string
	chk   string
}

func c03ParseOp(s string) c03Op {
	f := strings.Split(s, ":")
	op := c03Op{kind: f[0][0], id: fromWire(f[1])}
	if op.kind == 'c' || op.kind == 'u' {
		op.name = fromWire(f[2])
		op.alias = csParseOpt(f[3])
		op.roles = csParseList(f[4])
	}
	if op.kind == 'u' {
		op.chk = f[5]
	}
	return op
}

func c03Checker(chk string) boltz.FieldChecker {
	if chk == "*" {
		return nil
	}
	m := boltz.MapFieldChecker{}
	if strings.Contains(chk, "n") {
		m["name"] = struct{}{}
	}
	if strings.Contains(chk, "a") {
		m["alias"] = struct{}{}
	}
	if strings.Contains(chk, "r") {
		m["roles"] = struct{}{}
	}
	return m
}

func (s *c03Stores) apply(ctx boltz.MutateContext, op c03Op) error {
	switch op.kind {
	case 'c':
		return s.things.Create(ctx, &c03Thing{Id: op.id, Name: op.name, Alias: op.alias, Roles: append([]string{}, op.roles...)})
	case 'u':
		return s.things.Update(ctx, &c03Thing{Id: op.id, Name: op.name, Alias: op.alias, Roles: append([]string{}, op.roles...)}, c03Checker(op.chk))
	case 'd':
		return s.things.DeleteById(ctx, op.id)
	}
	panic("bad op")
}

func (s *c03Stores) reads(tx *bbolt.Tx, vals []string) string {
	var b strings.Builder
	for _, v := range vals {
		fmt.Fprintf(&b, "n:%s=%s;", toWire(v), csHexOrNil(s.idxName.Read(tx, []byte(v))))
		fmt.Fprintf(&b, "a:%s=%s;", toWire(v), csHexOrNil(s.idxAlias.Read(tx, []byte(v))))
		var ids []string
		s.idxRoles.Read(tx, []byte(v), func(val []byte) { ids = append(ids, string(val)) })
		fmt.Fprintf(&b, "r:%s=%s;", toWire(v), csList(csSortedCopy(ids)))
	}
	var keys []string
	s.idxRoles.ReadKeys(tx, func(val []byte) { keys = append(keys, string(val)) })
	fmt.Fprintf(&b, "k=%s", csList(csSortedCopy(keys)))
	return b.String()
}

func c03Exec(line string) string {
	f := fields(line)
	if len(f) != 3 || f[0] != "h" {
		return "bad-case"
	}
	vals := csParseList(f[1])
	d := csOpenDb()
	defer d.close()
	s := c03Wire()
	if err := d.db.Update(nil, func(ctx boltz.MutateContext) error {
		h := &errorz.ErrorHolderImpl{}
		s.things.InitializeIndexes(ctx.Tx(), h)
		return h.Err
	}); err != nil {
		return "init-failed " + err.Error()
	}
	var recs []string
	prev := ""
	for _, txs := range strings.Split(f[2], "|") {
		var ops []c03Op
		for _, o := range strings.Split(txs, ",") {
			ops = append(ops, c03ParseOp(o))
		}
		s.log = nil
		failedAt := -1
		err := d.db.Update(nil, func(ctx boltz.MutateContext) error {
			for i, op := range ops {
				if err := s.apply(ctx, op); err != nil {
					failedAt = i
					return err
				}
			}
			return nil
		})
		res := "ok"
		if err != nil {
			res = fmt.Sprintf("err:%s@%d", csErrKind(err), failedAt)
		}
		var dump, reads string
		_ = d.db.View(func(tx *bbolt.Tx) error {
			dump, _ = csDump(tx)
			reads = s.reads(tx, vals)
			return nil
		})
		shown := dump
		if dump == prev {
			shown = "="
		}
		prev = dump
		log := "."
		if len(s.log) > 0 {
			log = strings.Join(s.log, ",")
		}
		recs = append(recs, res+"#"+shown+"#"+reads+"#"+log)
	}
	return strings.Join(recs, "|")
}

// ---------------------------------------------------------------------------------- generator

var c03Ids = []string{"a", "b", "c", "d"}
var c03Vals = []string{"x", "y", "zq"}
var c03RoleVals = []string{"r", "sq", "x"}

func c03FmtOp(op c03Op) string {
	switch op.kind {
	case 'c':
		return fmt.Sprintf("c:%s:%s:%s:%s", toWire(op.id), toWire(op.name), csOpt(op.alias), csList(op.roles))
	case 'u':
		return fmt.Sprintf("u:%s:%s:%s:%s:%s", toWire(op.id), toWire(op.name), csOpt(op.alias), csList(op.roles), op.chk)
	}
	return "d:" + toWire(op.id)
}

func c03GenVal(r *rng, vals []string) string {
	if r.chance(1, 14) {
		return ""
	}
	return pick(r, vals)
}

func c03GenAlias(r *rng, vals []string) *string { return csGenAlias(r, vals) }

func c03GenRoles(r *rng, vals []string) []string {
	n := r.intn(4)
	var rs []string
	for i := 0; i < n; i++ {
		if r.chance(1, 40) {
			rs = append(rs, "")
		} else {
			rs = append(rs, pick(r, vals))
		}
	}
	return rs
}

var c03Chks = []string{"*", "*", "*", "n", "a", "r", "na", "nr", "ar", "nar", "0"}

// c03Shadow is the generator's rough idea of the entity table (used only to bias choices:
// which ids exist, which values are taken); it does not have to be exact.
type c03Shadow struct {
	ents map[string]*c03Thing
}

func (sh *c03Shadow) clone() *c03Shadow {
	c := &c03Shadow{ents: map[string]*c03Thing{}}
	for k, v := range sh.ents {
		cp := *v
		c.ents[k] = &cp
	}
	return c
}

func (sh *c03Shadow) taken(id, name string, alias *string) bool {
	for oid, e := range sh.ents {
		if oid == id {
			continue
		}
		if e.Name == name {
			return true
		}
		if alias != nil && *alias != "" && e.Alias != nil && *e.Alias == *alias {
			return true
		}
	}
	return false
}

// apply returns false when the shadow expects the operation to fail
func (sh *c03Shadow) apply(op c03Op) bool {
	switch op.kind {
	case 'c':
		if op.id == "" || sh.ents[op.id] != nil || op.name == "" || sh.taken(op.id, op.name, op.alias) {
			return false
		}
		for _, r := range op.roles {
			if r == "" {
				return false
			}
		}
		sh.ents[op.id] = &c03Thing{Id: op.id, Name: op.name, Alias: op.alias, Roles: op.roles}
		return true
	case 'u':
		old := sh.ents[op.id]
		if old == nil {
			return false
		}
		e := *old
		if op.chk == "*" || strings.Contains(op.chk, "n") {
			e.Name = op.name
		}
		if op.chk == "*" || strings.Contains(op.chk, "a") {
			e.Alias = op.alias
		}
		if op.chk == "*" || strings.Contains(op.chk, "r") {
			e.Roles = op.roles
		}
		if e.Name == "" || sh.taken(op.id, e.Name, e.Alias) {
			return false
		}
		for _, r := range e.Roles {
			if r == "" {
				return false
			}
		}
		sh.ents[op.id] = &e
		return true
	}
	if sh.ents[op.id] == nil {
		return false
	}
	delete(sh.ents, op.id)
	return true
}

func (sh *c03Shadow) pickId(r *rng, ids []string, wantLive bool) string {
	var pool []string
	for _, id := range ids {
		if (sh.ents[id] != nil) == wantLive {
			pool = append(pool, id)
		}
	}
	if len(pool) == 0 || r.chance(1, 8) {
		return pick(r, ids)
	}
	return pick(r, pool)
}

// a value that is free / taken on purpose
func (sh *c03Shadow) pickName(r *rng, id string, vals []string) string {
	if r.chance(1, 16) {
		return ""
	}
	wantFree := !r.chance(1, 4) // conflicting writes on purpose a quarter of the time
	var pool []string
	for _, v := range vals {
		if sh.taken(id, v, nil) != wantFree {
			pool = append(pool, v)
		}
	}
	if len(pool) == 0 {
		return pick(r, vals)
	}
	return pick(r, pool)
}

func c03GenOp(r *rng, sh *c03Shadow, ids, vals, roleVals []string) c03Op {
	blank := r.chance(1, 80)
	k := r.intn(20)
	if len(sh.ents) == 0 && r.chance(5, 6) {
		k = 0
	} else if len(sh.ents) >= len(ids) && k < 6 && r.chance(3, 4) {
		k = 6 + r.intn(14)
	}
	switch {
	case k < 6:
		id := sh.pickId(r, ids, false)
		if blank {
			id = ""
		}
		return c03Op{kind: 'c', id: id, name: sh.pickName(r, id, vals), alias: c03GenAlias(r, vals), roles: c03GenRoles(r, roleVals)}
	case k < 16:
		id := sh.pickId(r, ids, true)
		if blank {
			id = ""
		}
		op := c03Op{kind: 'u', id: id, name: sh.pickName(r, id, vals), alias: c03GenAlias(r, vals), roles: c03GenRoles(r, roleVals), chk: pick(r, c03Chks)}
		if old := sh.ents[id]; old != nil && r.chance(1, 5) {
			// resubmit a current value (no-op paths of the index protocol)
			switch r.intn(3) {
			case 0:
				op.name = old.Name
			case 1:
				op.alias = old.Alias
			default:
				op.roles = append([]string{}, old.Roles...)
			}
		}
		return op
	}
	id := sh.pickId(r, ids, true)
	if blank {
		id = ""
	}
	return c03Op{kind: 'd', id: id}
}

func c03GenHistory(r *rng, nTx int) string {
	ids := c03Ids[:3+r.intn(2)]
	sh := &c03Shadow{ents: map[string]*c03Thing{}}
	var txs []string
	for t := 0; t < nTx; t++ {
		n := 1 + r.intn(4)
		if r.chance(1, 3) {
			n = 1
		}
		var ops []string
		work := sh.clone()
		okTx := true
		for i := 0; i < n; i++ {
			op := c03GenOp(r, work, ids, c03Vals, c03RoleVals)
			ops = append(ops, c03FmtOp(op))
			if okTx && !work.apply(op) {
				okTx = false
			}
		}
		if okTx {
			sh = work
		}
		txs = append(txs, strings.Join(ops, ","))
	}
	return strings.Join(txs, "|")
}

var c03ReadVals = csList([]string{"", "x", "y", "zq", "z", "r", "sq", "s", "a"})

func c03Gen(tier string, seed uint64, out *bufio.Writer) {
	r := newRng(seed)
	n := 1500
	if tier == "thorough" {
		n = 20000
	}
	for i := 0; i < n; i++ {
		nTx := 5 + r.intn(36)
		if tier != "thorough" {
			nTx = 5 + r.intn(20)
		}
		fmt.Fprintf(out, "h %s %s\n", c03ReadVals, c03GenHistory(r, nTx))
	}
	if tier == "thorough" {
		c03GenExhaustive(out)
	}
}

// all histories of length <= 4 (one op per tx) over 2 ids x 2 values with an 18-letter op alphabet
func c03GenExhaustive(out *bufio.Writer) {
	var alphabet []string
	for _, id := range []string{"a", "b"} {
		for _, v := range []string{"x", "y"} {
			alphabet = append(alphabet,
				c03FmtOp(c03Op{kind: 'c', id: id, name: v, roles: []string{v}}),
				c03FmtOp(c03Op{kind: 'u', id: id, name: v, roles: []string{v}, chk: "*"}),
				c03FmtOp(c03Op{kind: 'u', id: id, name: v, chk: "n"}),
				c03FmtOp(c03Op{kind: 'u', id: id, name: "q", roles: []string{v}, chk: "r"}))
		}
		alphabet = append(alphabet, c03FmtOp(c03Op{kind: 'd', id: id}))
	}
	vals := csList([]string{"x", "y", "q"})
	var rec func(prefix []string, n int)
	rec = func(prefix []string, n int) {
		if len(prefix) > 0 {
			fmt.Fprintf(out, "h %s %s\n", vals, strings.Join(prefix, "|"))
		}
		if n == 0 {
			return
		}
		for _, a := range alphabet {
			rec(append(prefix, a), n-1)
		}
	}
	rec(nil, 4)
}
