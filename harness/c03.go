package main

// C03 — unique and set indexes mirror entity state; uniqueness is enforced.
//
// Real stores wired through the exported API only:
//
//	things (base path ["u"])            name   string    unique index (non-nullable)
//	                                    alias  *string   unique index (nullable)
//	                                    roles  []string  set index with a SetChangeListener
//	ext    (plain child of things,      tag    string    (no index of its own)
//	        entity path ["ext"])
//
// under a SCHEMA that gives every field three names: the symbol name (= index bucket name), the key
// the entity strategy stores it under (AddSymbolWithKey) and the name the caller's FieldChecker
// knows it by (PersistContext.WithFieldOverrides in the strategy).
//
// Case line:   h <vals> [<schema>] <tx>|<tx>|...
//
//	<vals>    list of byte strings read back through ReadIndex.Read / SetReadIndex.Read after every tx
//	<schema>  <names>[;<base path>;<registration>[;<spare>]]
//	          names: eleven names: name sym+key+chk, alias sym+key+chk, roles sym+key+chk, tag key+chk
//	          base path: StoreDefinition.BasePath of the parent store (default: u), any number of elements
//	          registration: the indexes registered on the parent store, in registration order, letters n a r
//	          ("-": none; default nar); spare: extra capacity of the BasePath slice handed to NewBaseStore
//	          (absent schema: every field is known by one name: name, alias, roles, tag; base path u; nar)
//	<tx>      <op>,<op>,...                  one Db.Update; the first failing op aborts (rolls back) the tx
//	<op>      c:<id>:<name>:<alias>:<roles>               things.Create
//	          C:<id>:<name>:<alias>:<roles>:<tag>         ext.Create
//	          u:<id>:<name>:<alias>:<roles>:<chk>         things.Update
//	          U:<id>:<name>:<alias>:<roles>:<tag>:<chk>   ext.Update
//	          d:<id>  /  D:<id>                           things.DeleteById / ext.DeleteById
//	<chk>     * (nil checker) or letters, each adding one name to a MapFieldChecker:
//	          n a r t = caller-side name of name/alias/roles/tag, N A R T = stored key,
//	          x y z = symbol name of name/alias/roles, anything else (0) = nothing
//
// Output line: one record per tx, joined by "|":
//
//	<res>#<dump>#<reads>#<log>
//	<res>    ok | err:<kind>@<index of the failing op>
//	<dump>   canonical whole-database dump (boltz.Traverse), "=" when identical to the previous record's
//	<reads>  n:<v>=<id>;a:<v>=<id>;r:<v>=<ids>;... ;k=<keys>   (ReadIndex.Read, SetReadIndex.Read, ReadKeys)
//	<log>    listener calls of this tx (also of a tx that is rolled back afterwards): <id>:<old>:<new>,...

import (
	"bufio"
	"fmt"
	"sort"
	"strconv"
	"strings"

	"github.com/openziti/foundation/v2/errorz"
	"github.com/openziti/storage/ast"
	"github.com/openziti/storage/boltz"
	"go.etcd.io/bbolt"
)

func init() {
	register("c03", &propHarness{gen: c03Gen, exec: c03Exec})
}

// ---------------------------------------------------------------------------------- schema

type c03Names struct{ sym, key, chk string }

type c03Schema struct {
	name, alias, roles c03Names
	tagKey, tagChk     string
	basePath           []string // nil: ["u"]
	order              string   // registered indexes in registration order ("" = "nar", "-" = none)
	spare              int      // spare capacity of the BasePath slice
}

func (s c03Schema) base() []string {
	if s.basePath == nil {
		return []string{"u"}
	}
	return s.basePath
}

func (s c03Schema) regOrder() string {
	if s.order == "" {
		return "nar"
	}
	return s.order
}

func (s c03Schema) reg(c byte) bool { return strings.IndexByte(s.regOrder(), c) >= 0 }

var c03Plain = c03Schema{
	name: c03Names{"name", "name", "name"}, alias: c03Names{"alias", "alias", "alias"},
	roles: c03Names{"roles", "roles", "roles"}, tagKey: "tag", tagChk: "tag",
}

// the schema variants of the generator (roles: AddSetSymbol offers no separate key)
var c03Schemas = []c03Schema{
	c03Plain,
	// field overrides only: the caller names the fields differently
	{name: c03Names{"name", "name", "displayName"}, alias: c03Names{"alias", "alias", "nick"},
		roles: c03Names{"roles", "roles", "roleAttributes"}, tagKey: "tag", tagChk: "tag"},
	// symbols registered under another name than the stored key
	{name: c03Names{"name", "nm", "nm"}, alias: c03Names{"alias", "al", "al"},
		roles: c03Names{"roles", "roles", "roles"}, tagKey: "tag", tagChk: "tag"},
	// all three differ; alias' caller-side name equals its symbol name but not its key
	{name: c03Names{"name", "nm", "displayName"}, alias: c03Names{"alias", "al", "alias"},
		roles: c03Names{"roles", "roles", "roleAttributes"}, tagKey: "tag", tagChk: "label"},
	// crossed overrides: the caller's "alias" is the stored name and vice versa
	{name: c03Names{"name", "name", "alias"}, alias: c03Names{"alias", "alias", "name"},
		roles: c03Names{"roles", "roles", "roles"}, tagKey: "tag", tagChk: "tag"},
	// crossed keys: symbol `name` reads the key "alias" and symbol `alias` the key "name"
	{name: c03Names{"name", "alias", "alias"}, alias: c03Names{"alias", "name", "name"},
		roles: c03Names{"roles", "roles", "roles"}, tagKey: "tag", tagChk: "tag"},
}

func (s c03Schema) wire() string {
	names := csList([]string{s.name.sym, s.name.key, s.name.chk, s.alias.sym, s.alias.key, s.alias.chk,
		s.roles.sym, s.roles.key, s.roles.chk, s.tagKey, s.tagChk})
	if s.basePath == nil && s.order == "" && s.spare == 0 {
		return names
	}
	return fmt.Sprintf("%s;%s;%s;%d", names, csList(s.base()), s.regOrder(), s.spare)
}

func c03ParseSchema(w string) (c03Schema, bool) {
	parts := strings.Split(w, ";")
	f := csParseList(parts[0])
	if len(f) != 11 {
		return c03Schema{}, false
	}
	sch := c03Schema{name: c03Names{f[0], f[1], f[2]}, alias: c03Names{f[3], f[4], f[5]},
		roles: c03Names{f[6], f[7], f[8]}, tagKey: f[9], tagChk: f[10]}
	if len(parts) > 1 {
		sch.basePath = csParseList(parts[1])
		if sch.basePath == nil {
			sch.basePath = []string{}
		}
	}
	if len(parts) > 2 {
		sch.order = parts[2]
	}
	if len(parts) > 3 {
		n, err := strconv.Atoi(parts[3])
		if err != nil || n < 0 || n > 16 {
			return c03Schema{}, false
		}
		sch.spare = n
	}
	return sch, true
}

// checkerNames: the names a checker string puts into the MapFieldChecker
func (s c03Schema) checkerNames(chk string) []string {
	var names []string
	for _, c := range chk {
		switch c {
		case 'n':
			names = append(names, s.name.chk)
		case 'a':
			names = append(names, s.alias.chk)
		case 'r':
			names = append(names, s.roles.chk)
		case 't':
			names = append(names, s.tagChk)
		case 'N':
			names = append(names, s.name.key)
		case 'A':
			names = append(names, s.alias.key)
		case 'R':
			names = append(names, s.roles.key)
		case 'T':
			names = append(names, s.tagKey)
		case 'x':
			names = append(names, s.name.sym)
		case 'y':
			names = append(names, s.alias.sym)
		case 'z':
			names = append(names, s.roles.sym)
		}
	}
	return names
}

func (s c03Schema) checker(chk string) boltz.FieldChecker {
	if chk == "*" {
		return nil
	}
	m := boltz.MapFieldChecker{}
	for _, n := range s.checkerNames(chk) {
		m[n] = struct{}{}
	}
	return m
}

// selects: would a checker with these letters write the field whose caller-side name is `chkName`
func (s c03Schema) selects(chk string, chkName string) bool {
	if chk == "*" {
		return true
	}
	for _, n := range s.checkerNames(chk) {
		if n == chkName {
			return true
		}
	}
	return false
}

// ---------------------------------------------------------------------------------- entities

type c03Thing struct {
	Id    string
	Name  string
	Alias *string
	Roles []string
}

func (e *c03Thing) GetId() string         { return e.Id }
func (e *c03Thing) SetId(id string)       { e.Id = id }
func (e *c03Thing) GetEntityType() string { return "things" }

type c03Ext struct {
	c03Thing
	Tag string
}

type c03Strategy struct{ sch c03Schema }

func (c03Strategy) NewEntity() *c03Thing { return &c03Thing{} }
func (s c03Strategy) FillEntity(e *c03Thing, b *boltz.TypedBucket) {
	e.Name = b.GetStringWithDefault(s.sch.name.key, "")
	e.Alias = b.GetString(s.sch.alias.key)
	e.Roles = b.GetStringList(s.sch.roles.key)
}
func (s c03Strategy) PersistEntity(e *c03Thing, ctx *boltz.PersistContext) {
	overrides := map[string]string{}
	for _, n := range []c03Names{s.sch.name, s.sch.alias, s.sch.roles} {
		if n.chk != n.key {
			overrides[n.key] = n.chk
		}
	}
	if len(overrides) > 0 {
		ctx.WithFieldOverrides(overrides)
	}
	ctx.SetString(s.sch.name.key, e.Name)
	ctx.SetStringP(s.sch.alias.key, e.Alias)
	ctx.SetStringList(s.sch.roles.key, e.Roles)
}

// the child strategy, the way boltz/manager_store_test.go writes one
type c03ExtStrategy struct {
	sch    c03Schema
	parent *boltz.BaseStore[*c03Thing]
}

func (s *c03ExtStrategy) NewEntity() *c03Ext { return &c03Ext{} }
func (s *c03ExtStrategy) FillEntity(e *c03Ext, b *boltz.TypedBucket) {
	_, err := s.parent.LoadEntity(b.Tx(), e.Id, &e.c03Thing)
	b.SetError(err)
	e.Tag = b.GetStringWithDefault(s.sch.tagKey, "")
}
func (s *c03ExtStrategy) PersistEntity(e *c03Ext, ctx *boltz.PersistContext) {
	s.parent.GetEntityStrategy().PersistEntity(&e.c03Thing, ctx.GetParentContext())
	if s.sch.tagChk != s.sch.tagKey {
		ctx.WithFieldOverrides(map[string]string{s.sch.tagKey: s.sch.tagChk})
	}
	ctx.SetString(s.sch.tagKey, e.Tag)
}

type c03Stores struct {
	sch      c03Schema
	things   *boltz.BaseStore[*c03Thing]
	ext      *boltz.BaseStore[*c03Ext]
	idxName  boltz.ReadIndex
	idxAlias boltz.ReadIndex
	idxRoles boltz.SetReadIndex
	log      []string
}

func c03NotFound(id string) error { return boltz.NewNotFoundError("thing", "id", id) }

func c03Wire(sch c03Schema) *c03Stores {
	s := &c03Stores{sch: sch}
	// the BasePath slice exactly as long as the path (a literal), or with spare capacity
	basePath := make([]string, len(sch.base()), len(sch.base())+sch.spare)
	copy(basePath, sch.base())
	s.things = boltz.NewBaseStore(boltz.StoreDefinition[*c03Thing]{
		EntityType:      "things",
		EntityStrategy:  c03Strategy{sch: sch},
		BasePath:        basePath,
		EntityNotFoundF: c03NotFound,
	})
	s.things.InitImpl(s.things)
	s.ext = boltz.NewBaseStore(boltz.StoreDefinition[*c03Ext]{
		EntityStrategy: &c03ExtStrategy{sch: sch, parent: s.things},
		BasePath:       []string{"ext"},
		Parent:         s.things,
		ParentMapper: func(e boltz.Entity) boltz.Entity {
			if x, ok := e.(*c03Ext); ok {
				return &x.c03Thing
			}
			return e
		},
		EntityNotFoundF: c03NotFound,
	})
	s.ext.InitImpl(s.ext)
	// update delegation: an entity with child data is handed to the child store as its stored child
	// entity with the shared fields replaced by the caller's
	s.things.RegisterChildStoreStrategy(&boltz.ChildStoreUpdateHandler[*c03Thing, *c03Ext]{
		Store: s.ext,
		Mapper: func(ctx boltz.MutateContext, parent *c03Thing) (*c03Ext, bool) {
			if !s.ext.IsEntityPresent(ctx.Tx(), parent.Id) {
				return nil, false
			}
			child, found, _ := s.ext.FindById(ctx.Tx(), parent.Id)
			if !found || child == nil {
				return nil, false
			}
			child.c03Thing = *parent
			return child, true
		},
	})

	s.things.AddIdSymbol("id", ast.NodeTypeString)
	symName := s.things.AddSymbolWithKey(sch.name.sym, ast.NodeTypeString, sch.name.key)
	symAlias := s.things.AddSymbolWithKey(sch.alias.sym, ast.NodeTypeString, sch.alias.key)
	if sch.roles.sym != sch.roles.key {
		panic("the exported API has no set symbol with a separate key")
	}
	symRoles := s.things.AddSetSymbol(sch.roles.sym, ast.NodeTypeString)
	// the indexes, in the schema's registration order
	for _, c := range sch.regOrder() {
		switch c {
		case 'n':
			if s.idxName == nil {
				s.idxName = s.things.AddUniqueIndex(symName)
			}
		case 'a':
			if s.idxAlias == nil {
				s.idxAlias = s.things.AddNullableUniqueIndex(symAlias)
			}
		case 'r':
			if s.idxRoles == nil {
				s.idxRoles = s.things.AddSetIndex(symRoles)
				s.idxRoles.AddListener(func(_ boltz.MutateContext, rowId []byte, old []boltz.FieldTypeAndValue, new []boltz.FieldTypeAndValue, _ errorz.ErrorHolder) {
					f := func(xs []boltz.FieldTypeAndValue) string {
						var vs []string
						for _, x := range xs {
							vs = append(vs, string(x.Value))
						}
						return csList(vs)
					}
					s.log = append(s.log, toWire(string(rowId))+":"+f(old)+":"+f(new))
				})
			}
		}
	}
	s.things.GrantSymbols(s.ext)
	s.ext.AddSymbol(sch.tagKey, ast.NodeTypeString)
	return s
}

type c03Op struct {
	kind  byte // c C u U d D
	id    string
	name  string
	alias *string
	roles []string
	tag   string
	chk   string
}

func c03ParseOp(s string) c03Op {
	f := strings.Split(s, ":")
	op := c03Op{kind: f[0][0], id: fromWire(f[1])}
	switch op.kind {
	case 'c', 'u', 'C', 'U':
		op.name = fromWire(f[2])
		op.alias = csParseOpt(f[3])
		op.roles = csParseList(f[4])
	}
	switch op.kind {
	case 'u':
		op.chk = f[5]
	case 'C':
		op.tag = fromWire(f[5])
	case 'U':
		op.tag = fromWire(f[5])
		op.chk = f[6]
	}
	return op
}

func (op c03Op) thing() c03Thing {
	return c03Thing{Id: op.id, Name: op.name, Alias: op.alias, Roles: append([]string{}, op.roles...)}
}

func (s *c03Stores) apply(ctx boltz.MutateContext, op c03Op) error {
	switch op.kind {
	case 'c':
		t := op.thing()
		return s.things.Create(ctx, &t)
	case 'C':
		return s.ext.Create(ctx, &c03Ext{c03Thing: op.thing(), Tag: op.tag})
	case 'u':
		t := op.thing()
		return s.things.Update(ctx, &t, s.sch.checker(op.chk))
	case 'U':
		return s.ext.Update(ctx, &c03Ext{c03Thing: op.thing(), Tag: op.tag}, s.sch.checker(op.chk))
	case 'd':
		return s.things.DeleteById(ctx, op.id)
	case 'D':
		return s.ext.DeleteById(ctx, op.id)
	}
	panic("bad op")
}

func (s *c03Stores) reads(tx *bbolt.Tx, vals []string) string {
	var b strings.Builder
	read := func(idx boltz.ReadIndex, v string) []byte {
		if idx == nil {
			return nil // not registered
		}
		return idx.Read(tx, []byte(v))
	}
	for _, v := range vals {
		fmt.Fprintf(&b, "n:%s=%s;", toWire(v), csHexOrNil(read(s.idxName, v)))
		fmt.Fprintf(&b, "a:%s=%s;", toWire(v), csHexOrNil(read(s.idxAlias, v)))
		var ids []string
		if s.idxRoles != nil {
			s.idxRoles.Read(tx, []byte(v), func(val []byte) { ids = append(ids, string(val)) })
		}
		fmt.Fprintf(&b, "r:%s=%s;", toWire(v), csList(csSortedCopy(ids)))
	}
	var keys []string
	if s.idxRoles != nil {
		s.idxRoles.ReadKeys(tx, func(val []byte) { keys = append(keys, string(val)) })
	}
	fmt.Fprintf(&b, "k=%s", csList(csSortedCopy(keys)))
	return b.String()
}

func c03Exec(line string) string {
	f := fields(line)
	if len(f) > 0 && f[0] == "k" {
		return c03ExecChain(f) // three-level store chain (c03_chain.go)
	}
	if (len(f) != 3 && len(f) != 4) || f[0] != "h" {
		return "bad-case"
	}
	sch := c03Plain
	if len(f) == 4 {
		var ok bool
		if sch, ok = c03ParseSchema(f[2]); !ok {
			return "bad-case"
		}
	}
	vals := csParseList(f[1])
	d := csOpenDb()
	defer d.close()
	s := c03Wire(sch)
	if err := d.db.Update(nil, func(ctx boltz.MutateContext) error {
		h := &errorz.ErrorHolderImpl{}
		s.things.InitializeIndexes(ctx.Tx(), h)
		s.ext.InitializeIndexes(ctx.Tx(), h)
		return h.Err
	}); err != nil {
		return "init-failed " + err.Error()
	}
	var recs []string
	prev := ""
	for _, txs := range strings.Split(f[len(f)-1], "|") {
		var ops []c03Op
		for _, o := range strings.Split(txs, ",") {
			ops = append(ops, c03ParseOp(o))
		}
		s.log = nil
		failedAt := -1
		err := d.db.Update(nil, func(ctx boltz.MutateContext) error {
			for i, op := range ops {
				if err := s.apply(ctx, op); err != nil {
					failedAt = i
					return err
				}
			}
			return nil
		})
		res := "ok"
		if err != nil {
			res = fmt.Sprintf("err:%s@%d", csErrKind(err), failedAt)
		}
		var dump, reads string
		_ = d.db.View(func(tx *bbolt.Tx) error {
			dump = c03Dump(tx)
			reads = s.reads(tx, vals)
			return nil
		})
		shown := dump
		if dump == prev {
			shown = "="
		}
		prev = dump
		log := "."
		if len(s.log) > 0 {
			log = strings.Join(s.log, ",")
		}
		recs = append(recs, res+"#"+shown+"#"+reads+"#"+log)
	}
	return strings.Join(recs, "|")
}

// c03Dump: the canonical whole-database dump by a raw recursion over the bbolt buckets.  Same line
// format as csDump (boltz.Traverse), but every path element is hex-encoded on its own, so that ids,
// values and names may contain any byte — also '/', which Traverse's concatenated path cannot carry.
func c03Dump(tx *bbolt.Tx) string {
	var lines []string
	hexPath := func(path []string, key []byte) string {
		hs := make([]string, 0, len(path)+1)
		for _, p := range path {
			hs = append(hs, csHex([]byte(p)))
		}
		return strings.Join(append(hs, csHex(key)), "/")
	}
	var walk func(b *bbolt.Bucket, path []string)
	walk = func(b *bbolt.Bucket, path []string) {
		_ = b.ForEach(func(k, v []byte) error {
			if v == nil {
				if child := b.Bucket(k); child != nil {
					lines = append(lines, "B:"+hexPath(path, k))
					walk(child, append(append([]string{}, path...), string(k)))
					return nil
				}
			}
			lines = append(lines, "K:"+hexPath(path, k)+"="+csHex(v))
			return nil
		})
	}
	_ = tx.ForEach(func(name []byte, b *bbolt.Bucket) error {
		lines = append(lines, "B:"+hexPath(nil, name))
		walk(b, []string{string(name)})
		return nil
	})
	sort.Strings(lines)
	if len(lines) == 0 {
		return "."
	}
	return strings.Join(lines, ",")
}

// ---------------------------------------------------------------------------------- generator

// c03Pool: the id and value universes of one history
type c03Pool struct {
	ids, vals, roleVals []string
	structured          bool // values with separators / structure characters: split, merge, re-order on update
}

var c03Classic = c03Pool{ids: c03Ids, vals: c03Vals, roleVals: c03RoleVals}

// value families: members that a lossy rendering (join with a separator, trimming, quoting, path
// building) could confuse — a composite next to its parts, permutations around a separator,
// structure characters, typed-value prefixes, names of buckets and fields of the schema
var c03Families = [][]string{
	{"a", "b", "a,b", "b,a"},
	{"a", "b", "ab", "ba"},
	{"a", ",", "a,", ",a"},
	{"a", "aa", "a,a", "a,a,a"},
	{"a", "b", "a;b", "a,b"},
	{"a", "b", "a|b", "a+b"},
	{"a", "b", "a b", " a"},
	{"a", "b", "a/b", "/"},
	{"a", "b", "a\x00b", "\x00"},
	{"a", "[a]", "[a", "a]"},
	{"a", "\"a\"", "a\"", "'a'"},
	{"a", "a:b", "a=b", "a#b"},
	{"a", "\x05a", "\x07", "\x05"},
	{"indexes", "things", "ext", "u"},
	{"name", "alias", "roles", "tag"},
	{"a,b", "b,c", "a,b,c", "c"},
}

func c03StructuredPool(r *rng) c03Pool {
	fam := c03Families[r.intn(len(c03Families))]
	p := c03Pool{ids: c03Ids, vals: fam[:3+r.intn(2)], roleVals: fam, structured: true}
	if r.chance(1, 4) {
		// ids from the family as well (entity bucket names)
		p.ids = append([]string{}, fam...)
	}
	return p
}

const c03Seps = ",;|+ /\x00:=#"

// c03Transform: split a composite role into its parts, merge the roles into one composite, or
// submit the same set in another order
func c03Transform(r *rng, roles []string) []string {
	switch r.intn(3) {
	case 0:
		var res []string
		done := false
		for _, v := range roles {
			if i := strings.IndexAny(v, c03Seps); !done && i >= 0 && len(v) > 1 {
				for _, part := range strings.Split(v, v[i:i+1]) {
					if part != "" {
						res = append(res, part)
					}
				}
				done = true
			} else {
				res = append(res, v)
			}
		}
		if done {
			return res
		}
		fallthrough
	case 1:
		if len(roles) > 1 {
			sorted := csSortedCopy(roles)
			return []string{strings.Join(sorted, string(c03Seps[r.intn(2)]))}
		}
		fallthrough
	default:
		res := make([]string, len(roles))
		for i, v := range roles {
			res[len(roles)-1-i] = v
		}
		return res
	}
}

func (p c03Pool) readVals() string {
	seen := map[string]bool{"": true}
	res := []string{""}
	add := func(v string) {
		if !seen[v] {
			seen[v] = true
			res = append(res, v)
		}
	}
	for _, v := range append(append([]string{}, p.vals...), p.roleVals...) {
		add(v)
		for _, c := range c03Seps {
			for _, part := range strings.Split(v, string(c)) {
				add(part)
			}
		}
	}
	if !p.structured {
		for _, v := range []string{"z", "s", "a"} {
			add(v)
		}
	}
	return csList(res)
}

var c03Ids = []string{"a", "b", "c", "d"}
var c03Vals = []string{"x", "y", "zq"}
var c03RoleVals = []string{"r", "sq", "x"}
var c03Tags = []string{"t", "u"}

func c03FmtOp(op c03Op) string {
	base := fmt.Sprintf("%c:%s:%s:%s:%s", op.kind, toWire(op.id), toWire(op.name), csOpt(op.alias), csList(op.roles))
	switch op.kind {
	case 'c':
		return base
	case 'C':
		return base + ":" + toWire(op.tag)
	case 'u':
		return base + ":" + op.chk
	case 'U':
		return base + ":" + toWire(op.tag) + ":" + op.chk
	}
	return fmt.Sprintf("%c:%s", op.kind, toWire(op.id))
}

func c03GenAlias(r *rng, vals []string) *string { return csGenAlias(r, vals) }

func c03GenRoles(r *rng, vals []string) []string {
	n := r.intn(4)
	var rs []string
	for i := 0; i < n; i++ {
		if r.chance(1, 40) {
			rs = append(rs, "")
		} else {
			rs = append(rs, pick(r, vals))
		}
	}
	return rs
}

// checkers by the caller-side names ("0": a checker selecting nothing)
var c03Chks = []string{"*", "*", "*", "n", "a", "r", "na", "nr", "ar", "nar", "0"}

// … and, where the schema distinguishes them, by the stored key or the symbol name instead
var c03OddChks = []string{"N", "A", "R", "x", "y", "z", "NAR", "xyz", "Nr", "xa", "nT", "t", "nt", "T"}

// c03Shadow is the generator's rough idea of the entity table (used only to bias choices:
// which ids exist, which have child data, which values are taken); it does not have to be exact.
type c03Shadow struct {
	sch  c03Schema
	ents map[string]*c03Thing
	ext  map[string]bool
}

func (sh *c03Shadow) clone() *c03Shadow {
	c := &c03Shadow{sch: sh.sch, ents: map[string]*c03Thing{}, ext: map[string]bool{}}
	for k, v := range sh.ents {
		cp := *v
		c.ents[k] = &cp
	}
	for k := range sh.ext {
		c.ext[k] = true
	}
	return c
}

func (sh *c03Shadow) taken(id, name string, alias *string) bool {
	for oid, e := range sh.ents {
		if oid == id {
			continue
		}
		if sh.sch.reg('n') && e.Name == name {
			return true
		}
		if sh.sch.reg('a') && alias != nil && *alias != "" && e.Alias != nil && *e.Alias == *alias {
			return true
		}
	}
	return false
}

// bad: would a registered index refuse these values by themselves
func (sh *c03Shadow) bad(name string, roles []string) bool {
	return sh.sch.reg('n') && name == "" || sh.sch.reg('r') && !c03RolesOk(roles)
}

func c03RolesOk(rs []string) bool {
	for _, r := range rs {
		if r == "" {
			return false
		}
	}
	return true
}

// apply returns false when the shadow expects the operation to fail
func (sh *c03Shadow) apply(op c03Op) bool {
	switch op.kind {
	case 'c', 'C':
		if op.id == "" || sh.bad(op.name, op.roles) || sh.taken(op.id, op.name, op.alias) {
			return false
		}
		if op.kind == 'c' && sh.ents[op.id] != nil || op.kind == 'C' && sh.ext[op.id] {
			return false
		}
		sh.ents[op.id] = &c03Thing{Id: op.id, Name: op.name, Alias: op.alias, Roles: op.roles}
		if op.kind == 'C' {
			sh.ext[op.id] = true
		}
		return true
	case 'u', 'U':
		old := sh.ents[op.id]
		if old == nil || op.kind == 'U' && !sh.ext[op.id] {
			return false
		}
		e := *old
		if sh.sch.selects(op.chk, sh.sch.name.chk) {
			e.Name = op.name
		}
		if sh.sch.selects(op.chk, sh.sch.alias.chk) {
			e.Alias = op.alias
		}
		if sh.sch.selects(op.chk, sh.sch.roles.chk) {
			e.Roles = op.roles
		}
		if sh.bad(e.Name, e.Roles) || sh.taken(op.id, e.Name, e.Alias) {
			return false
		}
		sh.ents[op.id] = &e
		return true
	}
	if sh.ents[op.id] == nil {
		return false
	}
	delete(sh.ents, op.id)
	delete(sh.ext, op.id)
	return true
}

func (sh *c03Shadow) pickId(r *rng, ids []string, want func(id string) bool) string {
	var pool []string
	for _, id := range ids {
		if want(id) {
			pool = append(pool, id)
		}
	}
	if len(pool) == 0 || r.chance(1, 8) {
		return pick(r, ids)
	}
	return pick(r, pool)
}

// a value that is free / taken on purpose
func (sh *c03Shadow) pickName(r *rng, id string, vals []string) string {
	if r.chance(1, 16) {
		return ""
	}
	wantFree := !r.chance(1, 4) // conflicting writes on purpose a quarter of the time
	var pool []string
	for _, v := range vals {
		if sh.taken(id, v, nil) != wantFree {
			pool = append(pool, v)
		}
	}
	if len(pool) == 0 {
		return pick(r, vals)
	}
	return pick(r, pool)
}

// c03GenOp: layered = false gives the operations of the parent store only
func c03GenOp(r *rng, sh *c03Shadow, ids []string, pool c03Pool, layered bool) c03Op {
	vals, roleVals := pool.vals, pool.roleVals
	blank := r.chance(1, 80)
	live := func(id string) bool { return sh.ents[id] != nil }
	k := r.intn(20)
	if len(sh.ents) == 0 && r.chance(5, 6) {
		k = 0
	} else if len(sh.ents) >= len(ids) && k < 6 && r.chance(3, 4) && !(layered && r.chance(1, 3)) {
		k = 6 + r.intn(14)
	}
	viaChild := layered && r.chance(2, 5)
	switch {
	case k < 6:
		op := c03Op{kind: 'c'}
		if viaChild {
			// a fresh id, or (half of the time) an existing plain parent entity
			op.kind, op.tag = 'C', pick(r, c03Tags)
			if r.chance(1, 2) {
				op.id = sh.pickId(r, ids, func(id string) bool { return live(id) && !sh.ext[id] })
			} else {
				op.id = sh.pickId(r, ids, func(id string) bool { return !live(id) })
			}
		} else {
			op.id = sh.pickId(r, ids, func(id string) bool { return !live(id) })
		}
		if blank {
			op.id = ""
		}
		op.name, op.alias, op.roles = sh.pickName(r, op.id, vals), c03GenAlias(r, vals), c03GenRoles(r, roleVals)
		if old := sh.ents[op.id]; old != nil && r.chance(1, 4) {
			// re-create over the parent with a value it already has
			switch r.intn(3) {
			case 0:
				op.name = old.Name
			case 1:
				op.alias = old.Alias
			default:
				op.roles = append([]string{}, old.Roles...)
			}
		}
		return op
	case k < 16:
		op := c03Op{kind: 'u', chk: pick(r, c03Chks)}
		if viaChild {
			op.kind, op.tag = 'U', pick(r, c03Tags)
			op.id = sh.pickId(r, ids, func(id string) bool { return sh.ext[id] })
			if op.chk != "*" && r.chance(1, 3) {
				op.chk += "t"
			}
		} else {
			op.id = sh.pickId(r, ids, live)
		}
		if layered && r.chance(1, 6) {
			op.chk = pick(r, c03OddChks)
		}
		if blank {
			op.id = ""
		}
		op.name, op.alias, op.roles = sh.pickName(r, op.id, vals), c03GenAlias(r, vals), c03GenRoles(r, roleVals)
		if old := sh.ents[op.id]; old != nil && r.chance(1, 5) {
			// resubmit a current value (no-op paths of the index protocol)
			switch r.intn(3) {
			case 0:
				op.name = old.Name
			case 1:
				op.alias = old.Alias
			default:
				op.roles = append([]string{}, old.Roles...)
			}
		} else if old != nil && pool.structured && len(old.Roles) > 0 && r.chance(1, 3) {
			// split / merge / re-order the current set, and make sure the checker writes it
			op.roles = c03Transform(r, old.Roles)
			if !sh.sch.selects(op.chk, sh.sch.roles.chk) {
				op.chk = pick(r, []string{"*", "r", "nr", "ar"})
			}
		}
		return op
	}
	op := c03Op{kind: 'd'}
	if viaChild {
		op.kind = 'D'
	}
	if layered && r.chance(1, 2) {
		op.id = sh.pickId(r, ids, func(id string) bool { return sh.ext[id] })
	} else {
		op.id = sh.pickId(r, ids, live)
	}
	if blank {
		op.id = ""
	}
	return op
}

func c03GenHistory(r *rng, nTx int, sch c03Schema, layered bool, pool c03Pool) string {
	ids := pool.ids[:3+r.intn(2)]
	sh := &c03Shadow{sch: sch, ents: map[string]*c03Thing{}, ext: map[string]bool{}}
	var txs []string
	for t := 0; t < nTx; t++ {
		n := 1 + r.intn(4)
		if r.chance(1, 3) {
			n = 1
		}
		var ops []string
		work := sh.clone()
		okTx := true
		for i := 0; i < n; i++ {
			op := c03GenOp(r, work, ids, pool, layered)
			ops = append(ops, c03FmtOp(op))
			if okTx && !work.apply(op) {
				okTx = false
			}
		}
		if okTx {
			sh = work
		}
		txs = append(txs, strings.Join(ops, ","))
	}
	return strings.Join(txs, "|")
}

// registration strings: all three indexes in every order, then proper subsets
var c03Orders = []string{"nra", "anr", "arn", "rna", "ran"}
var c03Subsets = []string{"na", "an", "nr", "rn", "ar", "ra", "n", "a", "r", "-"}
var c03PathElems = []string{"u", "v", "w", "x1", "y"}

// c03GenSchema: a names variant, a base path of 1..5 elements (sometimes handed over with spare
// capacity), the registered indexes and their order
func c03GenSchema(r *rng) c03Schema {
	sch := c03Schemas[r.intn(len(c03Schemas))]
	n := 1 + r.intn(5)
	sch.basePath = append([]string{}, c03PathElems[:n]...)
	if r.chance(1, 6) {
		// the same element twice in the path
		sch.basePath[n-1] = sch.basePath[0]
	}
	if r.chance(1, 4) {
		sch.spare = 1 + r.intn(3)
	}
	switch k := r.intn(8); {
	case k < 4:
		sch.order = "nar"
	case k < 6:
		sch.order = pick(r, c03Orders)
	default:
		sch.order = pick(r, c03Subsets)
	}
	return sch
}

var c03ReadVals = csList([]string{"", "x", "y", "zq", "z", "r", "sq", "s", "a"})

// c03GenPairs: for every family, every (old set, new set) pair over its first k members: one entity
// goes from the old set to the new one (patch, full update, update through the child store) while
// another entity keeps holding the family's first member; and the unique-index analogue (hand-over
// of family members between two entities)
func c03GenPairs(out *bufio.Writer, k int) {
	subsets := func(m []string) [][]string {
		var res [][]string
		for mask := 0; mask < 1<<len(m); mask++ {
			var sub []string
			for i := len(m) - 1; i >= 0; i-- { // descending: the caller's order is not the bucket order
				if mask&(1<<i) != 0 {
					sub = append(sub, m[i])
				}
			}
			res = append(res, sub)
		}
		return res
	}
	for fi, fam := range c03Families {
		m := fam
		if len(m) > k {
			m = m[:k]
		}
		p := c03Pool{vals: fam, roleVals: fam, structured: true}
		head := "h " + p.readVals()
		for i, o := range subsets(m) {
			for j, n := range subsets(m) {
				create := c03Op{kind: 'c', id: "a", name: "p", roles: o}
				upd := c03Op{kind: 'u', id: "a", name: "p", roles: n, chk: "r"}
				switch (fi + i + j) % 3 {
				case 1:
					upd.chk = "*"
				case 2:
					create.kind, create.tag = 'C', "t"
					upd.kind, upd.tag, upd.chk = 'U', "t", "rt"
				}
				fmt.Fprintf(out, "%s %s|%s|%s|%s\n", head,
					c03FmtOp(c03Op{kind: 'c', id: "b", name: "q", roles: m[:1]}), c03FmtOp(create), c03FmtOp(upd), "d:"+toWire("a"))
			}
		}
		for _, v := range m {
			for _, w := range m {
				if v == w {
					continue
				}
				fmt.Fprintf(out, "%s %s|%s|%s|%s|%s|%s\n", head,
					c03FmtOp(c03Op{kind: 'c', id: "a", name: v}), c03FmtOp(c03Op{kind: 'c', id: "b", name: w, alias: &w}),
					c03FmtOp(c03Op{kind: 'u', id: "a", name: w, chk: "n"}), "d:"+toWire("b"),
					c03FmtOp(c03Op{kind: 'u', id: "a", name: w, alias: &v, chk: "na"}), c03FmtOp(c03Op{kind: 'c', id: "b", name: v, alias: &w}))
			}
		}
	}
}

func c03Gen(tier string, seed uint64, out *bufio.Writer) {
	r := newRng(seed)
	n := 1800
	if tier == "thorough" {
		n = 24000
	}
	for i := 0; i < n; i++ {
		nTx := 5 + r.intn(36)
		if tier != "thorough" {
			nTx = 5 + r.intn(20)
		}
		// a third of the histories draw ids / values from a family of structured values
		pool, reads := c03Classic, c03ReadVals
		if r.chance(1, 3) {
			pool = c03StructuredPool(r)
			reads = pool.readVals()
		}
		if i%3 == 0 {
			// the single store under the one-name schema
			fmt.Fprintf(out, "h %s %s\n", reads, c03GenHistory(r, nTx, c03Plain, false, pool))
		} else {
			// parent + child store under a schema variant
			sch := c03GenSchema(r)
			fmt.Fprintf(out, "h %s %s %s\n", reads, sch.wire(), c03GenHistory(r, nTx, sch, true, pool))
		}
	}
	c03GenKeySize(out)
	c03GenChains(tier, newRng(seed^0x5c03c4a1), out)
	if tier != "thorough" {
		c03GenPairs(out, 3)
	} else {
		c03GenPairs(out, 4)
		c03GenExhaustive(out)
		c03GenExhaustiveLayered(out)
	}
}

// c03GenKeySize: indexed values at bbolt's key-size boundary (MaxKeySize = 32768): 32767, 32768 and
// 32769 bytes as name / alias (create, update, child create, a second entity asking for the same
// value afterwards), and the longest set value the entity bucket itself accepts (32767: its typed
// key is 32768 bytes) as a role
func c03GenKeySize(out *bufio.Writer) {
	op := func(o c03Op) string { return c03FmtOp(o) }
	sch := c03Schemas[3]
	sch.basePath, sch.order = []string{"u", "v", "w"}, "ran"
	for i, n := range []int{32767, 32768, 32769} {
		v := strings.Repeat("k", n)
		w := "m" + strings.Repeat("k", n-1)
		head := "h " + csList([]string{"", "x", "y", v, w})
		if i%2 == 1 {
			head += " " + sch.wire()
		}
		r := []string{"r"}
		fmt.Fprintf(out, "%s %s|%s|%s|%s\n", head, op(c03Op{kind: 'c', id: "a", name: v, roles: r}),
			op(c03Op{kind: 'c', id: "b", name: v, roles: r}), op(c03Op{kind: 'u', id: "a", name: "x", chk: "n"}),
			op(c03Op{kind: 'c', id: "b", name: v}))
		fmt.Fprintf(out, "%s %s|%s|%s|%s|%s\n", head, op(c03Op{kind: 'c', id: "a", name: "x", roles: r}),
			op(c03Op{kind: 'u', id: "a", name: v, chk: "n"}), op(c03Op{kind: 'c', id: "b", name: v}),
			op(c03Op{kind: 'c', id: "c", name: "x"}), op(c03Op{kind: 'u', id: "a", name: w, chk: "*"}))
		fmt.Fprintf(out, "%s %s|%s|%s|%s\n", head, op(c03Op{kind: 'c', id: "a", name: "x", alias: &v, roles: r}),
			op(c03Op{kind: 'u', id: "a", name: "x", alias: &w, chk: "a"}), op(c03Op{kind: 'c', id: "b", name: "y", alias: &v}),
			"d:"+toWire("a"))
		fmt.Fprintf(out, "%s %s|%s|%s|%s\n", head, op(c03Op{kind: 'c', id: "a", name: "x"}),
			op(c03Op{kind: 'C', id: "a", name: v, alias: &w, roles: r, tag: "t"}), op(c03Op{kind: 'C', id: "b", name: v, tag: "t"}),
			op(c03Op{kind: 'U', id: "a", name: w, alias: &v, tag: "u", chk: "nat"}))
	}
	big := strings.Repeat("k", 32767)
	head := "h " + csList([]string{"", "x", "r", big})
	fmt.Fprintf(out, "%s %s|%s|%s|%s\n", head, op(c03Op{kind: 'c', id: "a", name: "x", roles: []string{big, "r"}}),
		op(c03Op{kind: 'c', id: "b", name: "y", roles: []string{big}}), op(c03Op{kind: 'u', id: "a", name: "x", chk: "r"}), "d:"+toWire("b"))
}

func c03Enumerate(out *bufio.Writer, head string, alphabet []string, depth int) {
	var rec func(prefix []string, n int)
	rec = func(prefix []string, n int) {
		if len(prefix) > 0 {
			fmt.Fprintf(out, "%s %s\n", head, strings.Join(prefix, "|"))
		}
		if n == 0 {
			return
		}
		for _, a := range alphabet {
			rec(append(prefix, a), n-1)
		}
	}
	rec(nil, depth)
}

// all histories of length <= 4 (one op per tx) over 2 ids x 2 values with an 18-letter op alphabet
func c03GenExhaustive(out *bufio.Writer) {
	var alphabet []string
	for _, id := range []string{"a", "b"} {
		for _, v := range []string{"x", "y"} {
			alphabet = append(alphabet,
				c03FmtOp(c03Op{kind: 'c', id: id, name: v, roles: []string{v}}),
				c03FmtOp(c03Op{kind: 'u', id: id, name: v, roles: []string{v}, chk: "*"}),
				c03FmtOp(c03Op{kind: 'u', id: id, name: v, chk: "n"}),
				c03FmtOp(c03Op{kind: 'u', id: id, name: "q", roles: []string{v}, chk: "r"}))
		}
		alphabet = append(alphabet, c03FmtOp(c03Op{kind: 'd', id: id}))
	}
	c03Enumerate(out, "h "+csList([]string{"x", "y", "q"}), alphabet, 4)
}

// all histories of length <= 4 over 2 ids with a 16-letter alphabet of parent / child operations, under
// the schema in which symbol name, key and caller-side name all differ, with a three-element base path
// and the indexes registered in the order roles, alias, name
func c03GenExhaustiveLayered(out *bufio.Writer) {
	var alphabet []string
	for _, id := range []string{"a", "b"} {
		alphabet = append(alphabet,
			c03FmtOp(c03Op{kind: 'c', id: id, name: "x", roles: []string{"r"}}),
			c03FmtOp(c03Op{kind: 'C', id: id, name: "x", roles: []string{"r"}, tag: "t"}),
			c03FmtOp(c03Op{kind: 'C', id: id, name: "y", roles: []string{"s"}, tag: "t"}),
			c03FmtOp(c03Op{kind: 'u', id: id, name: "y", roles: []string{"r", "s"}, chk: "nr"}),
			c03FmtOp(c03Op{kind: 'u', id: id, name: "x", roles: []string{"s"}, chk: "xz"}),
			c03FmtOp(c03Op{kind: 'U', id: id, name: "x", roles: []string{"r"}, tag: "u", chk: "*"}),
			c03FmtOp(c03Op{kind: 'd', id: id}),
			c03FmtOp(c03Op{kind: 'D', id: id}))
	}
	sch := c03Schemas[3]
	sch.basePath, sch.order = []string{"u", "v", "w"}, "ran"
	c03Enumerate(out, "h "+csList([]string{"x", "y", "r", "s"})+" "+sch.wire(), alphabet, 4)
}
