package main

import (
	"bytes"
	"encoding/hex"
	"errors"
	"fmt"
	"math"
	"os"
	"path/filepath"
	"sort"
	"strconv"
	"strings"
	"time"

	"github.com/openziti/storage/boltz"
	"go.etcd.io/bbolt"
)

// C13 cases (see lean/StorageModel/Driver/C13.lean for the same description)
//
//	k <w>...                  EncodeStringSlice, then DecodeStringSlice of the result
//	d <w>                     DecodeStringSlice of arbitrary bytes
//	j <w>... | <w>...         are the two encodings equal?
//	e c=<chk> m=<map> <op>... entity script on one boltz.TypedBucket: `p…` ops build the pre-state
//	                          in a first transaction (nil checker), `w…` ops are the write under the
//	                          checker in a second one (through boltz.PersistContext where it has the
//	                          setter), every getter of every field is read in a third one, together
//	                          with a raw dump of the bucket tree.
//
// value text: N | S<wire> | i<int32> | I<int64> | n<int> | F<hex16 bits> | B0 | B1 | T<hex of
// UTC MarshalBinary>[/<representation>] | M(<wire>=V,…) | L(V,…) | U (a dynamic type setMarshaled does
// not know).  The representation of a time (c13_time.go): u = UTC, f<off> = FixedZone(off seconds),
// l<off> = time.Local set to such a zone, L<off> = the process's own Local (offset at the instant),
// n<off> = a value derived from time.Now() (monotonic reading) with time.Local = that zone; without
// representation the zone is one of six chosen by the payload.
//
//	tm <sec> <nsec> <representation>   time.Time.MarshalBinary on the value as given, then UnmarshalBinary
//	tu <w>                             time.Time.UnmarshalBinary of arbitrary bytes
func init() {
	register("c13", &propHarness{gen: c13Gen, exec: c13Exec})
}

// ---------------------------------------------------------------------------- value text

type c13Val struct {
	kind byte // N S i I n F B T M L U
	s    string
	z    string // representation of a time (T), "" = chosen by the payload
	i    int64
	bits uint64
	keys []string
	vals []*c13Val
}

func c13Wire(s string) string { return toWire(s) }

func (v *c13Val) text(b *strings.Builder) {
	switch v.kind {
	case 'N', 'U':
		b.WriteByte(v.kind)
	case 'S':
		b.WriteByte(v.kind)
		b.WriteString(c13Wire(v.s))
	case 'T':
		b.WriteByte(v.kind)
		b.WriteString(c13Wire(v.s))
		if v.z != "" {
			b.WriteString("/" + v.z)
		}
	case 'i', 'I', 'n':
		b.WriteByte(v.kind)
		b.WriteString(strconv.FormatInt(v.i, 10))
	case 'F':
		fmt.Fprintf(b, "F%016x", v.bits)
	case 'B':
		if v.i != 0 {
			b.WriteString("B1")
		} else {
			b.WriteString("B0")
		}
	case 'M':
		b.WriteString("M(")
		for i := range v.keys {
			if i > 0 {
				b.WriteByte(',')
			}
			b.WriteString(c13Wire(v.keys[i]))
			b.WriteByte('=')
			v.vals[i].text(b)
		}
		b.WriteByte(')')
	case 'L':
		b.WriteString("L(")
		for i := range v.vals {
			if i > 0 {
				b.WriteByte(',')
			}
			v.vals[i].text(b)
		}
		b.WriteByte(')')
	}
}

func (v *c13Val) String() string {
	var b strings.Builder
	v.text(&b)
	return b.String()
}

type c13Parser struct {
	s string
	p int
}

func (p *c13Parser) tok() string {
	st := p.p
	for p.p < len(p.s) && p.s[p.p] != ',' && p.s[p.p] != ')' && p.s[p.p] != '=' {
		p.p++
	}
	return p.s[st:p.p]
}

func (p *c13Parser) value() *c13Val {
	k := p.s[p.p]
	p.p++
	switch k {
	case 'N', 'U':
		return &c13Val{kind: k}
	case 'B':
		c := p.s[p.p]
		p.p++
		return &c13Val{kind: 'B', i: int64(c - '0')}
	case 'S':
		return &c13Val{kind: k, s: fromWire(p.tok())}
	case 'T':
		t := p.tok()
		z := ""
		if i := strings.IndexByte(t, '/'); i >= 0 {
			t, z = t[:i], t[i+1:]
		}
		return &c13Val{kind: k, s: fromWire(t), z: z}
	case 'i', 'I', 'n':
		n, err := strconv.ParseInt(p.tok(), 10, 64)
		if err != nil {
			panic("bad int in case")
		}
		return &c13Val{kind: k, i: n}
	case 'F':
		n, err := strconv.ParseUint(p.tok(), 16, 64)
		if err != nil {
			panic("bad float bits in case")
		}
		return &c13Val{kind: 'F', bits: n}
	case 'M', 'L':
		v := &c13Val{kind: k}
		p.p++ // (
		if p.s[p.p] == ')' {
			p.p++
			return v
		}
		for {
			if k == 'M' {
				v.keys = append(v.keys, fromWire(p.tok()))
				p.p++ // =
			}
			v.vals = append(v.vals, p.value())
			c := p.s[p.p]
			p.p++
			if c == ')' {
				return v
			}
		}
	}
	panic("bad value text")
}

func c13ParseValue(s string) *c13Val {
	p := &c13Parser{s: s}
	return p.value()
}

type c13Unsupported struct{ x int }

func (v *c13Val) toGo() interface{} {
	switch v.kind {
	case 'N':
		return nil
	case 'S':
		return v.s
	case 'i':
		return int32(v.i)
	case 'I':
		return v.i
	case 'n':
		return int(v.i)
	case 'F':
		return math.Float64frombits(v.bits)
	case 'B':
		return v.i != 0
	case 'T':
		return c13Time(v)
	case 'M':
		m := map[string]interface{}{}
		for i, k := range v.keys {
			m[k] = v.vals[i].toGo()
		}
		return m
	case 'L':
		l := make([]interface{}, 0, len(v.vals))
		for _, x := range v.vals {
			l = append(l, x.toGo())
		}
		return l
	}
	if v.i%2 == 0 {
		return uint16(7)
	}
	return c13Unsupported{1}
}

func c13TimeText(t time.Time) string {
	b, err := t.UTC().MarshalBinary()
	if err != nil {
		return "T!marshal"
	}
	return "T" + hex.EncodeToString(b)
}

// c13Show prints a value read back from GetMap / GetList canonically (map keys in byte order).
func c13Show(b *strings.Builder, x interface{}) {
	switch v := x.(type) {
	case nil:
		b.WriteByte('N')
	case string:
		b.WriteString("S" + c13Wire(v))
	case int32:
		b.WriteString("i" + strconv.FormatInt(int64(v), 10))
	case int64:
		b.WriteString("I" + strconv.FormatInt(v, 10))
	case int:
		b.WriteString("n" + strconv.FormatInt(int64(v), 10))
	case float64:
		fmt.Fprintf(b, "F%016x", math.Float64bits(v))
	case bool:
		if v {
			b.WriteString("B1")
		} else {
			b.WriteString("B0")
		}
	case time.Time:
		b.WriteString(c13TimeText(v))
	case map[string]interface{}:
		keys := make([]string, 0, len(v))
		for k := range v {
			keys = append(keys, k)
		}
		sort.Strings(keys)
		b.WriteString("M(")
		for i, k := range keys {
			if i > 0 {
				b.WriteByte(',')
			}
			b.WriteString(c13Wire(k))
			b.WriteByte('=')
			c13Show(b, v[k])
		}
		b.WriteByte(')')
	case []interface{}:
		b.WriteString("L(")
		for i, e := range v {
			if i > 0 {
				b.WriteByte(',')
			}
			c13Show(b, e)
		}
		b.WriteByte(')')
	default:
		fmt.Fprintf(b, "?%T", x)
	}
}

func c13ListText(xs []string) string {
	ws := make([]string, len(xs))
	for i, x := range xs {
		ws[i] = c13Wire(x)
	}
	return "[" + strings.Join(ws, ",") + "]"
}

// ---------------------------------------------------------------------------- compound keys

func c13KeyErr(err error) string {
	m := err.Error()
	switch {
	case strings.HasPrefix(m, "On encode"):
		return "encodeTooLong"
	case strings.HasPrefix(m, "On decoded"):
		return "decodeTooLong"
	case strings.Contains(m, "Not enough bytes"):
		return "short"
	case strings.HasPrefix(m, "incorrectly encoded"):
		return "badVarint"
	}
	return "other"
}

func c13Dec(b []byte) string {
	xs, err := boltz.DecodeStringSlice(b)
	if err != nil {
		return "dec=err:" + c13KeyErr(err)
	}
	return "dec=" + c13ListText(xs)
}

func c13Wires(ws []string) []string {
	xs := make([]string, len(ws))
	for i, w := range ws {
		xs[i] = fromWire(w)
	}
	return xs
}

// ---------------------------------------------------------------------------- entity scripts

var c13Db *bbolt.DB

func c13GetDb() *bbolt.DB {
	if c13Db != nil {
		return c13Db
	}
	dir, err := os.MkdirTemp("", "verif-*")
	if err != nil {
		panic(err)
	}
	db, err := bbolt.Open(filepath.Join(dir, "c13.db"), 0600, &bbolt.Options{NoSync: true, NoFreelistSync: true})
	if err != nil {
		panic(err)
	}
	// the file stays usable through the open descriptor; nothing is left behind when the process ends
	_ = os.RemoveAll(dir)
	c13Db = db
	return db
}

func c13ErrName(err error) string {
	switch {
	case errors.Is(err, bbolt.ErrKeyRequired):
		return "keyRequired"
	case errors.Is(err, bbolt.ErrKeyTooLarge):
		return "keyTooLarge"
	case errors.Is(err, bbolt.ErrIncompatibleValue):
		return "incompatible"
	case errors.Is(err, bbolt.ErrBucketNameRequired):
		return "bucketNameRequired"
	}
	m := err.Error()
	switch {
	case strings.Contains(m, "nested maps not supported"):
		return "nestedMaps"
	case strings.Contains(m, "nested lists not supported"):
		return "nestedLists"
	case strings.Contains(m, "unsupported type"):
		return "unsupported"
	case strings.Contains(m, "is required"):
		return "required"
	case strings.Contains(m, "Time.MarshalBinary"):
		return "timeMarshal"
	}
	return "other:" + m
}

type c13Op struct {
	pre   bool
	code  string
	field string
	val   *c13Val
}

func c13ParseOp(tok string) c13Op {
	parts := strings.SplitN(tok, ":", 3)
	return c13Op{pre: parts[0][0] == 'p', code: parts[0][1:], field: fromWire(parts[1]), val: c13ParseValue(parts[2])}
}

func c13Strings(v *c13Val) []string {
	var xs []string
	for _, e := range v.vals {
		xs = append(xs, e.s)
	}
	return xs
}

func c13Changed(b bool) string {
	if b {
		return "1"
	}
	return "0"
}

// c13Apply runs one field operation; write-phase operations go through boltz.PersistContext
// wherever it has the setter, pre-state operations call the TypedBucket method with a nil checker.
func c13Apply(ctx *boltz.PersistContext, op c13Op, idx int, obs *[]string) {
	tb := ctx.Bucket
	chk := ctx.FieldChecker
	v := op.val
	switch op.code {
	case "str":
		if op.pre {
			tb.SetString(op.field, v.s, nil)
		} else {
			ctx.SetString(op.field, v.s)
		}
	case "strp":
		var p *string
		if v.kind == 'S' {
			p = &v.s
		}
		if op.pre {
			tb.SetStringP(op.field, p, nil)
		} else {
			ctx.SetStringP(op.field, p)
		}
	case "rstr":
		ctx.SetRequiredString(op.field, v.s)
	case "gstr":
		had := tb.HasError()
		raw := tb.Get([]byte(op.field))
		opaque := ctx.ProceedWithSet(op.field) && len(raw) > 1 && (raw[0] == byte(boltz.TypeFloat64) || raw[0] == byte(boltz.TypeTime))
		old, changed := ctx.GetAndSetString(op.field, v.s)
		if !had {
			o := "nil"
			if old != nil {
				o = "S" + c13Wire(*old)
			}
			if opaque {
				// the old value is a formatted float / time: formatting is not modelled
				*obs = append(*obs, fmt.Sprintf("o%d=*/*", idx))
			} else {
				*obs = append(*obs, fmt.Sprintf("o%d=%s/%s", idx, o, c13Changed(changed)))
			}
		}
	case "i32":
		if op.pre {
			tb.SetInt32(op.field, int32(v.i), nil)
		} else {
			ctx.SetInt32(op.field, int32(v.i))
		}
	case "i64":
		if op.pre {
			tb.SetInt64(op.field, v.i, nil)
		} else {
			ctx.SetInt64(op.field, v.i)
		}
	case "f64":
		tb.SetFloat64(op.field, math.Float64frombits(v.bits), chk)
	case "bool":
		if op.pre {
			tb.SetBool(op.field, v.i != 0, nil)
		} else {
			ctx.SetBool(op.field, v.i != 0)
		}
	case "time":
		tb.SetTime(op.field, c13Time(v), chk)
	case "timep":
		var p *time.Time
		if v.kind == 'T' {
			t := c13Time(v)
			p = &t
		}
		if op.pre {
			tb.SetTimeP(op.field, p, nil)
		} else {
			ctx.SetTimeP(op.field, p)
		}
	case "sl":
		if op.pre {
			tb.SetStringList(op.field, c13Strings(v), nil)
		} else {
			ctx.SetStringList(op.field, c13Strings(v))
		}
	case "gsl":
		had := tb.HasError()
		old, changed := ctx.GetAndSetStringList(op.field, c13Strings(v))
		if !had {
			*obs = append(*obs, fmt.Sprintf("o%d=%s/%s", idx, c13ListText(old), c13Changed(changed)))
		}
	case "map":
		m, _ := v.toGo().(map[string]interface{})
		if op.pre {
			tb.PutMap(op.field, m, nil, true)
		} else {
			ctx.SetMap(op.field, m)
		}
	case "mapf":
		m, _ := v.toGo().(map[string]interface{})
		tb.PutMap(op.field, m, chk, false)
	case "list":
		l, _ := v.toGo().([]interface{})
		tb.PutList(op.field, l, chk)
	case "nil":
		tb.SetNil(op.field)
	default:
		panic("unknown op " + op.code)
	}
}

func c13Guard(f func() string) (res string) {
	defer func() {
		if r := recover(); r != nil {
			res = "panic"
		}
	}()
	return f()
}

func c13Reads(tb *boltz.TypedBucket, f string, out *[]string) {
	c13ReadsP("f:"+c13Wire(f)+":", tb, f, out)
}

func c13ReadsP(p string, tb *boltz.TypedBucket, f string, out *[]string) {
	add := func(name string, fn func() string) { *out = append(*out, p+name+"="+c13Guard(fn)) }
	var raw []byte
	add("k", func() string {
		k, v := tb.Cursor().Seek([]byte(f))
		if k == nil || !bytes.Equal(k, []byte(f)) {
			return "absent"
		}
		if v == nil {
			return "bucket"
		}
		return "val"
	})
	add("raw", func() string {
		raw = tb.Get([]byte(f))
		if raw == nil {
			return "nil"
		}
		return c13Wire(string(raw))
	})
	add("s", func() string {
		s := tb.GetString(f)
		if len(raw) > 1 && (raw[0] == byte(boltz.TypeFloat64) || raw[0] == byte(boltz.TypeTime)) {
			return "*" // strconv / MarshalText formatting (and its year-range refusal) is not modelled
		}
		if s == nil {
			return "nil"
		}
		return "S" + c13Wire(*s)
	})
	add("b", func() string {
		b := tb.GetBool(f)
		if b == nil {
			return "nil"
		}
		return c13Changed(*b)
	})
	add("i32", func() string {
		i := tb.GetInt32(f)
		if i == nil {
			return "nil"
		}
		return strconv.FormatInt(int64(*i), 10)
	})
	add("i64", func() string {
		i := tb.GetInt64(f)
		if i == nil {
			return "nil"
		}
		return strconv.FormatInt(*i, 10)
	})
	add("f64", func() string {
		x := tb.GetFloat64(f)
		if x == nil {
			return "nil"
		}
		return fmt.Sprintf("%016x", math.Float64bits(*x))
	})
	add("t", func() string {
		t := tb.GetTime(f)
		if t == nil {
			return "nil"
		}
		return c13TimeText(*t)
	})
	add("sl", func() string { return c13ListText(tb.GetStringList(f)) })
	// GetList allocates as many elements as the stored size says: a size that no generated value has (> 2^20)
	// is reported instead of being materialised (it is a disagreement with the model in any case)
	if n := c13HugeList(tb.Bucket.Bucket([]byte(f))); n != 0 {
		*out = append(*out, fmt.Sprintf("%sm=huge:%d", p, n), fmt.Sprintf("%sl=huge:%d", p, n))
		return
	}
	add("m", func() string {
		var b strings.Builder
		c13Show(&b, tb.GetMap(f))
		return b.String()
	})
	add("l", func() string {
		l := tb.GetList(f)
		if l == nil {
			return "nil"
		}
		var b strings.Builder
		c13Show(&b, l)
		return b.String()
	})
}

// c13HugeList looks for a stored list size above 1<<20 anywhere below the bucket (raw bytes, both
// byte orders are unreasonable then).
func c13HugeList(bk *bbolt.Bucket) int64 {
	if bk == nil {
		return 0
	}
	var res int64
	_ = bk.ForEach(func(k, v []byte) error {
		if res != 0 {
			return nil
		}
		if v == nil {
			res = c13HugeList(bk.Bucket(k))
		} else if string(k) == boltz.ListSizeKeyName && len(v) == 5 && v[0] == byte(boltz.TypeInt32) {
			n := int64(int32(uint32(v[1]) | uint32(v[2])<<8 | uint32(v[3])<<16 | uint32(v[4])<<24))
			if n > 65536 {
				res = n
			}
		}
		return nil
	})
	return res
}

func c13Dump(b *strings.Builder, bk *bbolt.Bucket) {
	b.WriteByte('(')
	first := true
	_ = bk.ForEach(func(k, v []byte) error {
		if !first {
			b.WriteByte(',')
		}
		first = false
		b.WriteString(c13Wire(string(k)))
		if v == nil {
			c13Dump(b, bk.Bucket(k))
		} else {
			b.WriteByte('=')
			b.WriteString(c13Wire(string(v)))
		}
		return nil
	})
	b.WriteByte(')')
}

func c13ExecE(toks []string) string {
	db := c13GetDb()
	defer func() {
		_ = db.Update(func(tx *bbolt.Tx) error {
			if tx.Bucket([]byte("c13")) != nil {
				return tx.DeleteBucket([]byte("c13"))
			}
			return nil
		})
	}()
	var checker boltz.FieldChecker
	if toks[0] != "c=-" {
		m := boltz.MapFieldChecker{}
		body := strings.TrimPrefix(toks[0], "c=.")
		if body != "" {
			for _, w := range strings.Split(body, ",") {
				m[fromWire(w)] = struct{}{}
			}
		}
		checker = m
	}
	// m=<t1>;<t2>;…: one WithFieldOverrides call per table, in order
	var overrides []map[string]string
	if toks[1] != "m=-" {
		for _, tbl := range strings.Split(strings.TrimPrefix(toks[1], "m="), ";") {
			m := map[string]string{}
			for _, p := range strings.Split(tbl, ",") {
				ab := strings.Split(p, ">")
				m[fromWire(ab[0])] = fromWire(ab[1])
			}
			overrides = append(overrides, m)
		}
	}
	var ops []c13Op
	var fieldsSeen []string
	seen := map[string]bool{}
	for _, t := range toks[2:] {
		op := c13ParseOp(t)
		ops = append(ops, op)
		if !seen[op.field] {
			seen[op.field] = true
			fieldsSeen = append(fieldsSeen, op.field)
		}
	}
	var obs []string
	phase := func(pre bool) error {
		return db.Update(func(tx *bbolt.Tx) error {
			tb := boltz.GetOrCreatePath(tx, "c13", "e")
			if tb.HasError() {
				return tb.GetError()
			}
			ctx := &boltz.PersistContext{Id: "e", Bucket: tb, IsCreate: pre}
			if !pre {
				ctx.FieldChecker = checker
				for _, m := range overrides {
					ctx.WithFieldOverrides(m)
				}
			}
			for i, op := range ops {
				if op.pre == pre {
					c13Apply(ctx, op, i, &obs)
				}
			}
			return tb.GetError()
		})
	}
	// pre-state operations all precede write operations in a generated case
	if err := phase(true); err != nil {
		return "err=" + c13ErrName(err)
	}
	if err := phase(false); err != nil {
		return "err=" + c13ErrName(err)
	}
	out := []string{"err=none"}
	out = append(out, obs...)
	_ = db.View(func(tx *bbolt.Tx) error {
		tb := boltz.Path(tx, "c13", "e")
		for _, f := range fieldsSeen {
			c13Reads(tb, f, &out)
		}
		var b strings.Builder
		c13Dump(&b, tb.Bucket)
		out = append(out, "dump="+b.String())
		return nil
	})
	return strings.Join(out, " ")
}

func c13Exec(line string) string {
	time.Local = c13OrigLocal // a case may have pointed it at a zone of its own (c13_time.go)
	f := fields(line)
	switch f[0] {
	case "k":
		enc, err := boltz.EncodeStringSlice(c13Wires(f[1:]))
		if err != nil {
			return "enc=err:" + c13KeyErr(err) + " dec=-"
		}
		return "enc=" + c13Wire(string(enc)) + " " + c13Dec(enc)
	case "d":
		return c13Dec([]byte(fromWire(f[1])))
	case "j":
		var a, b []string
		cur := &a
		for _, w := range f[1:] {
			if w == "|" {
				cur = &b
				continue
			}
			*cur = append(*cur, fromWire(w))
		}
		e1, err1 := boltz.EncodeStringSlice(a)
		e2, err2 := boltz.EncodeStringSlice(b)
		if err1 != nil || err2 != nil {
			return "eq=err"
		}
		if bytes.Equal(e1, e2) {
			return "eq=1"
		}
		return "eq=0"
	case "e":
		return c13ExecE(f[1:])
	case "h":
		return c13ExecH(f[1:])
	case "tm":
		return c13ExecTM(f[1:])
	case "tu":
		return c13ExecTU(f[1:])
	}
	return "bad-case"
}
