package main

// C05, schema-parametrised cases: the property has to hold for EVERY configuration of link
// collections, so the schema is part of the case.  Stores: two root stores A (`things`) and B
// (`owners`), a (non-extended) child store of each (`a`, `b`; base path `ext`, registered with the
// root store through boltz.ChildStoreUpdateHandler whose mapper declines updates).  A schema is a
// list of declared collections, each registered on BOTH of its stores:
//
//	p<ca><cb>   AddLinkCollection            between (ca ? a : A) and (cb ? b : B)
//	r<ca><cb>   AddRefCountedLinkCollection  between the same choice of stores
//	s<F><c>     AddLinkCollection(sym, sym)  on store (F = A|B, c ? child : root) with itself
//
// Set symbols are named per store: the k-th collection registered on a store uses that store's
// symbol `f<k>` (so different stores reuse the same names, and the two ends of a collection are
// in general named differently).  A collection token may carry the naming variants of its two
// ends, `<coll>.<vA><vB>` (self: `.<v>`): 0 = AddFkSetSymbol(name) (bucket named like the symbol),
// 1 = AddFkSymbolWithKey(name, "k"+name) (another key), 2 = AddFkSymbolWithKey(name, name, "refs")
// (under a path prefix), 3 = AddFkSymbolWithKey(name, "k"+name, "refs", "deep").  An optional suffix
// `@<ea><eb>` makes the child store of family A / B an EXTENDED store (StoreDefinition.Extended()).
//
// Case line:  G <schema> <poolA> <poolB> <tx> <tx> ...      ("-" = no collection)
//
//	c:X:id               X.Create                              X = A | B | a | b
//	cl:X:id:i:keys       X.Create, PersistEntity calls ctx.SetLinkedIds("f<i>", keys)
//	u:X:id:i:keys:p      X.Update, likewise; p = n | 1 | 0 (field checker)
//	d:X:id               X.DeleteById (a child store forwards to its parent)
//	al|rl|sl:i:S:id:keys   a1|r1:i:S:id:k   gl:i:S:id   il:i:S:id:k     LinkCollection i, called on its side-S store's collection
//	inc|dec:i:S:id:k   set:i:S:id:k:n   gc:i:S:id:k                     RefCountedLinkCollection i
//
// Output per transaction: `<op results>|<partial view>|<view>`.  View: for every pool id
// `<F>.<id>=<root present><child present>;`, then per collection `#<i>:` the read API of both of
// its ends for every pool id of the end's family (plain / self: GetLinks / IterateLinks / IsLinked
// matrix; ref-counted: IterateLinks forward with GetLinkCount / IterateLinks reverse /
// GetLinkCounts matrix), then `#D` and the canonicalised boltz.Traverse dump of the whole file
// (anything the schema does not explain is listed verbatim as EXTRA).
import (
	"bufio"
	"context"
	"encoding/binary"
	"fmt"
	"sort"
	"strconv"
	"strings"

	"github.com/openziti/storage/ast"
	"github.com/openziti/storage/boltz"
	"go.etcd.io/bbolt"
)

const c05gChildPath = "ext"

type c05gEnt struct {
	Id    string
	Type  string
	Set   bool
	Field string
	Links []string
	// R-cases (c05_restrict.go): SetLinkedIds on ctx.GetParentContext() (the parent's field, through a child
	// store); the fk field `ref`
	Parent bool
	HasRef bool
	Ref    string
}

func (e *c05gEnt) GetId() string         { return e.Id }
func (e *c05gEnt) SetId(id string)       { e.Id = id }
func (e *c05gEnt) GetEntityType() string { return e.Type }

type c05gStrategy struct{ typ string }

func (s c05gStrategy) NewEntity() *c05gEnt                      { return &c05gEnt{Type: s.typ} }
func (s c05gStrategy) FillEntity(*c05gEnt, *boltz.TypedBucket) {}
func (s c05gStrategy) PersistEntity(e *c05gEnt, ctx *boltz.PersistContext) {
	if e.Set {
		if e.Parent {
			ctx.GetParentContext().SetLinkedIds(e.Field, e.Links)
		} else {
			ctx.SetLinkedIds(e.Field, e.Links)
		}
	}
	if e.HasRef && !ctx.Bucket.HasError() {
		ctx.SetString(c05gRefField, e.Ref)
	}
}

type c05gColl struct {
	kind   byte    // 'p' | 'r' | 's'
	child  [2]bool // p, r: is the family-A / family-B end the child store; s: [0] = child
	fam    int     // s: family (0 = A, 1 = B)
	plain  [2]boltz.LinkCollection
	rc     [2]boltz.RefCountedLinkCollection
	stores [2]int // store index (0 A, 1 B, 2 a, 3 b) of side A / side B; s: both the same
	names  [2]string // name of the set symbol on the side-A / side-B store
	paths  [2]string // where its bucket lives inside the ROOT entity bucket ("ext/" first for a child store)
}

type c05gSchema struct {
	stores [4]*boltz.BaseStore[*c05gEnt] // A, B, a, b
	colls  []*c05gColl
	byName [4]map[string]int // per store: symbol name -> collection index
	byPath [2]map[string]int // per family: bucket path inside the root entity bucket -> collection index
	prefix [2]map[string]bool // per family: proper prefixes of those paths (intermediate buckets)
	fk     int                // R-cases: -1 none, 0 = restricting fk A.ref -> B, 1 = B.ref -> A
	isR    bool               // R-case schema: the dump ends with the fk field values and back-reference sets
}

// c05gSymbol declares the set symbol of one collection end in the given naming variant and returns
// it with the path of its bucket inside the entity bucket of its store
func c05gSymbol(st, linked *boltz.BaseStore[*c05gEnt], name string, variant byte) (boltz.EntitySymbol, string) {
	switch variant {
	case '1':
		return st.AddFkSymbolWithKey(name, "k"+name, linked), "k" + name
	case '2':
		return st.AddFkSymbolWithKey(name, name, linked, "refs"), "refs/" + name
	case '3':
		return st.AddFkSymbolWithKey(name, "k"+name, linked, "refs", "deep"), "refs/deep/k" + name
	}
	return st.AddFkSetSymbol(name, linked), name
}

func (s *c05gSchema) addPath(fam int, child bool, rel string, i int) string {
	if child {
		rel = c05gChildPath + "/" + rel
	}
	if s.byPath[fam] == nil {
		s.byPath[fam] = map[string]int{}
		s.prefix[fam] = map[string]bool{}
	}
	s.byPath[fam][rel] = i
	seg := strings.Split(rel, "/")
	for n := 1; n < len(seg); n++ {
		s.prefix[fam][strings.Join(seg[:n], "/")] = true
	}
	return rel
}

// field: the name of collection i's set symbol on store x (-1 side: not one of its stores)
func (s *c05gSchema) field(i, x int) string {
	c := s.colls[i]
	if c.stores[0] == x {
		return c.names[0]
	}
	if c.stores[1] == x {
		return c.names[1]
	}
	return "no-such-field"
}

var c05gTypes = [2]string{c05TypeA, c05TypeB}

func c05gStoreIdx(x string) int {
	switch x {
	case "A":
		return 0
	case "B":
		return 1
	case "a":
		return 2
	}
	return 3
}

func c05gField(i int) string { return "f" + strconv.Itoa(i) }

func c05gNewRoot(typ string) *boltz.BaseStore[*c05gEnt] {
	st := boltz.NewBaseStore(boltz.StoreDefinition[*c05gEnt]{
		EntityType:     typ,
		EntityStrategy: c05gStrategy{typ: typ},
		BasePath:       []string{c05Root},
		EntityNotFoundF: func(id string) error {
			return boltz.NewNotFoundError(boltz.GetSingularEntityType(typ), "id", id)
		},
	})
	st.InitImpl(st)
	return st
}

func c05gNewChild(parent *boltz.BaseStore[*c05gEnt], extended bool) *boltz.BaseStore[*c05gEnt] {
	typ := parent.GetEntityType()
	st := boltz.NewBaseStore(boltz.StoreDefinition[*c05gEnt]{
		EntityStrategy: c05gStrategy{typ: typ},
		BasePath:       []string{c05gChildPath},
		Parent:         parent,
		ParentMapper:   func(e boltz.Entity) boltz.Entity { return e },
		EntityNotFoundF: func(id string) error {
			return boltz.NewNotFoundError(boltz.GetSingularEntityType(typ), "id", id)
		},
	})
	if extended {
		st = st.Extended()
	}
	st.InitImpl(st)
	// the child store takes part in parent deletes; updates through the parent stay with the parent
	parent.RegisterChildStoreStrategy(&boltz.ChildStoreUpdateHandler[*c05gEnt, *c05gEnt]{
		Store:  st,
		Mapper: func(boltz.MutateContext, *c05gEnt) (*c05gEnt, bool) { return nil, false },
	})
	return st
}

var c05gSchemas = map[string]*c05gSchema{}

func c05gBuild(spec string) *c05gSchema {
	if s, ok := c05gSchemas[spec]; ok {
		return s
	}
	s := &c05gSchema{fk: -1}
	full := spec
	if t := strings.Index(spec, "~"); t >= 0 {
		s.isR = true
		switch spec[t+1:] {
		case "AB":
			s.fk = 0
		case "BA":
			s.fk = 1
		}
		spec = spec[:t]
	}
	ext := [2]bool{}
	if at := strings.Index(spec, "@"); at >= 0 {
		fl := spec[at+1:]
		ext[0] = len(fl) > 0 && fl[0] == '1'
		ext[1] = len(fl) > 1 && fl[1] == '1'
		spec = spec[:at]
	}
	s.stores[0] = c05gNewRoot(c05TypeA)
	s.stores[1] = c05gNewRoot(c05TypeB)
	s.stores[0].AddIdSymbol("id", ast.NodeTypeString)
	s.stores[1].AddIdSymbol("id", ast.NodeTypeString)
	s.stores[2] = c05gNewChild(s.stores[0], ext[0])
	s.stores[3] = c05gNewChild(s.stores[1], ext[1])
	s.stores[0].GrantSymbols(s.stores[2])
	s.stores[1].GrantSymbols(s.stores[3])
	if spec != "-" && spec != "" {
		for i, cs := range strings.Split(spec, ",") {
			variants := "00"
			if dot := strings.Index(cs, "."); dot >= 0 {
				variants = cs[dot+1:] + "00"
				cs = cs[:dot]
			}
			c := &c05gColl{kind: cs[0]}
			next := func(x int) string {
				if s.byName[x] == nil {
					s.byName[x] = map[string]int{}
				}
				n := c05gField(len(s.byName[x]))
				s.byName[x][n] = i
				return n
			}
			switch c.kind {
			case 'p', 'r':
				c.child = [2]bool{cs[1] == '1', cs[2] == '1'}
				c.stores = [2]int{0, 1}
				if c.child[0] {
					c.stores[0] = 2
				}
				if c.child[1] {
					c.stores[1] = 3
				}
				sa, sb := s.stores[c.stores[0]], s.stores[c.stores[1]]
				c.names = [2]string{next(c.stores[0]), next(c.stores[1])}
				symA, relA := c05gSymbol(sa, sb, c.names[0], variants[0])
				symB, relB := c05gSymbol(sb, sa, c.names[1], variants[1])
				c.paths = [2]string{s.addPath(0, c.child[0], relA, i), s.addPath(1, c.child[1], relB, i)}
				if c.kind == 'p' {
					c.plain[0] = sa.AddLinkCollection(symA, symB)
					c.plain[1] = sb.AddLinkCollection(symB, symA)
				} else {
					c.rc[0] = sa.AddRefCountedLinkCollection(symA, symB)
					c.rc[1] = sb.AddRefCountedLinkCollection(symB, symA)
				}
			case 's':
				if cs[1] == 'B' {
					c.fam = 1
				}
				c.child[0] = cs[2] == '1'
				idx := c.fam
				if c.child[0] {
					idx += 2
				}
				c.stores = [2]int{idx, idx}
				st := s.stores[idx]
				n := next(idx)
				c.names = [2]string{n, n}
				sym, rel := c05gSymbol(st, st, n, variants[0])
				rp := s.addPath(c.fam, c.child[0], rel, i)
				c.paths = [2]string{rp, rp}
				c.plain[0] = st.AddLinkCollection(sym, sym)
				c.plain[1] = c.plain[0]
			default:
				panic("bad collection " + cs)
			}
			s.colls = append(s.colls, c)
		}
	}
	if s.fk >= 0 {
		// restricting fk: fkIndex on the referring root store, fkDeleteConstraint on the referred one
		src, dst := s.stores[s.fk], s.stores[1-s.fk]
		fkSym := src.AddFkSymbol(c05gRefField, dst)
		back := dst.AddFkSetSymbol(c05gBackField, src)
		src.AddNullableFkIndex(fkSym, back)
	}
	c05gSchemas[full] = s
	return s
}

// ---------------------------------------------------------------------------- executor

func (s *c05gSchema) op(ctx boltz.MutateContext, op string) (string, bool) {
	tx := ctx.Tx()
	f := strings.Split(op, ":")
	ret := "u"
	var err error
	switch f[0] {
	case "cr", "crl":
		// Create through the referring root store with the fk field set: cr:X:id:target  crl:X:id:target:i:keys
		x := c05gStoreIdx(f[1])
		e := &c05gEnt{Id: fromWire(f[2]), Type: c05gTypes[x%2], HasRef: true, Ref: fromWire(f[3])}
		if f[0] == "crl" {
			i, _ := strconv.Atoi(f[4])
			e.Set, e.Field, e.Links = true, s.field(i, x), c05List(f[5])
		}
		err = s.stores[x].Create(ctx, e)
	case "cp":
		// Create through child store x; PersistEntity persists the PARENT's link field on GetParentContext()
		x := c05gStoreIdx(f[1])
		i, _ := strconv.Atoi(f[3])
		err = s.stores[x].Create(ctx, &c05gEnt{Id: fromWire(f[2]), Type: c05gTypes[x%2], Set: true, Parent: x >= 2,
			Field: s.field(i, x%2), Links: c05List(f[4])})
	case "dt":
		err = s.stores[c05gStoreIdx(f[1])].DeleteById(ctx, fromWire(f[2]))
	case "c", "cl", "u", "d":
		x := c05gStoreIdx(f[1])
		st := s.stores[x]
		id := fromWire(f[2])
		typ := c05gTypes[x%2]
		switch f[0] {
		case "c":
			err = st.Create(ctx, &c05gEnt{Id: id, Type: typ})
		case "cl":
			i, _ := strconv.Atoi(f[3])
			err = st.Create(ctx, &c05gEnt{Id: id, Type: typ, Set: true, Field: s.field(i, x), Links: c05List(f[4])})
		case "u":
			i, _ := strconv.Atoi(f[3])
			var checker boltz.FieldChecker
			switch f[5] {
			case "1":
				checker = c05Checker{s.field(i, x): {}}
			case "0":
				checker = c05Checker{"somethingElse": {}}
			}
			err = st.Update(ctx, &c05gEnt{Id: id, Type: typ, Set: true, Field: s.field(i, x), Links: c05List(f[4])}, checker)
		case "d":
			err = st.DeleteById(ctx, id)
		}
	default:
		i, _ := strconv.Atoi(f[1])
		c := s.colls[i]
		sd := c05SideIdx(f[2])
		if c.kind == 's' {
			sd = 0
		}
		id := fromWire(f[3])
		switch f[0] {
		case "al":
			err = c.plain[sd].AddLinks(tx, id, c05List(f[4])...)
		case "rl":
			err = c.plain[sd].RemoveLinks(tx, id, c05List(f[4])...)
		case "sl":
			err = c.plain[sd].SetLinks(tx, id, c05List(f[4]))
		case "a1":
			var ch bool
			ch, err = c.plain[sd].AddLink(tx, []byte(id), []byte(fromWire(f[4])))
			ret = c05Bool(ch)
		case "r1":
			var ch bool
			ch, err = c.plain[sd].RemoveLink(tx, []byte(id), []byte(fromWire(f[4])))
			ret = c05Bool(ch)
		case "gl":
			ret = "[" + c05Wires(c.plain[sd].GetLinks(tx, id)) + "]"
		case "il":
			ret = c05Bool(c.plain[sd].IsLinked(tx, []byte(id), []byte(fromWire(f[4]))))
		case "inc":
			var n int
			n, err = c.rc[sd].IncrementLinkCount(tx, []byte(id), []byte(fromWire(f[4])))
			ret = strconv.Itoa(n)
		case "dec":
			var n int
			n, err = c.rc[sd].DecrementLinkCount(tx, []byte(id), []byte(fromWire(f[4])))
			ret = strconv.Itoa(n)
		case "set":
			cnt, perr := strconv.ParseInt(f[5], 10, 64)
			if perr != nil {
				panic(perr)
			}
			var o1, o2 *int32
			o1, o2, err = c.rc[sd].SetLinkCount(tx, []byte(id), []byte(fromWire(f[4])), int(cnt))
			ret = c05OptI32(o1) + "~" + c05OptI32(o2)
		case "gc":
			o1, o2 := c.rc[sd].GetLinkCounts(tx, []byte(id), []byte(fromWire(f[4])))
			ret = c05OptI32(o1) + "~" + c05OptI32(o2)
		default:
			panic("bad op " + op)
		}
	}
	return ret + c05Err(err), err != nil
}

func (s *c05gSchema) view(tx *bbolt.Tx, pools [2][]string) string {
	var b strings.Builder
	for f := 0; f < 2; f++ {
		for _, id := range pools[f] {
			fmt.Fprintf(&b, "%s.%s=%s%s;", "AB"[f:f+1], toWire(id),
				c05Bool(s.stores[f].IsEntityPresent(tx, id)), c05Bool(s.stores[f+2].IsEntityPresent(tx, id)))
		}
	}
	for i, c := range s.colls {
		fmt.Fprintf(&b, "#%d:", i)
		switch c.kind {
		case 'p':
			for sd := 0; sd < 2; sd++ {
				for _, id := range pools[sd] {
					bid := []byte(id)
					b.WriteString("AB"[sd:sd+1] + "." + toWire(id) + "=")
					b.WriteString(c05Wires(c.plain[sd].GetLinks(tx, id)))
					b.WriteString("/" + c05Wires(c05Cursor(c.plain[sd].IterateLinks(tx, bid))) + "/")
					for _, k := range pools[1-sd] {
						b.WriteString(c05Bool(c.plain[sd].IsLinked(tx, bid, []byte(k))))
					}
					b.WriteString(";")
				}
			}
		case 'r':
			for sd := 0; sd < 2; sd++ {
				for _, id := range pools[sd] {
					bid := []byte(id)
					b.WriteString("AB"[sd:sd+1] + "." + toWire(id) + "=")
					for j, k := range c05Cursor(c.rc[sd].IterateLinks(tx, bid, true)) {
						if j > 0 {
							b.WriteString(",")
						}
						b.WriteString(toWire(k) + ":" + c05OptI32(c.rc[sd].GetLinkCount(tx, bid, []byte(k))))
					}
					b.WriteString("/" + c05Wires(c05Cursor(c.rc[sd].IterateLinks(tx, bid, false))) + "/")
					for j, k := range pools[1-sd] {
						if j > 0 {
							b.WriteString(",")
						}
						o1, o2 := c.rc[sd].GetLinkCounts(tx, bid, []byte(k))
						b.WriteString(c05OptI32(o1) + "~" + c05OptI32(o2))
					}
					b.WriteString(";")
				}
			}
		case 's':
			for _, id := range pools[c.fam] {
				bid := []byte(id)
				b.WriteString(toWire(id) + "=")
				b.WriteString(c05Wires(c.plain[0].GetLinks(tx, id)))
				b.WriteString("/" + c05Wires(c05Cursor(c.plain[0].IterateLinks(tx, bid))) + "/")
				for _, k := range pools[c.fam] {
					b.WriteString(c05Bool(c.plain[0].IsLinked(tx, bid, []byte(k))))
				}
				b.WriteString(";")
			}
		}
	}
	b.WriteString("#D")
	b.WriteString(s.dump(tx))
	return b.String()
}

type c05gDumpEnt struct {
	child  bool
	fields map[int][]string
}

type c05gVisitor struct {
	s     *c05gSchema
	ents  [2]map[string]*c05gDumpEnt
	extra []string
	refs  []string // fk field values  <referrer>><target>
	idx   []string // back-reference set entries  <target><<referrer>
}

const c05gRefField = "ref"
const c05gBackField = "refd"

func (v *c05gVisitor) ent(fam int, id string) *c05gDumpEnt {
	if v.ents[fam][id] == nil {
		v.ents[fam][id] = &c05gDumpEnt{fields: map[int][]string{}}
	}
	return v.ents[fam][id]
}

func c05gFam(typ string) int {
	switch typ {
	case c05TypeA:
		return 0
	case c05TypeB:
		return 1
	}
	return -1
}

// entityRel splits a Traverse path (plus key) below an entity bucket: family, id, path inside the
// root entity bucket; ok = false when the path is not below `u/<type>/<id>`
func c05gEntityRel(p []string) (fam int, id string, rel string, ok bool) {
	if len(p) < 4 || p[1] != c05Root || c05gFam(p[2]) < 0 {
		return 0, "", "", false
	}
	return c05gFam(p[2]), p[3], strings.Join(p[4:], "/"), true
}

func (v *c05gVisitor) VisitBucket(path string, key []byte, _ *bbolt.Bucket) bool {
	k := string(key)
	p := append(strings.Split(path, "/"), k) // "", "u", type, id, path inside the entity bucket...
	switch {
	case len(p) == 2 && k == c05Root:
	case len(p) == 3 && p[1] == c05Root && c05gFam(k) >= 0:
	default:
		fam, id, rel, ok := c05gEntityRel(p)
		switch {
		case !ok:
			v.extra = append(v.extra, "bucket:"+path+"/"+toWire(k))
		case rel == "":
			v.ent(fam, id)
		case rel == c05gChildPath:
			v.ent(fam, id).child = true
		default:
			_, isField := v.s.byPath[fam][rel]
			if v.s.fk >= 0 && fam == 1-v.s.fk && rel == c05gBackField {
				isField = true
			}
			if !isField && !v.s.prefix[fam][rel] {
				v.extra = append(v.extra, "bucket:"+path+"/"+toWire(k))
			}
		}
	}
	return true
}

func (v *c05gVisitor) VisitKeyValue(path string, key, value []byte) bool {
	if fam, id, rel, ok := c05gEntityRel(strings.Split(path, "/")); ok {
		if i, isField := v.s.byPath[fam][rel]; isField {
			c := v.s.colls[i]
			en := v.ent(fam, id)
			t, k := boltz.GetTypeAndValue(key)
			if t == boltz.TypeString && c.kind != 'r' && len(value) == 0 {
				en.fields[i] = append(en.fields[i], toWire(string(k)))
				return true
			}
			if t == boltz.TypeString && c.kind == 'r' && len(value) == 5 && boltz.FieldType(value[0]) == boltz.TypeInt32 {
				n := int32(binary.LittleEndian.Uint32(value[1:]))
				en.fields[i] = append(en.fields[i], toWire(string(k))+":"+strconv.FormatInt(int64(n), 10))
				return true
			}
		}
	}
	if fam, id, rel, ok := c05gEntityRel(strings.Split(path, "/")); ok && v.s.fk >= 0 {
		if rel == "" && fam == v.s.fk && string(key) == c05gRefField && len(value) > 0 && boltz.FieldType(value[0]) == boltz.TypeString {
			v.refs = append(v.refs, toWire(id)+">"+toWire(string(value[1:])))
			return true
		}
		if rel == c05gBackField && fam == 1-v.s.fk && len(value) == 0 {
			if t, k := boltz.GetTypeAndValue(key); t == boltz.TypeString {
				v.idx = append(v.idx, toWire(id)+"<"+toWire(string(k)))
				return true
			}
		}
	}
	v.extra = append(v.extra, "kv:"+path+"/"+toWire(string(key))+"="+toWire(string(value)))
	return true
}

func c05gPathSide(c *c05gColl, fam int) int {
	if c.kind == 's' {
		return 0
	}
	return fam
}

func (s *c05gSchema) dump(tx *bbolt.Tx) string {
	v := &c05gVisitor{s: s, ents: [2]map[string]*c05gDumpEnt{{}, {}}}
	boltz.Traverse(tx, "", v)
	var b strings.Builder
	for fam := 0; fam < 2; fam++ {
		ids := make([]string, 0, len(v.ents[fam]))
		for id := range v.ents[fam] {
			ids = append(ids, id)
		}
		sort.Strings(ids)
		for _, id := range ids {
			en := v.ents[fam][id]
			b.WriteString("AB"[fam:fam+1] + "." + toWire(id))
			if en.child {
				b.WriteString("+")
			}
			for i := range s.colls {
				if len(en.fields[i]) > 0 {
					// the real bucket path inside the entity bucket (a collection has one end per family)
					b.WriteString("^" + s.colls[i].paths[c05gPathSide(s.colls[i], fam)] + "=" + strings.Join(en.fields[i], ","))
				}
			}
			b.WriteString(";")
		}
	}
	if len(v.extra) > 0 {
		sort.Strings(v.extra)
		b.WriteString("EXTRA:" + strings.Join(v.extra, ","))
	}
	if s.isR {
		sort.Strings(v.refs)
		sort.Strings(v.idx)
		b.WriteString("#F" + strings.Join(v.refs, ";") + "#I" + strings.Join(v.idx, ";"))
	}
	return b.String()
}

func c05SchemaExec(line string) string {
	if c05env == nil {
		c05env = c05Open()
	}
	e := c05env
	e.wipe()
	f := fields(line)
	s := c05gBuild(f[1])
	pools := [2][]string{c05List(f[2]), c05List(f[3])}
	var out strings.Builder
	for _, txs := range f[4:] {
		ops := strings.Split(txs, ";")
		var results []string
		partial := ""
		err := e.db.Update(boltz.NewMutateContext(context.Background()), func(ctx boltz.MutateContext) error {
			for _, op := range ops {
				r, failed := s.op(ctx, op)
				results = append(results, r)
				if failed && strings.HasPrefix(op, "dt:") {
					continue // R-cases: the caller tolerates a refused DeleteById and carries on
				}
				if failed {
					partial = s.view(ctx.Tx(), pools)
					return fmt.Errorf("op failed")
				}
			}
			return nil
		})
		if err != nil && partial == "" {
			results = append(results, "commit-error("+strings.ReplaceAll(err.Error(), " ", "_")+")")
		}
		var after string
		_ = e.db.View(func(tx *bbolt.Tx) error {
			after = s.view(tx, pools)
			return nil
		})
		if out.Len() > 0 {
			out.WriteString(" ")
		}
		out.WriteString(strings.Join(results, ";") + "|" + partial + "|" + after)
	}
	return out.String()
}

// ---------------------------------------------------------------------------- generator

// every kind of collection of the family
var c05gKinds = []string{"p00", "p10", "p01", "p11", "r00", "r10", "r01", "r11", "sA0", "sA1", "sB0", "sB1"}

// storeOf: the store letter at side sd (0 = A, 1 = B) of a collection
func c05gStoreOf(cs string, sd int) string {
	if cs[0] == 's' {
		l := map[byte][2]string{'A': {"A", "a"}, 'B': {"B", "b"}}[cs[1]]
		if cs[2] == '1' {
			return l[1]
		}
		return l[0]
	}
	l := [2][2]string{{"A", "a"}, {"B", "b"}}[sd]
	if cs[1+sd] == '1' {
		return l[1]
	}
	return l[0]
}

// all multisets of at most n collection kinds (as sorted index lists)
func c05gMultisets(n int) [][]string {
	var res [][]string
	var rec func(start int, cur []string)
	rec = func(start int, cur []string) {
		if len(cur) > 0 {
			res = append(res, append([]string{}, cur...))
		}
		if len(cur) == n {
			return
		}
		for i := start; i < len(c05gKinds); i++ {
			rec(i, append(cur, c05gKinds[i]))
		}
	}
	rec(0, nil)
	return res
}

// deleteStream: bounded-exhaustive over the schemas.  Mode "child": every entity is created through
// the child store of its family (root entity + extension data); mode "root": the entity "a" of each
// family is created through the ROOT store (no extension data), "ab" through the child store.  Every
// collection then gets links / counts (incl. self links where the ends allow it) between all
// entities its two stores hold; then "a" is deleted through one of the four stores (one case per
// schema, flag set and store) and re-created.
func (g *c05Gen_) deleteStream(schemas [][]string, flagSets func(sc []string) []string) {
	ida, idb := toWire("a"), toWire("ab")
	for _, sc0 := range schemas {
		for _, flags := range flagSets(sc0) {
			for _, x := range []string{"A", "B", "a", "b"} {
				sc := g.withNaming(sc0)
				spec := strings.Join(sc, ",") + flags
				rootMode := g.r.chance(1, 2)
				if flags != "" {
					rootMode = g.r.chance(3, 4)
				}
				var create []string
				if rootMode {
					create = []string{"c:A:" + ida, "c:B:" + ida, "c:a:" + idb, "c:b:" + idb}
				} else {
					create = []string{"c:a:" + ida, "c:b:" + ida, "c:a:" + idb, "c:b:" + idb}
				}
				avail := func(store string) []string {
					if rootMode && (store == "a" || store == "b") {
						return []string{idb}
					}
					return []string{ida, idb}
				}
				var link []string
				for i, cs := range sc {
					is := strconv.Itoa(i)
					switch cs[0] {
					case 'p':
						va, vb := avail(c05gStoreOf(cs, 0)), avail(c05gStoreOf(cs, 1))
						for _, p := range va {
							link = append(link, "al:"+is+":A:"+p+":"+strings.Join(vb, ","))
						}
					case 'r':
						va, vb := avail(c05gStoreOf(cs, 0)), avail(c05gStoreOf(cs, 1))
						for _, p := range va {
							for _, q := range vb {
								link = append(link, "inc:"+is+":A:"+p+":"+q)
							}
						}
						link = append(link, "set:"+is+":B:"+vb[0]+":"+va[len(va)-1]+":3")
					case 's':
						v := avail(c05gStoreOf(cs, 0))
						for _, p := range v {
							link = append(link, "al:"+is+":A:"+p+":"+strings.Join(v, ","))
						}
					}
				}
				var txs []string
				if len(link) == 0 {
					txs = []string{strings.Join(create, ";"), "d:" + x + ":" + ida}
				} else if g.r.chance(1, 2) {
					// the delete in the same transaction as the writes (fresh, in-memory bbolt nodes)
					txs = []string{strings.Join(create, ";"), strings.Join(link, ";") + ";d:" + x + ":" + ida}
				} else {
					txs = []string{strings.Join(create, ";"), strings.Join(link, ";"), "d:" + x + ":" + ida}
				}
				txs = append(txs, "c:"+x+":"+ida)
				fmt.Fprintf(g.out, "G %s %s %s %s\n", spec, ida+","+idb, ida+","+idb, strings.Join(txs, " "))
			}
		}
	}
}

// withNaming draws the naming variant of every collection end: half of the collections keep the
// plain set symbols, the others get another key and / or a path prefix on either end
func (g *c05Gen_) withNaming(sc []string) []string {
	res := make([]string, len(sc))
	for i, cs := range sc {
		res[i] = cs
		if strings.Contains(cs, ".") || g.r.chance(1, 2) {
			continue
		}
		if cs[0] == 's' {
			res[i] = cs + "." + strconv.Itoa(g.r.intn(4))
		} else {
			res[i] = cs + "." + strconv.Itoa(g.r.intn(4)) + strconv.Itoa(g.r.intn(4))
		}
	}
	return res
}

// namingStream: every single-collection schema in EVERY naming of its ends (16 per two-store kind,
// 4 per self kind), through the delete stream
func (g *c05Gen_) namingStream() {
	var schemas [][]string
	for _, k := range c05gKinds {
		if k[0] == 's' {
			for v := 0; v < 4; v++ {
				schemas = append(schemas, []string{k + "." + strconv.Itoa(v)})
			}
			continue
		}
		for va := 0; va < 4; va++ {
			for vb := 0; vb < 4; vb++ {
				if va+vb > 0 {
					schemas = append(schemas, []string{k + "." + strconv.Itoa(va) + strconv.Itoa(vb)})
				}
			}
		}
	}
	g.deleteStream(schemas, func([]string) []string { return []string{""} })
}

func (g *c05Gen_) schemaHistory(sc []string) {
	sc = g.withNaming(sc)
	r := g.r
	spec := "-"
	if len(sc) > 0 {
		spec = strings.Join(sc, ",")
	}
	if r.chance(1, 4) {
		spec += pick(r, []string{"@10", "@01", "@11"}) // extended child store(s)
	}
	pools := [2][]string{g.pool(), g.pool()}
	if len(pools[0]) > 3 {
		pools[0] = pools[0][:3]
	}
	if len(pools[1]) > 3 {
		pools[1] = pools[1][:3]
	}
	fams := [2][2]string{{"A", "a"}, {"B", "b"}}
	var txs []string
	var first []string
	for f := 0; f < 2; f++ {
		for _, id := range pools[f] {
			switch w := r.intn(10); {
			case w < 6:
				first = append(first, "c:"+fams[f][1]+":"+toWire(id)) // child store (creates the root entity too)
			case w < 9:
				first = append(first, "c:"+fams[f][0]+":"+toWire(id))
			}
		}
	}
	if len(first) > 0 {
		txs = append(txs, strings.Join(first, ";"))
	}
	weight := int64(0)
	ntx := 2 + r.intn(6)
	for t := 0; t < ntx; t++ {
		nops := 1 + r.intn(4)
		var ops []string
		for o := 0; o < nops; o++ {
			w := r.intn(100)
			if w < 30 || len(sc) == 0 {
				// store level
				f := r.intn(2)
				x := fams[f][r.intn(2)]
				id := toWire(pick(r, pools[f]))
				switch v := r.intn(30); {
				case v < 7:
					ops = append(ops, "c:"+x+":"+id)
				case v < 8:
					ops = append(ops, "c:"+x+":-")
				case v < 22 || len(sc) == 0:
					ops = append(ops, "d:"+x+":"+id)
				default:
					// create / update with SetLinkedIds on a plain or self collection, called on the store that declares it
					var cands []int
					for i, cs := range sc {
						if cs[0] != 'r' {
							cands = append(cands, i)
						}
					}
					if len(cands) == 0 {
						ops = append(ops, "d:"+x+":"+id)
						break
					}
					i := pick(r, cands)
					cs := sc[i]
					sd := r.intn(2)
					other := pools[1-sd]
					if cs[0] == 's' {
						sd = 0
						if cs[1] == 'B' {
							other = pools[1]
						} else {
							other = pools[0]
						}
					}
					st := c05gStoreOf(cs, sd)
					fam := 0
					if st == "B" || st == "b" {
						fam = 1
					}
					id = toWire(pick(r, pools[fam]))
					if r.chance(1, 2) {
						ops = append(ops, "cl:"+st+":"+id+":"+strconv.Itoa(i)+":"+c05Wires(g.keys(other)))
					} else {
						ops = append(ops, "u:"+st+":"+id+":"+strconv.Itoa(i)+":"+c05Wires(g.keys(other))+":"+pick(r, []string{"n", "1", "0"}))
					}
				}
				continue
			}
			i := r.intn(len(sc))
			cs := sc[i]
			is := strconv.Itoa(i)
			sd := r.intn(2)
			own, other := pools[sd], pools[1-sd]
			S := "AB"[sd : sd+1]
			if cs[0] == 's' {
				S = "A"
				if cs[1] == 'B' {
					own, other = pools[1], pools[1]
				} else {
					own, other = pools[0], pools[0]
				}
			}
			id := toWire(pick(r, own))
			k := toWire(pick(r, other))
			if r.chance(1, 40) {
				k = "-"
			}
			if cs[0] == 'r' {
				switch v := r.intn(40); {
				case v < 14:
					ops = append(ops, "inc:"+is+":"+S+":"+id+":"+k)
					weight++
				case v < 26:
					ops = append(ops, "dec:"+is+":"+S+":"+id+":"+k)
				case v < 37:
					c := pick(r, []int64{0, 1, 1, 2, 3, 7, 255, 256, 65536})
					weight += c
					ops = append(ops, "set:"+is+":"+S+":"+id+":"+k+":"+strconv.FormatInt(c, 10))
				default:
					ops = append(ops, "gc:"+is+":"+S+":"+id+":"+k)
				}
			} else {
				switch v := r.intn(50); {
				case v < 12:
					ops = append(ops, "al:"+is+":"+S+":"+id+":"+c05Wires(g.keys(other)))
				case v < 19:
					ops = append(ops, "rl:"+is+":"+S+":"+id+":"+c05Wires(g.keys(other)))
				case v < 30:
					ops = append(ops, "sl:"+is+":"+S+":"+id+":"+c05Wires(g.keys(other)))
				case v < 38:
					ops = append(ops, "a1:"+is+":"+S+":"+id+":"+k)
				case v < 45:
					ops = append(ops, "r1:"+is+":"+S+":"+id+":"+k)
				case v < 47:
					ops = append(ops, "gl:"+is+":"+S+":"+id)
				default:
					ops = append(ops, "il:"+is+":"+S+":"+id+":"+k)
				}
			}
		}
		txs = append(txs, strings.Join(ops, ";"))
	}
	_ = weight // counts are small: every G history is inside the vocabulary (weight far below 2^31)
	fmt.Fprintf(g.out, "G %s %s %s %s\n", spec, c05Wires(pools[0]), c05Wires(pools[1]), strings.Join(txs, " "))
}

// largeCase: SIZE boundaries of link sets.  One hub entity on side `hub` of collection 0 is linked
// with n peers (ids n000, n001, ... in key order, so batches, pages and merge loops see long runs);
// the pools name only the hub and three peers (first, n-1-th, n-th), so the read API is compared
// for those and the dump for everything.
//
//	kind "del":  link / count n+1 peers, delete one peer, delete the hub (DeleteById walks n links), re-create it
//	kind "peer": the same, but the hub's links are created from the peers' side one by one (n back-links)
//	kind "set":  AddLinks n peers, SetLinks to a 3/5 subset plus new peers (merge loop over long lists), delete the hub
func (g *c05Gen_) largeCase(coll string, n int, kind string, hub int) {
	r := g.r
	id := func(k int) string { return toWire(fmt.Sprintf("n%03x", k)) }
	h := toWire("h")
	sides := [2]string{"A", "B"}
	S, O := sides[hub], sides[1-hub]
	hubStore, peerStore := c05gStoreOf(coll, hub), c05gStoreOf(coll, 1-hub)
	if coll[0] == 's' {
		S, O = "A", "A"
		peerStore = hubStore
	}
	// one more link than n: a peer is deleted before the hub, which then has exactly n links
	n++
	extra := n / 5
	var create []string
	create = append(create, "c:"+hubStore+":"+h)
	peers := make([]string, 0, n+extra)
	for k := 0; k < n+extra; k++ {
		peers = append(peers, id(k))
		create = append(create, "c:"+peerStore+":"+id(k))
	}
	var txs []string
	txs = append(txs, strings.Join(create, ";"))
	victim := peers[r.intn(n)]
	switch {
	case coll[0] == 'r':
		var ops []string
		for k := 0; k < n; k++ {
			if kind == "peer" || k%7 == 3 {
				ops = append(ops, "inc:0:"+O+":"+peers[k]+":"+h)
			} else {
				ops = append(ops, "inc:0:"+S+":"+h+":"+peers[k])
			}
		}
		ops = append(ops, "set:0:"+S+":"+h+":"+peers[n-1]+":3")
		txs = append(txs, strings.Join(ops, ";"))
	case kind == "peer":
		var ops []string
		for k := 0; k < n; k++ {
			ops = append(ops, "a1:0:"+O+":"+peers[k]+":"+h)
		}
		txs = append(txs, strings.Join(ops, ";"))
	default:
		txs = append(txs, "al:0:"+S+":"+h+":"+strings.Join(peers[:n], ","))
	}
	if kind == "set" && coll[0] != 'r' {
		// keep 3 of 5, add the extra peers, in shuffled order with a few duplicates
		var req []string
		for k := 0; k < n; k++ {
			if k%5 < 3 {
				req = append(req, peers[k])
			}
		}
		req = append(req, peers[n:]...)
		for i := len(req) - 1; i > 0; i-- {
			j := r.intn(i + 1)
			req[i], req[j] = req[j], req[i]
		}
		req = append(req, req[0], req[len(req)/2])
		txs = append(txs, "sl:0:"+S+":"+h+":"+strings.Join(req, ","))
	}
	txs = append(txs, "d:"+peerStore+":"+victim)
	if r.chance(1, 2) {
		txs = append(txs, "d:"+hubStore+":"+h+";c:"+hubStore+":"+h)
	} else {
		txs = append(txs, "d:"+hubStore+":"+h, "c:"+hubStore+":"+h)
	}
	pools := [2]string{h, id(0) + "," + id(n-2) + "," + id(n-1)}
	if coll[0] == 's' {
		pools = [2]string{h + "," + id(0) + "," + id(n-1), h}
		if coll[1] == 'B' {
			pools[0], pools[1] = pools[1], pools[0]
		}
	} else if hub == 1 {
		pools[0], pools[1] = pools[1], pools[0]
	}
	fmt.Fprintf(g.out, "G %s %s %s %s\n", coll, pools[0], pools[1], strings.Join(txs, " "))
}

func (g *c05Gen_) largeStream(tier string) {
	r := g.r
	plain := []string{"p00", "p10.01", "p01.30", "p11.12"}
	rc := []string{"r00", "r01.10", "r10.03", "r11.21"}
	if tier != "thorough" {
		g.largeCase(pick(r, plain), 1001, "del", r.intn(2))
		g.largeCase(pick(r, rc), 1001, "del", r.intn(2))
		g.largeCase(pick(r, plain), 1001, "set", r.intn(2))
		return
	}
	selfs := []string{"sA0", "sB1.2", "sA1.3", "sB0.1"}
	for _, n := range []int{255, 256, 257, 1000, 1001} {
		g.largeCase(pick(r, plain), n, "del", 0)
		g.largeCase(pick(r, plain), n, "del", 1)
		g.largeCase(pick(r, plain), n, "peer", r.intn(2))
		g.largeCase(pick(r, plain), n, "set", r.intn(2))
		g.largeCase(pick(r, rc), n, "del", r.intn(2))
		g.largeCase(pick(r, rc), n, "peer", r.intn(2))
		g.largeCase(pick(r, selfs), n, pick(r, []string{"del", "set"}), 0)
	}
	// the model is an association-list machine (quadratic in the number of entities): fewer cases up here
	for _, n := range []int{2048, 2049} {
		g.largeCase(pick(r, plain), n, "del", r.intn(2))
		g.largeCase(pick(r, plain), n, "set", r.intn(2))
		g.largeCase(pick(r, rc), n, "del", r.intn(2))
		g.largeCase(pick(r, selfs), n, "del", 0)
	}
	g.largeCase(pick(r, plain), 4097, "del", r.intn(2))
	g.largeCase(pick(r, rc), 4097, "del", r.intn(2))
}

// keySizeStream: the KEY-SIZE boundary of ids.  bbolt accepts any bucket name (an entity id) but
// refuses a Put key longer than MaxKeySize = 32768, and a link / count key is the type byte plus the
// peer's id: an entity whose id has n bytes around that limit on one side, a short id on the other,
// every link operation in a transaction of its own (a failing one is rolled back), then the delete
// of either end.  SetLinkCount with a non-zero count has cases of its own (before fix 2a864e9 it
// dropped bbolt's error and stored the count on one side only).
func (g *c05Gen_) keySizeStream(tier string) {
	r := g.r
	sizes := []int{32767, 32768}
	if tier == "thorough" {
		sizes = []int{32766, 32767, 32768, 32769}
	}
	for _, n := range sizes {
		long := toWire(strings.Repeat(string(rune('b'+r.intn(20))), n))
		a, c := toWire("a"), toWire("c")
		for _, longSide := range []int{0, 1} {
			L, S := "AB"[longSide:longSide+1], "AB"[1-longSide:2-longSide]
			// quick tier: the long id is not a pool id (it would be printed a hundred times per case); its
			// buckets are compared through the dump and through the short entities' views
			lp := long
			if tier != "thorough" {
				lp = toWire("z")
			}
			pools := [2]string{a + "," + c, lp}
			if longSide == 0 {
				pools = [2]string{lp, a + "," + c}
			}
			create := "c:" + S + ":" + a + ";c:" + S + ":" + c + ";c:" + L + ":" + long
			rcTx := []string{create,
				"inc:0:" + S + ":" + a + ":" + long, "inc:0:" + L + ":" + long + ":" + a, "inc:0:" + S + ":" + c + ":" + long + ";dec:0:" + S + ":" + c + ":" + long,
				"dec:0:" + L + ":" + long + ":" + a, "set:0:" + S + ":" + a + ":" + long + ":0;gc:0:" + S + ":" + a + ":" + long,
				"inc:0:" + L + ":" + long + ":" + c, "d:" + L + ":" + long, "c:" + L + ":" + long + ";inc:0:" + L + ":" + long + ":" + a}
			plTx := []string{create,
				"al:0:" + S + ":" + a + ":" + long, "al:0:" + L + ":" + long + ":" + c + "," + a, "a1:0:" + S + ":" + c + ":" + long, "a1:0:" + L + ":" + long + ":" + c,
				"sl:0:" + S + ":" + a + ":" + long + "," + long, "sl:0:" + L + ":" + long + ":" + a, "r1:0:" + S + ":" + a + ":" + long + ";rl:0:" + L + ":" + long + ":" + c,
				"il:0:" + S + ":" + a + ":" + long + ";gl:0:" + L + ":" + long, "cl:" + S + ":" + toWire("d") + ":0:" + long, "d:" + L + ":" + long, "cl:" + L + ":" + long + ":0:" + a + "," + c}
			fmt.Fprintf(g.out, "G %s %s %s %s\n", pick(r, []string{"r00", "r00.12"}), pools[0], pools[1], strings.Join(rcTx, " "))
			fmt.Fprintf(g.out, "G %s %s %s %s\n", pick(r, []string{"p00", "p00.21"}), pools[0], pools[1], strings.Join(plTx, " "))
			if n >= 32768 || tier == "thorough" {
				fmt.Fprintf(g.out, "G r00 %s %s %s set:0:%s:%s:%s:3 set:0:%s:%s:%s:2\n", pools[0], pools[1], create, S, a, long, L, long, c)
			}
		}
	}
}

func c05SchemaGen(g *c05Gen_, tier string) {
	r := g.r
	g.keySizeStream(tier)
	g.largeStream(tier)
	if tier == "thorough" {
		// bounded-exhaustive: every schema of at most 3 collections (454), deleted through each store
		all := c05gMultisets(3)
		g.namingStream()
		g.deleteStream(all, func(sc []string) []string {
			if len(sc) <= 2 {
				return []string{"", "@10", "@01", "@11"}
			}
			return []string{"", pick(r, []string{"@10", "@01", "@11"})}
		})
		for _, sc := range all {
			for i := 0; i < 12; i++ {
				g.schemaHistory(sc)
			}
		}
		for i := 0; i < 4000; i++ {
			n := 1 + r.intn(5)
			var sc []string
			for j := 0; j < n; j++ {
				sc = append(sc, pick(r, c05gKinds))
			}
			g.schemaHistory(sc)
		}
		g.schemaHistory(nil)
		return
	}
	// quick: every schema of at most 2 collections (90) through the delete stream, random schemas otherwise
	small := c05gMultisets(2)
	g.namingStream()
	g.deleteStream(small, func([]string) []string { return []string{"", pick(r, []string{"@10", "@01", "@11"})} })
	for _, sc := range small {
		g.schemaHistory(sc)
	}
	for i := 0; i < 500; i++ {
		n := 1 + r.intn(4)
		var sc []string
		for j := 0; j < n; j++ {
			sc = append(sc, pick(r, c05gKinds))
		}
		g.schemaHistory(sc)
	}
	g.schemaHistory(nil)
}

var _ = bufio.NewWriter
