package main

// C07 / C08 — case generators (all random choices from one splitmix64 state).
//
// Universe: ids p1 p2 p3 p4 (created through the parent store; child data may be created over them through
// the child store later), c1 c2 (created through the child store), zz (never exists), "" (blank); names n1..n6, "", 32768 / 32769 bytes; role lists incl. an empty
// element (bucket name required), a 32768-byte element (list key too large), a 32767-byte element
// (largest usable), duplicates and unsorted input; refs nil, "", existing, missing, self.

import (
	"bufio"
	"fmt"
	"strings"
)

func txRegLine(r txReg) string {
	var b strings.Builder
	if r.listener {
		fmt.Fprintf(&b, "l %c %d", r.style, len(r.types))
		for _, t := range r.types {
			fmt.Fprintf(&b, " %c", t)
		}
	} else {
		fmt.Fprintf(&b, "c %c %d", r.style, len(r.vetoes))
		for _, v := range r.vetoes {
			fmt.Fprintf(&b, " %c %s", v.kind, txWire(v.id))
		}
	}
	return b.String()
}

func txFieldsLine(f txFields) string {
	var b strings.Builder
	fmt.Fprintf(&b, "%s %d", txWire(f.name), len(f.roles))
	for _, r := range f.roles {
		fmt.Fprintf(&b, " %s", txWire(r))
	}
	if f.ref == nil {
		b.WriteString(" ~")
	} else {
		fmt.Fprintf(&b, " %s", txWire(*f.ref))
	}
	if len(f.tags) > 0 {
		fmt.Fprintf(&b, " G %d", len(f.tags))
		for _, t := range f.tags {
			fmt.Fprintf(&b, " %d", len(t.path))
			for _, sg := range t.path {
				if sg.isIdx {
					fmt.Fprintf(&b, " i %d", sg.idx)
				} else {
					fmt.Fprintf(&b, " k %s", txWire(sg.key))
				}
			}
			fmt.Fprintf(&b, " %c", t.leaf)
			if t.leaf == 's' {
				fmt.Fprintf(&b, " %s", txWire(t.str))
			}
		}
	}
	if len(f.links) > 0 {
		fmt.Fprintf(&b, " K %d", len(f.links))
		for _, q := range f.links {
			fmt.Fprintf(&b, " %s", txWire(q))
		}
	}
	return b.String()
}

func txStepLine(s txStep) string {
	switch s.kind {
	case "op":
		sw := 0
		if s.swallow {
			sw = 1
		}
		fault := s.fault
		if fault == "" {
			fault = "-"
		}
		head := fmt.Sprintf("op %d %s %s %c", sw, fault, s.op, s.store)
		switch s.op {
		case "cr", "up":
			return fmt.Sprintf("%s %s %s %s", head, txWire(s.id), txFieldsLine(s.f), txWire(s.rank))
		case "de":
			return fmt.Sprintf("%s %s", head, txWire(s.id))
		case "dw":
			if s.query == "name" {
				return fmt.Sprintf("%s name %s", head, txWire(s.qname))
			}
			return fmt.Sprintf("%s %s", head, s.query)
		}
	case "lk":
		parts := []string{"lk", s.op, txWire(s.id), fmt.Sprint(len(s.f.links))}
		for _, q := range s.f.links {
			parts = append(parts, txWire(q))
		}
		return strings.Join(parts, " ")
	case "fail", "fail1", "ac":
		return fmt.Sprintf("%s %d", s.kind, s.tag)
	case "ap":
		f := 0
		if s.fails {
			f = 1
		}
		return fmt.Sprintf("ap %d %d", s.tag, f)
	}
	return s.kind
}

func txCaseLine(c *txCase) string {
	var parts []string
	parts = append(parts, "E")
	if c.sharedSlice {
		parts = append(parts, "S")
	}
	parts = append(parts, fmt.Sprint(len(c.regsP)))
	for _, r := range c.regsP {
		parts = append(parts, txRegLine(r))
	}
	parts = append(parts, fmt.Sprint(len(c.regsC)))
	for _, r := range c.regsC {
		parts = append(parts, txRegLine(r))
	}
	parts = append(parts, fmt.Sprint(c.txl))
	if len(c.ixP) > 0 || len(c.ixC) > 0 {
		parts = append(parts, "I")
		for _, regs := range [][][]txIxVeto{c.ixP, c.ixC} {
			parts = append(parts, fmt.Sprint(len(regs)))
			for _, vs := range regs {
				parts = append(parts, fmt.Sprint(len(vs)))
				for _, v := range vs {
					parts = append(parts, fmt.Sprintf("%c %s", v.stage, txWire(v.id)))
				}
			}
		}
	}
	if len(c.regsD) > 0 || len(c.ixD) > 0 {
		parts = append(parts, "D", fmt.Sprint(len(c.regsD)))
		for _, r := range c.regsD {
			parts = append(parts, txRegLine(r))
		}
		parts = append(parts, fmt.Sprint(len(c.ixD)))
		for _, vs := range c.ixD {
			parts = append(parts, fmt.Sprint(len(vs)))
			for _, v := range vs {
				parts = append(parts, fmt.Sprintf("%c %s", v.stage, txWire(v.id)))
			}
		}
	}
	parts = append(parts, "T", fmt.Sprint(len(c.txs)))
	for _, tx := range c.txs {
		reuse := 0
		if tx.reuse {
			reuse = 1
		}
		if tx.mode == 'g' {
			parts = append(parts, fmt.Sprintf("tx g %d %d", reuse, len(tx.members)))
			for _, m := range tx.members {
				parts = append(parts, fmt.Sprintf("mb %d %d %d", m.faultInv, m.faultPos, len(m.steps)))
				for _, s := range m.steps {
					parts = append(parts, txStepLine(s))
				}
			}
			continue
		}
		parts = append(parts, fmt.Sprintf("tx %c %d %d", tx.mode, reuse, len(tx.steps)))
		for _, s := range tx.steps {
			parts = append(parts, txStepLine(s))
		}
	}
	return strings.Join(parts, " ")
}

// ---------------------------------------------------------------- value pools

func sp(s string) *string { return &s }

func tk(k string) txTagSeg { return txTagSeg{key: k} }
func ti(i int) txTagSeg    { return txTagSeg{isIdx: true, idx: i} }

// a tags value every setter accepts: strings, bools, nil, a list, a list inside a nested map, an empty map,
// an empty list
func txGoodTags() []txTag {
	return []txTag{
		{path: []txTagSeg{tk("a")}, leaf: 's', str: "x"},
		{path: []txTagSeg{tk("l"), ti(0)}, leaf: 's', str: "y"},
		{path: []txTagSeg{tk("l"), ti(1)}, leaf: 't'},
		{path: []txTagSeg{tk("m"), tk("q"), ti(0)}, leaf: 'n'},
		{path: []txTagSeg{tk("m"), tk("e")}, leaf: 'm'},
		{path: []txTagSeg{tk("z")}, leaf: 'l'},
	}
}

// tags values the typed-bucket setters reject — no injection, the value itself is the cause: a value of an
// unsupported type directly in the map (depth 0), as last element of a list after a good one (depth 1), as first
// element of a list inside a nested map with good values following (depth 2), a []string (not a []interface{})
// inside a list; an empty and an over-long map key
var txBadTags = map[string][]txTag{
	"tagbad0": {{path: []txTagSeg{tk("b")}, leaf: 'u'}},
	"tagbad1": {{path: []txTagSeg{tk("l"), ti(0)}, leaf: 's', str: "y"}, {path: []txTagSeg{tk("l"), ti(1)}, leaf: 'u'}},
	"tagbad2": {{path: []txTagSeg{tk("m"), tk("q"), ti(0)}, leaf: 'u'}, {path: []txTagSeg{tk("m"), tk("q"), ti(1)}, leaf: 's', str: "a"},
		{path: []txTagSeg{tk("m"), tk("q"), ti(2)}, leaf: 't'}},
	"tagbadS":     {{path: []txTagSeg{tk("l"), ti(0)}, leaf: 's', str: "a"}, {path: []txTagSeg{tk("l"), ti(1)}, leaf: 'S'}, {path: []txTagSeg{tk("l"), ti(2)}, leaf: 's', str: "d"}},
	"tagkeyempty": {{path: []txTagSeg{tk("")}, leaf: 's', str: "a"}},
	"tagkeybig":   {{path: []txTagSeg{tk(strings.Repeat("x", 32769))}, leaf: 's', str: "a"}},
}
var txBadTagKinds = []string{"tagbad0", "tagbad1", "tagbad2", "tagbadS", "tagkeyempty", "tagkeybig"}

var txBig32769 = strings.Repeat("x", 32769)
var txBig32768 = strings.Repeat("y", 32768)
var txBig32767 = strings.Repeat("z", 32767)

func opCreate(store byte, id, name string, roles []string, ref *string, rank string) txStep {
	return txStep{kind: "op", fault: "-", op: "cr", store: store, id: id, f: txFields{name: name, roles: roles, ref: ref}, rank: rank}
}
func opUpdate(store byte, id, name string, roles []string, ref *string, rank string) txStep {
	return txStep{kind: "op", fault: "-", op: "up", store: store, id: id, f: txFields{name: name, roles: roles, ref: ref}, rank: rank}
}
func withTags(s txStep, tags []txTag) txStep {
	s.f.tags = tags
	return s
}
func withLinks(s txStep, links ...string) txStep {
	s.f.links = links
	return s
}
func opDelete(store byte, id string) txStep {
	return txStep{kind: "op", fault: "-", op: "de", store: store, id: id}
}
func opDeleteWhere(store byte, query, qname string) txStep {
	return txStep{kind: "op", fault: "-", op: "dw", store: store, query: query, qname: qname}
}

// base population: p1 plain (name n1, roles [r]), referenced by c1; c1 with data in the first child store (name
// n2, ref p1, rank k1); p4 plain, not referenced (name n0, roles [t]); d1 with data in the second child store only
// (name nd, grade g1); b1 with data in BOTH child stores (created through C, then through D over it: name nb,
// rank k7, grade g7)
func txSetupTx() txTx {
	return txTx{mode: 'u', steps: []txStep{
		opCreate('P', "p1", "n1", []string{"r"}, nil, ""),
		withLinks(opCreate('C', "c1", "n2", nil, sp("p1"), "k1"), "q1"),
		opCreate('P', "p4", "n0", []string{"t"}, nil, ""),
		opCreate('D', "d1", "nd", nil, nil, "g1"),
		opCreate('C', "b1", "nb0", nil, nil, "k7"),
		opCreate('D', "b1", "nb", []string{"t"}, nil, "g7"),
	}}
}

// the ids the setup transaction creates, with the stores whose create flow it fires for them
var txSetupCreates = map[string]string{"p1": "P", "c1": "PC", "p4": "P", "d1": "PD", "b1": "PCD"}

// listeners of every registration style and kind on both stores, plus a constraint that never vetoes
func txObservers() []txReg {
	return []txReg{
		{listener: true, style: 't', types: []byte{'c', 'u', 'd'}},
		{listener: true, style: 'f', types: []byte{'C', 'U', 'D'}},
		{listener: true, style: 'u', types: []byte{'c', 'D'}},
		{listener: true, style: 'i', types: []byte{'u', 'd', 'C'}},
		{style: 'u'},
	}
}

// operations that succeed one after the other on the base population (where they do not, the failure is
// a natural one and just as welcome)
func txGoodOps() []txStep {
	return []txStep{
		withLinks(withTags(opCreate('P', "p2", "n3", []string{"s"}, nil, ""), txGoodTags()), "q2", "q1"),
		withLinks(withTags(opCreate('C', "c2", "n4", []string{"s", "r"}, sp("p1"), "k2"), txGoodTags()[:3]), "q1"),
		withTags(opUpdate('P', "p1", "n5", []string{"r", "s"}, nil, ""), txGoodTags()[3:]),
		withLinks(opUpdate('P', "c1", "n6", nil, sp("p1"), ""), "q1", "q1", "q2"),
		opUpdate('C', "c1", "n2", []string{"r"}, nil, "k9"),
		opDelete('P', "c1"),
		opDelete('C', "c1"),
		opDelete('P', "p1"),
		opDelete('C', "p1"),
		// child data created over an existing plain parent entity (its parent fields are replaced)
		opCreate('C', "p4", "n7", []string{"t", "r"}, sp("p1"), "k5"),
		opUpdate('P', "p4", "n8", nil, nil, ""),
		opDelete('P', "p4"),
		opDelete('C', "p4"),
		opDeleteWhere('C', "all", ""),
		opDeleteWhere('P', "name", "n2"),
		opDeleteWhere('P', "all", ""),
		// the second child store: data over a plain parent, over an entity of the first child store; an entity with
		// data in both child stores updated through the parent store (the first child store performs it) and through
		// the second one, deleted through the parent and through the second child store; an entity of the second
		// child store only updated through the parent, deleted through the FIRST child store
		opCreate('D', "p4", "n7", []string{"t"}, nil, "g5"),
		opCreate('D', "c1", "n2", nil, sp("p1"), "g6"),
		opUpdate('P', "b1", "nb2", []string{"s"}, nil, ""),
		opUpdate('D', "b1", "nb3", nil, nil, "g8"),
		opUpdate('P', "d1", "nd2", nil, nil, ""),
		opDelete('P', "b1"),
		opDelete('D', "b1"),
		opDelete('C', "d1"),
		opDeleteWhere('D', "all", ""),
	}
}

// failure kinds that can be injected into / next to one operation
var txFailKinds = []string{
	"caller", "pre", "dup", "fk", "null", "emptyrole", "bigrole", "bigname", "blank", "exists", "missing", "refexists",
	"vetoP", "vetoC", "vetoPtyped", "lP1", "lP2", "lP3", "lC1", "lC2", "pP1", "pC1", "badquery",
	// the veto is a *boltz.RecordNotFoundError
	"vetoPnf", "vetoCnf",
	// index-stage vetoes: a custom boltz.Constraint registered with AddConstraint on the parent (ixP) or
	// on the child store (ixC) vetoes the operation's id in ProcessBeforeUpdate (b), ProcessAfterUpdate (a),
	// ProcessBeforeDelete (d); upper case: with a *boltz.RecordNotFoundError
	"ixPb", "ixPa", "ixPd", "ixCb", "ixCa", "ixCd", "ixPB", "ixPA", "ixPD", "ixCB", "ixCA", "ixCD",
	// fails only the first time the transaction function runs (a Db.Batch then commits on bbolt's re-run): the caller
	// returns an error before / after the operation, an entity constraint vetoes
	"fail1", "fail1after", "vetoPonce", "vetoConce", "vetoDonce",
	// the second child store: entity constraint veto on its flow (plain / RecordNotFoundError), index-stage vetoes
	"vetoD", "vetoDnf", "ixDb", "ixDa", "ixDd", "ixDB", "ixDA", "ixDD",
	// link operations (nothing injected — the target simply does not exist in the linked store): the written entity's
	// linked ids name a missing target; the transaction function itself calls AddLinks / SetLinks with a missing target,
	// or a link operation on an entity that does not exist, before the operation
	"linkmissing", "lkaddmissing", "lksetmissing", "lknoentity",
	// the tags map of the written entity holds a value the typed-bucket setters reject (nothing injected)
	"tagbad0", "tagbad1", "tagbad2", "tagbadS", "tagkeyempty", "tagkeybig",
}

// the entity a DeleteWhere of the good operations deletes first on the base population (ids in order: b1 c1 d1 p1 p4)
func txDeleteWhereFirst(s txStep) string {
	if s.query == "name" {
		return "c1"
	}
	return "b1"
}

func txOpKindChar(s txStep) byte {
	switch s.op {
	case "cr":
		return 'c'
	case "up":
		return 'u'
	}
	return 'd'
}

// txInject turns body[i] into (or precedes it by) a failure of the given kind; returns false when the
// kind does not apply to that operation.
func txInject(c *txCase, body []txStep, i int, kind string) ([]txStep, bool) {
	out := append([]txStep(nil), body...)
	s := out[i]
	insert := func(st txStep) []txStep {
		res := append([]txStep(nil), out[:i]...)
		res = append(res, st)
		return append(res, out[i:]...)
	}
	write := s.op == "cr" || s.op == "up"
	vetoId := s.id
	if s.op == "dw" {
		vetoId = txDeleteWhereFirst(s)
	}
	switch kind {
	case "caller":
		return insert(txStep{kind: "fail", tag: 7}), true
	case "pre":
		return insert(txStep{kind: "ap", tag: 3, fails: true}), true
	case "fail1":
		return insert(txStep{kind: "fail1", tag: 8}), true
	case "fail1after":
		res := append([]txStep(nil), out[:i+1]...)
		res = append(res, txStep{kind: "fail1", tag: 9})
		return append(res, out[i+1:]...), true
	case "vetoPonce":
		c.regsP = append(c.regsP, txReg{style: 'o', vetoes: []txVeto{{kind: txOpKindChar(s), id: vetoId}}})
	case "vetoConce":
		c.regsC = append(c.regsC, txReg{style: 'o', vetoes: []txVeto{{kind: txOpKindChar(s), id: vetoId}}})
	case "vetoDonce":
		c.regsD = append(c.regsD, txReg{style: 'o', vetoes: []txVeto{{kind: txOpKindChar(s), id: vetoId}}})
	case "dup":
		if !write {
			return nil, false
		}
		s.f.name = "n1"
		if s.id == "p1" {
			s.f.name = "n2"
		}
	case "fk":
		if !write {
			return nil, false
		}
		s.f.ref = sp("zz")
	case "null":
		if !write {
			return nil, false
		}
		s.f.name = ""
	case "emptyrole":
		if !write {
			return nil, false
		}
		s.f.roles = []string{"r", ""}
	case "bigrole":
		if !write {
			return nil, false
		}
		s.f.roles = []string{txBig32768}
	case "bigname":
		if !write {
			return nil, false
		}
		s.f.name = txBig32769
	case "blank":
		if !write {
			return nil, false
		}
		s.id = ""
	case "exists":
		if s.op != "cr" {
			return nil, false
		}
		if s.store == 'P' {
			s.id = "p1"
		} else {
			s.id = "c1"
		}
	case "missing":
		if s.op == "cr" || s.op == "dw" {
			return nil, false
		}
		s.id = "zz"
	case "refexists":
		if s.op != "de" {
			return nil, false
		}
		s.id = "p1"
	case "vetoP", "vetoPtyped", "vetoPnf":
		style := byte('u')
		switch kind {
		case "vetoPtyped":
			style = 't'
		case "vetoPnf":
			style = 'U'
		}
		c.regsP = append(c.regsP, txReg{style: style, vetoes: []txVeto{{kind: txOpKindChar(s), id: vetoId}}})
	case "vetoC", "vetoCnf":
		style := byte('t')
		if kind == "vetoCnf" {
			style = 'T'
		}
		c.regsC = append(c.regsC, txReg{style: style, vetoes: []txVeto{{kind: txOpKindChar(s), id: vetoId}}})
	case "vetoD", "vetoDnf":
		style := byte('t')
		if kind == "vetoDnf" {
			style = 'U'
		}
		c.regsD = append(c.regsD, txReg{style: style, vetoes: []txVeto{{kind: txOpKindChar(s), id: vetoId}}})
	case "ixPb", "ixPa", "ixPd", "ixCb", "ixCa", "ixCd", "ixPB", "ixPA", "ixPD", "ixCB", "ixCA", "ixCD",
		"ixDb", "ixDa", "ixDd", "ixDB", "ixDA", "ixDD":
		// next to a constraint that never objects, so that the vetoing one is not the first of its store
		reg := []txIxVeto{{stage: kind[3], id: vetoId}}
		switch kind[2] {
		case 'P':
			c.ixP = append(c.ixP, nil, reg)
		case 'C':
			c.ixC = append(c.ixC, reg, nil)
		default:
			c.ixD = append(c.ixD, nil, reg)
		}
	case "linkmissing":
		if !write {
			return nil, false
		}
		s.f.links = []string{"q1", "zz"}
	case "lkaddmissing":
		return insert(txStep{kind: "lk", op: "a", id: "p1", f: txFields{links: []string{"q2", "zz"}}}), true
	case "lksetmissing":
		return insert(txStep{kind: "lk", op: "s", id: "c1", f: txFields{links: []string{"zz"}}}), true
	case "lknoentity":
		return insert(txStep{kind: "lk", op: "r", id: "zz", f: txFields{links: []string{"q1"}}}), true
	case "tagbad0", "tagbad1", "tagbad2", "tagbadS", "tagkeyempty", "tagkeybig":
		if !write {
			return nil, false
		}
		s.f.tags = txBadTags[kind]
	case "lP1", "lP2", "lP3", "lC1", "lC2", "pP1", "pC1":
		s.fault = kind
	case "badquery":
		if s.op != "dw" {
			return nil, false
		}
		s.query = "bad"
	default:
		panic("unknown failure kind " + kind)
	}
	out[i] = s
	return out, true
}

// failure kinds after which a transaction may go on (nothing, or everything, of the operation was
// written): used with a swallowed error
var txExactKinds = map[string]bool{"vetoP": true, "vetoC": true, "vetoPtyped": true, "vetoPnf": true, "vetoCnf": true,
	"blank": true, "exists": true, "missing": true, "badquery": true,
	// an index-stage veto before the update leaves everything as it was, one after the write leaves
	// everything written (one before the delete comes after the built-in indexes removed their entries)
	"ixPb": true, "ixPa": true, "ixCb": true, "ixCa": true, "ixPB": true, "ixPA": true, "ixCB": true, "ixCA": true,
	"vetoD": true, "vetoDnf": true, "ixDb": true, "ixDa": true, "ixDB": true, "ixDA": true,
	"vetoPonce": true, "vetoConce": true, "vetoDonce": true}

// kinds whose Db.Batch variant adds nothing over the plain flavour of the same kind (RecordNotFoundError flavours of
// vetoes, all but one of the rejected tags values): enumerated with Db.Update only
var txUpdateOnlyKinds = map[string]bool{"vetoPnf": true, "vetoCnf": true, "vetoDnf": true,
	"ixPB": true, "ixPA": true, "ixPD": true, "ixCB": true, "ixCA": true, "ixCD": true, "ixDB": true, "ixDA": true, "ixDD": true,
	"tagbad0": true, "tagbad2": true, "tagbadS": true, "tagkeyempty": true, "tagkeybig": true, "lP3": true, "lC2": true}

// kinds also enumerated with a context from NewTxMutateContext (mode r): its commit actions must run once on commit,
// never on rollback; its pre-commit actions are nobody's business
var txRawKinds = map[string]bool{"caller": true, "pre": true, "vetoP": true, "ixPa": true, "fail1after": true, "linkmissing": true}

// txFaultCase: setup tx, then the faulty body in the given mode (with a commit action registered at
// its start and a harmless pre-commit action), then a follow-up transaction that must still work.
func txFaultCase(body []txStep, pos int, kind string, mode byte, reuse bool, swallow bool) (string, bool) {
	c := &txCase{regsP: txObservers(), regsC: txObservers(), regsD: txObservers()[2:], txl: 2}
	steps, ok := txInject(c, body, pos, kind)
	if !ok {
		return "", false
	}
	if swallow {
		// the caller ignores the error of the failing operation and commits
		if !txExactKinds[kind] || steps[pos].kind != "op" {
			return "", false
		}
		// a "before update" veto on a create of child data over an existing parent entity leaves the empty
		// bucket of the child path behind
		if steps[pos].op == "cr" && (kind == "ixPb" || kind == "ixPB") {
			return "", false
		}
		// a veto on the create of an id the setup transaction creates also strikes that transaction when it is
		// registered on a store whose create flow the setup fires for the id: the operation then meets an empty
		// database and may fail in the middle of its writes
		if steps[pos].op == "cr" && (strings.HasPrefix(kind, "veto") || (strings.HasPrefix(kind, "ix") && (kind[3] == 'a' || kind[3] == 'A'))) {
			level := kind[len(kind)-1]
			if strings.HasPrefix(kind, "veto") {
				level = kind[4]
			} else {
				level = kind[2]
			}
			if strings.IndexByte(txSetupCreates[steps[pos].id], level) >= 0 {
				return "", false
			}
		}
		// the swallowed failure must be the injected one: a write that goes on must not fail for a missing
		// fk target (its ref is dropped), a delete not for a reference to the entity (p1 is referenced by c1)
		if steps[pos].op == "de" && steps[pos].id == "p1" {
			return "", false
		}
		steps[pos].f.ref = nil
		steps[pos].swallow = true
	}
	full := []txStep{{kind: "ac", tag: 1}, {kind: "ap", tag: 2}}
	if reuse {
		// now and then through the system context wrapper and a nested call
		full = append(full, txStep{kind: "sys"}, txStep{kind: "nB"})
	}
	full = append(full, steps...)
	follow := txTx{mode: 'u', reuse: reuse, steps: []txStep{
		{kind: "ac", tag: 5},
		opCreate('P', "p3", "n9", []string{"t"}, nil, ""),
	}}
	c.txs = []txTx{txSetupTx(), {mode: mode, steps: full}, follow}
	// the Batch variants register their listeners the way a caller with one reused change-type slice does
	c.sharedSlice = mode == 'b'
	return txCaseLine(c), true
}

// all bodies of exactly n good operations, each with one failure at every position and of every kind
func txEnumFaults(n int, modes []byte, emit func(string)) {
	txEnumFaultsOver(txGoodOps(), n, modes, emit)
}

// a smaller alphabet for longer exhaustive bodies: one create, one update and one delete through each
// route that has a child flow, and the plain-parent counterparts
func txCoreOps() []txStep {
	ops := txGoodOps()
	return []txStep{ops[0], ops[1], ops[3], ops[5], ops[17], ops[21]}
}

// the alphabet of the exhaustive two-operation bodies: creates, updates, deletes and DeleteWhere through each of the
// three stores, on plain entities, on entities of one child store and on the entity with data in both
func txPairOps() []txStep {
	ops := txGoodOps()
	idx := []int{0, 1, 3, 4, 5, 8, 9, 11, 13, 16, 17, 18, 22, 24}
	res := make([]txStep, len(idx))
	for i, k := range idx {
		res[i] = ops[k]
	}
	return res
}

func txEnumFaultsOver(ops []txStep, n int, modes []byte, emit func(string)) {
	idx := make([]int, n)
	var rec func(d int)
	rec = func(d int) {
		if d == n {
			body := make([]txStep, n)
			for i, k := range idx {
				body[i] = ops[k]
			}
			for pos := 0; pos < n; pos++ {
				for _, kind := range txFailKinds {
					for _, m := range modes {
						if m == 'b' && txUpdateOnlyKinds[kind] {
							continue
						}
						if line, ok := txFaultCase(body, pos, kind, m, false, false); ok {
							emit(line)
						}
					}
					if line, ok := txFaultCase(body, pos, kind, 'u', false, true); ok {
						emit(line)
					}
					// the same through a context built with NewTxMutateContext around the transaction (mode r), for a
					// selection of kinds
					if txRawKinds[kind] {
						if line, ok := txFaultCase(body, pos, kind, 'r', false, false); ok {
							emit(line)
						}
					}
					// the failed transaction's context is used again by the transaction that follows (and commits):
					// nothing the failed one queued may run then
					if kind == "caller" || kind == "pre" || kind == "fail1" || kind == "fail1after" || kind == "vetoPonce" {
						for _, m := range modes {
							if line, ok := txFaultCase(body, pos, kind, m, true, false); ok {
								emit(line)
							}
						}
					}
				}
			}
			return
		}
		for k := range ops {
			idx[d] = k
			rec(d + 1)
		}
	}
	rec(0)
}

// ---------------------------------------------------------------- random histories

type txProfile struct {
	maxTx, maxSteps int
	failBias        int // out of 100: probability that a write operation uses a hostile value
	listeners       int // max registrations per store
	swallow         bool
	batch           int // out of 100
}

func txRandomRegs(r *rng, max int, ids []string) []txReg {
	n := r.intn(max + 1)
	var regs []txReg
	for i := 0; i < n; i++ {
		if r.chance(3, 4) {
			k := 1 + r.intn(3)
			types := make([]byte, k)
			for j := range types {
				types[j] = "cudCUD"[r.intn(6)]
			}
			regs = append(regs, txReg{listener: true, style: "tfui"[r.intn(4)], types: types})
		} else {
			reg := txReg{style: "tuTU"[r.intn(4)]}
			for v := r.intn(3); v > 0; v-- {
				reg.vetoes = append(reg.vetoes, txVeto{kind: "cud"[r.intn(3)], id: pick(r, ids)})
			}
			regs = append(regs, reg)
		}
	}
	return regs
}

// custom index-stage constraints for a random case; `safe`: only vetoes after which a transaction may go on
func txRandomIxRegs(r *rng, max int, ids []string, safe bool) [][]txIxVeto {
	n := r.intn(max + 1)
	var regs [][]txIxVeto
	stages := "badBAD"
	if safe {
		stages = "baBA"
	}
	for i := 0; i < n; i++ {
		var vs []txIxVeto
		for v := r.intn(3); v > 0; v-- {
			vs = append(vs, txIxVeto{stage: stages[r.intn(len(stages))], id: pick(r, ids)})
		}
		regs = append(regs, vs)
	}
	return regs
}

var txIdsP = []string{"p1", "p2", "p3"}
var txIdsC = []string{"c1", "c2"}
var txIdsD = []string{"d1", "d2"}
var txIdsAll = []string{"p1", "p2", "p3", "c1", "c2", "b1", "d1"}

func txRandomFields(r *rng, p txProfile, safe bool, id string) txFields {
	f := txFields{}
	names := []string{"n1", "n2", "n3", "n4", "n5", "n6"}
	if r.chance(1, 4) {
		f.links = pick(r, [][]string{{"q1"}, {"q2", "q1"}, {"q1", "q1"}, {"q2"}})
	}
	if r.chance(1, 4) {
		g := txGoodTags()
		// well-formed parts of it (list indexes stay contiguous)
		f.tags = pick(r, [][]txTag{g, g[:1], g[1:3], g[1:], g[3:], g[4:], g[5:]})
	}
	if safe {
		f.name = "s_" + id
		f.roles = pick(r, [][]string{nil, {"r"}, {"s", "r"}, {"r", "r"}})
		return f
	}
	f.name = pick(r, names)
	f.roles = pick(r, [][]string{nil, nil, {"r"}, {"s", "r"}, {"r", "r", "t"}, {txBig32767}})
	f.ref = pick(r, []*string{nil, nil, nil, sp("p1"), sp("c1"), sp("p2"), sp(id), sp("")})
	if r.intn(100) < p.failBias {
		switch r.intn(9) {
		case 8:
			f.links = pick(r, [][]string{{"zz"}, {"q1", "zz"}, {""}})
		case 7:
			f.tags = txBadTags[pick(r, txBadTagKinds)]
		case 0:
			f.name = ""
		case 1:
			f.name = txBig32769
		case 2:
			f.name = txBig32768
		case 3:
			f.roles = []string{"r", ""}
		case 4:
			f.roles = []string{txBig32768}
		case 5:
			f.ref = sp("zz")
		case 6:
			f.name = pick(r, names)
		}
	}
	return f
}

// txLive is the generator's guess of which ids exist (as if every operation succeeded): updates and
// deletes mostly aim at entities that are there
type txLive map[string]bool

func (l txLive) pick(r *rng, pool []string) string {
	var live []string
	for _, id := range pool {
		if l[id] {
			live = append(live, id)
		}
	}
	if len(live) > 0 && r.chance(4, 5) {
		return pick(r, live)
	}
	return pick(r, pool)
}

func (l txLive) pickAbsent(r *rng, pool []string) string {
	var absent []string
	for _, id := range pool {
		if !l[id] {
			absent = append(absent, id)
		}
	}
	if len(absent) > 0 && r.chance(4, 5) {
		return pick(r, absent)
	}
	return pick(r, pool)
}

func txRandomOp(r *rng, p txProfile, safe bool, live txLive) txStep {
	var s txStep
	switch r.intn(10) {
	case 0, 1, 2:
		if r.chance(1, 3) {
			id := live.pickAbsent(r, txIdsP)
			s = txStep{kind: "op", op: "cr", store: 'P', id: id, f: txRandomFields(r, p, safe, id)}
		} else if r.chance(1, 2) {
			// the second child store: from scratch, or (not in a case with swallowed errors) over an existing entity,
			// plain or with data in the first child store
			id := live.pickAbsent(r, txIdsD)
			if !safe && r.chance(1, 2) {
				id = live.pick(r, txIdsAll)
			}
			s = txStep{kind: "op", op: "cr", store: 'D', id: id, f: txRandomFields(r, p, safe, id), rank: pick(r, []string{"g1", "g2", ""})}
		} else {
			id := live.pickAbsent(r, txIdsC)
			if !safe && r.chance(1, 4) {
				// child data over a plain parent entity (if it is there)
				id = live.pick(r, txIdsP)
			}
			s = txStep{kind: "op", op: "cr", store: 'C', id: id, f: txRandomFields(r, p, safe, id), rank: pick(r, []string{"k1", "k2", ""})}
		}
		live[s.id] = true
	case 3, 4, 5:
		id := live.pick(r, txIdsAll)
		store := "PCD"[r.intn(3)]
		if store == 'C' && r.chance(2, 3) {
			id = live.pick(r, txIdsC)
		}
		if store == 'D' && r.chance(2, 3) {
			id = live.pick(r, []string{"d1", "d2", "b1"})
		}
		s = txStep{kind: "op", op: "up", store: store, id: id, f: txRandomFields(r, p, safe, id), rank: pick(r, []string{"k1", "k3"})}
	case 6, 7, 8:
		s = txStep{kind: "op", op: "de", store: "PCD"[r.intn(3)], id: live.pick(r, txIdsAll)}
		delete(live, s.id)
	default:
		s = txStep{kind: "op", op: "dw", store: "PCD"[r.intn(3)], query: pick(r, []string{"all", "name", "name"}), qname: pick(r, []string{"n1", "n2", "n3", "s_p1"})}
		if !safe && r.chance(1, 6) {
			s.query = "bad"
		}
	}
	s.fault = "-"
	if r.chance(1, 12) {
		s.id = pick(r, []string{"", "zz"})
		if s.op == "cr" {
			// "zz" stays an id that never exists (and is never created through both stores)
			s.id = ""
		}
		if safe && (s.op == "cr" || s.op == "up") {
			s.f.name = "s_" + s.id
		}
	}
	if !safe && r.intn(100) < p.failBias/2 && s.op != "dw" {
		s.fault = pick(r, []string{"lP1", "lP2", "lP3", "lC1", "lC2", "pP1", "pC1"})
	}
	return s
}

func txRandomCase(r *rng, p txProfile) string {
	c := &txCase{}
	c.regsP = txRandomRegs(r, p.listeners, txIdsAll)
	c.regsC = txRandomRegs(r, p.listeners, txIdsAll)
	c.txl = r.intn(3)
	c.sharedSlice = r.chance(1, 2)
	ntx := 1 + r.intn(p.maxTx)
	live := txLive{}
	if r.chance(1, 2) {
		c.txs = append(c.txs, txSetupTx())
		live["p1"], live["c1"], live["d1"], live["b1"] = true, true, true, true
	}
	// a case with swallowed errors keeps to values that cannot fail in the middle of a write
	safe := p.swallow && r.chance(1, 3)
	if r.chance(1, 2) {
		c.ixP = txRandomIxRegs(r, 2, txIdsAll, safe)
		c.ixC = txRandomIxRegs(r, 2, txIdsAll, safe)
		c.ixD = txRandomIxRegs(r, 2, txIdsAll, safe)
	}
	if r.chance(2, 3) {
		c.regsD = txRandomRegs(r, p.listeners, txIdsAll)
	}
	for t := 0; t < ntx; t++ {
		tx := txTx{mode: 'u', reuse: r.chance(1, 3)}
		if r.intn(100) < p.batch {
			tx.mode = 'b'
		} else if r.chance(1, 10) {
			// through a context from NewTxMutateContext; it ends with the transaction
			tx.mode = 'r'
			tx.reuse = false
		}
		if t > 0 && len(c.txs) > 0 && c.txs[len(c.txs)-1].mode == 'r' {
			tx.reuse = false
		}
		n := 1 + r.intn(p.maxSteps)
		depth := 0
		for i := 0; i < n; i++ {
			switch x := r.intn(20); {
			case x < 13:
				s := txRandomOp(r, p, safe, live)
				if safe && r.chance(1, 2) {
					s.swallow = true
				}
				tx.steps = append(tx.steps, s)
			case x == 13:
				if r.intn(100) < p.failBias {
					tx.steps = append(tx.steps, txStep{kind: pick(r, []string{"fail", "fail", "fail1"}), tag: r.intn(3)})
				} else if !safe {
					// a link operation of the transaction function (now and then with a missing target / entity)
					ls := txStep{kind: "lk", op: pick(r, []string{"a", "r", "s"}), id: live.pick(r, txIdsAll),
						f: txFields{links: pick(r, [][]string{{"q1"}, {"q2", "q1"}, {"q2"}, nil})}}
					if r.intn(100) < p.failBias {
						ls.f.links = append(ls.f.links, "zz")
					}
					tx.steps = append(tx.steps, ls)
				}
			case x < 16:
				tx.steps = append(tx.steps, txStep{kind: "ac", tag: 10*t + i})
			case x < 18:
				tx.steps = append(tx.steps, txStep{kind: "ap", tag: 10*t + i, fails: r.intn(100) < p.failBias})
			case x == 18:
				if r.chance(1, 3) {
					tx.steps = append(tx.steps, txStep{kind: "sys"})
				} else {
					tx.steps = append(tx.steps, txStep{kind: pick(r, []string{"nb", "nB"})})
					depth++
				}
			default:
				if depth > 0 {
					tx.steps = append(tx.steps, txStep{kind: "ne"})
					depth--
				}
			}
		}
		for ; depth > 0; depth-- {
			tx.steps = append(tx.steps, txStep{kind: "ne"})
		}
		c.txs = append(c.txs, tx)
	}
	return txCaseLine(c)
}

// ---------------------------------------------------------------- registration matrix (C08)

// every registration style x every non-empty subset-ish list of change types, on the parent and on
// the child store, against a history that creates, updates and deletes through both stores in
// multi-operation transactions, one of them rolled back after its events were queued
func txMatrixCases(emit func(string)) {
	typeLists := [][]byte{
		{'c'}, {'u'}, {'d'}, {'C'}, {'U'}, {'D'},
		{'c', 'u', 'd'}, {'C', 'U', 'D'}, {'c', 'C'}, {'d', 'd'}, {'u', 'D', 'c'}, {'c', 'u', 'd', 'C', 'U', 'D'},
	}
	history := func() []txTx {
		return []txTx{
			{mode: 'u', steps: []txStep{
				{kind: "ac", tag: 1},
				opCreate('P', "p1", "n1", []string{"r"}, nil, ""),
				opCreate('C', "c1", "n2", nil, sp("p1"), "k1"),
				opCreate('P', "p2", "n3", nil, nil, ""),
				// data in the second child store over an entity of the first one
				opCreate('D', "c1", "n2", nil, sp("p1"), "g1"),
			}},
			{mode: 'u', steps: []txStep{
				opUpdate('P', "p1", "n1b", []string{"s", "r"}, nil, ""),
				opUpdate('P', "c1", "n2b", nil, sp("p2"), ""),
				opUpdate('C', "c1", "n2c", []string{"t"}, nil, "k2"),
				opUpdate('D', "c1", "n2d", nil, nil, "g2"),
				{kind: "ac", tag: 2},
			}},
			{mode: 'u', steps: []txStep{
				opCreate('C', "c2", "n4", nil, nil, "k3"),
				opDelete('P', "p2"),
				opUpdate('P', "p1", "n1c", nil, nil, ""),
				{kind: "fail", tag: 9},
			}},
			{mode: 'b', steps: []txStep{
				opCreate('C', "c2", "n4", nil, nil, "k3"),
				opDelete('C', "c1"),
			}},
			{mode: 'u', steps: []txStep{
				opDelete('C', "p1"),
				opDelete('P', "c2"),
				opDeleteWhere('P', "all", ""),
			}},
		}
	}
	for _, style := range []byte("tfui") {
		for _, types := range typeLists {
			for _, on := range []byte("PCD") {
				c := &txCase{txl: 1, txs: history()}
				reg := txReg{listener: true, style: style, types: types}
				other := []txReg{{style: 'u'}, {listener: true, style: 'u', types: []byte{'c', 'u', 'd'}}}
				switch on {
				case 'C':
					c.regsC = []txReg{reg, {style: 't'}}
					c.regsP = other
				case 'D':
					c.regsD = []txReg{reg, {style: 't'}}
					c.regsP = other
					c.regsC = other[1:]
				default:
					c.regsP = []txReg{{style: 't'}, reg}
					c.regsC = other
					c.regsD = other[1:]
				}
				emit(txCaseLine(c))
				// the same registrations made through one reused slice of additional change types
				if len(types) > 1 {
					c.sharedSlice = true
					emit(txCaseLine(c))
				}
			}
		}
	}
}

// ---------------------------------------------------------------- entry points

func txGenCommon(tier string, seed uint64, out *bufio.Writer, faultQuick, faultThoroughLen, randomQuick, randomThorough int, p txProfile, matrix bool) {
	r := newRng(seed)
	emit := func(line string) { out.WriteString(line); out.WriteByte('\n') }
	if matrix {
		txMatrixCases(emit)
	}
	// bodies of one operation: every failure kind, both modes — always exhaustive
	txEnumFaults(1, []byte{'u', 'b'}, emit)
	if tier == "thorough" {
		for n := 2; n <= faultThoroughLen; n++ {
			txEnumFaultsOver(txPairOps(), n, []byte{'u'}, emit)
		}
		if faultThoroughLen >= 2 {
			// bodies of three operations over the core alphabet, exhaustively
			txEnumFaultsOver(txCoreOps(), 3, []byte{'u'}, emit)
		}
	}
	// sampled: bodies of 2..5 operations, one failure at a random position, random kind
	ops := txGoodOps()
	nSample := faultQuick
	if tier == "thorough" {
		nSample = faultQuick * 8
	}
	for i := 0; i < nSample; i++ {
		n := 2 + r.intn(4)
		body := make([]txStep, n)
		for j := range body {
			body[j] = ops[r.intn(len(ops))]
		}
		mode := byte('u')
		if r.chance(1, 10) {
			mode = 'b'
		}
		if line, ok := txFaultCase(body, r.intn(n), pick(r, txFailKinds), mode, r.chance(1, 3), r.chance(1, 8)); ok {
			emit(line)
		}
	}
	nRandom := randomQuick
	if tier == "thorough" {
		nRandom = randomThorough
	}
	for i := 0; i < nRandom; i++ {
		emit(txRandomCase(r, p))
	}
	// batch groups (several Db.Batch calls coalesced by bbolt into one batch); a random stream of their own, so that
	// the cases above stay what they were
	nGroups := 160
	if tier == "thorough" {
		nGroups = 4000
	}
	txGroupCases(newRng(seed^0x6772703a), p, nGroups, emit)
}
