package main

import (
	"bufio"
)

// C12, generator stream "negated atoms": `not (P)` negates whatever P evaluates to — also when P
// is not a boolean symbol but a comparison over a field that is NULL / absent on the row (the
// comparison is then false, and so is the comparison with the complementary operator), a set
// function over an empty set, in / between / contains.  Every operation atom (every spelling
// variant) is put under `not` in every position the grammar offers: directly, around the
// parenthesised atom, doubled, next to another atom, around an and / or of atoms; the rows of the
// table give every atom the three situations field-null / present-true / present-false.  The
// expected outcome is the spec's reading of the skeleton over the generator's atom values.

func c12A(letter byte) *c12Unit  { return &c12Unit{atom: string(letter)} }
func c12G(l *c12Level) *c12Unit  { return &c12Unit{grp: l} }
func c12N(l *c12Level) *c12Unit  { return &c12Unit{neg: l} }
func c12L1(u *c12Unit) *c12Level { return &c12Level{units: []*c12Unit{u}} }
func c12L2(u *c12Unit, op byte, v *c12Unit) *c12Level {
	return &c12Level{units: []*c12Unit{u, v}, ops: []byte{op}}
}

// the shapes, for an atom a and a second atom b
func c12NegShapes(a, b byte) []*c12Level {
	A := func() *c12Unit { return c12A(a) }
	B := func() *c12Unit { return c12A(b) }
	notA := func() *c12Level { return c12L1(c12N(c12L1(A()))) }               // not a
	notPA := func() *c12Level { return c12L1(c12N(c12L1(c12G(c12L1(A()))))) } // not (a)
	return []*c12Level{
		c12L1(A()),                        // a (the atom on its own: its value on every row)
		notA(),                            // not a
		notPA(),                           // not (a)
		c12L1(c12G(notPA())),              // (not (a))
		c12L1(c12N(notA())),               // not not a
		c12L1(c12N(c12L1(c12G(notPA())))), // not (not (a))
		c12L1(c12N(c12L1(c12G(c12L1(c12G(c12L1(A()))))))),                     // not ((a))
		c12L2(B(), '&', c12N(c12L1(A()))),                                     // b and not a
		c12L2(B(), '&', c12G(notPA())),                                        // b and (not (a))
		c12L2(B(), '|', c12G(notA())),                                         // b or (not a)
		c12L2(c12G(notPA()), '&', B()),                                        // (not (a)) and b
		c12L2(c12G(notA()), '|', B()),                                         // (not a) or b
		c12L2(A(), '|', c12G(notPA())),                                        // a or (not (a))     (always true)
		c12L2(A(), '&', c12N(c12L1(A()))),                                     // a and not a        (always false)
		c12L1(c12N(c12L1(c12G(c12L2(A(), '&', B()))))),                        // not (a and b)
		c12L1(c12N(c12L1(c12G(c12L2(A(), '|', B()))))),                        // not (a or b)
		c12L1(c12N(c12L2(A(), '&', B()))),                                     // not a and b   = not (a and b)
		c12L1(c12N(c12L2(c12G(c12L1(A())), '|', B()))),                        // not (a) or b  = not ((a) or b)
		c12L2(c12G(notPA()), '&', c12G(c12L1(c12N(c12L1(c12G(c12L1(B()))))))), // (not (a)) and (not (b))
		c12L2(c12G(notA()), '|', c12N(c12L1(B()))),                            // (not a) or not b
		c12L1(c12N(c12L1(c12G(c12L2(c12G(notPA()), '|', B()))))),              // not ((not (a)) or b)
	}
}

func c12GenNegAtoms(tier string, seed uint64, out *bufio.Writer) {
	r := newRng(seed ^ 0x0c12a70a5c12a70a)
	letters := c12AtomLetters()
	rounds := 1
	if tier == "thorough" {
		rounds = 8
	}
	for round := 0; round < rounds; round++ {
		for _, a := range letters {
			b := pick(r, letters)
			for i, l := range c12NegShapes(a, b) {
				// quick: every shape for every atom once, canonical-ish spelling with a random
				// variant; later rounds add redundant parentheses
				parens := 0
				if round > 0 {
					parens = r.intn(3)
				}
				if round == 0 && i > 12 && r.chance(1, 2) {
					continue // quick: half of the two-atom shapes per atom
				}
				c12EmitR(out, r, l, parens)
			}
		}
	}
}
