package main

// C20 — public-symbol validation sees every symbol a query references.
//
// case line:  <tag> <mask> <maps> <pub> <query> <tree…>
//
//	tag p   <query> (x<hex> of the text) is parsed by the real ast.Parse against the real store;
//	        <tree> is the typed tree that parse produced at generation time (read field by field,
//	        c20_reflect.go), followed by `//` and the untyped tree the listener built for the same
//	        text (the symbols the text itself references).  exec parses again, checks the tree is the same, runs the real
//	        boltz.ValidateSymbolsArePublic and a recording visitor.
//	tag s   <tree> is allocated as real ast structs (every node kind of the regenerated table x
//	        every child position, random trees, nil children) under a real queryNode; then as p.
//	tag u   the untyped tree the listener builds for <query> (before PostProcess); only the
//	        traversal is observed.
//	mask    which of the store's symbols are made public (c20Bits); the store is wired through
//	        the exported boltz API, exactly as an application would.
//	maps, pub   the store's map symbols and GetPublicSymbols() for that mask (input of the model)
//
// output:  ok v=<visited> | err x<hex> v=<visited> | panic | - v=<visited>   (+ diagnostics
//          tree-changed / cfg-mismatch / parse-error / unbuildable … which never match the model)

import (
	"bufio"
	"encoding/json"
	"fmt"
	"os"
	"reflect"
	"sort"
	"strconv"
	"strings"
	"sync"

	"github.com/openziti/storage/ast"
	"github.com/openziti/storage/boltz"
)

func init() {
	register("c20", &propHarness{gen: c20Gen, exec: c20Exec})
}

// ------------------------------------------------------------------------------------- stores

type c20Ent struct{ Id string }

func (e *c20Ent) GetId() string         { return e.Id }
func (e *c20Ent) SetId(id string)       { e.Id = id }
func (e *c20Ent) GetEntityType() string { return "things" }

type c20Strategy struct{}

func (c20Strategy) NewEntity() *c20Ent                               { return &c20Ent{} }
func (c20Strategy) FillEntity(_ *c20Ent, _ *boltz.TypedBucket)       {}
func (c20Strategy) PersistEntity(_ *c20Ent, _ *boltz.PersistContext) {}

type c20Stores struct {
	a, b *boltz.BaseStore[*c20Ent]
	pub  []string   // a.GetPublicSymbols(), sorted
	pubs [][]string // child stores (c20_child.go): the public symbols of a and of every store up its parent chain
	schema int                         // c20_keyed.go: which naming schema (0: every symbol stored under its name)
	levels []*boltz.BaseStore[*c20Ent] // c20_keyed.go: the validating store and the stores up its parent chain
}

// assignable symbols of store A: bit i set <=> c20Bits[i] is made public
var c20Bits = []string{"name", "n", "f", "flag", "at", "tags", "roles", "nums", "kids", "kids.label", "boss.name", "meta",
	"kids.tags.k", "tags.k"}

const c20ExplicitElemBit = 13 // MakeSymbolPublic("tags.k"): an element marked on its own

var c20Maps = []string{"meta", "tags"}

var c20StoreCache sync.Map

func c20StoreFor(mask uint64) *c20Stores {
	if v, ok := c20StoreCache.Load(mask); ok {
		return v.(*c20Stores)
	}
	a, b := c20NewPair()
	c20ApplyMask(a, mask)
	pub := a.GetPublicSymbols()
	sort.Strings(pub)
	st := &c20Stores{a: a, b: b, pub: pub}
	c20StoreCache.Store(mask, st)
	return st
}

// a fresh pair of stores with every symbol declared and nothing made public yet
func c20NewPair() (*boltz.BaseStore[*c20Ent], *boltz.BaseStore[*c20Ent]) {
	mk := func(name string) *boltz.BaseStore[*c20Ent] {
		s := boltz.NewBaseStore(boltz.StoreDefinition[*c20Ent]{EntityType: name, EntityStrategy: c20Strategy{}, BasePath: []string{"c20"}})
		s.InitImpl(s)
		return s
	}
	a, b := mk("things"), mk("others")
	// store B (target of kids / boss): everything public, it is never the validating store
	b.AddIdSymbol("id", ast.NodeTypeString)
	b.AddSymbol("name", ast.NodeTypeString)
	b.AddSymbol("label", ast.NodeTypeString)
	b.AddSymbol("n", ast.NodeTypeInt64)
	b.AddMapSymbol("tags", ast.NodeTypeAnyType, "tags")
	b.MakeSymbolPublic("tags")
	b.AddFkSetSymbol("owners", a)
	// store A: id and boss are public by construction (AddIdSymbol / AddFkSymbol), everything else is
	// declared non-public (and made public according to a mask afterwards)
	a.AddIdSymbol("id", ast.NodeTypeString)
	a.AddFkSymbol("boss", b)
	a.AddEntitySymbol(a.NewEntitySymbol("name", ast.NodeTypeString))
	a.AddEntitySymbol(a.NewEntitySymbol("n", ast.NodeTypeInt64))
	a.AddEntitySymbol(a.NewEntitySymbol("f", ast.NodeTypeFloat64))
	a.AddEntitySymbol(a.NewEntitySymbol("flag", ast.NodeTypeBool))
	a.AddEntitySymbol(a.NewEntitySymbol("at", ast.NodeTypeDatetime))
	a.AddMapSymbol("tags", ast.NodeTypeAnyType, "tags")
	a.AddMapSymbol("meta", ast.NodeTypeString, "meta")
	a.AddSetSymbol("roles", ast.NodeTypeString)
	a.AddSetSymbol("nums", ast.NodeTypeInt64)
	a.AddFkSetSymbol("kids", b)
	return a, b
}

// which mask bits decide whether symbol s is public
func c20RelevantBits(s string) []int {
	var res []int
	for i, b := range c20Bits {
		if b == s {
			res = append(res, i)
		}
	}
	if i := strings.IndexByte(s, '.'); i >= 0 {
		base := s[:i]
		for i, b := range c20Bits {
			if b == base && (base == "tags" || base == "meta") {
				res = append(res, i)
			}
		}
	}
	return res
}

// ---------------------------------------------------------------------------- table facts

type c20FactChild struct {
	Field  string `json:"field"`
	Many   bool   `json:"many"`
	Static string `json:"static"`
	Kind   string `json:"kind"`
}
type c20FactStep struct {
	Op      string `json:"op"`
	Arg     string `json:"arg"`
	Guarded bool   `json:"guarded"`
}
type c20FactKind struct {
	Name      string         `json:"name"`
	NilSafe   bool           `json:"nilSafe"`
	Children  []c20FactChild `json:"children"`
	StrFields []string       `json:"strFields"`
	SymFields []string       `json:"symFields"`
	Steps     []c20FactStep  `json:"steps"`
	ValueRecv bool           `json:"valueRecv"`
}
type c20Facts struct {
	Kinds []c20FactKind `json:"kinds"`
	by    map[string]*c20FactKind
}

// the regenerated table drives the generator: which kinds exist, which string fields hold
// symbols, which of them Accept announces, where nil is tolerated
func c20LoadFacts() *c20Facts {
	path := os.Getenv("VERIF_ACCEPT_FACTS")
	if path == "" {
		path = "/verif/.build/facts/accept.json"
	}
	f := &c20Facts{by: map[string]*c20FactKind{}}
	if data, err := os.ReadFile(path); err == nil {
		_ = json.Unmarshal(data, f)
	}
	for i := range f.Kinds {
		f.by[f.Kinds[i].Name] = &f.Kinds[i]
	}
	return f
}

func (f *c20Facts) isSym(kind, field string) bool {
	if k := f.by[kind]; k != nil {
		for _, s := range k.SymFields {
			if s == field {
				return true
			}
		}
		return false
	}
	return field == "symbol"
}

func (f *c20Facts) announced(kind, field string) bool {
	if k := f.by[kind]; k != nil {
		for _, s := range k.Steps {
			if s.Op == "announce" && s.Arg == field {
				return true
			}
		}
		return false
	}
	return field == "symbol"
}

func (f *c20Facts) tolerant(kind, field string) bool {
	k := f.by[kind]
	if k == nil {
		return false
	}
	for _, s := range k.Steps {
		if s.Op == "forward" && s.Arg == field && s.Guarded {
			return true
		}
	}
	for _, c := range k.Children {
		if c.Field == field && c.Static == "ptr" {
			if t := f.by[c.Kind]; t != nil && t.NilSafe {
				return true
			}
		}
	}
	return false
}

// does (*K)(nil).Accept(v) dereference nil? (only used to pick a varied sample; the expectation comes from the model)
func (f *c20Facts) nilRecvPanics(kind string) bool {
	k := f.by[kind]
	if k == nil {
		return false
	}
	if k.ValueRecv {
		return true
	}
	if k.NilSafe {
		return false
	}
	for _, s := range k.Steps {
		if s.Op == "announce" || s.Op == "forward" {
			return true
		}
	}
	return false
}

// a sample of typed nil pointers for an interface slot: one whose Accept tolerates a nil receiver, one
// whose Accept reads a field, one with a value receiver — where the slot's type admits them
func (f *c20Facts) typedNilSample(et reflect.Type) []string {
	var harmless, reads, byValue string
	for _, k := range c20TypedNilCandidates(et) {
		fk := f.by[k]
		if fk == nil {
			continue
		}
		switch {
		case fk.ValueRecv:
			if byValue == "" {
				byValue = k
			}
		case f.nilRecvPanics(k):
			if reads == "" {
				reads = k
			}
		default:
			if harmless == "" || fk.NilSafe && !f.by[harmless].NilSafe {
				harmless = k
			}
		}
	}
	var res []string
	for _, k := range []string{harmless, reads, byValue} {
		if k != "" {
			res = append(res, k)
		}
	}
	return res
}

// ---------------------------------------------------------------------- query text generator

const c20DT1 = "datetime(2020-01-01T00:00:00Z)"
const c20DT2 = "datetime(2031-06-15T12:30:00+02:00)"

var c20Atoms = []string{
	`true`, `false`,
	`name = "x"`, `name != "x"`, `name < "m"`, `name <= "m"`, `name > "m"`, `name >= "m"`,
	`name contains "a"`, `name not contains "a"`, `name icontains "A"`, `name not icontains "a"`, `name contains 5`,
	`name in ["a", "b"]`, `name not in ["a"]`, `name = null`, `name != null`,
	`id = "i"`, `id in ["a"]`, `id != null`,
	`n = 1`, `n != 2`, `n < 3`, `n >= -4`, `n > 1.5`, `n = 2.0`, `n in [1, 2]`, `n in [1.5, 2]`, `n not in [3]`, `n in ["1"]`,
	`n between 1 and 5`, `n not between 1 and 5`, `n between 1.5 and 3`, `n = null`, `n contains "1"`,
	`f = 1.5`, `f < 2`, `f in [1, 2]`, `f in [1.5]`, `f between 1 and 2`, `f between 0.5 and 2.5`, `f != null`, `f contains "1"`,
	`flag = true`, `flag != false`, `flag`, `not flag`, `flag = null`,
	`at = ` + c20DT1, `at < ` + c20DT2, `at in [` + c20DT1 + `, ` + c20DT2 + `]`, `at between ` + c20DT1 + ` and ` + c20DT2,
	`at not between ` + c20DT1 + ` and ` + c20DT2, `at != null`, `at not in [` + c20DT1 + `]`,
	`tags.k = "v"`, `tags.k != 5`, `tags.k > 1.5`, `tags.k = true`, `tags.k = null`, `tags.k in ["a"]`, `tags.k in [1, 2]`,
	`tags.k in [1.5]`, `tags.k between 1 and 2`, `tags.k between ` + c20DT1 + ` and ` + c20DT2, `tags.k contains "x"`,
	`tags.k icontains "x"`, `tags.a.b = "v"`, `tags.k = ` + c20DT1, `tags.k in [` + c20DT1 + `]`, `tags.other-key = 1`,
	`meta.x = "v"`, `meta.x contains "a"`, `meta.x != null`, `meta.y.z in ["q"]`,
	`anyOf(roles) = "a"`, `allOf(roles) != "a"`, `anyOf(roles) in ["a", "b"]`, `allOf(roles) not in ["a"]`,
	`anyOf(roles) contains "a"`, `anyOf(roles) icontains "a"`, `allOf(roles) not icontains "a"`, `anyOf(roles) = null`, `anyOf(roles) < "m"`,
	`anyOf(nums) > 1`, `allOf(nums) between 1 and 3`, `anyOf(nums) > 1.5`, `anyOf(nums) in [1, 2]`, `anyOf(nums) not between 1 and 2`,
	`anyOf(nums) in [1.5]`, `allOf(nums) != null`,
	`count(roles) > 1`, `count(roles) = 2`, `count(roles) >= 1.5`, `count(roles) in [1, 2]`, `count(roles) between 1 and 3`,
	`count(kids) > 0`, `count(nums) contains "1"`, `count(roles) in [1.5]`,
	`isEmpty(roles)`, `not isEmpty(kids)`, `isEmpty(nums)`,
	`anyOf(kids) = "id"`, `anyOf(kids.label) = "x"`, `allOf(kids.name) != "x"`, `anyOf(kids.tags.k) = "x"`, `count(kids.label) > 0`,
	`isEmpty(kids.label)`, `anyOf(kids.n) between 1 and 2`, `anyOf(kids.owners) = "o"`,
	`boss = "b"`, `boss.name = "x"`, `boss.label contains "x"`, `boss.tags.k = 1`, `boss.n > 2`, `boss = null`, `boss.name icontains "x"`,
	`anyOf(boss.owners) = "o"`,
	`count(from kids where name = "x") > 0`, `isEmpty(from kids where n > 1 and label contains "a")`,
	`isEmpty(from kids where true sort by name limit 1)`, `count(from kids where isEmpty(from owners where name = "x")) = 1`,
	`isEmpty(from kids where tags.k = "v")`, `count(from kids where anyOf(owners.name) = "x" sort by label desc skip 1) >= 2`,
	`not isEmpty(from kids where name != null or n in [1, 2] sort by n, name desc skip 1 limit none)`,
	`count(from kids where count(from owners where flag and anyOf(roles) = "r" sort by at) > 1) between 1 and 2`,
	// int64-valued set functions / sub-query counts compared with DECIMAL literals: the typer wraps the whole operand
	// (sub-query included) in Int64ToFloat64Node; the symbols of the sub-query are then only reachable through the wrapper
	`count(from kids where name = "x") > 1.5`, `count(from kids where n > 1 sort by label) = 2.0`,
	`count(from kids where name = "x" or label contains "a") in [1.5, 2]`, `count(from kids where n = 1) not in [2.5]`,
	`count(from kids where label contains "a" sort by name desc limit 3) between 0.5 and 3.5`,
	`count(from kids where name != null) not between 0.5 and 1.5`, `count(from kids where tags.k = "v") >= 0.5`,
	`count(from kids where count(from owners where at != null sort by f) > 0.5) < 2.5`,
	`count(from kids where isEmpty(from owners where flag)) = 1.0`,
	`count(kids) = 2.0`, `count(roles) between 0.5 and 3.5`, `count(nums) in [1.5, 2]`, `count(kids.label) < 1.5`, `count(tags) = 2.0`,
	`1.5 < count(from kids where name = "x")`,
}

var c20Sorts = []string{``, ``, `sort by name`, `sort by n desc`, `sort by name asc, n desc`, `sort by tags.k`, `sort by boss.name`,
	`sort by at, f, flag`, `sort by id`, `sort by meta.x desc, id`, `sort by boss, name`,
	// more sort fields than any scanner looks at: the last ones are still referenced
	`sort by id, name, n, f, flag, at`, `sort by id, id desc, id, id, id, id, tags.k, kids.label desc`}
var c20Pages = []string{``, ``, ``, `skip 2`, `limit 5`, `limit none`, `skip 1 limit none`, `skip 0 limit 1`}

func c20RandBool(r *rng, depth int) string {
	if depth <= 0 || r.chance(2, 5) {
		return pick(r, c20Atoms)
	}
	switch r.intn(5) {
	case 0:
		return c20RandBool(r, depth-1) + " and " + c20RandBool(r, depth-1)
	case 1:
		return c20RandBool(r, depth-1) + " or " + c20RandBool(r, depth-1)
	case 2:
		return "not " + c20RandBool(r, depth-1)
	case 3:
		return "(" + c20RandBool(r, depth-1) + ")"
	default:
		return "(" + c20RandBool(r, depth-1) + " or " + c20RandBool(r, depth-1) + ") and " + c20RandBool(r, depth-1)
	}
}

func c20JoinQuery(parts ...string) string {
	var out []string
	for _, p := range parts {
		if p != "" {
			out = append(out, p)
		}
	}
	return strings.Join(out, " ")
}

// --------------------------------------------------------------------------- case emission

type c20Emitter struct {
	out   *bufio.Writer
	r     *rng
	tier  string
	facts *c20Facts
	n     int
	seen  map[string]bool
	nBase  int // lines emitted against a store without parent
	nChild int // child-store variants emitted (c20_child.go)
	nKeyed int // keyed-store variants emitted (c20_keyed.go)
}

func (e *c20Emitter) line(tag string, mask uint64, query string, toks []string) {
	st := c20StoreFor(mask)
	q := "-"
	if tag != "s" {
		q = c20Name(query)
	}
	if tag == "a" && e.r != nil {
		// keep the quick tier small: the same recipe with several assignments
	}
	l := fmt.Sprintf("%s %d %s %s %s %s", tag, mask, c20Names(c20Maps), c20Names(st.pub), q, strings.Join(toks, " "))
	if e.seen[l] {
		return
	}
	e.seen[l] = true
	e.out.WriteString(l)
	e.out.WriteByte('\n')
	e.n++
	// the same case against a child store (own assignment `mask`, parents differing): every case whose own
	// assignment leaves a referenced symbol non-public is a candidate for "the parent's answer leaks in"
	if tag != "u" && mask&(1<<c20ExplicitElemBit) == 0 {
		e.nBase++
		every := 5
		if e.tier == "thorough" {
			every = 4
		}
		if e.nBase%every == 0 {
			e.childVariants(tag, mask, query, toks)
		}
		// … and against stores whose symbols are stored under keys that are other symbols' names (c20_keyed.go)
		if e.nBase%3 == 1 {
			e.keyedVariants(tag, mask, query, toks)
		}
	}
}

// masks for a tree: the assignments over the symbols it references (all of them in the thorough
// tier, all-public / each-single-non-public / a few random ones in the quick tier); bits the tree
// does not reference are random
func (e *c20Emitter) masks(strs []string, cap int) []uint64 {
	relSet := map[int]bool{}
	for _, s := range strs {
		for _, b := range c20RelevantBits(s) {
			relSet[b] = true
		}
	}
	var rel []int
	for b := range relSet {
		if b != c20ExplicitElemBit {
			rel = append(rel, b)
		}
	}
	sort.Ints(rel)
	noise := func() uint64 {
		m := e.r.next() & ((1 << uint(len(c20Bits))) - 1)
		if !e.r.chance(1, 8) {
			m &^= 1 << c20ExplicitElemBit
		}
		for _, b := range rel {
			m &^= 1 << uint(b)
		}
		return m
	}
	var all uint64
	for _, b := range rel {
		all |= 1 << uint(b)
	}
	var res []uint64
	if len(rel) <= cap {
		for sub := uint64(0); sub < 1<<uint(len(rel)); sub++ {
			var m uint64
			for i, b := range rel {
				if sub&(1<<uint(i)) != 0 {
					m |= 1 << uint(b)
				}
			}
			res = append(res, m|noise())
		}
		return res
	}
	res = append(res, all|noise())
	for _, b := range rel {
		res = append(res, (all&^(1<<uint(b)))|noise())
	}
	for i := 0; i < 3; i++ {
		res = append(res, (e.r.next()&all)|noise())
	}
	return res
}

func (e *c20Emitter) parsed(query string, cap int, untypedToo bool) {
	base := c20StoreFor(0)
	q, err := c20SafeParse(base.a, query)
	if err == errC20ParsePanic {
		// the real parser panics on this text (it runs Accept on the untyped tree): keep the input as
		// an untyped-tree case, which the implementation side will report as a panic
		if n, err := c20UntypedTree(query); err == nil {
			ut, _, _ := c20WalkNode(n, nil)
			e.line("u", 0, query, ut)
		}
		return
	}
	if err != nil {
		return // not a valid query for this store (nothing is written to stderr: the runner merges it into the case stream)
	}
	toks, strs, _ := c20WalkNode(q, nil) // a walker complaint (hidden node) is reported by exec for the same case
	var ut []string
	if query != "" {
		n, err := c20UntypedTree(query)
		if err != nil {
			return
		}
		var ustrs []string
		ut, ustrs, _ = c20WalkNode(n, nil)
		strs = append(strs, ustrs...)
		toks = append(append(toks, "//"), ut...)
		// the symbol types the text is parsed against (input of the model of the typing transformation)
		toks = append(append(toks, "//"), c20SymTabFor(base.a, ut, ustrs)...)
	}
	for _, m := range e.masks(strs, cap) {
		e.line("p", m, query, toks)
	}
	if untypedToo && ut != nil {
		e.line("u", 0, query, ut)
	}
}

var errC20ParsePanic = fmt.Errorf("ast.Parse panicked")

func c20SafeParse(st ast.SymbolTypes, query string) (q ast.Query, err error) {
	defer func() {
		if r := recover(); r != nil {
			q, err = nil, errC20ParsePanic
		}
	}()
	return ast.Parse(st, query)
}

// ------------------------------------------------------------------ synthetic (built) trees

type c20Synth struct {
	e     *c20Emitter
	facts *c20Facts
	kinds []string // kinds of the table that can be built
}

func c20Leaf(kind string) bool {
	for _, f := range c20Fields(c20Registry[kind]) {
		if f.class == c20One {
			return false
		}
	}
	return true
}

func (s *c20Synth) hasAnnouncedSym(kind string) (string, bool) {
	for _, f := range c20Fields(c20Registry[kind]) {
		if f.class == c20Str && s.facts.isSym(kind, f.name) && s.facts.announced(kind, f.name) {
			return f.name, true
		}
	}
	return "", false
}

func (s *c20Synth) symbolFree(kind string) bool {
	for _, f := range c20Fields(c20Registry[kind]) {
		if f.class == c20Str && s.facts.isSym(kind, f.name) {
			return false
		}
	}
	return true
}

func c20ElemType(f c20Field) reflect.Type {
	if f.class == c20Many {
		return f.typ.Elem()
	}
	return f.typ
}

// node of `kind` with the given children (label -> list of subtrees) and strings
func c20NodeToks(kind string, strs [][2]string, kids [][]string, labels []string) []string {
	t := []string{"N", kind, strconv.Itoa(len(strs))}
	for _, s := range strs {
		t = append(t, s[0], c20Name(s[1]))
	}
	t = append(t, strconv.Itoa(len(kids)))
	for i, k := range kids {
		t = append(t, labels[i])
		t = append(t, k...)
	}
	return t
}

// smallest subtree that fits a slot of static type et; symbol nodes, where unavoidable, carry `fill`
func (s *c20Synth) minimal(et reflect.Type, fill string, depth int) []string {
	cands := c20Candidates(et)
	best := ""
	score := func(k string) int {
		sc := 0
		if !c20Leaf(k) {
			sc += 10
		}
		if !s.symbolFree(k) {
			sc += 3
		}
		if s.facts.by[k] == nil {
			sc += 100
		}
		return sc
	}
	for _, k := range cands {
		if best == "" || score(k) < score(best) {
			best = k
		}
	}
	if best == "" || depth > 6 {
		return []string{"Z"}
	}
	return s.build(best, "", nil, fill, depth)
}

// build `kind` with child `field` := sub (if field != ""), everything else minimal
func (s *c20Synth) build(kind, field string, sub []string, fill string, depth int) []string {
	var strs [][2]string
	var kids [][]string
	var labels []string
	silent := ""
	for _, f := range c20Fields(c20Registry[kind]) {
		switch f.class {
		case c20Enum:
			strs = append(strs, [2]string{f.name, "\x00"})
		case c20Str:
			switch {
			case s.facts.isSym(kind, f.name) && s.facts.announced(kind, f.name):
				strs = append(strs, [2]string{f.name, fill})
			case s.facts.isSym(kind, f.name):
				silent = f.name
				strs = append(strs, [2]string{f.name, fill})
			default:
				strs = append(strs, [2]string{f.name, "v"})
			}
		case c20One:
			if f.name == field {
				kids = append(kids, sub)
			} else if s.facts.tolerant(kind, f.name) {
				kids = append(kids, []string{"Z"})
			} else if silent != "" || s.silentOf(kind) != "" {
				// a kind that keeps a symbol only as a string: the symbol node must be below it
				kids = append(kids, s.withSymbol(f.typ, fill, fill, depth+1))
			} else {
				kids = append(kids, s.minimal(f.typ, fill, depth+1))
			}
			labels = append(labels, f.name)
		case c20Many:
			if f.name == field {
				kids = append(kids, sub)
				labels = append(labels, f.name)
			}
		}
	}
	return c20NodeToks(kind, strs, kids, labels)
}

func (s *c20Synth) silentOf(kind string) string {
	for _, f := range c20Fields(c20Registry[kind]) {
		if f.class == c20Str && s.facts.isSym(kind, f.name) && !s.facts.announced(kind, f.name) {
			return f.name
		}
	}
	return ""
}

// shortest subtree fitting a slot of type et that contains a symbol node carrying sym (BFS over
// slot types); nil if no symbol can live below such a slot
func (s *c20Synth) withSymbol(et reflect.Type, sym, fill string, depth int) []string {
	type hop struct {
		kind, field string
		prev        *hop
		typ         reflect.Type
	}
	seen := map[reflect.Type]bool{et: true}
	queue := []*hop{{typ: et}}
	for len(queue) > 0 {
		h := queue[0]
		queue = queue[1:]
		cands := c20Candidates(h.typ)
		for _, k := range cands {
			if s.facts.by[k] == nil {
				continue
			}
			if sf, ok := s.hasAnnouncedSym(k); ok && c20Leaf(k) {
				// terminal: unwind
				var strs [][2]string
				for _, f := range c20Fields(c20Registry[k]) {
					if f.class == c20Str {
						v := "v"
						if f.name == sf {
							v = sym
						}
						strs = append(strs, [2]string{f.name, v})
					}
				}
				cur := c20NodeToks(k, strs, nil, nil)
				for p := h; p != nil && p.kind != ""; p = p.prev {
					cur = s.buildNamed(p.kind, p.field, cur, sym, fill, depth)
				}
				return cur
			}
		}
		for _, k := range cands {
			if s.facts.by[k] == nil {
				continue
			}
			for _, f := range c20Fields(c20Registry[k]) {
				if f.class != c20One && f.class != c20Many {
					continue
				}
				ft := c20ElemType(f)
				if seen[ft] {
					continue
				}
				seen[ft] = true
				queue = append(queue, &hop{kind: k, field: f.name, prev: h, typ: ft})
			}
		}
	}
	return nil
}

// like build, but a silent symbol string of `kind` is set to sym (it is covered by the subtree)
func (s *c20Synth) buildNamed(kind, field string, sub []string, sym, fill string, depth int) []string {
	t := s.build(kind, field, sub, fill, depth)
	if sf := s.silentOf(kind); sf != "" {
		// tokens: N kind n f1 v1 ... ; replace the value of field sf
		n, _ := strconv.Atoi(t[2])
		for i := 0; i < n; i++ {
			if t[3+2*i] == sf {
				t[4+2*i] = c20Name(sym)
			}
		}
	}
	return t
}

// path of (kind, field) hops from the root queryNode down to a slot that accepts `kind`
func (s *c20Synth) pathTo(kind string) [][2]string {
	type hop struct {
		kind, field string
		prev        *hop
	}
	if kind == "queryNode" {
		return [][2]string{}
	}
	seen := map[string]bool{"queryNode": true}
	queue := []*hop{{kind: "queryNode"}}
	for len(queue) > 0 {
		h := queue[0]
		queue = queue[1:]
		for _, f := range c20Fields(c20Registry[h.kind]) {
			if f.class != c20One && f.class != c20Many {
				continue
			}
			for _, k := range c20Candidates(c20ElemType(f)) {
				if s.facts.by[k] == nil {
					continue
				}
				if k == kind {
					var res [][2]string
					res = append(res, [2]string{h.kind, f.name})
					for p := h; p.prev != nil; p = p.prev {
						res = append(res, [2]string{p.prev.kind, p.field})
					}
					return res // innermost first
				}
				if !seen[k] {
					seen[k] = true
					queue = append(queue, &hop{kind: k, field: f.name, prev: h})
				}
			}
		}
	}
	return nil
}

func (s *c20Synth) wrap(kind string, tree []string, sym, fill string) []string {
	if kind == "queryNode" {
		return tree
	}
	path := s.pathTo(kind)
	if path == nil {
		return nil
	}
	cur := tree
	for _, h := range path {
		cur = s.buildNamed(h[0], h[1], cur, sym, fill, 0)
	}
	return cur
}

// every kind of the table x every child position: the only occurrence of `name` is below that
// child, everything else that needs a symbol carries `id` (public by construction)
func (s *c20Synth) focused() {
	const focus, fill = "name", "id"
	for _, kind := range s.kinds {
		fields := c20Fields(c20Registry[kind])
		nkids := 0
		for _, f := range fields {
			if f.class != c20One && f.class != c20Many {
				continue
			}
			nkids++
			sub := s.withSymbol(c20ElemType(f), focus, fill, 1)
			if sub == nil {
				sub = s.minimal(c20ElemType(f), fill, 1)
			}
			if s.facts.by[kind] != nil {
				tree := s.wrap(kind, s.buildNamed(kind, f.name, sub, focus, fill, 0), focus, fill)
				if tree != nil {
					s.e.line("s", 0xffff&^1&^(1<<c20ExplicitElemBit), "", tree)
					s.e.line("s", 0xffff&^(1<<c20ExplicitElemBit), "", tree)
				}
			}
			// nil in this position
			if f.class == c20One {
				if tree := s.wrap(kind, s.build(kind, f.name, []string{"Z"}, fill, 0), fill, fill); tree != nil {
					s.e.line("s", 0xffff&^(1<<c20ExplicitElemBit), "", tree)
				}
			}
			// typed nil pointers in this position (interface-typed fields and slice elements), a nil slice element
			if s.facts.by[kind] != nil {
				var subs [][]string
				for _, k := range s.facts.typedNilSample(c20ElemType(f)) {
					subs = append(subs, []string{"T", k})
				}
				if f.class == c20Many {
					subs = append(subs, []string{"Z"})
				}
				for _, sub := range subs {
					if tree := s.wrap(kind, s.buildNamed(kind, f.name, sub, fill, fill, 0), fill, fill); tree != nil {
						s.e.line("s", 0xffff&^(1<<c20ExplicitElemBit), "", tree)
						s.e.line("s", 0xffff&^1&^(1<<c20ExplicitElemBit), "", tree)
					}
				}
			}
		}
		// the kind's own symbol
		if sf, ok := s.hasAnnouncedSym(kind); ok {
			tree := s.build(kind, "", nil, fill, 0)
			n, _ := strconv.Atoi(tree[2])
			for i := 0; i < n; i++ {
				if tree[3+2*i] == sf {
					tree[4+2*i] = c20Name(focus)
				}
			}
			if w := s.wrap(kind, tree, fill, fill); w != nil {
				s.e.line("s", 0xffff&^1&^(1<<c20ExplicitElemBit), "", w)
				s.e.line("s", 0xffff&^(1<<c20ExplicitElemBit), "", w)
			}
		} else if nkids == 0 {
			if w := s.wrap(kind, s.build(kind, "", nil, fill, 0), fill, fill); w != nil {
				s.e.line("s", 0, "", w)
			}
		}
	}
}

var c20SymPool = []string{"name", "n", "f", "flag", "at", "tags", "roles", "nums", "kids", "boss", "id", "meta",
	"tags.k", "tags.a.b", "meta.x", "kids.label", "boss.name", "kids.tags.k", "kids.name", "boss.label", "label", "zzz"}

// names on which IsPublicSymbol's splitting matters
var c20OddSyms = []string{"", ".", "..", "tags.", ".tags", "tags..k", "name.x", "Tags.k", "tags.k.", "kids.tags", "tagsx.k", "tags",
	"meta.", "id.x", "boss.", "tags.tags", "kids.label.x", "n.n", "tags\x00.k", "täg.k", " tags.k", "tags .k"}

func (s *c20Synth) randSym(r *rng) string {
	if r.chance(1, 12) {
		return pick(r, c20OddSyms)
	}
	return pick(r, c20SymPool)
}

// random well-typed tree for a slot of static type et
func (s *c20Synth) random(et reflect.Type, depth int, r *rng, syms *[]string) []string {
	var cands []string
	for _, k := range c20Candidates(et) {
		if s.facts.by[k] != nil {
			cands = append(cands, k)
		}
	}
	if len(cands) == 0 {
		return []string{"Z"}
	}
	if depth <= 0 {
		var leaves []string
		for _, k := range cands {
			if c20Leaf(k) {
				leaves = append(leaves, k)
			}
		}
		if len(leaves) > 0 {
			cands = leaves
		}
	}
	kind := pick(r, cands)
	var strs [][2]string
	var kids [][]string
	var labels []string
	silentIdx := -1
	before := len(*syms)
	for _, f := range c20Fields(c20Registry[kind]) {
		switch f.class {
		case c20Enum:
			strs = append(strs, [2]string{f.name, string([]byte{byte(r.intn(4))})})
		case c20Str:
			switch {
			case s.facts.isSym(kind, f.name) && s.facts.announced(kind, f.name):
				v := s.randSym(r)
				*syms = append(*syms, v)
				strs = append(strs, [2]string{f.name, v})
			case s.facts.isSym(kind, f.name):
				silentIdx = len(strs)
				strs = append(strs, [2]string{f.name, ""})
			default:
				strs = append(strs, [2]string{f.name, pick(r, []string{"", "v", "name", "tags.k"})})
			}
		case c20One:
			labels = append(labels, f.name)
			switch {
			case r.chance(1, 40) && len(c20TypedNilCandidates(f.typ)) > 0:
				kids = append(kids, []string{"T", pick(r, c20TypedNilCandidates(f.typ))})
			case s.facts.tolerant(kind, f.name) && r.chance(1, 3):
				kids = append(kids, []string{"Z"})
			case silentIdx >= 0 && len(*syms) == before:
				v := s.randSym(r)
				sub := s.withSymbol(f.typ, v, "id", depth)
				if sub == nil {
					sub = s.random(f.typ, depth-1, r, syms)
				} else {
					*syms = append(*syms, v)
				}
				kids = append(kids, sub)
			default:
				kids = append(kids, s.random(f.typ, depth-1, r, syms))
			}
		case c20Many:
			n := r.intn(4)
			if depth <= 0 {
				n = r.intn(2)
			}
			for i := 0; i < n; i++ {
				labels = append(labels, f.name)
				switch {
				case r.chance(1, 40):
					kids = append(kids, []string{"Z"})
				case r.chance(1, 40) && len(c20TypedNilCandidates(f.typ.Elem())) > 0:
					kids = append(kids, []string{"T", pick(r, c20TypedNilCandidates(f.typ.Elem()))})
				default:
					kids = append(kids, s.random(f.typ.Elem(), depth-1, r, syms))
				}
			}
		}
	}
	if silentIdx >= 0 {
		if len(*syms) > before {
			strs[silentIdx][1] = (*syms)[before+r.intn(len(*syms)-before)]
		} else {
			// nothing below announces a symbol: the name cannot be covered; keep the tree honest by
			// making it a node the parser could never have produced *and* flagging nothing — drop it
			return s.minimal(et, "id", 0)
		}
	}
	return c20NodeToks(kind, strs, kids, labels)
}

func (s *c20Synth) randomQuery(depth int, r *rng) ([]string, []string) {
	var syms []string
	qt := reflect.PointerTo(c20Registry["queryNode"])
	tree := s.random(qt, depth, r, &syms)
	return tree, syms
}

// ---------------------------------------------------------------------------------------- gen

func c20Gen(tier string, seed uint64, out *bufio.Writer) {
	c20RegisterDerived()
	facts := c20LoadFacts()
	e := &c20Emitter{out: out, r: newRng(seed), tier: tier, facts: facts, seen: map[string]bool{}}
	thorough := tier == "thorough"
	cap := 4
	if thorough {
		cap = 8
	}
	// 1. every atom on its own (with and without sort/paging), all assignments over its symbols
	e.parsed("", cap, false)
	for _, a := range c20Atoms {
		e.parsed(a, 8, true)
	}
	for _, so := range c20Sorts {
		for _, pg := range c20Pages {
			if so != "" || pg != "" {
				e.parsed(c20JoinQuery(so, pg), 8, true)
				e.parsed(c20JoinQuery("true", so, pg), cap, false)
			}
		}
	}
	// 2. synthetic: kind x child position, nil positions
	syn := &c20Synth{e: e, facts: facts}
	if len(facts.Kinds) > 0 {
		for _, k := range facts.Kinds {
			if _, ok := c20Registry[k.Name]; ok {
				syn.kinds = append(syn.kinds, k.Name)
			} // else: reported by the check as a kind the generator does not reach
		}
		syn.focused()
		// odd symbol names in a one-symbol query, against public/non-public tags, meta, name
		for _, sname := range append(append([]string{}, c20OddSyms...), c20SymPool...) {
			tree := c20NodeToks("queryNode", nil, [][]string{
				c20NodeToks("BoolSymbolNode", [][2]string{{"symbol", sname}}, nil, nil), {"Z"}, {"Z"}, {"Z"}},
				[]string{"Predicate", "SortBy", "Skip", "Limit"})
			for _, m := range []uint64{0, 1 << 5, 1<<5 | 1<<11, 0xffff &^ (1 << c20ExplicitElemBit), 1 << c20ExplicitElemBit, 0xffff, 1 | 1<<8 | 1<<10} {
				e.line("s", m, "", tree)
			}
		}
	}
	// 2b. queries assembled through the exported API (SetPredicate, AdoptSortFields, NewAndExprNode, …)
	e.recipes(thorough)
	// 3. random compositions
	nParsed, nSynth := 700, 500
	depthP, depthS := 3, 4
	if thorough {
		nParsed, nSynth = 10000, 12000
		depthP, depthS = 4, 6
	}
	for i := 0; i < nParsed; i++ {
		q := c20JoinQuery(c20RandBool(e.r, 1+e.r.intn(depthP)), pick(e.r, c20Sorts), pick(e.r, c20Pages))
		e.parsed(q, 3+boolInt(thorough)*3, i%4 == 0)
	}
	if len(facts.Kinds) > 0 {
		for i := 0; i < nSynth; i++ {
			tree, syms := syn.randomQuery(1+e.r.intn(depthS), e.r)
			for _, m := range e.masks(syms, 2+boolInt(thorough)*2) {
				e.line("s", m, "", tree)
			}
		}
	}
}

func boolInt(b bool) int {
	if b {
		return 1
	}
	return 0
}

// --------------------------------------------------------------------------------------- exec

type c20ParseMemo struct {
	text    string
	q       ast.Query
	err     error
	untyped string
	symtab  string
}

var c20LastParse c20ParseMemo

func c20Exec(line string) string {
	c20RegisterDerived()
	f := fields(line)
	if len(f) < 6 {
		return "bad-case"
	}
	tag := f[0]
	schema, chain, ok := c20ParseCfg(f[1])
	if !ok {
		return "bad-case"
	}
	st := c20StoreForCfg(schema, chain)
	if ms, ps := st.cfgFields(); ps != f[3] || ms != f[2] {
		return "cfg-mismatch " + ps
	}
	toks := f[5:]
	var srcToks, tabToks []string
	for i, t := range toks {
		if t == "//" {
			srcToks = toks[i+1:]
			toks = toks[:i]
			break
		}
	}
	for i, t := range srcToks {
		if t == "//" {
			tabToks = srcToks[i+1:]
			srcToks = srcToks[:i]
			break
		}
	}
	if tag == "a" { // `// X … // G …`: the expectation, read by the specification only
		srcToks, tabToks = nil, nil
	}
	var root ast.Node
	switch tag {
	case "p":
		text, err := c20UnName(f[4])
		if err != nil {
			return "bad-case"
		}
		// the same text comes with many assignments in a row; parsing does not depend on which
		// symbols are public (only on their types), so the parse of the previous line is reused
		memoKey := f[4]
		if schema != 0 && len(chain) > 1 { // a child of a keyed store knows its maps by other names (and types)
			memoKey = fmt.Sprintf("k%d^:%s", schema, f[4])
		}
		if c20LastParse.text != memoKey || c20LastParse.q == nil {
			c20LastParse = c20ParseMemo{text: memoKey}
			q, err := c20SafeParse(st.a, text)
			c20LastParse.q, c20LastParse.err = q, err
			if err == nil && text != "" {
				if n, uerr := c20UntypedTree(text); uerr == nil {
					ut, ustrs, _ := c20WalkNode(n, nil)
					c20LastParse.untyped = strings.Join(ut, " ")
					c20LastParse.symtab = strings.Join(c20SymTabFor(st.a, ut, ustrs), " ")
				} else {
					c20LastParse.untyped = "parse-error"
				}
			}
		}
		if c20LastParse.err == errC20ParsePanic {
			return "panic"
		}
		if c20LastParse.err != nil {
			return "parse-error"
		}
		root = c20LastParse.q
		if srcToks != nil && c20LastParse.untyped != strings.Join(srcToks, " ") {
			return "tree-changed"
		}
		if tabToks != nil && c20LastParse.symtab != strings.Join(tabToks, " ") {
			return "symtab-changed"
		}
	case "u":
		text, err := c20UnName(f[4])
		if err != nil {
			return "bad-case"
		}
		n, err := c20UntypedTree(text)
		if err != nil {
			return "parse-error"
		}
		root = n
	case "a":
		recipe, err := c20UnName(f[4])
		if err != nil {
			return "bad-case"
		}
		q, err := c20RunRecipe(st, recipe)
		if err != nil {
			return "unbuildable " + strings.ReplaceAll(err.Error(), " ", "_")
		}
		root = q
	case "s":
		pos := 0
		v, err := c20Build(toks, &pos)
		if err != nil {
			return "unbuildable " + strings.ReplaceAll(err.Error(), " ", "_")
		}
		if !v.IsValid() || pos != len(toks) {
			return "bad-case"
		}
		n, ok := v.Interface().(ast.Node)
		if !ok {
			return "not-a-node"
		}
		root = n
	default:
		return "bad-case"
	}
	got, _, werr := c20WalkNode(root, nil)
	if werr != "" {
		return strings.ReplaceAll(werr, " ", "_")
	}
	if strings.Join(got, " ") != strings.Join(toks, " ") {
		return "tree-changed"
	}
	// the traversal, as a visitor sees it
	rec := &c20Recorder{}
	panicked := func() (p bool) {
		defer func() {
			if r := recover(); r != nil {
				p = true
			}
		}()
		root.Accept(rec)
		return false
	}()
	if tag == "u" {
		if panicked {
			return "panic"
		}
		return "- v=" + c20Names(rec.syms)
	}
	query, ok := root.(ast.Query)
	if !ok {
		return "not-a-query"
	}
	var verr error
	vpanic := func() (p bool) {
		defer func() {
			if r := recover(); r != nil {
				p = true
			}
		}()
		verr = boltz.ValidateSymbolsArePublic(query, st.a)
		return false
	}()
	// if validation returns although the traversal (recording visitor) dereferences nil, its verdict is reported with
	// what was visited up to that point: the specification then judges "returned without having seen every symbol"
	if vpanic {
		return "panic"
	}
	api := c20ApiObservations(query, toks)
	if verr == nil {
		return "ok v=" + c20Names(rec.syms) + api
	}
	if use, ok := verr.(ast.UnknownSymbolError); ok {
		return "err " + c20Name(use.Symbol) + " v=" + c20Names(rec.syms) + api
	}
	return "err-other v=" + c20Names(rec.syms) + api
}
