package main

// C06 — a committed delete leaves no trace of the entity's id.
//
// Universe (exported API only), base path ["u"]:
//
//	store A "things"                                   store B "owners"
//	  name   string   unique index (non-nullable)         label   *string  unique index (nullable)
//	  alias  *string  unique index (nullable)             things  back-references of A.owner (fk index)
//	  roles  []string set index                           members link collection B.members <-> A.groups
//	  owner  *string  nullable fk index -> B.things
//	  dep    *string  nullable fk constraint -> B, cascade delete (deleting the owner deletes its dependants)
//	  chief  *string  nullable fk constraint -> A itself, RESTRICT (CascadeNone): an entity that some chief field names - its own
//	                  included - cannot be deleted; registered before boss, so the check runs before any cascade
//	  boss   *string  nullable fk constraint -> A itself, cascade delete (deleting an entity deletes its transitive
//	                  referrers; self references and longer cycles terminate since fix bda5470); registered FIRST, so the
//	                  cascade runs before the entity's own index entries are removed
//	  groups []string link collection A.groups <-> B.members
//	  peers           link collection of A WITH ITSELF through one symbol (AddLinkCollection(peers, peers)); Add/Remove/SetLinks
//	  mentors         link collection of A with itself through two symbols  A.mentors <-> A.mentees; SetLinks
//	  rcB             ref-counted link collection A.rcB <-> B.rcA (IncrementLinkCount / DecrementLinkCount / SetLinkCount)
//	store A1: plain child of A (entity path ["ext1"]): code string, own unique index (non-nullable),
//	          pals []string link collection OWNED BY THE CHILD STORE  A1.pals <-> B.palsOf
//	store A2: EXTENDED child of A (entity path ["ext2"], `.Extended()`): colour string, own nullable unique index; creates,
//	          updates (parent fields + colour under one checker) and deletes through it.  Its processDeleteConstraints
//	          round runs for every parent entity (FindById of an extended store falls back to the parent's bucket).
//
// Case line:   h <vals> <tx>|<tx>|...        (same framing as C03)   or   h1 <vals> <tx>|...
//
//	h : every field's symbol name = stored key = name in the caller's FieldChecker
//	h2: the TYPED variant: the unique indexes are over NON-STRING symbols - alias int64 (nullable unique), code (A1) int32
//	    (unique), colour (A2) float64 (nullable unique), label (B) int32 (nullable unique).  A case's value v of such a field is
//	    the number whose little-endian digits are v (SetInt64 / SetInt32 / SetFloat64(Float64frombits)), so the raw stored bytes
//	    - and the index key - are v zero-padded to 8 / 4 / 8 / 4 bytes (an empty v is the number 0, NOT an empty value)
//	h1: the naming variant  name: symbol "title", key "nm", checker name "displayName" (AddSymbolWithKey + WithFieldOverrides);
//	    alias: symbol "nick", key "aka", checker name "alias"; roles: checker name "roleAttributes"; colour (A2): checker name "tint"
//
//	ca:<id>:<name>:<alias>:<roles>:<owner>:<dep>:<groups>[:<boss>]       A.Create
//	ua:<id>:<name>:<alias>:<roles>:<owner>:<dep>:<groups>:<chk>[:<boss>] A.Update, <chk> = * | subset of "narodgb" | 0
//	da:<id>                                                     A.DeleteById
//	cc:<id>:<name>:<alias>:<roles>:<owner>:<dep>:<groups>:<code>:<pals>[:<boss>]   A1.Create (through the child store)
//	c2:<id>:<name>:<alias>:<roles>:<owner>:<dep>:<groups>:<colour>[:<boss>]        A2.Create (extended child store)
//	u2:<id>:<name>:<alias>:<roles>:<owner>:<dep>:<groups>:<colour>:<chk>[:<boss>]  A2.Update, <chk> also knows c = colour
//	d2:<id>                                                                        A2.DeleteById (delegates to the parent)
//	(the trailing <boss> is optional: absent = nil; it may be followed by :<chief>, optional as well; checker letter h = chief)
//	ri:<a>:<b>  rd:<a>:<b>  rs:<a>:<b>:<n>                      Increment / Decrement / SetLinkCount on A.rcB
//	pa:<id>:<keys>  pr:<id>:<keys>  ps:<id>:<keys>              AddLinks / RemoveLinks / SetLinks on A.peers
//	ms:<id>:<keys>                                              SetLinks on A.mentors
//	dc:<id>                                                     A1.DeleteById (delegates to the parent)
//	cb:<id>:<label>      ub:<id>:<label>:<chk> (* | l | 0)      db:<id>         B.Create / Update / DeleteById
//
// Output record per tx:  <res>#<dump>#<reads>#<deleted>
//
//	<deleted>  for every entity id (either store) present before a committed tx and absent after it (cascades included):
//	           <id>=<boltz.ValidateDeleted verdict>/<independent byte scan verdict>, "." when none

import (
	"bufio"
	"fmt"
	"sort"
	"strings"

	"math"

	"github.com/openziti/foundation/v2/errorz"
	"github.com/openziti/storage/ast"
	"github.com/openziti/storage/boltz"
	"go.etcd.io/bbolt"
)

func init() {
	register("c06", &propHarness{gen: c06Gen, exec: c06Exec})
}

type c06Thing struct {
	Id     string
	Name   string
	Alias  *string
	Roles  []string
	Owner  *string
	Dep    *string
	Boss   *string
	Chief  *string
	Groups []string
}

func (e *c06Thing) GetId() string         { return e.Id }
func (e *c06Thing) SetId(id string)       { e.Id = id }
func (e *c06Thing) GetEntityType() string { return "things" }

// c06Names: the three names of a field: of its symbol (last element of the index path), of the key it is stored under,
// and the one the caller's FieldChecker knows it by
type c06Names struct{ sym, key, chk string }

type c06Schema struct {
	name, alias, roles, colour c06Names
	// typed: alias int64, code int32, colour float64, label int32 (unique indexes over non-string symbols)
	typed bool
}

// c06LE: the number whose little-endian digits are the bytes of v
func c06LE(v string) uint64 {
	var n uint64
	for i := 0; i < len(v) && i < 8; i++ {
		n |= uint64(v[i]) << (8 * uint(i))
	}
	return n
}

// c06Pad: the raw stored bytes of c06LE(v) in a field n bytes wide
func c06Pad(v string, n int) []byte {
	b := make([]byte, n)
	copy(b, v)
	return b
}

// c06Unpad: the shortest v with c06LE(v) = n
func c06Unpad(n uint64) string {
	var b []byte
	for ; n != 0; n >>= 8 {
		b = append(b, byte(n))
	}
	return string(b)
}

var c06Schemas = map[string]*c06Schema{
	"h": {name: c06Names{"name", "name", "name"}, alias: c06Names{"alias", "alias", "alias"},
		roles: c06Names{"roles", "roles", "roles"}, colour: c06Names{"colour", "colour", "colour"}},
	"h1": {name: c06Names{"title", "nm", "displayName"}, alias: c06Names{"nick", "aka", "alias"},
		roles: c06Names{"roles", "roles", "roleAttributes"}, colour: c06Names{"colour", "colour", "tint"}},
	"h2": {name: c06Names{"name", "name", "name"}, alias: c06Names{"alias", "alias", "alias"},
		roles: c06Names{"roles", "roles", "roles"}, colour: c06Names{"colour", "colour", "colour"}, typed: true},
}

func c06Overrides(ctx *boltz.PersistContext, ns ...c06Names) {
	overrides := map[string]string{}
	for _, n := range ns {
		if n.chk != n.key {
			overrides[n.key] = n.chk
		}
	}
	if len(overrides) > 0 {
		ctx.WithFieldOverrides(overrides)
	}
}

type c06ThingStrategy struct{ sch *c06Schema }

func (c06ThingStrategy) NewEntity() *c06Thing { return &c06Thing{} }
func (s c06ThingStrategy) FillEntity(e *c06Thing, b *boltz.TypedBucket) {
	e.Name = b.GetStringWithDefault(s.sch.name.key, "")
	e.Alias = b.GetString(s.sch.alias.key)
	if s.sch.typed {
		e.Alias = nil
		if n := b.GetInt64(s.sch.alias.key); n != nil {
			v := c06Unpad(uint64(*n))
			e.Alias = &v
		}
	}
	e.Roles = b.GetStringList(s.sch.roles.key)
	e.Owner = b.GetString("owner")
	e.Dep = b.GetString("dep")
	e.Boss = b.GetString("boss")
	e.Chief = b.GetString("chief")
	e.Groups = b.GetStringList("groups")
}
func (s c06ThingStrategy) PersistEntity(e *c06Thing, ctx *boltz.PersistContext) {
	c06Overrides(ctx, s.sch.name, s.sch.alias, s.sch.roles)
	ctx.SetString(s.sch.name.key, e.Name)
	if s.sch.typed && e.Alias != nil {
		ctx.SetInt64(s.sch.alias.key, int64(c06LE(*e.Alias)))
	} else {
		ctx.SetStringP(s.sch.alias.key, e.Alias) // nil: the nil field, whatever the symbol's type
	}
	ctx.SetStringList(s.sch.roles.key, e.Roles)
	ctx.SetStringP("owner", e.Owner)
	ctx.SetStringP("dep", e.Dep)
	ctx.SetStringP("boss", e.Boss)
	ctx.SetStringP("chief", e.Chief)
	ctx.SetLinkedIds("groups", append([]string{}, e.Groups...))
}

type c06Ext struct {
	c06Thing
	Code string
	Pals []string
}

type c06ExtStrategy struct {
	sch    *c06Schema
	parent *boltz.BaseStore[*c06Thing]
}

func (s *c06ExtStrategy) NewEntity() *c06Ext { return &c06Ext{} }
func (s *c06ExtStrategy) FillEntity(e *c06Ext, b *boltz.TypedBucket) {
	_, err := s.parent.LoadEntity(b.Tx(), e.Id, &e.c06Thing)
	b.SetError(err)
	e.Code = b.GetStringWithDefault("code", "")
	if s.sch.typed {
		e.Code = c06Unpad(uint64(uint32(b.GetInt32WithDefault("code", 0))))
	}
	e.Pals = b.GetStringList("pals")
}
func (s *c06ExtStrategy) PersistEntity(e *c06Ext, ctx *boltz.PersistContext) {
	s.parent.GetEntityStrategy().PersistEntity(&e.c06Thing, ctx.GetParentContext())
	if s.sch.typed {
		ctx.SetInt32("code", int32(uint32(c06LE(e.Code))))
	} else {
		ctx.SetString("code", e.Code)
	}
	ctx.SetLinkedIds("pals", append([]string{}, e.Pals...))
}

type c06Ext2 struct {
	c06Thing
	Colour string
}

type c06Ext2Strategy struct {
	sch    *c06Schema
	parent *boltz.BaseStore[*c06Thing]
}

func (s *c06Ext2Strategy) NewEntity() *c06Ext2 { return &c06Ext2{} }
func (s *c06Ext2Strategy) FillEntity(e *c06Ext2, b *boltz.TypedBucket) {
	_, err := s.parent.LoadEntity(b.Tx(), e.Id, &e.c06Thing)
	b.SetError(err)
	e.Colour = b.GetStringWithDefault(s.sch.colour.key, "")
	if s.sch.typed {
		e.Colour = ""
		if x := b.GetFloat64(s.sch.colour.key); x != nil {
			e.Colour = c06Unpad(math.Float64bits(*x))
		}
	}
}
func (s *c06Ext2Strategy) PersistEntity(e *c06Ext2, ctx *boltz.PersistContext) {
	s.parent.GetEntityStrategy().PersistEntity(&e.c06Thing, ctx.GetParentContext())
	c06Overrides(ctx, s.sch.colour)
	if s.sch.typed {
		ctx.Bucket.SetFloat64(s.sch.colour.key, math.Float64frombits(c06LE(e.Colour)), ctx.FieldChecker)
	} else {
		ctx.SetString(s.sch.colour.key, e.Colour)
	}
}

type c06Owner struct {
	Id    string
	Label *string
}

func (e *c06Owner) GetId() string         { return e.Id }
func (e *c06Owner) SetId(id string)       { e.Id = id }
func (e *c06Owner) GetEntityType() string { return "owners" }

type c06OwnerStrategy struct{ sch *c06Schema }

func (c06OwnerStrategy) NewEntity() *c06Owner { return &c06Owner{} }
func (s c06OwnerStrategy) FillEntity(e *c06Owner, b *boltz.TypedBucket) {
	e.Label = b.GetString("label")
	if s.sch.typed {
		e.Label = nil
		if n := b.GetInt32("label"); n != nil {
			v := c06Unpad(uint64(uint32(*n)))
			e.Label = &v
		}
	}
}
func (s c06OwnerStrategy) PersistEntity(e *c06Owner, ctx *boltz.PersistContext) {
	if s.sch.typed && e.Label != nil {
		ctx.SetInt32("label", int32(uint32(c06LE(*e.Label))))
	} else {
		ctx.SetStringP("label", e.Label)
	}
}

type c06Stores struct {
	sch    *c06Schema
	things *boltz.BaseStore[*c06Thing]
	ext    *boltz.BaseStore[*c06Ext]
	ext2   *boltz.BaseStore[*c06Ext2]
	owners *boltz.BaseStore[*c06Owner]

	idxName, idxAlias, idxCode, idxLabel, idxColour boltz.ReadIndex
	idxRoles                             boltz.SetReadIndex
	groups, members                      boltz.LinkCollection
	rcAB                                 boltz.RefCountedLinkCollection
	peers, mentors                       boltz.LinkCollection
}

func c06Wire(sch *c06Schema) *c06Stores {
	s := &c06Stores{sch: sch}
	tyAlias, tyCode, tyColour, tyLabel := ast.NodeTypeString, ast.NodeTypeString, ast.NodeTypeString, ast.NodeTypeString
	if sch.typed {
		tyAlias, tyCode, tyColour, tyLabel = ast.NodeTypeInt64, ast.NodeTypeInt64, ast.NodeTypeFloat64, ast.NodeTypeInt64
	}
	s.things = boltz.NewBaseStore(boltz.StoreDefinition[*c06Thing]{
		EntityType: "things", EntityStrategy: c06ThingStrategy{sch: sch}, BasePath: []string{"u"},
		EntityNotFoundF: func(id string) error { return boltz.NewNotFoundError("thing", "id", id) },
	})
	s.things.InitImpl(s.things)
	s.owners = boltz.NewBaseStore(boltz.StoreDefinition[*c06Owner]{
		EntityType: "owners", EntityStrategy: c06OwnerStrategy{sch: sch}, BasePath: []string{"u"},
		EntityNotFoundF: func(id string) error { return boltz.NewNotFoundError("owner", "id", id) },
	})
	s.owners.InitImpl(s.owners)
	s.ext = boltz.NewBaseStore(boltz.StoreDefinition[*c06Ext]{
		EntityStrategy: &c06ExtStrategy{sch: sch, parent: s.things}, BasePath: []string{"ext1"}, Parent: s.things,
		ParentMapper: func(e boltz.Entity) boltz.Entity {
			if x, ok := e.(*c06Ext); ok {
				return &x.c06Thing
			}
			return e
		},
		EntityNotFoundF: func(id string) error { return boltz.NewNotFoundError("thing", "id", id) },
	})
	s.ext.InitImpl(s.ext)
	s.ext2 = boltz.NewBaseStore(boltz.StoreDefinition[*c06Ext2]{
		EntityStrategy: &c06Ext2Strategy{sch: sch, parent: s.things}, BasePath: []string{"ext2"}, Parent: s.things,
		ParentMapper: func(e boltz.Entity) boltz.Entity {
			if x, ok := e.(*c06Ext2); ok {
				return &x.c06Thing
			}
			return e
		},
		EntityNotFoundF: func(id string) error { return boltz.NewNotFoundError("thing", "id", id) },
	}).Extended()
	s.ext2.InitImpl(s.ext2)
	// the child store takes part in parent deletes; updates through the parent store stay with the parent
	s.things.RegisterChildStoreStrategy(&boltz.ChildStoreUpdateHandler[*c06Thing, *c06Ext]{
		Store:  s.ext,
		Mapper: func(boltz.MutateContext, *c06Thing) (*c06Ext, bool) { return nil, false },
	})
	s.things.RegisterChildStoreStrategy(&boltz.ChildStoreUpdateHandler[*c06Thing, *c06Ext2]{
		Store:  s.ext2,
		Mapper: func(boltz.MutateContext, *c06Thing) (*c06Ext2, bool) { return nil, false },
	})

	// owners: label first, so that the fk delete constraint is registered after it
	s.owners.AddIdSymbol("id", ast.NodeTypeString)
	symLabel := s.owners.AddSymbol("label", tyLabel)
	s.idxLabel = s.owners.AddNullableUniqueIndex(symLabel)
	symThings := s.owners.AddFkSetSymbol("things", s.things)
	symMembers := s.owners.AddFkSetSymbol("members", s.things)

	s.things.AddIdSymbol("id", ast.NodeTypeString)
	// the restricting self reference comes first of all: its check refuses a delete before anything is cascaded
	symChief := s.things.AddFkSymbol("chief", s.things)
	s.things.AddFkConstraint(symChief, true, boltz.CascadeNone)
	// the cascading self reference: fk constraint, then (same store) its cascading delete constraint
	symBoss := s.things.AddFkSymbol("boss", s.things)
	s.things.AddFkConstraint(symBoss, true, boltz.CascadeDelete)
	symName := s.things.AddSymbolWithKey(sch.name.sym, ast.NodeTypeString, sch.name.key)
	s.idxName = s.things.AddUniqueIndex(symName)
	symAlias := s.things.AddSymbolWithKey(sch.alias.sym, tyAlias, sch.alias.key)
	s.idxAlias = s.things.AddNullableUniqueIndex(symAlias)
	symRoles := s.things.AddSetSymbol(sch.roles.sym, ast.NodeTypeString)
	s.idxRoles = s.things.AddSetIndex(symRoles)
	symOwner := s.things.AddFkSymbol("owner", s.owners)
	s.things.AddNullableFkIndex(symOwner, symThings)
	symDep := s.things.AddFkSymbol("dep", s.owners)
	s.things.AddFkConstraint(symDep, true, boltz.CascadeDelete)
	symGroups := s.things.AddFkSetSymbol("groups", s.owners)
	s.groups = s.things.AddLinkCollection(symGroups, symMembers)
	s.members = s.owners.AddLinkCollection(symMembers, symGroups)
	symRcB := s.things.AddFkSetSymbol("rcB", s.owners)
	symRcA := s.owners.AddFkSetSymbol("rcA", s.things)
	s.rcAB = s.things.AddRefCountedLinkCollection(symRcB, symRcA)
	s.owners.AddRefCountedLinkCollection(symRcA, symRcB)

	// store A linked with itself: through one symbol, and through two
	symPeers := s.things.AddFkSetSymbol("peers", s.things)
	s.peers = s.things.AddLinkCollection(symPeers, symPeers)
	symMentors := s.things.AddFkSetSymbol("mentors", s.things)
	symMentees := s.things.AddFkSetSymbol("mentees", s.things)
	s.mentors = s.things.AddLinkCollection(symMentors, symMentees)
	s.things.AddLinkCollection(symMentees, symMentors)

	s.things.GrantSymbols(s.ext)
	symCode := s.ext.AddSymbol("code", tyCode)
	s.idxCode = s.ext.AddUniqueIndex(symCode)
	// a link collection declared on the child store
	symPals := s.ext.AddFkSetSymbol("pals", s.owners)
	symPalsOf := s.owners.AddFkSetSymbol("palsOf", s.ext)
	s.ext.AddLinkCollection(symPals, symPalsOf)
	s.owners.AddLinkCollection(symPalsOf, symPals)

	s.things.GrantSymbols(s.ext2)
	symColour := s.ext2.AddSymbolWithKey(sch.colour.sym, tyColour, sch.colour.key)
	s.idxColour = s.ext2.AddNullableUniqueIndex(symColour)
	return s
}

type c06Op struct {
	kind   string
	id     string
	name   string
	alias  *string
	roles  []string
	owner  *string
	dep    *string
	boss   *string
	chief  *string
	groups []string
	code   string
	pals   []string
	colour string
	label  *string
	chk    string
	other  string // second id of the ref-counted link operations
	count  int
	// shadow only: which child stores hold data for the entity
	hasExt1, hasExt2 bool
}

func c06ParseOp(s string) c06Op {
	f := strings.Split(s, ":")
	op := c06Op{kind: f[0], id: fromWire(f[1])}
	switch op.kind {
	case "ca", "ua", "cc", "c2", "u2":
		op.name = fromWire(f[2])
		op.alias = csParseOpt(f[3])
		op.roles = csParseList(f[4])
		op.owner = csParseOpt(f[5])
		op.dep = csParseOpt(f[6])
		op.groups = csParseList(f[7])
		nf := 8
		if op.kind == "ua" {
			op.chk = f[8]
			nf = 9
		}
		if op.kind == "cc" {
			op.code = fromWire(f[8])
			op.pals = csParseList(f[9])
			nf = 10
		}
		if op.kind == "c2" {
			op.colour = fromWire(f[8])
			nf = 9
		}
		if op.kind == "u2" {
			op.colour = fromWire(f[8])
			op.chk = f[9]
			nf = 10
		}
		if len(f) > nf {
			op.boss = csParseOpt(f[nf])
		}
		if len(f) > nf+1 {
			op.chief = csParseOpt(f[nf+1])
		}
	case "cb":
		op.label = csParseOpt(f[2])
	case "ub":
		op.label = csParseOpt(f[2])
		op.chk = f[3]
	case "pa", "pr", "ps", "ms":
		op.groups = csParseList(f[2])
	case "ri", "rd":
		op.other = fromWire(f[2])
	case "rs":
		op.other = fromWire(f[2])
		fmt.Sscanf(f[3], "%d", &op.count)
	}
	return op
}

func c06FmtOp(op c06Op) string {
	base := func() string {
		return fmt.Sprintf("%s:%s:%s:%s:%s:%s:%s:%s", op.kind, toWire(op.id), toWire(op.name), csOpt(op.alias), csList(op.roles),
			csOpt(op.owner), csOpt(op.dep), csList(op.groups))
	}
	boss := ""
	if op.boss != nil || op.chief != nil {
		boss = ":" + csOpt(op.boss)
	}
	if op.chief != nil {
		boss += ":" + csOpt(op.chief)
	}
	switch op.kind {
	case "ca":
		return base() + boss
	case "ua":
		return base() + ":" + op.chk + boss
	case "cc":
		return base() + ":" + toWire(op.code) + ":" + csList(op.pals) + boss
	case "c2":
		return base() + ":" + toWire(op.colour) + boss
	case "u2":
		return base() + ":" + toWire(op.colour) + ":" + op.chk + boss
	case "cb":
		return fmt.Sprintf("cb:%s:%s", toWire(op.id), csOpt(op.label))
	case "ub":
		return fmt.Sprintf("ub:%s:%s:%s", toWire(op.id), csOpt(op.label), op.chk)
	case "pa", "pr", "ps", "ms":
		return fmt.Sprintf("%s:%s:%s", op.kind, toWire(op.id), csList(op.groups))
	case "ri", "rd":
		return fmt.Sprintf("%s:%s:%s", op.kind, toWire(op.id), toWire(op.other))
	case "rs":
		return fmt.Sprintf("rs:%s:%s:%d", toWire(op.id), toWire(op.other), op.count)
	}
	return op.kind + ":" + toWire(op.id)
}

func c06Checker(chk string, names map[byte]string) boltz.FieldChecker {
	if chk == "*" {
		return nil
	}
	m := boltz.MapFieldChecker{}
	for i := 0; i < len(chk); i++ {
		if n, ok := names[chk[i]]; ok {
			m[n] = struct{}{}
		}
	}
	return m
}

func (s *c06Stores) aFields() map[byte]string {
	return map[byte]string{'n': s.sch.name.chk, 'a': s.sch.alias.chk, 'r': s.sch.roles.chk, 'o': "owner", 'd': "dep", 'g': "groups",
		'b': "boss", 'c': s.sch.colour.chk, 'h': "chief"}
}
var c06BFields = map[byte]string{'l': "label"}

func (s *c06Stores) thing(op c06Op) *c06Thing {
	return &c06Thing{Id: op.id, Name: op.name, Alias: op.alias, Roles: append([]string{}, op.roles...), Owner: op.owner,
		Dep: op.dep, Boss: op.boss, Chief: op.chief, Groups: append([]string{}, op.groups...)}
}

func (s *c06Stores) apply(ctx boltz.MutateContext, op c06Op) error {
	switch op.kind {
	case "ca":
		return s.things.Create(ctx, s.thing(op))
	case "ua":
		return s.things.Update(ctx, s.thing(op), c06Checker(op.chk, s.aFields()))
	case "da":
		return s.things.DeleteById(ctx, op.id)
	case "cc":
		return s.ext.Create(ctx, &c06Ext{c06Thing: *s.thing(op), Code: op.code, Pals: append([]string{}, op.pals...)})
	case "dc":
		return s.ext.DeleteById(ctx, op.id)
	case "c2":
		return s.ext2.Create(ctx, &c06Ext2{c06Thing: *s.thing(op), Colour: op.colour})
	case "u2":
		return s.ext2.Update(ctx, &c06Ext2{c06Thing: *s.thing(op), Colour: op.colour}, c06Checker(op.chk, s.aFields()))
	case "d2":
		return s.ext2.DeleteById(ctx, op.id)
	case "cb":
		return s.owners.Create(ctx, &c06Owner{Id: op.id, Label: op.label})
	case "ub":
		return s.owners.Update(ctx, &c06Owner{Id: op.id, Label: op.label}, c06Checker(op.chk, c06BFields))
	case "db":
		return s.owners.DeleteById(ctx, op.id)
	case "pa":
		return s.peers.AddLinks(ctx.Tx(), op.id, append([]string{}, op.groups...)...)
	case "pr":
		return s.peers.RemoveLinks(ctx.Tx(), op.id, append([]string{}, op.groups...)...)
	case "ps":
		return s.peers.SetLinks(ctx.Tx(), op.id, append([]string{}, op.groups...))
	case "ms":
		return s.mentors.SetLinks(ctx.Tx(), op.id, append([]string{}, op.groups...))
	case "ri":
		_, err := s.rcAB.IncrementLinkCount(ctx.Tx(), []byte(op.id), []byte(op.other))
		return err
	case "rd":
		_, err := s.rcAB.DecrementLinkCount(ctx.Tx(), []byte(op.id), []byte(op.other))
		return err
	case "rs":
		_, _, err := s.rcAB.SetLinkCount(ctx.Tx(), []byte(op.id), []byte(op.other), op.count)
		return err
	}
	panic("bad op " + op.kind)
}

func (s *c06Stores) reads(tx *bbolt.Tx, vals []string) string {
	var b strings.Builder
	// the key an index over the field holds the value v under: the raw stored bytes
	key := func(v string, n int) []byte {
		if s.sch.typed {
			return c06Pad(v, n)
		}
		return []byte(v)
	}
	for _, v := range vals {
		fmt.Fprintf(&b, "n:%s=%s;", toWire(v), csHexOrNil(s.idxName.Read(tx, []byte(v))))
		fmt.Fprintf(&b, "a:%s=%s;", toWire(v), csHexOrNil(s.idxAlias.Read(tx, key(v, 8))))
		fmt.Fprintf(&b, "c:%s=%s;", toWire(v), csHexOrNil(s.idxCode.Read(tx, key(v, 4))))
		fmt.Fprintf(&b, "l:%s=%s;", toWire(v), csHexOrNil(s.idxLabel.Read(tx, key(v, 4))))
		fmt.Fprintf(&b, "x:%s=%s;", toWire(v), csHexOrNil(s.idxColour.Read(tx, key(v, 8))))
		var ids []string
		s.idxRoles.Read(tx, []byte(v), func(val []byte) { ids = append(ids, string(val)) })
		fmt.Fprintf(&b, "r:%s=%s;", toWire(v), csList(csSortedCopy(ids)))
	}
	var keys []string
	s.idxRoles.ReadKeys(tx, func(val []byte) { keys = append(keys, string(val)) })
	fmt.Fprintf(&b, "k=%s", csList(csSortedCopy(keys)))
	return b.String()
}

func c06Exec(line string) string {
	f := fields(line)
	if len(f) == 3 && f[0] == "g" {
		return c06dExec(f) // three-level chains of stores: c06_depth.go
	}
	if len(f) != 3 || c06Schemas[f[0]] == nil {
		return "bad-case"
	}
	vals := csParseList(f[1])
	d := csOpenDb()
	defer d.close()
	s := c06Wire(c06Schemas[f[0]])
	if err := d.db.Update(nil, func(ctx boltz.MutateContext) error {
		h := &errorz.ErrorHolderImpl{}
		s.things.InitializeIndexes(ctx.Tx(), h)
		s.ext.InitializeIndexes(ctx.Tx(), h)
		s.ext2.InitializeIndexes(ctx.Tx(), h)
		s.owners.InitializeIndexes(ctx.Tx(), h)
		return h.Err
	}); err != nil {
		return "init-failed " + err.Error()
	}
	var recs []string
	prev := ""
	live := map[string]bool{}
	for _, txs := range strings.Split(f[2], "|") {
		var ops []c06Op
		for _, o := range strings.Split(txs, ",") {
			ops = append(ops, c06ParseOp(o))
		}
		failedAt := -1
		err := d.db.Update(nil, func(ctx boltz.MutateContext) error {
			for i, op := range ops {
				if err := s.apply(ctx, op); err != nil {
					failedAt = i
					return err
				}
			}
			return nil
		})
		res := "ok"
		if err != nil {
			res = fmt.Sprintf("err:%s@%d", csErrKind(err), failedAt)
		}
		var dump, reads string
		deleted := "."
		_ = d.db.View(func(tx *bbolt.Tx) error {
			var raw []csRawLine
			dump, raw = csDump(tx)
			reads = s.reads(tx, vals)
			now := map[string]bool{}
			for _, l := range raw {
				if l.isB && len(l.path) == 2 && l.path[0] == "u" && (l.path[1] == "things" || l.path[1] == "owners") {
					now[string(l.key)] = true
				}
			}
			if err == nil {
				var parts []string
				for id := range live {
					if now[id] {
						continue
					}
					v := "ok"
					if verr := boltz.ValidateDeleted(tx, id); verr != nil {
						v = "found"
					}
					parts = append(parts, toWire(id)+"="+v+"/"+csScanFor(raw, id))
				}
				sort.Strings(parts)
				if len(parts) > 0 {
					deleted = strings.Join(parts, ",")
				}
			}
			live = now
			return nil
		})
		shown := dump
		if dump == prev {
			shown = "="
		}
		prev = dump
		recs = append(recs, res+"#"+shown+"#"+reads+"#"+deleted)
	}
	return strings.Join(recs, "|")
}

// ---------------------------------------------------------------------------------- generator

// "p" is also an id of store B: ids are per store, and a cascade must not confuse the two
var c06AIds = []string{"a", "b", "c", "d", "e", "p"}
var c06BIds = []string{"p", "q", "r"}
var c06Vals = []string{"x", "y", "zq"}
var c06RoleVals = []string{"m", "nq", "x"}
var c06ReadVals = csList([]string{"", "x", "y", "zq", "m", "nq", "a", "p"})

// c06Shadow: the generator's rough idea of which entities exist (biases choices only)
type c06Shadow struct {
	a map[string]*c06Op // last accepted create/update values
	b map[string]bool
}

func (sh *c06Shadow) clone() *c06Shadow {
	c := &c06Shadow{a: map[string]*c06Op{}, b: map[string]bool{}}
	for k, v := range sh.a {
		cp := *v
		c.a[k] = &cp
	}
	for k, v := range sh.b {
		c.b[k] = v
	}
	return c
}

func (sh *c06Shadow) nameTaken(id, name string) bool {
	for oid, e := range sh.a {
		if oid != id && e.name == name {
			return true
		}
	}
	return false
}

func (sh *c06Shadow) colourTaken(id, colour string) bool {
	if colour == "" {
		return false
	}
	for oid, e := range sh.a {
		if oid != id && e.hasExt2 && e.colour == colour {
			return true
		}
	}
	return false
}

func (sh *c06Shadow) referenced(b string) bool {
	for _, e := range sh.a {
		if e.owner != nil && *e.owner == b {
			return true
		}
	}
	return false
}

// apply: false when the shadow expects the operation to fail
func (sh *c06Shadow) apply(op c06Op) bool {
	okRefs := func(e *c06Op) bool {
		if e.owner != nil && *e.owner != "" && !sh.b[*e.owner] {
			return false
		}
		if e.dep != nil && *e.dep != "" && !sh.b[*e.dep] {
			return false
		}
		if e.boss != nil && *e.boss != "" && *e.boss != e.id && sh.a[*e.boss] == nil {
			return false
		}
		if e.chief != nil && *e.chief != "" && *e.chief != e.id && sh.a[*e.chief] == nil {
			return false
		}
		for _, g := range e.groups {
			if !sh.b[g] {
				return false
			}
		}
		if e.kind == "cc" {
			for _, g := range e.pals {
				if !sh.b[g] {
					return false
				}
			}
		}
		return e.name != "" && !sh.nameTaken(e.id, e.name)
	}
	switch op.kind {
	case "ca", "cc", "c2":
		if op.id == "" || !okRefs(&op) {
			return false
		}
		old := sh.a[op.id]
		if old != nil && (op.kind == "ca" || (op.kind == "cc" && old.hasExt1) || (op.kind == "c2" && old.hasExt2)) {
			return false
		}
		if op.kind == "c2" && sh.colourTaken(op.id, op.colour) {
			return false
		}
		cp := op
		if old != nil {
			cp.hasExt1, cp.hasExt2 = old.hasExt1, old.hasExt2
			if op.kind == "cc" {
				cp.colour = old.colour
			}
		}
		cp.hasExt1 = cp.hasExt1 || op.kind == "cc"
		cp.hasExt2 = cp.hasExt2 || op.kind == "c2"
		sh.a[op.id] = &cp
		return true
	case "ua", "u2":
		old := sh.a[op.id]
		if old == nil || (op.kind == "u2" && !old.hasExt2) {
			return false
		}
		e := *old
		all := op.chk == "*"
		if op.kind == "u2" && (all || strings.Contains(op.chk, "c")) {
			if sh.colourTaken(op.id, op.colour) {
				return false
			}
			e.colour = op.colour
		}
		if all || strings.Contains(op.chk, "n") {
			e.name = op.name
		}
		if all || strings.Contains(op.chk, "a") {
			e.alias = op.alias
		}
		if all || strings.Contains(op.chk, "r") {
			e.roles = op.roles
		}
		if all || strings.Contains(op.chk, "o") {
			e.owner = op.owner
		}
		if all || strings.Contains(op.chk, "d") {
			e.dep = op.dep
		}
		if all || strings.Contains(op.chk, "g") {
			e.groups = op.groups
		}
		if all || strings.Contains(op.chk, "b") {
			e.boss = op.boss
		}
		if all || strings.Contains(op.chk, "h") {
			e.chief = op.chief
		}
		if !okRefs(&e) {
			return false
		}
		sh.a[op.id] = &e
		return true
	case "da", "dc", "d2":
		if sh.a[op.id] == nil {
			return false
		}
		return sh.deleteA(op.id)
	case "cb":
		if op.id == "" || sh.b[op.id] {
			return false
		}
		sh.b[op.id] = true
		return true
	case "ub":
		return sh.b[op.id]
	case "db":
		if !sh.b[op.id] || sh.referenced(op.id) {
			return false
		}
		delete(sh.b, op.id)
		for aid, e := range sh.a {
			if e.dep != nil && *e.dep == op.id {
				sh.deleteA(aid) // cascade
			}
		}
		for _, e := range sh.a {
			var gs []string
			for _, g := range e.groups {
				if g != op.id {
					gs = append(gs, g)
				}
			}
			e.groups = gs
		}
		return true
	case "ri", "rd", "rs":
		return sh.a[op.id] != nil && sh.b[op.other]
	case "pa", "ps", "ms", "pr":
		if sh.a[op.id] == nil {
			return false
		}
		if op.kind != "pr" {
			for _, k := range op.groups {
				if sh.a[k] == nil {
					return false
				}
			}
		}
		return true
	}
	return false
}

// deleteA: the entity and, transitively, everything whose boss is deleted; refused (roughly) when a chief field names any of them
func (sh *c06Shadow) deleteA(id string) bool {
	gone := map[string]bool{id: true}
	for changed := true; changed; {
		changed = false
		for aid, e := range sh.a {
			if !gone[aid] && e.boss != nil && gone[*e.boss] {
				gone[aid] = true
				changed = true
			}
		}
	}
	for _, e := range sh.a {
		if e.chief != nil && gone[*e.chief] {
			return false
		}
	}
	for aid := range gone {
		delete(sh.a, aid)
	}
	return true
}

func c06PickId(r *rng, ids []string, live func(string) bool, wantLive bool) string {
	var pool []string
	for _, id := range ids {
		if live(id) == wantLive {
			pool = append(pool, id)
		}
	}
	if len(pool) == 0 || r.chance(1, 8) {
		return pick(r, ids)
	}
	return pick(r, pool)
}

func (sh *c06Shadow) genAVals(r *rng, op *c06Op, aIds []string) {
	// name: mostly free, a quarter of the time deliberately taken
	wantFree := !r.chance(1, 5)
	var pool []string
	for _, v := range c06Vals {
		if sh.nameTaken(op.id, v) != wantFree {
			pool = append(pool, v)
		}
	}
	if len(pool) == 0 {
		pool = c06Vals
	}
	op.name = pick(r, pool)
	if r.chance(1, 25) {
		op.name = ""
	}
	op.alias = csGenAlias(r, c06Vals)
	n := r.intn(3)
	op.roles = nil
	for i := 0; i < n; i++ {
		op.roles = append(op.roles, pick(r, c06RoleVals))
	}
	// owner / groups: mostly existing owners, sometimes missing ones
	bpick := func() string {
		return c06PickId(r, c06BIds, func(id string) bool { return sh.b[id] }, !r.chance(1, 25))
	}
	op.owner = nil
	switch r.intn(6) {
	case 0, 1, 2:
		v := bpick()
		op.owner = &v
	case 3:
		e := ""
		op.owner = &e
	}
	op.dep = nil
	switch r.intn(6) {
	case 0, 1:
		v := bpick()
		op.dep = &v
	case 2:
		e := ""
		op.dep = &e
	}
	// boss: half of the entities have one; mostly an existing entity (chains, and through updates cycles), sometimes
	// the entity itself, rarely a missing one or the empty string
	op.boss = nil
	var others []string
	for _, id := range aIds {
		if sh.a[id] != nil && id != op.id {
			others = append(others, id)
		}
	}
	switch k := r.intn(12); {
	case k < 5 && len(others) > 0:
		v := pick(r, others)
		if r.chance(1, 30) {
			v = pick(r, aIds)
		}
		op.boss = &v
	case k == 5:
		v := op.id
		op.boss = &v
	case k == 6 && r.chance(1, 3):
		e := ""
		op.boss = &e
	}
	// chief (restrict): a quarter of the written entities name one - another entity (sorting before or after), or themselves
	op.chief = nil
	switch k := r.intn(16); {
	case k < 3 && len(others) > 0:
		v := pick(r, others)
		if r.chance(1, 30) {
			v = pick(r, aIds)
		}
		op.chief = &v
	case k == 3:
		v := op.id
		op.chief = &v
	}
	op.groups = nil
	for i, n := 0, r.intn(3); i < n; i++ {
		op.groups = append(op.groups, bpick())
	}
	op.pals = nil
	if op.kind == "cc" {
		for i, n := 0, r.intn(3); i < n; i++ {
			op.pals = append(op.pals, bpick())
		}
	}
}

var c06AChks = []string{"*", "*", "*", "n", "a", "r", "o", "d", "g", "b", "b", "no", "rg", "od", "dg", "nb", "nar", "narodgbh", "0", "ao", "h", "h", "bh"}

var c06A2Chks = []string{"*", "*", "c", "c", "nc", "n", "rg", "ob", "narodgbch", "0", "bc", "ac", "h"}

// c06GenColour: mostly a free colour, sometimes one that is taken, sometimes the empty string (not indexed)
func c06GenColour(r *rng, sh *c06Shadow, id string) string {
	if r.chance(1, 6) {
		return ""
	}
	wantFree := !r.chance(1, 6)
	var pool []string
	for _, v := range c06Vals {
		if sh.colourTaken(id, v) != wantFree {
			pool = append(pool, v)
		}
	}
	if len(pool) == 0 {
		pool = c06Vals
	}
	return pick(r, pool)
}

// c06GenSelfLinkOp: keys mostly existing entities, the entity itself included a third of the time
func c06GenSelfLinkOp(r *rng, sh *c06Shadow, aIds []string) c06Op {
	liveA := func(id string) bool { return sh.a[id] != nil }
	op := c06Op{kind: pick(r, []string{"pa", "pa", "ps", "ps", "pr", "ms", "ms"}), id: c06PickId(r, aIds, liveA, true)}
	for i, n := 0, r.intn(4); i < n; i++ {
		op.groups = append(op.groups, c06PickId(r, aIds, liveA, !r.chance(1, 25)))
	}
	if r.chance(1, 3) {
		op.groups = append(op.groups, op.id)
	}
	return op
}

func c06GenOp(r *rng, sh *c06Shadow, aIds []string) c06Op {
	liveA := func(id string) bool { return sh.a[id] != nil }
	liveB := func(id string) bool { return sh.b[id] }
	k := r.intn(100)
	if len(sh.b) == 0 && r.chance(2, 3) {
		k = 80
	} else if len(sh.a) == 0 && r.chance(2, 3) {
		k = 0
	}
	switch {
	case k < 18: // create A (plain or through the child store)
		op := c06Op{kind: "ca", id: c06PickId(r, aIds, liveA, false)}
		if r.chance(1, 3) {
			op.kind = "cc"
			op.code = pick(r, c06Vals)
			if r.chance(1, 20) {
				op.code = ""
			}
			// a fifth of the child-store creates go over an existing plain parent (re-indexed since 8269ce9)
			if r.chance(1, 5) {
				op.id = c06PickId(r, aIds, liveA, true)
			}
		} else if r.chance(1, 3) {
			// through the extended child store; a quarter of them over an existing parent without ext2 data
			op.kind = "c2"
			op.colour = c06GenColour(r, sh, op.id)
			if r.chance(1, 4) {
				op.id = c06PickId(r, aIds, func(id string) bool { return sh.a[id] != nil && !sh.a[id].hasExt2 }, true)
			}
		}
		sh.genAVals(r, &op, aIds)
		return op
	case k >= 24 && k < 30: // links of store A with itself: peers (one symbol) and mentors (two symbols)
		return c06GenSelfLinkOp(r, sh, aIds)
	case k < 24: // ref-counted link churn: counts of 2 and more are the interesting ones
		op := c06Op{kind: "ri", id: c06PickId(r, aIds, liveA, true), other: c06PickId(r, c06BIds, liveB, !r.chance(1, 12))}
		switch r.intn(6) {
		case 0:
			op.kind = "rd"
		case 1:
			op.kind = "rs"
			op.count = r.intn(4)
		}
		return op
	case k < 52: // update / patch A
		op := c06Op{kind: "ua", id: c06PickId(r, aIds, liveA, true), chk: pick(r, c06AChks)}
		if r.chance(2, 5) {
			// update through the extended child store (needs ext2 data; a tenth of them deliberately without)
			var withExt2 []string
			for _, id := range aIds {
				if sh.a[id] != nil && sh.a[id].hasExt2 {
					withExt2 = append(withExt2, id)
				}
			}
			if len(withExt2) > 0 || r.chance(1, 6) {
				op.kind = "u2"
				if len(withExt2) > 0 && !r.chance(1, 10) {
					op.id = pick(r, withExt2)
				}
				op.chk = pick(r, c06A2Chks)
				op.colour = c06GenColour(r, sh, op.id)
			}
		}
		sh.genAVals(r, &op, aIds)
		if old := sh.a[op.id]; old != nil && r.chance(1, 5) {
			op.name, op.owner = old.name, old.owner
		}
		return op
	case k < 70: // delete A
		kind := "da"
		switch r.intn(6) {
		case 0, 1:
			kind = "dc"
		case 2:
			kind = "d2"
		}
		return c06Op{kind: kind, id: c06PickId(r, aIds, liveA, true)}
	case k < 84:
		op := c06Op{kind: "cb", id: c06PickId(r, c06BIds, liveB, false)}
		if r.chance(1, 2) {
			v := pick(r, c06Vals)
			op.label = &v
		}
		return op
	case k < 90:
		op := c06Op{kind: "ub", id: c06PickId(r, c06BIds, liveB, true), chk: pick(r, []string{"*", "l", "0"})}
		if r.chance(2, 3) {
			v := pick(r, c06Vals)
			op.label = &v
		}
		return op
	}
	return c06Op{kind: "db", id: c06PickId(r, c06BIds, liveB, true)}
}

func c06GenHistory(r *rng, nTx int) string {
	aIds := c06AIds[:3+r.intn(4)]
	sh := &c06Shadow{a: map[string]*c06Op{}, b: map[string]bool{}}
	var txs []string
	for t := 0; t < nTx; t++ {
		n := 1 + r.intn(4)
		if r.chance(1, 3) {
			n = 1
		}
		var ops []string
		work := sh.clone()
		okTx := true
		var scripted []c06Op
		if len(sh.a) >= 2 && r.chance(1, 16) {
			// one transaction: delete x, create it again as a referrer of y, delete y (the second cascade must take x)
			x := c06PickId(r, aIds, func(id string) bool { return sh.a[id] != nil }, true)
			var ys []string
			for _, id := range aIds {
				if sh.a[id] != nil && id != x {
					ys = append(ys, id)
				}
			}
			if sh.a[x] != nil && len(ys) > 0 {
				y := pick(r, ys)
				kind := "da"
				if r.chance(1, 3) {
					kind = "dc"
				}
				re := c06Op{kind: "ca", id: x}
				if r.chance(1, 4) {
					re.kind, re.code = "cc", pick(r, c06Vals)
				}
				mid := sh.clone()
				mid.deleteA(x)
				mid.genAVals(r, &re, aIds)
				re.boss = &y
				scripted = []c06Op{{kind: kind, id: x}, re, {kind: "da", id: y}}
				n = len(scripted)
			}
		}
		if scripted == nil && len(sh.a) >= 2 && r.chance(1, 12) {
			// one transaction: the entity's self-link buckets are written, then the entity is deleted
			x := c06PickId(r, aIds, func(id string) bool { return sh.a[id] != nil }, true)
			if sh.a[x] != nil {
				for i, m := 0, 1+r.intn(2); i < m; i++ {
					op := c06GenSelfLinkOp(r, sh, aIds)
					op.id = x
					if r.chance(1, 2) {
						op.groups = append(op.groups, x)
					}
					scripted = append(scripted, op)
				}
				scripted = append(scripted, c06Op{kind: pick(r, []string{"da", "da", "dc", "d2"}), id: x})
				n = len(scripted)
			}
		}
		for i := 0; i < n; i++ {
			var op c06Op
			if scripted != nil {
				op = scripted[i]
			} else {
				op = c06GenOp(r, work, aIds)
			}
			ops = append(ops, c06FmtOp(op))
			if okTx && !work.apply(op) {
				okTx = false
			}
		}
		if okTx {
			sh = work
		}
		txs = append(txs, strings.Join(ops, ","))
	}
	// histories end in a delete (in its own transaction)
	if len(sh.a) > 0 && r.chance(3, 4) {
		// half of the time an entity that somebody reports to, if there is one
		isBoss := func(id string) bool {
			for _, e := range sh.a {
				if e.boss != nil && *e.boss == id && sh.a[id] != nil {
					return true
				}
			}
			return false
		}
		target := c06PickId(r, aIds, func(id string) bool { return sh.a[id] != nil }, true)
		if r.chance(1, 2) {
			if b := c06PickId(r, aIds, isBoss, true); isBoss(b) {
				target = b
			}
		}
		txs = append(txs, "da:"+toWire(target))
	} else if len(sh.b) > 0 {
		txs = append(txs, "db:"+toWire(c06PickId(r, c06BIds, func(id string) bool { return sh.b[id] }, true)))
	}
	return strings.Join(txs, "|")
}

func c06Gen(tier string, seed uint64, out *bufio.Writer) {
	r := newRng(seed)
	n := 2200
	if tier == "thorough" {
		n = 20000
	}
	for i := 0; i < n; i++ {
		nTx := 6 + r.intn(20)
		if tier == "thorough" {
			nTx = 6 + r.intn(36)
		}
		head := "h"
		switch k := r.intn(6); {
		case k < 2:
			head = "h1" // the naming variant of the schema
		case k == 2:
			head = "h2" // the typed variant: unique indexes over int64 / int32 / float64 symbols
		}
		fmt.Fprintf(out, "%s %s %s\n", head, c06ReadVals, c06GenHistory(r, nTx))
	}
	c06dGen(tier, r, out) // three-level chains of stores (c06_depth.go)
}
