package main

// C15 — paged walks through the stores (round 10): the filter handed to IterateIds /
// IterateValidIds is a compiled ast.Query carrying `skip` / `limit`, so newFilteredCursor calls
// setPaging and uniqueIndexScanner.Next does its offset / collected accounting.
//
//	<s>/p/<filter>/<skip>/<limit>/<steps>   IterateIds(query), script of Next / Seek as for `i`
//	<s>/P/<filter>/<skip>/<limit>/<steps>   IterateValidIds(query), stores 0 and 1 (not extended)
//	<s>/Q/<filter>/<skip>/<limit>           QueryIds of the same query text: page + #count
//
// limit `-` = no limit clause.

import (
	"bufio"
	"fmt"
	"strconv"
	"strings"

	"github.com/openziti/storage/ast"
	"github.com/openziti/storage/boltz"
	"go.etcd.io/bbolt"
)

func c15PagedText(text string, skip string, limit string) (string, bool) {
	k, err := strconv.Atoi(skip)
	if err != nil || k < 0 {
		return "", false
	}
	text += " skip " + strconv.Itoa(k)
	if limit != "-" {
		l, err := strconv.Atoi(limit)
		if err != nil || l < 0 {
			return "", false
		}
		text += " limit " + strconv.Itoa(l)
	}
	return text, true
}

func (s *c15Stores) runPagedItem(tx *bbolt.Tx, store boltz.Store, sel int, text string, f []string) string {
	if len(f) < 5 {
		return "bad-item"
	}
	text, ok := c15PagedText(text, f[3], f[4])
	if !ok {
		return "bad-item"
	}
	switch f[1] {
	case "p", "P":
		if len(f) != 6 || (f[1] == "P" && sel == 2) {
			return "bad-item"
		}
		query, err := ast.Parse(store, text)
		if err != nil {
			return "err:" + toWire(err.Error())
		}
		var cursor ast.SeekableSetCursor
		if f[1] == "p" {
			cursor = store.IterateIds(tx, query)
		} else {
			cursor = store.IterateValidIds(tx, query)
		}
		out := []string{c15CurStr(cursor)}
		if f[5] != "-" {
			for _, st := range strings.Split(f[5], ".") {
				if st == "n" {
					cursor.Next()
				} else if strings.HasPrefix(st, "s") {
					k, err := strconv.Atoi(st[1:])
					if err != nil {
						return "bad-item"
					}
					cursor.Seek(c15SeekKey(k))
				} else {
					return "bad-item"
				}
				out = append(out, c15CurStr(cursor))
			}
		}
		return strings.Join(out, ".")
	case "Q":
		if len(f) != 5 {
			return "bad-item"
		}
		ids, count, err := store.QueryIds(tx, text)
		if err != nil {
			return "err:" + toWire(err.Error())
		}
		return c15Ids(ids) + "#" + strconv.Itoa(int(count))
	}
	return "bad-item"
}

// ---------------------------------------------------------------- generator

func c15NextSteps(n int) string {
	st := make([]string, n)
	for i := range st {
		st[i] = "n"
	}
	return strings.Join(st, ".")
}

func c15RandLimit(r *rng, max int) string {
	if r.chance(1, 3) {
		return "-"
	}
	return strconv.Itoa(r.intn(max + 1))
}

// paged walks over mixed populations: every population of nEx ids over the five kinds with, for
// every store, a full walk (Next only) for every skip 0..nEx and a random limit, the QueryIds of
// the same query, and a random script with seeks; then run-structured populations of 8 ids.
func c15GenPagedCases(tier string, r *rng, out *bufio.Writer) {
	nEx, nRand := 4, 200
	if tier == "thorough" {
		nEx, nRand = 5, 2500
	}
	total := 1
	for i := 0; i < nEx; i++ {
		total *= 5
	}
	for code := 0; code < total; code++ {
		kinds := make([]int, nEx)
		c := code
		for i := 0; i < nEx; i++ {
			kinds[i] = c % 5
			c /= 5
		}
		var items []string
		for sel := 0; sel < 3; sel++ {
			skip := r.intn(nEx + 1)
			limit := c15RandLimit(r, nEx)
			flt := c15RandFilter(r)
			items = append(items, fmt.Sprintf("%d/p/%s/%d/%s/%s", sel, flt, skip, limit, c15NextSteps(nEx+1)))
			items = append(items, fmt.Sprintf("%d/Q/%s/%d/%s", sel, flt, skip, limit))
			items = append(items, fmt.Sprintf("%d/p/t/%d/%s/%s", sel, 1+r.intn(2), c15RandLimit(r, nEx), c15RandSteps(r, 3+r.intn(5), nEx+1)))
			if sel < 2 {
				items = append(items, fmt.Sprintf("%d/P/%s/%d/%s/%s", sel, c15RandFilter(r), r.intn(nEx), c15RandLimit(r, nEx), c15RandSteps(r, 3+r.intn(5), nEx+1)))
			}
		}
		fmt.Fprintf(out, "k %s %s\n", c15PopulationTx(r, kinds, c15Shuffled(r, nEx)), strings.Join(items, ";"))
	}
	for n := 0; n < nRand; n++ {
		kinds := c15RunPopulation(r, c15CurIds)
		hist := c15PopulationTx(r, kinds, c15Shuffled(r, c15CurIds))
		var items []string
		for j := 0; j < 5; j++ {
			sel := pick(r, []int{0, 1, 1, 1, 2})
			kind := "p"
			if sel < 2 && r.chance(1, 3) {
				kind = "P"
			}
			skip := r.intn(5)
			limit := c15RandLimit(r, 5)
			flt := c15RandFilter(r)
			steps := c15NextSteps(c15CurIds + 1)
			if r.chance(1, 2) {
				steps = c15RandSteps(r, 3+r.intn(8), c15CurIds+1)
			}
			items = append(items, fmt.Sprintf("%d/%s/%s/%d/%s/%s", sel, kind, flt, skip, limit, steps))
			if r.chance(1, 2) {
				items = append(items, fmt.Sprintf("%d/Q/%s/%d/%s", sel, flt, skip, limit))
			}
		}
		fmt.Fprintf(out, "k %s %s\n", hist, strings.Join(items, ";"))
	}
}
