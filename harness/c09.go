package main

// C09 harness, part 2: case format, history executor, report canonicalisation, generator.
//
// Case line (space separated tokens):
//
//	<mode> @H <history op>;... @C <corruption>;... @S <state tokens>
//
//	mode  sep   every CheckIntegrity call (one store, one phase) in its own transaction
//	      tx1   the four phases for both stores inside ONE read-write transaction
//	history ops (each in its own transaction; a failing op rolls back and is ignored)
//	      cB <id> <label|~>
//	      cA <id> <name> <alias|~> <roles> <owner|~> <home> <dep|~> <req> <boss|~>     create thing
//	      uA <id> ... (same fields)                                                    update thing
//	      uB <id> <label|~>
//	      cX/uX <id> <the nine thing fields> <badge> <tag|~> <sponsor> <caps>   create / update through the EXTENDED child
//	             store things_x (on an existing thing: the thing gains extension data)
//	      cP/uP <id> <the nine thing fields> <code> <nick|~> <marks>            the same through the PLAIN child store things_p
//	      dA <id> | dB <id> | dX <id> (DeleteById through the child store things_x: deletes the whole thing)
//	      lA <id> <owner ids>   SetLinks on things.groups;   lB <id> <thing ids>  SetLinks on owners.members
//	      (lists: wire strings joined by "," ; "." = empty list)
//	corruptions: see c09Corrupt
//	state: the canonical dump after history + corruptions (c09StateDump), embedded by the generator
//	       so that the Lean model, which does not model the CRUD API, starts from the same state; the
//	       executor recomputes it and answers "state-mismatch" when it differs.
//
// Output line:
//
//	R1 <reports> | <ro1> | R2 <reports> | D2 <state> | R3 <reports> | <ro3> | R4 <reports> | <same4>
//
//	phases: 1 check-only, 2 fix, 3 check-only, 4 fix again
//	report  <class>:<idx>:<a>:<b>[:<c>]:<t|f>   (idx = store.field; values in wire form), "err" when
//	        CheckIntegrity returned an error (its transaction is rolled back in mode sep)
//	ro      "same" when the raw boltz.Traverse dump is byte-for-byte identical before and after the
//	        check-only phase, otherwise "changed D <canonical state after the phase>"
//	same4   "same" when the canonical state after phase 4 equals D2, else "differs"

import (
	"bufio"
	"fmt"
	"os"
	"regexp"
	"runtime"
	"sort"
	"strings"
	"sync"
	"sync/atomic"

	"github.com/openziti/storage/boltz"
	"go.etcd.io/bbolt"
)

func init() {
	register("c09", &propHarness{gen: c09Gen, exec: c09Exec})
}

// ------------------------------------------------------------------------------ list helpers

func c09List(xs []string) string {
	if len(xs) == 0 {
		return "."
	}
	ws := make([]string, len(xs))
	for i, x := range xs {
		ws[i] = toWire(x)
	}
	return strings.Join(ws, ",")
}

func c09ParseList(s string) []string {
	if s == "." {
		return nil
	}
	var res []string
	for _, w := range strings.Split(s, ",") {
		res = append(res, fromWire(w))
	}
	return res
}

func c09Opt(s string) *string {
	if s == "~" {
		return nil
	}
	v := fromWire(s)
	return &v
}

// --------------------------------------------------------------------------------- history

func c09Thing4(f []string) *c09Thing {
	return &c09Thing{Id: fromWire(f[1]), Name: fromWire(f[2]), Alias: c09Opt(f[3]), Roles: c09ParseList(f[4]),
		Owner: c09Opt(f[5]), Home: fromWire(f[6]), Dep: c09Opt(f[7]), Req: fromWire(f[8]), Boss: c09Opt(f[9])}
}

func c09Apply(d *c09Db, op string) (err error) {
	f := strings.Split(op, " ")
	defer func() {
		if r := recover(); r != nil {
			err = fmt.Errorf("panic: %v", r)
		}
	}()
	return d.db.Update(func(tx *bbolt.Tx) error {
		ctx := c09Ctx(tx)
		switch f[0] {
		case "cB":
			return d.st.b.Create(ctx, &c09Owner{Id: fromWire(f[1]), Label: c09Opt(f[2])})
		case "uB":
			return d.st.b.Update(ctx, &c09Owner{Id: fromWire(f[1]), Label: c09Opt(f[2])}, nil)
		case "cA":
			return d.st.a.Create(ctx, c09Thing4(f))
		case "uA":
			return d.st.a.Update(ctx, c09Thing4(f), nil)
		case "cX", "uX":
			e := &c09ThingX{c09Thing: *c09Thing4(f), Badge: fromWire(f[10]), Tag: c09Opt(f[11]), Sponsor: fromWire(f[12]),
				Caps: c09ParseList(f[13])}
			if f[0] == "cX" {
				return d.st.ax.Create(ctx, e)
			}
			return d.st.ax.Update(ctx, e, nil)
		case "cP", "uP":
			e := &c09ThingP{c09Thing: *c09Thing4(f), Code: fromWire(f[10]), Nick: c09Opt(f[11]), Marks: c09ParseList(f[12])}
			if f[0] == "cP" {
				return d.st.ap.Create(ctx, e)
			}
			return d.st.ap.Update(ctx, e, nil)
		case "dX":
			return d.st.ax.DeleteById(ctx, fromWire(f[1]))
		case "dA":
			return d.st.a.DeleteById(ctx, fromWire(f[1]))
		case "dB":
			return d.st.b.DeleteById(ctx, fromWire(f[1]))
		case "lA":
			return d.st.groups.SetLinks(tx, fromWire(f[1]), c09ParseList(f[2]))
		case "lB":
			return d.st.member.SetLinks(tx, fromWire(f[1]), c09ParseList(f[2]))
		}
		return fmt.Errorf("unknown op %s", f[0])
	})
}

// --------------------------------------------------------------------------------- reports

type c09Pat struct {
	re    *regexp.Regexp
	class string
	// build returns idx and the subject values from the submatches
	build func(m []string) (string, []string)
}

var c09Singular = map[string]string{"thing": c09Things, "owner": c09Owners}

var c09Pats = []c09Pat{
	{regexp.MustCompile(`^unique index (\S+) references (\S*) for value (\S*), which doesn't exist$`), "uqDangling",
		func(m []string) (string, []string) { return m[1], []string{m[3], m[2]} }},
	{regexp.MustCompile(`^unique index (\S+) references (\S*) for value (\S*) which should be (\S*)$`), "uqStale",
		func(m []string) (string, []string) { return m[1], []string{m[3], m[2], m[4]} }},
	{regexp.MustCompile(`^entity with id (\S*) has non-nillable unique index (\S+), but field has nil value, unable to fix$`), "uqNull",
		func(m []string) (string, []string) { return m[2], []string{m[1]} }},
	{regexp.MustCompile(`^unique index (\S+) missing value (\S*) for id (\S*)$`), "uqMissing",
		func(m []string) (string, []string) { return m[1], []string{m[2], m[3]} }},
	{regexp.MustCompile(`^unique index (\S+) has constraint violation as both (\S*) and (\S*) have value (\S*)\. Unable to fix automatically$`), "uqDup",
		func(m []string) (string, []string) { return m[1], []string{m[4], m[2], m[3]} }},
	{regexp.MustCompile(`^for index on (\S+), val (\S*) references id (\S*), which doesn't exist$`), "sxDangling",
		func(m []string) (string, []string) { return m[1], []string{m[2], m[3]} }},
	{regexp.MustCompile(`^for index on (\S+), val (\S*) references id (\S*), which doesn't contain the value$`), "sxStale",
		func(m []string) (string, []string) { return m[1], []string{m[2], m[3]} }},
	{regexp.MustCompile(`^for index on (\S+), index value (\S*) has no referenced values$`), "sxEmpty",
		func(m []string) (string, []string) { return m[1], []string{m[2]} }},
	{regexp.MustCompile(`^for index on (\S+), index key (\S*) is not a value bucket$`), "sxJunk",
		func(m []string) (string, []string) { return m[1], []string{m[2]} }},
	{regexp.MustCompile(`^for index on (\S+), id (\S*) has val (\S*), but is not in the index$`), "sxMissing",
		func(m []string) (string, []string) { return m[1], []string{m[3], m[2]} }},
	{regexp.MustCompile(`^for fk (\S+), (\S+) (\S*) references (\S+) (\S*), which doesn't exist$`), "fkBackDangling",
		func(m []string) (string, []string) { return m[1], []string{m[3], m[5]} }},
	{regexp.MustCompile(`^for fk (\S+), (\S+) (\S*) references (\S+) (\S*), which has non-matching value (\S*)$`), "fkBackStale",
		func(m []string) (string, []string) { return m[1], []string{m[3], m[5], m[6]} }},
	{regexp.MustCompile(`^(\S+) is non-nillable, but (\S+) with id (\S*) has nil value$`), "fkNull",
		func(m []string) (string, []string) { return m[1], []string{m[3]} }},
	{regexp.MustCompile(`^(\S+) has invalid value for (\S+) (\S*), which references invalid (\S+) (\S*)$`), "fkDangling",
		func(m []string) (string, []string) { return m[1], []string{m[3], m[5]} }},
	{regexp.MustCompile(`^for (\S+) (\S*) field (\S+) references (\S+) (\S*), but no back-reference exists$`), "fkBackMissing",
		func(m []string) (string, []string) { return c09Singular[m[1]] + "." + m[3], []string{m[2], m[5]} }},
	{regexp.MustCompile(`^(\S+) (\S*) references (\S+) (\S*), which doesn't exist$`), "lkDangling",
		func(m []string) (string, []string) { return c09Singular[m[1]], []string{m[2], m[4]} }},
	{regexp.MustCompile(`^(\S+) (\S*) references (\S+) (\S*), but reverse link is missing$`), "lkOneSided",
		func(m []string) (string, []string) { return c09Singular[m[1]], []string{m[2], m[4]} }},
	{regexp.MustCompile(`^(\S+) store has link collection .* but no inverse collection found in`), "lkNoInverse",
		func(m []string) (string, []string) { return m[1], nil }},
}

func c09Classify(msg string, fixed bool) string {
	fl := "f"
	if fixed {
		fl = "t"
	}
	for _, p := range c09Pats {
		if m := p.re.FindStringSubmatch(msg); m != nil {
			idx, subj := p.build(m)
			// the code names a child store's index by the parent's entity type; the model by the child store
			parts := []string{p.class, c09ModelIdx(idx)}
			for _, s := range subj {
				if s == "(nil)" {
					parts = append(parts, "~")
				} else {
					parts = append(parts, toWire(s))
				}
			}
			parts = append(parts, fl)
			return strings.Join(parts, ":")
		}
	}
	return "unknown:" + toWire(msg) + ":" + fl
}

// ------------------------------------------------------------------------------------ exec

type c09Case struct {
	mode    string
	history []string
	corrupt []string
	state   string
}

func c09Parse(line string) (*c09Case, bool) {
	iH := strings.Index(line, " @H")
	iC := strings.Index(line, " @C")
	iS := strings.Index(line, " @S")
	if iH < 0 || iC < iH || iS < iC {
		return nil, false
	}
	split := func(s string) []string {
		s = strings.TrimSpace(s)
		if s == "" {
			return nil
		}
		var res []string
		for _, p := range strings.Split(s, ";") {
			if p = strings.TrimSpace(p); p != "" {
				res = append(res, p)
			}
		}
		return res
	}
	return &c09Case{mode: line[:iH], history: split(line[iH+3 : iC]), corrupt: split(line[iC+3 : iS]),
		state: strings.TrimSpace(line[iS+3:])}, true
}

// c09Prepare runs history and corruptions on a fresh database and returns it with the canonical state.
func c09Prepare(history, corrupt []string) (*c09Db, string) {
	d := c09Open()
	for _, op := range history {
		if err := c09Apply(d, op); err != nil && os.Getenv("C09_DEBUG") != "" {
			fmt.Fprintln(os.Stderr, "op failed:", op, err)
		}
	}
	if len(corrupt) > 0 {
		err := d.db.Update(func(tx *bbolt.Tx) error {
			for _, c := range corrupt {
				if err := c09Corrupt(tx, strings.Split(c, " ")); err != nil {
					return err
				}
			}
			return nil
		})
		if err != nil {
			d.close()
			panic(err)
		}
	}
	var st string
	_ = d.db.View(func(tx *bbolt.Tx) error {
		st = c09StateDump(tx)
		return nil
	})
	return d, st
}

func c09CheckStore(tx *bbolt.Tx, store boltz.Store, fix bool, out *[]string) error {
	err := store.CheckIntegrity(c09Ctx(tx), fix, func(err error, fixed bool) {
		*out = append(*out, c09Classify(err.Error(), fixed))
	})
	if err != nil {
		*out = append(*out, "err")
	}
	return err
}

func c09Reports(r []string) string {
	if len(r) == 0 {
		return "."
	}
	return strings.Join(r, " ")
}

func c09Exec(line string) string {
	c, ok := c09Parse(line)
	if !ok {
		return "bad-case"
	}
	if strings.HasPrefix(c.mode, "N:") {
		// a schema of the naming / declaring-store family, carried by the case (c09_naming.go)
		return c09nExec(c)
	}
	d, st := c09Prepare(c.history, c.corrupt)
	defer d.close()
	if st != c.state {
		return "state-mismatch " + st
	}
	stores := d.st.all()
	var parts []string
	var d2 string
	if c.mode == "tx1r" {
		stores = []boltz.Store{d.st.b, d.st.ap, d.st.ax, d.st.a}
	}
	if c.mode == "tx1" || c.mode == "tx1r" {
		_ = d.db.Update(func(tx *bbolt.Tx) error {
			for phase := 1; phase <= 4; phase++ {
				fix := phase%2 == 0
				var before string
				if !fix {
					before = c09RawDump(tx)
				}
				var rep []string
				for _, s := range stores {
					_ = c09CheckStore(tx, s, fix, &rep)
				}
				parts = append(parts, fmt.Sprintf("R%d %s", phase, c09Reports(rep)))
				switch phase {
				case 1, 3:
					after := c09RawDump(tx)
					if after == before {
						parts = append(parts, "same")
					} else {
						parts = append(parts, "changed D "+c09StateDump(tx))
					}
				case 2:
					d2 = c09StateDump(tx)
					parts = append(parts, "D2 "+d2)
				case 4:
					if c09StateDump(tx) == d2 {
						parts = append(parts, "same")
					} else {
						parts = append(parts, "differs")
					}
				}
			}
			return nil
		})
		return strings.Join(parts, " | ")
	}
	raw := func() string {
		var s string
		_ = d.db.View(func(tx *bbolt.Tx) error { s = c09RawDump(tx); return nil })
		return s
	}
	canon := func() string {
		var s string
		_ = d.db.View(func(tx *bbolt.Tx) error { s = c09StateDump(tx); return nil })
		return s
	}
	for phase := 1; phase <= 4; phase++ {
		fix := phase%2 == 0
		var before string
		if !fix {
			before = raw()
		}
		var rep []string
		for _, s := range stores {
			s := s
			_ = d.db.Update(func(tx *bbolt.Tx) error { return c09CheckStore(tx, s, fix, &rep) })
		}
		parts = append(parts, fmt.Sprintf("R%d %s", phase, c09Reports(rep)))
		switch phase {
		case 1, 3:
			after := raw()
			if after == before {
				parts = append(parts, "same")
			} else {
				parts = append(parts, "changed D "+canon())
			}
		case 2:
			d2 = canon()
			parts = append(parts, "D2 "+d2)
		case 4:
			if canon() == d2 {
				parts = append(parts, "same")
			} else {
				parts = append(parts, "differs")
			}
		}
	}
	return strings.Join(parts, " | ")
}

// ------------------------------------------------------------------------------------- gen

// a1/a11 and b1/b11 are in a strict prefix relation: a presence probe that matches a prefix is caught
var c09AIds = []string{"a1", "a2", "a3", "a11"}
var c09BIds = []string{"b1", "b2", "b3", "b11"}
var c09GhostA = "a9"
var c09GhostB = "b9"
var c09Names = []string{"n1", "n2", "n3", "n4", "n5"}
var c09Aliases = []string{"x1", "x2", "x3"}
var c09Roles = []string{"r1", "r2", "r3", "r11"}
var c09Labels = []string{"l1", "l2", "l3"}

// values of the child stores' fields
var c09Badges = []string{"g1", "g2", "g3", "g4"}
var c09Tags = []string{"t1", "t2"}
var c09Caps = []string{"c1", "c2", "c11"}
var c09Codes = []string{"k1", "k2", "k3", "k4"}
var c09Nicks = []string{"q1", "q2"}
var c09Marks = []string{"m1", "m2"}

func c09OptPick(r *rng, pool []string, nilNum, den int) string {
	if r.chance(nilNum, den) {
		return "~"
	}
	return toWire(pick(r, pool))
}

func c09Subset(r *rng, pool []string) []string {
	var res []string
	for _, p := range pool {
		if r.chance(1, 3) {
			res = append(res, p)
		}
	}
	return res
}

type c09GenState struct {
	liveA, liveB map[string]bool
}

func (g *c09GenState) pickB(r *rng) string {
	var live []string
	for _, b := range c09BIds {
		if g.liveB[b] {
			live = append(live, b)
		}
	}
	if len(live) == 0 || r.chance(1, 12) {
		return pick(r, c09BIds)
	}
	return pick(r, live)
}

func (g *c09GenState) pickA(r *rng) string {
	var live []string
	for _, a := range c09AIds {
		if g.liveA[a] {
			live = append(live, a)
		}
	}
	if len(live) == 0 || r.chance(1, 8) {
		return pick(r, c09AIds)
	}
	return pick(r, live)
}

func (g *c09GenState) thingOp(r *rng, kind, id string, emptyAlias bool) string {
	alias := c09OptPick(r, c09Aliases, 1, 3)
	if emptyAlias && r.chance(1, 4) {
		alias = "-"
	}
	boss := "~"
	if r.chance(1, 3) {
		boss = toWire(g.pickA(r))
	}
	owner, dep := "~", "~"
	if r.chance(2, 3) {
		owner = toWire(g.pickB(r))
	}
	if r.chance(1, 2) {
		dep = toWire(g.pickB(r))
	}
	roles := c09Subset(r, c09Roles)
	if emptyAlias {
		// the EMPTY STRING in every nullable referencing field: create / update accept it as "no reference"
		// (GetTypeAndValue yields a nil value for it); an empty list element is refused by the index and fails the op
		if r.chance(1, 4) {
			owner = "-"
		}
		if r.chance(1, 4) {
			dep = "-"
		}
		if r.chance(1, 4) {
			boss = "-"
		}
		if r.chance(1, 12) {
			roles = append(roles, "")
		}
	}
	name := pick(r, c09Names)
	if r.chance(2, 3) {
		// mostly a name derived from the id, so that creations rarely collide
		name = "n" + id[1:]
	}
	op := fmt.Sprintf("%s %s %s %s %s %s %s %s %s %s", kind, toWire(id), toWire(name), alias,
		c09List(roles), owner, toWire(g.pickB(r)), dep, toWire(g.pickB(r)), boss)
	optE := func(pool []string) string {
		if emptyAlias && r.chance(1, 4) {
			return "-"
		}
		return c09OptPick(r, pool, 1, 2)
	}
	switch kind {
	case "cX", "uX":
		// through the extended child store: badge (mostly derived from the id, so that creations rarely collide),
		// tag, sponsor, caps
		badge := pick(r, c09Badges)
		if r.chance(2, 3) {
			badge = "g" + id[1:]
		}
		op += fmt.Sprintf(" %s %s %s %s", toWire(badge), optE(c09Tags), toWire(g.pickB(r)),
			c09List(c09Subset(r, c09Caps)))
	case "cP", "uP":
		code := pick(r, c09Codes)
		if r.chance(2, 3) {
			code = "k" + id[1:]
		}
		op += fmt.Sprintf(" %s %s %s", toWire(code), optE(c09Nicks), c09List(c09Subset(r, c09Marks)))
	}
	return op
}

// which store a thing is created / updated through: the parent (the thing stays or becomes parent-only data plus
// whatever child data it has), the extended or the plain child store
func c09ThingKind(r *rng, verb string) string {
	switch k := r.intn(10); {
	case k < 4:
		return verb + "A"
	case k < 7:
		return verb + "X"
	default:
		return verb + "P"
	}
}

func c09GenHistory(r *rng, n int, emptyAlias bool) []string {
	var h []string
	labelE := func() string {
		if emptyAlias && r.chance(1, 4) {
			return "-"
		}
		return c09OptPick(r, c09Labels, 1, 2)
	}
	linksE := func(pool []string) []string {
		l := c09Subset(r, pool)
		if emptyAlias && r.chance(1, 10) {
			l = append(l, "") // a link to the id "": no such entity, SetLinks fails and the op is ignored
		}
		return l
	}
	g := &c09GenState{liveA: map[string]bool{}, liveB: map[string]bool{}}
	// owners first, so that things can be created at all
	for _, b := range c09BIds {
		if r.chance(4, 5) {
			label := "~"
			if r.chance(1, 2) {
				label = toWire("l" + b[1:])
			}
			h = append(h, fmt.Sprintf("cB %s %s", toWire(b), label))
			g.liveB[b] = true
		}
	}
	for _, a := range c09AIds {
		if r.chance(1, 2) {
			h = append(h, g.thingOp(r, c09ThingKind(r, "c"), a, emptyAlias))
			g.liveA[a] = true
		}
	}
	for i := 0; i < n; i++ {
		switch k := r.intn(20); {
		case k < 7:
			// on a live id a creation through a child store gives the thing that store's data
			id := pick(r, c09AIds)
			h = append(h, g.thingOp(r, c09ThingKind(r, "c"), id, emptyAlias))
			g.liveA[id] = true
		case k < 11:
			h = append(h, g.thingOp(r, c09ThingKind(r, "u"), g.pickA(r), emptyAlias))
		case k < 12:
			id := g.pickA(r)
			if r.chance(1, 4) {
				h = append(h, "dX "+toWire(id))
			} else {
				h = append(h, "dA "+toWire(id))
			}
			delete(g.liveA, id)
		case k < 13:
			h = append(h, "dB "+toWire(pick(r, c09BIds)))
		case k < 14:
			id := pick(r, c09BIds)
			h = append(h, fmt.Sprintf("cB %s %s", toWire(id), labelE()))
			g.liveB[id] = true
		case k < 15:
			h = append(h, fmt.Sprintf("uB %s %s", toWire(g.pickB(r)), labelE()))
		case k < 18:
			h = append(h, fmt.Sprintf("lA %s %s", toWire(g.pickA(r)), c09List(linksE(c09BIds))))
		default:
			h = append(h, fmt.Sprintf("lB %s %s", toWire(g.pickB(r)), c09List(linksE(c09AIds))))
		}
	}
	return h
}

// c09Catalogue: every corruption of every supported class over the id/value universes.
func c09Catalogue() []string {
	var cs []string
	aIds := append(append([]string{}, c09AIds...), c09GhostA)
	bIds := append(append([]string{}, c09BIds...), c09GhostB)
	w := toWire
	// unique indexes: missing entry, extra entry, wrong target
	for _, k := range append(append([]string{}, c09Names...), "zz") {
		cs = append(cs, "UD things.name "+w(k))
		for _, id := range aIds {
			cs = append(cs, "UP things.name "+w(k)+" "+w(id))
		}
	}
	for _, k := range append(append([]string{}, c09Aliases...), "zz") {
		cs = append(cs, "UD things.alias "+w(k))
		for _, id := range aIds {
			cs = append(cs, "UP things.alias "+w(k)+" "+w(id))
		}
	}
	for _, k := range append(append([]string{}, c09Labels...), "zz") {
		cs = append(cs, "UD owners.label "+w(k))
		for _, id := range bIds {
			cs = append(cs, "UP owners.label "+w(k)+" "+w(id))
		}
	}
	// set index: missing / extra entry or key, empty value bucket, plain junk key
	for _, k := range append(append([]string{}, c09Roles...), "zz") {
		cs = append(cs, "SK things.roles "+w(k), "SX things.roles "+w(k), "SJ things.roles "+w(k))
		for _, id := range aIds {
			cs = append(cs, "SA things.roles "+w(k)+" "+w(id), "SD things.roles "+w(k)+" "+w(id))
		}
	}
	// entity fields written behind the indexes' back: stale entries, duplicates, nulls, dangling references
	for _, id := range c09AIds {
		for _, v := range append([]string{"~"}, c09Names[:3]...) {
			cs = append(cs, "EF things "+w(id)+" name "+c09W(v))
		}
		for _, v := range append([]string{"~"}, c09Aliases[:2]...) {
			cs = append(cs, "EF things "+w(id)+" alias "+c09W(v))
		}
		for _, fld := range []string{"owner", "home", "dep", "req"} {
			for _, v := range append([]string{"~", "-"}, bIds...) {
				cs = append(cs, "EF things "+w(id)+" "+fld+" "+c09W(v))
			}
		}
		for _, v := range append([]string{"~", "-"}, aIds...) {
			cs = append(cs, "EF things "+w(id)+" boss "+c09W(v))
		}
		for _, v := range append(append([]string{}, c09Roles...), "zz") {
			cs = append(cs, "EA things "+w(id)+" roles "+w(v), "ED things "+w(id)+" roles "+w(v))
		}
		// links and back-references on the things side
		for _, v := range bIds {
			cs = append(cs, "EA things "+w(id)+" groups "+w(v), "ED things "+w(id)+" groups "+w(v))
		}
		for _, v := range aIds {
			cs = append(cs, "EA things "+w(id)+" minions "+w(v), "ED things "+w(id)+" minions "+w(v))
		}
	}
	// the child stores of things: their indexes, their fields, and membership itself
	for _, uq := range []struct {
		idx  string
		pool []string
	}{{"things_x.badge", c09Badges}, {"things_x.tag", c09Tags}, {"things_p.code", c09Codes}, {"things_p.nick", c09Nicks}} {
		p := strings.SplitN(uq.idx, ".", 2)
		for _, k := range append(append([]string{}, uq.pool...), "zz") {
			cs = append(cs, "UD "+uq.idx+" "+w(k))
			for _, id := range aIds {
				cs = append(cs, "UP "+uq.idx+" "+w(k)+" "+w(id))
			}
		}
		for _, id := range c09AIds {
			for _, v := range append([]string{"~"}, uq.pool[:2]...) {
				cs = append(cs, "EF "+p[0]+" "+w(id)+" "+p[1]+" "+c09W(v))
			}
		}
	}
	for _, sx := range []struct {
		idx  string
		pool []string
	}{{"things_x.caps", c09Caps}, {"things_p.marks", c09Marks}} {
		p := strings.SplitN(sx.idx, ".", 2)
		for _, k := range append(append([]string{}, sx.pool...), "zz") {
			cs = append(cs, "SK "+sx.idx+" "+w(k), "SX "+sx.idx+" "+w(k), "SJ "+sx.idx+" "+w(k))
			for _, id := range aIds {
				cs = append(cs, "SA "+sx.idx+" "+w(k)+" "+w(id), "SD "+sx.idx+" "+w(k)+" "+w(id))
			}
			for _, id := range c09AIds {
				cs = append(cs, "EA "+p[0]+" "+w(id)+" "+p[1]+" "+w(k), "ED "+p[0]+" "+w(id)+" "+p[1]+" "+w(k))
			}
		}
	}
	for _, id := range c09AIds {
		for _, v := range append([]string{"~"}, bIds...) {
			cs = append(cs, "EF things_x "+w(id)+" sponsor "+c09W(v))
		}
		for _, st := range []string{c09ThingsX, c09ThingsP} {
			cs = append(cs, "XD "+st+" "+w(id), "XC "+st+" "+w(id))
		}
	}
	for _, id := range c09BIds {
		for _, v := range append([]string{"~"}, c09Labels...) {
			cs = append(cs, "EF owners "+w(id)+" label "+c09W(v))
		}
		for _, set := range []string{"things", "residents", "members"} {
			for _, v := range aIds {
				cs = append(cs, "EA owners "+w(id)+" "+set+" "+w(v), "ED owners "+w(id)+" "+set+" "+w(v))
			}
		}
	}
	return cs
}

func c09W(v string) string {
	if v == "~" || v == "-" { // nil, the empty string
		return v
	}
	return toWire(v)
}

// c09EmitCase queues a case; c09Flush computes the states the real code produces (history + corruptions on a
// fresh database each) on several goroutines and prints the case lines in the order they were queued.
type c09Pending struct {
	mode             string
	history, corrupt []string
}

var c09Queue []c09Pending

func c09EmitCase(_ *bufio.Writer, mode string, history, corrupt []string) {
	c09Queue = append(c09Queue, c09Pending{mode, append([]string{}, history...), append([]string{}, corrupt...)})
}

func c09Flush(out *bufio.Writer) {
	lines := make([]string, len(c09Queue))
	workers := runtime.NumCPU()
	if workers > 8 {
		workers = 8
	}
	var wg sync.WaitGroup
	next := int64(-1)
	for w := 0; w < workers; w++ {
		wg.Add(1)
		go func() {
			defer wg.Done()
			for {
				i := int(atomic.AddInt64(&next, 1))
				if i >= len(c09Queue) {
					return
				}
				c := c09Queue[i]
				var st string
				if _, desc, ok := c09nMode(c.mode); ok {
					d, s := c09nPrepare(desc, c.history, c.corrupt)
					d.close()
					st = s
				} else {
					d, s := c09Prepare(c.history, c.corrupt)
					d.close()
					st = s
				}
				lines[i] = fmt.Sprintf("%s @H %s @C %s @S %s\n", c.mode, strings.Join(c.history, ";"), strings.Join(c.corrupt, ";"), st)
			}
		}()
	}
	wg.Wait()
	for _, l := range lines {
		out.WriteString(l)
	}
	c09Queue = nil
}

// the fixed state of the thorough tier (4 things, 4 owners)
var c09FixedHistory = []string{
	"cB " + toWire("b1") + " " + toWire("l1"),
	"cB " + toWire("b2") + " ~",
	"cB " + toWire("b3") + " " + toWire("l2"),
	"cA " + toWire("a1") + " " + toWire("n1") + " " + toWire("x1") + " " + c09List([]string{"r1", "r2"}) + " " + toWire("b1") + " " + toWire("b1") + " " + toWire("b2") + " " + toWire("b1") + " ~",
	"cA " + toWire("a2") + " " + toWire("n2") + " ~ " + c09List([]string{"r2"}) + " " + toWire("b1") + " " + toWire("b2") + " ~ " + toWire("b2") + " " + toWire("a1"),
	"cA " + toWire("a3") + " " + toWire("n3") + " " + toWire("x2") + " " + c09List([]string{"r11"}) + " ~ " + toWire("b2") + " " + toWire("b3") + " " + toWire("b3") + " " + toWire("a1"),
	"cB " + toWire("b11") + " ~",
	// a11 shares every list with a1 (role r1, owner / home b1, boss a1, member of b1): ids in a prefix relation
	"cA " + toWire("a11") + " " + toWire("n4") + " ~ " + c09List([]string{"r1"}) + " " + toWire("b1") + " " + toWire("b1") + " ~ " + toWire("b1") + " " + toWire("a1"),
	// mixed population: a1 (the smallest id) stays parent-only, a11 gains extension data, a2 plain-child data, a3 both
	"cX " + toWire("a11") + " " + toWire("n4") + " ~ " + c09List([]string{"r1"}) + " " + toWire("b1") + " " + toWire("b1") + " ~ " + toWire("b1") + " " + toWire("a1") +
		" " + toWire("g4") + " " + toWire("t1") + " " + toWire("b1") + " " + c09List([]string{"c1", "c2"}),
	"cP " + toWire("a2") + " " + toWire("n2") + " ~ " + c09List([]string{"r2"}) + " " + toWire("b1") + " " + toWire("b2") + " ~ " + toWire("b2") + " " + toWire("a1") +
		" " + toWire("k2") + " ~ " + c09List([]string{"m1"}),
	"cX " + toWire("a3") + " " + toWire("n3") + " " + toWire("x2") + " " + c09List([]string{"r11"}) + " ~ " + toWire("b2") + " " + toWire("b3") + " " + toWire("b3") + " " + toWire("a1") +
		" " + toWire("g3") + " ~ " + toWire("b2") + " " + c09List([]string{"c1"}),
	"cP " + toWire("a3") + " " + toWire("n3") + " " + toWire("x2") + " " + c09List([]string{"r11"}) + " ~ " + toWire("b2") + " " + toWire("b3") + " " + toWire("b3") + " " + toWire("a1") +
		" " + toWire("k3") + " " + toWire("q1") + " " + c09List([]string{"m1", "m2"}),
	"lA " + toWire("a1") + " " + c09List([]string{"b1", "b11", "b2"}),
	"lA " + toWire("a11") + " " + c09List([]string{"b1"}),
	"lA " + toWire("a2") + " " + c09List([]string{"b2"}),
	"lB " + toWire("b3") + " " + c09List([]string{"a3"}),
}

// a reduced catalogue for the exhaustive subsets (one representative per class and target kind)
func c09FixedCatalogue() []string {
	w := toWire
	return []string{
		"UD things.name " + w("n1"),                  // missing unique entry
		"UP things.name " + w("zz") + " " + w("a9"),  // extra entry -> missing entity
		"UP things.name " + w("zz") + " " + w("a2"),  // extra entry -> existing entity (stale)
		"UP things.name " + w("n1") + " " + w("a2"),  // wrong target
		"UP things.name " + w("n2") + " " + w("a9"),  // wrong target, missing entity
		"UD things.alias " + w("x1"),                 // nullable unique: missing
		"UP things.alias " + w("x3") + " " + w("a2"), // nullable unique: extra
		"UP owners.label " + w("l1") + " " + w("b2"), // second store: wrong target
		"SD things.roles " + w("r2") + " " + w("a1"), // set index: missing entry
		"SD things.roles " + w("r1") + " " + w("a1"), // set index: missing entry, the longer sibling id a11 stays
		"SD things.roles " + w("r11") + " " + w("a3"), // set index: missing entry, leaves an empty value bucket
		"SX things.roles " + w("r2"),                 // missing key
		"SA things.roles " + w("r1") + " " + w("a3"), // extra entry (existing entity without the value)
		"SA things.roles " + w("r2") + " " + w("a9"), // extra entry (missing entity)
		"SA things.roles " + w("zz") + " " + w("a9"), // extra key with a dangling entry
		"SK things.roles " + w("zy"),                 // extra key, empty value bucket
		"SJ things.roles " + w("q"),                  // plain junk key
		"SJ things.roles " + w("r10"),                // plain junk key between value buckets
		"ED owners " + w("b1") + " things " + w("a1"),    // fk: missing back-reference (a11 stays in the list)
		"ED owners " + w("b1") + " residents " + w("a1"), // non-nullable fk: missing back-reference (a11 stays)
		"ED owners " + w("b1") + " members " + w("a1"),   // one-sided: reverse deleted (a11 stays)
		"ED things " + w("a1") + " groups " + w("b1"),    // one-sided: forward deleted (b11 stays)
		"EA owners " + w("b2") + " things " + w("a1"),    // fk: extra back-reference (entity refers elsewhere)
		"EA owners " + w("b1") + " things " + w("a9"),    // fk: extra back-reference to a missing entity
		"EA owners " + w("b1") + " things " + w("a3"),    // fk: extra back-reference, field is nil
		"EF things " + w("a1") + " owner " + w("b9"),     // dangling nullable fk
		"EF things " + w("a2") + " home " + w("b9"),      // dangling non-nullable fk
		"EF things " + w("a3") + " home ~",               // null in non-nullable fk index
		"EF things " + w("a1") + " dep " + w("b9"),       // dangling nullable fk constraint
		"EF things " + w("a2") + " req " + w("b9"),       // dangling non-nullable fk constraint
		"EF things " + w("a3") + " req ~",                // null in non-nullable fk constraint
		"EF things " + w("a2") + " boss " + w("a9"),      // dangling self reference
		"ED things " + w("a1") + " minions " + w("a2"),   // self reference: missing back-reference
		"EA things " + w("a2") + " minions " + w("a3"),   // self reference: extra back-reference
		"EF things " + w("a2") + " name " + w("n1"),      // duplicate unique value (index still says n2 -> a2)
		"EF things " + w("a3") + " name ~",               // null in non-nullable unique field
		"EF things " + w("a3") + " alias " + w("x1"),     // duplicate in nullable unique index
		"EA things " + w("a3") + " roles " + w("r3"),     // set value not in the index
		"ED things " + w("a1") + " roles " + w("r1"),     // index entry whose entity lost the value
		"EA things " + w("a3") + " groups " + w("b1"),    // one-sided link from things
		"EA things " + w("a1") + " groups " + w("b9"),    // dangling link from things
		"EA things " + w("a1") + " groups " + w("b8"),    // second dangling link, adjacent key
		"EA owners " + w("b1") + " members " + w("a3"),   // one-sided link from owners
		"EA owners " + w("b2") + " members " + w("a9"),   // dangling link from owners
		"ED owners " + w("b2") + " members " + w("a1"),   // one-sided: reverse deleted
		"ED things " + w("a2") + " groups " + w("b2"),    // one-sided: forward deleted
	}
}

func c09Gen(tier string, seed uint64, out *bufio.Writer) {
	defer c09Flush(out)
	r := newRng(seed)
	cat := c09Catalogue()
	// links and back-references are a small part of the catalogue but the part with the most interplay
	var focus []string
	for _, c := range cat {
		if strings.Contains(c, " groups ") || strings.Contains(c, " members ") || strings.Contains(c, " minions ") ||
			strings.Contains(c, " things 6") || strings.Contains(c, " residents ") || strings.HasPrefix(c, "S") ||
			strings.Contains(c, "things_x") || strings.Contains(c, "things_p") {
			focus = append(focus, c)
		}
	}
	n := 400
	if tier == "thorough" {
		n = 10000
	}
	for i := 0; i < n; i++ {
		h := c09GenHistory(r, 4+r.intn(14), i%5 == 4)
		k := r.intn(7)
		if i%10 == 0 {
			k = 0
		}
		var cs []string
		if i%3 == 1 {
			// interacting corruptions: 2-3 corruptions of different classes aimed at ONE target chosen inside
			// the state this history produced (c09_interact.go), now and then with unrelated ones around them
			d, st := c09Prepare(h, nil)
			d.close()
			cs = c09FocusCorruptions(r, st)
			if k > 3 {
				k = 1
			} else {
				k = 0
			}
		}
		for j := 0; j < k; j++ {
			if r.chance(1, 3) {
				cs = append(cs, pick(r, focus))
			} else {
				cs = append(cs, pick(r, cat))
			}
		}
		c09EmitCase(out, "sep", h, cs)
		if i%8 == 7 {
			// the same history and corruptions with both stores checked inside ONE transaction
			c09EmitCase(out, "tx1", h, cs)
			c09EmitCase(out, "tx1r", h, cs)
		}
	}
	c09GenInteracting(tier, r, out)
	c09nGenCases(tier, r, out)
	if tier == "thorough" {
		fc := c09FixedCatalogue()
		var rec func(start int, chosen []string)
		rec = func(start int, chosen []string) {
			c09EmitCase(out, "sep", c09FixedHistory, chosen)
			if len(chosen) == 3 {
				return
			}
			for i := start; i < len(fc); i++ {
				rec(i+1, append(append([]string{}, chosen...), fc[i]))
			}
		}
		rec(0, nil)
	} else {
		// quick tier: every single corruption and a seeded sample of pairs over the fixed state
		fc := c09FixedCatalogue()
		c09EmitCase(out, "sep", c09FixedHistory, nil)
		for _, c := range fc {
			c09EmitCase(out, "sep", c09FixedHistory, []string{c})
		}
		for i := 0; i < 60; i++ {
			a, b := r.intn(len(fc)), r.intn(len(fc))
			if a != b {
				c09EmitCase(out, "sep", c09FixedHistory, []string{fc[a], fc[b]})
			}
		}
	}
}

var _ = sort.Strings
