package main

import (
	"bufio"
	"fmt"
	"strconv"
	"strings"
	"time"

	"github.com/antlr4-go/antlr/v4"
	"github.com/openziti/storage/ast"
	"github.com/openziti/storage/zitiql"
)

// C10 cases (one line in, one line out)
//
//	L <text>                         lex + parse + listener walk of <text> (hex of UTF-8)
//	    -> tok=<types>[!pos] acc=<0|1> ev=<listener events> le=<0|1> dbg=<0|1>
//	Q <schema> <rows> <text>         the same plus ast.Parse against the schema, a dump of the typed
//	                                 tree, and EvalBool against every row         (c10_query.go)
//	T <fwd> <n> <vals...>            ast.TreeSet cursor: add vals, enumerate with n extra Next calls
//	                                                                              (c10_tree.go)
//	B <dataset> <text>               the query through real bolt stores, judged for panics only
//	                                                                              (c10_bolt.go)
//	O <dataset> <text>               the query through an objectz.ObjectStore, judged for panics only
//	                                                                              (c10_objz.go)
//	H <schema> <text> <text> ...     a history of ast.Parse calls in one process; every call must answer
//	                                 as if it were the only one                   (c10_hist.go)
//
// tok: ANTLR token type numbers of the real lexer up to the first token recognition error
// (`!pos` = code point index at which it was reported).  acc: zitiql.Parse reported no error.
// ev: the sequence of listener callbacks the real ToBoltListener reacts to, recorded by a tee
// in front of it; le: ToBoltListener.HasError() after the walk.
func init() {
	register("c10", &propHarness{gen: c10GenMain, exec: c10Exec})
}

// ---------------------------------------------------------------------------- lexer observation

type c10ErrPos struct {
	antlr.DefaultErrorListener
	first  int // code point index of the first error, -1 if none
	count  int
	starts []int // index of the first code point of every line
}

func (e *c10ErrPos) SyntaxError(_ antlr.Recognizer, _ interface{}, line, column int, _ string, _ antlr.RecognitionException) {
	e.count++
	if e.first < 0 {
		pos := column
		if line-1 < len(e.starts) && line >= 1 {
			pos = e.starts[line-1] + column
		}
		e.first = pos
	}
}

func c10LineStarts(rs []rune) []int {
	starts := []int{0}
	for i, r := range rs {
		if r == '\n' {
			starts = append(starts, i+1)
		}
	}
	return starts
}

// c10Lex runs the real generated lexer; tokens recognised before the first error are reported.
func c10Lex(s string) string {
	rs := []rune(s)
	el := &c10ErrPos{first: -1, starts: c10LineStarts(rs)}
	lexer := zitiql.NewZitiQlLexer(antlr.NewInputStream(s))
	lexer.RemoveErrorListeners()
	lexer.AddErrorListener(el)
	var b strings.Builder
	n := 0
	for {
		t := lexer.NextToken()
		if el.first >= 0 {
			break
		}
		if t.GetTokenType() == antlr.TokenEOF {
			break
		}
		if n > 0 {
			b.WriteByte('.')
		}
		b.WriteString(strconv.Itoa(t.GetTokenType()))
		n++
		if n > 100000 {
			break
		}
	}
	if n == 0 {
		b.WriteByte('-')
	}
	if el.first >= 0 {
		fmt.Fprintf(&b, "!%d", el.first)
	}
	return b.String()
}

// ------------------------------------------------------------------------- listener observation

// c10Tee forwards every callback to the real ToBoltListener and records the ones it reacts to.
type c10Tee struct {
	*ast.ToBoltListener
	ev []string
}

func (t *c10Tee) rec(s string) { t.ev = append(t.ev, s) }

var c10ListenerTokens = map[int]bool{
	zitiql.ZitiQlLexerBOOL: true, zitiql.ZitiQlLexerDATETIME: true, zitiql.ZitiQlLexerIDENTIFIER: true,
	zitiql.ZitiQlLexerNULL: true, zitiql.ZitiQlLexerNUMBER: true, zitiql.ZitiQlLexerNONE: true,
	zitiql.ZitiQlLexerSTRING: true, zitiql.ZitiQlLexerEQ: true, zitiql.ZitiQlLexerGT: true,
	zitiql.ZitiQlLexerLT: true, zitiql.ZitiQlLexerIN: true, zitiql.ZitiQlLexerBETWEEN: true,
	zitiql.ZitiQlLexerCONTAINS: true, zitiql.ZitiQlLexerICONTAINS: true, zitiql.ZitiQlLexerALL_OF: true,
	zitiql.ZitiQlLexerANY_OF: true, zitiql.ZitiQlLexerCOUNT: true, zitiql.ZitiQlLexerISEMPTY: true,
	zitiql.ZitiQlLexerASC: true, zitiql.ZitiQlLexerDESC: true,
}

func (t *c10Tee) VisitTerminal(node antlr.TerminalNode) {
	tt := node.GetSymbol().GetTokenType()
	if c10ListenerTokens[tt] {
		t.rec(fmt.Sprintf("T%d.%s", tt, toWire(node.GetText())))
	}
	t.ToBoltListener.VisitTerminal(node)
}
func (t *c10Tee) EnterStringArray(c *zitiql.StringArrayContext) {
	t.rec("eSA")
	t.ToBoltListener.EnterStringArray(c)
}
func (t *c10Tee) EnterNumberArray(c *zitiql.NumberArrayContext) {
	t.rec("eNA")
	t.ToBoltListener.EnterNumberArray(c)
}
func (t *c10Tee) EnterDatetimeArray(c *zitiql.DatetimeArrayContext) {
	t.rec("eDA")
	t.ToBoltListener.EnterDatetimeArray(c)
}
func (t *c10Tee) ExitStringArray(c *zitiql.StringArrayContext) {
	t.rec("xSA")
	t.ToBoltListener.ExitStringArray(c)
}
func (t *c10Tee) ExitNumberArray(c *zitiql.NumberArrayContext) {
	t.rec("xNA")
	t.ToBoltListener.ExitNumberArray(c)
}
func (t *c10Tee) ExitDatetimeArray(c *zitiql.DatetimeArrayContext) {
	t.rec("xDA")
	t.ToBoltListener.ExitDatetimeArray(c)
}
func (t *c10Tee) ExitOrExpr(c *zitiql.OrExprContext) { t.rec("xOr"); t.ToBoltListener.ExitOrExpr(c) }
func (t *c10Tee) ExitAndExpr(c *zitiql.AndExprContext) {
	t.rec("xAnd")
	t.ToBoltListener.ExitAndExpr(c)
}
func (t *c10Tee) ExitInStringArrayOp(c *zitiql.InStringArrayOpContext) {
	t.rec("xIn")
	t.ToBoltListener.ExitInStringArrayOp(c)
}
func (t *c10Tee) ExitInNumberArrayOp(c *zitiql.InNumberArrayOpContext) {
	t.rec("xIn")
	t.ToBoltListener.ExitInNumberArrayOp(c)
}
func (t *c10Tee) ExitInDatetimeArrayOp(c *zitiql.InDatetimeArrayOpContext) {
	t.rec("xIn")
	t.ToBoltListener.ExitInDatetimeArrayOp(c)
}
func (t *c10Tee) ExitBetweenNumberOp(c *zitiql.BetweenNumberOpContext) {
	t.rec("xBtw")
	t.ToBoltListener.ExitBetweenNumberOp(c)
}
func (t *c10Tee) ExitBetweenDateOp(c *zitiql.BetweenDateOpContext) {
	t.rec("xBtw")
	t.ToBoltListener.ExitBetweenDateOp(c)
}
func (t *c10Tee) ExitBinaryLessThanStringOp(c *zitiql.BinaryLessThanStringOpContext) {
	t.rec("xBin")
	t.ToBoltListener.ExitBinaryLessThanStringOp(c)
}
func (t *c10Tee) ExitBinaryGreaterThanStringOp(c *zitiql.BinaryGreaterThanStringOpContext) {
	t.rec("xBin")
	t.ToBoltListener.ExitBinaryGreaterThanStringOp(c)
}
func (t *c10Tee) ExitBinaryLessThanNumberOp(c *zitiql.BinaryLessThanNumberOpContext) {
	t.rec("xBin")
	t.ToBoltListener.ExitBinaryLessThanNumberOp(c)
}
func (t *c10Tee) ExitBinaryLessThanDatetimeOp(c *zitiql.BinaryLessThanDatetimeOpContext) {
	t.rec("xBin")
	t.ToBoltListener.ExitBinaryLessThanDatetimeOp(c)
}
func (t *c10Tee) ExitBinaryGreaterThanNumberOp(c *zitiql.BinaryGreaterThanNumberOpContext) {
	t.rec("xBin")
	t.ToBoltListener.ExitBinaryGreaterThanNumberOp(c)
}
func (t *c10Tee) ExitBinaryGreaterThanDatetimeOp(c *zitiql.BinaryGreaterThanDatetimeOpContext) {
	t.rec("xBin")
	t.ToBoltListener.ExitBinaryGreaterThanDatetimeOp(c)
}
func (t *c10Tee) ExitBinaryEqualToStringOp(c *zitiql.BinaryEqualToStringOpContext) {
	t.rec("xBin")
	t.ToBoltListener.ExitBinaryEqualToStringOp(c)
}
func (t *c10Tee) ExitBinaryEqualToNumberOp(c *zitiql.BinaryEqualToNumberOpContext) {
	t.rec("xBin")
	t.ToBoltListener.ExitBinaryEqualToNumberOp(c)
}
func (t *c10Tee) ExitBinaryEqualToDatetimeOp(c *zitiql.BinaryEqualToDatetimeOpContext) {
	t.rec("xBin")
	t.ToBoltListener.ExitBinaryEqualToDatetimeOp(c)
}
func (t *c10Tee) ExitBinaryEqualToBoolOp(c *zitiql.BinaryEqualToBoolOpContext) {
	t.rec("xBin")
	t.ToBoltListener.ExitBinaryEqualToBoolOp(c)
}
func (t *c10Tee) ExitBinaryEqualToNullOp(c *zitiql.BinaryEqualToNullOpContext) {
	t.rec("xBin")
	t.ToBoltListener.ExitBinaryEqualToNullOp(c)
}
func (t *c10Tee) ExitBinaryContainsOp(c *zitiql.BinaryContainsOpContext) {
	t.rec("xBin")
	t.ToBoltListener.ExitBinaryContainsOp(c)
}
func (t *c10Tee) ExitSetFunctionExpr(c *zitiql.SetFunctionExprContext) {
	t.rec("xSF")
	t.ToBoltListener.ExitSetFunctionExpr(c)
}
func (t *c10Tee) ExitIsEmptyFunction(c *zitiql.IsEmptyFunctionContext) {
	t.rec("xSF")
	t.ToBoltListener.ExitIsEmptyFunction(c)
}
func (t *c10Tee) EnterSortByExpr(c *zitiql.SortByExprContext) {
	t.rec("eSB")
	t.ToBoltListener.EnterSortByExpr(c)
}
func (t *c10Tee) ExitSortByExpr(c *zitiql.SortByExprContext) {
	t.rec("xSB")
	t.ToBoltListener.ExitSortByExpr(c)
}
func (t *c10Tee) ExitSortFieldExpr(c *zitiql.SortFieldExprContext) {
	t.rec("xSFd")
	t.ToBoltListener.ExitSortFieldExpr(c)
}
func (t *c10Tee) ExitSkipExpr(c *zitiql.SkipExprContext) {
	t.rec("xSk")
	t.ToBoltListener.ExitSkipExpr(c)
}
func (t *c10Tee) ExitLimitExpr(c *zitiql.LimitExprContext) {
	t.rec("xLi")
	t.ToBoltListener.ExitLimitExpr(c)
}
func (t *c10Tee) ExitQueryStmt(c *zitiql.QueryStmtContext) {
	t.rec("xQ")
	t.ToBoltListener.ExitQueryStmt(c)
}
func (t *c10Tee) ExitSubQuery(c *zitiql.SubQueryContext) {
	t.rec("xSQ")
	t.ToBoltListener.ExitSubQuery(c)
}
func (t *c10Tee) ExitGroup(c *zitiql.GroupContext) {
	t.rec("xGrp")
	t.ToBoltListener.ExitGroup(c)
}
func (t *c10Tee) ExitNotExpr(c *zitiql.NotExprContext) {
	t.rec("xNot")
	t.ToBoltListener.ExitNotExpr(c)
}

// c10Walk parses s with the real parser and the real listener behind the tee.
func c10Walk(s string) (acc bool, events string, listenerErr bool) {
	tee := &c10Tee{ToBoltListener: ast.NewListener()}
	errs := zitiql.Parse(s, tee)
	ev := "-"
	if len(tee.ev) > 0 {
		ev = strings.Join(tee.ev, ",")
	}
	return len(errs) == 0, ev, tee.HasError()
}

func b01(b bool) string {
	if b {
		return "1"
	}
	return "0"
}

// dbg: zitiql.ParseWithDebug(s, listener, true) reported no error.  The debug path attaches the console
// and diagnostic listeners to the pooled parser; its diagnostics (full-context attempts on and/or
// chains) arrive at the collecting listener too, so dbg may be 0 where acc is 1 - but it must never
// be 1 where acc is 0, and it must not panic.
func c10Front(s string) string {
	tok := c10Lex(s)
	acc, ev, le := c10Walk(s)
	dbg := len(zitiql.ParseWithDebug(s, ast.NewListener(), true)) == 0
	return fmt.Sprintf("tok=%s acc=%s ev=%s le=%s dbg=%s", tok, b01(acc), ev, b01(le), b01(dbg))
}

// c10Exec runs one case with a per-case time limit (termination of the implementation is observed,
// not proved); a panic inside the worker goroutine is reported like a panic of the case.
func c10Exec(line string) string {
	done := make(chan string, 1)
	go func() {
		defer func() {
			if r := recover(); r != nil {
				done <- fmt.Sprintf("panic %q", fmt.Sprint(r))
			}
		}()
		done <- c10ExecCase(line)
	}()
	select {
	case res := <-done:
		return res
	case <-time.After(20 * time.Second):
		return "timeout"
	}
}

func c10ExecCase(line string) string {
	f := fields(line)
	switch f[0] {
	case "L":
		return c10Front(fromWire(f[1]))
	case "Q":
		return c10ExecQuery(f)
	case "T":
		return c10ExecTree(f)
	case "B":
		return c10ExecBolt(f)
	case "O":
		return c10ExecObj(f)
	case "H":
		return c10ExecHist(f)
	case "N":
		return c10ExecFresh(f)
	}
	return "bad-case"
}

func c10GenMain(tier string, seed uint64, out *bufio.Writer) {
	g := newC10Gen(tier, seed, out)
	g.run()
}
