package main

import (
	"bufio"
	"context"
	"fmt"
	"strings"

	"github.com/openziti/storage/boltz"
	"go.etcd.io/bbolt"
)

// C13 hierarchy scripts: entity writes through DERIVED contexts, on a real parent / child store pair.
//
//	h x=<path|-> c=<chk> <tok>...
//
// x is the child store's entity path below the parent store's entity bucket (`x=-`: one store without a
// parent; `X=<path>`: the Update is issued on the PARENT store, whose ChildStoreUpdateHandler hands entity and
// checker on to the child store).  `@<p|w><^|.>[/<w>/..][~a>b,..]` opens a block of field operations of the entity strategy:
// phase p = store.Create (pre-state, nil checker), w = store.Update(entity, checker); `^` = through
// ctx.GetParentContext() (the way a child strategy persists the embedded parent entity: it calls the
// parent store's strategy with that context), `.` = through ctx; `/..` = into
// <that context>.Bucket.GetOrCreatePath(..) with the context's checker; `~` = WithFieldOverrides on the
// context first.  `<code>:<field>:<value>` are the operations (codes of the e-scripts).  Afterwards every
// getter of every (bucket, field) named is read in a later transaction, with a raw dump of the root
// store's entity bucket.

type c13HGroup struct {
	pre    bool
	parent bool
	np     []string
	ovr    []map[string]string
	ops    []c13Op
}

type c13HThing struct {
	Id     string
	groups []*c13HGroup
	cur    *c13HGroup // the block the parent strategy is to write (set by the child strategy)
	nested *[]string
}

func (e *c13HThing) GetId() string         { return e.Id }
func (e *c13HThing) SetId(id string)       { e.Id = id }
func (e *c13HThing) GetEntityType() string { return "things" }

type c13HExt struct {
	c13HThing
}

func c13HErr(err error) string {
	if err == nil {
		return "none"
	}
	return c13ErrName(err)
}

// c13HBlock writes one block through the context it was derived for.
func c13HBlock(ctx *boltz.PersistContext, g *c13HGroup, nested *[]string) {
	for _, m := range g.ovr {
		ctx.WithFieldOverrides(m)
	}
	var obs []string
	target := ctx
	if len(g.np) > 0 {
		sub := ctx.Bucket.GetOrCreatePath(g.np...)
		target = &boltz.PersistContext{MutateContext: ctx.MutateContext, Id: ctx.Id, Store: ctx.Store, Bucket: sub,
			FieldChecker: ctx.FieldChecker, IsCreate: ctx.IsCreate}
		defer func() { *nested = append(*nested, c13HErr(sub.GetError())) }()
	}
	for i, op := range g.ops {
		c13Apply(target, op, i, &obs)
	}
}

type c13HThingStrategy struct{}

func (c13HThingStrategy) NewEntity() *c13HThing                         { return new(c13HThing) }
func (c13HThingStrategy) FillEntity(e *c13HThing, _ *boltz.TypedBucket) {}
func (c13HThingStrategy) PersistEntity(e *c13HThing, ctx *boltz.PersistContext) {
	if e.cur != nil {
		// called by the child strategy with ctx.GetParentContext()
		c13HBlock(ctx, e.cur, e.nested)
		return
	}
	for _, g := range e.groups {
		if g.pre != ctx.IsCreate {
			continue
		}
		if g.parent {
			c13HBlock(ctx.GetParentContext(), g, e.nested)
		} else {
			c13HBlock(ctx, g, e.nested)
		}
	}
}

type c13HExtStrategy struct{ parent *boltz.BaseStore[*c13HThing] }

func (s *c13HExtStrategy) NewEntity() *c13HExt { return new(c13HExt) }
func (s *c13HExtStrategy) FillEntity(e *c13HExt, bucket *boltz.TypedBucket) {
	_, err := s.parent.LoadEntity(bucket.Tx(), e.Id, &e.c13HThing)
	bucket.SetError(err)
}
func (s *c13HExtStrategy) PersistEntity(e *c13HExt, ctx *boltz.PersistContext) {
	for _, g := range e.groups {
		if g.pre != ctx.IsCreate {
			continue
		}
		if g.parent {
			e.cur = g
			s.parent.GetEntityStrategy().PersistEntity(&e.c13HThing, ctx.GetParentContext())
			e.cur = nil
		} else {
			c13HBlock(ctx, g, e.nested)
		}
	}
}

type c13HStores struct {
	root  *boltz.BaseStore[*c13HThing]
	child *boltz.BaseStore[*c13HExt]
}

var c13HStoreCache = map[string]*c13HStores{}

func c13HNotFound(id string) error { return boltz.NewNotFoundError("thing", "id", id) }

func c13HGetStores(x []string) *c13HStores {
	key := strings.Join(x, "\x00/")
	if x == nil {
		key = "\x00none"
	}
	if s, ok := c13HStoreCache[key]; ok {
		return s
	}
	s := &c13HStores{}
	s.root = boltz.NewBaseStore(boltz.StoreDefinition[*c13HThing]{
		EntityType:      "things",
		EntityStrategy:  c13HThingStrategy{},
		BasePath:        []string{"c13s"},
		EntityNotFoundF: c13HNotFound,
	})
	s.root.InitImpl(s.root)
	if x != nil {
		s.child = boltz.NewBaseStore(boltz.StoreDefinition[*c13HExt]{
			EntityStrategy: &c13HExtStrategy{parent: s.root},
			BasePath:       x,
			Parent:         s.root,
			ParentMapper: func(entity boltz.Entity) boltz.Entity {
				if e, ok := entity.(*c13HExt); ok {
					return &e.c13HThing
				}
				return entity
			},
			EntityNotFoundF: c13HNotFound,
		})
		s.child.InitImpl(s.child)
		// update delegation as in boltz/manager_store_test.go: an Update on the parent store of an entity that
		// has child data is handed to the child store, with the caller's checker
		s.root.RegisterChildStoreStrategy(&boltz.ChildStoreUpdateHandler[*c13HThing, *c13HExt]{
			Store: s.child,
			Mapper: func(ctx boltz.MutateContext, parent *c13HThing) (*c13HExt, bool) {
				if !s.child.IsEntityPresent(ctx.Tx(), parent.Id) {
					return nil, false
				}
				return &c13HExt{c13HThing: *parent}, true
			},
		})
	}
	c13HStoreCache[key] = s
	return s
}

func c13HPath(t string) []string {
	if t == "" {
		return []string{}
	}
	var p []string
	for _, w := range strings.Split(t, "/") {
		p = append(p, fromWire(w))
	}
	return p
}

func c13HPathText(p []string) string {
	ws := make([]string, len(p))
	for i, e := range p {
		ws[i] = toWire(e)
	}
	return strings.Join(ws, "/")
}

func c13HParse(toks []string) (x []string, checker boltz.FieldChecker, groups []*c13HGroup) {
	if toks[0] != "x=-" {
		x = c13HPath(toks[0][2:])
	}
	if toks[1] != "c=-" {
		m := boltz.MapFieldChecker{}
		body := strings.TrimPrefix(toks[1], "c=.")
		if body != "" {
			for _, w := range strings.Split(body, ",") {
				m[fromWire(w)] = struct{}{}
			}
		}
		checker = m
	}
	var cur *c13HGroup
	for _, t := range toks[2:] {
		if strings.HasPrefix(t, "@") {
			cur = &c13HGroup{pre: t[1] == 'p', parent: t[2] == '^'}
			body := t[3:]
			if i := strings.IndexByte(body, '~'); i >= 0 {
				// one WithFieldOverrides call per ~table, in order
				for _, tbl := range strings.Split(body[i+1:], "~") {
					m := map[string]string{}
					for _, p := range strings.Split(tbl, ",") {
						ab := strings.Split(p, ">")
						m[fromWire(ab[0])] = fromWire(ab[1])
					}
					cur.ovr = append(cur.ovr, m)
				}
				body = body[:i]
			}
			if body != "" {
				cur.np = c13HPath(body[1:])
			}
			groups = append(groups, cur)
			continue
		}
		parts := strings.SplitN(t, ":", 3)
		cur.ops = append(cur.ops, c13Op{pre: false, code: parts[0], field: fromWire(parts[1]), val: c13ParseValue(parts[2])})
	}
	return
}

func c13ExecH(toks []string) (res string) {
	db := c13GetDb()
	defer func() {
		_ = db.Update(func(tx *bbolt.Tx) error {
			if tx.Bucket([]byte("c13s")) != nil {
				return tx.DeleteBucket([]byte("c13s"))
			}
			return nil
		})
	}()
	defer func() {
		if r := recover(); r != nil {
			res = "panic"
		}
	}()
	x, checker, groups := c13HParse(toks)
	viaParent := toks[0][0] == 'X'
	stores := c13HGetStores(x)
	var nested []string
	const id = "e"
	phase := func(create bool) error {
		return db.Update(func(tx *bbolt.Tx) error {
			mctx := boltz.NewTxMutateContext(context.Background(), tx)
			thing := c13HThing{Id: id, groups: groups, nested: &nested}
			if stores.child == nil {
				if create {
					return stores.root.Create(mctx, &thing)
				}
				return stores.root.Update(mctx, &thing, checker)
			}
			if create {
				return stores.child.Create(mctx, &c13HExt{c13HThing: thing})
			}
			if viaParent {
				return stores.root.Update(mctx, &thing, checker)
			}
			return stores.child.Update(mctx, &c13HExt{c13HThing: thing}, checker)
		})
	}
	if err := phase(true); err != nil {
		return "err=" + c13ErrName(err)
	}
	if err := phase(false); err != nil {
		return "err=" + c13ErrName(err)
	}
	out := []string{"err=none"}
	refused := false
	for i, n := range nested {
		out = append(out, fmt.Sprintf("n%d=%s", i, n))
		refused = refused || n != "none"
	}
	if refused {
		// the tree after a refused write is not modelled (Go map order): only the error classes are compared
		return strings.Join(out, " ")
	}
	// every (bucket, field) named, pre-state blocks first
	type bf struct{ bucket, field string }
	seen := map[bf]bool{}
	_ = db.View(func(tx *bbolt.Tx) error {
		root := boltz.Path(tx, "c13s", "things", id)
		for _, pre := range []bool{true, false} {
			for _, g := range groups {
				if g.pre != pre {
					continue
				}
				var bp []string
				if !g.parent {
					bp = append(bp, x...)
				}
				bp = append(bp, g.np...)
				for _, op := range g.ops {
					k := bf{c13HPathText(bp), op.field}
					if seen[k] {
						continue
					}
					seen[k] = true
					b := root.GetPath(bp...)
					if b == nil {
						out = append(out, "b:"+k.bucket+"|"+toWire(op.field)+"=absent")
						continue
					}
					c13ReadsP("f:"+k.bucket+"|"+toWire(op.field)+":", b, op.field, &out)
				}
			}
		}
		var b strings.Builder
		c13Dump(&b, root.Bucket)
		out = append(out, "dump="+b.String())
		return nil
	})
	return strings.Join(out, " ")
}

// ---------------------------------------------------------------------------- generator

func c13HOpText(name string, f c13Field) string {
	return f.code + ":" + toWire(name) + ":" + f.val.String()
}

func c13EmitH(out *bufio.Writer, x string, chk string, toks []string) {
	out.WriteString("h ")
	out.WriteString(x)
	out.WriteByte(' ')
	out.WriteString(chk)
	for _, t := range toks {
		out.WriteByte(' ')
		out.WriteString(t)
	}
	out.WriteByte('\n')
}

// kinds that may be written through any context (no GetAndSet: those read the bucket directly)
var c13HKinds = []int{0, 1, 2, 3, 4, 5, 6, 7, 8, 9, 10, 13, 14}

var c13HKindsOf = map[string][]int{"name": {0, 1, 13}, "roles": {8}, "n": {2, 3, 4}, "tags": {9, 9, 14}, "flag": {5, 15}, "at": {6, 7},
	"sub": {0, 2}, "é": {10}, "\x00k": {0, 1, 2, 3, 4, 5, 6, 7}}

// c13GenContexts: entity writes through derived contexts.
//
//  1. a parent part (4 fields) written through GetParentContext and a child part (3 fields) written through
//     the context itself, with a pre-state, under EVERY subset of the 7 fields as checker (128 per entity);
//  2. random scripts: blocks through ctx / GetParentContext / GetOrCreatePath below either, field overrides on
//     either, nil checkers, unknown names, a field of the same name in both buckets, refused nested paths,
//     multi-level child paths, a store without parent (GetParentContext dereferences nil).
func c13GenContexts(tier string, r *rng, out *bufio.Writer) {
	xs := []string{toWire("ext"), toWire("ext"), toWire("e") + "/" + toWire("x"), toWire("\x00")}
	nEnt, nRand := 3, 2500
	if tier == "thorough" {
		nEnt, nRand = 30, 60000
	}
	for e := 0; e < nEnt; e++ {
		pNames := []string{"name", "roles", "n32", "tags"}
		pKinds := []int{0, 8, 2, 9}
		cNames := []string{"flag", "code", "items"}
		cKinds := []int{5, 1, 10}
		if e%3 == 1 {
			// "name" in both buckets: one checker entry selects both
			pNames, pKinds = []string{"name", "f", "n64", "at"}, []int{0, 4, 3, 7}
			cNames, cKinds = []string{"tagsf", "t", "name"}, []int{14, 6, 1}
		}
		all := append(append([]string{}, pNames...), cNames...)
		var pPre, pWr, cPre, cWr []c13Field
		depthOf := func(k int) int {
			if k == 14 {
				return 0 // a nested value under allowNested=false is refused: not in these entities
			}
			return 2
		}
		for _, k := range pKinds {
			pPre = append(pPre, c13FieldOp(r, k, depthOf(k)))
			pWr = append(pWr, c13FieldOp(r, k, depthOf(k)))
		}
		for _, k := range cKinds {
			cPre = append(cPre, c13FieldOp(r, k, depthOf(k)))
			cWr = append(cWr, c13FieldOp(r, k, depthOf(k)))
		}
		x := xs[e%len(xs)]
		for mask := 0; mask < 128; mask++ {
			var toks []string
			toks = append(toks, "@p^")
			for i, n := range pNames {
				if (e+i+mask/32)%5 != 0 { // some fields without pre-state: an unselected write must not create them
					toks = append(toks, c13HOpText(n, pPre[i]))
				}
			}
			toks = append(toks, "@p.")
			for i, n := range cNames {
				if (e+i+mask/16)%4 != 0 {
					toks = append(toks, c13HOpText(n, cPre[i]))
				}
			}
			toks = append(toks, "@w^")
			for i, n := range pNames {
				toks = append(toks, c13HOpText(n, pWr[i]))
			}
			toks = append(toks, "@w.")
			for i, n := range cNames {
				toks = append(toks, c13HOpText(n, cWr[i]))
			}
			via := "x="
			if (e+mask)%3 == 0 {
				via = "X="
			}
			c13EmitH(out, via+x, c13ChkText(all, mask), toks)
		}
	}
	names := []string{"name", "roles", "n", "tags", "flag", "at", "sub", "é", "\x00k"}
	for i := 0; i < nRand; i++ {
		x := pick(r, xs)
		if r.chance(1, 25) {
			x = "-"
		}
		var used []string
		nameFor := func() string {
			n := pick(r, names)
			used = append(used, n)
			return n
		}
		var toks []string
		block := func(pre bool) {
			h := "@w"
			if pre {
				h = "@p"
			}
			parent := r.chance(1, 2)
			if x == "-" {
				parent = r.chance(1, 6)
			}
			if parent {
				h += "^"
			} else {
				h += "."
			}
			if r.chance(1, 4) {
				// a bucket below the context's bucket; now and then a name that is refused (empty) or that
				// holds a plain value by then ("name" is mostly written as a string)
				np := pick(r, [][]string{{"sub"}, {"sub", "deep"}, {"n1"}, {"sub"}, {"n1", "x"}, {"sub", "deep"}})
				if r.chance(1, 8) {
					np = pick(r, [][]string{{"sub", ""}, {""}, {"name"}, {"sub", "name"}})
				}
				for _, e := range np {
					h += "/" + toWire(e)
				}
			}
			if !pre && r.chance(1, 5) {
				a, b := pick(r, names), pick(r, append([]string{"other"}, names...))
				h += "~" + toWire(a) + ">" + toWire(b)
				if r.chance(1, 3) {
					c := pick(r, names)
					if c != a {
						h += "," + toWire(c) + ">" + toWire(a)
					}
				}
			}
			toks = append(toks, h)
			n := r.intn(4)
			for j := 0; j < n; j++ {
				name := nameFor()
				// mostly one storage class per name (a value written over a bucket is refused)
				k := pick(r, c13HKindsOf[name])
				if r.chance(1, 12) {
					k = pick(r, c13HKinds)
				}
				// keep the nested-bucket names and the child path out of the field names (an entry that is
				// overwritten by a bucket of another block is not what is examined here)
				if name == "sub" {
					name = "subf"
				}
				d := 1
				if k == 14 && r.chance(3, 4) {
					d = 0
				}
				toks = append(toks, c13HOpText(name, c13FieldOp(r, k, d)))
			}
		}
		nPre, nWr := r.intn(3), 1+r.intn(3)
		for j := 0; j < nPre; j++ {
			block(true)
		}
		for j := 0; j < nWr; j++ {
			block(false)
		}
		chk := "c=-"
		if r.chance(9, 10) {
			var sel []string
			seen := map[string]bool{}
			for _, n := range used {
				if n == "sub" {
					n = "subf"
				}
				if !seen[n] && r.chance(1, 2) {
					seen[n] = true
					sel = append(sel, toWire(n))
				}
			}
			if r.chance(1, 6) {
				sel = append(sel, toWire("unknown"))
			}
			chk = "c=." + strings.Join(sel, ",")
		}
		via := "x="
		if x != "-" && r.chance(1, 3) {
			via = "X="
		}
		c13EmitH(out, via+x, chk, toks)
	}
}
