package main

import (
	"bufio"
	"bytes"
	"os"
	"strings"
	"syscall"

	"github.com/openziti/storage/ast"
)

// C12, cases `D <case>`: process-wide configuration under which the same text must be read the
// same way.  The inner case (k or r) is executed with ast.EnableQueryDebug switched on (restored
// afterwards); whatever the debug mode writes to the log / standard error is sent to /dev/null
// for the duration of the case (the check reads the harness's output stream).  Model and spec
// answer as for the inner case: the model of ast.Parse has no configuration parameter.
func c12ExecDebug(inner string) string {
	if devnull, err := os.OpenFile(os.DevNull, os.O_WRONLY, 0); err == nil {
		defer devnull.Close()
		if saved, err := syscall.Dup(2); err == nil {
			if syscall.Dup3(int(devnull.Fd()), 2, 0) == nil {
				defer func() {
					_ = syscall.Dup3(saved, 2, 0)
					_ = syscall.Close(saved)
				}()
			} else {
				_ = syscall.Close(saved)
			}
		}
	}
	old := ast.EnableQueryDebug.Load()
	ast.EnableQueryDebug.Store(true)
	defer ast.EnableQueryDebug.Store(old)
	return c12Exec(inner)
}

// a sample of k and r cases, to be run a second time under the debug switch
func c12GenConfig(tier string, seed uint64, out *bufio.Writer) {
	r := newRng(seed ^ 0xdeb06c12deb06c12)
	for _, sk := range []string{"a", "T", "!a", "(a)", "a&b", "a|b", "a&b|c", "a|b&c", "a&(b|c)", "(a|b)&c", "!(a&b)", "!a|b",
		"a&b&c", "a|b|c", "a&b|c&d", "a|b&c|d", "((a))", "!!a", "a&", "(a", "a b", "z", "a&z", "a&a"} {
		out.WriteString("D ")
		c12EmitK(out, sk)
	}
	nK, nR := 120, 90
	if tier == "thorough" {
		nK, nR = 1500, 1000
	}
	var pool []string
	for _, bd := range [][3]int{{2, 1, 1}, {3, 1, 1}, {4, 1, 0}} {
		c12Enumerate(bd[0], bd[1], bd[2], func(l *c12Level) { pool = append(pool, c12NameAtoms(l).String()) })
	}
	for i := 0; i < nK; i++ {
		out.WriteString("D ")
		c12EmitK(out, pick(r, pool))
	}
	letters := c12AtomLetters()
	var buf bytes.Buffer
	w := bufio.NewWriter(&buf)
	for i := 0; i < nR; i++ {
		c12EmitR(w, r, c12RandomLevel(r, 1+r.intn(4), 2, letters), r.intn(2))
	}
	w.Flush()
	for _, line := range strings.Split(strings.TrimRight(buf.String(), "\n"), "\n") {
		out.WriteString("D " + line + "\n")
	}
}
