package main

// C02 — histories on ONE parsed query object.
//
// Case line:   h <rows> <filter> <sort> <skip> <limit> <store> <op>/<op>/...
//
// The query `<filter> sort by <sort> skip <skip> limit <limit>` is parsed ONCE against the queried store; the ops are
// then applied to that one ast.Query object, in order:
//
//	run         store.QueryIdsC(tx, q)                                     -> <ids>#<count> | err:<kind>
//	cur         store.QueryWithCursorC(tx, entitiesBucket.OpenCursor, q)   -> <ids>#<count> | err:<kind> | nobucket
//	it          store.IterateIds(tx, q) drained                            -> <ids>
//	get         q.GetSortFields()  (read only, value not compared)             -> .
//	ad:<sort>   q.AdoptSortFields(parse(store, "true sort by <sort>"))     -> .   (perr if that parse fails: nothing adopted)
//	ada:<sort>  the same, the other query parsed against the foreign, all-accepting symbol table (pgAnySymbols): the
//	            adopted sort list reaches NewScanner / newRowComparator unvalidated
//	adx:<sort>  as ad:, the other query carrying `skip 1 limit 1` of its own; after the adoption the OTHER object is executed,
//	            adopts `id desc` itself and is executed again (the two objects share the SortBy node, nothing else)
//	sk:<int64>  q.SetSkip(v)                                               -> .
//	li:<int64>  q.SetLimit(v)                                              -> .
//	pr:<filter> q.SetPredicate(parse(store, <filter>).GetPredicate())      -> .
//
// Output line: one section per op, joined by "|"; "perr" alone if the initial query does not parse.

import (
	"bufio"
	"fmt"
	"strconv"
	"strings"

	"github.com/openziti/storage/ast"
	"github.com/openziti/storage/boltz"
	"go.etcd.io/bbolt"
)

func c02HistExec(line string) string {
	f := fields(line)
	if len(f) != 8 || f[0] != "h" {
		return "bad-case"
	}
	s := pgLoad(f[1])
	var store boltz.Store = s.things
	switch f[6] {
	case "child":
		store = s.child
	case "ext":
		store = s.ext
	}
	var out []string
	err := s.db.View(func(tx *bbolt.Tx) error {
		q, perr := ast.Parse(store, pgQueryText(f[2], f[3], f[4], f[5]))
		if perr != nil {
			out = []string{"perr"}
			return nil
		}
		for _, op := range strings.Split(f[7], "/") {
			name, arg := op, ""
			if k := strings.Index(op, ":"); k >= 0 {
				name, arg = op[:k], op[k+1:]
			}
			switch name {
			case "run":
				ids, count, err := store.QueryIdsC(tx, q)
				out = append(out, pgIds(ids, count, err))
			case "cur":
				if b := store.GetEntitiesBucket(tx); b != nil {
					ids, count, err := store.QueryWithCursorC(tx, b.OpenCursor, q)
					out = append(out, pgIds(ids, count, err))
				} else {
					out = append(out, "nobucket")
				}
			case "it":
				var it []string
				for c := store.IterateIds(tx, q); c.IsValid(); c.Next() {
					it = append(it, string(c.Current()))
					if len(it) > 1000 {
						it = append(it, "RUNAWAY")
						break
					}
				}
				out = append(out, strings.Join(it, ","))
			case "get":
				// a pure read (a caller inspecting the sort clause); its value is not an observation of the property — what
				// the executions after it answer is
				for _, sf := range q.GetSortFields() {
					_, _ = sf.Symbol(), sf.IsAscending()
				}
				out = append(out, ".")
			case "ad", "ada", "adx":
				var symbols ast.SymbolTypes = store
				if name == "ada" {
					symbols = pgAnySymbols{}
				}
				skip, limit := "-", "-"
				if name == "adx" {
					skip, limit = "1", "1" // the other query's own paging must not come along
				}
				other, err := ast.Parse(symbols, pgQueryText("true", arg, skip, limit))
				if err != nil {
					out = append(out, "perr")
				} else if err = q.AdoptSortFields(other); err != nil {
					out = append(out, "adopt-err")
				} else {
					out = append(out, ".")
					if name == "adx" {
						// the other query object lives on: it is executed, adopts another sort clause itself and is
						// executed again — none of which may reach q
						_, _, _ = store.QueryIdsC(tx, other)
						if third, err := ast.Parse(store, "true sort by id desc"); err == nil {
							_ = other.AdoptSortFields(third)
							_, _, _ = store.QueryIdsC(tx, other)
						}
					}
				}
			case "sk", "li":
				v, err := strconv.ParseInt(arg, 10, 64)
				if err != nil {
					out = append(out, "bad-op")
				} else if name == "sk" {
					q.SetSkip(v)
					out = append(out, ".")
				} else {
					q.SetLimit(v)
					out = append(out, ".")
				}
			case "pr":
				other, err := ast.Parse(store, pgFilterText(arg))
				if err != nil {
					out = append(out, "perr")
				} else {
					q.SetPredicate(other.GetPredicate())
					out = append(out, ".")
				}
			default:
				out = append(out, "bad-op")
			}
		}
		return nil
	})
	if err != nil {
		return "view-error"
	}
	return strings.Join(out, "|")
}

// ---- generator

func c02HistSort(r *rng) string {
	s := pgGenSort(r)
	if r.chance(1, 8) {
		s = pgGenAliasSort(r)
	}
	return s
}

// c02GenHistOps: 2..8 ops; executions (and reads of the sort list) interleaved with the mutators of the ast.Query
// interface, so that every mutator is followed by an execution, most of them after an earlier execution / read.
func c02GenHistOps(r *rng, n int) string {
	sp, lp := pgSkipPool(n), pgLimitPool(n)
	exec := func() string { return pick(r, []string{"run", "run", "run", "cur", "cur", "it"}) }
	mut := func() string {
		switch k := r.intn(12); {
		case k < 4:
			return "ad:" + c02HistSort(r)
		case k < 5:
			return "adx:" + c02HistSort(r)
		case k < 6:
			return "ad:-"
		case k < 7:
			return "ada:" + pick(r, c02OddSorts)
		case k < 9:
			v := pgPickPaging(r, sp, n, false)
			for v == "-" {
				v = pgPickPaging(r, sp, n, false)
			}
			return "sk:" + v
		case k < 11:
			v := pgPickPaging(r, lp, n, true)
			for v == "-" || v == "none" {
				v = pgPickPaging(r, lp, n, true)
			}
			return "li:" + v
		}
		return "pr:" + pgGenFilter(r, false)
	}
	var ops []string
	if r.chance(4, 5) {
		ops = append(ops, pick(r, []string{"run", "run", "cur", "it", "get", "get"}))
	}
	rounds := 1 + r.intn(3)
	for k := 0; k < rounds; k++ {
		ops = append(ops, mut())
		if r.chance(1, 4) {
			ops = append(ops, mut())
		}
		if r.chance(1, 5) {
			ops = append(ops, "get")
		}
		ops = append(ops, exec())
		if r.chance(1, 6) {
			ops = append(ops, exec())
		}
	}
	return strings.Join(ops, "/")
}

func c02GenHistories(r *rng, out *bufio.Writer, nData, perData int) {
	// fixed shapes first: (sorting scan | id scan) executed or read, another sort clause adopted, executed again
	for _, ds := range []string{"-", "0"} {
		fmt.Fprintf(out, "h %s true s+ - - root run/ad:id-/run/get/sk:1/it/cur\n", ds)
	}
	for d := 0; d < nData; d++ {
		n := r.intn(8)
		ds := pgGenRows(r, n)
		sp, lp := pgSkipPool(n), pgLimitPool(n)
		for k := 0; k < perData; k++ {
			skip, limit := "-", "-"
			if r.chance(1, 2) {
				skip, limit = pgPickPaging(r, sp, n, false), pgPickPaging(r, lp, n, true)
			}
			filter := "true"
			if r.chance(1, 3) {
				filter = pgGenFilter(r, false)
			}
			fmt.Fprintf(out, "h %s %s %s %s %s %s %s\n", ds, filter, c02HistSort(r), skip, limit,
				pick(r, []string{"root", "root", "root", "child", "ext"}), c02GenHistOps(r, n))
		}
	}
}
