package main

// C14 — store-level cursors: the data is written with the stores' own Create / link operations,
// the cursors are the ones the stores, indexes, link collections and set symbols hand out.

import (
	"context"
	"fmt"

	"github.com/openziti/foundation/v2/errorz"
	"github.com/openziti/storage/ast"
	"github.com/openziti/storage/boltz"
	"go.etcd.io/bbolt"
)

type c14Thing struct {
	Id     string
	Roles  []string // set symbol with a set index
	Tags   []string // set symbol without index (may hold the empty string)
	Keep   bool
	Others []string
	Boss   *string
}

func (e *c14Thing) GetId() string         { return e.Id }
func (e *c14Thing) SetId(id string)       { e.Id = id }
func (e *c14Thing) GetEntityType() string { return "things" }

type c14ThingStrategy struct{}

func (c14ThingStrategy) NewEntity() *c14Thing { return &c14Thing{} }
func (c14ThingStrategy) FillEntity(e *c14Thing, b *boltz.TypedBucket) {
	e.Roles = b.GetStringList("roles")
	e.Tags = b.GetStringList("tags")
	e.Keep = b.GetBoolWithDefault("keep", false)
	e.Others = b.GetStringList("others")
	e.Boss = b.GetString("boss")
}
func (c14ThingStrategy) PersistEntity(e *c14Thing, ctx *boltz.PersistContext) {
	ctx.SetStringList("roles", e.Roles)
	ctx.SetStringList("tags", e.Tags)
	ctx.SetBool("keep", e.Keep)
	ctx.SetLinkedIds("others", e.Others)
	ctx.SetStringP("boss", e.Boss)
}

type c14Other struct {
	Id   string
	Tags []string
	Name *string
}

func (e *c14Other) GetId() string         { return e.Id }
func (e *c14Other) SetId(id string)       { e.Id = id }
func (e *c14Other) GetEntityType() string { return "others" }

type c14OtherStrategy struct{}

func (c14OtherStrategy) NewEntity() *c14Other                         { return &c14Other{} }
func (c14OtherStrategy) FillEntity(e *c14Other, b *boltz.TypedBucket) {
	e.Tags = b.GetStringList("tags")
	e.Name = b.GetString("name")
}
func (c14OtherStrategy) PersistEntity(e *c14Other, ctx *boltz.PersistContext) {
	ctx.SetStringList("tags", e.Tags)
	ctx.SetStringP("name", e.Name)
}

type c14Ext struct {
	c14Thing
	Rank int64
}

type c14ExtStrategy struct{ parent *boltz.BaseStore[*c14Thing] }

func (s c14ExtStrategy) NewEntity() *c14Ext { return &c14Ext{} }
func (s c14ExtStrategy) FillEntity(e *c14Ext, b *boltz.TypedBucket) {
	_, err := s.parent.LoadEntity(b.Tx(), e.Id, &e.c14Thing)
	b.SetError(err)
	e.Rank = b.GetInt64WithDefault("rank", 0)
}
func (s c14ExtStrategy) PersistEntity(e *c14Ext, ctx *boltz.PersistContext) {
	s.parent.GetEntityStrategy().PersistEntity(&e.c14Thing, ctx.GetParentContext())
	ctx.SetInt64("rank", e.Rank)
}

type c14Stores struct {
	things   *boltz.BaseStore[*c14Thing]
	others   *boltz.BaseStore[*c14Other]
	ext      *boltz.BaseStore[*c14Ext] // child of things (plain or extended)
	idxRoles boltz.SetReadIndex
	links    boltz.LinkCollection
	rcLinks  boltz.RefCountedLinkCollection
}

func c14NewStores(base string, extended bool) *c14Stores {
	s := &c14Stores{}
	s.things = boltz.NewBaseStore(boltz.StoreDefinition[*c14Thing]{
		EntityType:      "things",
		EntityStrategy:  c14ThingStrategy{},
		BasePath:        []string{c14Root, base},
		EntityNotFoundF: func(id string) error { return boltz.NewNotFoundError("thing", "id", id) },
	})
	s.things.InitImpl(s.things)
	s.others = boltz.NewBaseStore(boltz.StoreDefinition[*c14Other]{
		EntityType:      "others",
		EntityStrategy:  c14OtherStrategy{},
		BasePath:        []string{c14Root, base},
		EntityNotFoundF: func(id string) error { return boltz.NewNotFoundError("other", "id", id) },
	})
	s.others.InitImpl(s.others)

	s.things.AddIdSymbol("id", ast.NodeTypeString)
	symRoles := s.things.AddSetSymbol("roles", ast.NodeTypeString)
	s.idxRoles = s.things.AddSetIndex(symRoles)
	s.things.AddSetSymbol("tags", ast.NodeTypeString)
	s.things.AddSymbol("keep", ast.NodeTypeBool)
	symOthers := s.things.AddFkSetSymbol("others", s.others)
	symRc := s.things.AddFkSetSymbol("rcOthers", s.others)

	s.things.AddFkSymbol("boss", s.things)
	s.others.AddIdSymbol("id", ast.NodeTypeString)
	s.others.AddSetSymbol("tags", ast.NodeTypeString)
	s.others.AddSymbol("name", ast.NodeTypeString)
	symThings := s.others.AddFkSetSymbol("things", s.things)
	symRcThings := s.others.AddFkSetSymbol("rcThings", s.things)

	s.links = s.things.AddLinkCollection(symOthers, symThings)
	s.others.AddLinkCollection(symThings, symOthers)
	s.rcLinks = s.things.AddRefCountedLinkCollection(symRc, symRcThings)
	s.others.AddRefCountedLinkCollection(symRcThings, symRc)

	s.ext = boltz.NewBaseStore(boltz.StoreDefinition[*c14Ext]{
		EntityStrategy:  c14ExtStrategy{parent: s.things},
		BasePath:        []string{"ext"},
		Parent:          s.things,
		EntityNotFoundF: func(id string) error { return boltz.NewNotFoundError("thing", "id", id) },
		ParentMapper: func(e boltz.Entity) boltz.Entity {
			if x, ok := e.(*c14Ext); ok {
				return &x.c14Thing
			}
			return e
		},
	})
	s.ext.InitImpl(s.ext)
	if extended {
		s.ext.Extended()
	}
	s.things.GrantSymbols(s.ext)
	s.ext.AddSymbol("rank", ast.NodeTypeInt64)
	return s
}

func (s *c14Stores) init(tx *bbolt.Tx) {
	eh := &errorz.ErrorHolderImpl{}
	s.things.InitializeIndexes(tx, eh)
	s.others.InitializeIndexes(tx, eh)
	s.ext.InitializeIndexes(tx, eh)
	c14Must(eh.GetError())
}

// filter on the stored `keep` flag, evaluated through the row cursor like any filter node
type c14KeepFilter struct{}

func (c14KeepFilter) String() string         { return "keep = true" }
func (c14KeepFilter) GetType() ast.NodeType  { return ast.NodeTypeBool }
func (c14KeepFilter) Accept(ast.Visitor)     {}
func (c14KeepFilter) IsConst() bool          { return false }
func (c14KeepFilter) EvalBool(s ast.Symbols) bool {
	b := s.EvalBool("keep")
	return b != nil && *b
}

const c14E = "e" // the entity whose set-valued field is iterated

func c14Has(xs []string, x string) bool {
	for _, y := range xs {
		if x == y {
			return true
		}
	}
	return false
}

// the ids leaf of a scan / valid description, with the sets that decide how each id is stored
func c14IdsLeaf(n *c14Node) (leaf *c14Node, skip, keep, present []string, hasPresent bool) {
	switch n.kind {
	case "valid":
		leaf, skip, keep, _, _ = c14IdsLeaf(n.kids[0])
		return leaf, skip, keep, n.set, true
	case "scan":
		return n.kids[0], n.set, n.set2, nil, false
	}
	return n, nil, nil, nil, false
}

func c14StoreSetup(fx *c14Fixture, tx *bbolt.Tx, n *c14Node) {
	if n.kind == "fwd" && (n.via == "ids" || n.via == "cids" || n.via == "xids") {
		return // written by the enclosing scan / valid node
	}
	ctx := boltz.NewTxMutateContext(context.Background(), tx)
	switch n.kind {
	case "scan", "valid":
		leaf, skip, keep, present, hasPresent := c14IdsLeaf(n)
		if n.kind == "scan" && fx.parentIsValid(n) {
			return // the enclosing valid node writes the data
		}
		st := c14NewStores(fx.slot(leaf), leaf.via == "xids")
		st.init(tx)
		leaf.data = st
		for _, id := range leaf.set {
			th := c14Thing{Id: id, Keep: c14Has(keep, id)}
			childData := leaf.via != "ids" && !c14Has(skip, id)
			if hasPresent {
				childData = c14Has(present, id)
			}
			if childData {
				c14Must(st.ext.Create(ctx, &c14Ext{c14Thing: th, Rank: 1}))
			} else {
				c14Must(st.things.Create(ctx, &th))
			}
		}
		return
	}
	st := c14NewStores(fx.slot(n), false)
	n.data = st
	if n.kind == "empty" && n.via == "key" {
		return // no index bucket at all: InitializeIndexes was never run for this store
	}
	st.init(tx)
	switch {
	case n.kind == "stacked":
		for _, o := range n.world.others {
			c14Must(st.others.Create(ctx, &c14Other{Id: o.id, Tags: o.tags, Name: o.name}))
		}
		for _, t := range n.world.things {
			c14Must(st.things.Create(ctx, &c14Thing{Id: t.id, Tags: t.tags, Others: t.others, Boss: t.boss}))
		}
	case n.kind == "allof" || n.kind == "anyof":
		for _, row := range n.table {
			c14Must(st.things.Create(ctx, &c14Thing{Id: row.id, Roles: row.roles}))
		}
	case n.kind == "setsym" || n.via == "rel":
		c14Must(st.things.Create(ctx, &c14Thing{Id: c14E, Tags: n.set}))
	case n.kind == "setsymnone":
		c14Must(st.things.Create(ctx, &c14Thing{Id: "someone-else", Roles: []string{"a"}}))
	case n.via == "val":
		for i, id := range n.set {
			roles := []string{"r"}
			if i%2 == 1 {
				roles = append(roles, "q")
			}
			c14Must(st.things.Create(ctx, &c14Thing{Id: id, Roles: roles}))
		}
		c14Must(st.things.Create(ctx, &c14Thing{Id: "other!", Roles: []string{"q"}}))
	case n.via == "key" && n.kind != "empty":
		// every role of the set is held by at least one entity; some by two
		for i, role := range n.set {
			c14Must(st.things.Create(ctx, &c14Thing{Id: fmt.Sprintf("k%d", i), Roles: []string{role}}))
		}
		if len(n.set) > 1 {
			c14Must(st.things.Create(ctx, &c14Thing{Id: "kk", Roles: []string{n.set[0], n.set[len(n.set)-1]}}))
		}
	case n.via == "link" && n.kind != "empty":
		for _, id := range n.set {
			c14Must(st.others.Create(ctx, &c14Other{Id: id}))
		}
		c14Must(st.others.Create(ctx, &c14Other{Id: "unlinked!"}))
		c14Must(st.things.Create(ctx, &c14Thing{Id: c14E, Others: n.set}))
	case n.via == "rclink":
		for _, id := range n.set {
			c14Must(st.others.Create(ctx, &c14Other{Id: id}))
		}
		c14Must(st.things.Create(ctx, &c14Thing{Id: c14E}))
		for i, id := range n.set {
			for k := 0; k <= i%2; k++ {
				_, err := st.rcLinks.IncrementLinkCount(tx, []byte(c14E), []byte(id))
				c14Must(err)
			}
		}
	case n.kind == "empty":
		// rel / val / link / key on a store that holds unrelated data only
		c14Must(st.things.Create(ctx, &c14Thing{Id: "someone-else"}))
	}
}

func (fx *c14Fixture) parentIsValid(n *c14Node) bool {
	var walk func(p *c14Node) bool
	walk = func(p *c14Node) bool {
		for _, k := range p.kids {
			if k == n && p.kind == "valid" {
				return true
			}
			if walk(k) {
				return true
			}
		}
		return false
	}
	return walk(fx.root)
}

func c14StoreOpen(fx *c14Fixture, tx *bbolt.Tx, n *c14Node) ast.SetCursor {
	switch n.kind {
	case "scan":
		leaf, _, _, _, _ := c14IdsLeaf(n)
		st := leaf.data.(*c14Stores)
		if leaf.via == "ids" {
			return st.things.IterateIds(tx, c14KeepFilter{})
		}
		return st.ext.IterateIds(tx, c14KeepFilter{})
	case "valid":
		leaf, _, _, _, _ := c14IdsLeaf(n)
		st := leaf.data.(*c14Stores)
		if n.kids[0].kind == "scan" {
			return st.ext.IterateValidIds(tx, c14KeepFilter{})
		}
		return st.ext.IterateValidIds(tx, ast.BoolNodeTrue)
	}
	st := n.data.(*c14Stores)
	switch {
	case n.kind == "stacked":
		sym := st.things.GetSymbol(n.via).(boltz.RuntimeEntitySetSymbol)
		return sym.OpenCursor(tx, []byte(n.set[0]))
	case n.kind == "allof":
		return st.things.IteratorMatchingAllOf(st.idxRoles, n.set)(tx, n.fwd)
	case n.kind == "anyof":
		return st.things.IteratorMatchingAnyOf(st.idxRoles, n.set)(tx, n.fwd)
	case n.kind == "setsym" || n.kind == "setsymnone":
		sym := st.things.GetSymbol("tags").(boltz.RuntimeEntitySetSymbol)
		return sym.OpenCursor(tx, []byte(c14E))
	case n.kind == "empty" && n.via == "rel":
		return st.things.GetRelatedEntitiesCursor(tx, "missing", "tags", true)
	case n.kind == "empty" && n.via == "val":
		return st.idxRoles.OpenValueCursor(tx, []byte("norole"), true)
	case n.kind == "empty" && n.via == "link":
		return st.links.IterateLinks(tx, []byte("missing"))
	case n.kind == "empty" && n.via == "key":
		return st.idxRoles.OpenKeyCursor(tx, true)
	case n.via == "rel":
		return st.things.GetRelatedEntitiesCursor(tx, c14E, "tags", n.fwd)
	case n.via == "val":
		return st.idxRoles.OpenValueCursor(tx, []byte("r"), n.fwd)
	case n.via == "key":
		return st.idxRoles.OpenKeyCursor(tx, n.fwd)
	case n.via == "link":
		return st.links.IterateLinks(tx, []byte(c14E))
	case n.via == "rclink":
		return st.rcLinks.IterateLinks(tx, []byte(c14E), n.fwd)
	}
	panic("store open: bad node " + n.String())
}

// ---------------------------------------------------------------------------- generator shapes

var c14IdUniverse = []string{"a", "aa", "ab", "b", "\x00", "\xff", "a\x00", "\x05", "c"}
var c14RoleUniverse = []string{"r", "q", "rr", "\x00", "s"}

func c14GenTable(r *rng) []c14Row {
	ids := c14SubsetP(r, c14IdUniverse, 6, true, 2, 3)
	rows := make([]c14Row, len(ids))
	for i, id := range ids {
		rows[i] = c14Row{id: id, roles: c14SubsetP(r, c14RoleUniverse[:4], 4, true, 1, 2)}
	}
	return rows
}

func c14StoreShapes() []c14Shape {
	dirLeaf := func(r *rng, vias []string, universe []string, noEmpty bool) *c14Node {
		fwd := r.chance(1, 2)
		via := pick(r, vias)
		if via == "link" {
			fwd = true
		}
		kind := "trev"
		if fwd {
			kind = "tfwd"
		}
		return c14Leaf(kind, via, 5, c14Subset(r, universe, 7, noEmpty))
	}
	idsScan := func(r *rng, via string) *c14Node {
		ids := c14SubsetP(r, c14IdUniverse, 7, true, 2, 3)
		var skip []string
		if via == "cids" {
			skip = c14SubsetP(r, ids, len(ids), true, 1, 3)
		}
		keep := c14SubsetP(r, append(append([]string{}, ids...), "zz"), len(ids)+1, true, 2, 3)
		return &c14Node{kind: "scan", fwd: true, kids: []*c14Node{c14Leaf("fwd", via, 0, ids)}, set: skip, set2: keep}
	}
	matching := func(kind string) func(r *rng) *c14Node {
		return func(r *rng) *c14Node {
			nv := pick(r, []int{0, 1, 1, 2, 2, 2, 3})
			return &c14Node{kind: kind, fwd: r.chance(1, 2), table: c14GenTable(r), set: c14SubsetP(r, c14RoleUniverse, nv, true, 1, 1)}
		}
	}
	return []c14Shape{
		{name: "rel", seek: true, weight: 3, gen: func(r *rng) *c14Node { return dirLeaf(r, []string{"rel"}, c14Universe, false) }},
		{name: "val", seek: true, weight: 3, gen: func(r *rng) *c14Node { return dirLeaf(r, []string{"val"}, c14IdUniverse, true) }},
		{name: "link", seek: true, weight: 3, gen: func(r *rng) *c14Node {
			return dirLeaf(r, []string{"link", "rclink"}, c14IdUniverse, true)
		}},
		{name: "key", seek: true, weight: 2, gen: func(r *rng) *c14Node {
			kind := "rev"
			if r.chance(1, 2) {
				kind = "fwd"
			}
			return c14Leaf(kind, "key", 0, c14Subset(r, c14IdUniverse, 7, true))
		}},
		{name: "setsym", seek: true, seekS: true, weight: 4, gen: func(r *rng) *c14Node {
			if r.chance(1, 12) {
				return c14Leaf("setsymnone", "", 0, nil)
			}
			return c14Leaf("setsym", "", 0, c14Subset(r, c14Universe, 7, false))
		}},
		{name: "emptystore", seek: true, weight: 1, gen: func(r *rng) *c14Node {
			return c14Leaf("empty", pick(r, []string{"rel", "val", "link", "key"}), 0, nil)
		}},
		{name: "scan", seek: true, weight: 4, gen: func(r *rng) *c14Node {
			return idsScan(r, pick(r, []string{"ids", "cids"}))
		}},
		{name: "valid", seek: true, weight: 3, gen: func(r *rng) *c14Node {
			sc := idsScan(r, "xids")
			present := c14SubsetP(r, sc.kids[0].set, len(sc.kids[0].set), true, 2, 3)
			return &c14Node{kind: "valid", fwd: true, kids: []*c14Node{sc}, set: present}
		}},
		{name: "stacked", weight: 3, gen: func(r *rng) *c14Node {
			w := &c14World{}
			oids := c14SubsetP(r, []string{"o1", "o2", "o\x00", "p"}, 4, true, 2, 3)
			for _, id := range oids {
				o := c14WOther{id: id, tags: c14SubsetP(r, c14Universe, 4, false, 1, 3)}
				if r.chance(2, 3) {
					v := pick(r, []string{"", "n", "nn", "\x00"})
					o.name = &v
				}
				w.others = append(w.others, o)
			}
			tids := c14SubsetP(r, []string{"e", "t1", "t2", "t\xff"}, 4, true, 3, 4)
			for _, id := range tids {
				t := c14WThing{id: id, tags: c14SubsetP(r, c14Universe, 4, false, 1, 3), others: c14SubsetP(r, oids, len(oids), true, 2, 3)}
				if r.chance(2, 3) {
					v := pick(r, append(append([]string{}, tids...), "nobody"))
					t.boss = &v
				}
				w.things = append(w.things, t)
			}
			root := "missing"
			if len(tids) > 0 && r.chance(9, 10) {
				root = pick(r, tids)
			}
			path := pick(r, []string{"others.tags", "others.name", "boss.tags", "others.things.tags"})
			return &c14Node{kind: "stacked", fwd: true, via: path, set: []string{root}, world: w}
		}},
		{name: "allof", weight: 3, gen: matching("allof")},
		{name: "anyof", weight: 3, gen: matching("anyof")},
	}
}
