package main

// C07 — transactions are all-or-nothing and every failure reaches the caller.
// Executor and generators: c07_c08_exec.go, c07_c08_gen.go.

import "bufio"

func init() {
	register("c07", &propHarness{gen: c07Gen, exec: txExec})
}

func c07Gen(tier string, seed uint64, out *bufio.Writer) {
	p := txProfile{maxTx: 3, maxSteps: 5, failBias: 35, listeners: 3, swallow: true, batch: 8}
	txGenCommon(tier, seed, out, 220, 2, 380, 7000, p, false)
}
