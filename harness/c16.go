package main

// C16 — system entities can only be changed from a system context.
//
// Real code under test: a boltz.BaseStore of ext-entities (boltz.BaseExtEntity + name) wired like
// the fooStore of /repo/boltz/system_entities_test.go (AddExtEntitySymbols, name symbol,
// NewSystemEntityEnforcementConstraint), Create/Update/DeleteById through boltz.Db.Update with
// ordinary (boltz.NewMutateContext) and system (GetSystemContext) contexts.
//
// Case line:   H <pool> <tx> <tx> ...
//
//	pool = comma separated wire ids; tx = <top><mode>!<op>;<op>;...
//	  top  = O | S : the context handed to Db.Update is ordinary | system
//	  mode = a | k : the body aborts at the first error | ignores every error except a refused create
//	op = fields joined by ':' ; ctx = o | s (s: the operation uses ctx.GetSystemContext())
//	  c:ctx:id:flag:name:mig:cAt:uAt:tag          Create  &ent{IsSystem: flag, Name: name, Migrate: mig, CreatedAt: cAt, UpdatedAt: uAt, Tags: {"k": tag}}
//	  u:ctx:id:flag:name:checker:mig:cAt:uAt:tag  Update  checker = n (nil) | comma list of field names (may be empty: "-")
//	      mig = t|f; cAt, uAt = z (zero time) | unix seconds; tag = wire string | ~ (nil map)
//	  d:ctx:id                      DeleteById
//	  r:id                          FindById inside the transaction
//
// Output per transaction: `<op results joined by ';'>|<view of the uncommitted state after the aborting failure>|<view after the tx>`
// view = for every pool id `<id>=<exists>/<IsSystemEntity>/<name>/<tag k or ~>/<createdAt>/<updatedAt>/<raw isSystem key: - absent, t, f, ?>;`
// a timestamp is printed as z (zero time), its unix seconds when it is one of the values the generator hands out, else `now`
import (
	"bufio"
	"context"
	"errors"
	"fmt"
	"os"
	"path/filepath"
	"strconv"
	"strings"
	"time"

	"github.com/openziti/foundation/v2/errorz"
	"github.com/openziti/storage/ast"
	"github.com/openziti/storage/boltz"
	"go.etcd.io/bbolt"
)

func init() {
	register("c16", &propHarness{gen: c16Gen, exec: c16Exec})
}

const (
	c16Root = "u"
	c16Type = "foos"
)

type c16Ent struct {
	boltz.BaseExtEntity
	Name string
}

func (e *c16Ent) GetEntityType() string { return c16Type }

type c16Strategy struct{}

func (c16Strategy) NewEntity() *c16Ent { return new(c16Ent) }
func (c16Strategy) FillEntity(e *c16Ent, b *boltz.TypedBucket) {
	e.LoadBaseValues(b)
	e.Name = b.GetStringOrError("name")
}
func (c16Strategy) PersistEntity(e *c16Ent, ctx *boltz.PersistContext) {
	e.SetBaseValues(ctx)
	ctx.SetString("name", e.Name)
}

type c16Env struct {
	db    *boltz.DbImpl
	store *boltz.BaseStore[*c16Ent]
}

func c16Open() *c16Env {
	dir, err := os.MkdirTemp("", "verif-*")
	if err != nil {
		panic(err)
	}
	db, err := boltz.Open(filepath.Join(dir, "c16.db"), c16Root)
	if err != nil {
		panic(err)
	}
	// the file stays usable through bbolt's open descriptor; nothing is left behind
	_ = os.RemoveAll(dir)
	def := boltz.StoreDefinition[*c16Ent]{
		EntityType:     c16Type,
		EntityStrategy: c16Strategy{},
		BasePath:       []string{c16Root},
		EntityNotFoundF: func(id string) error {
			return boltz.NewNotFoundError(boltz.GetSingularEntityType(c16Type), "id", id)
		},
	}
	st := boltz.NewBaseStore(def)
	st.InitImpl(st)
	st.AddExtEntitySymbols()
	st.AddSymbol("name", ast.NodeTypeString)
	st.AddConstraint(boltz.NewSystemEntityEnforcementConstraint(st))
	return &c16Env{db: db, store: st}
}

func (e *c16Env) wipe() {
	err := e.db.Update(nil, func(ctx boltz.MutateContext) error {
		tx := ctx.Tx()
		var names [][]byte
		_ = tx.ForEach(func(name []byte, _ *bbolt.Bucket) error {
			names = append(names, append([]byte{}, name...))
			return nil
		})
		for _, n := range names {
			if err := tx.DeleteBucket(n); err != nil {
				return err
			}
		}
		return nil
	})
	if err != nil {
		panic(err)
	}
}

var c16env *c16Env

func c16Err(err error) string {
	if err == nil {
		return "ok"
	}
	msg := err.Error()
	var api *errorz.ApiError
	if errors.As(err, &api) {
		switch api.Code {
		case errorz.EntityCanNotBeUpdatedCode:
			if api.Cause != nil && strings.Contains(api.Cause.Error(), "cannot update system") {
				return "!sysUpdate"
			}
			return "!cannot-update(" + strings.ReplaceAll(msg, " ", "_") + ")"
		case errorz.EntityCanNotBeDeletedCode:
			if api.Cause != nil && strings.Contains(api.Cause.Error(), "cannot delete system") {
				return "!sysDelete"
			}
			return "!cannot-delete(" + strings.ReplaceAll(msg, " ", "_") + ")"
		}
	}
	switch {
	case boltz.IsErrNotFoundErr(err):
		return "!notFound"
	case strings.Contains(msg, "cannot create system"):
		return "!sysCreate"
	case strings.Contains(msg, "already exists"):
		return "!exists"
	case strings.Contains(msg, "blank id"):
		return "!blank"
	}
	return "!other(" + strings.ReplaceAll(msg, " ", "_") + ")"
}

type c16Checker map[string]struct{}

func (c c16Checker) IsUpdated(f string) bool { _, ok := c[f]; return ok }

func c16B(b bool) string {
	if b {
		return "t"
	}
	return "f"
}

var c16Stamps = []string{"z", "1000", "2000", "3000"}

func c16Time(tok string) time.Time {
	if tok == "z" {
		return time.Time{}
	}
	n, err := strconv.ParseInt(tok, 10, 64)
	if err != nil {
		panic(err)
	}
	return time.Unix(n, 0).UTC()
}

func c16ShowTime(t time.Time) string {
	if t.IsZero() {
		return "z"
	}
	if t.Nanosecond() == 0 {
		for _, tok := range c16Stamps[1:] {
			if strconv.FormatInt(t.Unix(), 10) == tok {
				return tok
			}
		}
	}
	return "now"
}

// the whole in-memory entity: every field of BaseExtEntity and the name
func c16Entity(id, flag, name, mig, cAt, uAt, tag string) *c16Ent {
	ent := &c16Ent{BaseExtEntity: boltz.BaseExtEntity{Id: fromWire(id), IsSystem: flag == "t", Migrate: mig == "t",
		CreatedAt: c16Time(cAt), UpdatedAt: c16Time(uAt)}, Name: fromWire(name)}
	if tag != "~" {
		ent.Tags = map[string]interface{}{"k": fromWire(tag)}
	}
	return ent
}

func c16Tag(ent *c16Ent) string {
	if v, ok := ent.Tags["k"]; ok {
		if sv, ok := v.(string); ok {
			return toWire(sv)
		}
		return "?"
	}
	return "~"
}

func (e *c16Env) op(top boltz.MutateContext, op string) string {
	f := strings.Split(op, ":")
	ctxOf := func(k string) boltz.MutateContext {
		if k == "s" {
			return top.GetSystemContext()
		}
		return top
	}
	switch f[0] {
	case "c":
		ent := c16Entity(f[2], f[3], f[4], f[5], f[6], f[7], f[8])
		return c16Err(e.store.Create(ctxOf(f[1]), ent))
	case "u":
		ent := c16Entity(f[2], f[3], f[4], f[6], f[7], f[8], f[9])
		var checker boltz.FieldChecker
		if f[5] != "n" {
			c := c16Checker{}
			if f[5] != "-" {
				for _, n := range strings.Split(f[5], ",") {
					c[n] = struct{}{}
				}
			}
			checker = c
		}
		return c16Err(e.store.Update(ctxOf(f[1]), ent, checker))
	case "d":
		return c16Err(e.store.DeleteById(ctxOf(f[1]), fromWire(f[2])))
	case "r":
		ent, found, err := e.store.FindById(top.Tx(), fromWire(f[1]))
		if err != nil {
			return c16Err(err)
		}
		if !found {
			return "none"
		}
		return c16B(ent.IsSystemEntity()) + "/" + toWire(ent.Name)
	}
	panic("bad op " + op)
}

func (e *c16Env) view(tx *bbolt.Tx, pool []string) string {
	var b strings.Builder
	for _, id := range pool {
		ent, found, err := e.store.FindById(tx, id)
		b.WriteString(toWire(id) + "=")
		switch {
		case err != nil:
			b.WriteString("error")
		case !found:
			b.WriteString("f//////-")
		default:
			raw := "-"
			if bucket := e.store.GetEntityBucket(tx, []byte(id)); bucket != nil {
				if v := bucket.Get([]byte(boltz.FieldIsSystemEntity)); v != nil {
					switch {
					case len(v) == 2 && boltz.FieldType(v[0]) == boltz.TypeBool && v[1] == 1:
						raw = "t"
					case len(v) == 2 && boltz.FieldType(v[0]) == boltz.TypeBool && v[1] == 0:
						raw = "f"
					default:
						raw = "?"
					}
				}
			}
			b.WriteString("t/" + c16B(ent.IsSystemEntity()) + "/" + toWire(ent.Name) + "/" + c16Tag(ent) + "/" +
				c16ShowTime(ent.CreatedAt) + "/" + c16ShowTime(ent.UpdatedAt) + "/" + raw)
		}
		b.WriteString(";")
	}
	// entities outside the pool would be a harness/generator mistake: make them visible
	if eb := e.store.GetEntitiesBucket(tx); eb != nil {
		n := 0
		_ = eb.ForEach(func(k, v []byte) error {
			known := false
			for _, id := range pool {
				if id == string(k) {
					known = true
				}
			}
			if !known {
				n++
			}
			return nil
		})
		if n > 0 {
			fmt.Fprintf(&b, "EXTRA:%d", n)
		}
	}
	return b.String()
}

func c16Exec(line string) string {
	if c16env == nil {
		c16env = c16Open()
	}
	e := c16env
	e.wipe()
	f := fields(line)
	var pool []string
	for _, w := range strings.Split(f[1], ",") {
		pool = append(pool, fromWire(w))
	}
	var out []string
	for _, tx := range f[2:] {
		head, body, _ := strings.Cut(tx, "!")
		ops := strings.Split(body, ";")
		keepGoing := head[1] == 'k'
		var top boltz.MutateContext = boltz.NewMutateContext(context.Background())
		if head[0] == 'S' {
			top = top.GetSystemContext()
		}
		var results []string
		partial := ""
		err := e.db.Update(top, func(ctx boltz.MutateContext) error {
			for _, op := range ops {
				r := e.op(ctx, op)
				results = append(results, r)
				if strings.HasPrefix(r, "!") && !(keepGoing && r != "!sysCreate") {
					partial = e.view(ctx.Tx(), pool)
					return fmt.Errorf("op failed")
				}
			}
			return nil
		})
		if err != nil && partial == "" {
			results = append(results, "commit-error("+strings.ReplaceAll(err.Error(), " ", "_")+")")
		}
		var after string
		_ = e.db.View(func(tx *bbolt.Tx) error {
			after = e.view(tx, pool)
			return nil
		})
		out = append(out, strings.Join(results, ";")+"|"+partial+"|"+after)
	}
	return strings.Join(out, " ")
}

// ---------------------------------------------------------------------------- generator

var c16Ids = []string{"a", "b", "c", "sys", "a\x00", "é"}
var c16Names = []string{"n0", "n1", "n2", "", "x y", "true"}
var c16Tags = []string{"~", "~", "t0", "t1", ""}
var c16Checkers = []string{"n", "n", "name", "isSystem", "name,isSystem", "-", "tags", "name,tags", "isSystem,tags",
	"createdAt,updatedAt,isSystem", "name,tags,isSystem,createdAt,updatedAt"}

func c16Gen(tier string, seed uint64, out *bufio.Writer) {
	r := newRng(seed)
	c16Exhaustive(out)
	n := 2000
	if tier == "thorough" {
		n = 40000
	}
	for i := 0; i < n; i++ {
		c16History(r, out)
	}
}

// rest of the in-memory entity: Migrate, CreatedAt, UpdatedAt, Tags
func c16Rest(mig, cAt, uAt, tag string) string {
	if tag != "~" {
		tag = toWire(tag)
	}
	return mig + ":" + cAt + ":" + uAt + ":" + tag
}

// every (creation context, creation flag, creation Migrate) x (second operation kind, its context, its flag,
// its Migrate, checker) x (same transaction | later transaction) x (abort | keep going), then a read-back
func c16Exhaustive(out *bufio.Writer) {
	id := toWire("a")
	for _, cctx := range []string{"o", "s"} {
		for _, cflag := range []string{"t", "f"} {
			for _, cmig := range []string{"t", "f"} {
				create := "c:" + cctx + ":" + id + ":" + cflag + ":" + toWire("n0") + ":" + c16Rest(cmig, "1000", "2000", "t0")
				var seconds []string
				for _, octx := range []string{"o", "s"} {
					seconds = append(seconds, "d:"+octx+":"+id)
					seconds = append(seconds, "c:"+octx+":"+id+":t:"+toWire("n2")+":"+c16Rest("t", "3000", "3000", "~"))
					for _, uflag := range []string{"t", "f"} {
						for _, umig := range []string{"t", "f"} {
							for _, ch := range []string{"n", "name", "isSystem", "name,isSystem,tags,createdAt,updatedAt", "-"} {
								seconds = append(seconds, "u:"+octx+":"+id+":"+uflag+":"+toWire("n1")+":"+ch+":"+c16Rest(umig, "3000", "z", "t1"))
							}
						}
					}
				}
				for _, snd := range seconds {
					for _, mode := range []string{"a", "k"} {
						for _, top := range []string{"O", "S"} {
							fmt.Fprintf(out, "H %s %s%s!%s;%s %s%s!r:%s\n", id, top, mode, create, snd, "O", "a", id)
							fmt.Fprintf(out, "H %s %s%s!%s %s%s!%s;r:%s O%s!u:o:%s:f:%s:n:%s\n", id, top, "a", create, top, mode, snd, id, mode, id, toWire("n2"), c16Rest("f", "z", "z", "~"))
						}
					}
				}
			}
		}
	}
}

func c16History(r *rng, out *bufio.Writer) {
	np := 2 + r.intn(3)
	seen := map[string]bool{}
	var pool []string
	for len(pool) < np {
		id := pick(r, c16Ids)
		if !seen[id] {
			seen[id] = true
			pool = append(pool, id)
		}
	}
	var wp []string
	for _, p := range pool {
		wp = append(wp, toWire(p))
	}
	ntx := 2 + r.intn(6)
	var txs []string
	for t := 0; t < ntx; t++ {
		top := "O"
		if r.chance(1, 4) {
			top = "S"
		}
		mode := "a"
		if r.chance(1, 3) {
			mode = "k"
		}
		nops := 1 + r.intn(4)
		var ops []string
		for o := 0; o < nops; o++ {
			id := toWire(pick(r, pool))
			ctx := "o"
			if top == "S" || r.chance(2, 5) {
				ctx = "s"
			}
			flag := "f"
			if r.chance(1, 2) {
				flag = "t"
			}
			mig := "f"
			if r.chance(2, 5) {
				mig = "t"
			}
			rest := c16Rest(mig, pick(r, c16Stamps), pick(r, c16Stamps), pick(r, c16Tags))
			name := toWire(pick(r, c16Names))
			switch w := r.intn(100); {
			case w < 35:
				ops = append(ops, "c:"+ctx+":"+id+":"+flag+":"+name+":"+rest)
			case w < 36:
				ops = append(ops, "c:"+ctx+":-:"+flag+":"+name+":"+rest)
			case w < 70:
				ops = append(ops, "u:"+ctx+":"+id+":"+flag+":"+name+":"+pick(r, c16Checkers)+":"+rest)
			case w < 90:
				ops = append(ops, "d:"+ctx+":"+id)
			default:
				ops = append(ops, "r:"+id)
			}
		}
		txs = append(txs, top+mode+"!"+strings.Join(ops, ";"))
	}
	fmt.Fprintf(out, "H %s %s\n", strings.Join(wp, ","), strings.Join(txs, " "))
}
