package main

// C16 — system entities can only be changed from a system context.
//
// Real code under test (exported API only), one universe of four stores on one bolt file:
//
//	O  "owners"  plain entities (id only); link set `foos` <-> S.peers
//	S  "foos"    boltz.BaseExtEntity + name + owner: wired like the fooStore of /repo/boltz/system_entities_test.go
//	             (AddExtEntitySymbols, name symbol), fk `owner` -> O  (AddFkConstraint nullable, CascadeDelete: deleting an
//	             owner runs S.DeleteById for every foo that refers to it, with the context fkDeleteCascadeConstraint chooses),
//	             link collection peers <-> O.foos, then NewSystemEntityEnforcementConstraint
//	C  child store of S (path ["ext"], plain): level string; PersistEntity persists the parent part through
//	             ctx.GetParentContext() (IsCreate is kept); S.Update is delegated to C when child data exist
//	             (ChildStoreUpdateHandler), S.DeleteById walks the child store's delete constraints
//
// Create/Update/DeleteById/DeleteWhere run through boltz.Db.Update with ordinary (boltz.NewMutateContext) and system
// (GetSystemContext) contexts, optionally inside a nested Db.Update.
//
// Case line:   <kind> <pool>[/<owner pool>] <tx> <tx> ...
//
//	kind = H | HC | HB | HN : the system entity constraint is registered on S | on the child store C only (through the
//	       isSystem symbol S grants) | on both | nowhere;  HP : on S, and S is a PLAIN store: no child store exists
//
//	pool = comma separated wire ids; tx = <top><mode>!<op>;<op>;...
//	  top  = O | S : the context handed to Db.Update is ordinary | system
//	  mode = a | k : the body aborts at the first error | ignores the errors that leave the open transaction untouched
//	         (not found, already exists, blank id, refused update, refused direct delete) and commits
//	op = fields joined by ':' ; ctx = o | s | n | m
//	      o: the transaction's context; s: ctx.GetSystemContext();
//	      n: the operation runs inside a nested db.Update(ctx.GetSystemContext(), ...)
//	      m: ctx.GetSystemContext() is derived (and dropped), then the operation runs in a nested db.Update(ctx, ...)
//	  c:ctx:id:flag:name:mig:cAt:uAt:tag[:owner]          S.Create  &ent{IsSystem: flag, Name: name, Migrate: mig, CreatedAt: cAt, UpdatedAt: uAt, Tags: {"k": tag}, Owner: owner}
//	  u:ctx:id:flag:name:checker:mig:cAt:uAt:tag[:owner]  S.Update  checker = n (nil) | comma list of field names (may be empty: "-")
//	      mig = t|f; cAt, uAt = z (zero time) | unix seconds; tag = wire string | ~ (nil map); owner = wire id ("-" = none)
//	  b:ctx:id:checker                                    S.Update of the entity just loaded with S.FindById, unchanged (write-back)
//	  d:ctx:id                                            S.DeleteById
//	  C:ctx:id:flag:name:mig:cAt:uAt:tag:owner:level      C.Create (child store; the parent part may already exist)
//	  U:ctx:id:flag:name:checker:mig:cAt:uAt:tag:owner:level   C.Update
//	  D:ctx:id                                            C.DeleteById
//	  oc:ctx:id | od:ctx:id                               O.Create | O.DeleteById (cascades to the referring foos)
//	  w:ctx:T | w:ctx:n:<name> | w:ctx:o:<owner> | w:ctx:s:<t|f>   S.DeleteWhere(true | name = | owner = | isSystem =)
//	  l:<foo>:<owner> | x:<foo>:<owner>                   peers link collection: AddLinks | RemoveLinks (bare *bbolt.Tx, no context)
//	  r:id                                                FindById inside the transaction
//	  z:id:del | z:id:nil | z:id:set:<name>               raw write of the `name` key of the entity bucket on the bare transaction
//	                                                      (key deleted | nil value | string): FillEntity reads it with GetStringOrError
//
// Output per transaction: `<op results joined by ';'>|<view of the uncommitted state after the aborting failure>|<view after the tx>`
// view = for every pool id `<id>=<exists>/<IsSystemEntity>/<name>/<tag k or ~>/<createdAt>/<updatedAt>/<owner>/<level or ~>/<peers>/<raw isSystem key: - absent, t, f, ?>;`
// then for every owner pool id `@<id>=<t|f>;`
// a timestamp is printed as z (zero time), its unix seconds when it is one of the values the generator hands out, else `now`
import (
	"bufio"
	"context"
	"errors"
	"fmt"
	"os"
	"path/filepath"
	"sort"
	"strconv"
	"strings"
	"time"

	"github.com/openziti/foundation/v2/errorz"
	"github.com/openziti/storage/ast"
	"github.com/openziti/storage/boltz"
	"go.etcd.io/bbolt"
)

func init() {
	register("c16", &propHarness{gen: c16Gen, exec: c16Exec})
}

const (
	c16Root      = "u"
	c16Type      = "foos"
	c16OwnerType = "owners"
)

type c16Owner struct{ Id string }

func (e *c16Owner) GetId() string         { return e.Id }
func (e *c16Owner) SetId(id string)       { e.Id = id }
func (e *c16Owner) GetEntityType() string { return c16OwnerType }

type c16OwnerStrategy struct{}

func (c16OwnerStrategy) NewEntity() *c16Owner                           { return new(c16Owner) }
func (c16OwnerStrategy) FillEntity(*c16Owner, *boltz.TypedBucket)       {}
func (c16OwnerStrategy) PersistEntity(*c16Owner, *boltz.PersistContext) {}

type c16Ent struct {
	boltz.BaseExtEntity
	Name  string
	Owner string
	// wide strategies (c16_wide.go): the first derived copy that disagrees with the field it was derived from
	Bad string
}

func (e *c16Ent) GetEntityType() string { return c16Type }

type c16Strategy struct{ wide bool }

func (c16Strategy) NewEntity() *c16Ent { return new(c16Ent) }
func (s c16Strategy) FillEntity(e *c16Ent, b *boltz.TypedBucket) {
	e.LoadBaseValues(b)
	e.Name = b.GetStringOrError("name")
	e.Owner = b.GetStringWithDefault("owner", "")
	e.Bad = ""
	if s.wide {
		e.Bad = c16WideCheck(b, "name", e.Name)
	}
}
func (s c16Strategy) PersistEntity(e *c16Ent, ctx *boltz.PersistContext) {
	e.SetBaseValues(ctx)
	if s.wide {
		// the same fields through other setters, and a copy of the name through every remaining one (c16_wide.go)
		ctx.GetAndSetString("name", e.Name)
		c16WidePersist(ctx, "name", e.Name)
		ctx.SetStringP("owner", &e.Owner)
		return
	}
	ctx.SetString("name", e.Name)
	ctx.SetString("owner", e.Owner)
}

// child (extension) entity: the parent part is persisted through ctx.GetParentContext()
type c16Kid struct {
	c16Ent
	Level string
}

type c16KidStrategy struct {
	parent *boltz.BaseStore[*c16Ent]
	wide   bool
}

func (s *c16KidStrategy) NewEntity() *c16Kid { return new(c16Kid) }
func (s *c16KidStrategy) FillEntity(e *c16Kid, b *boltz.TypedBucket) {
	_, err := s.parent.LoadEntity(b.Tx(), e.Id, &e.c16Ent)
	b.SetError(err)
	e.Level = b.GetStringWithDefault("level", "")
	if s.wide && e.Bad == "" {
		e.Bad = c16WideCheck(b, "level", e.Level)
	}
}
func (s *c16KidStrategy) PersistEntity(e *c16Kid, ctx *boltz.PersistContext) {
	s.parent.GetEntityStrategy().PersistEntity(&e.c16Ent, ctx.GetParentContext())
	if s.wide {
		ctx.SetStringP("level", &e.Level)
		c16WidePersist(ctx, "level", e.Level)
		return
	}
	ctx.SetString("level", e.Level)
}

type c16Env struct {
	db     *boltz.DbImpl
	owners *boltz.BaseStore[*c16Owner]
	store  *boltz.BaseStore[*c16Ent]
	kids   *boltz.BaseStore[*c16Kid]
	peers  boltz.LinkCollection
}

// reg: where the system entity constraint is registered: "S" (the parent store), "C" (the child store only, through
// the isSystem symbol the parent grants), "B" (both), "N" (nowhere); "P": the PLAIN shape — constraint on S and no
// child store at all (S has neither a parent nor child store strategies)
func c16Open(reg string, wide bool) *c16Env {
	dir, err := os.MkdirTemp("", "verif-*")
	if err != nil {
		panic(err)
	}
	db, err := boltz.Open(filepath.Join(dir, "c16.db"), c16Root)
	if err != nil {
		panic(err)
	}
	// the file stays usable through bbolt's open descriptor; nothing is left behind
	_ = os.RemoveAll(dir)
	// a scratch database: no fsync per commit (commit / rollback semantics are unaffected)
	_ = db.Update(nil, func(ctx boltz.MutateContext) error {
		ctx.Tx().DB().NoSync = true
		ctx.Tx().DB().NoFreelistSync = true
		return nil
	})

	owners := boltz.NewBaseStore(boltz.StoreDefinition[*c16Owner]{
		EntityType:     c16OwnerType,
		EntityStrategy: c16OwnerStrategy{},
		BasePath:       []string{c16Root},
		EntityNotFoundF: func(id string) error {
			return boltz.NewNotFoundError(boltz.GetSingularEntityType(c16OwnerType), "id", id)
		},
	})
	owners.InitImpl(owners)

	notFound := func(id string) error {
		return boltz.NewNotFoundError(boltz.GetSingularEntityType(c16Type), "id", id)
	}
	st := boltz.NewBaseStore(boltz.StoreDefinition[*c16Ent]{
		EntityType:      c16Type,
		EntityStrategy:  c16Strategy{wide: wide},
		BasePath:        []string{c16Root},
		EntityNotFoundF: notFound,
	})
	st.InitImpl(st)

	var kids *boltz.BaseStore[*c16Kid]
	if reg != "P" {
		kids = boltz.NewBaseStore(boltz.StoreDefinition[*c16Kid]{
			EntityStrategy: &c16KidStrategy{parent: st, wide: wide},
			BasePath:       []string{"ext"},
			Parent:         st,
			ParentMapper: func(entity boltz.Entity) boltz.Entity {
				if k, ok := entity.(*c16Kid); ok {
					return &k.c16Ent
				}
				return entity
			},
			EntityNotFoundF: notFound,
		})
		kids.InitImpl(kids)
		// an update through S of an entity that has child data is handed to the child store (its stored level is kept)
		st.RegisterChildStoreStrategy(&boltz.ChildStoreUpdateHandler[*c16Ent, *c16Kid]{
			Store: kids,
			Mapper: func(ctx boltz.MutateContext, parent *c16Ent) (*c16Kid, bool) {
				if !kids.IsEntityPresent(ctx.Tx(), parent.Id) {
					return nil, false
				}
				child, found, _ := kids.FindById(ctx.Tx(), parent.Id)
				if !found || child == nil {
					return nil, false
				}
				child.c16Ent = *parent
				return child, true
			},
		})
	}

	owners.AddIdSymbol("id", ast.NodeTypeString)
	st.AddExtEntitySymbols()
	st.AddSymbol("name", ast.NodeTypeString)
	ownerSym := st.AddFkSymbol("owner", owners)
	st.AddFkConstraint(ownerSym, true, boltz.CascadeDelete)
	peersSym := st.AddFkSetSymbol("peers", owners)
	foosSym := owners.AddFkSetSymbol("foos", st)
	peers := st.AddLinkCollection(peersSym, foosSym)
	owners.AddLinkCollection(foosSym, peersSym)
	if reg == "S" || reg == "B" || reg == "P" {
		st.AddConstraint(boltz.NewSystemEntityEnforcementConstraint(st))
	}
	if kids != nil {
		st.GrantSymbols(kids)
		kids.AddSymbol("level", ast.NodeTypeString)
	}
	if reg == "C" || reg == "B" {
		kids.AddConstraint(boltz.NewSystemEntityEnforcementConstraint(kids))
	}
	return &c16Env{db: db, owners: owners, store: st, kids: kids, peers: peers}
}

func (e *c16Env) wipe() {
	err := e.db.Update(nil, func(ctx boltz.MutateContext) error {
		tx := ctx.Tx()
		var names [][]byte
		_ = tx.ForEach(func(name []byte, _ *bbolt.Bucket) error {
			names = append(names, append([]byte{}, name...))
			return nil
		})
		for _, n := range names {
			if err := tx.DeleteBucket(n); err != nil {
				return err
			}
		}
		return nil
	})
	if err != nil {
		panic(err)
	}
}

var c16envs = map[string]*c16Env{}

// first token of a case line: H (constraint on S), HC (on C only), HB (on both), HN (nowhere), HP (constraint on S,
// plain shape: no child store exists; the generator issues no child-store operations)
func c16Reg(kind string) string {
	switch kind {
	case "H":
		return "S"
	case "HC":
		return "C"
	case "HB":
		return "B"
	case "HN":
		return "N"
	case "HP":
		return "P"
	}
	panic("bad case kind " + kind)
}

func c16Err(err error) string {
	if err == nil {
		return "ok"
	}
	msg := err.Error()
	var api *errorz.ApiError
	if errors.As(err, &api) {
		switch api.Code {
		case errorz.EntityCanNotBeUpdatedCode:
			if api.Cause != nil && strings.Contains(api.Cause.Error(), "cannot update system") {
				return "!sysUpdate"
			}
			return "!cannot-update(" + strings.ReplaceAll(msg, " ", "_") + ")"
		case errorz.EntityCanNotBeDeletedCode:
			if api.Cause != nil && strings.Contains(api.Cause.Error(), "cannot delete system") {
				return "!sysDelete"
			}
			return "!cannot-delete(" + strings.ReplaceAll(msg, " ", "_") + ")"
		}
	}
	var nf *boltz.RecordNotFoundError
	switch {
	case errors.As(err, &nf):
		if nf.EntityType == boltz.GetSingularEntityType(c16OwnerType) && nf.Field == "id" {
			return "!noOwner"
		}
		return "!notFound"
	case strings.Contains(msg, "non-nullable field name is null"):
		// FillEntity could not load the stored data (c16_load.go): FindById / LoadEntity return the bucket's error
		return "!loadErr"
	case strings.Contains(msg, "cannot create system"):
		return "!sysCreate"
	case strings.Contains(msg, "already exists"):
		return "!exists"
	case strings.Contains(msg, "blank id"):
		return "!blank"
	case strings.HasPrefix(msg, c16Type+" not found with id"):
		// linkCollectionImpl.getFieldBucket: the entity whose links are edited does not exist
		return "!notFound"
	}
	return "!other(" + strings.ReplaceAll(msg, " ", "_") + ")"
}

// c16Ignorable: the failures a keep-going body carries on after (they leave the open transaction untouched)
func c16Ignorable(r string) bool {
	switch r {
	case "!notFound", "!exists", "!blank", "!sysUpdate", "!sysDelete", "!loadErr":
		return true
	}
	return false
}

type c16Checker map[string]struct{}

// a derived copy `<field>.<x>` (wide strategies) counts as `<field>`
func (c c16Checker) IsUpdated(f string) bool {
	if i := strings.IndexByte(f, '.'); i >= 0 {
		f = f[:i]
	}
	_, ok := c[f]
	return ok
}

func c16B(b bool) string {
	if b {
		return "t"
	}
	return "f"
}

var c16Stamps = []string{"z", "1000", "2000", "3000"}

func c16Time(tok string) time.Time {
	if tok == "z" {
		return time.Time{}
	}
	n, err := strconv.ParseInt(tok, 10, 64)
	if err != nil {
		panic(err)
	}
	return time.Unix(n, 0).UTC()
}

func c16ShowTime(t time.Time) string {
	if t.IsZero() {
		return "z"
	}
	if t.Nanosecond() == 0 {
		for _, tok := range c16Stamps[1:] {
			if strconv.FormatInt(t.Unix(), 10) == tok {
				return tok
			}
		}
	}
	return "now"
}

// the whole in-memory entity: every field of BaseExtEntity, the name and the owner
func c16Entity(id, flag, name, mig, cAt, uAt, tag, owner string) *c16Ent {
	ent := &c16Ent{BaseExtEntity: boltz.BaseExtEntity{Id: fromWire(id), IsSystem: flag == "t", Migrate: mig == "t",
		CreatedAt: c16Time(cAt), UpdatedAt: c16Time(uAt)}, Name: fromWire(name), Owner: fromWire(owner)}
	if tag != "~" {
		ent.Tags = map[string]interface{}{"k": fromWire(tag)}
	}
	return ent
}

func c16Tag(ent *c16Ent) string {
	if v, ok := ent.Tags["k"]; ok {
		if sv, ok := v.(string); ok {
			return toWire(sv)
		}
		return "?"
	}
	return "~"
}

func c16MkChecker(f string) boltz.FieldChecker {
	if f == "n" {
		return nil
	}
	c := c16Checker{}
	if f != "-" {
		for _, n := range strings.Split(f, ",") {
			c[n] = struct{}{}
		}
	}
	return c
}

func c16Opt(f []string, i int) string {
	if i < len(f) {
		return f[i]
	}
	return "-"
}

// the operation's context kind decides how the store call is issued
func (e *c16Env) with(top boltz.MutateContext, kind string, f func(ctx boltz.MutateContext) error) error {
	switch kind {
	case "o":
		return f(top)
	case "s":
		return f(top.GetSystemContext())
	case "n":
		return e.db.Update(top.GetSystemContext(), f)
	case "m":
		sys := top.GetSystemContext()
		_ = sys.IsSystemContext()
		return e.db.Update(top, f)
	}
	panic("bad context kind " + kind)
}

func (e *c16Env) op(top boltz.MutateContext, op string) string {
	f := strings.Split(op, ":")
	switch f[0] {
	case "c":
		ent := c16Entity(f[2], f[3], f[4], f[5], f[6], f[7], f[8], c16Opt(f, 9))
		return c16Err(e.with(top, f[1], func(ctx boltz.MutateContext) error { return e.store.Create(ctx, ent) }))
	case "u":
		ent := c16Entity(f[2], f[3], f[4], f[6], f[7], f[8], f[9], c16Opt(f, 10))
		checker := c16MkChecker(f[5])
		return c16Err(e.with(top, f[1], func(ctx boltz.MutateContext) error { return e.store.Update(ctx, ent, checker) }))
	case "b":
		// write-back: the entity is loaded from the store and handed to Update as it is (checker as for u)
		checker := c16MkChecker(f[3])
		return c16Err(e.with(top, f[1], func(ctx boltz.MutateContext) error {
			ent, found, err := e.store.FindById(ctx.Tx(), fromWire(f[2]))
			if err != nil {
				return err
			}
			if !found {
				return boltz.NewNotFoundError(boltz.GetSingularEntityType(c16Type), "id", fromWire(f[2]))
			}
			return e.store.Update(ctx, ent, checker)
		}))
	case "d":
		return c16Err(e.with(top, f[1], func(ctx boltz.MutateContext) error { return e.store.DeleteById(ctx, fromWire(f[2])) }))
	case "C":
		kid := &c16Kid{c16Ent: *c16Entity(f[2], f[3], f[4], f[5], f[6], f[7], f[8], f[9]), Level: fromWire(f[10])}
		return c16Err(e.with(top, f[1], func(ctx boltz.MutateContext) error { return e.kids.Create(ctx, kid) }))
	case "U":
		kid := &c16Kid{c16Ent: *c16Entity(f[2], f[3], f[4], f[6], f[7], f[8], f[9], f[10]), Level: fromWire(f[11])}
		checker := c16MkChecker(f[5])
		return c16Err(e.with(top, f[1], func(ctx boltz.MutateContext) error { return e.kids.Update(ctx, kid, checker) }))
	case "D":
		return c16Err(e.with(top, f[1], func(ctx boltz.MutateContext) error { return e.kids.DeleteById(ctx, fromWire(f[2])) }))
	case "oc":
		return c16Err(e.with(top, f[1], func(ctx boltz.MutateContext) error {
			return e.owners.Create(ctx, &c16Owner{Id: fromWire(f[2])})
		}))
	case "od":
		r := c16Err(e.with(top, f[1], func(ctx boltz.MutateContext) error { return e.owners.DeleteById(ctx, fromWire(f[2])) }))
		if r == "!noOwner" {
			// entityNotFoundF of the owners store: the owner itself does not exist
			return "!notFound"
		}
		if strings.HasPrefix(r, "!") {
			return "!via:" + r[1:]
		}
		return r
	case "w":
		var q string
		switch f[2] {
		case "T":
			q = "true"
		case "n":
			q = fmt.Sprintf(`name = "%s"`, fromWire(f[3]))
		case "o":
			q = fmt.Sprintf(`owner = "%s"`, fromWire(f[3]))
		case "s":
			q = "isSystem = " + map[string]string{"t": "true", "f": "false"}[f[3]]
		default:
			panic("bad query " + op)
		}
		r := c16Err(e.with(top, f[1], func(ctx boltz.MutateContext) error { return e.store.DeleteWhere(ctx, q) }))
		if strings.HasPrefix(r, "!") {
			return "!via:" + r[1:]
		}
		return r
	case "l":
		return c16Err(e.peers.AddLinks(top.Tx(), fromWire(f[1]), fromWire(f[2])))
	case "x":
		return c16Err(e.peers.RemoveLinks(top.Tx(), fromWire(f[1]), fromWire(f[2])))
	case "z":
		return e.rawName(top.Tx(), f)
	case "r":
		ent, found, err := e.store.FindById(top.Tx(), fromWire(f[1]))
		if err != nil {
			return c16Err(err)
		}
		if !found {
			return "none"
		}
		return c16B(ent.IsSystemEntity()) + "/" + toWire(ent.Name)
	}
	panic("bad op " + op)
}

func (e *c16Env) view(tx *bbolt.Tx, pool, opool []string) string {
	var b strings.Builder
	for _, id := range pool {
		ent, found, err := e.store.FindById(tx, id)
		b.WriteString(toWire(id) + "=")
		switch {
		case err != nil:
			b.WriteString(e.rawView(tx, id, err))
		case !found:
			b.WriteString("f/////////-")
		default:
			raw := "-"
			if bucket := e.store.GetEntityBucket(tx, []byte(id)); bucket != nil {
				if v := bucket.Get([]byte(boltz.FieldIsSystemEntity)); v != nil {
					switch {
					case len(v) == 2 && boltz.FieldType(v[0]) == boltz.TypeBool && v[1] == 1:
						raw = "t"
					case len(v) == 2 && boltz.FieldType(v[0]) == boltz.TypeBool && v[1] == 0:
						raw = "f"
					default:
						raw = "?"
					}
				}
			}
			level := "~"
			if e.kids != nil && e.kids.IsEntityPresent(tx, id) {
				kid, kfound, kerr := e.kids.FindById(tx, id)
				switch {
				case kerr != nil || !kfound:
					level = "?"
				case kid.IsSystemEntity() != ent.IsSystemEntity() || kid.Name != ent.Name:
					level = "?mismatch"
				case kid.Bad != "":
					level = "?bad:" + kid.Bad
				default:
					level = toWire(kid.Level)
				}
			}
			peers := e.store.GetRelatedEntitiesIdList(tx, id, "peers")
			sort.Strings(peers)
			ps := "~"
			if len(peers) > 0 {
				var w []string
				for _, p := range peers {
					w = append(w, toWire(p))
				}
				ps = strings.Join(w, ",")
			}
			name := toWire(ent.Name)
			if ent.Bad != "" {
				name += "?" + ent.Bad
			}
			b.WriteString("t/" + c16B(ent.IsSystemEntity()) + "/" + name + "/" + c16Tag(ent) + "/" +
				c16ShowTime(ent.CreatedAt) + "/" + c16ShowTime(ent.UpdatedAt) + "/" + toWire(ent.Owner) + "/" + level + "/" + ps + "/" + raw)
		}
		b.WriteString(";")
	}
	for _, id := range opool {
		b.WriteString("@" + toWire(id) + "=" + c16B(e.owners.IsEntityPresent(tx, id)) + ";")
	}
	// entities outside the pools would be a harness/generator mistake: make them visible
	extra := func(bucket *boltz.TypedBucket, pool []string) int {
		n := 0
		if bucket != nil {
			_ = bucket.ForEach(func(k, v []byte) error {
				known := false
				for _, id := range pool {
					if id == string(k) {
						known = true
					}
				}
				if !known {
					n++
				}
				return nil
			})
		}
		return n
	}
	if n := extra(e.store.GetEntitiesBucket(tx), pool) + extra(e.owners.GetEntitiesBucket(tx), opool); n > 0 {
		fmt.Fprintf(&b, "EXTRA:%d", n)
	}
	return b.String()
}

func c16Pool(s string) []string {
	var pool []string
	if s == "" {
		return nil
	}
	for _, w := range strings.Split(s, ",") {
		pool = append(pool, fromWire(w))
	}
	return pool
}

func c16Exec(line string) string {
	f := fields(line)
	base, wide := c16WideKind(f[0])
	reg := c16Reg(base)
	key := reg + c16B(wide)
	e := c16envs[key]
	if e == nil {
		e = c16Open(reg, wide)
		c16envs[key] = e
	}
	e.wipe()
	ps, os_, _ := strings.Cut(f[1], "/")
	pool, opool := c16Pool(ps), c16Pool(os_)
	var out []string
	for _, tx := range f[2:] {
		head, body, _ := strings.Cut(tx, "!")
		ops := strings.Split(body, ";")
		keepGoing := head[1] == 'k'
		var top boltz.MutateContext = boltz.NewMutateContext(context.Background())
		if head[0] == 'S' {
			top = top.GetSystemContext()
		}
		var results []string
		partial := ""
		err := e.db.Update(top, func(ctx boltz.MutateContext) error {
			for _, op := range ops {
				r := e.op(ctx, op)
				results = append(results, r)
				if strings.HasPrefix(r, "!") && !(keepGoing && c16Ignorable(r)) {
					partial = e.view(ctx.Tx(), pool, opool)
					return fmt.Errorf("op failed")
				}
			}
			return nil
		})
		if err != nil && partial == "" {
			results = append(results, "commit-error("+strings.ReplaceAll(err.Error(), " ", "_")+")")
		}
		var after string
		_ = e.db.View(func(tx *bbolt.Tx) error {
			after = e.view(tx, pool, opool)
			return nil
		})
		out = append(out, strings.Join(results, ";")+"|"+partial+"|"+after)
	}
	return strings.Join(out, " ")
}

// ---------------------------------------------------------------------------- generator

var c16Ids = []string{"a", "b", "c", "sys", "a\x00", "é"}
var c16OwnerIds = []string{"o1", "o2", "o\"3", "a"}
var c16Names = []string{"n0", "n1", "n2", "", "x y", "true"}
var c16Tags = []string{"~", "~", "t0", "t1", ""}
var c16Levels = []string{"l0", "l1", ""}
var c16Checkers = []string{"n", "n", "name", "isSystem", "name,isSystem", "-", "tags", "name,tags", "isSystem,tags",
	"createdAt,updatedAt,isSystem", "name,tags,isSystem,createdAt,updatedAt", "owner", "name,owner,level", "level",
	"isSystem,owner", "name,tags,owner,level,isSystem,createdAt,updatedAt"}
var c16CtxKinds = []string{"o", "s", "n", "m"}

func c16Gen(tier string, seed uint64, out *bufio.Writer) {
	r := newRng(seed)
	c16Exhaustive(out, "H")
	c16Indirect(out, "H")
	// the same paths with the constraint registered on the child store only / on both stores
	c16Indirect(out, "HC")
	c16Indirect(out, "HB")
	// the plain shape: the constrained store has no child store at all (cascade, queries, links; no child-store paths)
	c16Indirect(out, "HP")
	// updates that change nothing, in every shape
	c16NoChange(out, "HP")
	c16NoChange(out, "H")
	c16NoChange(out, "HC")
	c16Reuse(out)
	// the WIDE strategies: every setter of PersistContext / TypedBucket on the path of the update (c16_wide.go)
	c16Setters(out, "HPW")
	c16Setters(out, "HW")
	c16Setters(out, "HCW")
	c16Exhaustive(out, "HPW")
	c16Indirect(out, "HBW")
	c16NoChange(out, "HPW")
	c16NoChange(out, "HW")
	// entities whose stored data the strategy cannot load (c16_load.go)
	for _, kind := range []string{"H", "HC", "HP", "HW", "HB"} {
		c16Unloadable(out, kind)
	}
	n := 2500
	if tier == "thorough" {
		n = 50000
	}
	for i := 0; i < n; i++ {
		c16History(r, out)
	}
}

// rest of the in-memory entity: Migrate, CreatedAt, UpdatedAt, Tags
func c16Rest(mig, cAt, uAt, tag string) string {
	if tag != "~" {
		tag = toWire(tag)
	}
	return mig + ":" + cAt + ":" + uAt + ":" + tag
}

// every (creation context, creation flag, creation Migrate) x (second operation kind, its context, its flag,
// its Migrate, checker) x (same transaction | later transaction) x (abort | keep going), then a read-back
func c16Exhaustive(out *bufio.Writer, kind string) {
	id := toWire("a")
	for _, cctx := range []string{"o", "s"} {
		for _, cflag := range []string{"t", "f"} {
			for _, cmig := range []string{"t", "f"} {
				create := "c:" + cctx + ":" + id + ":" + cflag + ":" + toWire("n0") + ":" + c16Rest(cmig, "1000", "2000", "t0")
				var seconds []string
				for _, octx := range []string{"o", "s"} {
					seconds = append(seconds, "d:"+octx+":"+id)
					seconds = append(seconds, "c:"+octx+":"+id+":t:"+toWire("n2")+":"+c16Rest("t", "3000", "3000", "~"))
					for _, uflag := range []string{"t", "f"} {
						for _, umig := range []string{"t", "f"} {
							for _, ch := range []string{"n", "name", "isSystem", "name,isSystem,tags,createdAt,updatedAt", "-"} {
								seconds = append(seconds, "u:"+octx+":"+id+":"+uflag+":"+toWire("n1")+":"+ch+":"+c16Rest(umig, "3000", "z", "t1"))
							}
						}
					}
				}
				for _, snd := range seconds {
					for _, mode := range []string{"a", "k"} {
						for _, top := range []string{"O", "S"} {
							fmt.Fprintf(out, "%s %s %s%s!%s;%s %s%s!r:%s\n", kind, id, top, mode, create, snd, "O", "a", id)
							fmt.Fprintf(out, "%s %s %s%s!%s %s%s!%s;r:%s O%s!u:o:%s:f:%s:n:%s\n", kind, id, top, "a", create, top, mode, snd, id, mode, id, toWire("n2"), c16Rest("f", "z", "z", "~"))
						}
					}
				}
			}
		}
	}
}

// the indirect paths, exhaustively over small shapes: every way an operation on ANOTHER entity or through ANOTHER
// store reaches an entity of the constrained store, from every kind of context, followed by direct attempts from an
// ordinary context (is the entity still protected?) and a read-back
//
// kind = where the constraint is registered (H: on S; HC: on the child store only; HB: both).  For HC / HB the entities
// are created through S (no child data) or through the child store (child data), since that decides which store's
// constraints an operation through S reaches; the shapes are thinned out (one Migrate value, one owner, two checkers).
func c16Indirect(out *bufio.Writer, kind string) {
	full := kind == "H"
	plain := strings.HasPrefix(kind, "HP")
	a, b, c := toWire("a"), toWire("b"), toWire("c")
	o1, o2 := toWire("o1"), toWire("o2")
	n0, n1 := toWire("n0"), toWire("n1")
	l0, l1 := toWire("l0"), toWire("l1")
	flags := []string{"t", "f"}
	tops := []string{"O", "S"}
	modes := []string{"a", "k"}
	via := "c"
	ent := func(ctx, id, flag, name, owner string) string {
		if via == "C" {
			return "C:" + ctx + ":" + id + ":" + flag + ":" + name + ":" + c16Rest("f", "z", "z", "~") + ":" + owner + ":" + l0
		}
		return "c:" + ctx + ":" + id + ":" + flag + ":" + name + ":" + c16Rest("f", "z", "z", "~") + ":" + owner
	}
	probe := func(id string) string {
		return "Ok!u:o:" + id + ":f:" + toWire("n2") + ":n:" + c16Rest("f", "z", "z", "~") + ":-;d:o:" + id + ";r:" + id
	}
	pools := a + "," + b + "," + c + "/" + o1 + "," + o2

	// (1) cascade: owner o1 with referrers a, b (c refers to o2 or nothing); O.DeleteById(o1) from every context
	vias := []string{"c"}
	if !full && !plain {
		vias = []string{"c", "C"}
	}
	for _, via = range vias {
		for _, fa := range flags {
			for _, fb := range flags {
				for _, fc := range flags {
					if !full && fc == "t" {
						continue
					}
					setup := "Sa!oc:o:" + o1 + ";oc:o:" + o2 + ";" + ent("s", a, fa, n0, o1) + ";" + ent("s", b, fb, n1, o1) + ";" + ent("s", c, fc, n0, o2) + ";l:" + a + ":" + o1 + ";l:" + c + ":" + o1
					for _, top := range tops {
						for _, mode := range modes {
							for _, ctx := range c16CtxKinds {
								fmt.Fprintf(out, "%s %s %s %s%s!od:%s:%s;od:%s:%s %s\n", kind, pools, setup, top, mode, ctx, o1, ctx, o2, probe(a))
							}
						}
					}
					// the cascade in the same transaction as other work, and deletes by query
					for _, ctx := range c16CtxKinds {
						for _, q := range []string{"T", "n:" + n0, "n:" + n1, "o:" + o1, "o:" + o2, "s:t", "s:f"} {
							fmt.Fprintf(out, "%s %s %s Oa!w:%s:%s %s\n", kind, pools, setup, ctx, q, probe(c))
							fmt.Fprintf(out, "%s %s %s Ok!d:o:%s;w:%s:%s;r:%s Oa!r:%s\n", kind, pools, setup, a, ctx, q, b, a)
						}
					}
				}
			}
		}
	}
	via = "c"

	// (2) the child store: parent created (or not) with / without the flag, then Create / Update / DeleteById
	// through the child store from every context
	pool1 := a + "/" + o1
	for _, pflag := range []string{"t", "f", "-"} { // "-": no parent yet
		if plain {
			break // no child store in this shape
		}
		for _, withKid := range []bool{false, true} {
			if pflag == "-" && withKid {
				continue
			}
			setup := "Sa!oc:o:" + o1
			if pflag != "-" {
				setup += ";" + "c:s:" + a + ":" + pflag + ":" + n0 + ":" + c16Rest("t", "1000", "2000", "t0") + ":" + o1
			}
			if withKid {
				setup += ";C:s:" + a + ":f:" + n0 + ":" + c16Rest("t", "1000", "2000", "t0") + ":" + o1 + ":" + l0
			}
			var seconds []string
			for _, ctx := range c16CtxKinds {
				seconds = append(seconds, "D:"+ctx+":"+a)
				// through S: with child data the update is handed to the child store, the delete walks its constraints
				seconds = append(seconds, "d:"+ctx+":"+a)
				for _, ch := range []string{"n", "name", "level,isSystem"} {
					seconds = append(seconds, "u:"+ctx+":"+a+":f:"+n1+":"+ch+":"+c16Rest("f", "3000", "z", "t1")+":"+o1)
				}
				for _, fl := range flags {
					for _, mig := range flags {
						if !full && mig == "t" {
							continue
						}
						for _, own := range []string{"-", o1, o2} {
							if !full && own != o1 {
								continue
							}
							seconds = append(seconds, "C:"+ctx+":"+a+":"+fl+":"+n1+":"+c16Rest(mig, "3000", "3000", "t1")+":"+own+":"+l1)
						}
						for _, ch := range []string{"n", "level", "name,isSystem,level", "-"} {
							if !full && ch != "n" && ch != "level" {
								continue
							}
							seconds = append(seconds, "U:"+ctx+":"+a+":"+fl+":"+n1+":"+ch+":"+c16Rest(mig, "3000", "z", "t1")+":"+o1+":"+l1)
						}
					}
				}
			}
			for _, snd := range seconds {
				for _, top := range tops {
					for _, mode := range modes {
						fmt.Fprintf(out, "%s %s %s %s%s!%s %s\n", kind, pool1, setup, top, mode, snd, probe(a))
					}
				}
			}
		}
	}

	// (3) links: no context is involved; deleting the far end unlinks
	for _, fa := range flags {
		setup := "Sa!oc:o:" + o1 + ";" + ent("s", a, fa, n0, "-")
		for _, top := range tops {
			for _, mode := range modes {
				fmt.Fprintf(out, "%s %s %s %s%s!l:%s:%s;l:%s:%s;x:%s:%s;l:%s:%s %s%s!od:o:%s %s\n", kind, pool1, setup, top, mode, a, o1, a, o2, b, o1, a, o1, top, mode, o1, probe(a))
				fmt.Fprintf(out, "%s %s %s %s%s!l:%s:%s;x:%s:%s;x:%s:%s;d:o:%s %s\n", kind, pool1, setup, top, mode, a, o1, a, o1, a, o2, a, probe(a))
			}
		}
	}
}

// updates that change nothing: the entity is loaded and written back as it is (nil checker, empty checker, checkers
// naming fields whose values are unchanged, checkers naming fields Update never writes), from every kind of context,
// on a system / ordinary entity created with given or clock timestamps, in the creating or a later transaction
func c16NoChange(out *bufio.Writer, kind string) {
	a, o1 := toWire("a"), toWire("o1")
	vias := []string{"c"}
	if !strings.HasPrefix(kind, "HP") {
		vias = []string{"c", "C"}
	}
	modes := []string{"a"}
	if strings.HasPrefix(kind, "HP") {
		modes = []string{"a", "k"}
	}
	for _, via := range vias {
		for _, cflag := range []string{"t", "f"} {
			for _, cmig := range []string{"t", "f"} {
				create := "c:s:" + a + ":" + cflag + ":" + toWire("n0") + ":" + c16Rest(cmig, "1000", "2000", "t0") + ":" + o1
				if via == "C" {
					create = "C:s:" + a + ":" + cflag + ":" + toWire("n0") + ":" + c16Rest(cmig, "1000", "2000", "t0") + ":" + o1 + ":" + toWire("l0")
				}
				for _, ctx := range c16CtxKinds {
					for _, ch := range []string{"n", "-", "name", "name,tags,owner", "isSystem,createdAt"} {
						for _, top := range []string{"O", "S"} {
							for _, mode := range modes {
								fmt.Fprintf(out, "%s %s/%s Sa!oc:o:%s;%s %s%s!b:%s:%s:%s;r:%s Oa!r:%s\n", kind, a, o1, o1, create, top, mode, ctx, a, ch, a, a)
								fmt.Fprintf(out, "%s %s/%s Sa!oc:o:%s %s%s!%s;b:%s:%s:%s Oa!r:%s\n", kind, a, o1, o1, top, mode, create, ctx, a, ch, a)
							}
						}
					}
				}
			}
		}
	}
}

// one mutate context, one id, changing kind: an ordinary entity passes the checks of an ordinary context, is deleted,
// the id comes back as a system entity (created by the derived system context, or attempted by the ordinary one), and
// the same ordinary context touches it again — whatever a context remembers about an id must not outlive the entity
func c16Reuse(out *bufio.Writer) {
	a := toWire("a")
	ord := "c:o:" + a + ":f:" + toWire("n0") + ":" + c16Rest("f", "z", "z", "~") + ":-"
	upd := "u:o:" + a + ":f:" + toWire("n1") + ":n:" + c16Rest("f", "z", "z", "~") + ":-"
	for _, kind := range []string{"H", "HP"} {
		for _, first := range []string{ord, ord + ";" + upd, ord + ";b:o:" + a + ":n"} {
			for _, sctx := range []string{"s", "n", "o"} {
				sys := "c:" + sctx + ":" + a + ":t:" + toWire("n2") + ":" + c16Rest("f", "z", "z", "~") + ":-"
				for _, last := range []string{upd, "d:o:" + a, "b:o:" + a + ":n", "w:o:T"} {
					for _, mode := range []string{"a", "k"} {
						fmt.Fprintf(out, "%s %s/ O%s!%s;d:o:%s;%s;%s;r:%s Oa!r:%s\n", kind, a, mode, first, a, sys, last, a, a)
						fmt.Fprintf(out, "%s %s/ Oa!%s O%s!%s;d:o:%s;%s;%s;r:%s Oa!r:%s\n", kind, a, ord, mode, upd, a, sys, last, a, a)
					}
				}
			}
		}
	}
}

func c16History(r *rng, out *bufio.Writer) {
	np := 2 + r.intn(3)
	seen := map[string]bool{}
	var pool []string
	for len(pool) < np {
		id := pick(r, c16Ids)
		if !seen[id] {
			seen[id] = true
			pool = append(pool, id)
		}
	}
	var wp []string
	for _, p := range pool {
		wp = append(wp, toWire(p))
	}
	no := 1 + r.intn(3)
	seen = map[string]bool{}
	var opool, wo []string
	for len(opool) < no {
		id := pick(r, c16OwnerIds)
		if !seen[id] {
			seen[id] = true
			opool = append(opool, id)
			wo = append(wo, toWire(id))
		}
	}
	owner := func() string {
		if r.chance(2, 5) {
			return "-"
		}
		return toWire(pick(r, opool))
	}
	kind := "H"
	switch w := r.intn(20); {
	case w < 5:
		kind = "HC"
	case w < 9:
		kind = "HB"
	case w < 10:
		kind = "HN"
	case w < 13:
		kind = "HP"
	}
	plain := kind == "HP"
	if r.chance(1, 4) {
		// the wide strategies (every setter of PersistContext / TypedBucket; c16_wide.go)
		kind += "W"
	}
	ntx := 2 + r.intn(6)
	var txs []string
	// most histories start by creating some owners from a system context, so that references have something to point at
	if r.chance(4, 5) {
		var ops []string
		for _, o := range opool {
			if r.chance(3, 4) {
				ops = append(ops, "oc:o:"+toWire(o))
			}
		}
		if len(ops) > 0 {
			txs = append(txs, "Sa!"+strings.Join(ops, ";"))
		}
	}
	for t := 0; t < ntx; t++ {
		top := "O"
		if r.chance(1, 4) {
			top = "S"
		}
		mode := "a"
		if r.chance(1, 3) {
			mode = "k"
		}
		nops := 1 + r.intn(4)
		var ops []string
		for o := 0; o < nops; o++ {
			id := toWire(pick(r, pool))
			ctx := "o"
			switch w := r.intn(20); {
			case w < 5:
				ctx = "s"
			case w < 8:
				ctx = "n"
			case w < 11:
				ctx = "m"
			}
			flag := "f"
			if r.chance(1, 2) {
				flag = "t"
			}
			mig := "f"
			if r.chance(2, 5) {
				mig = "t"
			}
			rest := c16Rest(mig, pick(r, c16Stamps), pick(r, c16Stamps), pick(r, c16Tags))
			name := toWire(pick(r, c16Names))
			if r.chance(1, 16) {
				// raw write of the required field: the entity can no longer be loaded / can again (c16_load.go)
				ops = append(ops, c16RawOp(r, id, name, strings.HasSuffix(kind, "W")))
				continue
			}
			w := r.intn(100)
			if plain && ((w >= 21 && w < 34) || (w >= 48 && w < 56) || (w >= 64 && w < 68)) {
				// no child store in the plain shape: write-backs and plain updates instead
				if r.chance(1, 2) {
					w = 96
				} else {
					w = 40
				}
			}
			switch {
			case w < 20:
				ops = append(ops, "c:"+ctx+":"+id+":"+flag+":"+name+":"+rest+":"+owner())
			case w < 21:
				ops = append(ops, "c:"+ctx+":-:"+flag+":"+name+":"+rest)
			case w < 33:
				ops = append(ops, "C:"+ctx+":"+id+":"+flag+":"+name+":"+rest+":"+owner()+":"+toWire(pick(r, c16Levels)))
			case w < 34:
				ops = append(ops, "C:"+ctx+":-:"+flag+":"+name+":"+rest+":-:-")
			case w < 48:
				ops = append(ops, "u:"+ctx+":"+id+":"+flag+":"+name+":"+pick(r, c16Checkers)+":"+rest+":"+owner())
			case w < 56:
				ops = append(ops, "U:"+ctx+":"+id+":"+flag+":"+name+":"+pick(r, c16Checkers)+":"+rest+":"+owner()+":"+toWire(pick(r, c16Levels)))
			case w < 64:
				ops = append(ops, "d:"+ctx+":"+id)
			case w < 68:
				ops = append(ops, "D:"+ctx+":"+id)
			case w < 74:
				ops = append(ops, "oc:"+ctx+":"+toWire(pick(r, opool)))
			case w < 84:
				ops = append(ops, "od:"+ctx+":"+toWire(pick(r, opool)))
			case w < 90:
				switch r.intn(6) {
				case 0:
					ops = append(ops, "w:"+ctx+":T")
				case 1, 2:
					ops = append(ops, "w:"+ctx+":n:"+name)
				case 3:
					o := pick(r, opool)
					if strings.ContainsAny(o, "\"\\") {
						o = "o1"
					}
					ops = append(ops, "w:"+ctx+":o:"+toWire(o))
				case 4:
					ops = append(ops, "w:"+ctx+":s:t")
				default:
					ops = append(ops, "w:"+ctx+":s:f")
				}
			case w < 94:
				ops = append(ops, "l:"+id+":"+toWire(pick(r, opool)))
			case w < 96:
				ops = append(ops, "x:"+id+":"+toWire(pick(r, opool)))
			case w < 99:
				ops = append(ops, "b:"+ctx+":"+id+":"+pick(r, c16Checkers))
			default:
				ops = append(ops, "r:"+id)
			}
		}
		txs = append(txs, top+mode+"!"+strings.Join(ops, ";"))
	}
	fmt.Fprintf(out, "%s %s/%s %s\n", kind, strings.Join(wp, ","), strings.Join(wo, ","), strings.Join(txs, " "))
}
