package main

// C03, store chains: three store levels wired on real stores through the exported API —
// root `things` (base path u) → child (entity path ext, Parent = root) → grandchild (entity path
// ext/g, Parent = the child store) — each with a unique index and a set index of its own
// (u0/s0, u1/s1, u2/s2), each registered as child-store strategy with its DIRECT parent.
//
// case line:  k <vals> <tx>|<tx>|…      ops:  c:<id>:<u0>:<s0>[:<u1>:<s1>[:<u2>:<s2>]]   create through level = pairs-1
//                                             u:<id>:<chk>:<u0>:<s0>[…]                    update through that level;
//                                                   chk `*` (nil checker) or one letter per level: b u s 0
//                                             d:<id>:<level>                                delete through that level's store
// output: as for `h` lines (harness/c03.go): per transaction  <res>#<dump>#<reads>#.

import (
	"bufio"
	"fmt"
	"strings"

	"github.com/openziti/foundation/v2/errorz"
	"github.com/openziti/storage/ast"
	"github.com/openziti/storage/boltz"
	"go.etcd.io/bbolt"
)

type c03L0 struct {
	Id string
	U0 string
	S0 []string
}

func (e *c03L0) GetId() string         { return e.Id }
func (e *c03L0) SetId(id string)       { e.Id = id }
func (e *c03L0) GetEntityType() string { return "things" }

type c03L1 struct {
	c03L0
	U1 string
	S1 []string
}
type c03L2 struct {
	c03L1
	U2 string
	S2 []string
}

type c03L0Strategy struct{}

func (c03L0Strategy) NewEntity() *c03L0 { return &c03L0{} }
func (c03L0Strategy) FillEntity(e *c03L0, b *boltz.TypedBucket) {
	e.U0 = b.GetStringWithDefault("u0", "")
	e.S0 = b.GetStringList("s0")
}
func (c03L0Strategy) PersistEntity(e *c03L0, ctx *boltz.PersistContext) {
	ctx.SetString("u0", e.U0)
	ctx.SetStringList("s0", e.S0)
}

type c03L1Strategy struct{ parent *boltz.BaseStore[*c03L0] }

func (s *c03L1Strategy) NewEntity() *c03L1 { return &c03L1{} }
func (s *c03L1Strategy) FillEntity(e *c03L1, b *boltz.TypedBucket) {
	_, err := s.parent.LoadEntity(b.Tx(), e.Id, &e.c03L0)
	b.SetError(err)
	e.U1 = b.GetStringWithDefault("u1", "")
	e.S1 = b.GetStringList("s1")
}
func (s *c03L1Strategy) PersistEntity(e *c03L1, ctx *boltz.PersistContext) {
	s.parent.GetEntityStrategy().PersistEntity(&e.c03L0, ctx.GetParentContext())
	ctx.SetString("u1", e.U1)
	ctx.SetStringList("s1", e.S1)
}

type c03L2Strategy struct{ parent *boltz.BaseStore[*c03L1] }

func (s *c03L2Strategy) NewEntity() *c03L2 { return &c03L2{} }
func (s *c03L2Strategy) FillEntity(e *c03L2, b *boltz.TypedBucket) {
	_, err := s.parent.LoadEntity(b.Tx(), e.Id, &e.c03L1)
	b.SetError(err)
	e.U2 = b.GetStringWithDefault("u2", "")
	e.S2 = b.GetStringList("s2")
}
func (s *c03L2Strategy) PersistEntity(e *c03L2, ctx *boltz.PersistContext) {
	s.parent.GetEntityStrategy().PersistEntity(&e.c03L1, ctx.GetParentContext())
	ctx.SetString("u2", e.U2)
	ctx.SetStringList("s2", e.S2)
}

type c03Chain struct {
	l0   *boltz.BaseStore[*c03L0]
	l1   *boltz.BaseStore[*c03L1]
	l2   *boltz.BaseStore[*c03L2]
	uniq [3]boltz.ReadIndex
	set  [3]boltz.SetReadIndex
}

func c03WireChain() *c03Chain {
	s := &c03Chain{}
	s.l0 = boltz.NewBaseStore(boltz.StoreDefinition[*c03L0]{
		EntityType: "things", EntityStrategy: c03L0Strategy{}, BasePath: []string{"u"}, EntityNotFoundF: c03NotFound,
	})
	s.l0.InitImpl(s.l0)
	s.l1 = boltz.NewBaseStore(boltz.StoreDefinition[*c03L1]{
		EntityStrategy: &c03L1Strategy{parent: s.l0}, BasePath: []string{"ext"}, Parent: s.l0,
		ParentMapper: func(e boltz.Entity) boltz.Entity {
			if x, ok := e.(*c03L1); ok {
				return &x.c03L0
			}
			return e
		},
		EntityNotFoundF: c03NotFound,
	})
	s.l1.InitImpl(s.l1)
	s.l2 = boltz.NewBaseStore(boltz.StoreDefinition[*c03L2]{
		EntityStrategy: &c03L2Strategy{parent: s.l1}, BasePath: []string{"ext", "g"}, Parent: s.l1,
		ParentMapper: func(e boltz.Entity) boltz.Entity {
			if x, ok := e.(*c03L2); ok {
				return &x.c03L1
			}
			return e
		},
		EntityNotFoundF: c03NotFound,
	})
	s.l2.InitImpl(s.l2)
	s.l0.RegisterChildStoreStrategy(&boltz.ChildStoreUpdateHandler[*c03L0, *c03L1]{
		Store: s.l1,
		Mapper: func(ctx boltz.MutateContext, parent *c03L0) (*c03L1, bool) {
			if !s.l1.IsEntityPresent(ctx.Tx(), parent.Id) {
				return nil, false
			}
			child, found, _ := s.l1.FindById(ctx.Tx(), parent.Id)
			if !found || child == nil {
				return nil, false
			}
			child.c03L0 = *parent
			return child, true
		},
	})
	s.l1.RegisterChildStoreStrategy(&boltz.ChildStoreUpdateHandler[*c03L1, *c03L2]{
		Store: s.l2,
		Mapper: func(ctx boltz.MutateContext, parent *c03L1) (*c03L2, bool) {
			if !s.l2.IsEntityPresent(ctx.Tx(), parent.Id) {
				return nil, false
			}
			child, found, _ := s.l2.FindById(ctx.Tx(), parent.Id)
			if !found || child == nil {
				return nil, false
			}
			child.c03L1 = *parent
			return child, true
		},
	})
	s.l0.AddIdSymbol("id", ast.NodeTypeString)
	s.uniq[0] = s.l0.AddUniqueIndex(s.l0.AddSymbol("u0", ast.NodeTypeString))
	s.set[0] = s.l0.AddSetIndex(s.l0.AddSetSymbol("s0", ast.NodeTypeString))
	s.uniq[1] = s.l1.AddUniqueIndex(s.l1.AddSymbol("u1", ast.NodeTypeString))
	s.set[1] = s.l1.AddSetIndex(s.l1.AddSetSymbol("s1", ast.NodeTypeString))
	s.uniq[2] = s.l2.AddUniqueIndex(s.l2.AddSymbol("u2", ast.NodeTypeString))
	s.set[2] = s.l2.AddSetIndex(s.l2.AddSetSymbol("s2", ast.NodeTypeString))
	return s
}

func c03ChainChecker(chk string) boltz.FieldChecker {
	if chk == "*" {
		return nil
	}
	m := boltz.MapFieldChecker{}
	for j, c := range chk {
		if c == 'b' || c == 'u' {
			m[fmt.Sprintf("u%d", j)] = struct{}{}
		}
		if c == 'b' || c == 's' {
			m[fmt.Sprintf("s%d", j)] = struct{}{}
		}
	}
	return m
}

func (s *c03Chain) apply(ctx boltz.MutateContext, op string) error {
	f := strings.Split(op, ":")
	id := fromWire(f[1])
	build := func(g []string) (*c03L2, int) {
		e := &c03L2{}
		e.Id = id
		n := len(g) / 2
		if n >= 1 {
			e.U0, e.S0 = fromWire(g[0]), csParseList(g[1])
		}
		if n >= 2 {
			e.U1, e.S1 = fromWire(g[2]), csParseList(g[3])
		}
		if n >= 3 {
			e.U2, e.S2 = fromWire(g[4]), csParseList(g[5])
		}
		return e, n - 1
	}
	switch f[0] {
	case "c":
		e, k := build(f[2:])
		switch k {
		case 0:
			return s.l0.Create(ctx, &e.c03L0)
		case 1:
			return s.l1.Create(ctx, &e.c03L1)
		case 2:
			return s.l2.Create(ctx, e)
		}
	case "u":
		e, k := build(f[3:])
		chk := c03ChainChecker(f[2])
		switch k {
		case 0:
			return s.l0.Update(ctx, &e.c03L0, chk)
		case 1:
			return s.l1.Update(ctx, &e.c03L1, chk)
		case 2:
			return s.l2.Update(ctx, e, chk)
		}
	case "d":
		switch f[2] {
		case "0":
			return s.l0.DeleteById(ctx, id)
		case "1":
			return s.l1.DeleteById(ctx, id)
		case "2":
			return s.l2.DeleteById(ctx, id)
		}
	}
	panic("bad op")
}

func (s *c03Chain) reads(tx *bbolt.Tx, vals []string) string {
	var b strings.Builder
	for j := 0; j < 3; j++ {
		for _, v := range vals {
			fmt.Fprintf(&b, "u%d:%s=%s;", j, toWire(v), csHexOrNil(s.uniq[j].Read(tx, []byte(v))))
			var ids []string
			s.set[j].Read(tx, []byte(v), func(val []byte) { ids = append(ids, string(val)) })
			fmt.Fprintf(&b, "s%d:%s=%s;", j, toWire(v), csList(csSortedCopy(ids)))
		}
	}
	return b.String() + "e"
}

func c03ExecChain(f []string) string {
	if len(f) != 3 {
		return "bad-case"
	}
	vals := csParseList(f[1])
	d := csOpenDb()
	defer d.close()
	s := c03WireChain()
	if err := d.db.Update(nil, func(ctx boltz.MutateContext) error {
		h := &errorz.ErrorHolderImpl{}
		s.l0.InitializeIndexes(ctx.Tx(), h)
		s.l1.InitializeIndexes(ctx.Tx(), h)
		s.l2.InitializeIndexes(ctx.Tx(), h)
		return h.Err
	}); err != nil {
		return "init-failed " + err.Error()
	}
	var recs []string
	prev := ""
	for _, txs := range strings.Split(f[2], "|") {
		ops := strings.Split(txs, ",")
		failedAt := -1
		err := d.db.Update(nil, func(ctx boltz.MutateContext) error {
			for i, op := range ops {
				if err := s.apply(ctx, op); err != nil {
					failedAt = i
					return err
				}
			}
			return nil
		})
		res := "ok"
		if err != nil {
			res = fmt.Sprintf("err:%s@%d", csErrKind(err), failedAt)
		}
		var dump, reads string
		_ = d.db.View(func(tx *bbolt.Tx) error {
			dump = c03Dump(tx)
			reads = s.reads(tx, vals)
			return nil
		})
		shown := dump
		if dump == prev {
			shown = "="
		}
		prev = dump
		recs = append(recs, res+"#"+shown+"#"+reads+"#.")
	}
	return strings.Join(recs, "|")
}

// ---------------------------------------------------------------------------------- generator

// id classes keep the histories inside the part of the universe where a create is covered by the
// capture (see Safe in lean/StorageModel/C03/ChainInv.lean): a is created through levels 0/1 only,
// b through levels 1/2 only, c through level 2 only, d through level 0/1 only — so a create through
// the grandchild store never meets an entity the root holds and the child does not.
func c03GenChain(r *rng, nTx int, allowDeepDelete bool) string {
	ids := []string{"a", "b", "c", "d"}
	levels := map[string][]int{"a": {0, 1}, "b": {1, 2}, "c": {2}, "d": {0, 1}}
	uvals := []string{"x", "y", "zq"}
	svals := []string{"r", "sq", "x"}
	genU := func() string {
		if r.intn(20) == 0 {
			return ""
		}
		return uvals[r.intn(len(uvals))]
	}
	genS := func() []string {
		n := r.intn(3)
		var out []string
		for i := 0; i < n; i++ {
			out = append(out, svals[r.intn(len(svals))])
		}
		if r.intn(50) == 0 {
			out = append(out, "")
		}
		return out
	}
	recs := func(k int) string {
		var parts []string
		for j := 0; j <= k; j++ {
			u := genU()
			if j == 0 && r.intn(3) > 0 { // keep root values mostly distinct per call
				u = uvals[r.intn(len(uvals))] + fmt.Sprint(r.intn(3))
			}
			parts = append(parts, toWire(u), csList(genS()))
		}
		return strings.Join(parts, ":")
	}
	var txs []string
	for t := 0; t < nTx; t++ {
		n := 1 + r.intn(3)
		var ops []string
		for i := 0; i < n; i++ {
			id := ids[r.intn(len(ids))]
			switch x := r.intn(10); {
			case x < 4:
				ls := levels[id]
				k := ls[r.intn(len(ls))]
				ops = append(ops, "c:"+toWire(id)+":"+recs(k))
			case x < 8:
				k := r.intn(3)
				chk := "*"
				if r.intn(2) == 0 {
					chk = ""
					for j := 0; j <= k; j++ {
						chk += string("bus0"[r.intn(4)])
					}
				}
				ops = append(ops, "u:"+toWire(id)+":"+chk+":"+recs(k))
			default:
				if !allowDeepDelete {
					id = []string{"a", "d"}[r.intn(2)]
				}
				del := fmt.Sprintf("d:%s:%d", toWire(id), r.intn(3))
				if id == "b" || id == "c" {
					// may hold grandchild data: a transaction of its own, so that what the delete leaves
					// behind is seen after exactly this commit
					if len(ops) > 0 {
						txs = append(txs, strings.Join(ops, ","))
					}
					txs = append(txs, del)
					ops = nil
					i = n
				} else {
					ops = append(ops, del)
				}
			}
		}
		if len(ops) > 0 {
			txs = append(txs, strings.Join(ops, ","))
		}
	}
	return "k " + csList([]string{"x", "y", "zq", "r", "sq", "x0", "y1"}) + " " + strings.Join(txs, "|")
}

func c03GenChains(tier string, r *rng, out *bufio.Writer) {
	n, maxTx := 500, 16
	if tier == "thorough" {
		n, maxTx = 6000, 30
	}
	for i := 0; i < n; i++ {
		fmt.Fprintln(out, c03GenChain(r, 4+r.intn(maxTx), i%4 == 3))
	}
}
