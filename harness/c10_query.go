package main

import (
	"fmt"
	"sort"
	"strconv"
	"strings"
	"time"

	"github.com/openziti/storage/ast"
	"github.com/openziti/storage/zitiql"
)

// Q <schema> <seek> <rows> <text>
//
//	schema  tables separated by '/', table 0 is the root; entries `name:T[*][@k]` separated by ',':
//	        T in s i f b d a o (string int64 float64 bool datetime any other), * = set symbol,
//	        @k = entity set whose linked rows are described by table k
//	seek    1: set cursors implement ast.TypeSeekableSetCursor
//	rows    rows separated by ';' (`_` = a row without any field, `-` = no row);
//	        fields separated by '&': name=V | name=[V|V...] | name={i|j...} (indices of child rows)
//	        V: N | S<hex> | I<int> | F<decimal> | B0 | B1 | D<unix nanoseconds>
//	text    hex of the query
//
//	-> <front end fields> res=<ok|syn|lerr|verr|terr> typed=<visitor trace> eval=<one of 0 1 P per row>
//
// The Symbols implementation below is the dataset: typed retrieval follows the table in
// lean/StorageModel/C10/Eval.lean (symEval*), a set symbol evaluates to the current element of its
// open cursor, an entity set iterates the ids "k0","k1",... of its linked rows, and
// OpenSetCursorForQuery keeps the linked rows the sub-query's predicate accepts.

type c10Kind int

const (
	c10Null c10Kind = iota
	c10Str
	c10Int
	c10Flt
	c10Bool
	c10Dt
)

type c10Val struct {
	k c10Kind
	s string
	i int64
	f float64
	b bool
	t time.Time
}

type c10Schema struct {
	types map[string]ast.NodeType
	isSet map[string]bool
	subIx map[string]int
	all   []*c10Schema
}

func (s *c10Schema) GetSymbolType(name string) (ast.NodeType, bool) {
	t, ok := s.types[name]
	return t, ok
}
func (s *c10Schema) IsSet(name string) (bool, bool) {
	if _, ok := s.types[name]; !ok {
		return false, false
	}
	return s.isSet[name], true
}
func (s *c10Schema) GetSetSymbolTypes(name string) ast.SymbolTypes {
	if ix, ok := s.subIx[name]; ok && ix < len(s.all) {
		return s.all[ix]
	}
	return nil
}

var c10TypeCodes = map[byte]ast.NodeType{'s': ast.NodeTypeString, 'i': ast.NodeTypeInt64, 'f': ast.NodeTypeFloat64,
	'b': ast.NodeTypeBool, 'd': ast.NodeTypeDatetime, 'a': ast.NodeTypeAnyType, 'o': ast.NodeTypeOther}

func c10ParseSchema(s string) *c10Schema {
	var all []*c10Schema
	for range strings.Split(s, "/") {
		all = append(all, &c10Schema{types: map[string]ast.NodeType{}, isSet: map[string]bool{}, subIx: map[string]int{}})
	}
	for i, tbl := range strings.Split(s, "/") {
		sc := all[i]
		sc.all = all
		if tbl == "" || tbl == "-" {
			continue
		}
		for _, ent := range strings.Split(tbl, ",") {
			k := strings.LastIndex(ent, ":")
			name, spec := ent[:k], ent[k+1:]
			sc.types[name] = c10TypeCodes[spec[0]]
			rest := spec[1:]
			if strings.HasPrefix(rest, "*") {
				sc.isSet[name] = true
				rest = rest[1:]
			}
			if strings.HasPrefix(rest, "@") {
				ix, _ := strconv.Atoi(rest[1:])
				sc.subIx[name] = ix
			}
		}
	}
	return all[0]
}

type c10Row struct {
	scalars map[string]c10Val
	sets    map[string][]c10Val
	kids    map[string][]*c10Row
}

func c10ParseVal(s string) c10Val {
	switch s[0] {
	case 'S':
		return c10Val{k: c10Str, s: fromWire(s[1:])}
	case 'I':
		i, _ := strconv.ParseInt(s[1:], 10, 64)
		return c10Val{k: c10Int, i: i}
	case 'F':
		f, _ := strconv.ParseFloat(s[1:], 64)
		return c10Val{k: c10Flt, f: f}
	case 'B':
		return c10Val{k: c10Bool, b: s[1] == '1'}
	case 'D':
		n, _ := strconv.ParseInt(s[1:], 10, 64)
		return c10Val{k: c10Dt, t: time.Unix(0, n).UTC()}
	}
	return c10Val{k: c10Null}
}

func c10ParseRows(s string) []*c10Row {
	if s == "-" {
		return nil
	}
	parts := strings.Split(s, ";")
	rows := make([]*c10Row, len(parts))
	for i := range rows {
		rows[i] = &c10Row{scalars: map[string]c10Val{}, sets: map[string][]c10Val{}, kids: map[string][]*c10Row{}}
	}
	for i, p := range parts {
		if p == "_" {
			continue
		}
		for _, f := range strings.Split(p, "&") {
			k := strings.Index(f, "=")
			name, v := f[:k], f[k+1:]
			switch {
			case strings.HasPrefix(v, "["):
				inner := v[1 : len(v)-1]
				vals := []c10Val{}
				if inner != "" {
					for _, e := range strings.Split(inner, "|") {
						vals = append(vals, c10ParseVal(e))
					}
				}
				rows[i].sets[name] = vals
			case strings.HasPrefix(v, "{"):
				inner := v[1 : len(v)-1]
				ks := []*c10Row{}
				if inner != "" {
					for _, e := range strings.Split(inner, "|") {
						ix, _ := strconv.Atoi(e)
						if ix > i && ix < len(rows) {
							ks = append(ks, rows[ix])
						}
					}
				}
				rows[i].kids[name] = ks
			default:
				rows[i].scalars[name] = c10ParseVal(v)
			}
		}
	}
	return rows
}

type c10Cursor struct {
	vals []c10Val
	pos  int
}

func (c *c10Cursor) Next()         { c.pos++ }
func (c *c10Cursor) IsValid() bool { return c.pos < len(c.vals) }
func (c *c10Cursor) Current() []byte {
	return []byte(c.vals[c.pos].s)
}

type c10SeekCursor struct{ c10Cursor }

func (c *c10SeekCursor) Seek(val []byte) { c.SeekToString(string(val)) }
func (c *c10SeekCursor) SeekToString(val string) {
	c.pos = 0
	for c.pos < len(c.vals) && !(c.vals[c.pos].k == c10Str && c.vals[c.pos].s >= val) {
		c.pos++
	}
}

type c10Cur interface {
	ast.SetCursor
	valid() bool
	current() c10Val
}

func (c *c10Cursor) valid() bool     { return c.pos < len(c.vals) }
func (c *c10Cursor) current() c10Val { return c.vals[c.pos] }

type c10Syms struct {
	schema   *c10Schema
	row      *c10Row
	cursors  map[string]c10Cur
	seekable bool
}

func newC10Syms(schema *c10Schema, row *c10Row, seekable bool) *c10Syms {
	return &c10Syms{schema: schema, row: row, cursors: map[string]c10Cur{}, seekable: seekable}
}

func (s *c10Syms) GetSymbolType(name string) (ast.NodeType, bool) {
	return s.schema.GetSymbolType(name)
}
func (s *c10Syms) GetSetSymbolTypes(name string) ast.SymbolTypes {
	return s.schema.GetSetSymbolTypes(name)
}
func (s *c10Syms) IsSet(name string) (bool, bool) { return s.schema.IsSet(name) }

func (s *c10Syms) value(name string) c10Val {
	if c, ok := s.cursors[name]; ok && c.valid() {
		return c.current()
	}
	if v, ok := s.row.scalars[name]; ok {
		return v
	}
	return c10Val{k: c10Null}
}

func (s *c10Syms) EvalBool(name string) *bool {
	if v := s.value(name); v.k == c10Bool {
		return &v.b
	}
	return nil
}
func (s *c10Syms) EvalString(name string) *string {
	v := s.value(name)
	var r string
	switch v.k {
	case c10Str:
		r = v.s
	case c10Int:
		r = strconv.FormatInt(v.i, 10)
	case c10Flt:
		r = strconv.FormatFloat(v.f, 'f', -1, 64)
	case c10Bool:
		r = strconv.FormatBool(v.b)
	default:
		return nil
	}
	return &r
}
func (s *c10Syms) EvalInt64(name string) *int64 {
	if v := s.value(name); v.k == c10Int {
		return &v.i
	}
	return nil
}
func (s *c10Syms) EvalFloat64(name string) *float64 {
	v := s.value(name)
	switch v.k {
	case c10Flt:
		return &v.f
	case c10Int:
		f := float64(v.i)
		return &f
	}
	return nil
}
func (s *c10Syms) EvalDatetime(name string) *time.Time {
	if v := s.value(name); v.k == c10Dt {
		return &v.t
	}
	return nil
}
func (s *c10Syms) IsNil(name string) bool { return s.value(name).k == c10Null }

func (s *c10Syms) elems(name string) []c10Val {
	if vs, ok := s.row.sets[name]; ok {
		return vs
	}
	var res []c10Val
	for i := range s.row.kids[name] {
		res = append(res, c10Val{k: c10Str, s: "k" + strconv.Itoa(i)})
	}
	return res
}

func (s *c10Syms) open(name string, vals []c10Val) ast.SetCursor {
	if s.seekable {
		c := &c10SeekCursor{c10Cursor{vals: vals}}
		s.cursors[name] = c
		return c
	}
	c := &c10Cursor{vals: vals}
	s.cursors[name] = c
	return c
}

func (s *c10Syms) OpenSetCursor(name string) ast.SetCursor { return s.open(name, s.elems(name)) }

func (s *c10Syms) OpenSetCursorForQuery(name string, query ast.Query) ast.SetCursor {
	sub := s.schema
	if ix, ok := s.schema.subIx[name]; ok && ix < len(s.schema.all) {
		sub = s.schema.all[ix]
	}
	var vals []c10Val
	for i, kid := range s.row.kids[name] {
		if query.EvalBool(newC10Syms(sub, kid, s.seekable)) {
			vals = append(vals, c10Val{k: c10Str, s: "k" + strconv.Itoa(i)})
		}
	}
	return s.open(name, vals)
}

// ------------------------------------------------------------------------------ typed-tree trace

type c10Dump struct {
	ast.DefaultVisitor
	out []string
}

func (v *c10Dump) rec(s string) { v.out = append(v.out, s) }
func (v *c10Dump) VisitSymbol(symbol string, nodeType ast.NodeType) {
	v.rec(fmt.Sprintf("Symbol:%s:%d", toWire(symbol), int(nodeType)))
}

// ------------------------------------------------------------------------------------ execution

func c10Classify(err error, listenerErr bool) string {
	if err == nil {
		return "ok"
	}
	if _, ok := err.(zitiql.ParseError); ok {
		return "syn"
	}
	if listenerErr {
		return "lerr"
	}
	msg := err.Error()
	if strings.HasPrefix(msg, "unknown symbol '") || strings.HasPrefix(msg, "symbol '") || strings.HasPrefix(msg, "attempt to subquery") {
		return "verr"
	}
	return "terr"
}

func c10EvalRow(q ast.Query, syms *c10Syms) (res string) {
	defer func() {
		if r := recover(); r != nil {
			res = "P"
		}
	}()
	return b01(q.EvalBool(syms))
}

func c10ExecQuery(f []string) string {
	schema := c10ParseSchema(f[1])
	seek := f[2] == "1"
	rows := c10ParseRows(f[3])
	text := fromWire(f[4])
	front := c10Front(text)
	_, _, le := c10Walk(text)
	q, err := ast.Parse(newC10Syms(schema, &c10Row{}, seek), text)
	res := c10Classify(err, le)
	typed, eval := "-", "-"
	if err == nil {
		d := &c10Dump{}
		q.Accept(d)
		if len(d.out) > 0 {
			typed = strings.Join(d.out, ",")
		}
		// the accessors of the Query interface must be usable on every parsed query
		_ = q.GetSortFields()
		_ = q.GetSkip()
		_ = q.GetLimit()
		_ = q.String()
		_ = q.IsConst()
		var b strings.Builder
		for _, row := range rows {
			b.WriteString(c10EvalRow(q, newC10Syms(schema, row, seek)))
		}
		if b.Len() > 0 {
			eval = b.String()
		}
	}
	// the same call with the process-wide debug configuration switched on (ast.EnableQueryDebug, debug log level)
	cfg := c10ParseUnderDebug(newC10Syms(schema, &c10Row{}, seek), text, le)
	return fmt.Sprintf("%s res=%s typed=%s eval=%s cfg=%s", front, res, typed, eval, cfg)
}

// ------------------------------------------------------------------------------------ generator

const c10RootSchema = "s:s,n:i,f:f,b:b,d:d,a:a,tags.x:a,ss:s*,ns:i*,ds:d*,bs:b*,kids:s*@1,'s':s,o:o,os:o*" +
	"/s:s,n:i,b:b,a:a,ss:s*,kids:s*@1,pets:s*@2/s:s,n:i"

var c10QIdents = []string{"s", "n", "f", "b", "d", "a", "tags.x", "ss", "ns", "ds", "bs", "kids", "'s'", "o", "os", "pets", "zz",
	"s", "n", "a", "ss", "kids", "s", "n", "f", "b", "d", "a", "tags.x", "ss", "ns", "kids", "s", "n", "f", "b", "d", "a", "tags.x"}
var c10SafeNumbers = []string{"0", "1", "-1", "5", "7", "2", "3", "1.5", "-0.25", "1e3", "2.5e-1", "0.5", "100", "9007199254740991", "-7",
	"0", "1", "5", "7", "2", "1.5", "0.25", "1000", "0", "1", "5", "7", "2", "1.5", "3", "100", "1e309"}
var c10SafeDatetimes = []string{"datetime(2020-01-01T00:00:00Z)", "datetime( 2021-02-28t23:59:59.123+05:30 )", "datetime(2020-03-01T00:00:00z)",
	"datetime(2032-12-31T23:59:59.999999999Z)", "datetime(1970-01-01T00:00:00Z)", "datetime(2020-01-01T01:00:00+01:00)",
	"datetime(2020-01-01T00:00:00Z)", "datetime(2021-02-28T18:29:59.123Z)", "datetime(2020-01-01T00:00:00Z)", "datetime( 2021-02-28t23:59:59.123+05:30 )",
	"datetime(2020-03-01T00:00:00z)", "datetime(2032-12-31T23:59:59.999999999Z)", "datetime(1970-01-01T00:00:00Z)", "datetime(2020-01-01T01:00:00+01:00)",
	"datetime(2020-02-30T00:00:00Z)"}
var c10SafeStrings = []string{`"x"`, `""`, `"a b"`, `"世"`, `"\\n"`, `"\""`, `"and"`, `"X"`, `"1"`, `"true"`, `"xy"`, `"k0"`, `"5"`, `"1.5"`}

var c10StrVals = []string{"x", "", "a b", "世", "X", "xy", "1", "5", "1.5", "true", "k0", "\n", "\""}
var c10IntVals = []string{"0", "1", "-1", "5", "7", "2", "3", "100", "1000", "9007199254740991", "-7"}
var c10FltVals = []string{"0", "1.5", "-0.25", "0.5", "1000", "0.25", "5", "7", "2.5", "-1"}
var c10DtVals = []string{"1577836800000000000", "1614536999123000000", "1583020800000000000", "1988150399999999999", "0"}

func (g *c10Gen) fieldVal(kind byte) string {
	if kind == 'a' {
		kind = pick(g.r, []byte{'s', 'i', 'f', 'b', 'd'})
	}
	switch kind {
	case 's':
		return "S" + toWire(pick(g.r, c10StrVals))
	case 'i':
		return "I" + pick(g.r, c10IntVals)
	case 'f':
		return "F" + pick(g.r, c10FltVals)
	case 'b':
		return "B" + b01(g.r.chance(1, 2))
	case 'd':
		return "D" + pick(g.r, c10DtVals)
	}
	return "N"
}

// rowsFor builds a row table for the root schema: every evaluated row first, linked rows after
func (g *c10Gen) rowsFor() string {
	n := 1 + g.r.intn(3)
	type rowSpec struct {
		fields []string
		level  int
	}
	rows := []rowSpec{}
	for i := 0; i < n; i++ {
		rows = append(rows, rowSpec{level: 0})
	}
	scalarKinds := map[string]byte{"s": 's', "n": 'i', "f": 'f', "b": 'b', "d": 'd', "a": 'a', "tags.x": 'a', "'s'": 's', "o": 's'}
	setKinds := map[string]byte{"ss": 's', "ns": 'i', "ds": 'd', "bs": 'b', "os": 's'}
	names := func(m map[string]byte) []string {
		ks := make([]string, 0, len(m))
		for k := range m {
			ks = append(ks, k)
		}
		sort.Strings(ks)
		return ks
	}
	for i := 0; i < len(rows); i++ {
		var fs []string
		for _, name := range names(scalarKinds) {
			switch g.r.intn(8) {
			case 0, 1:
				// null: field absent
			case 2:
				fs = append(fs, name+"=N")
			case 3:
				fs = append(fs, name+"="+g.fieldVal('a')) // a value of some other type
			default:
				fs = append(fs, name+"="+g.fieldVal(scalarKinds[name]))
			}
		}
		for _, name := range names(setKinds) {
			switch g.r.intn(4) {
			case 0:
				// no entry: empty set
			case 1:
				fs = append(fs, name+"=[]")
			default:
				k := 1 + g.r.intn(3)
				set := map[string]bool{}
				for j := 0; j < k; j++ {
					v := g.fieldVal(setKinds[name])
					if g.r.chance(1, 10) {
						v = "N"
					}
					set[v] = true
				}
				vs := make([]string, 0, len(set))
				for v := range set {
					vs = append(vs, v)
				}
				// served in byte order of the values, as a bolt bucket would
				sort.Slice(vs, func(a, b int) bool { return c10SortKey(vs[a]) < c10SortKey(vs[b]) })
				fs = append(fs, name+"=["+strings.Join(vs, "|")+"]")
			}
		}
		if rows[i].level < 2 {
			for _, name := range []string{"kids", "pets"} {
				if g.r.chance(1, 2) {
					continue
				}
				k := g.r.intn(3)
				var ix []string
				for j := 0; j < k; j++ {
					rows = append(rows, rowSpec{level: rows[i].level + 1})
					ix = append(ix, strconv.Itoa(len(rows)-1))
				}
				fs = append(fs, name+"={"+strings.Join(ix, "|")+"}")
			}
		}
		rows[i].fields = fs
	}
	parts := make([]string, len(rows))
	for i, r := range rows {
		if len(r.fields) == 0 {
			parts[i] = "_"
		} else {
			parts[i] = strings.Join(r.fields, "&")
		}
	}
	return strings.Join(parts, ";")
}

func c10SortKey(v string) string {
	if len(v) > 0 && v[0] == 'S' {
		return "S" + fromWire(v[1:])
	}
	return v
}

func (g *c10Gen) emitQ(schema string, seek bool, rows string, text string) {
	text = string([]rune(text))
	fmt.Fprintf(g.out, "Q %s %s %s %s\n", schema, b01(seek), rows, toWire(text))
}

func (g *c10Gen) genQueries() {
	thorough := g.tier == "thorough"
	fixedRows := "_;s=S" + toWire("x") + "&n=I5&f=F1.5&b=B1&d=D1577836800000000000&a=I5&tags.x=S" + toWire("x") +
		"&ss=[S" + toWire("x") + "|S" + toWire("y") + "]&ns=[I1|I5]&ds=[]&kids={2|3};s=S" + toWire("x") + "&n=I1&ss=[S" + toWire("x") + "];_"
	for _, q := range []string{"", "true", `n icontains "X"`, `s icontains "X"`, "d between 1 and 2", "tags.x between 5 and 7",
		"a between datetime(2020-01-01T00:00:00Z) and datetime(2021-01-01T00:00:00Z)", "a between 1.5 and 7", `anyOf(ss) = "x"`, `anyOf(ss) != "x"`,
		`allOf(ss) = "x"`, "count(ss) > 1", "count(kids) = 2", "isEmpty(ds)", "isEmpty(kids)", `count(from kids where s = "x") = 2`,
		`isEmpty(from kids where n > 3)`, `count(from kids where anyOf(ss) = "x") >= 1`, "a = 5", `a = "x"`, "a = true", "a = null", "n = null", "s != null",
		"a > datetime(2020-01-01T00:00:00Z)", "f = 5", "n = 1.5", "n in [1, 5]", "n in [1.5, 5]", "f in [1, 5]", `n in ["5"]`, `a in ["x", "5"]`,
		"anyOf(ns) in [1, 2]", "allOf(ns) between 1 and 7", `anyOf(ss) contains "x"`, `anyOf(ss) icontains "X"`, "b", "b = true", "not b", "s", "b and n = 5 or s = \"x\"",
		"sort by s", "n = 5 sort by s desc, n skip 1 limit 2", "limit none", "zz = 1", "ss = \"x\"", "anyOf(s) = \"x\"", "sort by zz", "sort by ss",
		"count(from s where true) = 1", "count(from zz where true) = 1", "o = 1", "anyOf(os) = 1", `count(from kids where ss = "x") > 0`,
		`n contains "5"`, `f contains "."`, `count(ss) contains "2"`, "n contains 5", "b = 1", "d = 1", "s = 1", "s < 1", `n = "5"`, "n = true", "b = null or n != null",
		"not n = 5", "n not in [5]", "n not between 1 and 5", "count(from kids where count(from pets where true) = 0) = 2", "anyOf(kids) = \"k0\"",
		"a = 1e309", "a = datetime(2020-02-30T00:00:00Z)", "skip 1.5", "a = 1 @"} {
		g.emitQ(c10RootSchema, false, fixedRows, q)
		g.emitQ(c10RootSchema, true, fixedRows, q)
	}
	// the empty store / empty schema
	g.emitQ("-", false, "-", "a = 1")
	g.emitQ("-", false, "_", "true")
	g.emitQ(c10RootSchema, false, "-", "n = 5")
	// the simplest sentence shapes (one comparison, possibly with surrounding blanks) with near-valid string
	// literals: raw control characters, unknown escapes, wrong or missing delimiters, characters next to the
	// closing quote.  A front end that recognises "simple" filters without the lexer sees exactly these.
	hostile := []string{"\"he\tllo\"", "\"he\nllo\"", "\"he\rllo\"", "\"\x00\"", "\"a\x01b\"", "\"\x1f\"", "\"\x7f\"", "\"a\\qb\"", "\"a\\\"",
		"\"a\\u0041\"", "\"\\/\"", "\"\\b\"", "'x'", "\"x", "x\"", "\"x\"\"", "\"x\"y", "\"x\" \"y\"", "\"\u2028\"", "\"\u0085\"", "\"x\"\x00", "\"\"\"",
		"\"a\tb\\n\"", "\"x\"\t", "\"\ufeff\""}
	for _, id := range []string{"s", "n", "a", "tags.x", "zz", "id", "ss", "kids.s", "'s'", "S"} {
		for _, op := range []string{"=", "!=", "contains", "<"} {
			for _, lit := range hostile {
				for _, form := range []string{"%s %s %s", " %s %s %s ", "%s%s%s", "%s\t%s\n%s\r"} {
					if strings.Contains(form, "%s%s") && op == "contains" {
						continue
					}
					g.emitQ(c10RootSchema, false, "_", fmt.Sprintf(form, id, op, lit))
				}
			}
		}
		for _, lit := range hostile {
			g.emitQ(c10RootSchema, false, "_", fmt.Sprintf("%s in [%s]", id, lit))
			g.emitQ(c10RootSchema, false, "_", fmt.Sprintf("%s in [\"x\", %s]", id, lit))
		}
	}
	nQ := 5000
	if thorough {
		nQ = 250000
	}
	// sentences over the schema's symbols with values on which the decimal model of float64 is exact
	g.nums, g.strs, g.dts = c10SafeNumbers, c10SafeStrings, c10SafeDatetimes
	g.plainIdents = []string{"s", "n", "f", "b", "d", "a", "tags.x", "'s'", "s", "n", "f", "b", "d", "a"}
	g.setIdents = []string{"ss", "ns", "ds", "bs", "kids", "kids", "pets", "ss", "ns"}
	defer func() {
		g.nums, g.strs, g.dts = c10Numbers, c10Strings, c10Datetimes
		g.plainIdents, g.setIdents = nil, nil
	}()
	for i := 0; i < nQ; i++ {
		p := g.sentence(c10QIdents, 1+g.r.intn(3))
		text := strings.Join(p, "")
		if g.r.chance(1, 12) {
			text = strings.Join(g.mutate(p), "")
		} else if g.r.chance(1, 8) {
			// read a set symbol outside its loop: the cursor state a set function left behind is visible
			text = strings.TrimRight(text, " \t\r\n") + " " + pick(g.r, []string{"and", "or"}) + " count(" + pick(g.r, g.setIdents) + ") " +
				pick(g.r, []string{"=", "!="}) + " null"
		}
		g.emitQ(c10RootSchema, g.r.chance(1, 3), g.rowsFor(), text)
	}
}
func (v *c10Dump) VisitNotExprNodeStart(_ *ast.NotExprNode) { v.rec("NotExprNodeStart") }
func (v *c10Dump) VisitNotExprNodeEnd(_ *ast.NotExprNode)   { v.rec("NotExprNodeEnd") }
func (v *c10Dump) VisitAndExprNodeStart(_ *ast.AndExprNode) { v.rec("AndExprNodeStart") }
func (v *c10Dump) VisitAndExprNodeEnd(_ *ast.AndExprNode)   { v.rec("AndExprNodeEnd") }
func (v *c10Dump) VisitOrExprNodeStart(_ *ast.OrExprNode)   { v.rec("OrExprNodeStart") }
func (v *c10Dump) VisitOrExprNodeEnd(_ *ast.OrExprNode)     { v.rec("OrExprNodeEnd") }
func (v *c10Dump) VisitBinaryBoolExprNodeStart(_ *ast.BinaryBoolExprNode) {
	v.rec("BinaryBoolExprNodeStart")
}
func (v *c10Dump) VisitBinaryBoolExprNodeEnd(_ *ast.BinaryBoolExprNode) {
	v.rec("BinaryBoolExprNodeEnd")
}
func (v *c10Dump) VisitBinaryDatetimeExprNodeStart(_ *ast.BinaryDatetimeExprNode) {
	v.rec("BinaryDatetimeExprNodeStart")
}
func (v *c10Dump) VisitBinaryDatetimeExprNodeEnd(_ *ast.BinaryDatetimeExprNode) {
	v.rec("BinaryDatetimeExprNodeEnd")
}
func (v *c10Dump) VisitBinaryFloat64ExprNodeStart(_ *ast.BinaryFloat64ExprNode) {
	v.rec("BinaryFloat64ExprNodeStart")
}
func (v *c10Dump) VisitBinaryFloat64ExprNodeEnd(_ *ast.BinaryFloat64ExprNode) {
	v.rec("BinaryFloat64ExprNodeEnd")
}
func (v *c10Dump) VisitBinaryInt64ExprNodeStart(_ *ast.BinaryInt64ExprNode) {
	v.rec("BinaryInt64ExprNodeStart")
}
func (v *c10Dump) VisitBinaryInt64ExprNodeEnd(_ *ast.BinaryInt64ExprNode) {
	v.rec("BinaryInt64ExprNodeEnd")
}
func (v *c10Dump) VisitBinaryStringExprNodeStart(_ *ast.BinaryStringExprNode) {
	v.rec("BinaryStringExprNodeStart")
}
func (v *c10Dump) VisitBinaryStringExprNodeEnd(_ *ast.BinaryStringExprNode) {
	v.rec("BinaryStringExprNodeEnd")
}
func (v *c10Dump) VisitIsNilExprNodeStart(_ *ast.IsNilExprNode) { v.rec("IsNilExprNodeStart") }
func (v *c10Dump) VisitIsNilExprNodeEnd(_ *ast.IsNilExprNode)   { v.rec("IsNilExprNodeEnd") }
func (v *c10Dump) VisitInt64BetweenExprNodeStart(_ *ast.Int64BetweenExprNode) {
	v.rec("Int64BetweenExprNodeStart")
}
func (v *c10Dump) VisitInt64BetweenExprNodeEnd(_ *ast.Int64BetweenExprNode) {
	v.rec("Int64BetweenExprNodeEnd")
}
func (v *c10Dump) VisitFloat64BetweenExprNodeStart(_ *ast.Float64BetweenExprNode) {
	v.rec("Float64BetweenExprNodeStart")
}
func (v *c10Dump) VisitFloat64BetweenExprNodeEnd(_ *ast.Float64BetweenExprNode) {
	v.rec("Float64BetweenExprNodeEnd")
}
func (v *c10Dump) VisitDatetimeBetweenExprNodeStart(_ *ast.DatetimeBetweenExprNode) {
	v.rec("DatetimeBetweenExprNodeStart")
}
func (v *c10Dump) VisitDatetimeBetweenExprNodeEnd(_ *ast.DatetimeBetweenExprNode) {
	v.rec("DatetimeBetweenExprNodeEnd")
}
func (v *c10Dump) VisitInDatetimeArrayExprNodeStart(_ *ast.InDatetimeArrayExprNode) {
	v.rec("InDatetimeArrayExprNodeStart")
}
func (v *c10Dump) VisitInDatetimeArrayExprNodeEnd(_ *ast.InDatetimeArrayExprNode) {
	v.rec("InDatetimeArrayExprNodeEnd")
}
func (v *c10Dump) VisitInFloat64ArrayExprNodeStart(_ *ast.InFloat64ArrayExprNode) {
	v.rec("InFloat64ArrayExprNodeStart")
}
func (v *c10Dump) VisitInFloat64ArrayExprNodeEnd(_ *ast.InFloat64ArrayExprNode) {
	v.rec("InFloat64ArrayExprNodeEnd")
}
func (v *c10Dump) VisitInInt64ArrayExprNodeStart(_ *ast.InInt64ArrayExprNode) {
	v.rec("InInt64ArrayExprNodeStart")
}
func (v *c10Dump) VisitInInt64ArrayExprNodeEnd(_ *ast.InInt64ArrayExprNode) {
	v.rec("InInt64ArrayExprNodeEnd")
}
func (v *c10Dump) VisitInStringArrayExprNodeStart(_ *ast.InStringArrayExprNode) {
	v.rec("InStringArrayExprNodeStart")
}
func (v *c10Dump) VisitInStringArrayExprNodeEnd(_ *ast.InStringArrayExprNode) {
	v.rec("InStringArrayExprNodeEnd")
}
func (v *c10Dump) VisitBooleanLogicExprNodeStart(_ *ast.BooleanLogicExprNode) {
	v.rec("BooleanLogicExprNodeStart")
}
func (v *c10Dump) VisitBooleanLogicExprNodeEnd(_ *ast.BooleanLogicExprNode) {
	v.rec("BooleanLogicExprNodeEnd")
}
func (v *c10Dump) VisitBinaryExprNodeStart(_ *ast.BinaryExprNode)     { v.rec("BinaryExprNodeStart") }
func (v *c10Dump) VisitBinaryExprNodeEnd(_ *ast.BinaryExprNode)       { v.rec("BinaryExprNodeEnd") }
func (v *c10Dump) VisitInArrayExprNodeStart(_ *ast.InArrayExprNode)   { v.rec("InArrayExprNodeStart") }
func (v *c10Dump) VisitInArrayExprNodeEnd(_ *ast.InArrayExprNode)     { v.rec("InArrayExprNodeEnd") }
func (v *c10Dump) VisitBetweenExprNodeStart(_ *ast.BetweenExprNode)   { v.rec("BetweenExprNodeStart") }
func (v *c10Dump) VisitBetweenExprNodeEnd(_ *ast.BetweenExprNode)     { v.rec("BetweenExprNodeEnd") }
func (v *c10Dump) VisitUntypedSymbolNode(_ *ast.UntypedSymbolNode)    { v.rec("UntypedSymbolNode") }
func (v *c10Dump) VisitSetFunctionNodeStart(_ *ast.SetFunctionNode)   { v.rec("SetFunctionNodeStart") }
func (v *c10Dump) VisitSetFunctionNodeEnd(_ *ast.SetFunctionNode)     { v.rec("SetFunctionNodeEnd") }
func (v *c10Dump) VisitUntypedNotExprStart(_ *ast.UntypedNotExprNode) { v.rec("UntypedNotExprStart") }
func (v *c10Dump) VisitUntypedNotExprEnd(_ *ast.UntypedNotExprNode)   { v.rec("UntypedNotExprEnd") }
func (v *c10Dump) VisitBoolConstNode(_ *ast.BoolConstNode)            { v.rec("BoolConstNode") }
func (v *c10Dump) VisitDatetimeConstNode(_ *ast.DatetimeConstNode)    { v.rec("DatetimeConstNode") }
func (v *c10Dump) VisitFloat64ConstNode(_ *ast.Float64ConstNode)      { v.rec("Float64ConstNode") }
func (v *c10Dump) VisitInt64ConstNode(_ *ast.Int64ConstNode)          { v.rec("Int64ConstNode") }
func (v *c10Dump) VisitStringConstNode(_ *ast.StringConstNode)        { v.rec("StringConstNode") }
func (v *c10Dump) VisitNullConstNode(_ ast.NullConstNode)             { v.rec("NullConstNode") }
func (v *c10Dump) VisitDatetimeArrayNodeStart(_ *ast.DatetimeArrayNode) {
	v.rec("DatetimeArrayNodeStart")
}
func (v *c10Dump) VisitDatetimeArrayNodeEnd(_ *ast.DatetimeArrayNode) { v.rec("DatetimeArrayNodeEnd") }
func (v *c10Dump) VisitFloat64ArrayNodeStart(_ *ast.Float64ArrayNode) { v.rec("Float64ArrayNodeStart") }
func (v *c10Dump) VisitFloat64ArrayNodeEnd(_ *ast.Float64ArrayNode)   { v.rec("Float64ArrayNodeEnd") }
func (v *c10Dump) VisitInt64ArrayNodeStart(_ *ast.Int64ArrayNode)     { v.rec("Int64ArrayNodeStart") }
func (v *c10Dump) VisitInt64ArrayNodeEnd(_ *ast.Int64ArrayNode)       { v.rec("Int64ArrayNodeEnd") }
func (v *c10Dump) VisitStringArrayNodeStart(_ *ast.StringArrayNode)   { v.rec("StringArrayNodeStart") }
func (v *c10Dump) VisitStringArrayNodeEnd(_ *ast.StringArrayNode)     { v.rec("StringArrayNodeEnd") }
func (v *c10Dump) VisitBoolSymbolNode(_ *ast.BoolSymbolNode)          { v.rec("BoolSymbolNode") }
func (v *c10Dump) VisitDatetimeSymbolNode(_ *ast.DatetimeSymbolNode)  { v.rec("DatetimeSymbolNode") }
func (v *c10Dump) VisitFloat64SymbolNode(_ *ast.Float64SymbolNode)    { v.rec("Float64SymbolNode") }
func (v *c10Dump) VisitInt64SymbolNode(_ *ast.Int64SymbolNode)        { v.rec("Int64SymbolNode") }
func (v *c10Dump) VisitStringSymbolNode(_ *ast.StringSymbolNode)      { v.rec("StringSymbolNode") }
func (v *c10Dump) VisitAnyTypeSymbolNode(_ *ast.AnyTypeSymbolNode)    { v.rec("AnyTypeSymbolNode") }
func (v *c10Dump) VisitInt64ToFloat64NodeStart(_ *ast.Int64ToFloat64Node) {
	v.rec("Int64ToFloat64NodeStart")
}
func (v *c10Dump) VisitInt64ToFloat64NodeEnd(_ *ast.Int64ToFloat64Node) {
	v.rec("Int64ToFloat64NodeEnd")
}
func (v *c10Dump) VisitStringFuncNodeStart(_ *ast.StringFuncNode)     { v.rec("StringFuncNodeStart") }
func (v *c10Dump) VisitStringFuncNodeEnd(_ *ast.StringFuncNode)       { v.rec("StringFuncNodeEnd") }
func (v *c10Dump) VisitAllOfSetExprNodeStart(_ *ast.AllOfSetExprNode) { v.rec("AllOfSetExprNodeStart") }
func (v *c10Dump) VisitAllOfSetExprNodeEnd(_ *ast.AllOfSetExprNode)   { v.rec("AllOfSetExprNodeEnd") }
func (v *c10Dump) VisitAnyOfSetExprNodeStart(_ *ast.AnyOfSetExprNode) { v.rec("AnyOfSetExprNodeStart") }
func (v *c10Dump) VisitAnyOfSetExprNodeEnd(_ *ast.AnyOfSetExprNode)   { v.rec("AnyOfSetExprNodeEnd") }
func (v *c10Dump) VisitCountSetExprNodeStart(_ *ast.CountSetExprNode) { v.rec("CountSetExprNodeStart") }
func (v *c10Dump) VisitCountSetExprNodeEnd(_ *ast.CountSetExprNode)   { v.rec("CountSetExprNodeEnd") }
func (v *c10Dump) VisitIsEmptySetExprNodeStart(_ *ast.IsEmptySetExprNode) {
	v.rec("IsEmptySetExprNodeStart")
}
func (v *c10Dump) VisitIsEmptySetExprNodeEnd(_ *ast.IsEmptySetExprNode) {
	v.rec("IsEmptySetExprNodeEnd")
}
func (v *c10Dump) VisitSortByNode(_ *ast.SortByNode)       { v.rec("SortByNode") }
func (v *c10Dump) VisitSortFieldNode(_ *ast.SortFieldNode) { v.rec("SortFieldNode") }
func (v *c10Dump) VisitLimitExprNode(_ *ast.LimitExprNode) { v.rec("LimitExprNode") }
func (v *c10Dump) VisitSkipExprNode(_ *ast.SkipExprNode)   { v.rec("SkipExprNode") }
func (v *c10Dump) VisitUntypedSubQueryNodeStart(_ *ast.UntypedSubQueryNode) {
	v.rec("UntypedSubQueryNodeStart")
}
func (v *c10Dump) VisitUntypedSubQueryNodeEnd(_ *ast.UntypedSubQueryNode) {
	v.rec("UntypedSubQueryNodeEnd")
}
