package main

import (
	"sort"
	"time"

	"github.com/openziti/storage/ast"
)

// memSymbols is an ast.Symbols over an in-memory row: it ties the `ast` package to the
// model without bolt in the way.  Scalar fields hold nil | string | int64 | float64 | bool
// | time.Time; set fields hold a list of strings (served sorted and duplicate free, as a
// bbolt bucket would).
type memSymbols struct {
	types   map[string]ast.NodeType
	sets    map[string]bool
	scalars map[string]interface{}
	setVals map[string][]string
}

func newMemSymbols() *memSymbols {
	return &memSymbols{types: map[string]ast.NodeType{}, sets: map[string]bool{}, scalars: map[string]interface{}{}, setVals: map[string][]string{}}
}

func (m *memSymbols) GetSymbolType(name string) (ast.NodeType, bool) {
	t, ok := m.types[name]
	return t, ok
}
func (m *memSymbols) GetSetSymbolTypes(name string) ast.SymbolTypes { return nil }
func (m *memSymbols) IsSet(name string) (bool, bool) {
	if _, ok := m.types[name]; !ok {
		return false, false
	}
	return m.sets[name], true
}
func (m *memSymbols) EvalBool(name string) *bool {
	if v, ok := m.scalars[name].(bool); ok {
		return &v
	}
	return nil
}
func (m *memSymbols) EvalString(name string) *string {
	if v, ok := m.scalars[name].(string); ok {
		return &v
	}
	return nil
}
func (m *memSymbols) EvalInt64(name string) *int64 {
	if v, ok := m.scalars[name].(int64); ok {
		return &v
	}
	return nil
}
func (m *memSymbols) EvalFloat64(name string) *float64 {
	if v, ok := m.scalars[name].(float64); ok {
		return &v
	}
	return nil
}
func (m *memSymbols) EvalDatetime(name string) *time.Time {
	if v, ok := m.scalars[name].(time.Time); ok {
		return &v
	}
	return nil
}
func (m *memSymbols) IsNil(name string) bool { return m.scalars[name] == nil }

type sliceCursor struct {
	vals []string
	pos  int
}

func (c *sliceCursor) Next()           { c.pos++ }
func (c *sliceCursor) IsValid() bool   { return c.pos < len(c.vals) }
func (c *sliceCursor) Current() []byte { return []byte(c.vals[c.pos]) }

func (m *memSymbols) OpenSetCursor(name string) ast.SetCursor {
	vals := append([]string{}, m.setVals[name]...)
	sort.Strings(vals)
	out := vals[:0]
	for i, v := range vals {
		if i == 0 || v != vals[i-1] {
			out = append(out, v)
		}
	}
	return &sliceCursor{vals: out}
}
func (m *memSymbols) OpenSetCursorForQuery(name string, query ast.Query) ast.SetCursor {
	return m.OpenSetCursor(name)
}
