package main

// C02 — sort order, skip, limit and total count are exact.
//
// Case line:   q <rows> <filter> <sort> <skip> <limit> <prov> <seek> <store>
//
//	<rows>    dataset (see c02_c19_common.go)
//	<filter>  true | null.<f> | notnull.<f> | cmp.<f>.<op>.<const>
//	<sort>    - | <field><dir>,...      dir: + ASC, - DESC, ~ no keyword, ^ asc, * desc, ! DeSc; <field> may be an alias
//	          name of a stored field (pgAliases: keyword-like symbol names)
//	<skip>    - | <int64> | x (a non-integer NUMBER) | big (an integer beyond int64)
//	<limit>   - | <int64> | none | x | big
//	<prov>    - | all[.<r>..] | any[.<r>..] | val.<r> | rel.<owner> | nil     cursor provider for QueryWithCursorC:
//	          IteratorMatchingAllOf / AnyOf with 0, 1 or more values (duplicates allowed), setIndex.OpenValueCursor,
//	          owners.GetRelatedEntitiesCursor(owner, "things") (fk back-reference list), a provider returning nil
//	<seek>    - | S<hex>                          Seek target for the unpaged IterateIds cursor
//	<store>   root | child | ext                  the store queried: "things", its plain child store, its extended child store
//
// Output line: sections joined by "|", each "<ids>#<count>", "<ids>" or "err":
//
//	ids    Store.QueryIds(text)
//	idsc   Store.QueryIdsC(parsed), the same query object run a second time, and the query's
//	       skip/limit as left behind:  <r1>/<r2>/<skip>:<limit>
//	cur    Store.QueryWithCursorC with the entities bucket's own OpenCursor
//	prov   Store.QueryWithCursorC with IteratorMatchingAllOf / IteratorMatchingAnyOf   ("-" if none)
//	iter   Store.IterateIds(query) drained with IsValid/Current/Next
//	seek   Store.IterateIds(predicate) (unpaged), Seek(v), drained                     ("-" if none)
//	alien  Store.QueryIdsC with a query parsed against a foreign symbol table (every name a string symbol) and filter
//	       `true`: the sort list reaches newRowComparator unvalidated (set symbols, names the store does not know)
//	sub    for rel.<owner>: the cursor Symbols.OpenSetCursorForQuery("things", query) returns on the owner's row
//	       (newCursorScanner), drained; "none" if there is no such owner                    ("-" otherwise)

import (
	"bufio"
	"fmt"
	"math"
	"strconv"
	"strings"

	"github.com/openziti/storage/ast"
	"github.com/openziti/storage/boltz"
	"go.etcd.io/bbolt"
)

func init() {
	register("c02", &propHarness{gen: c02Gen, exec: c02Exec})
}

func c02Exec(line string) string {
	if strings.HasPrefix(line, "h ") {
		return c02HistExec(line) // histories on one query object: c02_history.go
	}
	f := fields(line)
	if len(f) == 8 {
		f = append(f, "root")
	}
	if len(f) != 9 || f[0] != "q" {
		return "bad-case"
	}
	s := pgLoad(f[1])
	var store boltz.Store = s.things
	switch f[8] {
	case "child":
		store = s.child
	case "ext":
		store = s.ext
	}
	text := pgQueryText(f[2], f[3], f[4], f[5])
	var out []string
	// QueryIdsC with a query object that was parsed against a foreign symbol table accepting every name as a string
	// symbol (filter `true`): the sort list reaches newRowComparator without the parser's validation
	alien := "alien=err"
	err := s.db.View(func(tx *bbolt.Tx) error {
		if q, perr := ast.Parse(pgAnySymbols{}, pgQueryText("true", f[3], f[4], f[5])); perr == nil {
			ids, count, err := store.QueryIdsC(tx, q)
			alien = "alien=" + pgIds(ids, count, err)
		}
		// QueryIds
		ids, count, err := store.QueryIds(tx, text)
		out = append(out, "ids="+pgIds(ids, count, err))

		// QueryIdsC, twice on the same query object
		q, perr := ast.Parse(store, text)
		if perr != nil {
			out = append(out, "idsc=err", "cur=err", "prov="+map[bool]string{true: "-", false: "err"}[f[6] == "-"], "iter=err",
				"seek="+map[bool]string{true: "-", false: "err"}[f[7] == "-"],
				"sub="+map[bool]string{true: "err", false: "-"}[strings.HasPrefix(f[6], "rel.")], alien)
			return nil
		}
		ids1, c1, e1 := store.QueryIdsC(tx, q)
		ids2, c2, e2 := store.QueryIdsC(tx, q)
		st := "nil"
		if q.GetSkip() != nil {
			st = strconv.FormatInt(*q.GetSkip(), 10)
		}
		st += ":"
		if q.GetLimit() != nil {
			st += strconv.FormatInt(*q.GetLimit(), 10)
		} else {
			st += "nil"
		}
		out = append(out, "idsc="+pgIds(ids1, c1, e1)+"/"+pgIds(ids2, c2, e2)+"/"+st)

		// QueryWithCursorC, bucket cursor
		q, _ = ast.Parse(store, text)
		if b := store.GetEntitiesBucket(tx); b != nil {
			ids, count, err = store.QueryWithCursorC(tx, b.OpenCursor, q)
			out = append(out, "cur="+pgIds(ids, count, err))
		} else {
			out = append(out, "cur=nobucket")
		}

		// QueryWithCursorC, index providers
		if f[6] == "-" {
			out = append(out, "prov=-")
		} else {
			p := strings.Split(f[6], ".")
			var prov ast.SetCursorProvider
			switch p[0] {
			case "all":
				prov = s.things.IteratorMatchingAllOf(s.idxRoles, p[1:])
			case "any":
				prov = s.things.IteratorMatchingAnyOf(s.idxRoles, p[1:])
			case "val":
				prov = func(tx *bbolt.Tx, forward bool) ast.SetCursor {
					return s.idxRoles.OpenValueCursor(tx, []byte(p[1]), forward)
				}
			case "rel":
				prov = func(tx *bbolt.Tx, forward bool) ast.SetCursor {
					return s.owners.GetRelatedEntitiesCursor(tx, p[1], "things", forward)
				}
			default: // nil
				prov = func(tx *bbolt.Tx, forward bool) ast.SetCursor { return nil }
			}
			q, _ = ast.Parse(store, text)
			ids, count, err = store.QueryWithCursorC(tx, prov, q)
			out = append(out, "prov="+pgIds(ids, count, err))
		}

		// IterateIds with the paged query
		q, _ = ast.Parse(store, text)
		var it []string
		for c := store.IterateIds(tx, q); c.IsValid(); c.Next() {
			it = append(it, string(c.Current()))
			if len(it) > 1000 {
				it = append(it, "RUNAWAY")
				break
			}
		}
		out = append(out, "iter="+strings.Join(it, ","))

		// IterateIds with the bare predicate (unpaged), Seek, drain
		if f[7] == "-" {
			out = append(out, "seek=-")
		} else {
			q, _ = ast.Parse(store, text)
			c := store.IterateIds(tx, q.GetPredicate())
			c.Seek([]byte(fromWire(orDash(f[7][1:]))))
			var sk []string
			for ; c.IsValid(); c.Next() {
				sk = append(sk, string(c.Current()))
				if len(sk) > 1000 {
					break
				}
			}
			out = append(out, "seek="+strings.Join(sk, ","))
		}

		// newCursorScanner: the sub-query cursor of the owner's `things` set, obtained through the ast.Symbols the
		// owners store hands to a filter node
		if !strings.HasPrefix(f[6], "rel.") {
			out = append(out, "sub=-")
		} else {
			// parsed against the queried store (whose parse is known to succeed); newCursorScanner reads only the
			// predicate and the paging of it and evaluates in the linked store "things"
			q, _ = ast.Parse(store, text)
			cap := &pgCapture{owner: f[6][4:], query: q, result: "none"}
			for c := s.owners.IterateIds(tx, cap); c.IsValid(); c.Next() {
			}
			out = append(out, "sub="+cap.result)
		}
		out = append(out, alien)
		return nil
	})
	if err != nil {
		return "view-error"
	}
	return strings.Join(out, "|")
}

// pgAnySymbols is a symbol table that knows every name as a non-set string symbol.
type pgAnySymbols struct{}

func (pgAnySymbols) GetSymbolType(name string) (ast.NodeType, bool) { return ast.NodeTypeString, true }
func (pgAnySymbols) GetSetSymbolTypes(name string) ast.SymbolTypes  { return nil }
func (pgAnySymbols) IsSet(name string) (bool, bool)                 { return false, true }

// pgCapture is a filter node that, evaluated on the row of one owner, opens the sub-query cursor over the owner's
// `things` set (rowCursorImpl.OpenSetCursorForQuery -> newCursorScanner) and drains it.
type pgCapture struct {
	owner  string
	query  ast.Query
	result string
}

func (n *pgCapture) String() string        { return "capture" }
func (n *pgCapture) GetType() ast.NodeType { return ast.NodeTypeBool }
func (n *pgCapture) Accept(v ast.Visitor)  {}
func (n *pgCapture) IsConst() bool         { return false }
func (n *pgCapture) EvalBool(s ast.Symbols) bool {
	if id := s.EvalString("id"); id == nil || *id != n.owner {
		return false
	}
	var ids []string
	for c := s.OpenSetCursorForQuery("things", n.query); c.IsValid(); c.Next() {
		ids = append(ids, string(c.Current()))
		if len(ids) > 1000 {
			ids = append(ids, "RUNAWAY")
			break
		}
	}
	n.result = strings.Join(ids, ",")
	return true
}

func c02Emit(out *bufio.Writer, ds, filter, sortTok, skip, limit, prov, seek, store string) {
	fmt.Fprintf(out, "q %s %s %s %s %s %s %s %s\n", ds, filter, sortTok, skip, limit, prov, seek, store)
}

func c02GenProv(r *rng) string {
	k := r.intn(16)
	switch {
	case k < 7:
		return "-"
	case k < 12:
		// IteratorMatchingAllOf / AnyOf: 0, 1 or several values, duplicates, a value nobody has
		kind := pick(r, []string{"all", "any"})
		n := pick(r, []int{0, 1, 1, 2, 2, 3, 4})
		tok := kind
		for i := 0; i < n; i++ {
			tok += "." + pick(r, []string{"r", "r", "w", "w", "x", "q"})
		}
		return tok
	case k < 13:
		return "val." + pick(r, []string{"r", "w", "x", "q"})
	case k < 15:
		return "rel." + pick(r, []string{"o1", "o1", "o2", "o3", "o9"})
	}
	return "nil"
}

func c02GenSeek(r *rng) string {
	if r.chance(1, 2) {
		return "-"
	}
	return "S" + strings.TrimPrefix(toWire(pick(r, append([]string{"", "a0", "bb", "zzz"}, pgIdPool...))), "-")
}

// ---- datasets whose stored types differ from the symbol types (FieldTo* coercions)

var c02MixedInts = []string{"I-1", "I0", "I7", "I9", "I10", "J7", "J-1", "J2147483647", "J-2147483648", "I9007199254740992", "I9007199254740993",
	"I9223372036854775807", "I9223372036854775806", "I-9223372036854775808", "I16777216", "I16777217", "I2147483648"}
var c02MixedStrs = []string{"S", "S61", "S37", "S74727565", "S2d31", "S323032312d30332d30345430353a30363a30375a", "S302e35"}
var c02MixedTimes = []string{"T1614834367000000000", "T1614834367000000001", "T-1000000000", "T1577836800500000000", "T" + pgZeroTime}

func c02MixedFloats() []string {
	vals := []float64{-1.5, math.Copysign(0, -1), 0, 0.5, 2.5, 7, -1, 0.1, 1e21, 5e-324, 9007199254740992, 9223372036854775808,
		math.Inf(1), math.Inf(-1), 1.7976931348623157e308, math.NaN(), math.NaN()}
	var out []string
	for _, v := range vals {
		out = append(out, pgFloatTok(v))
	}
	return out
}

func c02MixedKind(r *rng, kind, col int) string {
	switch kind {
	case 0:
		return pick(r, []string{"B0", "B1", "N"})
	case 1:
		return pick(r, c02MixedInts)
	case 2:
		return pick(r, c02MixedFloats())
	case 3:
		return pick(r, c02MixedStrs)
	case 4:
		return pick(r, c02MixedTimes)
	}
	return "N"
}

// c02MixedTok picks a value for column col (1..6 = b i n f s t): the column's own pool, or — two times out
// of three — a value of ANOTHER stored type, which the column's symbol then reads through FieldTo<its type>.
func c02MixedTok(r *rng, col int) string {
	own := [][]string{nil, pgBoolPool, pgIntPool, pgInt32Pool, pgFloatPool, pgStrPool, pgTimePool}[col]
	if r.chance(1, 3) {
		return pick(r, own)
	}
	return c02MixedKind(r, r.intn(5), col)
}

// c02GenMixedRows: one FOCUS column is filled with values of one or two stored kinds in every row (so that
// coerced keys tie, nearly tie and collide with each other); the other columns are mixed freely.
func c02GenMixedRows(r *rng, n int) (string, string) {
	ids := append([]string{}, pgIdPool...)
	for len(ids) > n {
		k := r.intn(len(ids))
		ids = append(ids[:k], ids[k+1:]...)
	}
	focus := 1 + r.intn(6)
	// the coercions that do something: float64 symbol <- ints, string symbol <- everything
	if r.chance(1, 2) {
		focus = pick(r, []int{4, 5, 5})
	}
	k1, k2 := r.intn(5), r.intn(5)
	if focus == 4 {
		k1, k2 = 1, pick(r, []int{1, 2})
	}
	var rows []string
	for _, id := range ids {
		f := []string{id}
		for col := 1; col <= 6; col++ {
			if col == focus {
				f = append(f, c02MixedKind(r, pick(r, []int{k1, k2}), col))
			} else {
				f = append(f, c02MixedTok(r, col))
			}
		}
		f = append(f, "R"+pick(r, []string{"", "r", "r.w", "w"}), pick(r, []string{"C", "C", "C1", "C2"}))
		rows = append(rows, strings.Join(f, ","))
	}
	return strings.Join(rows, ";"), []string{"", "b", "i", "n", "f", "s", "t"}[focus]
}

func c02GenMixed(r *rng, out *bufio.Writer, nData, perData int) {
	for d := 0; d < nData; d++ {
		n := 1 + r.intn(7)
		ds, focus := c02GenMixedRows(r, n)
		sp, lp := pgSkipPool(n), pgLimitPool(n)
		for k := 0; k < perData; k++ {
			sortTok := pgGenSort(r)
			for sortTok == "-" || strings.HasPrefix(sortTok, "id") {
				sortTok = pgGenSort(r)
			}
			if r.chance(2, 3) {
				sortTok = focus + pick(r, []string{"+", "-", "~"}) + pick(r, []string{"", "", "," + sortTok})
			}
			skip, limit := "-", "-"
			if r.chance(1, 2) {
				skip, limit = pgPickPaging(r, sp, n, false), pgPickPaging(r, lp, n, true)
			}
			filter := "true"
			if r.chance(1, 3) {
				filter = pgGenFilter(r, false)
			}
			c02Emit(out, ds, filter, sortTok, skip, limit, "-", "-", pick(r, []string{"root", "root", "root", "child", "ext"}))
		}
	}
}

// ---- sort fields the parser resolves but the comparator may refuse: map elements, linked symbols, the fk
// symbol itself, an AnyType symbol, the child stores' own symbol

var c02OddSorts = []string{"tags.k+", "tags.k-,s+", "s+,tags.k-", "id+,tags.k-", "id-,tags.k.deep+", "owner.label+", "owner.label-,id+",
	"id~,owner.label-", "owner.id+", "s-,owner.id+", "owner+", "owner-,s+", "s+,owner-", "b+,owner~,i-", "a+", "s-,a+", "id-,a+",
	"code+", "code-,s+", "s+,code-", "id+,code-", "owner.things+", "owner.nosuch+", "tags+", "a+,tags.k+", "tags.k+,a+",
	"owner+,owner-", "i+,b-,s+,t-,f+,owner-", "i+,b-,s+,t-,f+,tags.k-",
	"roles+", "s+,roles-,nosuch+", "s+,nosuch-,roles+", "a+,roles-", "roles+,a-", "id+,roles-", "id-,nosuch+", "nosuch+", "things+", "tags-"}

func c02GenOddSorts(r *rng, out *bufio.Writer, nData, perData int) {
	for d := 0; d < nData; d++ {
		n := 1 + r.intn(7)
		ds := pgGenRows(r, n)
		sp, lp := pgSkipPool(n), pgLimitPool(n)
		for k := 0; k < perData; k++ {
			skip, limit := "-", "-"
			if r.chance(1, 2) {
				skip, limit = pgPickPaging(r, sp, n, false), pgPickPaging(r, lp, n, true)
			}
			filter := "true"
			if r.chance(1, 4) {
				filter = pgGenFilter(r, false)
			}
			prov := "-"
			if r.chance(1, 4) {
				prov = c02GenProv(r)
			}
			c02Emit(out, ds, filter, pick(r, c02OddSorts), skip, limit, prov, "-", pick(r, []string{"root", "root", "child", "ext"}))
		}
	}
}

// ---- keyword-like symbol names (aliases of the stored fields) in sort lists and filters

func c02GenAliases(r *rng, out *bufio.Writer, nData, perData int) {
	for d := 0; d < nData; d++ {
		n := 1 + r.intn(7)
		ds := pgGenRows(r, n)
		sp, lp := pgSkipPool(n), pgLimitPool(n)
		for k := 0; k < perData; k++ {
			skip, limit := "-", "-"
			if r.chance(1, 3) {
				skip, limit = pgPickPaging(r, sp, n, false), pgPickPaging(r, lp, n, true)
			}
			filter := "true"
			if r.chance(1, 3) {
				filter = pgAliasFilter(r)
			}
			c02Emit(out, ds, filter, pgGenAliasSort(r), skip, limit, "-", "-", pick(r, []string{"root", "root", "child", "ext"}))
		}
	}
}

func c02Gen(tier string, seed uint64, out *bufio.Writer) {
	r := newRng(seed)
	nData, perData := 300, 80
	if tier == "thorough" {
		nData, perData = 3000, 100
	}
	// fixed boundary cases first: no bucket, empty bucket
	for _, ds := range []string{"-", "0"} {
		for _, sk := range []string{"-", "0", "2", "-1"} {
			for _, li := range []string{"-", "none", "0", "3"} {
				c02Emit(out, ds, "true", "-", sk, li, "-", "-", "root")
				c02Emit(out, ds, "true", "s+", sk, li, "any.r", "S61", pick(r, []string{"root", "child", "ext"}))
			}
		}
	}
	for d := 0; d < nData; d++ {
		n := r.intn(8)
		ds := pgGenRows(r, n)
		sp, lp := pgSkipPool(n), pgLimitPool(n)
		for k := 0; k < perData; k++ {
			skip, limit := pgPickPaging(r, sp, n, false), pgPickPaging(r, lp, n, true)
			if r.chance(1, 60) {
				skip = pick(r, []string{"x", "big"})
			}
			if r.chance(1, 60) {
				limit = pick(r, []string{"x", "big"})
			}
			sortTok := pgGenSort(r)
			if r.chance(1, 80) {
				sortTok = pick(r, []string{"roles+", "s+,roles-", "id+,roles+", "nosuch+"})
			}
			c02Emit(out, ds, pgGenFilter(r, false), sortTok, skip, limit, c02GenProv(r), c02GenSeek(r),
				pick(r, []string{"root", "root", "root", "child", "child", "ext"}))
		}
	}
	if tier == "thorough" {
		c02GenMixed(newRng(seed^0xC02A), out, 2400, 30)
		c02GenOddSorts(newRng(seed^0xC02B), out, 600, 30)
		c02GenAliases(newRng(seed^0xC02C), out, 600, 30)
		c02GenHistories(newRng(seed^0xC02D), out, 800, 30)
	} else {
		c02GenMixed(newRng(seed^0xC02A), out, 160, 25)
		c02GenOddSorts(newRng(seed^0xC02B), out, 60, 30)
		c02GenAliases(newRng(seed^0xC02C), out, 60, 30)
		c02GenHistories(newRng(seed^0xC02D), out, 80, 30)
	}
	if tier == "thorough" {
		// bounded-exhaustive: n <= 6 rows x every skip/limit pool pair x 1-2 sort fields
		sorts := []string{"-", "id-", "s+", "s-", "b+", "i-", "f+", "t-", "n+", "s+,i-", "b-,s+", "f-,t+", "i+,id-", "s~,b~"}
		for n := 0; n <= 6; n++ {
			ds := pgGenRows(r, n)
			for _, sk := range pgSkipPool(n) {
				for _, li := range pgLimitPool(n) {
					for _, so := range sorts {
						c02Emit(out, ds, "true", so, sk, li, "-", "-", "root")
					}
				}
			}
		}
	}
}
