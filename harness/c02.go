package main

// C02 — sort order, skip, limit and total count are exact.
//
// Case line:   q <rows> <filter> <sort> <skip> <limit> <prov> <seek> <store>
//
//	<rows>    dataset (see c02_c19_common.go)
//	<filter>  true | null.<f> | notnull.<f> | cmp.<f>.<op>.<const>
//	<sort>    - | <field><dir>,...      dir: + ASC, - DESC, ~ no keyword
//	<skip>    - | <int64> | x (a non-integer NUMBER) | big (an integer beyond int64)
//	<limit>   - | <int64> | none | x | big
//	<prov>    - | all.<r>.<r>.. | any.<r>.<r>..   cursor provider for QueryWithCursorC
//	<seek>    - | S<hex>                          Seek target for the unpaged IterateIds cursor
//	<store>   root | child | ext                  the store queried: "things", its plain child store, its extended child store
//
// Output line: sections joined by "|", each "<ids>#<count>", "<ids>" or "err":
//
//	ids    Store.QueryIds(text)
//	idsc   Store.QueryIdsC(parsed), the same query object run a second time, and the query's
//	       skip/limit as left behind:  <r1>/<r2>/<skip>:<limit>
//	cur    Store.QueryWithCursorC with the entities bucket's own OpenCursor
//	prov   Store.QueryWithCursorC with IteratorMatchingAllOf / IteratorMatchingAnyOf   ("-" if none)
//	iter   Store.IterateIds(query) drained with IsValid/Current/Next
//	seek   Store.IterateIds(predicate) (unpaged), Seek(v), drained                     ("-" if none)

import (
	"bufio"
	"fmt"
	"strconv"
	"strings"

	"github.com/openziti/storage/ast"
	"github.com/openziti/storage/boltz"
	"go.etcd.io/bbolt"
)

func init() {
	register("c02", &propHarness{gen: c02Gen, exec: c02Exec})
}

func c02Exec(line string) string {
	f := fields(line)
	if len(f) == 8 {
		f = append(f, "root")
	}
	if len(f) != 9 || f[0] != "q" {
		return "bad-case"
	}
	s := pgLoad(f[1])
	var store boltz.Store = s.things
	switch f[8] {
	case "child":
		store = s.child
	case "ext":
		store = s.ext
	}
	text := pgQueryText(f[2], f[3], f[4], f[5])
	var out []string
	err := s.db.View(func(tx *bbolt.Tx) error {
		// QueryIds
		ids, count, err := store.QueryIds(tx, text)
		out = append(out, "ids="+pgIds(ids, count, err))

		// QueryIdsC, twice on the same query object
		q, perr := ast.Parse(store, text)
		if perr != nil {
			out = append(out, "idsc=err", "cur=err", "prov="+map[bool]string{true: "-", false: "err"}[f[6] == "-"], "iter=err",
				"seek="+map[bool]string{true: "-", false: "err"}[f[7] == "-"])
			return nil
		}
		ids1, c1, e1 := store.QueryIdsC(tx, q)
		ids2, c2, e2 := store.QueryIdsC(tx, q)
		st := "nil"
		if q.GetSkip() != nil {
			st = strconv.FormatInt(*q.GetSkip(), 10)
		}
		st += ":"
		if q.GetLimit() != nil {
			st += strconv.FormatInt(*q.GetLimit(), 10)
		} else {
			st += "nil"
		}
		out = append(out, "idsc="+pgIds(ids1, c1, e1)+"/"+pgIds(ids2, c2, e2)+"/"+st)

		// QueryWithCursorC, bucket cursor
		q, _ = ast.Parse(store, text)
		if b := store.GetEntitiesBucket(tx); b != nil {
			ids, count, err = store.QueryWithCursorC(tx, b.OpenCursor, q)
			out = append(out, "cur="+pgIds(ids, count, err))
		} else {
			out = append(out, "cur=nobucket")
		}

		// QueryWithCursorC, index providers
		if f[6] == "-" {
			out = append(out, "prov=-")
		} else {
			p := strings.Split(f[6], ".")
			var prov ast.SetCursorProvider
			if p[0] == "all" {
				prov = s.things.IteratorMatchingAllOf(s.idxRoles, p[1:])
			} else {
				prov = s.things.IteratorMatchingAnyOf(s.idxRoles, p[1:])
			}
			q, _ = ast.Parse(store, text)
			ids, count, err = store.QueryWithCursorC(tx, prov, q)
			out = append(out, "prov="+pgIds(ids, count, err))
		}

		// IterateIds with the paged query
		q, _ = ast.Parse(store, text)
		var it []string
		for c := store.IterateIds(tx, q); c.IsValid(); c.Next() {
			it = append(it, string(c.Current()))
			if len(it) > 1000 {
				it = append(it, "RUNAWAY")
				break
			}
		}
		out = append(out, "iter="+strings.Join(it, ","))

		// IterateIds with the bare predicate (unpaged), Seek, drain
		if f[7] == "-" {
			out = append(out, "seek=-")
		} else {
			q, _ = ast.Parse(store, text)
			c := store.IterateIds(tx, q.GetPredicate())
			c.Seek([]byte(fromWire(orDash(f[7][1:]))))
			var sk []string
			for ; c.IsValid(); c.Next() {
				sk = append(sk, string(c.Current()))
				if len(sk) > 1000 {
					break
				}
			}
			out = append(out, "seek="+strings.Join(sk, ","))
		}
		return nil
	})
	if err != nil {
		return "view-error"
	}
	return strings.Join(out, "|")
}

func c02Emit(out *bufio.Writer, ds, filter, sortTok, skip, limit, prov, seek, store string) {
	fmt.Fprintf(out, "q %s %s %s %s %s %s %s %s\n", ds, filter, sortTok, skip, limit, prov, seek, store)
}

func c02GenProv(r *rng) string {
	if r.chance(1, 2) {
		return "-"
	}
	kind := pick(r, []string{"all", "any"})
	n := 1 + r.intn(2)
	var rs []string
	for _, ro := range pgRolePool {
		if len(rs) < n && r.chance(2, 3) {
			rs = append(rs, ro)
		}
	}
	if len(rs) == 0 {
		rs = []string{"r"}
	}
	return kind + "." + strings.Join(rs, ".")
}

func c02GenSeek(r *rng) string {
	if r.chance(1, 2) {
		return "-"
	}
	return "S" + strings.TrimPrefix(toWire(pick(r, append([]string{"", "a0", "bb", "zzz"}, pgIdPool...))), "-")
}

func c02Gen(tier string, seed uint64, out *bufio.Writer) {
	r := newRng(seed)
	nData, perData := 300, 80
	if tier == "thorough" {
		nData, perData = 3000, 100
	}
	// fixed boundary cases first: no bucket, empty bucket
	for _, ds := range []string{"-", "0"} {
		for _, sk := range []string{"-", "0", "2", "-1"} {
			for _, li := range []string{"-", "none", "0", "3"} {
				c02Emit(out, ds, "true", "-", sk, li, "-", "-", "root")
				c02Emit(out, ds, "true", "s+", sk, li, "any.r", "S61", pick(r, []string{"root", "child", "ext"}))
			}
		}
	}
	for d := 0; d < nData; d++ {
		n := r.intn(8)
		ds := pgGenRows(r, n)
		sp, lp := pgSkipPool(n), pgLimitPool(n)
		for k := 0; k < perData; k++ {
			skip, limit := pgPickPaging(r, sp, n, false), pgPickPaging(r, lp, n, true)
			if r.chance(1, 60) {
				skip = pick(r, []string{"x", "big"})
			}
			if r.chance(1, 60) {
				limit = pick(r, []string{"x", "big"})
			}
			sortTok := pgGenSort(r)
			if r.chance(1, 80) {
				sortTok = pick(r, []string{"roles+", "s+,roles-", "id+,roles+", "nosuch+"})
			}
			c02Emit(out, ds, pgGenFilter(r, false), sortTok, skip, limit, c02GenProv(r), c02GenSeek(r),
				pick(r, []string{"root", "root", "root", "child", "child", "ext"}))
		}
	}
	if tier == "thorough" {
		// bounded-exhaustive: n <= 6 rows x every skip/limit pool pair x 1-2 sort fields
		sorts := []string{"-", "id-", "s+", "s-", "b+", "i-", "f+", "t-", "n+", "s+,i-", "b-,s+", "f-,t+", "i+,id-", "s~,b~"}
		for n := 0; n <= 6; n++ {
			ds := pgGenRows(r, n)
			for _, sk := range pgSkipPool(n) {
				for _, li := range pgLimitPool(n) {
					for _, so := range sorts {
						c02Emit(out, ds, "true", so, sk, li, "-", "-", "root")
					}
				}
			}
		}
	}
}
