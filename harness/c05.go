package main

// C05 — link collections stay symmetric; ref-counted links agree on both sides.
//
// Real code under test: boltz.LinkCollection / boltz.RefCountedLinkCollection of two stores wired
// with AddLinkCollection / AddRefCountedLinkCollection (the way /repo/boltz/*_test.go wires
// employees and locations), boltz.BaseStore Create/Update (PersistContext.SetLinkedIds) and
// DeleteById (cleanupLinks -> EntityDeleted), over a real bbolt file opened with boltz.Open.
//
// Case line (one history):
//
//	H|X <poolA> <poolB> <tx> <tx> ...
//
// pool = comma separated wire ids (hex, "-" = empty string); tx = ops joined by ';';
// op = fields joined by ':'; key lists inside an op are joined by ','.
// H: history inside the property's vocabulary; X: outside (negative counts, counts >= 2^31):
// compared with the model only.
//
//	c:S:id            Create (entity without link field in PersistEntity)
//	cl:S:id:keys      Create, PersistEntity calls ctx.SetLinkedIds(field, keys)
//	u:S:id:keys:p     Update, PersistEntity calls ctx.SetLinkedIds; p = n (nil checker) | 1 (checker lists the field) | 0 (does not)
//	d:S:id            DeleteById
//	al|rl|sl:S:id:keys   AddLinks | RemoveLinks | SetLinks
//	a1|r1:S:id:k      AddLink | RemoveLink
//	inc|dec:S:id:k    IncrementLinkCount | DecrementLinkCount
//	set:S:id:k:n      SetLinkCount
//	gl:S:id  il:S:id:k  gc:S:id:k    GetLinks | IsLinked | GetLinkCounts inside the write transaction
//
// Output: for every transaction `<op results joined by ';'>|<partial view when the body failed>|<view after the tx>`, joined by ' '.
import (
	"bufio"
	"context"
	"encoding/binary"
	"fmt"
	"os"
	"path/filepath"
	"sort"
	"strconv"
	"strings"

	"github.com/openziti/storage/ast"
	"github.com/openziti/storage/boltz"
	"go.etcd.io/bbolt"
)

func init() {
	register("c05", &propHarness{gen: c05Gen, exec: c05Exec})
}

// ---------------------------------------------------------------------------- stores

type c05Ent struct {
	Id       string
	Type     string
	Links    []string
	SetLinks bool
	field    string
}

func (e *c05Ent) GetId() string         { return e.Id }
func (e *c05Ent) SetId(id string)       { e.Id = id }
func (e *c05Ent) GetEntityType() string { return e.Type }

type c05Strategy struct{ typ, field string }

func (s c05Strategy) NewEntity() *c05Ent                        { return &c05Ent{Type: s.typ} }
func (s c05Strategy) FillEntity(*c05Ent, *boltz.TypedBucket)    {}
func (s c05Strategy) PersistEntity(e *c05Ent, ctx *boltz.PersistContext) {
	if e.SetLinks {
		ctx.SetLinkedIds(s.field, e.Links)
	}
}

const (
	c05Root   = "u"
	c05TypeA  = "things"
	c05TypeB  = "owners"
	c05LinkA  = "groups"  // A.groups  <-> B.members
	c05LinkB  = "members" //
	c05RcA    = "rcB"     // A.rcB     <-> B.rcA  (ref counted)
	c05RcB    = "rcA"
)

type c05Side struct {
	typ       string
	linkField string
	rcField   string
	store     *boltz.BaseStore[*c05Ent]
	links     boltz.LinkCollection
	rc        boltz.RefCountedLinkCollection
}

type c05Env struct {
	dir  string
	db   *boltz.DbImpl
	side [2]*c05Side // 0 = A, 1 = B
}

func c05NewStore(typ, field string) *boltz.BaseStore[*c05Ent] {
	def := boltz.StoreDefinition[*c05Ent]{
		EntityType:     typ,
		EntityStrategy: c05Strategy{typ: typ, field: field},
		BasePath:       []string{c05Root},
		EntityNotFoundF: func(id string) error {
			return boltz.NewNotFoundError(boltz.GetSingularEntityType(typ), "id", id)
		},
	}
	st := boltz.NewBaseStore(def)
	st.InitImpl(st)
	return st
}

func c05Open() *c05Env {
	dir, err := os.MkdirTemp("", "verif-*")
	if err != nil {
		panic(err)
	}
	db, err := boltz.Open(filepath.Join(dir, "c05.db"), c05Root)
	if err != nil {
		panic(err)
	}
	a := &c05Side{typ: c05TypeA, linkField: c05LinkA, rcField: c05RcA, store: c05NewStore(c05TypeA, c05LinkA)}
	b := &c05Side{typ: c05TypeB, linkField: c05LinkB, rcField: c05RcB, store: c05NewStore(c05TypeB, c05LinkB)}
	a.store.AddIdSymbol("id", ast.NodeTypeString)
	b.store.AddIdSymbol("id", ast.NodeTypeString)
	symA := a.store.AddFkSetSymbol(c05LinkA, b.store)
	symB := b.store.AddFkSetSymbol(c05LinkB, a.store)
	rcSymA := a.store.AddFkSetSymbol(c05RcA, b.store)
	rcSymB := b.store.AddFkSetSymbol(c05RcB, a.store)
	a.links = a.store.AddLinkCollection(symA, symB)
	b.links = b.store.AddLinkCollection(symB, symA)
	a.rc = a.store.AddRefCountedLinkCollection(rcSymA, rcSymB)
	b.rc = b.store.AddRefCountedLinkCollection(rcSymB, rcSymA)
	// the file stays usable through bbolt's open descriptor; removing the directory right away
	// means nothing is left behind however the process ends
	_ = os.RemoveAll(dir)
	return &c05Env{dir: dir, db: db, side: [2]*c05Side{a, b}}
}

func (e *c05Env) close() {
	_ = e.db.Close()
	_ = os.RemoveAll(e.dir)
}

// wipe removes everything a previous history left behind
func (e *c05Env) wipe() {
	err := e.db.Update(nil, func(ctx boltz.MutateContext) error {
		tx := ctx.Tx()
		var names [][]byte
		_ = tx.ForEach(func(name []byte, _ *bbolt.Bucket) error {
			names = append(names, append([]byte{}, name...))
			return nil
		})
		for _, n := range names {
			if err := tx.DeleteBucket(n); err != nil {
				return err
			}
		}
		return nil
	})
	if err != nil {
		panic(err)
	}
}

var c05env *c05Env

// ---------------------------------------------------------------------------- executor

func c05Err(err error) string {
	if err == nil {
		return ""
	}
	msg := err.Error()
	switch {
	case boltz.IsReferenceExistsError(err):
		return "!referenced" // a restricting fk refuses the delete (R-cases)
	case boltz.IsErrNotFoundErr(err):
		return "!notfound"
	case strings.Contains(msg, "unexpected mismatch"):
		return "!mismatch"
	case strings.Contains(msg, "not found with id"):
		return "!missing"
	case strings.Contains(msg, "already exists"):
		return "!exists"
	case strings.Contains(msg, "blank id"):
		return "!blank"
	case strings.Contains(msg, "key too large"):
		return "!toolarge" // bbolt: a link key (type byte + id) longer than MaxKeySize
	}
	return "!other(" + strings.ReplaceAll(msg, " ", "_") + ")"
}

func c05List(s string) []string {
	if s == "" {
		return nil
	}
	parts := strings.Split(s, ",")
	res := make([]string, len(parts))
	for i, p := range parts {
		res[i] = fromWire(p)
	}
	return res
}

func c05Wires(xs []string) string {
	ws := make([]string, len(xs))
	for i, x := range xs {
		ws[i] = toWire(x)
	}
	return strings.Join(ws, ",")
}

func c05SideIdx(s string) int {
	if s == "A" {
		return 0
	}
	return 1
}

func c05OptI32(p *int32) string {
	if p == nil {
		return "n"
	}
	return strconv.FormatInt(int64(*p), 10)
}

func c05Bool(b bool) string {
	if b {
		return "t"
	}
	return "f"
}

type c05Checker map[string]struct{}

func (c c05Checker) IsUpdated(f string) bool { _, ok := c[f]; return ok }

// c05Op runs one operation inside the write transaction and renders `<ret>[!<err>]`
func (e *c05Env) op(ctx boltz.MutateContext, op string) (string, bool) {
	tx := ctx.Tx()
	f := strings.Split(op, ":")
	sd := e.side[c05SideIdx(f[1])]
	id := fromWire(f[2])
	var ret string
	var err error
	switch f[0] {
	case "c":
		err = sd.store.Create(ctx, &c05Ent{Id: id, Type: sd.typ})
		ret = "u"
	case "cl":
		err = sd.store.Create(ctx, &c05Ent{Id: id, Type: sd.typ, SetLinks: true, Links: c05List(f[3])})
		ret = "u"
	case "u":
		var checker boltz.FieldChecker
		switch f[4] {
		case "1":
			checker = c05Checker{sd.linkField: {}}
		case "0":
			checker = c05Checker{"somethingElse": {}}
		}
		err = sd.store.Update(ctx, &c05Ent{Id: id, Type: sd.typ, SetLinks: true, Links: c05List(f[3])}, checker)
		ret = "u"
	case "d":
		err = sd.store.DeleteById(ctx, id)
		ret = "u"
	case "al":
		err = sd.links.AddLinks(tx, id, c05List(f[3])...)
		ret = "u"
	case "rl":
		err = sd.links.RemoveLinks(tx, id, c05List(f[3])...)
		ret = "u"
	case "sl":
		err = sd.links.SetLinks(tx, id, c05List(f[3]))
		ret = "u"
	case "a1":
		var ch bool
		ch, err = sd.links.AddLink(tx, []byte(id), []byte(fromWire(f[3])))
		ret = c05Bool(ch)
	case "r1":
		var ch bool
		ch, err = sd.links.RemoveLink(tx, []byte(id), []byte(fromWire(f[3])))
		ret = c05Bool(ch)
	case "inc":
		var n int
		n, err = sd.rc.IncrementLinkCount(tx, []byte(id), []byte(fromWire(f[3])))
		ret = strconv.Itoa(n)
	case "dec":
		var n int
		n, err = sd.rc.DecrementLinkCount(tx, []byte(id), []byte(fromWire(f[3])))
		ret = strconv.Itoa(n)
	case "set":
		cnt, perr := strconv.ParseInt(f[4], 10, 64)
		if perr != nil {
			panic(perr)
		}
		var o1, o2 *int32
		o1, o2, err = sd.rc.SetLinkCount(tx, []byte(id), []byte(fromWire(f[3])), int(cnt))
		ret = c05OptI32(o1) + "~" + c05OptI32(o2)
	case "gl":
		ret = "[" + c05Wires(sd.links.GetLinks(tx, id)) + "]"
	case "il":
		ret = c05Bool(sd.links.IsLinked(tx, []byte(id), []byte(fromWire(f[3]))))
	case "gc":
		o1, o2 := sd.rc.GetLinkCounts(tx, []byte(id), []byte(fromWire(f[3])))
		ret = c05OptI32(o1) + "~" + c05OptI32(o2)
	default:
		panic("bad op " + op)
	}
	return ret + c05Err(err), err != nil
}

func c05Cursor(c ast.SetCursor) []string {
	var res []string
	for n := 0; c.IsValid() && n < 1000000; n++ {
		res = append(res, string(c.Current()))
		c.Next()
	}
	return res
}

// view renders what the public read API says about every pool entity, then the raw bucket dump
func (e *c05Env) view(tx *bbolt.Tx, pools [2][]string) string {
	var b strings.Builder
	for s := 0; s < 2; s++ {
		sd := e.side[s]
		other := pools[1-s]
		for _, id := range pools[s] {
			bid := []byte(id)
			fmt.Fprintf(&b, "%s.%s=", "AB"[s:s+1], toWire(id))
			b.WriteString(c05Bool(sd.store.IsEntityPresent(tx, id)))
			b.WriteString("/" + c05Wires(sd.links.GetLinks(tx, id)))
			b.WriteString("/" + c05Wires(c05Cursor(sd.links.IterateLinks(tx, bid))))
			b.WriteString("/")
			for _, k := range other {
				b.WriteString(c05Bool(sd.links.IsLinked(tx, bid, []byte(k))))
			}
			// the store-level readers of the same bucket (store_crud.go)
			b.WriteString("/" + c05Wires(sd.store.GetRelatedEntitiesIdList(tx, id, sd.linkField)))
			b.WriteString("/" + c05Wires(c05Cursor(sd.store.GetRelatedEntitiesCursor(tx, id, sd.linkField, true))))
			b.WriteString("/")
			for _, k := range other {
				b.WriteString(c05Bool(sd.store.IsEntityRelated(tx, id, sd.linkField, k)))
			}
			b.WriteString("/")
			fw := c05Cursor(sd.rc.IterateLinks(tx, bid, true))
			for i, k := range fw {
				if i > 0 {
					b.WriteString(",")
				}
				b.WriteString(toWire(k) + ":" + c05OptI32(sd.rc.GetLinkCount(tx, bid, []byte(k))))
			}
			b.WriteString("/" + c05Wires(c05Cursor(sd.rc.IterateLinks(tx, bid, false))))
			b.WriteString("/")
			for i, k := range other {
				if i > 0 {
					b.WriteString(",")
				}
				o1, o2 := sd.rc.GetLinkCounts(tx, bid, []byte(k))
				b.WriteString(c05OptI32(o1) + "~" + c05OptI32(o2))
			}
			b.WriteString(";")
		}
	}
	b.WriteString("#")
	b.WriteString(e.dump(tx))
	return b.String()
}

type c05Visitor struct {
	ents  map[string]*c05DumpEnt
	extra []string
}

type c05DumpEnt struct {
	links []string
	rc    []string
}

func (v *c05Visitor) ent(side, id string) *c05DumpEnt {
	k := side + "." + toWire(id)
	if v.ents[k] == nil {
		v.ents[k] = &c05DumpEnt{}
	}
	return v.ents[k]
}

func c05SideOfType(t string) string {
	switch t {
	case c05TypeA:
		return "A"
	case c05TypeB:
		return "B"
	}
	return ""
}

func (v *c05Visitor) VisitBucket(path string, key []byte, _ *bbolt.Bucket) bool {
	p := strings.Split(path, "/") // "", "u", type, id, field
	switch {
	case len(p) == 1 && string(key) == c05Root:
	case len(p) == 2 && p[1] == c05Root && c05SideOfType(string(key)) != "":
	case len(p) == 3 && c05SideOfType(p[2]) != "":
		v.ent(c05SideOfType(p[2]), string(key))
	case len(p) == 4 && c05SideOfType(p[2]) != "" &&
		((p[2] == c05TypeA && (string(key) == c05LinkA || string(key) == c05RcA)) ||
			(p[2] == c05TypeB && (string(key) == c05LinkB || string(key) == c05RcB))):
	default:
		v.extra = append(v.extra, "bucket:"+path+"/"+toWire(string(key)))
	}
	return true
}

func (v *c05Visitor) VisitKeyValue(path string, key, value []byte) bool {
	p := strings.Split(path, "/")
	if len(p) == 5 && c05SideOfType(p[2]) != "" {
		ent := v.ent(c05SideOfType(p[2]), p[3])
		t, k := boltz.GetTypeAndValue(key)
		isLink := (p[2] == c05TypeA && p[4] == c05LinkA) || (p[2] == c05TypeB && p[4] == c05LinkB)
		isRc := (p[2] == c05TypeA && p[4] == c05RcA) || (p[2] == c05TypeB && p[4] == c05RcB)
		if t == boltz.TypeString && isLink && len(value) == 0 {
			ent.links = append(ent.links, toWire(string(k)))
			return true
		}
		if t == boltz.TypeString && isRc && len(value) == 5 && boltz.FieldType(value[0]) == boltz.TypeInt32 {
			n := int32(binary.LittleEndian.Uint32(value[1:]))
			ent.rc = append(ent.rc, toWire(string(k))+":"+strconv.FormatInt(int64(n), 10))
			return true
		}
	}
	v.extra = append(v.extra, "kv:"+path+"/"+toWire(string(key))+"="+toWire(string(value)))
	return true
}

// dump: canonicalised boltz.Traverse of the whole file: every entity bucket with its link keys
// and its count entries in bucket order; empty field buckets are dropped; anything the schema
// does not explain is listed verbatim
func (e *c05Env) dump(tx *bbolt.Tx) string {
	v := &c05Visitor{ents: map[string]*c05DumpEnt{}}
	boltz.Traverse(tx, "", v)
	keys := make([]string, 0, len(v.ents))
	for k := range v.ents {
		keys = append(keys, k)
	}
	sort.Slice(keys, func(i, j int) bool {
		// side first, then id in byte order (the wire form is hex, which preserves byte order
		// except for "-" = empty, which cannot be an entity id)
		return keys[i] < keys[j]
	})
	var b strings.Builder
	for _, k := range keys {
		en := v.ents[k]
		b.WriteString(k + "[" + strings.Join(en.links, ",") + "][" + strings.Join(en.rc, ",") + "];")
	}
	if len(v.extra) > 0 {
		sort.Strings(v.extra)
		b.WriteString("EXTRA:" + strings.Join(v.extra, ","))
	}
	return b.String()
}

func c05Exec(line string) string {
	if strings.HasPrefix(line, "S ") {
		return c05SelfExec(line)
	}
	if strings.HasPrefix(line, "G ") || strings.HasPrefix(line, "R ") {
		return c05SchemaExec(line)
	}
	if c05env == nil {
		c05env = c05Open()
	}
	e := c05env
	e.wipe()
	f := fields(line)
	pools := [2][]string{c05List(f[1]), c05List(f[2])}
	var out strings.Builder
	for _, txs := range f[3:] {
		ops := strings.Split(txs, ";")
		var results []string
		partial := ""
		err := e.db.Update(boltz.NewMutateContext(context.Background()), func(ctx boltz.MutateContext) error {
			for _, op := range ops {
				r, failed := e.op(ctx, op)
				results = append(results, r)
				if failed {
					partial = e.view(ctx.Tx(), pools)
					return fmt.Errorf("op failed")
				}
			}
			return nil
		})
		if err != nil && partial == "" {
			results = append(results, "commit-error("+strings.ReplaceAll(err.Error(), " ", "_")+")")
		}
		var after string
		_ = e.db.View(func(tx *bbolt.Tx) error {
			after = e.view(tx, pools)
			return nil
		})
		if out.Len() > 0 {
			out.WriteString(" ")
		}
		out.WriteString(strings.Join(results, ";") + "|" + partial + "|" + after)
	}
	return out.String()
}

// ---------------------------------------------------------------------------- generator

var c05Alphabet = []string{"a", "ab", "b", "ba", "c"}

type c05Gen_ struct {
	r   *rng
	out *bufio.Writer
}

func c05Gen(tier string, seed uint64, out *bufio.Writer) {
	g := &c05Gen_{r: newRng(seed), out: out}
	g.setLinksStream(tier)
	g.rcBoundaryStream()
	g.wideStream(tier)
	c05SelfGen(g, tier)
	c05SchemaGen(g, tier)
	c05RestrictGen(g, tier)
	nh, nx := 1500, 300
	if tier == "thorough" {
		nh, nx = 30000, 4000
	}
	for i := 0; i < nh; i++ {
		g.history(false)
	}
	for i := 0; i < nx; i++ {
		g.history(true)
	}
}

// all (cur, req) pairs: cur = subsets of the alphabet with |cur| <= 4, req = sequences with
// duplicates of length <= maxReq; SetLinks is called through the collection of side A on entity
// "x", every alphabet symbol exists on side B (plus, in a second stream, with some of them missing)
func (g *c05Gen_) setLinksStream(tier string) {
	maxReq := 3
	if tier == "thorough" {
		maxReq = 5
	}
	al := c05Alphabet
	var curs [][]string
	for m := 0; m < 1<<len(al); m++ {
		var c []string
		for i := range al {
			if m&(1<<i) != 0 {
				c = append(c, al[i])
			}
		}
		if len(c) <= 4 {
			curs = append(curs, c)
		}
	}
	var reqs [][]string
	var rec func(prefix []string, n int)
	rec = func(prefix []string, n int) {
		reqs = append(reqs, append([]string{}, prefix...))
		if n == 0 {
			return
		}
		for _, a := range al {
			rec(append(prefix, a), n-1)
		}
	}
	rec(nil, maxReq)
	poolA := c05Wires([]string{"x"})
	poolB := c05Wires(al)
	var setup []string
	for _, a := range al {
		setup = append(setup, "c:B:"+toWire(a))
	}
	setup = append(setup, "c:A:"+toWire("x"))
	for _, cur := range curs {
		for _, req := range reqs {
			// entry point: SetLinks directly, or through Update/PersistContext.SetLinkedIds
			call := "sl:A:" + toWire("x") + ":" + c05Wires(req)
			switch g.r.intn(8) {
			case 0:
				call = "u:A:" + toWire("x") + ":" + c05Wires(req) + ":n"
			case 1:
				call = "u:A:" + toWire("x") + ":" + c05Wires(req) + ":1"
			}
			fmt.Fprintf(g.out, "H %s %s %s;al:A:%s:%s %s\n", poolA, poolB, strings.Join(setup, ";"), toWire("x"), c05Wires(cur), call)
		}
	}
	// requests naming missing entities: one or two alphabet symbols are never created
	nMissing := 400
	if tier == "thorough" {
		nMissing = 6000
	}
	for i := 0; i < nMissing; i++ {
		missing := map[string]bool{pick(g.r, al): true}
		if g.r.chance(1, 3) {
			missing[pick(g.r, al)] = true
		}
		var st []string
		var present []string
		for _, a := range al {
			if !missing[a] {
				st = append(st, "c:B:"+toWire(a))
				present = append(present, a)
			}
		}
		st = append(st, "c:A:"+toWire("x"))
		var cur []string
		for _, a := range present {
			if g.r.chance(1, 2) {
				cur = append(cur, a)
			}
		}
		n := g.r.intn(6)
		var req []string
		for j := 0; j < n; j++ {
			req = append(req, pick(g.r, al))
		}
		fmt.Fprintf(g.out, "H %s %s %s;al:A:%s:%s sl:A:%s:%s\n", poolA, poolB, strings.Join(st, ";"), toWire("x"), c05Wires(cur), toWire("x"), c05Wires(req))
	}
}

// counts around the byte boundaries of the little-endian int32 encoding and around the int32
// limits: set the count, then step it up and down in separate transactions from either side
func (g *c05Gen_) rcBoundaryStream() {
	a, b := toWire("a"), toWire("b")
	for _, c := range []int64{1, 2, 127, 128, 255, 256, 257, 32767, 32768, 65535, 65536, 16777215, 16777216, 2147483645} {
		for v := 0; v < 2; v++ {
			s1, s2 := "A:"+a+":"+b, "B:"+b+":"+a
			if v == 1 {
				s1, s2 = s2, s1
			}
			fmt.Fprintf(g.out, "H %s %s c:A:%s;c:B:%s set:%s:%d inc:%s inc:%s dec:%s;dec:%s dec:%s set:%s:0 dec:%s\n",
				a, b, a, b, s1, c, s2, s1, s2, s1, s2, s1, s2)
		}
	}
	// counting down to zero from a small count, one transaction per step
	for _, c := range []int64{1, 2, 3} {
		steps := []string{fmt.Sprintf("set:A:%s:%s:%d", a, b, c)}
		for i := int64(0); i <= c; i++ {
			if i%2 == 0 {
				steps = append(steps, "dec:B:"+b+":"+a)
			} else {
				steps = append(steps, "dec:A:"+a+":"+b)
			}
		}
		fmt.Fprintf(g.out, "H %s %s c:A:%s;c:B:%s %s\n", a, b, a, b, strings.Join(steps, " "))
	}
	// outside the vocabulary: wrap-around at the int32 limits and truncation of large arguments
	for _, c := range []int64{2147483647, 2147483648, 4294967295, 4294967296, 4294967297, -1, -2147483648, -2147483649} {
		fmt.Fprintf(g.out, "X %s %s c:A:%s;c:B:%s set:A:%s:%s:%d inc:B:%s:%s inc:A:%s:%s dec:A:%s:%s dec:B:%s:%s\n",
			a, b, a, b, a, b, c, b, a, a, b, a, b, b, a)
	}
}

// wide sets: more links per entity than any other stream (12 ids on the other side, requests of
// up to 20 keys), SetLinks / AddLinks / RemoveLinks / delete on them
func (g *c05Gen_) wideStream(tier string) {
	n := 60
	if tier == "thorough" {
		n = 1500
	}
	var wide []string
	for i := 0; i < 12; i++ {
		wide = append(wide, fmt.Sprintf("k%02d", (i*7)%12))
	}
	for i := 0; i < n; i++ {
		var setup []string
		for _, k := range wide {
			if g.r.chance(9, 10) {
				setup = append(setup, "c:B:"+toWire(k))
			}
		}
		setup = append(setup, "c:A:"+toWire("x"), "c:A:"+toWire("y"))
		lst := func(max int) string {
			m := g.r.intn(max + 1)
			var ks []string
			for j := 0; j < m; j++ {
				ks = append(ks, pick(g.r, wide))
			}
			return c05Wires(ks)
		}
		x := toWire("x")
		var txs []string
		txs = append(txs, strings.Join(setup, ";"))
		for t := 0; t < 2+g.r.intn(4); t++ {
			switch g.r.intn(6) {
			case 0:
				txs = append(txs, "al:A:"+x+":"+lst(20))
			case 1:
				txs = append(txs, "rl:A:"+x+":"+lst(20))
			case 2, 3:
				txs = append(txs, "sl:A:"+x+":"+lst(20))
			case 4:
				txs = append(txs, "sl:A:"+toWire("y")+":"+lst(20)+";d:B:"+toWire(pick(g.r, wide)))
			case 5:
				txs = append(txs, "sl:B:"+toWire(pick(g.r, wide))+":"+c05Wires([]string{"x", "y", "x"}))
			}
		}
		if g.r.chance(1, 2) {
			txs = append(txs, "d:A:"+x)
		}
		fmt.Fprintf(g.out, "H %s %s %s\n", c05Wires([]string{"x", "y"}), c05Wires(wide), strings.Join(txs, " "))
	}
}

var c05IdPool = []string{"a", "ab", "b", "ba", "c", "a\x00", "A", "\xff", "aa", "x y", "é", "b:1", "b,2", "b;3"}

var c05Counts = []int64{0, 0, 1, 1, 1, 2, 2, 3, 7, 255, 256, 65535, 65536, 16777216, 2147483646, 2147483647}
var c05XCounts = []int64{-1, -2, -2147483648, 2147483648, 4294967296, 4294967297, 2147483647, 2147483646, 0, 1}

func (g *c05Gen_) pool() []string {
	n := 2 + g.r.intn(3)
	seen := map[string]bool{}
	var res []string
	for len(res) < n {
		var id string
		if g.r.chance(3, 4) {
			id = pick(g.r, c05Alphabet)
		} else {
			id = pick(g.r, c05IdPool)
		}
		if !seen[id] {
			seen[id] = true
			res = append(res, id)
		}
	}
	return res
}

func (g *c05Gen_) keys(pool []string) []string {
	n := g.r.intn(5)
	if g.r.chance(1, 6) {
		n += 3
	}
	var res []string
	for i := 0; i < n; i++ {
		if g.r.chance(1, 25) {
			res = append(res, "") // the empty key: never an entity id, so it names a missing entity
		} else {
			res = append(res, pick(g.r, pool))
		}
	}
	return res
}

// history: random transactions over two small pools; the pools contain ids that are never
// created, so linking to a missing entity happens often.  weight = sum of SetLinkCount
// arguments + number of increments; a history is inside the vocabulary (H) iff every count
// argument is >= 0 and weight < 2^31.
func (g *c05Gen_) history(outside bool) {
	r := g.r
	pools := [2][]string{g.pool(), g.pool()}
	sideName := []string{"A", "B"}
	var txs []string
	var weight int64
	inVocab := true
	// first transaction: create most of the pool entities
	var first []string
	for s := 0; s < 2; s++ {
		for _, id := range pools[s] {
			if r.chance(4, 5) {
				first = append(first, "c:"+sideName[s]+":"+toWire(id))
			}
		}
	}
	if len(first) > 0 {
		txs = append(txs, strings.Join(first, ";"))
	}
	ntx := 2 + r.intn(6)
	for t := 0; t < ntx; t++ {
		nops := 1 + r.intn(4)
		var ops []string
		for o := 0; o < nops; o++ {
			s := r.intn(2)
			S := sideName[s]
			id := toWire(pick(r, pools[s]))
			other := pools[1-s]
			k := toWire(pick(r, other))
			if r.chance(1, 40) {
				k = "-"
			}
			switch w := r.intn(100); {
			case w < 6:
				ops = append(ops, "c:"+S+":"+id)
			case w < 10:
				ops = append(ops, "cl:"+S+":"+id+":"+c05Wires(g.keys(other)))
			case w < 11:
				ops = append(ops, "c:"+S+":-")
			case w < 17:
				ops = append(ops, "u:"+S+":"+id+":"+c05Wires(g.keys(other))+":"+pick(r, []string{"n", "1", "0"}))
			case w < 27:
				ops = append(ops, "d:"+S+":"+id)
			case w < 35:
				ops = append(ops, "al:"+S+":"+id+":"+c05Wires(g.keys(other)))
			case w < 42:
				ops = append(ops, "rl:"+S+":"+id+":"+c05Wires(g.keys(other)))
			case w < 52:
				ops = append(ops, "sl:"+S+":"+id+":"+c05Wires(g.keys(other)))
			case w < 58:
				ops = append(ops, "a1:"+S+":"+id+":"+k)
			case w < 63:
				ops = append(ops, "r1:"+S+":"+id+":"+k)
			case w < 75:
				ops = append(ops, "inc:"+S+":"+id+":"+k)
				weight++
			case w < 86:
				ops = append(ops, "dec:"+S+":"+id+":"+k)
			case w < 94:
				var c int64
				if outside {
					c = pick(r, c05XCounts)
				} else {
					c = pick(r, c05Counts)
				}
				if c < 0 {
					inVocab = false
				} else {
					weight += c
				}
				ops = append(ops, "set:"+S+":"+id+":"+k+":"+strconv.FormatInt(c, 10))
			case w < 96:
				ops = append(ops, "gl:"+S+":"+id)
			case w < 98:
				ops = append(ops, "il:"+S+":"+id+":"+k)
			default:
				ops = append(ops, "gc:"+S+":"+id+":"+k)
			}
		}
		txs = append(txs, strings.Join(ops, ";"))
	}
	kind := "H"
	if !inVocab || weight >= 2147483648 {
		kind = "X"
	}
	fmt.Fprintf(g.out, "%s %s %s %s\n", kind, c05Wires(pools[0]), c05Wires(pools[1]), strings.Join(txs, " "))
}
