package main

import (
	"encoding/hex"
	"strings"
)

// splitmix64: every random choice of a generator derives from one state.
type rng struct{ s uint64 }

// newRng: the seed goes through the splitmix64 finaliser first, so that consecutive seeds give
// unrelated streams (seed*golden would make seed s+1 the stream of seed s shifted by one draw).
func newRng(seed uint64) *rng {
	z := seed + 0x9E3779B97F4A7C15
	z = (z ^ (z >> 30)) * 0xBF58476D1CE4E5B9
	z = (z ^ (z >> 27)) * 0x94D049BB133111EB
	z = z ^ (z >> 31)
	return &rng{s: z ^ 0x1234567}
}
func (r *rng) next() uint64 {
	r.s += 0x9E3779B97F4A7C15
	z := r.s
	z = (z ^ (z >> 30)) * 0xBF58476D1CE4E5B9
	z = (z ^ (z >> 27)) * 0x94D049BB133111EB
	return z ^ (z >> 31)
}
func (r *rng) intn(n int) int {
	if n <= 0 {
		return 0
	}
	return int(r.next() % uint64(n))
}
func (r *rng) chance(num, den int) bool { return r.intn(den) < num }
func pick[T any](r *rng, xs []T) T      { return xs[r.intn(len(xs))] }

// wire encoding of byte strings: hex, "-" for empty
func toWire(b string) string {
	if len(b) == 0 {
		return "-"
	}
	return hex.EncodeToString([]byte(b))
}
func fromWire(s string) string {
	if s == "-" {
		return ""
	}
	b, err := hex.DecodeString(s)
	if err != nil {
		panic("bad wire string " + s)
	}
	return string(b)
}
func fields(line string) []string { return strings.Split(line, " ") }
