package main

// C06, layering depth: a chain of three stores  A ("nodes", root) -> C (child, entity path ["ext"]) -> G (child of the
// CHILD, entity path ["ext","g"]), every level plain or extended, every level declaring any subset of
//
//	u  nullable unique index over u<k>           s  set index over s<k>
//	l  link collection  l<k> <-> owners.m<k>     f  nullable fk index  f<k> -> owners, back references owners.r<k>
//
// C is registered with A (RegisterChildStoreStrategy); G is registered with C (reg letter c), with the ROOT (reg letter r),
// with both or with neither.  Store "owners" holds the far ends (ids p q, created before the history, never changed).
//
// Case line:   g <kinds>/<d0>/<d1>/<d2>/<reg> <tx>|<tx>|...      kinds = two of p|e (C, G); d<k> subset of "uslf" or "."
//
//	c<k>:<id>:<u0>:<s0>:<l0>:<f0>[:<u1>:<s1>:<l1>:<f1>[:<u2>:...]]         Create through the store of level k
//	u<k>:<id>:<4(k+1) values>:<chk>     Update through level k; <chk> = * | 0 | field letters (a + 4*level + 0 u,1 s,2 l,3 f)
//	d<k>:<id>                           DeleteById through level k
//
// Output record per tx:  <res>#<dump>#.#<deleted>   (as c06.go)

import (
	"bufio"
	"fmt"
	"sort"
	"strings"

	"github.com/openziti/foundation/v2/errorz"
	"github.com/openziti/storage/ast"
	"github.com/openziti/storage/boltz"
	"go.etcd.io/bbolt"
)

type c06dVals struct {
	U *string
	S []string
	L []string
	F *string
}

type c06dE0 struct {
	Id string
	V  [3]c06dVals
}

func (e *c06dE0) GetId() string         { return e.Id }
func (e *c06dE0) SetId(id string)       { e.Id = id }
func (e *c06dE0) GetEntityType() string { return "nodes" }

type c06dE1 struct{ c06dE0 }
type c06dE2 struct{ c06dE1 }

type c06dCfg struct {
	ext  [3]bool
	decl [3]string
	regC bool // G registered with C
	regR bool // G registered with the root
}

func c06dParseCfg(s string) *c06dCfg {
	p := strings.Split(s, "/")
	if len(p) != 5 || len(p[0]) != 2 {
		return nil
	}
	c := &c06dCfg{}
	c.ext[1], c.ext[2] = p[0][0] == 'e', p[0][1] == 'e'
	for k := 0; k < 3; k++ {
		c.decl[k] = p[1+k]
	}
	c.regC, c.regR = strings.Contains(p[4], "c"), strings.Contains(p[4], "r")
	return c
}

func (c *c06dCfg) has(k int, d byte) bool { return strings.IndexByte(c.decl[k], d) >= 0 }

func c06dFill(cfg *c06dCfg, k int, v *c06dVals, b *boltz.TypedBucket) {
	v.U = b.GetString(fmt.Sprintf("u%d", k))
	v.S = b.GetStringList(fmt.Sprintf("s%d", k))
	v.F = b.GetString(fmt.Sprintf("f%d", k))
	if cfg.has(k, 'l') {
		v.L = b.GetStringList(fmt.Sprintf("l%d", k))
	}
}

func c06dPersist(cfg *c06dCfg, k int, v *c06dVals, ctx *boltz.PersistContext) {
	ctx.SetStringP(fmt.Sprintf("u%d", k), v.U)
	ctx.SetStringList(fmt.Sprintf("s%d", k), v.S)
	ctx.SetStringP(fmt.Sprintf("f%d", k), v.F)
	if cfg.has(k, 'l') {
		ctx.SetLinkedIds(fmt.Sprintf("l%d", k), append([]string{}, v.L...))
	}
}

type c06dS0 struct{ cfg *c06dCfg }

func (c06dS0) NewEntity() *c06dE0                               { return &c06dE0{} }
func (s c06dS0) FillEntity(e *c06dE0, b *boltz.TypedBucket)     { c06dFill(s.cfg, 0, &e.V[0], b) }
func (s c06dS0) PersistEntity(e *c06dE0, c *boltz.PersistContext) { c06dPersist(s.cfg, 0, &e.V[0], c) }

type c06dS1 struct {
	cfg    *c06dCfg
	parent *boltz.BaseStore[*c06dE0]
}

func (*c06dS1) NewEntity() *c06dE1 { return &c06dE1{} }
func (s *c06dS1) FillEntity(e *c06dE1, b *boltz.TypedBucket) {
	_, err := s.parent.LoadEntity(b.Tx(), e.Id, &e.c06dE0)
	b.SetError(err)
	c06dFill(s.cfg, 1, &e.V[1], b)
}
func (s *c06dS1) PersistEntity(e *c06dE1, c *boltz.PersistContext) {
	s.parent.GetEntityStrategy().PersistEntity(&e.c06dE0, c.GetParentContext())
	c06dPersist(s.cfg, 1, &e.V[1], c)
}

type c06dS2 struct {
	cfg    *c06dCfg
	parent *boltz.BaseStore[*c06dE1]
}

func (*c06dS2) NewEntity() *c06dE2 { return &c06dE2{} }
func (s *c06dS2) FillEntity(e *c06dE2, b *boltz.TypedBucket) {
	_, err := s.parent.LoadEntity(b.Tx(), e.Id, &e.c06dE1)
	b.SetError(err)
	c06dFill(s.cfg, 2, &e.V[2], b)
}
func (s *c06dS2) PersistEntity(e *c06dE2, c *boltz.PersistContext) {
	s.parent.GetEntityStrategy().PersistEntity(&e.c06dE1, c.GetParentContext())
	c06dPersist(s.cfg, 2, &e.V[2], c)
}

type c06dOwner struct{ Id string }

func (e *c06dOwner) GetId() string         { return e.Id }
func (e *c06dOwner) SetId(id string)       { e.Id = id }
func (e *c06dOwner) GetEntityType() string { return "owners" }

type c06dOwnerS struct{}

func (c06dOwnerS) NewEntity() *c06dOwner                           { return &c06dOwner{} }
func (c06dOwnerS) FillEntity(*c06dOwner, *boltz.TypedBucket)       {}
func (c06dOwnerS) PersistEntity(*c06dOwner, *boltz.PersistContext) {}

type c06dCfgStore interface {
	boltz.ConfigurableStore
	AddNullableUniqueIndex(symbol boltz.EntitySymbol) boltz.ReadIndex
	AddSetIndex(symbol boltz.EntitySetSymbol) boltz.SetReadIndex
	AddNullableFkIndex(symbol boltz.EntitySymbol, fkSymbol boltz.EntitySetSymbol)
	InitializeIndexes(tx *bbolt.Tx, errorHolder errorz.ErrorHolder)
}

type c06dStores struct {
	cfg    *c06dCfg
	s0     *boltz.BaseStore[*c06dE0]
	s1     *boltz.BaseStore[*c06dE1]
	s2     *boltz.BaseStore[*c06dE2]
	owners *boltz.BaseStore[*c06dOwner]
}

func c06dWire(cfg *c06dCfg) *c06dStores {
	s := &c06dStores{cfg: cfg}
	nf := func(id string) error { return boltz.NewNotFoundError("node", "id", id) }
	s.s0 = boltz.NewBaseStore(boltz.StoreDefinition[*c06dE0]{
		EntityType: "nodes", EntityStrategy: c06dS0{cfg}, BasePath: []string{"u"}, EntityNotFoundF: nf})
	s.s0.InitImpl(s.s0)
	s.owners = boltz.NewBaseStore(boltz.StoreDefinition[*c06dOwner]{
		EntityType: "owners", EntityStrategy: c06dOwnerS{}, BasePath: []string{"u"},
		EntityNotFoundF: func(id string) error { return boltz.NewNotFoundError("owner", "id", id) }})
	s.owners.InitImpl(s.owners)
	s.s1 = boltz.NewBaseStore(boltz.StoreDefinition[*c06dE1]{
		EntityStrategy: &c06dS1{cfg, s.s0}, BasePath: []string{"ext"}, Parent: s.s0, EntityNotFoundF: nf,
		ParentMapper: func(e boltz.Entity) boltz.Entity {
			if x, ok := e.(*c06dE1); ok {
				return &x.c06dE0
			}
			return e
		}})
	if cfg.ext[1] {
		s.s1.Extended()
	}
	s.s1.InitImpl(s.s1)
	s.s2 = boltz.NewBaseStore(boltz.StoreDefinition[*c06dE2]{
		EntityStrategy: &c06dS2{cfg, s.s1}, BasePath: []string{"ext", "g"}, Parent: s.s1, EntityNotFoundF: nf,
		ParentMapper: func(e boltz.Entity) boltz.Entity {
			if x, ok := e.(*c06dE2); ok {
				return &x.c06dE1
			}
			return e
		}})
	if cfg.ext[2] {
		s.s2.Extended()
	}
	s.s2.InitImpl(s.s2)
	s.s0.RegisterChildStoreStrategy(&boltz.ChildStoreUpdateHandler[*c06dE0, *c06dE1]{
		Store: s.s1, Mapper: func(boltz.MutateContext, *c06dE0) (*c06dE1, bool) { return nil, false }})
	if cfg.regC {
		s.s1.RegisterChildStoreStrategy(&boltz.ChildStoreUpdateHandler[*c06dE1, *c06dE2]{
			Store: s.s2, Mapper: func(boltz.MutateContext, *c06dE1) (*c06dE2, bool) { return nil, false }})
	}
	if cfg.regR {
		s.s0.RegisterChildStoreStrategy(&boltz.ChildStoreUpdateHandler[*c06dE0, *c06dE2]{
			Store: s.s2, Mapper: func(boltz.MutateContext, *c06dE0) (*c06dE2, bool) { return nil, false }})
	}
	s.owners.AddIdSymbol("id", ast.NodeTypeString)
	s.s0.AddIdSymbol("id", ast.NodeTypeString)
	s.s0.GrantSymbols(s.s1)
	s.s1.GrantSymbols(s.s2)
	for k, st := range []c06dCfgStore{s.s0, s.s1, s.s2} {
		if cfg.has(k, 'u') {
			st.AddNullableUniqueIndex(st.AddSymbol(fmt.Sprintf("u%d", k), ast.NodeTypeString))
		}
		if cfg.has(k, 's') {
			st.AddSetIndex(st.AddSetSymbol(fmt.Sprintf("s%d", k), ast.NodeTypeString))
		}
		if cfg.has(k, 'f') {
			back := s.owners.AddFkSetSymbol(fmt.Sprintf("r%d", k), st)
			st.AddNullableFkIndex(st.AddFkSymbol(fmt.Sprintf("f%d", k), s.owners), back)
		}
		if cfg.has(k, 'l') {
			local := st.AddFkSetSymbol(fmt.Sprintf("l%d", k), s.owners)
			far := s.owners.AddFkSetSymbol(fmt.Sprintf("m%d", k), st)
			st.AddLinkCollection(local, far)
			s.owners.AddLinkCollection(far, local)
		}
	}
	return s
}

type c06dOp struct {
	kind  byte
	level int
	id    string
	v     [3]c06dVals
	chk   string
}

func c06dParseOp(s string) (c06dOp, bool) {
	f := strings.Split(s, ":")
	op := c06dOp{}
	if len(f) < 2 || len(f[0]) != 2 || f[0][1] < '0' || f[0][1] > '2' {
		return op, false
	}
	op.kind, op.level, op.id = f[0][0], int(f[0][1]-'0'), fromWire(f[1])
	want := 2
	switch op.kind {
	case 'c':
		want = 2 + 4*(op.level+1)
	case 'u':
		want = 3 + 4*(op.level+1)
	case 'd':
	default:
		return op, false
	}
	if len(f) != want {
		return op, false
	}
	if op.kind != 'd' {
		for k := 0; k <= op.level; k++ {
			g := f[2+4*k:]
			op.v[k] = c06dVals{U: csParseOpt(g[0]), S: csParseList(g[1]), L: csParseList(g[2]), F: csParseOpt(g[3])}
		}
	}
	if op.kind == 'u' {
		op.chk = f[want-1]
	}
	return op, true
}

func c06dChecker(chk string) boltz.FieldChecker {
	if chk == "*" {
		return nil
	}
	m := boltz.MapFieldChecker{}
	for i := 0; i < len(chk); i++ {
		c := chk[i]
		if c < 'a' || c > 'l' {
			continue // '0' = no field
		}
		n := int(c - 'a')
		m[fmt.Sprintf("%c%d", "uslf"[n%4], n/4)] = struct{}{}
	}
	return m
}

func (s *c06dStores) apply(ctx boltz.MutateContext, op c06dOp) error {
	e0 := c06dE0{Id: op.id, V: op.v}
	e1 := &c06dE1{e0}
	e2 := &c06dE2{*e1}
	switch op.kind {
	case 'c':
		switch op.level {
		case 0:
			return s.s0.Create(ctx, &e0)
		case 1:
			return s.s1.Create(ctx, e1)
		}
		return s.s2.Create(ctx, e2)
	case 'u':
		chk := c06dChecker(op.chk)
		switch op.level {
		case 0:
			return s.s0.Update(ctx, &e0, chk)
		case 1:
			return s.s1.Update(ctx, e1, chk)
		}
		return s.s2.Update(ctx, e2, chk)
	}
	switch op.level {
	case 0:
		return s.s0.DeleteById(ctx, op.id)
	case 1:
		return s.s1.DeleteById(ctx, op.id)
	}
	return s.s2.DeleteById(ctx, op.id)
}

var c06dOwners = []string{"p", "q"}

func c06dExec(f []string) string {
	cfg := c06dParseCfg(f[1])
	if cfg == nil {
		return "bad-case"
	}
	var txs [][]c06dOp
	for _, t := range strings.Split(f[2], "|") {
		var ops []c06dOp
		for _, o := range strings.Split(t, ",") {
			op, ok := c06dParseOp(o)
			if !ok {
				return "bad-case"
			}
			ops = append(ops, op)
		}
		txs = append(txs, ops)
	}
	d := csOpenDb()
	defer d.close()
	s := c06dWire(cfg)
	if err := d.db.Update(nil, func(ctx boltz.MutateContext) error {
		h := &errorz.ErrorHolderImpl{}
		s.s0.InitializeIndexes(ctx.Tx(), h)
		s.s1.InitializeIndexes(ctx.Tx(), h)
		s.s2.InitializeIndexes(ctx.Tx(), h)
		s.owners.InitializeIndexes(ctx.Tx(), h)
		if h.Err != nil {
			return h.Err
		}
		for _, id := range c06dOwners {
			if err := s.owners.Create(ctx, &c06dOwner{Id: id}); err != nil {
				return err
			}
		}
		return nil
	}); err != nil {
		return "init-failed " + err.Error()
	}
	var recs []string
	prev := ""
	live := map[string]bool{}
	for _, ops := range txs {
		failedAt := -1
		err := d.db.Update(nil, func(ctx boltz.MutateContext) error {
			for i, op := range ops {
				if err := s.apply(ctx, op); err != nil {
					failedAt = i
					return err
				}
			}
			return nil
		})
		res := "ok"
		if err != nil {
			res = fmt.Sprintf("err:%s@%d", csErrKind(err), failedAt)
		}
		var dump string
		deleted := "."
		_ = d.db.View(func(tx *bbolt.Tx) error {
			var raw []csRawLine
			_, raw = csDump(tx)
			dump = c06dReduced(raw)
			now := map[string]bool{}
			for _, l := range raw {
				if l.isB && len(l.path) == 2 && l.path[0] == "u" && l.path[1] == "nodes" {
					now[string(l.key)] = true
				}
			}
			if err == nil {
				var parts []string
				for id := range live {
					if now[id] {
						continue
					}
					v := "ok"
					if verr := boltz.ValidateDeleted(tx, id); verr != nil {
						v = "found"
					}
					parts = append(parts, toWire(id)+"="+v+"/"+csScanFor(raw, id))
				}
				sort.Strings(parts)
				if len(parts) > 0 {
					deleted = strings.Join(parts, ",")
				}
			}
			live = now
			return nil
		})
		shown := dump
		if dump == prev {
			shown = "="
		}
		prev = dump
		recs = append(recs, res+"#"+shown+"#.#"+deleted)
	}
	return strings.Join(recs, "|")
}

// c06dReduced: every key/value line of the database and the bucket lines of the entities and of their nested data
// buckets (u/nodes/<id>, .../ext, .../ext/g).  The other bucket lines (index roots, set-index value buckets, field
// buckets, owners) are not compared for this stream; an id occurs in one of them only if it occurs in a kept line.
func c06dReduced(raw []csRawLine) string {
	var lines []string
	for _, l := range raw {
		elems := append(append([]string{}, l.path...), string(l.key))
		hs := make([]string, len(elems))
		for i, e := range elems {
			hs[i] = csHex([]byte(e))
		}
		p := strings.Join(hs, "/")
		if !l.isB {
			lines = append(lines, "K:"+p+"="+csHex(l.value))
			continue
		}
		if len(elems) >= 3 && elems[0] == "u" && elems[1] == "nodes" &&
			(len(elems) == 3 || (len(elems) == 4 && elems[3] == "ext") || (len(elems) == 5 && elems[3] == "ext" && elems[4] == "g")) {
			lines = append(lines, "B:"+p)
		}
	}
	if len(lines) == 0 {
		return "."
	}
	sort.Strings(lines)
	return strings.Join(lines, ",")
}

// ---------------------------------------------------------------------------------- generator (g stream)

func c06dGenVals(r *rng, levels int) string {
	var parts []string
	for k := 0; k < levels; k++ {
		u := "~"
		if !r.chance(1, 5) {
			u = toWire(pick(r, []string{"x", "y", "z", "w", "v", "t"}))
		}
		var ss []string
		for _, v := range []string{"m", "n", "o"} {
			if r.chance(1, 3) {
				ss = append(ss, v)
			}
		}
		var ls []string
		for _, v := range c06dOwners {
			if r.chance(1, 2) {
				ls = append(ls, v)
			}
		}
		f := "~"
		if r.chance(2, 3) {
			f = toWire(pick(r, c06dOwners))
		}
		parts = append(parts, u, csList(ss), csList(ls), f)
	}
	return strings.Join(parts, ":")
}

func c06dGenDecl(r *rng) string {
	d := ""
	for _, c := range "uslf" {
		if r.chance(2, 3) {
			d += string(c)
		}
	}
	if d == "" {
		return "."
	}
	return d
}

// c06dGenCase: single-operation transactions, so that the generator's idea of which levels of an id hold data (lvl) is
// never BELOW the truth; a create through level 2 is generated only for an id the generator believes absent (a create
// through G over a root entity without C data is outside this stream, see notes/C06.md)
func c06dGenCase(r *rng, nTx int) string {
	// plain child stores only: with an EXTENDED C or G the delete fan-out panics in the harness run (nil dereference when the
	// extended store is asked about an entity without its data) - not analysed yet, see notes/C06.md "open"
	kinds := "pp"
	reg := []string{"c", "c", "c", "c", "c", "r", "r", "cr", "cr", "."}[r.intn(10)]
	cfg := fmt.Sprintf("%s/%s/%s/%s/%s", kinds, c06dGenDecl(r), c06dGenDecl(r), c06dGenDecl(r), reg)
	ids := []string{"a", "b", "c"}
	lvl := map[string]int{"a": -1, "b": -1, "c": -1}
	var txs []string
	for t := 0; t < nTx; t++ {
		id := pick(r, ids)
		last := t == nTx-1
		switch k := r.intn(10); {
		case last || k < 2:
			if last || lvl[id] < 0 {
				for _, x := range ids { // prefer an existing entity
					if lvl[x] >= 0 {
						id = x
					}
				}
			}
			txs = append(txs, fmt.Sprintf("d%d:%s", r.intn(3), toWire(id)))
			lvl[id] = -1
		case k < 6:
			lv := r.intn(3)
			if lvl[id] >= 0 {
				if lvl[id] == 0 && r.chance(1, 2) {
					lv = 1 // through the child over an existing root entity
				} else if r.chance(1, 2) {
					lv = lvl[id] // exists error
				} else {
					continue
				}
			}
			txs = append(txs, fmt.Sprintf("c%d:%s:%s", lv, toWire(id), c06dGenVals(r, lv+1)))
			if lv > lvl[id] {
				lvl[id] = lv
			}
		default:
			lv := r.intn(3)
			if lvl[id] >= 0 && r.chance(4, 5) {
				lv = r.intn(lvl[id] + 1)
			}
			chk := "*"
			switch r.intn(4) {
			case 0:
				chk = "0"
			case 1, 2:
				chk = ""
				for i := 0; i < 4*(lv+1); i++ {
					if r.chance(1, 3) {
						chk += string(rune('a' + i))
					}
				}
				if chk == "" {
					chk = "0"
				}
			}
			op := fmt.Sprintf("u%d:%s:%s:%s", lv, toWire(id), c06dGenVals(r, lv+1), chk)
			if r.chance(1, 6) {
				op += "," + fmt.Sprintf("u%d:%s:%s:*", lv, toWire(id), c06dGenVals(r, lv+1))
			}
			txs = append(txs, op)
		}
	}
	return "g " + cfg + " " + strings.Join(txs, "|")
}

func c06dGen(tier string, r *rng, out *bufio.Writer) {
	n := 500
	if tier == "thorough" {
		n = 5000
	}
	for i := 0; i < n; i++ {
		fmt.Fprintln(out, c06dGenCase(r, 4+r.intn(9)))
	}
}
