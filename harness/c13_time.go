package main

import (
	"bufio"
	"encoding/hex"
	"fmt"
	"strconv"
	"strings"
	"time"
)

// Representations of a time.Time (the model: GoTime in lean/StorageModel/Codec/TypedValue.lean).
//
// A case names the instant by the bytes of its UTC MarshalBinary and, after a '/', how the value handed to
// the code under test is represented:
//
//	u        in UTC
//	f<off>   in time.FixedZone("z", off)                                  (off in seconds east of UTC)
//	l<off>   time.Local is set to such a zone, the value is t.In(time.Local)
//	L<off>   in the process's own Local location, whose offset at the instant is off (checked)
//	n<off>   time.Local is set to such a zone and the value is derived from time.Now(), so that it carries a
//	         monotonic clock reading (only for instants whose wall seconds fit: 1885 … 2157)
//
// Without representation the zone is one of six picked by the payload (the older cases).

const c13UnixToInternal int64 = 62135596800

var c13OrigLocal = time.Local

var c13Zones = []*time.Location{time.UTC, time.FixedZone("ist", 5*3600+1800), time.FixedZone("pst", -8*3600),
	time.FixedZone("kiri", 14*3600), time.FixedZone("odd", -(3*3600 + 27*60 + 13)), time.FixedZone("", 0)}

// c13ZoneOffsets: whole minutes, not whole minutes (version 2 of the binary form), the minute west of UTC
// that the binary form reserves for UTC (-60 … -119 s), around it, ±12 h / +14 h / ±18 h 1 m, the last
// offsets an int16 of minutes holds and the first it does not, int32 extremes.
var c13ZoneOffsets = []int{0, 1, -1, 59, -59, 60, -60, -61, -89, -90, -119, -120, -121, 90, 119, 120, 3600, -3600, 19800, 20700,
	45900, 50400, -43200, -34200, 64800, 64860, -64800, -64860, 86399, -86399, -12433, 1172, 1966079, 1966080, -1966139, -1966140,
	1 << 31, -(1 << 31)}

func c13HasMono(t time.Time) bool { return strings.Contains(t.String(), " m=") }

// c13Represent moves the (UTC) value t into the representation z.
func c13Represent(t time.Time, z string) time.Time {
	if z == "u" {
		return t.UTC()
	}
	off, err := strconv.Atoi(z[1:])
	if err != nil {
		panic("bad time representation in case")
	}
	switch z[0] {
	case 'f':
		return t.In(time.FixedZone("z", off))
	case 'l':
		time.Local = time.FixedZone("loc", off)
		return t.In(time.Local)
	case 'L':
		time.Local = c13OrigLocal
		r := t.In(time.Local)
		if _, o := r.Zone(); o != off {
			panic("the process's Local has another offset than the case says")
		}
		return r
	case 'n':
		time.Local = time.FixedZone("loc", off)
		now := time.Now()
		r := now.Add(t.Sub(now))
		if !r.Equal(t) || !c13HasMono(r) || r.Location() != time.Local {
			panic("cannot build this instant with a monotonic reading")
		}
		return r
	}
	panic("bad time representation in case")
}

// c13Time rebuilds the time.Time of a T value: the instant from the UTC-marshalled payload, the
// representation from the suffix (or, without one, a zone chosen by the payload), so that writers see
// non-UTC times.
func c13Time(v *c13Val) time.Time {
	var t time.Time
	if err := t.UnmarshalBinary([]byte(v.s)); err != nil {
		panic("bad time payload in case")
	}
	if v.z == "" {
		h := 0
		for i := 0; i < len(v.s); i++ {
			h += int(v.s[i])
		}
		return t.In(c13Zones[h%len(c13Zones)])
	}
	return c13Represent(t, v.z)
}

func c13LocText(t time.Time) string {
	if t.Location() == time.UTC {
		return "u"
	}
	_, off := t.Zone()
	return strconv.Itoa(off)
}

func c13TimeFields(t time.Time) string {
	return fmt.Sprintf("%d/%d/%s", t.Unix()+c13UnixToInternal, t.Nanosecond(), c13LocText(t))
}

func c13UnmarshalText(b []byte) (string, *time.Time) {
	var u time.Time
	if err := u.UnmarshalBinary(b); err != nil {
		m := err.Error()
		switch {
		case strings.Contains(m, "no data"):
			return "ub=err:noData", nil
		case strings.Contains(m, "unsupported version"):
			return "ub=err:version", nil
		case strings.Contains(m, "invalid length"):
			return "ub=err:length", nil
		}
		return "ub=err:other", nil
	}
	return "ub=" + c13TimeFields(u), &u
}

// tm <sec> <nsec> <representation>: MarshalBinary of the value as given (no UTC() first), then
// UnmarshalBinary of the bytes; `same` = the value read back Equal()s the one marshalled.
func c13ExecTM(f []string) string {
	sec, err1 := strconv.ParseInt(f[0], 10, 64)
	nsec, err2 := strconv.ParseInt(f[1], 10, 64)
	if err1 != nil || err2 != nil {
		return "bad-case"
	}
	t := c13Represent(time.Unix(sec-c13UnixToInternal, nsec).UTC(), f[2])
	b, err := t.MarshalBinary()
	if err != nil {
		if strings.Contains(err.Error(), "unexpected zone offset") {
			return "mb=err:zoneOffset"
		}
		return "mb=err:other"
	}
	ub, u := c13UnmarshalText(b)
	same := "-"
	if u != nil {
		same = c13Changed(u.Equal(t))
	}
	return "mb=" + hex.EncodeToString(b) + " " + ub + " same=" + same
}

// tu <w>: UnmarshalBinary of arbitrary bytes, and what value.UTC().MarshalBinary() makes of the result.
func c13ExecTU(f []string) string {
	ub, u := c13UnmarshalText([]byte(fromWire(f[0])))
	if u == nil {
		return ub
	}
	return ub + " rm=" + c13TimeText(*u)
}

// ---------------------------------------------------------------------------- generator

var c13ZoneRng *rng

// c13Instants: zero Time, around the epoch, sub-second parts, years 1 / 9999 / 10000 / -5, far past / future
var c13Instants = []time.Time{
	{},
	time.Unix(0, 0),
	time.Unix(-1, 999999999),
	time.Unix(1700000000, 123456789),
	time.Date(2021, 3, 4, 5, 6, 7, 891011, time.UTC),
	time.Date(1, 1, 1, 0, 0, 59, 1, time.UTC),
	time.Date(9999, 12, 31, 23, 59, 59, 999999999, time.UTC),
	time.Date(10000, 1, 1, 0, 0, 0, 0, time.UTC),
	time.Date(-5, 3, 4, 5, 6, 7, 8, time.UTC),
	time.Date(1885, 1, 1, 0, 2, 0, 0, time.UTC),
	time.Date(2157, 1, 1, 0, 0, 0, 5, time.UTC),
	time.Unix(-(1 << 35), 7),
	time.Unix(1<<40, 1000),
}

// c13MonoRange: the instants a value with monotonic reading can hold (33 bits of wall seconds from 1885,
// with a margin for the offsets' sake)
func c13MonoRange(t time.Time) bool {
	return t.Year() >= 1886 && t.Year() <= 2150
}

// c13Reps lists the representations of the instant t for the offset off.
func c13Reps(t time.Time, off int) []string {
	rs := []string{"f" + strconv.Itoa(off), "l" + strconv.Itoa(off)}
	if c13MonoRange(t) {
		rs = append(rs, "n"+strconv.Itoa(off))
	}
	return rs
}

func c13OwnLocalRep(t time.Time) string {
	_, off := t.In(c13OrigLocal).Zone()
	return "L" + strconv.Itoa(off)
}

// c13RandRep picks a representation for a time inside the random generators ("" now and then: the older
// payload-chosen zones); it draws from its own stream so that the other generators' choices stay as they were.
func c13RandRep(payload string) string {
	r := c13ZoneRng
	if r == nil || r.chance(1, 4) {
		return ""
	}
	var t time.Time
	if err := t.UnmarshalBinary([]byte(payload)); err != nil {
		return ""
	}
	switch r.intn(8) {
	case 0:
		return "u"
	case 1:
		return c13OwnLocalRep(t)
	}
	off := pick(r, c13ZoneOffsets)
	if r.chance(1, 5) {
		off = r.intn(400000) - 200000
	}
	return pick(r, c13Reps(t, off))
}

func c13TVal(t time.Time, rep string) *c13Val {
	return &c13Val{kind: 'T', s: c13TimePayload(t), z: rep}
}

func c13GenTimes(tier string, r *rng, out *bufio.Writer) {
	one := func(pre bool, code string, v *c13Val) string {
		return c13OpText(pre, "t", c13Field{code, v})
	}
	forms := func(v *c13Val) {
		c13EmitE(out, "c=-", "m=-", []string{one(false, "time", v)})
		c13EmitE(out, "c=-", "m=-", []string{one(false, "timep", v)})
		c13EmitE(out, "c=-", "m=-", []string{one(false, "map", &c13Val{kind: 'M', keys: []string{"at", "l"},
			vals: []*c13Val{v, {kind: 'L', vals: []*c13Val{v}}}})})
		c13EmitE(out, "c=-", "m=-", []string{one(false, "list", &c13Val{kind: 'L', vals: []*c13Val{v, {kind: 'M', keys: []string{"k"}, vals: []*c13Val{v}}}})})
	}
	// (1) every offset in every representation for four instants; every instant in eight offsets
	for i, t := range c13Instants {
		for j, off := range c13ZoneOffsets {
			if !(i == 0 || i == 3 || i == 4 || i == 8) && !(j < 2 || off == -90 || off == -60 || off == 64860 || off == -12433 || off == 1966080 || off == -43200) {
				continue
			}
			for _, rep := range c13Reps(t, off) {
				forms(c13TVal(t, rep))
			}
		}
		forms(c13TVal(t, "u"))
		forms(c13TVal(t, c13OwnLocalRep(t)))
	}
	// (2) one instant in two representations: written one over the other (each prefix is read), side by side in
	// one map / list, through an entity's fields under a checker
	n2 := 150
	nh := 120
	nm := 1500
	if tier == "thorough" {
		n2, nh, nm = 2000, 1500, 20000
	}
	randRep := func(t time.Time) string {
		if r.chance(1, 8) {
			return "u"
		}
		return pick(r, c13Reps(t, pick(r, c13ZoneOffsets)))
	}
	for i := 0; i < n2; i++ {
		t := pick(r, c13Instants)
		if r.chance(1, 2) {
			t = time.Unix(int64(r.next()>>uint(22+r.intn(30)))-(1<<33), int64(r.intn(1000000000)))
		}
		a, b := c13TVal(t, randRep(t)), c13TVal(t, randRep(t))
		if i%3 == 2 {
			// another instant with the same wall clock reading: t read in UTC, t-off read in the zone off
			off := pick(r, c13ZoneOffsets[:33])
			t2 := t.Add(-time.Duration(off) * time.Second)
			a, b = c13TVal(t, "u"), c13TVal(t2, pick(r, c13Reps(t2, off)))
		}
		codeA, codeB := pick(r, []string{"time", "timep"}), pick(r, []string{"time", "timep"})
		c13EmitE(out, "c=-", "m=-", []string{one(true, codeA, a)})
		c13EmitE(out, "c=-", "m=-", []string{one(true, codeA, a), one(false, codeB, b)})
		c13EmitE(out, "c=.74", "m=-", []string{one(true, codeA, a), one(false, codeB, b)})
		c13EmitE(out, "c=.", "m=-", []string{one(true, codeA, a), one(false, codeB, b)})
		c13EmitE(out, "c=-", "m=-", []string{one(false, "map", &c13Val{kind: 'M', keys: []string{"a", "b", "n"},
			vals: []*c13Val{a, b, {kind: 'L', vals: []*c13Val{b, a, {kind: 'N'}}}}})})
		c13EmitE(out, "c=-", "m=-", []string{one(true, "list", &c13Val{kind: 'L', vals: []*c13Val{a, b}}),
			one(false, "list", &c13Val{kind: 'L', vals: []*c13Val{b}})})
	}
	// (3) entity writes through derived contexts: a time field of the child part, one of the parent part
	for i := 0; i < nh; i++ {
		t := pick(r, c13Instants)
		a, b := c13TVal(t, randRep(t)), c13TVal(t, randRep(t))
		chk := pick(r, []string{"c=-", "c=.6174", "c=.6174,7570", "c=."})
		x := pick(r, []string{"x=657874", "X=657874", "x=00"})
		fmt.Fprintf(out, "h %s %s @p. timep:6174:%s @p^ time:7570:%s @w. time:6174:%s @w^ timep:7570:%s\n", x, chk, b, a, a, b)
		fmt.Fprintf(out, "h %s %s @w. map:6d:M(6174=%s,6c=L(%s)) @w^ list:6c:L(%s,%s)\n", x, chk, a, b, b, a)
	}
	// (4) time.Time.MarshalBinary / UnmarshalBinary themselves against their transcription
	for _, t := range c13Instants {
		sec := t.Unix() + c13UnixToInternal
		for _, off := range c13ZoneOffsets {
			for _, rep := range c13Reps(t, off) {
				fmt.Fprintf(out, "tm %d %d %s\n", sec, t.Nanosecond(), rep)
			}
		}
		fmt.Fprintf(out, "tm %d %d u\n", sec, t.Nanosecond())
		fmt.Fprintf(out, "tm %d %d %s\n", sec, t.Nanosecond(), c13OwnLocalRep(t))
	}
	for i := 0; i < nm; i++ {
		sec := int64(r.next())
		if r.chance(1, 2) {
			sec = int64(r.next()>>uint(20+r.intn(30))) - (1 << 33) + c13UnixToInternal
		}
		nsec := r.intn(1000000000)
		off := pick(r, c13ZoneOffsets)
		switch r.intn(4) {
		case 0:
			off = r.intn(400000) - 200000
		case 1:
			off = r.intn(4200000) - 2100000
		}
		fmt.Fprintf(out, "tm %d %d f%d\n", sec, nsec, off)
		// the bytes MarshalBinary could have written, and damaged ones
		b := make([]byte, 15)
		b[0] = 1
		for k := 1; k < 15; k++ {
			b[k] = byte(r.next())
		}
		if r.chance(2, 3) {
			ns := uint32(r.intn(1000000000))
			switch r.intn(8) {
			case 0:
				ns |= 1 << 30
			case 1:
				ns |= 1 << 31
			case 2:
				ns = uint32(r.next())
			}
			b[9], b[10], b[11], b[12] = byte(ns>>24), byte(ns>>16), byte(ns>>8), byte(ns)
		}
		if r.chance(1, 3) {
			b[13], b[14] = 0xff, 0xff
		} else if r.chance(1, 2) {
			m := int16(r.intn(3000) - 1500)
			b[13], b[14] = byte(uint16(m)>>8), byte(m)
		}
		switch r.intn(10) {
		case 0:
			b[0] = 2
			b = append(b, byte(r.next()))
		case 1:
			b[0] = 2
			b = append(b, byte(r.intn(60)))
		case 2:
			b[0] = 2 // version 2 without its seconds byte
		case 3:
			b = append(b, 0) // version 1 with one byte too many
		case 4:
			b[0] = byte(r.intn(5))
		case 5:
			b = b[:r.intn(15)]
		}
		fmt.Fprintf(out, "tu %s\n", toWire(string(b)))
	}
}
