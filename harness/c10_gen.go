package main

import (
	"bufio"
	"fmt"
	"strings"
)

// Generators of C10.  Every random choice derives from one splitmix64 state (VERIF_SEED).
//
// streams
//   S  grammar-derived sentences, operands chosen without regard to types (type-undirected)
//   M  1-2 token-level mutations of such sentences (delete / duplicate / swap / replace by any
//      token or by a character no token starts with)
//   X  bounded-exhaustive token sequences over c10Alphabet (joined by one blank, and short
//      ones joined by nothing)
//   R  random code points
//   Q  sentences over the schema's symbols, evaluated against datasets (c10_query.go)
//   T  tree-cursor scripts (c10_tree.go)

type c10Gen struct {
	r    *rng
	out  *bufio.Writer
	tier string
	seen map[string]bool
	nums []string
	strs []string
	dts  []string
	// when set: identifiers used in plain / set-function position with probability 7/8
	plainIdents []string
	setIdents   []string
}

func newC10Gen(tier string, seed uint64, out *bufio.Writer) *c10Gen {
	return &c10Gen{r: newRng(seed), out: out, tier: tier, seen: map[string]bool{}, nums: c10Numbers, strs: c10Strings, dts: c10Datetimes}
}

func (g *c10Gen) emitL(s string) {
	s = string([]rune(s)) // what ANTLR's InputStream sees
	k := "L " + s
	if g.seen[k] {
		return
	}
	g.seen[k] = true
	fmt.Fprintf(g.out, "L %s\n", toWire(s))
}

// ---- pools -------------------------------------------------------------------------------

var c10Idents = []string{"s", "n", "f", "b", "d", "a", "ss", "ns", "ds", "kids", "tags.x", "'s'", "'kids'", "zz", "q.r-s",
	"andy", "nota", "inx", "t", "T", "e", "s_t", "kids.s", "isEmptyx"}
var c10Strings = []string{`"x"`, `""`, `"a b"`, `"é"`, `"\\n"`, `"\""`, `"and"`, `"@#$%"`, `"X"`, `"1"`, `"true"`, `"xy"`}
var c10Numbers = []string{"0", "1", "-1", "5", "7", "2", "1.5", "-0.25", "1e3", "1E+2", "2.5e-1", "0.0", "-0",
	"9223372036854775807", "9223372036854775808", "-9223372036854775808", "-9223372036854775809",
	"1e308", "1e309", "1.7976931348623157e308", "1.7976931348623158e308", "1.7976931348623159e308", "-1e400", "1e-400", "123456789012345678901234567890"}
var c10BadNumbers = []string{"007", "1.", ".5", "1e", "-", "1e+", "--1", "0x10", "1_0", "+1"}
var c10Datetimes = []string{"datetime(2020-01-01T00:00:00Z)", "datetime( 2021-02-28t23:59:59.123+05:30 )",
	"datetime(2020-02-29T12:00:00-23:59)", "datetime(2032-12-31T23:59:59.999999999z)",
	"datetime(2020-02-30T00:00:00Z)", "datetime(2020-01-01T00:00:60Z)", "datetime(20200-01-01T00:00:00Z)",
	"datetime(2019-02-29T00:00:00Z)", "datetime(202-01-01T00:00:00Z)", "datetime(2020-06-31T00:00:00Z)",
	"datetime(\t2020-01-01T00:00:00Z\n)", "datetime(0000-01-01T00:00:00Z)"}
var c10BadDatetimes = []string{"datetime(2020-13-01T00:00:00Z)", "datetime(2020-01-01)", "datetime()", "DATETIME(2020-01-01T00:00:00Z)",
	"datetime(2020-01-01T24:00:00Z)", "datetime (2020-01-01T00:00:00Z)", "2020-01-01T00:00:00Z", "datetime(2020-01-01T00:00:00)"}
var c10Bools = []string{"true", "false", "TRUE", "False"}
var c10Unrecognised = []string{"@", "#", "$", "%", "^", "&", "*", ";", ":", "~", "`", "{", "}", "|", "?", "\\", "/", "+", "_", ".", "!", "'", "\"", "\x00", "\x7f", "é", "世", " "}

func (g *c10Gen) kw(s string) string {
	switch g.r.intn(8) {
	case 0:
		return strings.ToUpper(s)
	case 1:
		b := []byte(s)
		for i := range b {
			if g.r.chance(1, 2) && b[i] >= 'a' && b[i] <= 'z' {
				b[i] -= 32
			}
		}
		return string(b)
	}
	return s
}

func (g *c10Gen) ws1() string {
	switch g.r.intn(10) {
	case 0:
		return "  "
	case 1:
		return "\t"
	case 2:
		return "\n"
	case 3:
		return " \r\n "
	}
	return " "
}
func (g *c10Gen) ws0() string {
	if g.r.chance(1, 2) {
		return ""
	}
	return g.ws1()
}

// a sentence is built as a list of pieces so that the mutator can work on token level
type c10Pieces []string

func (p *c10Pieces) add(s ...string) { *p = append(*p, s...) }

func (g *c10Gen) ident(idents []string) string {
	if g.plainIdents != nil && g.r.chance(7, 8) {
		return pick(g.r, g.plainIdents)
	}
	return pick(g.r, idents)
}
func (g *c10Gen) setIdent(idents []string) string {
	if g.setIdents != nil && g.r.chance(7, 8) {
		return pick(g.r, g.setIdents)
	}
	return pick(g.r, idents)
}

func (g *c10Gen) number() string   { return pick(g.r, g.nums) }
func (g *c10Gen) str() string      { return pick(g.r, g.strs) }
func (g *c10Gen) datetime() string { return pick(g.r, g.dts) }

func (g *c10Gen) notPrefix(p *c10Pieces, op string, oneWs bool) {
	if g.r.chance(1, 3) {
		// `not in` needs exactly one white space character inside the token, the others WS+
		if oneWs {
			p.add(g.kw("not") + pick(g.r, []string{" ", " ", "\t", "\n"}) + g.kw(op))
		} else {
			p.add(g.kw("not") + g.ws1() + g.kw(op))
		}
	} else {
		p.add(g.kw(op))
	}
}

func (g *c10Gen) setExpr(p *c10Pieces, idents []string, depth int) {
	if depth > 0 && g.r.chance(1, 3) {
		p.add(g.kw("from"), g.ws1(), g.setIdent(idents), g.ws1(), g.kw("where"), g.ws1())
		g.query(p, idents, depth-1)
		return
	}
	p.add(g.setIdent(idents))
}

func (g *c10Gen) lhs(p *c10Pieces, idents []string, depth int) {
	switch g.r.intn(8) {
	case 0:
		p.add(pick(g.r, []string{"anyOf", "anyof", "ANYOF"}), "(", g.ws0(), g.setIdent(idents), g.ws0(), ")")
	case 1:
		p.add(pick(g.r, []string{"allOf", "allof", "ALLOF"}), "(", g.ws0(), g.setIdent(idents), g.ws0(), ")")
	case 2:
		p.add(g.kw("count"), "(", g.ws0())
		g.setExpr(p, idents, depth)
		p.add(g.ws0(), ")")
	default:
		p.add(g.ident(idents))
	}
}

func (g *c10Gen) array(p *c10Pieces) {
	kind := g.r.intn(3)
	n := 1 + g.r.intn(3)
	p.add("[", g.ws0())
	for i := 0; i < n; i++ {
		if i > 0 {
			p.add(g.ws0(), ",", g.ws0())
		}
		switch kind {
		case 0:
			p.add(g.str())
		case 1:
			p.add(g.number())
		default:
			p.add(g.datetime())
		}
	}
	p.add(g.ws0(), "]")
}

func (g *c10Gen) operation(p *c10Pieces, idents []string, depth int) {
	g.lhs(p, idents, depth)
	switch g.r.intn(10) {
	case 0, 1:
		p.add(g.ws1())
		g.notPrefix(p, "in", true)
		p.add(g.ws1())
		g.array(p)
	case 2:
		p.add(g.ws1())
		g.notPrefix(p, "between", false)
		p.add(g.ws1())
		if g.r.chance(2, 3) {
			p.add(g.number(), g.ws1(), g.kw("and"), g.ws1(), g.number())
		} else {
			p.add(g.datetime(), g.ws1(), g.kw("and"), g.ws1(), g.datetime())
		}
	case 3:
		p.add(g.ws0())
		g.notPrefix(p, pick(g.r, []string{"contains", "icontains"}), false)
		p.add(g.ws1())
		if g.r.chance(3, 4) {
			p.add(g.str())
		} else {
			p.add(g.number()) // `icontains NUMBER` is not a sentence: deliberate
		}
	case 4, 5:
		p.add(g.ws0(), pick(g.r, []string{"<", "<=", ">", ">="}), g.ws0())
		switch g.r.intn(3) {
		case 0:
			p.add(g.str())
		case 1:
			p.add(g.number())
		default:
			p.add(g.datetime())
		}
	default:
		p.add(g.ws0(), pick(g.r, []string{"=", "!="}), g.ws0())
		switch g.r.intn(6) {
		case 0:
			p.add(g.str())
		case 1:
			p.add(g.number())
		case 2:
			p.add(g.datetime())
		case 3:
			p.add(g.kw(pick(g.r, c10Bools)))
		case 4:
			p.add(g.kw("null"))
		default:
			p.add(g.number())
		}
	}
}

func (g *c10Gen) boolExpr(p *c10Pieces, idents []string, depth int) {
	c := g.r.intn(20)
	if depth <= 0 && c >= 12 {
		c = g.r.intn(12)
	}
	switch {
	case c < 9:
		g.operation(p, idents, depth)
	case c == 9:
		p.add(g.kw(pick(g.r, c10Bools)))
	case c == 10:
		p.add(g.ident(idents))
	case c == 11:
		p.add(pick(g.r, []string{"isEmpty", "isempty", "ISEMPTY"}), "(", g.ws0())
		g.setExpr(p, idents, depth)
		p.add(g.ws0(), ")")
	case c < 15:
		g.boolExpr(p, idents, depth-1)
		p.add(g.ws1(), g.kw(pick(g.r, []string{"and", "or"})), g.ws1())
		g.boolExpr(p, idents, depth-1)
	case c < 17:
		p.add("(", g.ws0())
		g.boolExpr(p, idents, depth-1)
		p.add(g.ws0(), ")")
	default:
		p.add(g.kw("not"), g.ws1())
		g.boolExpr(p, idents, depth-1)
	}
}

func (g *c10Gen) sortBy(p *c10Pieces, idents []string) {
	p.add(g.kw("sort"), g.ws1(), g.kw("by"), g.ws1())
	n := 1 + g.r.intn(3)
	for i := 0; i < n; i++ {
		if i > 0 {
			p.add(g.ws0(), ",", g.ws0())
		}
		p.add(g.ident(idents))
		if g.r.chance(1, 2) {
			p.add(g.ws1(), g.kw(pick(g.r, []string{"asc", "desc"})))
		}
	}
}
func (g *c10Gen) pagingNumber() string {
	if g.r.chance(1, 6) {
		return g.number()
	}
	return pick(g.r, []string{"0", "1", "2", "5", "-1", "100"})
}
func (g *c10Gen) skip(p *c10Pieces) { p.add(g.kw("skip"), g.ws1(), g.pagingNumber()) }
func (g *c10Gen) limit(p *c10Pieces) {
	if g.r.chance(1, 4) {
		p.add(g.kw("limit"), g.ws1(), g.kw("none"))
	} else {
		p.add(g.kw("limit"), g.ws1(), g.pagingNumber())
	}
}

func (g *c10Gen) query(p *c10Pieces, idents []string, depth int) {
	c := g.r.intn(12)
	hasPred := c < 9
	if hasPred {
		g.boolExpr(p, idents, depth)
	}
	first := !hasPred
	part := func(f func()) {
		if !first {
			p.add(g.ws1())
		}
		first = false
		f()
	}
	if (hasPred && g.r.chance(1, 4)) || c == 9 {
		part(func() { g.sortBy(p, idents) })
	}
	if (hasPred && g.r.chance(1, 6)) || c == 10 || (c == 9 && g.r.chance(1, 3)) {
		part(func() { g.skip(p) })
	}
	if (hasPred && g.r.chance(1, 6)) || c == 11 || (c >= 9 && g.r.chance(1, 3)) || first {
		part(func() { g.limit(p) })
	}
}

func (g *c10Gen) sentence(idents []string, depth int) c10Pieces {
	var p c10Pieces
	if g.r.chance(1, 6) {
		p.add(g.ws1())
	}
	g.query(&p, idents, depth)
	if g.r.chance(1, 6) {
		p.add(g.ws1())
	}
	return p
}

// ---- mutation -----------------------------------------------------------------------------

func (g *c10Gen) anyPiece() string {
	switch g.r.intn(12) {
	case 0:
		return pick(g.r, c10Idents)
	case 1:
		return g.str()
	case 2:
		return g.number()
	case 3:
		return pick(g.r, c10BadNumbers)
	case 4:
		return g.datetime()
	case 5:
		return pick(g.r, c10BadDatetimes)
	case 6:
		return pick(g.r, c10Unrecognised)
	case 7:
		return pick(g.r, []string{"(", ")", "[", "]", ",", "=", "!=", "<", ">=", " "})
	case 8:
		return ""
	default:
		return g.kw(pick(g.r, []string{"and", "or", "not", "in", "not in", "between", "contains", "icontains", "not contains",
			"true", "null", "anyOf", "allOf", "count", "isEmpty", "sort", "by", "asc", "desc", "skip", "limit", "none", "from", "where"}))
	}
}

func (g *c10Gen) mutate(p c10Pieces) c10Pieces {
	q := append(c10Pieces{}, p...)
	if len(q) == 0 {
		return c10Pieces{g.anyPiece()}
	}
	i := g.r.intn(len(q))
	switch g.r.intn(6) {
	case 0: // delete
		q = append(q[:i], q[i+1:]...)
	case 1: // duplicate
		q = append(q[:i+1], q[i:]...)
	case 2: // swap with the next piece
		if i+1 < len(q) {
			q[i], q[i+1] = q[i+1], q[i]
		}
	case 3: // replace by any piece
		q[i] = g.anyPiece()
	case 4: // insert an unrecognised character (at a piece boundary or inside the piece)
		c := pick(g.r, c10Unrecognised)
		if len(q[i]) > 0 && g.r.chance(1, 2) {
			rs := []rune(q[i])
			k := g.r.intn(len(rs) + 1)
			q[i] = string(rs[:k]) + c + string(rs[k:])
		} else {
			q = append(q[:i], append(c10Pieces{c}, q[i:]...)...)
		}
	default: // insert any piece
		q = append(q[:i], append(c10Pieces{g.anyPiece()}, q[i:]...)...)
	}
	return q
}

// ---- bounded exhaustive -------------------------------------------------------------------

var c10Alphabet = []string{"a", "ss", "=", "!=", "<", "1", `"x"`, "true", "null", "and", "or", "not", "(", ")",
	"in", "not in", "[", "]", ",", "between", "contains", "anyOf", "count", "isEmpty"}
var c10Alphabet2 = []string{"a", "=", "1", "(", ")", "and", "not", "sort", "by", "limit", "skip", "none", "from", "where", "asc", ",", "count", "isEmpty"}

func (g *c10Gen) exhaustive(alpha []string, maxLen int, sep string) {
	idx := make([]int, maxLen)
	var rec func(n int)
	rec = func(n int) {
		if n > 0 {
			parts := make([]string, n)
			for i := 0; i < n; i++ {
				parts[i] = alpha[idx[i]]
			}
			g.emitL(strings.Join(parts, sep))
		}
		if n == maxLen {
			return
		}
		for i := range alpha {
			idx[n] = i
			rec(n + 1)
		}
	}
	rec(0)
}

func (g *c10Gen) randomSeq(alpha []string, n int) string {
	parts := make([]string, n)
	for i := range parts {
		parts[i] = pick(g.r, alpha)
	}
	return strings.Join(parts, pick(g.r, []string{" ", " ", " ", ""}))
}

var c10RandChars = []rune(" \t\n\r()[],<>=!\"'\\.-+:_abdefilnorstuyzABTZ0123456789@#$%^&*;~`{}|?/\x00\x1fé世 �")

// charSweep: every ASCII code point and a sample of non-ASCII ones (Unicode spaces, line separators,
// BOM, astral) in every lexical context - alone, at token boundaries, inside identifiers, keywords,
// numbers, strings, datetimes, composite tokens, arrays.  A lexer that admits (or drops) one code
// point more or less than the grammar file does disagrees with the reference lexer on one of these.
func (g *c10Gen) charSweep() {
	var chars []rune
	for c := rune(0); c < 0x80; c++ {
		chars = append(chars, c)
	}
	chars = append(chars, 0x80, 0x85, 0xa0, 0xad, 0xff, 0x100, 0x3b1, 0x1680, 0x2000, 0x2003, 0x200b, 0x2028, 0x2029, 0x202f, 0x205f,
		0x3000, 0xd7ff, 0xe000, 0xfeff, 0xfffd, 0xffff, 0x10000, 0x1f600, 0x10ffff)
	ctx := []string{"%s", "%sa = 1", "a = 1%s", "a%s= 1", "a =%s1", "a%sb = 1", "a = 1%s2", `s = "x%sy"`, "n in [1%s,2]", "n in [1,%s2]",
		"a = datetime(2020-01-01T00:00:00%sZ)", "a = datetime(%s2020-01-01T00:00:00Z)", "a = 1 sort by a%sdesc", "a not%sin [1]",
		"a not%scontains \"x\"", "a%sand b", "a an%sd b", "not%sa", "isEmpty(%sss)", "count(ss%s) > 1", "'s%s' = 1", "tags.x%sy = 1", "a = 1 limit%s5",
		"a = -%s1", "a = 1.%s5", "a = 1e%s3", "a !%s= 1", "a <%s= 1"}
	for _, c := range chars {
		for _, f := range ctx {
			g.emitL(strings.Replace(f, "%s", string(c), 1))
		}
	}
}

// ---- driver ---------------------------------------------------------------------------------

func (g *c10Gen) run() {
	thorough := g.tier == "thorough"
	// fixed boundary cases first
	for _, s := range []string{"", " ", "a = 1 @", "a = 1", "@", "a", "true", "limit none", "a = 1 and", "a=1", "a =1and b= 2",
		`s = "x" or n in [1, 2.5] and not b`, "count(from kids where limit 5) > 1", "isEmpty(from kids where true)",
		"a not in [1]", "a not  in [1]", "a not between 1 and 2", "anyOf(ss) not  contains \"x\"", "not a", "not(a)", "nota",
		"d between 1 and 2", "tags.x between 5 and 7", `n icontains "X"`, "a = 1e999", "skip 1.5", "limit -1", "skip 9223372036854775808",
		"sort by a,b desc , c ASC limit none", "'s' = 1", "a = datetime(2020-02-30T00:00:00Z)", "((((a))))", "( a )", "a in []", `a in ["x",]`,
		"a in [1, \"x\"]", "a = 1 sort by", "from kids where true", "a = 1 limit 1 skip 1", "2020-01-01T00:00:00Z", "a = \"x", "a = 'x'", "a == 1",
		"a <> 1", "a = -", "a = 1.", "a = .5", "a and b or c", "a or b and c", "not a and b", "a = null", "a != NULL", "a < null", "a = true",
		"a < true", "a contains 5", "a icontains 5", "a contains true", "isEmpty(a) = true", "count(a)", "anyOf(a)", "anyOf(from kids where true) = 1",
		"allOf(ss) in [\"x\"]", "count(ss) between 1 and 2", "a between 1 and datetime(2020-01-01T00:00:00Z)", "a=1 and(b=2)", "(a=1)and b=2", "not\t(a)"} {
		g.emitL(s)
	}
	g.charSweep()
	nS, nM, nR, nSeq := 6500, 15600, 3500, 3000 // quick: trimmed so that the whole check stays well under 25 s on an idle machine
	if thorough {
		nS, nM, nR, nSeq = 250000, 750000, 200000, 200000
	}
	for i := 0; i < nS; i++ {
		p := g.sentence(c10Idents, 1+g.r.intn(4))
		g.emitL(strings.Join(p, ""))
		// and its mutations
		for j := 0; j < nM/nS+1; j++ {
			q := g.mutate(p)
			if g.r.chance(1, 3) {
				q = g.mutate(q)
			}
			g.emitL(strings.Join(q, ""))
		}
	}
	if thorough {
		g.exhaustive(c10Alphabet, 4, " ")
		g.exhaustive(c10Alphabet2, 4, " ")
		g.exhaustive(c10Alphabet, 3, "")
	} else {
		g.exhaustive(c10Alphabet, 3, " ")
		g.exhaustive(c10Alphabet2, 3, " ")
		g.exhaustive(c10Alphabet, 2, "")
	}
	for i := 0; i < nSeq; i++ {
		if g.r.chance(1, 2) {
			g.emitL(g.randomSeq(c10Alphabet, 4+g.r.intn(6)))
		} else {
			g.emitL(g.randomSeq(c10Alphabet2, 4+g.r.intn(6)))
		}
	}
	for i := 0; i < nR; i++ {
		n := g.r.intn(14)
		rs := make([]rune, n)
		for j := range rs {
			rs[j] = pick(g.r, c10RandChars)
		}
		g.emitL(string(rs))
	}
	g.genQueries()
	g.genTrees()
	g.genBolt()
	g.genObj()
	g.genHist()
	g.genFresh()
}
