package main

// C07 / C08 — real-code executor for transaction histories with fault injection.
//
// Stores (exported API only, wiring as in boltz/*_test.go):
//
//	P "things"  base path ["u"]: name (unique index, non-nullable), roles (set index),
//	            ref (nullable fk index things.ref -> things.backrefs)
//	C child of P, path ["ext"]: rank; ChildStoreUpdateHandler whose mapper copies the parent fields
//	            into the stored child entity
//
// Case line (see lean/StorageModel/Tx/Wire.lean for the grammar):
//
//	E nP reg* nC reg* txl [I nIxP ixreg* nIxC ixreg*] [D nD reg* nIxD ixreg*] T ntx tx*
//
// D section: registrations and custom index-stage constraints of the SECOND child store D (path ["ext2"], field
// grade), registered on the parent after C; an entity may have data in C, in D, in both.
//
// ixreg = nveto (stage id)*: a custom boltz.Constraint registered with AddConstraint on the parent / child
// store (after the built-in indexes) which calls ctx.ErrHolder.SetError in ProcessBeforeUpdate (b),
// ProcessAfterUpdate (a) or ProcessBeforeDelete (d) for the listed row ids.
//
// Steps: op (store operation, error handed on or swallowed), fail (the caller returns an error), ac / ap
// (AddCommitAction / AddPreCommitAction), nb / nB ... ne (nested Db.Update / Db.Batch with the bound
// context), sys (go on with ctx.GetSystemContext()).
//
// A transaction may also be a batch group ("tx g reuse nmembers member*"): several Db.Batch calls coalesced by bbolt into
// one batch — see c07_c08_group.go for the case syntax, the way it is driven and its output record.
//
// Output: one record per transaction, joined by " | ":
//
//	r=<ok|err:kind|panic> same=<0|1> runs=<n> pre=[..] pa=[..] sync=[..] async=[..] ca=[..] dump=<-|[leaves]>
//
// pre  ProcessPreCommit calls seen by the registered entity constraints and ProcessBeforeUpdate /
//      ProcessAfterUpdate / ProcessBeforeDelete calls seen by the custom index-stage constraints (I.<store>.<n>.
//      <stage>.<id>.<isCreate>), inside the transaction, in call order
// pa   pre-commit actions that ran
// sync callbacks that ran on the committing goroutine, in order (L listener, Q constraint post-commit, X tx-complete)
// async callbacks that ran on another goroutine (sorted); the executor waits until every goroutine
//      started by the transaction has finished (goroutine count back at its level before the call)
// ca   commit actions, grouped by the goroutine that ran them (sorted)
// dump key/value leaves of boltz.Traverse over the whole database, "-" when identical to the dump
//      taken before the transaction

import (
	"bytes"
	"context"
	"errors"
	"fmt"
	"os"
	"path/filepath"
	"reflect"
	"runtime"
	"sort"
	"strconv"
	"strings"
	"sync"
	"time"

	"github.com/openziti/foundation/v2/errorz"
	"github.com/openziti/storage/ast"
	"github.com/openziti/storage/boltz"
	"go.etcd.io/bbolt"
	bberrors "go.etcd.io/bbolt/errors"
)

// ---------------------------------------------------------------- case structure

type txReg struct {
	listener bool
	style    byte   // t f u i   (listener)   t u (constraint; T U: the veto is a *boltz.RecordNotFoundError)
	types    []byte // c u d C U D
	vetoes   []txVeto
}

// a constraint's veto comes in two flavours: a plain error, or a *boltz.RecordNotFoundError (what a
// constraint returns that looked something up with LoadById and hands that error on)
func (r txReg) notFoundFlavour() bool { return r.style == 'T' || r.style == 'U' }
func (r txReg) typed() bool           { return r.style == 't' || r.style == 'T' || r.style == 'o' }

// style o: the vetoes apply only while the transaction function runs for the first time (the constraint looks at
// state outside the database): a Db.Batch that fails this way succeeds when bbolt runs the function again
func (r txReg) firstRunOnly() bool { return r.style == 'o' }

type txVeto struct {
	kind byte
	id   string
}

type txIxVeto struct {
	stage byte // b a d   (B A D: the veto is a *boltz.RecordNotFoundError)
	id    string
}

func txLower(c byte) byte {
	if c >= 'A' && c <= 'Z' {
		return c + 'a' - 'A'
	}
	return c
}

// one entry of the flattened tags value: path from the top-level map, leaf kind (s t f n u S m l)
type txTagSeg struct {
	isIdx bool
	key   string
	idx   int
}
type txTag struct {
	path []txTagSeg
	leaf byte
	str  string
}

type txFields struct {
	name  string
	roles []string
	ref   *string
	tags  []txTag
	links []string // ids of entities of the second root store "groups", persisted with ctx.SetLinkedIds
}

// txTagsValue rebuilds the Go value (map[string]interface{} with nested maps and []interface{} lists) from
// the flattened entries.  Leaf u = uint16(80), S = []string{"b","c"}: types TypedBucket.setMarshaled has no case for.
func txTagsValue(tags []txTag) map[string]interface{} {
	if len(tags) == 0 {
		return nil
	}
	type node struct {
		leaf     interface{}
		isLeaf   bool
		isList   bool
		children map[string]*node
		order    []string
	}
	root := &node{children: map[string]*node{}}
	for _, t := range tags {
		cur := root
		for _, sg := range t.path {
			name := sg.key
			if sg.isIdx {
				name = strconv.Itoa(sg.idx)
				cur.isList = true
			}
			if cur.children == nil {
				cur.children = map[string]*node{}
			}
			nx, ok := cur.children[name]
			if !ok {
				nx = &node{}
				cur.children[name] = nx
				cur.order = append(cur.order, name)
			}
			cur = nx
		}
		switch t.leaf {
		case 's':
			cur.leaf, cur.isLeaf = t.str, true
		case 't':
			cur.leaf, cur.isLeaf = true, true
		case 'f':
			cur.leaf, cur.isLeaf = false, true
		case 'n':
			cur.leaf, cur.isLeaf = nil, true
		case 'u':
			cur.leaf, cur.isLeaf = uint16(80), true
		case 'S':
			cur.leaf, cur.isLeaf = []string{"b", "c"}, true
		case 'm':
			cur.children = map[string]*node{}
		case 'l':
			cur.isList = true
		default:
			panic("bad tag leaf")
		}
	}
	var build func(n *node) interface{}
	build = func(n *node) interface{} {
		if n.isLeaf {
			return n.leaf
		}
		if n.isList {
			l := make([]interface{}, len(n.children))
			for name, c := range n.children {
				i, _ := strconv.Atoi(name)
				if i >= len(l) {
					panic("tags list indexes not contiguous")
				}
				l[i] = build(c)
			}
			return l
		}
		m := map[string]interface{}{}
		for name, c := range n.children {
			m[name] = build(c)
		}
		return m
	}
	return build(root).(map[string]interface{})
}

type txStep struct {
	kind    string // op fail ac ap nb ne
	swallow bool
	fault   string
	op      string // cr up de dw
	store   byte
	id      string
	f       txFields
	rank    string
	query   string // all bad name
	qname   string
	tag     int
	fails   bool
}

type txTx struct {
	mode  byte
	reuse bool
	steps []txStep
	// mode 'g': a batch group — several Db.Batch calls coalesced by bbolt into one batch (c07_c08_group.go)
	members []txMember
}

type txCase struct {
	regsP, regsC []txReg
	txl          int
	ixP, ixC     [][]txIxVeto
	regsD        []txReg
	ixD          [][]txIxVeto
	txs          []txTx
	// the listener registrations hand their additional change types over through ONE slice that is reused for all
	// of them, has spare capacity and is overwritten afterwards (what a caller with a `common...` slice does)
	sharedSlice bool
}

// ---------------------------------------------------------------- wire strings

func txParseStr(t string) string {
	if strings.HasPrefix(t, "*") {
		parts := strings.SplitN(t[1:], ":", 2)
		n, err := strconv.Atoi(parts[0])
		if err != nil || len(parts) != 2 {
			panic("bad wire string " + t)
		}
		return strings.Repeat(fromWire(parts[1]), n)
	}
	return fromWire(t)
}

func txWire(s string) string {
	if len(s) > 64 {
		uniform := true
		for i := 1; i < len(s); i++ {
			if s[i] != s[0] {
				uniform = false
				break
			}
		}
		if uniform {
			return fmt.Sprintf("*%d:%02x", len(s), s[0])
		}
	}
	return toWire(s)
}

func txSafe(s string) bool {
	for i := 0; i < len(s); i++ {
		c := s[i]
		if !(c >= '0' && c <= '9' || c >= 'a' && c <= 'z' || c >= 'A' && c <= 'Z' || c == '_') {
			return false
		}
	}
	return true
}

// txAbbr is Wire.abbr of the Lean driver.
func txAbbr(s string) string {
	switch {
	case len(s) == 0:
		return "-"
	case len(s) > 64:
		return fmt.Sprintf("*%d:%02x", len(s), s[len(s)-1])
	case txSafe(s):
		return s
	default:
		return "x" + toWire(s)
	}
}

type txTokens struct {
	t []string
	i int
}

func (p *txTokens) next() string {
	if p.i >= len(p.t) {
		panic("case line too short")
	}
	p.i++
	return p.t[p.i-1]
}
func (p *txTokens) nat() int {
	n, err := strconv.Atoi(p.next())
	if err != nil {
		panic("bad number in case line")
	}
	return n
}
func (p *txTokens) str() string { return txParseStr(p.next()) }
func (p *txTokens) flag() bool  { return p.next() == "1" }

func (p *txTokens) reg() txReg {
	switch p.next() {
	case "l":
		r := txReg{listener: true, style: p.next()[0]}
		n := p.nat()
		for i := 0; i < n; i++ {
			r.types = append(r.types, p.next()[0])
		}
		return r
	case "c":
		r := txReg{style: p.next()[0]}
		n := p.nat()
		for i := 0; i < n; i++ {
			k := p.next()[0]
			r.vetoes = append(r.vetoes, txVeto{kind: k, id: p.str()})
		}
		return r
	}
	panic("bad reg")
}

func (p *txTokens) ixRegs() [][]txIxVeto {
	n := p.nat()
	regs := make([][]txIxVeto, n)
	for i := range regs {
		m := p.nat()
		for j := 0; j < m; j++ {
			st := p.next()
			if len(st) != 1 || !strings.Contains("badBAD", st) {
				panic("bad index stage")
			}
			regs[i] = append(regs[i], txIxVeto{stage: st[0], id: p.str()})
		}
	}
	return regs
}

func (p *txTokens) fields() txFields {
	f := txFields{name: p.str()}
	n := p.nat()
	for i := 0; i < n; i++ {
		f.roles = append(f.roles, p.str())
	}
	r := p.next()
	if r != "~" {
		s := txParseStr(r)
		f.ref = &s
	}
	if p.i < len(p.t) && p.t[p.i] == "G" {
		p.next()
		n := p.nat()
		for i := 0; i < n; i++ {
			var t txTag
			m := p.nat()
			for j := 0; j < m; j++ {
				switch p.next() {
				case "k":
					t.path = append(t.path, txTagSeg{key: p.str()})
				case "i":
					t.path = append(t.path, txTagSeg{isIdx: true, idx: p.nat()})
				default:
					panic("bad tag segment")
				}
			}
			t.leaf = p.next()[0]
			if t.leaf == 's' {
				t.str = p.str()
			}
			f.tags = append(f.tags, t)
		}
	}
	if p.i < len(p.t) && p.t[p.i] == "K" {
		p.next()
		n := p.nat()
		for i := 0; i < n; i++ {
			f.links = append(f.links, p.str())
		}
	}
	return f
}

func (p *txTokens) step() txStep {
	s := txStep{kind: p.next()}
	switch s.kind {
	case "op":
		s.swallow = p.flag()
		s.fault = p.next()
		s.op = p.next()
		s.store = p.next()[0]
		switch s.op {
		case "cr", "up":
			s.id = p.str()
			s.f = p.fields()
			s.rank = p.str()
		case "de":
			s.id = p.str()
		case "dw":
			s.query = p.next()
			if s.query == "name" {
				s.qname = p.str()
			}
		default:
			panic("bad op")
		}
	case "lk":
		s.op = p.next()
		s.id = p.str()
		n := p.nat()
		for i := 0; i < n; i++ {
			s.f.links = append(s.f.links, p.str())
		}
	case "fail", "fail1", "ac":
		s.tag = p.nat()
	case "ap":
		s.tag = p.nat()
		s.fails = p.flag()
	case "nb", "nB", "ne", "sys":
	default:
		panic("bad step " + s.kind)
	}
	return s
}

func txParseCase(line string) *txCase {
	p := &txTokens{t: strings.Split(line, " ")}
	c := &txCase{}
	if p.next() != "E" {
		panic("bad case")
	}
	if p.i < len(p.t) && p.t[p.i] == "S" {
		p.next()
		c.sharedSlice = true
	}
	n := p.nat()
	for i := 0; i < n; i++ {
		c.regsP = append(c.regsP, p.reg())
	}
	n = p.nat()
	for i := 0; i < n; i++ {
		c.regsC = append(c.regsC, p.reg())
	}
	c.txl = p.nat()
	t := p.next()
	if t == "I" {
		c.ixP = p.ixRegs()
		c.ixC = p.ixRegs()
		t = p.next()
	}
	if t == "D" {
		n := p.nat()
		for i := 0; i < n; i++ {
			c.regsD = append(c.regsD, p.reg())
		}
		c.ixD = p.ixRegs()
		t = p.next()
	}
	if t != "T" {
		panic("bad case")
	}
	n = p.nat()
	for i := 0; i < n; i++ {
		if p.next() != "tx" {
			panic("bad tx")
		}
		tx := txTx{mode: p.next()[0], reuse: p.flag()}
		m := p.nat()
		if tx.mode == 'g' {
			// "g" or "g:<observed schedule>" (the schedule is for the model only)
			for j := 0; j < m; j++ {
				tx.members = append(tx.members, p.member())
			}
			c.txs = append(c.txs, tx)
			continue
		}
		for j := 0; j < m; j++ {
			tx.steps = append(tx.steps, p.step())
		}
		c.txs = append(c.txs, tx)
	}
	if p.i != len(p.t) {
		panic("trailing tokens in case line")
	}
	return c
}

// ---------------------------------------------------------------- entities and strategies

type txThing struct {
	Id    string
	Name  string
	Roles []string
	Ref   *string
	Tags  map[string]interface{}
	Links []string
}

func (e *txThing) GetId() string         { return e.Id }
func (e *txThing) SetId(id string)       { e.Id = id }
func (e *txThing) GetEntityType() string { return "things" }

type txExt struct {
	txThing
	Rank string
}

// entity of the second root store "groups" (link targets); its entities q1, q2 are created when the database is set
// up and never touched by the cases
type txGroup struct {
	Id   string
	Name string
}

func (e *txGroup) GetId() string         { return e.Id }
func (e *txGroup) SetId(id string)       { e.Id = id }
func (e *txGroup) GetEntityType() string { return "groups" }

type txQStrategy struct{}

func (txQStrategy) NewEntity() *txGroup                             { return new(txGroup) }
func (txQStrategy) FillEntity(e *txGroup, b *boltz.TypedBucket)     { e.Name = b.GetStringOrError("name") }
func (txQStrategy) PersistEntity(e *txGroup, ctx *boltz.PersistContext) { ctx.SetString("name", e.Name) }

// entity of the second child store
type txExt2 struct {
	txThing
	Grade string
}

var errTxLoad = errors.New("injected load error")
var errTxPersist = errors.New("injected persist error")

type txNotFound struct{ id string }

func (e *txNotFound) Error() string { return "not found: " + e.id }

type txVetoErr struct {
	store byte
	reg   int
}

func (e *txVetoErr) Error() string { return fmt.Sprintf("veto by %c.%d", e.store, e.reg) }

// EntityType of the RecordNotFoundError flavour of a veto (Field = store, Id = registration index)
const txVetoEntityType = "verif-veto"
const txIxVetoEntityType = "verif-ixveto"

type txIxVetoErr struct {
	store byte
	reg   int
}

func (e *txIxVetoErr) Error() string { return fmt.Sprintf("index-stage veto by %c.%d", e.store, e.reg) }

type txCallerErr struct{ tag int }

func (e *txCallerErr) Error() string { return fmt.Sprintf("caller error %d", e.tag) }

type txPreErr struct{ tag int }

func (e *txPreErr) Error() string { return fmt.Sprintf("pre-commit error %d", e.tag) }

// txRun is the state of one executed case.
type txRun struct {
	db     *boltz.DbImpl
	parent *boltz.BaseStore[*txThing]
	child  *boltz.BaseStore[*txExt]
	child2 *boltz.BaseStore[*txExt2]
	groups *boltz.BaseStore[*txGroup]
	cas    *txCase

	mu       sync.Mutex
	pre      []string
	preRan   []string
	sync     []string
	async    []string
	ca       map[uint64][]string
	bodyGoid uint64
	shared   []boltz.EntityEventType
	curRun   int // how often the transaction function of the running transaction has been started
	grp      *txGroupRun // set while a batch group runs
	hung     bool        // a batch group did not finish: goroutines are stuck inside bbolt, the database is not closed

	// fault injection for the running operation
	fault       string
	fillP       int
	fillC       int
	persP       int
	persC       int
	mapperDepth int
}

type txPStrategy struct{ r *txRun }

func (s *txPStrategy) NewEntity() *txThing { return new(txThing) }
func (s *txPStrategy) FillEntity(e *txThing, b *boltz.TypedBucket) {
	n := 0
	if s.r.mapperDepth == 0 {
		s.r.fillP++
		n = s.r.fillP
	}
	e.Name = b.GetStringOrError("name")
	e.Ref = b.GetString("ref")
	e.Roles = b.GetStringList("roles")
	e.Tags = b.GetMap("tags")
	e.Links = b.GetStringList("groups")
	if n > 0 && s.r.fault == fmt.Sprintf("lP%d", n) {
		b.SetError(errTxLoad)
	}
}
func (s *txPStrategy) PersistEntity(e *txThing, ctx *boltz.PersistContext) {
	s.r.persP++
	n := s.r.persP
	ctx.SetString("name", e.Name)
	ctx.SetStringP("ref", e.Ref)
	ctx.SetStringList("roles", e.Roles)
	// nothing is injected for the tags: what the typed-bucket setters make of the VALUE is the test
	ctx.SetMap("tags", e.Tags)
	// a link target that does not exist is a real failure of the link collection, nothing is injected
	ctx.SetLinkedIds("groups", e.Links)
	if s.r.fault == fmt.Sprintf("pP%d", n) {
		ctx.Bucket.SetError(errTxPersist)
	}
}

type txCStrategy struct{ r *txRun }

func (s *txCStrategy) NewEntity() *txExt { return new(txExt) }
func (s *txCStrategy) FillEntity(e *txExt, b *boltz.TypedBucket) {
	n := 0
	if s.r.mapperDepth == 0 {
		s.r.fillC++
		n = s.r.fillC
	}
	_, err := s.r.parent.LoadEntity(b.Tx(), e.Id, &e.txThing)
	b.SetError(err)
	e.Rank = b.GetStringWithDefault("rank", "")
	if n > 0 && s.r.fault == fmt.Sprintf("lC%d", n) {
		b.SetError(errTxLoad)
	}
}
func (s *txCStrategy) PersistEntity(e *txExt, ctx *boltz.PersistContext) {
	s.r.persC++
	n := s.r.persC
	s.r.parent.GetEntityStrategy().PersistEntity(&e.txThing, ctx.GetParentContext())
	ctx.SetString("rank", e.Rank)
	if s.r.fault == fmt.Sprintf("pC%d", n) {
		ctx.Bucket.SetError(errTxPersist)
	}
}

// strategy of the second child store: not an injection point itself (it calls the parent's strategy, which is)
type txDStrategy struct{ r *txRun }

func (s *txDStrategy) NewEntity() *txExt2 { return new(txExt2) }
func (s *txDStrategy) FillEntity(e *txExt2, b *boltz.TypedBucket) {
	_, err := s.r.parent.LoadEntity(b.Tx(), e.Id, &e.txThing)
	b.SetError(err)
	e.Grade = b.GetStringWithDefault("grade", "")
}
func (s *txDStrategy) PersistEntity(e *txExt2, ctx *boltz.PersistContext) {
	s.r.parent.GetEntityStrategy().PersistEntity(&e.txThing, ctx.GetParentContext())
	ctx.SetString("grade", e.Grade)
}

// ---------------------------------------------------------------- rendering

func txRenderFields(t *txThing) string {
	roles := "."
	if len(t.Roles) > 0 {
		rs := make([]string, len(t.Roles))
		for i, r := range t.Roles {
			rs[i] = txAbbr(r)
		}
		roles = strings.Join(rs, "+")
	}
	ref := "~"
	if t.Ref != nil {
		ref = txAbbr(*t.Ref)
	}
	return txAbbr(t.Name) + "/" + roles + "/" + ref
}

func txRenderEnt(e boltz.Entity) string {
	if e == nil || reflect.ValueOf(e).IsNil() {
		return "nil"
	}
	switch v := e.(type) {
	case *txThing:
		return "P:" + txAbbr(v.Id) + "/" + txRenderFields(v)
	case *txExt:
		return "C:" + txAbbr(v.Id) + "/" + txRenderFields(&v.txThing) + "/" + txAbbr(v.Rank)
	case *txExt2:
		return "D:" + txAbbr(v.Id) + "/" + txRenderFields(&v.txThing) + "/" + txAbbr(v.Grade)
	}
	return fmt.Sprintf("?%T", e)
}

func txGoid() uint64 {
	var buf [64]byte
	n := runtime.Stack(buf[:], false)
	f := bytes.Fields(buf[:n])
	id, _ := strconv.ParseUint(string(f[1]), 10, 64)
	return id
}

func (r *txRun) logCallback(entry string) {
	g := txGoid()
	r.mu.Lock()
	defer r.mu.Unlock()
	if r.grp != nil {
		// several bbolt transactions, committed on different goroutines: sorted out afterwards
		r.grp.callbacks = append(r.grp.callbacks, txGroupCallback{goid: g, entry: entry})
		return
	}
	if g == r.bodyGoid {
		r.sync = append(r.sync, entry)
	} else {
		r.async = append(r.async, entry)
	}
}

func txKindChar(t boltz.EntityEventType) byte {
	switch {
	case t.IsCreate():
		return 'c'
	case t.IsUpdate():
		return 'u'
	case t.IsDelete():
		return 'd'
	}
	return '?'
}

func txEventType(c byte) boltz.EntityEventType {
	switch c {
	case 'c':
		return boltz.EntityCreated
	case 'u':
		return boltz.EntityUpdated
	case 'd':
		return boltz.EntityDeleted
	case 'C':
		return boltz.EntityCreatedAsync
	case 'U':
		return boltz.EntityUpdatedAsync
	case 'D':
		return boltz.EntityDeletedAsync
	}
	panic("bad event type")
}

// ---------------------------------------------------------------- listeners and constraints

type txTypedListener[E boltz.Entity] struct {
	r     *txRun
	label string
}

func (l *txTypedListener[E]) HandleEntityEvent(e E) {
	l.r.logCallback(l.label + txRenderEnt(e))
}

type txConstraintCore struct {
	r     *txRun
	store byte
	idx   int
	reg   txReg
}

func (c *txConstraintCore) pre(kind boltz.EntityEventType, id string, parentEvent bool) error {
	pe := "0"
	if parentEvent {
		pe = "1"
	}
	c.r.mu.Lock()
	c.r.pre = append(c.r.pre, fmt.Sprintf("%c.%d.%c.%s.%s", c.store, c.idx, txKindChar(kind), txAbbr(id), pe))
	c.r.mu.Unlock()
	for _, v := range c.reg.vetoes {
		if v.kind == txKindChar(kind) && v.id == id {
			if c.reg.firstRunOnly() && c.r.curRun != 1 {
				continue
			}
			if c.reg.notFoundFlavour() {
				return boltz.NewNotFoundError(txVetoEntityType, string(c.store), strconv.Itoa(c.idx))
			}
			return &txVetoErr{store: c.store, reg: c.idx}
		}
	}
	return nil
}

func (c *txConstraintCore) post(kind boltz.EntityEventType, id string, parentEvent bool, initial, final boltz.Entity) {
	pe := "0"
	if parentEvent {
		pe = "1"
	}
	c.r.logCallback(fmt.Sprintf("Q.%c.%d.%c.%s.%s.%s.%s", c.store, c.idx, txKindChar(kind), txAbbr(id), pe,
		txRenderEnt(initial), txRenderEnt(final)))
}

type txTypedConstraint[E boltz.Entity] struct{ txConstraintCore }

func (c *txTypedConstraint[E]) ProcessPreCommit(s *boltz.EntityChangeState[E]) error {
	return c.pre(s.ChangeType, s.EntityId, s.ParentEvent)
}
func (c *txTypedConstraint[E]) ProcessPostCommit(s *boltz.EntityChangeState[E]) {
	c.post(s.ChangeType, s.EntityId, s.ParentEvent, s.InitialState, s.FinalState)
}

type txUntypedConstraint struct{ txConstraintCore }

func (c *txUntypedConstraint) ProcessPreCommit(s boltz.UntypedEntityChangeState) error {
	return c.pre(s.GetChangeType(), s.GetEntityId(), s.IsParentEvent())
}
func (c *txUntypedConstraint) ProcessPostCommit(s boltz.UntypedEntityChangeState) {
	c.post(s.GetChangeType(), s.GetEntityId(), s.IsParentEvent(), s.GetInitialState(), s.GetFinalState())
}

// txIxConstraint is a custom boltz.Constraint (registered with AddConstraint, i.e. appended to the store's
// Indexer.constraints after the built-in indexes).  It logs every call and vetoes the listed (stage, row
// id) pairs through the IndexingContext's error holder — the way the system-entity constraint does.
type txIxConstraint struct {
	r      *txRun
	store  byte
	idx    int
	vetoes []txIxVeto
}

func (c *txIxConstraint) Label() string { return fmt.Sprintf("verif index-stage constraint %c.%d", c.store, c.idx) }
func (c *txIxConstraint) Initialize(*bbolt.Tx, errorz.ErrorHolder) {}
func (c *txIxConstraint) CheckIntegrity(boltz.MutateContext, bool, func(error, bool)) error {
	return nil
}
func (c *txIxConstraint) stage(stage byte, ctx *boltz.IndexingContext) {
	id := string(ctx.RowId)
	ic := "0"
	if ctx.IsCreate {
		ic = "1"
	}
	c.r.mu.Lock()
	c.r.pre = append(c.r.pre, fmt.Sprintf("I.%c.%d.%c.%s.%s", c.store, c.idx, stage, txAbbr(id), ic))
	c.r.mu.Unlock()
	for _, v := range c.vetoes {
		if txLower(v.stage) == stage && v.id == id {
			if v.stage != stage {
				ctx.ErrHolder.SetError(boltz.NewNotFoundError(txIxVetoEntityType, string(c.store), strconv.Itoa(c.idx)))
			} else {
				ctx.ErrHolder.SetError(&txIxVetoErr{store: c.store, reg: c.idx})
			}
			return
		}
	}
}
func (c *txIxConstraint) ProcessBeforeUpdate(ctx *boltz.IndexingContext) { c.stage('b', ctx) }
func (c *txIxConstraint) ProcessAfterUpdate(ctx *boltz.IndexingContext)  { c.stage('a', ctx) }
func (c *txIxConstraint) ProcessBeforeDelete(ctx *boltz.IndexingContext) { c.stage('d', ctx) }

func txRegister[E boltz.Entity](r *txRun, store boltz.EntityStore[E], sc byte, regs []txReg) {
	for i, reg := range regs {
		label := fmt.Sprintf("L.%c.%d.", sc, i)
		if reg.listener {
			first := txEventType(reg.types[0])
			var rest []boltz.EntityEventType
			if r.cas.sharedSlice {
				// one backing array for the additional change types of every registration of the case, with spare capacity
				if r.shared == nil {
					r.shared = make([]boltz.EntityEventType, 0, 16)
				}
				rest = r.shared[:0]
			}
			for _, t := range reg.types[1:] {
				rest = append(rest, txEventType(t))
			}
			switch reg.style {
			case 't':
				store.AddEntityEventListener(&txTypedListener[E]{r: r, label: label}, first, rest...)
			case 'f':
				store.AddEntityEventListenerF(func(e E) { r.logCallback(label + txRenderEnt(e)) }, first, rest...)
			case 'u':
				store.AddListener(func(e boltz.Entity) { r.logCallback(label + txRenderEnt(e)) }, first, rest...)
			case 'i':
				store.AddEntityIdListener(func(id string) { r.logCallback(label + "id:" + txAbbr(id)) }, first, rest...)
			default:
				panic("bad listener style")
			}
		} else {
			core := txConstraintCore{r: r, store: sc, idx: i, reg: reg}
			if reg.typed() {
				store.AddEntityConstraint(&txTypedConstraint[E]{core})
			} else {
				store.AddUntypedEntityConstraint(&txUntypedConstraint{core})
			}
		}
	}
}

// ---------------------------------------------------------------- wiring

type txErrHolder struct{ err error }

func (h *txErrHolder) SetError(err error) bool {
	if h.err == nil && err != nil {
		h.err = err
	}
	return h.err != nil
}
func (h *txErrHolder) GetError() error { return h.err }
func (h *txErrHolder) HasError() bool  { return h.err != nil }

func txTempDir() string {
	base := ""
	if st, err := os.Stat("/dev/shm"); err == nil && st.IsDir() {
		base = "/dev/shm"
	}
	dir, err := os.MkdirTemp(base, "verif-*")
	if err != nil {
		dir, err = os.MkdirTemp("", "verif-*")
		if err != nil {
			panic(err)
		}
	}
	return dir
}

func txOpen(c *txCase, dir string) *txRun {
	r := &txRun{cas: c, ca: map[uint64][]string{}}
	db, err := boltz.Open(filepath.Join(dir, "t.db"), "u")
	if err != nil {
		panic(err)
	}
	r.db = db
	r.parent = boltz.NewBaseStore(boltz.StoreDefinition[*txThing]{
		EntityType:      "things",
		EntityStrategy:  &txPStrategy{r: r},
		BasePath:        []string{"u"},
		EntityNotFoundF: func(id string) error { return &txNotFound{id: id} },
	})
	r.parent.InitImpl(r.parent)
	r.parent.AddIdSymbol("id", ast.NodeTypeString)
	symName := r.parent.AddSymbol("name", ast.NodeTypeString)
	r.parent.AddUniqueIndex(symName)
	symRoles := r.parent.AddSetSymbol("roles", ast.NodeTypeString)
	r.parent.AddSetIndex(symRoles)
	symRef := r.parent.AddFkSymbol("ref", r.parent)
	symBack := r.parent.AddFkSetSymbol("backrefs", r.parent)
	r.parent.AddNullableFkIndex(symRef, symBack)

	r.groups = boltz.NewBaseStore(boltz.StoreDefinition[*txGroup]{
		EntityType:      "groups",
		EntityStrategy:  txQStrategy{},
		BasePath:        []string{"u"},
		EntityNotFoundF: func(id string) error { return &txNotFound{id: id} },
	})
	r.groups.InitImpl(r.groups)
	r.groups.AddIdSymbol("id", ast.NodeTypeString)
	symGroups := r.parent.AddFkSetSymbol("groups", r.groups)
	symMembers := r.groups.AddFkSetSymbol("members", r.parent)
	r.parent.AddLinkCollection(symGroups, symMembers)
	r.groups.AddLinkCollection(symMembers, symGroups)

	r.child = boltz.NewBaseStore(boltz.StoreDefinition[*txExt]{
		EntityStrategy: &txCStrategy{r: r},
		BasePath:       []string{"ext"},
		Parent:         r.parent,
		ParentMapper: func(e boltz.Entity) boltz.Entity {
			if x, ok := e.(*txExt); ok {
				return &x.txThing
			}
			return e
		},
		EntityNotFoundF: func(id string) error { return &txNotFound{id: id} },
	})
	r.child.InitImpl(r.child)
	r.parent.GrantSymbols(r.child)
	r.child.AddSymbol("rank", ast.NodeTypeString)
	r.parent.RegisterChildStoreStrategy(&boltz.ChildStoreUpdateHandler[*txThing, *txExt]{
		Store: r.child,
		Mapper: func(ctx boltz.MutateContext, p *txThing) (*txExt, bool) {
			r.mapperDepth++
			x, found, _ := r.child.FindById(ctx.Tx(), p.Id)
			r.mapperDepth--
			if !found {
				return nil, false
			}
			x.txThing = *p
			return x, true
		},
	})

	// the second child store, registered on the parent after the first
	r.child2 = boltz.NewBaseStore(boltz.StoreDefinition[*txExt2]{
		EntityStrategy: &txDStrategy{r: r},
		BasePath:       []string{"ext2"},
		Parent:         r.parent,
		ParentMapper: func(e boltz.Entity) boltz.Entity {
			if x, ok := e.(*txExt2); ok {
				return &x.txThing
			}
			return e
		},
		EntityNotFoundF: func(id string) error { return &txNotFound{id: id} },
	})
	r.child2.InitImpl(r.child2)
	r.parent.GrantSymbols(r.child2)
	r.child2.AddSymbol("grade", ast.NodeTypeString)
	r.parent.RegisterChildStoreStrategy(&boltz.ChildStoreUpdateHandler[*txThing, *txExt2]{
		Store: r.child2,
		Mapper: func(ctx boltz.MutateContext, p *txThing) (*txExt2, bool) {
			r.mapperDepth++
			x, found, _ := r.child2.FindById(ctx.Tx(), p.Id)
			r.mapperDepth--
			if !found {
				return nil, false
			}
			x.txThing = *p
			return x, true
		},
	})

	err = db.Update(nil, func(ctx boltz.MutateContext) error {
		h := &txErrHolder{}
		r.parent.InitializeIndexes(ctx.Tx(), h)
		r.child.InitializeIndexes(ctx.Tx(), h)
		r.child2.InitializeIndexes(ctx.Tx(), h)
		r.groups.InitializeIndexes(ctx.Tx(), h)
		if h.err != nil {
			return h.err
		}
		for _, q := range []string{"q1", "q2"} {
			if err := r.groups.Create(ctx, &txGroup{Id: q, Name: "g_" + q}); err != nil {
				return err
			}
		}
		return h.err
	})
	if err != nil {
		panic(err)
	}
	txRegister[*txThing](r, r.parent, 'P', c.regsP)
	txRegister[*txExt](r, r.child, 'C', c.regsC)
	for i, vs := range c.ixP {
		r.parent.AddConstraint(&txIxConstraint{r: r, store: 'P', idx: i, vetoes: vs})
	}
	for i, vs := range c.ixC {
		r.child.AddConstraint(&txIxConstraint{r: r, store: 'C', idx: i, vetoes: vs})
	}
	txRegister[*txExt2](r, r.child2, 'D', c.regsD)
	for i, vs := range c.ixD {
		r.child2.AddConstraint(&txIxConstraint{r: r, store: 'D', idx: i, vetoes: vs})
	}
	if c.sharedSlice && r.shared != nil {
		// the caller goes on using its slice: no adapter may observe that
		r.shared = r.shared[:cap(r.shared)]
		for i := range r.shared {
			r.shared[i] = []boltz.EntityEventType{boltz.EntityDeletedAsync, boltz.EntityCreated, boltz.EntityUpdatedAsync}[i%3]
		}
	}
	for i := 0; i < c.txl; i++ {
		i := i
		db.AddTxCompleteListener(func(ctx boltz.MutateContext) { r.logCallback(fmt.Sprintf("X.%d", i) + r.groupMemberSuffix(ctx)) })
	}
	return r
}

// ---------------------------------------------------------------- dump

type txDumper struct{ leaves []string }

func (d *txDumper) VisitBucket(string, []byte, *bbolt.Bucket) bool { return true }
func (d *txDumper) VisitKeyValue(path string, key, value []byte) bool {
	comps := strings.Split(strings.TrimPrefix(path, "/"), "/")
	for i, c := range comps {
		comps[i] = txAbbr(c)
	}
	d.leaves = append(d.leaves, strings.Join(comps, "/")+"/"+txAbbr(string(key))+"="+txAbbr(string(value)))
	return true
}

func (r *txRun) dump() string {
	d := &txDumper{}
	err := r.db.View(func(tx *bbolt.Tx) error {
		boltz.Traverse(tx, "", d)
		return nil
	})
	if err != nil {
		panic(err)
	}
	sort.Strings(d.leaves)
	return "[" + strings.Join(d.leaves, ",") + "]"
}

// ---------------------------------------------------------------- errors

func txErrKind(err error) string {
	var ve *txVetoErr
	var xe *txIxVetoErr
	var ce *txCallerErr
	var pe *txPreErr
	var nf *txNotFound
	var rnf *boltz.RecordNotFoundError
	switch {
	case err == nil:
		return "ok"
	case errors.As(err, &ve):
		return fmt.Sprintf("err:veto:%c.%d", ve.store, ve.reg)
	case errors.As(err, &xe):
		return fmt.Sprintf("err:ixveto:%c.%d", xe.store, xe.reg)
	case errors.As(err, &ce):
		return fmt.Sprintf("err:caller:%d", ce.tag)
	case errors.As(err, &pe):
		return fmt.Sprintf("err:pre:%d", pe.tag)
	case errors.As(err, &nf):
		return "err:notfound"
	case errors.As(err, &rnf):
		switch rnf.EntityType {
		case txVetoEntityType:
			return "err:veto:" + rnf.Field + "." + rnf.Id
		case txIxVetoEntityType:
			return "err:ixveto:" + rnf.Field + "." + rnf.Id
		}
		return "err:fk"
	case errors.Is(err, errTxLoad):
		return "err:load"
	case errors.Is(err, errTxPersist):
		return "err:persist"
	case boltz.IsUniqueIndexDuplicateError(err):
		return "err:dup"
	case boltz.IsReferenceExistsError(err):
		return "err:refexists"
	case errors.Is(err, bberrors.ErrKeyTooLarge), errors.Is(err, bberrors.ErrBucketNameRequired), errors.Is(err, bberrors.ErrKeyRequired):
		return "err:key"
	}
	msg := err.Error()
	switch {
	case strings.Contains(msg, "blank id"):
		return "err:blank"
	case strings.Contains(msg, "already exists with id"):
		return "err:exists"
	case strings.Contains(msg, "does not allow null or empty"):
		return "err:null"
	case strings.Contains(msg, "unsupported type"):
		return "err:unsupported"
	case strings.Contains(msg, "things not found with id"):
		return "err:notfound"
	case strings.Contains(msg, "line:") && strings.Contains(msg, "column:"):
		return "err:parse"
	}
	if len(msg) > 60 {
		msg = msg[:60]
	}
	return "err:other:" + toWire(msg)
}

// ---------------------------------------------------------------- running a transaction

func (r *txRun) runOp(ctx boltz.MutateContext, s txStep) error {
	r.fault = s.fault
	r.fillP, r.fillC, r.persP, r.persC = 0, 0, 0, 0
	defer func() { r.fault = "-" }()
	thing := func() txThing {
		return txThing{Id: s.id, Name: s.f.name, Roles: append([]string(nil), s.f.roles...), Ref: s.f.ref, Tags: txTagsValue(s.f.tags),
			Links: append([]string(nil), s.f.links...)}
	}
	switch s.op {
	case "cr":
		if s.store == 'P' {
			t := thing()
			return r.parent.Create(ctx, &t)
		}
		if s.store == 'D' {
			return r.child2.Create(ctx, &txExt2{txThing: thing(), Grade: s.rank})
		}
		return r.child.Create(ctx, &txExt{txThing: thing(), Rank: s.rank})
	case "up":
		if s.store == 'P' {
			t := thing()
			return r.parent.Update(ctx, &t, nil)
		}
		if s.store == 'D' {
			return r.child2.Update(ctx, &txExt2{txThing: thing(), Grade: s.rank}, nil)
		}
		return r.child.Update(ctx, &txExt{txThing: thing(), Rank: s.rank}, nil)
	case "de":
		if s.store == 'P' {
			return r.parent.DeleteById(ctx, s.id)
		}
		if s.store == 'D' {
			return r.child2.DeleteById(ctx, s.id)
		}
		return r.child.DeleteById(ctx, s.id)
	case "dw":
		q := "true"
		switch s.query {
		case "bad":
			q = "((("
		case "name":
			q = `name = "` + s.qname + `"`
		}
		if s.store == 'P' {
			return r.parent.DeleteWhere(ctx, q)
		}
		if s.store == 'D' {
			return r.child2.DeleteWhere(ctx, q)
		}
		return r.child.DeleteWhere(ctx, q)
	}
	panic("bad op")
}

// runSteps executes steps[i:] until the end or the matching "ne"; returns the index after the last
// executed step.
func (r *txRun) runSteps(ctx boltz.MutateContext, steps []txStep, i int) (int, error) {
	for i < len(steps) {
		s := steps[i]
		i++
		switch s.kind {
		case "op":
			if err := r.runOp(ctx, s); err != nil && !s.swallow {
				return i, err
			}
		case "fail":
			return i, &txCallerErr{tag: s.tag}
		case "lk":
			// a link operation of the transaction function itself; its error is handed on
			coll := r.parent.GetLinkCollection("groups")
			var err error
			switch s.op {
			case "a":
				err = coll.AddLinks(ctx.Tx(), s.id, s.f.links...)
			case "r":
				err = coll.RemoveLinks(ctx.Tx(), s.id, s.f.links...)
			default:
				err = coll.SetLinks(ctx.Tx(), s.id, append([]string(nil), s.f.links...))
			}
			if err != nil {
				return i, err
			}
		case "fail1":
			// fails the first time the transaction function executes it; the flag is the run counter of the
			// function, kept outside the database
			if r.curRun == 1 {
				return i, &txCallerErr{tag: s.tag}
			}
		case "ac":
			tag := s.tag
			ctx.AddCommitAction(func() {
				g := txGoid()
				r.mu.Lock()
				r.ca[g] = append(r.ca[g], strconv.Itoa(tag))
				r.mu.Unlock()
			})
		case "ap":
			tag, fails := s.tag, s.fails
			ctx.AddPreCommitAction(func(boltz.MutateContext) error {
				r.mu.Lock()
				r.preRan = append(r.preRan, strconv.Itoa(tag))
				if fails && r.grp != nil {
					r.grp.markFailed()
				}
				r.mu.Unlock()
				if fails {
					return &txPreErr{tag: tag}
				}
				return nil
			})
		case "sys":
			// systemMutateContext hands every call to the wrapped context
			ctx = ctx.GetSystemContext()
		case "nb", "nB":
			var err error
			next := i
			// the context is bound to the running transaction: Update / Batch just run the function
			nested := r.db.Update
			if s.kind == "nB" {
				nested = r.db.Batch
			}
			uerr := nested(ctx, func(inner boltz.MutateContext) error {
				next, err = r.runSteps(inner, steps, i)
				return err
			})
			i = next
			if uerr != nil {
				return i, uerr
			}
		case "ne":
			return i, nil
		}
	}
	return i, nil
}

func txWaitQuiescent(baseline int) bool {
	deadline := time.Now().Add(10 * time.Second)
	for n := 0; runtime.NumGoroutine() > baseline; n++ {
		if time.Now().After(deadline) {
			return false
		}
		if n < 200 {
			runtime.Gosched()
		} else {
			time.Sleep(50 * time.Microsecond)
		}
	}
	return true
}

func txList(l []string) string { return "[" + strings.Join(l, ",") + "]" }

func (r *txRun) runTx(tx txTx, ctx boltz.MutateContext, baseline int) string {
	before := r.dump()
	r.mu.Lock()
	r.pre, r.preRan, r.sync, r.async = nil, nil, nil, nil
	r.ca = map[uint64][]string{}
	r.mu.Unlock()
	runs := 0
	body := func(c boltz.MutateContext) error {
		runs++
		r.mu.Lock()
		r.curRun = runs
		r.bodyGoid = txGoid()
		r.mu.Unlock()
		_, err := r.runSteps(c, tx.steps, 0)
		return err
	}
	res := ""
	func() {
		defer func() {
			if p := recover(); p != nil {
				res = fmt.Sprintf("panic:%s", toWire(fmt.Sprint(p)))
			}
		}()
		var err error
		switch tx.mode {
		case 'b':
			err = r.db.Batch(ctx, body)
		case 'r':
			// a context the caller builds around a transaction it got elsewhere: NewTxMutateContext over the
			// transaction of an enclosing Db.Update (the exported API hands out write transactions only that way)
			err = r.db.Update(nil, func(outer boltz.MutateContext) error {
				return body(boltz.NewTxMutateContext(context.Background(), outer.Tx()))
			})
		default:
			err = r.db.Update(ctx, body)
		}
		res = txErrKind(err)
	}()
	quiet := txWaitQuiescent(baseline)
	after := r.dump()
	r.mu.Lock()
	defer r.mu.Unlock()
	same := "0"
	dump := after
	if before == after {
		same, dump = "1", "-"
	}
	sort.Strings(r.async)
	var cas []string
	for g, tags := range r.ca {
		// A: on a goroutine of their own (mutateContext.handleCommit); S: on the committing goroutine
		prefix := "A."
		if g == r.bodyGoid {
			prefix = "S."
		}
		cas = append(cas, prefix+strings.Join(tags, "."))
	}
	sort.Strings(cas)
	out := fmt.Sprintf("r=%s same=%s runs=%d pre=%s pa=%s sync=%s async=%s ca=%s dump=%s", res, same, runs,
		txList(r.pre), txList(r.preRan), txList(r.sync), txList(r.async), txList(cas), dump)
	if !quiet {
		out += " goroutines-still-running"
	}
	return out
}

func txExec(line string) string {
	c := txParseCase(line)
	dir := txTempDir()
	defer os.RemoveAll(dir)
	// every goroutine a transaction starts (commit actions, asynchronous listeners, bbolt's batch
	// timer) must have finished before its observations are read: the goroutine count is compared
	// with its level before the database was opened
	baseline := runtime.NumGoroutine()
	r := txOpen(c, dir)
	defer func() {
		if !r.hung {
			r.db.Close()
		}
	}()
	txWaitQuiescent(baseline)
	var outs []string
	var ctx boltz.MutateContext
	for _, tx := range c.txs {
		if !tx.reuse || ctx == nil {
			ctx = boltz.NewMutateContext(context.Background())
		}
		if tx.mode == 'g' {
			var out string
			out, ctx = r.runGroup(tx, ctx, baseline)
			outs = append(outs, out)
			if r.hung {
				break
			}
			continue
		}
		outs = append(outs, r.runTx(tx, ctx, baseline))
		if tx.mode == 'r' {
			// that transaction worked with a context of its own, which ends with it
			ctx = nil
		}
	}
	return strings.Join(outs, " | ")
}
