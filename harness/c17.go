package main

import (
	"bufio"
	"bytes"
	"encoding/hex"
	"errors"
	"fmt"
	"io"
	"os"
	"path/filepath"
	"runtime"
	"sort"
	"strconv"
	"strings"
	"sync"
	"sync/atomic"
	"time"

	"github.com/openziti/storage/boltz"
	"github.com/sirupsen/logrus"
	"go.etcd.io/bbolt"
)

// C17 cases
//
//	seq <op> <op> ...        one sequential history against a fresh database; one observation per op
//	    tx:<w>/<w>..:c|r     Db.Update with writes (p<k>.<v> put, d<k> delete), commit or return an error
//	                         (values: 0 "", 1 "v1", 2 int64 7, 3 bool true, 4 a 300 KB blob, 5 a 700 KB blob)
//	    snap:<k>             Snapshot(path_k)                  -> snapped:<id>:<dump at that time>
//	    snapt:<k>            View{ SnapshotInTx(tx, path_k) }  -> same
//	    snapu:<k>:<w>/..     Update{ writes; SnapshotInTx }    -> same (copy = last committed state)
//	    snapf                Snapshot into a missing directory -> err
//	    stream:<k>           StreamToWriter(file_k)            -> streamed:<dump>
//	    rest:<k> restr:<k>   RestoreSnapshot(bytes) / RestoreFromReader(*os.File) -> restored:<fired>:<dump after>
//	                         (<fired> counts the listener invocations so far whose own View saw that dump)
//	    restr:<k>:<pre>:<chunk>:<d|s>   RestoreFromReader(reader with a behaviour): the first reads return at most
//	                         the sizes in <pre> (a+b+.., 0 = a read returning (0, nil); `-` none), later reads at most
//	                         <chunk> bytes (`w` = as much as the caller's buffer takes); the last bytes come together
//	                         with io.EOF (d, like iotest.DataErrReader / flate) or EOF on its own call (s)
//	    gsid                 GetSnapshotId                     -> sid:<id|nil>
//	    gtl:<d|i|f>:<1|0>    GetTimelineId(mode, idF ok/failing) -> tl:<id|->:<idF calls> / tlerr:<calls>
//	    listen               AddRestoreListener                -> ok
//	    dump                 full canonical dump               -> dump:<dump>
//	    restc:<k>:<pre>:<chunk>:<d|s>:<cbs>   RestoreFromReader(reader of that behaviour which CALLS BACK into the
//	                         Db from inside Read): cbs = `-` or `;`-joined <pos>=<op, ~ for :>; the reader keeps the
//	                         calls in a queue and issues the head of the queue when it is due: f = on the first Read,
//	                         m<permille> = on the first Read after that share of the stream was delivered, e = on the
//	                         Read that reports io.EOF (which also flushes whatever is still queued)
//	                         -> restoredc:<fired>:<dump after>:<what the calls returned, |-joined, ~ for :>
//	    snaptc:<k>:<pre>:<post>  snapuc:<k>:<ws>:<pre>:<post>  streamc:<k>:<pre>:<post>
//	                         View{..SnapshotInTx..} / Update{writes..SnapshotInTx..} / StreamToWriter(w) with reading
//	                         calls (g GetSnapshotId, d dump; `-` none) issued inside the transaction before / after the
//	                         copy (stream: from inside w.Write, 1st and 3rd call) -> intx:<pre obs>:<main obs>:<post obs>
//	    (see c17_staged.go)
//	conc <kinds> <iters> <seed>   goroutines (r View-dump, w Update, s Snapshot, t StreamToWriter,
//	                         g GetSnapshotId, l GetTimelineId, R RestoreSnapshot) run concurrently under a
//	                         watchdog -> ok | mixed:.. | txerr:.. | hang:<hex goroutine dump>
//	stage <snapintx|rootbucket|nested> View{ start a restore; wait; call the re-entrant method } -> ok | hang:..
//
// dump = <content>;<meta>[;X<unexpected entries>]   content: k=v,k=v or -   meta: - or s<id|->,r<0|1|->,t<n|->
// snapshot ids are printed as the ordinal of the Snapshot call that returned them, timeline ids as the
// ordinal of the idF call that produced them.
func init() {
	register("c17", &propHarness{gen: c17Gen, exec: c17Exec})
	logrus.SetLevel(logrus.PanicLevel)
	logrus.SetOutput(io.Discard)
}

const c17Keys = 6

func c17Bucket(k int) string { return fmt.Sprintf("b%d", k/3) }
func c17Key(k int) string    { return fmt.Sprintf("k%d", k%3) }

func c17Put(tx *bbolt.Tx, k, v int) error {
	b := boltz.GetOrCreatePath(tx, "data", c17Bucket(k))
	switch v {
	case 0:
		b.SetString(c17Key(k), "", nil)
	case 1:
		b.SetString(c17Key(k), "v1", nil)
	case 2:
		b.SetInt64(c17Key(k), 7, nil)
	case 3:
		b.SetBool(c17Key(k), true, nil)
	case 4:
		b.SetString(c17Key(k), c17Blob(300*1024), nil)
	default:
		b.SetString(c17Key(k), c17Blob(700*1024), nil)
	}
	return b.GetError()
}

var c17Blobs = map[int]string{}

// deterministic incompressible-looking filler, so that snapshot files straddle 1 MB
func c17Blob(n int) string {
	if s, ok := c17Blobs[n]; ok {
		return s
	}
	r := newRng(uint64(n))
	b := make([]byte, n)
	for i := range b {
		b[i] = byte(r.next())
	}
	c17Blobs[n] = string(b)
	return c17Blobs[n]
}

// c17Reader is an io.Reader (and nothing else: no WriterTo) with a chosen legal behaviour
type c17Reader struct {
	data    []byte
	pre     []int
	chunk   int // 0 = unlimited
	eofData bool
	done    bool
}

func (r *c17Reader) Read(p []byte) (int, error) {
	if r.done || len(r.data) == 0 { // nothing (left) to deliver: EOF on a call of its own
		r.done = true
		return 0, io.EOF
	}
	if len(p) == 0 {
		return 0, nil
	}
	limit := len(p)
	if len(r.pre) > 0 {
		if r.pre[0] < limit {
			limit = r.pre[0]
		}
		r.pre = r.pre[1:]
	} else if r.chunk > 0 && r.chunk < limit {
		limit = r.chunk
	}
	n := copy(p[:limit], r.data)
	r.data = r.data[n:]
	if len(r.data) == 0 && r.eofData {
		r.done = true
		return n, io.EOF // the last bytes together with io.EOF, as the io.Reader contract allows
	}
	return n, nil
}

func c17Del(tx *bbolt.Tx, k int) error {
	b := boltz.GetOrCreatePath(tx, "data", c17Bucket(k))
	b.DeleteValue([]byte(c17Key(k)))
	return b.GetError()
}

// c17ValCodes maps the raw stored bytes of the four values back to their code
var c17ValCodes = func() map[string]int {
	dir, _ := os.MkdirTemp("", "verif-*")
	defer os.RemoveAll(dir)
	db, err := bbolt.Open(filepath.Join(dir, "v.db"), 0600, nil)
	if err != nil {
		panic(err)
	}
	defer db.Close()
	res := map[string]int{}
	_ = db.Update(func(tx *bbolt.Tx) error {
		for v := 0; v < 6; v++ {
			if err := c17Put(tx, 0, v); err != nil {
				panic(err)
			}
			raw := tx.Bucket([]byte("data")).Bucket([]byte("b0")).Get([]byte("k0"))
			res[string(raw)] = v
		}
		return nil
	})
	return res
}()

type c17Visitor struct {
	content []string
	meta    map[string]string
	present bool
	extra   []string
	seen    map[string]bool
	ids     map[string]int
}

func (v *c17Visitor) VisitBucket(path string, key []byte, _ *bbolt.Bucket) bool {
	p := path + "/" + string(key)
	v.seen[p] = true
	switch p {
	case "/data", "/data/b0", "/data/b1":
	case "/meta":
		v.present = true
	default:
		v.extra = append(v.extra, "bucket"+hex.EncodeToString([]byte(p)))
	}
	return true
}

func (v *c17Visitor) VisitKeyValue(path string, key, value []byte) bool {
	switch path {
	case "/data/b0", "/data/b1":
		bi := int(path[len(path)-1] - '0')
		ks := string(key)
		if len(ks) == 2 && ks[0] == 'k' && ks[1] >= '0' && ks[1] <= '2' {
			code, ok := c17ValCodes[string(value)]
			if ok {
				v.content = append(v.content, fmt.Sprintf("%d=%d", bi*3+int(ks[1]-'0'), code))
				return true
			}
		}
	case "/meta":
		ft, val := boltz.GetTypeAndValue(value)
		switch string(key) {
		case boltz.SnapshotId:
			if s := boltz.FieldToString(ft, val); s != nil {
				if n, ok := v.ids[*s]; ok {
					v.meta["s"] = strconv.Itoa(n)
				} else {
					v.meta["s"] = "?"
				}
				return true
			}
		case boltz.ResetTimeline:
			if b := boltz.FieldToBool(ft, val); b != nil {
				if *b {
					v.meta["r"] = "1"
				} else {
					v.meta["r"] = "0"
				}
				return true
			}
		case boltz.TimelineId:
			if s := boltz.FieldToString(ft, val); s != nil {
				v.meta["t"] = c17TlCode(*s)
				return true
			}
		}
	}
	v.extra = append(v.extra, hex.EncodeToString([]byte(path+"/"+string(key)))+"."+hex.EncodeToString(value))
	return true
}

func c17TlCode(s string) string {
	if s == "" {
		return "-"
	}
	if strings.HasPrefix(s, "T") {
		if n, err := strconv.Atoi(s[1:]); err == nil {
			return strconv.Itoa(n)
		}
	}
	return "?"
}

func c17DumpTx(tx *bbolt.Tx, ids map[string]int) string {
	v := &c17Visitor{meta: map[string]string{}, seen: map[string]bool{}, ids: ids}
	boltz.Traverse(tx, "", v)
	for _, must := range []string{"/data", "/data/b0", "/data/b1"} {
		if !v.seen[must] {
			v.extra = append(v.extra, "missing"+hex.EncodeToString([]byte(must)))
		}
	}
	sort.Strings(v.content)
	c := strings.Join(v.content, ",")
	if c == "" {
		c = "-"
	}
	m := "-"
	if v.present {
		get := func(k string) string {
			if x, ok := v.meta[k]; ok {
				return x
			}
			return "-"
		}
		m = "s" + get("s") + ",r" + get("r") + ",t" + get("t")
	}
	res := c + ";" + m
	if len(v.extra) > 0 {
		sort.Strings(v.extra)
		res += ";X" + strings.Join(v.extra, ",")
	}
	return res
}

type c17Env struct {
	dir       string
	db        *boltz.DbImpl
	ids       map[string]int
	nextId    int
	idfCalls  int
	fired     atomic.Int64 // listener invocations (all of them)
	listeners int
	// staged / re-entrant observations (c17_staged.go)
	idmu     sync.RWMutex // guards ids: listeners dump on their own goroutine
	mu       sync.Mutex
	seen     []string // what each listener invocation saw (its own View dump), since the last restore settled
	expected int64    // listener invocations there must have been by now: sum over restores of the listeners registered then
	good     int      // invocations that saw the database their restore swapped in
	dead     bool     // a restore hung: the remaining operations are skipped, the directory is left behind
	// slot -> the path the last snapshot call for that slot RETURNED (c17_paths.go); restores read that file
	returned map[string]string
}

func c17Open() (*c17Env, error) {
	dir, err := os.MkdirTemp("", "verif-*")
	if err != nil {
		return nil, err
	}
	db, err := boltz.Open(filepath.Join(dir, "live.db"), "root")
	if err != nil {
		os.RemoveAll(dir)
		return nil, err
	}
	e := &c17Env{dir: dir, db: db, ids: map[string]int{}, nextId: 1}
	err = db.Update(nil, func(ctx boltz.MutateContext) error {
		boltz.GetOrCreatePath(ctx.Tx(), "data", "b0")
		b := boltz.GetOrCreatePath(ctx.Tx(), "data", "b1")
		return b.GetError()
	})
	if err != nil {
		e.close()
		return nil, err
	}
	return e, nil
}

func (e *c17Env) close() {
	if e.dead {
		return
	}
	_ = e.db.Close()
	_ = os.RemoveAll(e.dir)
}

func (e *c17Env) dump() string {
	res := "viewerr"
	_ = e.db.View(func(tx *bbolt.Tx) error {
		e.idmu.RLock()
		res = c17DumpTx(tx, e.ids)
		e.idmu.RUnlock()
		return nil
	})
	return res
}

// the path ARGUMENT of the plain snapshot operations of slot k; the file a restore of slot k reads is slotFile(k)
func (e *c17Env) slot(k string) string { return filepath.Join(e.dir, "slot"+k) }

func c17Writes(tx *bbolt.Tx, ws string) error {
	if ws == "" {
		return nil
	}
	for _, w := range strings.Split(ws, "/") {
		if w == "" {
			continue
		}
		switch w[0] {
		case 'p':
			kv := strings.Split(w[1:], ".")
			k, _ := strconv.Atoi(kv[0])
			v, _ := strconv.Atoi(kv[1])
			if err := c17Put(tx, k, v); err != nil {
				return err
			}
		case 'd':
			k, _ := strconv.Atoi(w[1:])
			if err := c17Del(tx, k); err != nil {
				return err
			}
		}
	}
	return nil
}

func (e *c17Env) waitListeners() int64 {
	// listeners are started with `go listener()`: wait until the counter has been stable for 4 ms
	last := e.fired.Load()
	stable := 0
	for i := 0; i < 2000 && stable < 4; i++ {
		time.Sleep(time.Millisecond)
		cur := e.fired.Load()
		if cur == last {
			stable++
		} else {
			stable = 0
			last = cur
		}
	}
	return last
}

func (e *c17Env) snapped(id string, err error, at string) string {
	if err != nil {
		return "err"
	}
	n := e.nextId
	e.nextId++
	e.idmu.Lock()
	e.ids[id] = n
	e.idmu.Unlock()
	return fmt.Sprintf("snapped:%d:%s", n, at)
}

func (e *c17Env) op(tok string) string {
	if e.dead {
		return "skipped"
	}
	f := strings.Split(tok, ":")
	switch f[0] {
	case "tx":
		commit := f[2] == "c"
		err := e.db.Update(nil, func(ctx boltz.MutateContext) error {
			if err := c17Writes(ctx.Tx(), f[1]); err != nil {
				return err
			}
			if !commit {
				return errors.New("rollback requested")
			}
			return nil
		})
		if err != nil {
			return "err"
		}
		return "ok"
	case "snap":
		at := e.dump()
		actual, id, err := e.db.Snapshot(e.slot(f[1]))
		e.setSlot(f[1], actual, err)
		return e.snapped(id, err, at)
	case "snapt":
		at := e.dump()
		var id, actual string
		err := e.db.View(func(tx *bbolt.Tx) error {
			var err error
			actual, id, err = e.db.SnapshotInTx(tx, e.slot(f[1]))
			return err
		})
		e.setSlot(f[1], actual, err)
		return e.snapped(id, err, at)
	case "snapu":
		at := e.dump()
		var id, actual string
		err := e.db.Update(nil, func(ctx boltz.MutateContext) error {
			if err := c17Writes(ctx.Tx(), f[2]); err != nil {
				return err
			}
			var err error
			actual, id, err = e.db.SnapshotInTx(ctx.Tx(), e.slot(f[1]))
			return err
		})
		e.setSlot(f[1], actual, err)
		return e.snapped(id, err, at)
	case "snapp", "snaptp", "snapup":
		return e.snapTemplate(f)
	case "snapf":
		_, _, err := e.db.Snapshot(filepath.Join(e.dir, "no-such-dir", "x"))
		if err != nil {
			return "err"
		}
		return "ok"
	case "stream":
		at := e.dump()
		file, err := os.Create(e.slot(f[1]))
		if err != nil {
			return "err"
		}
		err = e.db.StreamToWriter(file)
		_ = file.Close()
		if err != nil {
			return "err"
		}
		e.setSlot(f[1], e.slot(f[1]), nil)
		return "streamed:" + at
	case "rest", "restr":
		if _, err := os.Stat(e.slotFile(f[1])); err != nil {
			return "nofile"
		}
		if f[0] == "rest" {
			data, err := os.ReadFile(e.slotFile(f[1]))
			if err != nil {
				return "nofile"
			}
			e.db.RestoreSnapshot(data)
		} else if len(f) == 5 {
			data, err := os.ReadFile(e.slotFile(f[1]))
			if err != nil {
				return "nofile"
			}
			rd := &c17Reader{data: data, eofData: f[4] == "d"}
			if f[2] != "-" {
				for _, p := range strings.Split(f[2], "+") {
					n, _ := strconv.Atoi(p)
					rd.pre = append(rd.pre, n)
				}
			}
			if f[3] != "w" {
				rd.chunk, _ = strconv.Atoi(f[3])
			}
			e.db.RestoreFromReader(rd)
		} else {
			file, err := os.Open(e.slotFile(f[1]))
			if err != nil {
				return "nofile"
			}
			e.db.RestoreFromReader(file)
			_ = file.Close()
		}
		fired, post := e.settle()
		return fmt.Sprintf("restored:%d:%s", fired, post)
	case "restc":
		return e.restoreCb(f)
	case "snaptc", "snapuc", "streamc":
		return e.inTx(f)
	case "gsid":
		id, err := e.db.GetSnapshotId()
		if err != nil {
			return "err"
		}
		if id == nil {
			return "sid:nil"
		}
		e.idmu.RLock()
		n, ok := e.ids[*id]
		e.idmu.RUnlock()
		if ok {
			return fmt.Sprintf("sid:%d", n)
		}
		return "sid:?"
	case "gtl":
		mode := map[string]boltz.TimelineMode{"d": boltz.TimelineModeDefault, "i": boltz.TimelineModeInitIfEmpty, "f": boltz.TimelineModeForceReset}[f[1]]
		calls := 0
		id, err := e.db.GetTimelineId(mode, func() (string, error) {
			calls++
			e.idfCalls++
			if f[2] == "1" {
				return fmt.Sprintf("T%d", e.idfCalls), nil
			}
			return "", errors.New("idF failed")
		})
		if err != nil {
			return fmt.Sprintf("tlerr:%d", calls)
		}
		return fmt.Sprintf("tl:%s:%d", c17TlCode(id), calls)
	case "listen":
		e.listeners++
		e.db.AddRestoreListener(e.listener)
		return "ok"
	case "dump":
		return "dump:" + e.dump()
	}
	return "bad-op"
}

func c17Exec(line string) string {
	f := fields(line)
	switch f[0] {
	case "seq":
		e, err := c17Open()
		if err != nil {
			return "setup-failed"
		}
		defer e.close()
		out := make([]string, 0, len(f)-1)
		for _, tok := range f[1:] {
			out = append(out, e.op(tok))
		}
		return strings.Join(out, " ")
	case "conc":
		iters, _ := strconv.Atoi(f[2])
		seed, _ := strconv.ParseUint(f[3], 10, 64)
		return c17Conc(f[1], iters, seed)
	case "stage":
		return c17Stage(f[1])
	case "tlconc":
		if len(f) != 4 {
			return "bad-case"
		}
		k, _ := strconv.Atoi(f[1])
		return c17TlConc(k, f[2], f[3])
	}
	return "bad-case"
}

// ------------------------------------------------------------------ concurrent variant

// goroutines already reported as stuck by an earlier case of this process (they never go away)
var c17Reported = map[string]bool{}

func c17LockStacks() string {
	buf := make([]byte, 1<<20)
	n := runtime.Stack(buf, true)
	var keep []string
	for _, g := range strings.Split(string(buf[:n]), "\n\n") {
		if strings.Contains(g, "RWMutex") || strings.Contains(g, "reloadLock") {
			if i := strings.Index(g, " ["); i > 0 {
				if c17Reported[g[:i]] {
					continue
				}
				c17Reported[g[:i]] = true
			}
			// drop addresses / argument words so the text is stable enough to read
			lines := strings.Split(g, "\n")
			var ls []string
			for _, l := range lines {
				l = strings.TrimSpace(l)
				if strings.HasPrefix(l, "/") { // file:line +0x..
					if i := strings.Index(l, " +0x"); i > 0 {
						l = l[:i]
					}
					if j := strings.LastIndex(l, "/"); j >= 0 {
						l = l[j+1:]
					}
					ls = append(ls, "  "+l)
					continue
				}
				if i := strings.Index(l, "("); i > 0 && !strings.HasPrefix(l, "goroutine") {
					l = l[:strings.LastIndex(l, "(")]
				}
				ls = append(ls, l)
			}
			keep = append(keep, strings.Join(ls, "\n"))
		}
	}
	s := strings.Join(keep, "\n\n")
	if len(s) > 6000 {
		s = s[:6000]
	}
	return hex.EncodeToString([]byte(s))
}

// every writer transaction sets ALL keys to one value, the restored snapshot has all keys = 1:
// a transaction that sees two different values (or a missing key) sees a mixture
func c17ReadAll(tx *bbolt.Tx) (string, bool) {
	first := ""
	n := 0
	okAll := true
	for k := 0; k < c17Keys; k++ {
		b := boltz.Path(tx, "data", c17Bucket(k))
		if b == nil {
			return "bucket-missing", false
		}
		raw := b.Get([]byte(c17Key(k)))
		s := hex.EncodeToString(raw)
		if n == 0 {
			first = s
		} else if s != first {
			okAll = false
		}
		n++
	}
	return first, okAll
}

func c17Conc(kinds string, iters int, seed uint64) string {
	e, err := c17Open()
	if err != nil {
		return "setup-failed"
	}
	setAll := func(v int) func(ctx boltz.MutateContext) error {
		return func(ctx boltz.MutateContext) error {
			for k := 0; k < c17Keys; k++ {
				if err := c17Put(ctx.Tx(), k, v); err != nil {
					return err
				}
			}
			return nil
		}
	}
	if err := e.db.Update(nil, setAll(1)); err != nil {
		e.close()
		return "setup-failed"
	}
	snapPath, _, err := e.db.Snapshot(e.slot("A"))
	if err != nil {
		e.close()
		return "setup-failed"
	}
	snapBytes, _ := os.ReadFile(snapPath)
	// a second snapshot of the same content with another id: the restorers alternate, so that a stale snapshot id is visible
	snapPathB, _, err := e.db.Snapshot(e.slot("B"))
	if err != nil {
		e.close()
		return "setup-failed"
	}
	snapBytesB, _ := os.ReadFile(snapPathB)
	e.db.AddRestoreListener(func() { e.fired.Add(1) })

	var mu sync.Mutex
	problem := ""
	report := func(s string) {
		mu.Lock()
		if problem == "" {
			problem = s
		}
		mu.Unlock()
	}
	var wg sync.WaitGroup
	r := newRng(seed)
	restores := 0
	for gi, kind := range kinds {
		wg.Add(1)
		gi, kind := gi, kind
		val := 2 + r.intn(2)
		if kind == 'R' {
			restores += iters
		}
		go func() {
			defer wg.Done()
			defer func() {
				if rec := recover(); rec != nil {
					report("panic:" + hex.EncodeToString([]byte(fmt.Sprint(rec))))
				}
			}()
			for i := 0; i < iters; i++ {
				switch kind {
				case 'r':
					err := e.db.View(func(tx *bbolt.Tx) error {
						v1, ok1 := c17ReadAll(tx)
						runtime.Gosched()
						v2, ok2 := c17ReadAll(tx)
						if !ok1 || !ok2 || v1 != v2 {
							report("mixed:" + v1 + "-" + v2)
						}
						return nil
					})
					if err != nil {
						report("txerr:view:" + hex.EncodeToString([]byte(err.Error())))
					}
				case 'w':
					if err := e.db.Update(nil, setAll(val)); err != nil {
						report("txerr:update:" + hex.EncodeToString([]byte(err.Error())))
					}
				case 'b':
					if err := e.db.Batch(nil, setAll(val)); err != nil {
						report("txerr:batch:" + hex.EncodeToString([]byte(err.Error())))
					}
				case 's':
					if _, _, err := e.db.Snapshot(e.slot(fmt.Sprintf("s%d", gi))); err != nil {
						report("txerr:snapshot:" + hex.EncodeToString([]byte(err.Error())))
					}
				case 't':
					var buf bytes.Buffer
					if err := e.db.StreamToWriter(&buf); err != nil {
						report("txerr:stream:" + hex.EncodeToString([]byte(err.Error())))
					}
				case 'g':
					if _, err := e.db.GetSnapshotId(); err != nil {
						report("txerr:gsid:" + hex.EncodeToString([]byte(err.Error())))
					}
				case 'l':
					if _, err := e.db.GetTimelineId(boltz.TimelineModeDefault, func() (string, error) { return "Tc", nil }); err != nil {
						report("txerr:gtl:" + hex.EncodeToString([]byte(err.Error())))
					}
				case 'R':
					if (i+gi)%2 == 0 {
						e.db.RestoreSnapshot(snapBytes)
					} else {
						e.db.RestoreSnapshot(snapBytesB)
					}
				}
			}
		}()
	}
	done := make(chan struct{})
	go func() { wg.Wait(); close(done) }()
	select {
	case <-done:
	case <-time.After(c17Watchdog):
		// leave the stuck goroutines and the directory behind the process' lifetime
		stacks := c17LockStacks()
		_ = os.RemoveAll(e.dir)
		return "hang:" + stacks
	}
	defer e.close()
	if problem != "" {
		return problem
	}
	// after the dust settles: one listener call per restore, and the final state is consistent
	// under load a `go listener()` goroutine may not have been scheduled yet when the last restore returns: give
	// the expected number up to 2 s to arrive, then wait for the counter to be stable (a surplus still shows)
	for i := 0; i < 2000 && e.fired.Load() < int64(restores); i++ {
		time.Sleep(time.Millisecond)
	}
	fired := e.waitListeners()
	if int(fired) != restores {
		return fmt.Sprintf("listeners:%d/%d", fired, restores)
	}
	res := "ok"
	stored := ""
	_ = e.db.View(func(tx *bbolt.Tx) error {
		if v, ok := c17ReadAll(tx); !ok {
			res = "mixed:final:" + v
		}
		if b := boltz.Path(tx, boltz.Metadata); b != nil {
			if s := b.GetString(boltz.SnapshotId); s != nil {
				stored = *s
			}
		}
		return nil
	})
	// the reported snapshot id is the one the file carries
	if id, err := e.db.GetSnapshotId(); res == "ok" && restores > 0 && (err != nil || id == nil || *id != stored) {
		res = "sid:stale"
	}
	return res
}

var c17Watchdog = 2500 * time.Millisecond

// c17Stage: a transaction is open (read hold), a restore arrives (announces the write lock), then the
// transaction calls a method that takes the read lock again.
func c17Stage(which string) string {
	if strings.HasPrefix(which, "api:") {
		return c17StageApi(which[4:])
	}
	if which == "migrate" {
		return c17StageMigrate()
	}
	e, err := c17Open()
	if err != nil {
		return "setup-failed"
	}
	snapPath, _, err := e.db.Snapshot(e.slot("A"))
	if err != nil {
		e.close()
		return "setup-failed"
	}
	snapBytes, _ := os.ReadFile(snapPath)
	done := make(chan string, 2)
	go func() {
		res := "ok"
		err := e.db.View(func(tx *bbolt.Tx) error {
			go func() {
				e.db.RestoreSnapshot(snapBytes)
				done <- "ok"
			}()
			time.Sleep(150 * time.Millisecond) // let the restore reach reloadLock.Lock()
			switch which {
			case "snapintx":
				if _, _, err := e.db.SnapshotInTx(tx, e.slot("B")); err != nil {
					res = "err"
				}
			case "rootbucket":
				_, _ = e.db.RootBucket(tx)
			case "plain":
				_, _ = c17ReadAll(tx)
			}
			return nil
		})
		if err != nil {
			res = "txerr"
		}
		done <- res
	}()
	res := "ok"
	for i := 0; i < 2; i++ {
		select {
		case r := <-done:
			if r != "ok" {
				res = r
			}
		case <-time.After(c17Watchdog):
			stacks := c17LockStacks()
			_ = os.RemoveAll(e.dir)
			return "hang:" + stacks
		}
	}
	e.close()
	return res
}

// ------------------------------------------------------------------ generator

var c17BigChance = 16 // 1 in c17BigChance puts writes a 300 KB / 700 KB blob

var c17Chunks = []string{"1", "2", "7", "512", "4096", "32767", "32768", "32769", "65536", "1048575", "1048576", "1048577", "w", "w"}
var c17Pres = []string{"-", "-", "-", "0", "1", "0+1+0+3", "4096+0", "5+0+0+32768"}

// a reader behaviour for RestoreFromReader
func c17GenReader(r *rng) string {
	return pick(r, c17Pres) + ":" + pick(r, c17Chunks) + ":" + pick(r, []string{"d", "d", "s"})
}

func c17GenWrites(r *rng) string {
	n := r.intn(4)
	var ws []string
	for i := 0; i < n; i++ {
		k := r.intn(c17Keys)
		if r.chance(1, 4) {
			ws = append(ws, fmt.Sprintf("d%d", k))
		} else if r.chance(1, c17BigChance) {
			ws = append(ws, fmt.Sprintf("p%d.%d", k, 4+r.intn(2)))
		} else {
			ws = append(ws, fmt.Sprintf("p%d.%d", k, r.intn(4)))
		}
	}
	return strings.Join(ws, "/")
}

func c17GenOp(r *rng, slots int) string {
	x := r.intn(100)
	slot := r.intn(slots)
	switch {
	case x < 28:
		c := "c"
		if r.chance(1, 6) {
			c = "r"
		}
		return "tx:" + c17GenWrites(r) + ":" + c
	case x < 35:
		if r.chance(1, 3) { // with a path template (c17_paths.go)
			return fmt.Sprintf("snapp:%d:%s", slot, c17GenTmpl(r, slot))
		}
		return fmt.Sprintf("snap:%d", slot)
	case x < 38:
		return c17GenInTx(r, slot)
	case x < 44:
		if r.chance(1, 3) {
			return fmt.Sprintf("snaptp:%d:%s", slot, c17GenTmpl(r, slot))
		}
		return fmt.Sprintf("snapt:%d", slot)
	case x < 48:
		if r.chance(1, 3) {
			return fmt.Sprintf("snapup:%d:%s:%s", slot, c17GenWrites(r), c17GenTmpl(r, slot))
		}
		return fmt.Sprintf("snapu:%d:%s", slot, c17GenWrites(r))
	case x < 50:
		return "snapf"
	case x < 56:
		return fmt.Sprintf("stream:%d", slot)
	case x < 63:
		return fmt.Sprintf("rest:%d", slot)
	case x < 65:
		return fmt.Sprintf("restr:%d", slot)
	case x < 68:
		return fmt.Sprintf("restr:%d:%s", slot, c17GenReader(r))
	case x < 72:
		return c17GenRestc(r, slot, slots)
	case x < 80:
		return "gsid"
	case x < 92:
		ok := "1"
		if r.chance(1, 6) {
			ok = "0"
		}
		return "gtl:" + pick(r, []string{"d", "d", "i", "i", "f"}) + ":" + ok
	case x < 96:
		return "listen"
	default:
		return "dump"
	}
}

func c17Gen(tier string, seed uint64, out *bufio.Writer) {
	r := newRng(seed)
	// fixed histories: the property's own shape, once per route and mode
	for _, snap := range []string{"snap:0", "snapt:0", "stream:0"} {
		for _, rest := range []string{"rest:0", "restr:0", "restr:0:-:w:d", "restr:0:0+1+0+3:4096:s", "restr:0:-:1:d"} {
			for _, mode := range []string{"d", "i", "f"} {
				fmt.Fprintf(out, "seq listen tx:p0.1/p4.2:c gtl:i:1 %s tx:p0.3/d4/p2.0:c listen gtl:f:1 %s gsid gtl:%s:1 gtl:d:1 gtl:i:1 dump %s gsid gtl:%s:1 gtl:i:0 dump\n",
					snap, rest, mode, rest, mode)
			}
		}
	}
	c17GenStagedFixed(out, tier)
	c17GenPathsFixed(out)
	nseq, maxLen := 150, 16
	nconc := 6
	if tier == "thorough" {
		nseq, maxLen = 2000, 28
		nconc = 40
		c17BigChance = 5 // snapshot files from 32 KB to several MB: straddle the 32 KB and 1 MB copy buffers
	}
	// every reader behaviour against a small and a > 1 MB snapshot
	for _, big := range []string{"", "tx:p1.5/p3.4/p5.5:c "} {
		if big != "" && tier != "thorough" {
			// quick: only the behaviours that matter most for a large file
			for _, rd := range []string{"-:w:d", "-:1048576:d", "-:1048577:s", "0+1:32768:d"} {
				fmt.Fprintf(out, "seq tx:p0.1/p4.2:c %ssnap:0 tx:p0.3/d4:c restr:0:%s gsid dump\n", big, rd)
			}
			continue
		}
		for _, ch := range c17Chunks[:13] {
			for _, e := range []string{"d", "s"} {
				pre := "-"
				if ch == "7" || ch == "32768" {
					pre = "0+1+0+3"
				}
				fmt.Fprintf(out, "seq tx:p0.1/p4.2:c %ssnap:0 tx:p0.3/d4:c restr:0:%s:%s:%s gsid dump\n", big, pre, ch, e)
			}
		}
	}
	for i := 0; i < nseq; i++ {
		n := 4 + r.intn(maxLen)
		slots := 1 + r.intn(3)
		ops := make([]string, 0, n+2)
		for j := 0; j < n; j++ {
			ops = append(ops, c17GenOp(r, slots))
		}
		// make sure the property's shape occurs: a snapshot early, a restore late
		if r.chance(3, 4) {
			ops[r.intn(1+len(ops)/3)] = fmt.Sprintf("%s:%d", pick(r, []string{"snap", "snapt", "snap", "stream"}), 0)
			if r.chance(1, 4) {
				ops[r.intn(1+len(ops)/3)] = fmt.Sprintf("%s:0:%s", pick(r, []string{"snapp", "snaptp"}), c17GenTmpl(r, 0))
			}
			restore := fmt.Sprintf("%s:0", pick(r, []string{"rest", "restr"}))
			if r.chance(1, 2) {
				restore = "restr:0:" + c17GenReader(r)
			}
			if r.chance(1, 3) {
				restore = c17GenRestc(r, 0, slots)
			}
			ops = append(ops, restore, "gsid",
				"gtl:"+pick(r, []string{"d", "i", "f"})+":1", "gtl:"+pick(r, []string{"d", "i"})+":1", "dump")
		}
		fmt.Fprintf(out, "seq %s\n", strings.Join(ops, " "))
	}
	// concurrent variant; populations without Snapshot, then with
	flatKinds := []string{"rwR", "rrwwR", "rwbtglR", "rrrwRR", "rwtR", "rbglRR"}
	for i := 0; i < nconc; i++ {
		fmt.Fprintf(out, "conc %s %d %d\n", flatKinds[i%len(flatKinds)], 15+r.intn(25), r.next()%1000000)
	}
	fmt.Fprintf(out, "stage plain\nstage snapintx\nstage rootbucket\nstage migrate\n")
	c17GenTlConc(out, tier, r)
	fmt.Fprintf(out, "conc rwsR %d %d\n", 20, r.next()%1000000)
	if tier == "thorough" {
		fmt.Fprintf(out, "conc rssRR %d %d\n", 20, r.next()%1000000)
	}
}
