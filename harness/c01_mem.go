package main

import (
	"bytes"
	"math"
	"strconv"
	"strings"
	"time"

	"github.com/openziti/storage/ast"
	"github.com/openziti/storage/boltz"
)

// A stored value as boltz keeps it: (FieldType, payload).  The in-memory ast.Symbols below
// hands these pairs to the exported boltz.FieldTo* coercions, so the `ast` package and the
// coercions are tied to the model without bolt in the way.
type c01Val struct {
	ft boltz.FieldType
	b  []byte
	// decoded view, used to print the case line
	tok string
}

func c01Nil() c01Val { return c01Val{ft: boltz.TypeNil, tok: "N"} }
func c01Bool(v bool) c01Val {
	if v {
		return c01Val{ft: boltz.TypeBool, b: []byte{1}, tok: "B1"}
	}
	return c01Val{ft: boltz.TypeBool, b: []byte{0}, tok: "B0"}
}
func c01Int64(v int64) c01Val {
	b := make([]byte, 8)
	for i := 0; i < 8; i++ {
		b[i] = byte(uint64(v) >> (8 * i))
	}
	return c01Val{ft: boltz.TypeInt64, b: b, tok: "i64:" + strconv.FormatInt(v, 10)}
}
func c01Int32(v int32) c01Val {
	b := make([]byte, 4)
	for i := 0; i < 4; i++ {
		b[i] = byte(uint32(v) >> (8 * i))
	}
	return c01Val{ft: boltz.TypeInt32, b: b, tok: "i32:" + strconv.FormatInt(int64(v), 10)}
}
func c01Float(v float64) c01Val {
	bits := math.Float64bits(v)
	b := make([]byte, 8)
	for i := 0; i < 8; i++ {
		b[i] = byte(bits >> (8 * i))
	}
	return c01Val{ft: boltz.TypeFloat64, b: b, tok: "F:" + strconv.FormatUint(bits, 10)}
}
func c01Str(v string) c01Val {
	return c01Val{ft: boltz.TypeString, b: []byte(v), tok: "S:" + toWire(v)}
}
func c01TimeVal(t time.Time) c01Val {
	b, err := t.MarshalBinary()
	if err != nil {
		panic(err)
	}
	// what FieldToString renders: MarshalText of the value read back from the payload
	back := &time.Time{}
	if err = back.UnmarshalBinary(b); err != nil {
		panic(err)
	}
	txt, err := back.MarshalText()
	if err != nil {
		panic(err)
	}
	return c01Val{ft: boltz.TypeTime, b: b, tok: "T:" + strconv.FormatInt(t.UnixNano(), 10) + ":" + toWire(string(txt))}
}

func (v c01Val) key() []byte { return boltz.PrependFieldType(v.ft, v.b) }

type c01Sym struct {
	name     string
	typ      ast.NodeType
	isSet    bool
	seekable bool
}

type c01Row struct {
	scalars map[string]c01Val
	sets    map[string][]c01Val // in cursor (key) order
}

type c01Symbols struct {
	syms   map[string]*c01Sym
	row    *c01Row
	cur    map[string]*c01Cursor
	noSeek bool
	seeks  int
}

var _ ast.Symbols = (*c01Symbols)(nil)

func (s *c01Symbols) GetSymbolType(name string) (ast.NodeType, bool) {
	if sym, ok := s.syms[name]; ok {
		return sym.typ, true
	}
	return 0, false
}
func (s *c01Symbols) GetSetSymbolTypes(string) ast.SymbolTypes { return nil }
func (s *c01Symbols) IsSet(name string) (bool, bool) {
	if sym, ok := s.syms[name]; ok {
		return sym.isSet, true
	}
	return false, false
}

// what symbol.Eval yields: the row's field, or for a set symbol the element under its cursor
func (s *c01Symbols) eval(name string) (boltz.FieldType, []byte) {
	sym := s.syms[name]
	if sym == nil {
		return boltz.TypeNil, nil
	}
	if sym.isSet {
		c := s.cur[name]
		if c == nil || !c.IsValid() {
			return boltz.TypeNil, nil
		}
		v := c.vals[c.pos]
		return v.ft, v.b
	}
	v, ok := s.row.scalars[name]
	if !ok {
		return boltz.TypeNil, nil
	}
	return v.ft, v.b
}

func (s *c01Symbols) EvalBool(name string) *bool       { return boltz.FieldToBool(s.eval(name)) }
func (s *c01Symbols) EvalString(name string) *string   { return boltz.FieldToString(s.eval(name)) }
func (s *c01Symbols) EvalInt64(name string) *int64     { return boltz.FieldToInt64(s.eval(name)) }
func (s *c01Symbols) EvalFloat64(name string) *float64 { return boltz.FieldToFloat64(s.eval(name)) }
func (s *c01Symbols) EvalDatetime(name string) *time.Time {
	ft, b := s.eval(name)
	return boltz.FieldToDatetime(ft, b, name)
}
func (s *c01Symbols) IsNil(name string) bool {
	ft, _ := s.eval(name)
	return ft == boltz.TypeNil
}

type c01Cursor struct {
	owner *c01Symbols
	vals  []c01Val
	pos   int
}

func (c *c01Cursor) Next()         { c.pos++ }
func (c *c01Cursor) IsValid() bool { return c.pos < len(c.vals) }
func (c *c01Cursor) Current() []byte {
	return c.vals[c.pos].b
}

// a cursor that additionally implements ast.TypeSeekableSetCursor, positioned as a bbolt
// cursor over the typed keys would be
type c01SeekCursor struct{ c01Cursor }

func (c *c01SeekCursor) Seek(val []byte) {
	c.pos = 0
	for c.pos < len(c.vals) && bytes.Compare(c.vals[c.pos].key(), val) < 0 {
		c.pos++
	}
}
func (c *c01SeekCursor) SeekToString(val string) {
	c.owner.seeks++
	c.Seek(boltz.PrependFieldType(boltz.TypeString, []byte(val)))
}

func (s *c01Symbols) OpenSetCursor(name string) ast.SetCursor {
	sym := s.syms[name]
	if sym == nil || !sym.isSet {
		return ast.NewEmptyCursor()
	}
	if sym.seekable && !s.noSeek {
		sc := &c01SeekCursor{c01Cursor{owner: s, vals: s.row.sets[name]}}
		s.cur[name] = &sc.c01Cursor
		return sc
	}
	c := &c01Cursor{owner: s, vals: s.row.sets[name]}
	s.cur[name] = c
	return c
}
func (s *c01Symbols) OpenSetCursorForQuery(name string, _ ast.Query) ast.SetCursor {
	return s.OpenSetCursor(name)
}

// ---------------------------------------------------------------------------------------
// white-box observation: the node classes of the typed tree, rendered through ast.Visitor

type c01Shape struct {
	ast.DefaultVisitor
	b        strings.Builder
	nameOnly int // next symbol node prints only its name (IsNil) ...
	skipSym  int // ... or nothing (Count / IsEmpty carry the name themselves)
	muted    int
}

func (v *c01Shape) open(s string)  { v.b.WriteString(s + "(") }
func (v *c01Shape) close()         { v.b.WriteString(")") }
func (v *c01Shape) leaf(s string)  { v.b.WriteString(s + ";") }
func (v *c01Shape) symbol(cls, n string) {
	if v.skipSym > 0 {
		v.skipSym--
		return
	}
	if v.nameOnly > 0 {
		v.nameOnly--
		v.b.WriteString(n)
		return
	}
	v.leaf(cls + ":" + n)
}

func (v *c01Shape) VisitNotExprNodeStart(*ast.NotExprNode) { v.open("Not") }
func (v *c01Shape) VisitNotExprNodeEnd(*ast.NotExprNode)   { v.close() }
func (v *c01Shape) VisitAndExprNodeStart(*ast.AndExprNode) { v.open("And") }
func (v *c01Shape) VisitAndExprNodeEnd(*ast.AndExprNode)   { v.close() }
func (v *c01Shape) VisitOrExprNodeStart(*ast.OrExprNode)   { v.open("Or") }
func (v *c01Shape) VisitOrExprNodeEnd(*ast.OrExprNode)     { v.close() }
func (v *c01Shape) VisitBinaryBoolExprNodeStart(*ast.BinaryBoolExprNode) { v.open("BinBool") }
func (v *c01Shape) VisitBinaryBoolExprNodeEnd(*ast.BinaryBoolExprNode)   { v.close() }
func (v *c01Shape) VisitBinaryDatetimeExprNodeStart(*ast.BinaryDatetimeExprNode) { v.open("BinTime") }
func (v *c01Shape) VisitBinaryDatetimeExprNodeEnd(*ast.BinaryDatetimeExprNode)   { v.close() }
func (v *c01Shape) VisitBinaryFloat64ExprNodeStart(*ast.BinaryFloat64ExprNode) { v.open("BinFloat") }
func (v *c01Shape) VisitBinaryFloat64ExprNodeEnd(*ast.BinaryFloat64ExprNode)   { v.close() }
func (v *c01Shape) VisitBinaryInt64ExprNodeStart(*ast.BinaryInt64ExprNode) { v.open("BinInt") }
func (v *c01Shape) VisitBinaryInt64ExprNodeEnd(*ast.BinaryInt64ExprNode)   { v.close() }
func (v *c01Shape) VisitBinaryStringExprNodeStart(n *ast.BinaryStringExprNode) {
	if n.IsSeekable() {
		v.open("BinStr!")
	} else {
		v.open("BinStr")
	}
}
func (v *c01Shape) VisitBinaryStringExprNodeEnd(*ast.BinaryStringExprNode) { v.close() }
func (v *c01Shape) VisitIsNilExprNodeStart(*ast.IsNilExprNode) {
	v.open("IsNil")
	v.nameOnly = 1
}
func (v *c01Shape) VisitIsNilExprNodeEnd(*ast.IsNilExprNode) { v.close() }
func (v *c01Shape) VisitInt64BetweenExprNodeStart(*ast.Int64BetweenExprNode) { v.open("BetInt") }
func (v *c01Shape) VisitInt64BetweenExprNodeEnd(*ast.Int64BetweenExprNode)   { v.close() }
func (v *c01Shape) VisitFloat64BetweenExprNodeStart(*ast.Float64BetweenExprNode) {
	v.open("BetFloat")
}
func (v *c01Shape) VisitFloat64BetweenExprNodeEnd(*ast.Float64BetweenExprNode) { v.close() }
func (v *c01Shape) VisitDatetimeBetweenExprNodeStart(*ast.DatetimeBetweenExprNode) {
	v.open("BetTime")
}
func (v *c01Shape) VisitDatetimeBetweenExprNodeEnd(*ast.DatetimeBetweenExprNode) { v.close() }
func (v *c01Shape) VisitInDatetimeArrayExprNodeStart(*ast.InDatetimeArrayExprNode) { v.open("InTime") }
func (v *c01Shape) VisitInDatetimeArrayExprNodeEnd(*ast.InDatetimeArrayExprNode)   { v.close() }
func (v *c01Shape) VisitInFloat64ArrayExprNodeStart(*ast.InFloat64ArrayExprNode) { v.open("InFloat") }
func (v *c01Shape) VisitInFloat64ArrayExprNodeEnd(*ast.InFloat64ArrayExprNode)   { v.close() }
func (v *c01Shape) VisitInInt64ArrayExprNodeStart(*ast.InInt64ArrayExprNode) { v.open("InInt") }
func (v *c01Shape) VisitInInt64ArrayExprNodeEnd(*ast.InInt64ArrayExprNode)   { v.close() }
func (v *c01Shape) VisitInStringArrayExprNodeStart(*ast.InStringArrayExprNode) { v.open("InStr") }
func (v *c01Shape) VisitInStringArrayExprNodeEnd(*ast.InStringArrayExprNode)   { v.close() }

func (v *c01Shape) VisitBooleanLogicExprNodeStart(*ast.BooleanLogicExprNode) { v.open("U-Logic") }
func (v *c01Shape) VisitBooleanLogicExprNodeEnd(*ast.BooleanLogicExprNode)   { v.close() }
func (v *c01Shape) VisitBinaryExprNodeStart(*ast.BinaryExprNode) { v.open("U-Binary") }
func (v *c01Shape) VisitBinaryExprNodeEnd(*ast.BinaryExprNode)   { v.close() }
func (v *c01Shape) VisitInArrayExprNodeStart(*ast.InArrayExprNode) { v.open("U-In") }
func (v *c01Shape) VisitInArrayExprNodeEnd(*ast.InArrayExprNode)   { v.close() }
func (v *c01Shape) VisitBetweenExprNodeStart(*ast.BetweenExprNode) { v.open("U-Between") }
func (v *c01Shape) VisitBetweenExprNodeEnd(*ast.BetweenExprNode)   { v.close() }
func (v *c01Shape) VisitUntypedSymbolNode(n *ast.UntypedSymbolNode) { v.leaf("U-Sym:" + n.Symbol()) }
func (v *c01Shape) VisitSetFunctionNodeStart(*ast.SetFunctionNode) { v.open("SetFn") }
func (v *c01Shape) VisitSetFunctionNodeEnd(*ast.SetFunctionNode)   { v.close() }
func (v *c01Shape) VisitUntypedNotExprStart(*ast.UntypedNotExprNode) { v.open("U-Not") }
func (v *c01Shape) VisitUntypedNotExprEnd(*ast.UntypedNotExprNode)   { v.close() }

func (v *c01Shape) VisitBoolConstNode(*ast.BoolConstNode)         { v.leaf("BoolC") }
func (v *c01Shape) VisitDatetimeConstNode(*ast.DatetimeConstNode) { v.leaf("TimeC") }
func (v *c01Shape) VisitFloat64ConstNode(*ast.Float64ConstNode)   { v.leaf("FloatC") }
func (v *c01Shape) VisitInt64ConstNode(*ast.Int64ConstNode)       { v.leaf("IntC") }
func (v *c01Shape) VisitStringConstNode(*ast.StringConstNode)     { v.leaf("StrC") }
func (v *c01Shape) VisitNullConstNode(ast.NullConstNode)          { v.leaf("NullC") }

func (v *c01Shape) VisitDatetimeArrayNodeStart(*ast.DatetimeArrayNode) { v.open("TimeArr") }
func (v *c01Shape) VisitDatetimeArrayNodeEnd(*ast.DatetimeArrayNode)   { v.close() }
func (v *c01Shape) VisitFloat64ArrayNodeStart(*ast.Float64ArrayNode) { v.open("FloatArr") }
func (v *c01Shape) VisitFloat64ArrayNodeEnd(*ast.Float64ArrayNode)   { v.close() }
func (v *c01Shape) VisitInt64ArrayNodeStart(*ast.Int64ArrayNode) { v.open("IntArr") }
func (v *c01Shape) VisitInt64ArrayNodeEnd(*ast.Int64ArrayNode)   { v.close() }
func (v *c01Shape) VisitStringArrayNodeStart(*ast.StringArrayNode) { v.open("StrArr") }
func (v *c01Shape) VisitStringArrayNodeEnd(*ast.StringArrayNode)   { v.close() }

func (v *c01Shape) VisitBoolSymbolNode(n *ast.BoolSymbolNode)         { v.symbol("BoolSym", n.Symbol()) }
func (v *c01Shape) VisitDatetimeSymbolNode(n *ast.DatetimeSymbolNode) { v.symbol("TimeSym", n.Symbol()) }
func (v *c01Shape) VisitFloat64SymbolNode(n *ast.Float64SymbolNode)   { v.symbol("FloatSym", n.Symbol()) }
func (v *c01Shape) VisitInt64SymbolNode(n *ast.Int64SymbolNode)       { v.symbol("IntSym", n.Symbol()) }
func (v *c01Shape) VisitStringSymbolNode(n *ast.StringSymbolNode)     { v.symbol("StrSym", n.Symbol()) }
func (v *c01Shape) VisitAnyTypeSymbolNode(n *ast.AnyTypeSymbolNode)   { v.symbol("AnySym", n.Symbol()) }

func (v *c01Shape) VisitInt64ToFloat64NodeStart(*ast.Int64ToFloat64Node) { v.open("I2F") }
func (v *c01Shape) VisitInt64ToFloat64NodeEnd(*ast.Int64ToFloat64Node)   { v.close() }
func (v *c01Shape) VisitStringFuncNodeStart(*ast.StringFuncNode) { v.open("Upper") }
func (v *c01Shape) VisitStringFuncNodeEnd(*ast.StringFuncNode)   { v.close() }

func (v *c01Shape) VisitAllOfSetExprNodeStart(n *ast.AllOfSetExprNode) { v.open("AllOf:" + n.Symbol()) }
func (v *c01Shape) VisitAllOfSetExprNodeEnd(*ast.AllOfSetExprNode)     { v.close() }
func (v *c01Shape) VisitAnyOfSetExprNodeStart(n *ast.AnyOfSetExprNode) { v.open("AnyOf:" + n.Symbol()) }
func (v *c01Shape) VisitAnyOfSetExprNodeEnd(*ast.AnyOfSetExprNode)     { v.close() }
func (v *c01Shape) VisitCountSetExprNodeStart(n *ast.CountSetExprNode) {
	if v.nameOnly > 0 { // `count(x) = null`: IsNilExprNode{symbol: the count node}
		v.nameOnly--
		v.b.WriteString(n.Symbol())
		v.muted++
	} else {
		v.open("Count:" + n.Symbol())
	}
	v.skipSym = 1
}
func (v *c01Shape) VisitCountSetExprNodeEnd(*ast.CountSetExprNode) {
	if v.muted > 0 {
		v.muted--
		return
	}
	v.close()
}
func (v *c01Shape) VisitIsEmptySetExprNodeStart(n *ast.IsEmptySetExprNode) {
	v.open("IsEmpty:" + n.Symbol())
	v.skipSym = 1
}
func (v *c01Shape) VisitIsEmptySetExprNodeEnd(*ast.IsEmptySetExprNode) { v.close() }

// a sort field of a sub-query: its typed symbol node has just been rendered; add the direction
func (v *c01Shape) VisitSortFieldNode(n *ast.SortFieldNode) {
	if n.IsAscending() {
		v.leaf("asc")
	} else {
		v.leaf("desc")
	}
}

func c01ShapeOf(q ast.Query) string {
	v := &c01Shape{}
	q.GetPredicate().Accept(v)
	return v.b.String()
}
