package main

import (
	"strings"
	"sync/atomic"
)

// C18 round 6: FRESH SPELLINGS.  Keywords of ZitiQL are case-insensitive and the keyword operators allow white space
// variants (`NOT <ws>+ CONTAINS`, `NOT <ws> IN`); anything in the parsing layer that remembers a spelling it has not seen
// before (a process-wide table keyed by token text) is only exercised by inputs nobody has presented yet.  c18Spell turns a
// template into one of very many spellings, chosen by a counter: {kw} = keyword with a per-letter upper/lower choice,
// {_} = one to three white-space characters, {.} = exactly one white-space character.
//
// Observation kind U<t>: QueryIds with template t of c18SpellTemplates in a spelling taken from a process-wide counter
// (never the same twice in a process); the answer is the one of the canonical text (C18/Store.lean `spelledPred`).
var c18SpellTemplates = []string{
	/* 0 */ `name {not}{_}{contains} "n1"`,
	/* 1 */ `rank {not}{.}{in} [1, 3]`,
	/* 2 */ `rank {not}{_}{between} 1 {and} 3`,
	/* 3 */ `name {icontains} "N1"`,
	/* 4 */ `rank {in} [0, 2]`,
	/* 5 */ `name {contains} "n1" {and} rank {between} 2 {and} 5`,
	/* 6 */ `{anyof}(roles) = "r1" {or} rank >= 4`,
	/* 7 */ `{true} {sort}{_}{by} rank {desc} {limit}{_}{none}`,
	/* 8 */ `{isempty}(roles) {or} name = {null}`,
	/* 9 */ `{count}(roles) > 1 {skip} 0 {limit} 100`,
}

var c18SpellCtr atomic.Uint64

func c18Mix(x uint64) uint64 {
	x += 0x9e3779b97f4a7c15
	x = (x ^ (x >> 30)) * 0xbf58476d1ce4e5b9
	x = (x ^ (x >> 27)) * 0x94d049bb133111eb
	return x ^ (x >> 31)
}

func c18Spell(template string, n uint64) string {
	var b strings.Builder
	ws := []byte{' ', '\t', '\n', '\r'}
	k := uint64(0)
	for i := 0; i < len(template); i++ {
		if template[i] != '{' {
			b.WriteByte(template[i])
			continue
		}
		j := strings.IndexByte(template[i:], '}') + i
		word := template[i+1 : j]
		k++
		bits := c18Mix(n*131 + k)
		switch word {
		case "_":
			for c := uint64(0); c <= bits%3; c++ {
				b.WriteByte(ws[(bits>>(4+2*c))%4])
			}
		case ".":
			b.WriteByte(ws[(bits>>4)%4])
		default:
			for c := 0; c < len(word); c++ {
				ch := word[c]
				if bits>>(uint(c)%60)&1 == 1 {
					ch = ch - 'a' + 'A'
				}
				b.WriteByte(ch)
			}
		}
		i = j
	}
	return b.String()
}

// a spelling nobody in this process has used before
func c18FreshSpelling(t int) string {
	return c18Spell(c18SpellTemplates[t%len(c18SpellTemplates)], c18SpellCtr.Add(1))
}
