module verif/harness

go 1.23.0

require (
	github.com/antlr4-go/antlr/v4 v4.13.1
	github.com/openziti/foundation/v2 v2.0.59
	github.com/openziti/storage v0.0.0
	github.com/sirupsen/logrus v1.8.1
	go.etcd.io/bbolt v1.4.0
)

require (
	github.com/biogo/store v0.0.0-20190426020002-884f370e325d // indirect
	github.com/davecgh/go-spew v1.1.1 // indirect
	github.com/google/uuid v1.6.0 // indirect
	github.com/mattn/go-colorable v0.1.12 // indirect
	github.com/mattn/go-isatty v0.0.14 // indirect
	github.com/mgutz/ansi v0.0.0-20200706080929-d51e80ef957d // indirect
	github.com/michaelquigley/pfxlog v0.6.10 // indirect
	github.com/pkg/errors v0.9.1 // indirect
	github.com/pmezard/go-difflib v1.0.0 // indirect
	github.com/stretchr/testify v1.10.0 // indirect
	golang.org/x/crypto v0.1.0 // indirect
	golang.org/x/exp v0.0.0-20240506185415-9bf2ced13842 // indirect
	golang.org/x/sys v0.31.0 // indirect
	golang.org/x/term v0.30.0 // indirect
	gopkg.in/yaml.v3 v3.0.1 // indirect
)

replace github.com/openziti/storage => /repo
