package main

import (
	"fmt"
	"strconv"
	"strings"

	"github.com/openziti/storage/ast"
)

// H cases: a HISTORY of ast.Parse calls in one process.
//
//	H <schema>[~<schema>...] <text1> <text2> ...     (texts hex of UTF-8, `-` = the empty filter; a text
//	                                   written `k~<hex>` is parsed against the k-th schema, others against the first)
//	    -> h=<r1>|<r2>|...             r = ok:<visitor trace of the typed tree> | syn | lerr | verr | terr
//
// The calls are made one after the other on one goroutine, each against the symbol table of the store it
// queries, exactly as a process serving list requests for several entity types does.  The property speaks about every input string whatever was parsed
// before it: the spec answers every text as if it were parsed alone (model: C10/Session.lean
// `parseHistory`; theorem `parse_history_independent`).  Anything an earlier call leaves behind in
// package-level or pooled state of ast / zitiql (listener operand stacks, error latch, lexer / parser
// instances, caches of parsed filters) and a later call picks up shows here as r_k differing from the
// stand-alone answer.
func c10ExecHist(f []string) string {
	if len(f) < 3 {
		return "bad-case"
	}
	var syms []*c10Syms
	for _, sc := range strings.Split(f[1], "~") {
		syms = append(syms, newC10Syms(c10ParseSchema(sc), &c10Row{}, false))
	}
	var out []string
	for _, w := range f[2:] {
		k := 0
		if i := strings.IndexByte(w, '~'); i >= 0 {
			k, _ = strconv.Atoi(w[:i])
			w = w[i+1:]
			if k < 0 || k >= len(syms) {
				k = 0
			}
		}
		out = append(out, c10HistCall(syms[k], fromWire(w)))
	}
	return "h=" + strings.Join(out, "|")
}

func c10HistCall(syms *c10Syms, text string) (res string) {
	defer func() {
		if r := recover(); r != nil {
			res = "panic"
		}
	}()
	q, err := ast.Parse(syms, text)
	if err != nil {
		// the listener's own verdict on this text (fresh listener): tells a listener error from a typing error
		_, _, le := c10Walk(text)
		return c10Classify(err, le)
	}
	d := &c10Dump{}
	q.Accept(d)
	_ = q.GetSortFields()
	_ = q.GetSkip()
	_ = q.GetLimit()
	_ = q.String()
	typed := "-"
	if len(d.out) > 0 {
		typed = strings.Join(d.out, ",")
	}
	return "ok:" + typed
}

// ------------------------------------------------------------------------------------ generator

// texts a client may send one after the other: non-sentences of the kinds clients produce (a stray
// closing parenthesis, a dangling operator, a missing operand, an unrecognised character, two filters
// glued together), sentences the listener refuses, sentences the typer refuses, plain sentences,
// predicate-less sentences (only sort / skip / limit), the empty filter
var c10HistRejected = []string{`s = "x" )`, `n = 5 )`, `( s = "x"`, `s = "x" and`, `s = "x" or or n = 5`, `s = `, `= 5`, `s "x"`, `s = "x" "y"`,
	`n = 5 n = 7`, `true )`, `true true`, `b )`, `n in [1, 2`, `n in [1, "x"]`, `n between 1 and`, `anyOf(ss) = "x" )`, `count(ss > 1`,
	`s = "x" @`, `@ s = "x"`, `s = "x" sort by`, `s = "x" sort by s,`, `s = "x" limit`, `s = "x" skip 1 skip 2`, `limit 5 limit 6`, `limit 5 )`,
	`sort by s )`, `n = 5 limit 1 skip 1`, `isEmpty(from kids where true`, `count(from kids where s = "x") > 1 )`, `not`, `)`, `(`, `s = 'x'`,
	`n = 5 5`, `s = "x" s`, `d = datetime(2020-01-01T00:00:00Z) )`, `from kids where true`}
var c10HistListenerErr = []string{`count(from kids where limit 5) > 1`, `a = 1e999`, `skip 1.5`, `a = datetime(2020-02-30T00:00:00Z)`, `limit 1.5`,
	`n in [1e999]`, `isEmpty(from kids where sort by s)`}
var c10HistTypeErr = []string{`zz = 1`, `n = "5"`, `ss = "x"`, `anyOf(s) = "x"`, `sort by zz limit 1`, `s < true`, `count(from zz where true) = 1`}
var c10HistSentences = []string{`s = "x"`, `n = 5`, `b`, `true`, `not b`, `n in [1, 5]`, `n between 1 and 5`, `s = "x" and n = 5 or b`, `anyOf(ss) = "x"`,
	`count(from kids where s = "x") = 2`, `isEmpty(ds)`, `a = null`, `s = "x" sort by n desc skip 1 limit 2`, `(s = "x")`, `d > datetime(2020-01-01T00:00:00Z)`}
var c10HistNoPredicate = []string{`limit 5`, `sort by s`, `skip 2 limit 5`, `sort by n desc, s`, `skip 3`, `limit none`, `sort by s skip 1`,
	`sort by s limit 1`, ` limit 5 `, `SORT BY s LIMIT 1`, ``}

func (g *c10Gen) emitH(schema string, texts []string) {
	ws := make([]string, len(texts))
	for i, t := range texts {
		ws[i] = toWire(string([]rune(t)))
	}
	fmt.Fprintf(g.out, "H %s %s\n", schema, strings.Join(ws, " "))
}

// the same names with other types (and `b`, `ss` missing): a second store's symbol table
const c10HistSchema2 = "s:i,n:s,f:s,d:b,a:a,kids:s*@1,zz:i/s:i"

// emitHX: a history over several symbol tables; which[i] selects the table of texts[i]
func (g *c10Gen) emitHX(schemas []string, texts []string, which []int) {
	ws := make([]string, len(texts))
	for i, t := range texts {
		ws[i] = toWire(string([]rune(t)))
		if which[i] != 0 {
			ws[i] = fmt.Sprintf("%d~%s", which[i], ws[i])
		}
	}
	fmt.Fprintf(g.out, "H %s %s\n", strings.Join(schemas, "~"), strings.Join(ws, " "))
}

func (g *c10Gen) genHist() {
	thorough := g.tier == "thorough"
	var all []string
	for _, p := range [][]string{c10HistRejected, c10HistListenerErr, c10HistTypeErr, c10HistSentences, c10HistNoPredicate} {
		all = append(all, p...)
	}
	// every ordered pair of the fixed texts; the second one alone first, as the reference
	for _, t := range all {
		g.emitH(c10RootSchema, []string{t})
	}
	for _, a := range all {
		for _, b := range all {
			g.emitH(c10RootSchema, []string{a, b})
		}
	}
	// the same pairs under an empty symbol table for a sample (a leaked operand fails there as an unknown symbol)
	for _, a := range c10HistRejected {
		for _, b := range c10HistNoPredicate {
			g.emitH("-", []string{a, b})
		}
	}
	// the same text against two stores' symbol tables, in either order, and after a rejected text (a result
	// remembered per text, or typed against the table of an earlier call, answers the second call wrongly)
	three := []string{c10RootSchema, c10HistSchema2, "-"}
	for _, p := range [][]string{c10HistSentences, c10HistTypeErr, c10HistNoPredicate, c10HistListenerErr} {
		for _, t := range p {
			for _, w := range [][]int{{0, 1}, {1, 0}, {0, 2}, {2, 0}, {1, 2}, {0, 1, 0}, {1, 0, 1}} {
				texts := make([]string, len(w))
				for i := range texts {
					texts[i] = t
				}
				g.emitHX(three, texts, w)
			}
			g.emitHX(three, []string{pick(g.r, c10HistRejected), t, t}, []int{0, 1, 0})
		}
	}
	// random histories: generated sentences over the schema, their token-level mutations, predicate-less
	// sentences, listener / typing errors, 2-6 calls
	g.nums, g.strs, g.dts = c10SafeNumbers, c10SafeStrings, c10SafeDatetimes
	g.plainIdents = []string{"s", "n", "f", "b", "d", "a", "tags.x", "'s'", "s", "n", "f", "b", "d", "a"}
	g.setIdents = []string{"ss", "ns", "ds", "bs", "kids", "kids", "pets", "ss", "ns"}
	defer func() {
		g.nums, g.strs, g.dts = c10Numbers, c10Strings, c10Datetimes
		g.plainIdents, g.setIdents = nil, nil
	}()
	nH := 1500
	if thorough {
		nH = 60000
	}
	tail := func() string {
		var p c10Pieces
		switch g.r.intn(4) {
		case 0:
			g.limit(&p)
		case 1:
			g.sortBy(&p, c10QIdents)
		case 2:
			g.skip(&p)
			if g.r.chance(1, 2) {
				p.add(g.ws1())
				g.limit(&p)
			}
		default:
			g.sortBy(&p, c10QIdents)
			p.add(g.ws1())
			g.limit(&p)
		}
		return strings.Join(p, "")
	}
	for i := 0; i < nH; i++ {
		n := 2 + g.r.intn(5)
		texts := make([]string, 0, n)
		for j := 0; j < n; j++ {
			switch c := g.r.intn(16); {
			case c < 4:
				p := g.sentence(c10QIdents, 1+g.r.intn(3))
				texts = append(texts, strings.Join(p, ""))
			case c < 9:
				p := g.sentence(c10QIdents, 1+g.r.intn(3))
				q := g.mutate(p)
				if g.r.chance(1, 3) {
					q = g.mutate(q)
				}
				texts = append(texts, strings.Join(q, ""))
			case c < 12:
				texts = append(texts, tail())
			case c < 13:
				texts = append(texts, pick(g.r, c10HistRejected))
			case c < 14:
				texts = append(texts, pick(g.r, c10HistListenerErr))
			case c < 15:
				texts = append(texts, pick(g.r, c10HistTypeErr))
			default:
				texts = append(texts, pick(g.r, c10HistNoPredicate))
			}
		}
		if g.r.chance(1, 4) {
			which := make([]int, len(texts))
			for j := range which {
				which[j] = g.r.intn(3)
			}
			g.emitHX(three, texts, which)
		} else {
			g.emitH(c10RootSchema, texts)
		}
	}
}
