package main

import (
	"bufio"
	"strings"
)

// c13GenOverwrites: OVERWRITE SEQUENCES on one key.  A second (third) write to a field whose value is RELATED
// to what the field holds: the same value again, a permutation, a subset / superset, the same length with
// duplicates, equal after de-duplication, empty after non-empty, nil after a value, a different type or
// container kind under the same key - for every setter family, in the same transaction and in a later one,
// under a nil checker, a checker that selects the key and one that does not.  Every prefix of a sequence is a
// case of its own, so the field is read back (all getters + raw dump) after each step.
//
//  1. string lists: every ordered pair of lists of <= 3 elements over {a, b, c} (1600 pairs), through
//     SetStringList / GetAndSetStringList;
//  2. PutList: every ordered pair of lists of <= 3 elements over {null, "a", int32 1};
//  3. PutMap: every ordered pair of maps over the keys {a, b} with values in {null, "", int32 1, {}, []}, nested and flat;
//  4. scalars: every ordered pair of setter kinds with equal / empty / nil / widened values;
//  5. container kinds under one key: every pair and triple of {string list, list, map, flat map} with the same members;
//  6. random triples of the above on one key.
func c13GenOverwrites(tier string, r *rng, out *bufio.Writer) {
	seen := map[string]bool{}
	emit := func(chk string, ops []string) {
		line := chk + " " + strings.Join(ops, " ")
		if seen[line] {
			return
		}
		seen[line] = true
		c13EmitE(out, chk, "m=-", ops)
	}
	const field = "f"
	fw := toWire(field)
	// seq emits every prefix; `split` = how many leading operations share the first transaction
	seq := func(chk string, split int, steps ...c13Field) {
		if chk != "c=-" && split == 0 {
			split = 1 // the stored value is written without a checker
		}
		for n := 1; n <= len(steps); n++ {
			var ops []string
			for i := 0; i < n; i++ {
				// the first `split` operations share the first transaction; the last one of the full
				// sequence is always the write under the checker
				pre := i < split && !(n == len(steps) && i == n-1)
				ops = append(ops, c13OpText(pre, field, steps[i]))
			}
			c := "c=-"
			if n == len(steps) {
				c = chk
			}
			emit(c, ops)
		}
	}
	chkOf := func(i int) string {
		switch i % 4 {
		case 0:
			return "c=." + fw // selects the key
		case 1:
			return "c=." // selects nothing: the second write must not happen
		}
		return "c=-"
	}
	str := func(s string) *c13Val { return &c13Val{kind: 'S', s: s} }

	// ---- 1. string lists
	var lists [][]string
	var rec func(prefix []string, n int)
	rec = func(prefix []string, n int) {
		lists = append(lists, append([]string{}, prefix...))
		if n == 0 {
			return
		}
		for _, a := range []string{"a", "b", "c"} {
			rec(append(append([]string{}, prefix...), a), n-1)
		}
	}
	rec(nil, 3)
	slVal := func(xs []string) *c13Val {
		v := &c13Val{kind: 'L'}
		for _, x := range xs {
			v.vals = append(v.vals, str(x))
		}
		return v
	}
	k := 0
	for _, xs := range lists {
		for _, ys := range lists {
			k++
			c1, c2 := "sl", "sl"
			if k%5 == 3 {
				c2 = "gsl"
			}
			if k%7 == 5 {
				c1 = "gsl"
			}
			seq("c=-", k%2, c13Field{c1, slVal(xs)}, c13Field{c2, slVal(ys)})
			if k%4 < 2 {
				seq(chkOf(k%4), 1, c13Field{c1, slVal(xs)}, c13Field{c2, slVal(ys)})
			}
		}
	}
	// longer members, members that are prefixes / tag-like
	pool2 := []string{"", "a", "a\x00", "ab", "\x05a", "b"}
	for i := 0; i < 300; i++ {
		mk := func() []string {
			n := r.intn(4)
			xs := make([]string, n)
			for j := range xs {
				xs[j] = pick(r, pool2)
			}
			return xs
		}
		seq(chkOf(i), r.intn(2), c13Field{"sl", slVal(mk())}, c13Field{"sl", slVal(mk())})
	}

	// ---- 2. PutList
	elems := []*c13Val{{kind: 'N'}, str("a"), {kind: 'i', i: 1}}
	var vlists []*c13Val
	var recL func(prefix []*c13Val, n int)
	recL = func(prefix []*c13Val, n int) {
		vlists = append(vlists, &c13Val{kind: 'L', vals: append([]*c13Val{}, prefix...)})
		if n == 0 {
			return
		}
		for _, a := range elems {
			recL(append(append([]*c13Val{}, prefix...), a), n-1)
		}
	}
	recL(nil, 3)
	k = 0
	for _, xs := range vlists {
		for _, ys := range vlists {
			k++
			if tier != "thorough" && k%2 == 0 && len(xs.vals) == 3 && len(ys.vals) == 3 {
				continue // quick tier: half of the 3-over-3 pairs
			}
			seq("c=-", k%2, c13Field{"list", xs}, c13Field{"list", ys})
			if k%4 < 2 {
				seq(chkOf(k%4), 1, c13Field{"list", xs}, c13Field{"list", ys})
			}
		}
	}

	// ---- 3. PutMap
	mvals := []*c13Val{{kind: 'N'}, str(""), {kind: 'i', i: 1}, {kind: 'M'}, {kind: 'L'}}
	var maps []*c13Val
	maps = append(maps, &c13Val{kind: 'M'})
	for _, a := range mvals {
		maps = append(maps, &c13Val{kind: 'M', keys: []string{"a"}, vals: []*c13Val{a}})
		maps = append(maps, &c13Val{kind: 'M', keys: []string{"b"}, vals: []*c13Val{a}})
		for _, b := range mvals {
			maps = append(maps, &c13Val{kind: 'M', keys: []string{"a", "b"}, vals: []*c13Val{a, b}})
		}
	}
	flat := func(m *c13Val) bool {
		for _, v := range m.vals {
			if v.kind == 'M' || v.kind == 'L' {
				return false
			}
		}
		return true
	}
	k = 0
	for _, xs := range maps {
		for _, ys := range maps {
			k++
			if tier != "thorough" && k%3 != 0 && len(xs.keys) == 2 && len(ys.keys) == 2 {
				continue
			}
			c1, c2 := "map", "map"
			if k%4 == 1 && flat(ys) {
				c2 = "mapf"
			}
			if k%6 == 2 && flat(xs) {
				c1 = "mapf"
			}
			seq(chkOf(k/3), k%2, c13Field{c1, xs}, c13Field{c2, ys})
		}
	}
	// a nested map / list one level down, rewritten with a related one
	inner := []*c13Val{maps[0], maps[3], maps[8], vlists[0], vlists[2], vlists[5]}
	for i, a := range inner {
		for j, b := range inner {
			wrap := func(v *c13Val) *c13Val {
				return &c13Val{kind: 'M', keys: []string{"k", "z"}, vals: []*c13Val{v, str("z")}}
			}
			seq(chkOf(i+j), (i+j)%2, c13Field{"map", wrap(a)}, c13Field{"map", wrap(b)})
			wrapL := func(v *c13Val) *c13Val { return &c13Val{kind: 'L', vals: []*c13Val{str("h"), v}} }
			seq(chkOf(i+j+1), (i+j+1)%2, c13Field{"list", wrapL(a)}, c13Field{"list", wrapL(b)})
		}
	}

	// ---- 4. scalars: every ordered pair of setter kinds, with values that are equal / empty / nil / widened
	tm := c13Times[4]
	scalars := []c13Field{
		{"str", str("")}, {"str", str("x")}, {"str", str("1")}, {"str", str("true")},
		{"strp", &c13Val{kind: 'N'}}, {"strp", str("")}, {"strp", str("x")},
		{"gstr", str("")}, {"gstr", str("x")}, {"rstr", str("x")},
		{"i32", &c13Val{kind: 'i', i: 1}}, {"i32", &c13Val{kind: 'i', i: 0}}, {"i64", &c13Val{kind: 'I', i: 1}}, {"i64", &c13Val{kind: 'I', i: 0}},
		{"f64", &c13Val{kind: 'F', bits: 0x3ff0000000000000}}, {"f64", &c13Val{kind: 'F', bits: 0}},
		{"bool", &c13Val{kind: 'B', i: 1}}, {"bool", &c13Val{kind: 'B', i: 0}},
		{"time", &c13Val{kind: 'T', s: tm}}, {"timep", &c13Val{kind: 'T', s: tm}}, {"timep", &c13Val{kind: 'N'}},
		{"nil", &c13Val{kind: 'N'}},
	}
	k = 0
	for _, a := range scalars {
		for _, b := range scalars {
			k++
			seq(chkOf(k), k%2, a, b)
		}
	}

	// ---- 5. container kinds under one key, same members
	members := []string{"a", "b"}
	kinds := []c13Field{
		{"sl", slVal(members)},
		{"sl", slVal(nil)},
		{"gsl", slVal([]string{"b", "a", "a"})},
		{"list", slVal(members)},
		{"list", &c13Val{kind: 'L'}},
		{"map", &c13Val{kind: 'M', keys: members, vals: []*c13Val{str("a"), str("b")}}},
		{"map", &c13Val{kind: 'M'}},
		{"mapf", &c13Val{kind: 'M', keys: []string{"\x05a", "\x05b"}, vals: []*c13Val{{kind: 'N'}, {kind: 'N'}}}}, // the keys a string list uses
	}
	k = 0
	for _, a := range kinds {
		for _, b := range kinds {
			k++
			seq(chkOf(k), k%2, a, b)
			for _, c := range kinds {
				k++
				if tier == "thorough" || k%3 == 0 {
					seq(chkOf(k), k%3, a, b, c)
				}
			}
		}
	}
	// a value over a bucket and a bucket over a value are refused: the error class is compared
	for i, a := range kinds[:6] {
		for j, b := range scalars[:8] {
			seq("c=-", (i+j)%2, a, b)
			seq("c=-", (i+j)%2, b, a)
		}
	}

	// ---- 6. random triples
	all := append(append([]c13Field{}, scalars...), kinds...)
	for i := 0; i < 40; i++ {
		all = append(all, c13Field{"sl", slVal(lists[r.intn(len(lists))])}, c13Field{"list", vlists[r.intn(len(vlists))]},
			c13Field{"map", maps[r.intn(len(maps))]})
	}
	nTriples := 400
	if tier == "thorough" {
		nTriples = 20000
	}
	for i := 0; i < nTriples; i++ {
		a := pick(r, all)
		var b, c c13Field
		// stay in the storage class of the first write most of the time (no refusal)
		sameClass := func(x c13Field) bool {
			bucket := func(c string) bool { return c == "sl" || c == "gsl" || c == "list" || c == "map" || c == "mapf" }
			return bucket(x.code) == bucket(a.code)
		}
		for {
			b = pick(r, all)
			if sameClass(b) || r.chance(1, 10) {
				break
			}
		}
		for {
			c = pick(r, all)
			if sameClass(c) || r.chance(1, 10) {
				break
			}
		}
		seq(chkOf(r.intn(4)), r.intn(3), a, b, c)
	}
}
