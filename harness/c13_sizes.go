package main

import (
	"bufio"
	"encoding/binary"
	"fmt"
	"strings"
)

// c13GenSizes: SIZE boundaries of every container and of every key encoding.
//
// A list is stored under the keys string(Int32ToBytes(idx)): tag 02 + the LITTLE-endian index, in a bucket
// that bbolt keeps in byte order, so key order is index order only up to 255; the size marker is an int32.
// Lists / maps / string lists of 255, 256, 257, 300, 513 and 1000 elements (258, 511, 512, 767..769, 1023..1025,
// 2000, 4096, 4097 in the thorough tier), top level, inside a map, inside a list, written over a longer / shorter predecessor;
// compound keys of that many components; components, list elements, map keys and field names of
// 127 / 128 / 255 / 256 bytes (one- / two-byte varint, one-byte length; 16383 / 16384 in the thorough tier).  Elements are pairwise distinct, so
// that any permutation, truncation or wrap-around shows.
func c13GenSizes(tier string, r *rng, out *bufio.Writer) {
	sizes := []int{255, 256, 257, 300, 513}
	big := []int{1000}
	lens := []int{126, 127, 128, 129, 254, 255, 256, 257}
	if tier == "thorough" {
		sizes = []int{255, 256, 257, 258, 300, 511, 512, 513, 767, 768, 769, 1023, 1024, 1025}
		big = []int{1000, 2000, 4096, 4097}
		lens = append(lens, 16383, 16384)
	}
	elem := func(i int, style int) *c13Val {
		switch style {
		case 0:
			return &c13Val{kind: 'I', i: int64(i)}
		case 1:
			return &c13Val{kind: 'S', s: fmt.Sprintf("e%d", i)}
		case 2:
			return &c13Val{kind: 'i', i: int64(i)}
		}
		switch i % 4 {
		case 0:
			return &c13Val{kind: 'I', i: int64(i)}
		case 1:
			return &c13Val{kind: 'S', s: fmt.Sprintf("elem-%d", i)}
		case 2:
			return &c13Val{kind: 'M', keys: []string{"idx"}, vals: []*c13Val{{kind: 'I', i: int64(i)}}}
		}
		return &c13Val{kind: 'L', vals: []*c13Val{{kind: 'i', i: int64(i)}}}
	}
	list := func(n, style int) *c13Val {
		v := &c13Val{kind: 'L'}
		for i := 0; i < n; i++ {
			v.vals = append(v.vals, elem(i, style))
		}
		return v
	}
	one := func(ops ...string) { c13EmitE(out, "c=-", "m=-", ops) }
	op := func(pre bool, code, name string, v *c13Val) string { return c13OpText(pre, name, c13Field{code, v}) }
	for si, n := range append(append([]int{}, sizes...), big...) {
		isBig := si >= len(sizes)
		// top level, through PutList
		one(op(false, "list", "l", list(n, si%4)))
		if isBig {
			continue
		}
		// inside a map (setMarshaled), inside a list, both through PutMap / PutList
		one(op(false, "map", "m", &c13Val{kind: 'M', keys: []string{"a", "l", "z"}, vals: []*c13Val{{kind: 'N'}, list(n, (si+1)%4), {kind: 'S', s: ""}}}))
		one(op(false, "list", "l", &c13Val{kind: 'L', vals: []*c13Val{{kind: 'B', i: 1}, list(n, (si+2)%4), {kind: 'N'}}}))
		// over a predecessor of another length (EmptyBucket must drop the stale entries and the old size)
		one(op(true, "list", "l", list(n+45, 0)), op(false, "list", "l", list(n, 1)))
		one(op(true, "list", "l", list(n-200, 1)), op(false, "list", "l", list(n, 3)))
	}
	// maps: keys in "decimal" order and keys that are the little-endian index bytes (the order a list has)
	mapOf := func(n int, le bool) *c13Val {
		v := &c13Val{kind: 'M'}
		for i := 0; i < n; i++ {
			k := fmt.Sprintf("k%05d", i)
			if le {
				b := make([]byte, 5)
				b[0] = 2
				binary.LittleEndian.PutUint32(b[1:], uint32(i))
				k = string(b)
			}
			v.keys = append(v.keys, k)
			v.vals = append(v.vals, elem(i, i%3))
		}
		return v
	}
	for si, n := range append(append([]int{}, sizes...), big[0]) {
		one(op(false, "map", "m", mapOf(n, si%2 == 0)))
		if si%3 == 0 {
			one(op(false, "mapf", "m", mapOf(n, si%2 == 1)))
			one(op(false, "list", "l", &c13Val{kind: 'L', vals: []*c13Val{mapOf(n, true), mapOf(3, false)}}))
		}
	}
	// string lists: that many members, written in descending order with a duplicate every 7th
	for _, n := range append(append([]int{}, sizes...), big[0]) {
		v := &c13Val{kind: 'L'}
		for i := n - 1; i >= 0; i-- {
			v.vals = append(v.vals, &c13Val{kind: 'S', s: fmt.Sprintf("s%05d", i)})
			if i%7 == 0 {
				v.vals = append(v.vals, &c13Val{kind: 'S', s: fmt.Sprintf("s%05d", i)})
			}
		}
		one(op(false, "sl", "s", v))
		one(op(true, "sl", "s", v), op(false, "gsl", "s", &c13Val{kind: 'L', vals: v.vals[:n/2]}))
	}
	// element / key / field-name lengths around the one-byte boundaries
	for _, n := range lens {
		x := strings.Repeat("q", n)
		one(op(false, "sl", "s", &c13Val{kind: 'L', vals: []*c13Val{{kind: 'S', s: x}, {kind: 'S', s: x + "a"}, {kind: 'S', s: x[1:]}}}))
		one(op(false, "map", "m", &c13Val{kind: 'M', keys: []string{x, x[1:] + "r"}, vals: []*c13Val{{kind: 'S', s: x}, list(2, 0)}}))
		one(op(false, "str", x, &c13Val{kind: 'S', s: x}), op(false, "list", x+"l", list(3, 3)))
		one(op(false, "list", "l", &c13Val{kind: 'L', vals: []*c13Val{{kind: 'S', s: x}, {kind: 'S', s: x + x}}}))
	}
	// compound keys with many components; lists that differ only in the number of (empty) components
	for _, n := range append(append([]int{}, sizes...), big[0]) {
		xs := make([]string, n)
		for i := range xs {
			switch i % 5 {
			case 0:
				xs[i] = ""
			case 1:
				xs[i] = fmt.Sprintf("c%d", i)
			case 2:
				xs[i] = strings.Repeat("v", 127+i%3)
			default:
				xs[i] = c13RandBytes(r, r.intn(4))
			}
		}
		c13EmitK(out, xs)
		empties := make([]string, n+1)
		c13EmitK(out, empties[:n])
		c13EmitJ(out, empties[:n], empties)
		c13EmitJ(out, xs, xs[:n-1])
		c13EmitJ(out, xs, append(append([]string{}, xs[1:]...), xs[0]))
	}
	// components whose length needs a two-byte varint, around every power of 128 below the limit
	for _, n := range []int{127, 128, 129, 255, 256, 257, 1023, 1024, 2047, 2048, 4095, 4096} {
		a, b := strings.Repeat("a", n), strings.Repeat("a", n-1)
		c13EmitK(out, []string{a, b, a})
		c13EmitJ(out, []string{a, b}, []string{b, a})
		c13EmitJ(out, []string{a + b}, []string{a, b})
	}
}
