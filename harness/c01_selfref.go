package main

import (
	"bufio"
)

// Self-referential link sets (employees.directReports -> employees): a sub-query over such a set scans the entity
// type that is being scanned, and its predicate may apply set functions to the very set symbol the sub-query
// iterates.  Every scan has its own row cursor (newCursorScanner -> newRowCursor) with its own symbol cache, and
// BaseStore.GetSymbol hands out a fresh runtime copy of a set symbol, so the cursor position of the outer walk and
// of the inner use are different objects (Lean: Filter/Cursors.lean, `run_fresh_eq_eval`).  This stream draws
// filters in which the same set symbol is used at two nesting levels, twice at one level (both orders), through
// dotted names (`s.s`, `s.s.name`), nested two deep, and through a pair of link sets that leads back to the scanned
// type, over data with trees of depth >= 2, cycles and self-membership.

// the self-referential set of each store of the universe, a scalar field of the store, and a pair of link sets
// store -> other -> store
var c01SelfSets = []struct {
	store      int
	set, field string
	out, back  string // "" = none
}{
	{0, "peers", "name", "groups", "members"},
	{1, "subs", "label", "members", "groups"},
	{2, "pals", "nick", "", ""},
}

func c01IdsOf(rows []*c01Entity) []string {
	var ids []string
	for _, e := range rows {
		ids = append(ids, e.id)
	}
	return ids
}

// overwrite the self-referential set `set` of the rows: shape 0 = the tree boss -> {m1, m2, m3}, m1 -> {},
// m2 -> {w1}, m3 -> {w1, w2}; shape 1 = a random forest (every entity but the first reports to an earlier one) with
// an occasional back edge (cycle) and self-membership; shape 2 = a chain with a back edge from the last to the first
func c01ShapeSelf(r *rng, rows []*c01Entity, pool []string, set string, shape int) {
	n := len(rows)
	if n == 0 {
		return
	}
	links := make([]map[string]bool, n)
	for i := range links {
		links[i] = map[string]bool{}
	}
	idx := func(i int) string { return rows[i].id }
	add := func(from, to int) {
		if from < n && to < n {
			links[from][idx(to)] = true
		}
	}
	switch shape {
	case 0:
		add(0, 1)
		add(0, 2)
		add(0, 3)
		add(2, 4)
		add(3, 4)
		add(3, 5)
	case 1:
		for i := 1; i < n; i++ {
			add(r.intn(i), i)
		}
		for i := 0; i < n; i++ {
			if r.chance(1, 4) {
				add(i, r.intn(n)) // back / cross edge, possibly to itself
			}
			if r.chance(1, 6) {
				add(i, i)
			}
			if len(pool) > 0 && r.chance(1, 6) {
				links[i][pick(r, pool)] = true // for a child store: possibly a parent entity without child data
			}
		}
	default:
		for i := 0; i+1 < n; i++ {
			add(i, i+1)
		}
		add(n-1, 0)
	}
	for i, e := range rows {
		var vals []c01Val
		for id := range links[i] {
			vals = append(vals, c01Str(id))
		}
		if len(vals) > 0 || r.chance(1, 2) {
			e.sets[set] = c01SortSet(vals)
		} else {
			delete(e.sets, set)
		}
	}
}

func c01GenSelfRef(tier string, r *rng, out *bufio.Writer) {
	nDatasets, perSet := 6, 34
	if tier == "thorough" {
		nDatasets, perSet = 30, 60
	}
	fn := func(f, n string) *c01Node { return &c01Node{kind: "fn", fn: f, name: n} }
	not := func(x *c01Node) *c01Node { return &c01Node{kind: "unot", l: x} }
	str := func(s string) c01Lit { return c01Lit{kind: 's', s: s} }
	cmp := func(op string, l *c01Node, lit c01Lit) *c01Node { return &c01Node{kind: "cmp", op: op, l: l, lit: lit} }
	cmpK := func(l *c01Node) *c01Node {
		return cmp(pick(r, c01CmpOps), l, c01Lit{kind: 'i', i: int64(r.intn(4))})
	}
	sub := func(f, n string, q *c01Node) *c01Node {
		s := &c01Node{kind: "sub", fn: f, name: n, q: q}
		if r.chance(1, 6) {
			v := int64(r.intn(3))
			s.skip = &v
		}
		if r.chance(1, 6) {
			v := int64(1 + r.intn(2))
			s.limit = &v
		}
		return s
	}
	for d := 0; d < nDatasets; d++ {
		ds := c01GenDataset(r)
		if d == 0 {
			// the boss tree needs six entities in the first store
			for tries := 0; tries < 200 && (len(ds.rows[0]) < 6 || len(ds.rows[1]) < 4); tries++ {
				ds = c01GenDataset(r)
			}
		}
		for _, ss := range c01SelfSets {
			pool := c01IdsOf(ds.rows[ss.store])
			if par := ds.stores[ss.store].parent; par >= 0 {
				pool = c01IdsOf(ds.rows[par])
			}
			shape := 1
			switch {
			case d == 0:
				shape = 0
			case d%5 == 4:
				shape = 2
			case d%5 == 3:
				shape = -1 // as c01GenDataset drew it: every entity in with probability 1/2
			}
			if shape >= 0 {
				c01ShapeSelf(r, ds.rows[ss.store], pool, ss.set, shape)
			}
		}
		for _, ss := range c01SelfSets {
			S := ss.set
			ids := c01IdsOf(ds.rows[ss.store])
			if par := ds.stores[ss.store].parent; par >= 0 {
				ids = c01IdsOf(ds.rows[par])
			}
			ids = append(ids, "zz")
			anId := func() c01Lit { return str(pick(r, ids)) }
			// a use of the set symbol S (or of a dotted name through it) inside the predicate of a sub-query over S
			inner := func() *c01Node {
				switch r.intn(11) {
				case 0, 1:
					return not(fn("isEmpty", S))
				case 2:
					return fn("isEmpty", S)
				case 3:
					return cmpK(fn("count", S))
				case 4:
					return cmp("eq", fn("anyOf", S), anId())
				case 5:
					return cmp(pick(r, []string{"ne", "eq", "gt"}), fn("allOf", S), anId())
				case 6:
					return cmp("eq", fn("anyOf", S+"."+S), anId())
				case 7:
					return cmp(pick(r, []string{"eq", "ne"}), fn("anyOf", S+"."+ss.field), str(pick(r, c01Strs)))
				case 8:
					return cmpK(fn("count", S+"."+S))
				case 9:
					return not(fn("isEmpty", S+"."+S))
				}
				return cmp("eq", fn("anyOf", S+"."+S+"."+S), anId())
			}
			// a sub-query over `over` (S or S.S) whose predicate is q
			level := func(over string, q *c01Node) *c01Node {
				switch r.intn(4) {
				case 0:
					return sub("isEmpty", over, q)
				case 1:
					return not(sub("isEmpty", over, q))
				}
				return cmpK(sub("count", over, q))
			}
			plain := func() *c01Node {
				switch r.intn(3) {
				case 0:
					return not(fn("isEmpty", S))
				case 1:
					return cmp("eq", fn("anyOf", S), anId())
				}
				return cmpK(fn("count", S))
			}
			emit := func(f *c01Node) {
				out.WriteString(c01BoltLine(ds, ss.store, f))
				out.WriteByte('\n')
			}
			// the fixed forms first (the example of the defect class: "how many of my reports have reports")
			emit(cmp("eq", sub0("count", S, not(fn("isEmpty", S))), c01Lit{kind: 'i', i: 2}))
			emit(cmp("eq", sub0("count", S, cmp("gt", fn("count", S), c01Lit{kind: 'i', i: 0})), c01Lit{kind: 'i', i: 0}))
			emit(not(sub0("isEmpty", S, not(fn("isEmpty", S)))))
			for i := 0; i < perSet; i++ {
				switch i % 8 {
				case 0, 1:
					emit(level(S, inner()))
				case 2:
					// nested two deep over the same set
					emit(level(S, level(S, inner())))
				case 3:
					// twice at one level, both orders
					a, b := level(S, inner()), plain()
					if r.chance(1, 2) {
						a, b = b, a
					}
					emit(&c01Node{kind: pick(r, []string{"and", "or"}), l: a, r: b})
				case 4:
					// two sub-queries over the same set at one level
					emit(&c01Node{kind: pick(r, []string{"and", "or"}), l: level(S, inner()), r: level(S, inner())})
				case 5:
					// the sub-query ranges over the set of the set
					emit(level(S+"."+S, inner()))
				case 6:
					// the predicate of the sub-query mixes the set symbol with another sub-query over it
					emit(level(S, &c01Node{kind: pick(r, []string{"and", "or"}), l: inner(), r: level(S, inner())}))
				case 7:
					if ss.out == "" {
						emit(level(S, not(level(S, inner()))))
						break
					}
					// through another entity type and back to the scanned one, re-using the first set two levels down
					back := level(ss.back, pick(r, []*c01Node{not(fn("isEmpty", ss.out)), cmpK(fn("count", ss.out)), inner()}))
					emit(level(ss.out, pick(r, []*c01Node{back, not(fn("isEmpty", ss.back)), cmpK(fn("count", ss.back+"."+ss.out))})))
				}
			}
		}
	}
}

// a sub-query without paging clauses
func sub0(f, n string, q *c01Node) *c01Node {
	return &c01Node{kind: "sub", fn: f, name: n, q: q}
}
