package main

// C04, round 14 — RANDOM SCHEMAS over the schema-parametric model (lean/StorageModel/C04/Gen.lean).
//
// 2–4 root stores g0..g3 (entity types gs0..gs3), 1–6 fk declarations of mixed kinds wired on REAL stores through the
// universe stream's wiring code (shared_universe.go: uvParseSchema / wire / apply — AddFkSymbol, AddFkSetSymbol,
// AddFkIndex, AddNullableFkIndex, AddFkIndexCascadeDelete, AddFkConstraint in declaration order).  The oracle is the
// Lean model: exact next state after every transaction.
//
//	case:   g|G <reuse 0|1>;<n stores>;<decl>;<decl>...  <tx> <tx> ...          (G = verbose)
//	decl:   <src>.<tgt>.<i|c>.<nullable 0|1>.<d|r>     i = fk index (back-reference set b<k> on the target), c = fk constraint,
//	                                                   d = cascade delete, r = restrict; declaration k owns field f<k> of store src
//	op:     c:<t>:<id>:<v>/<v>/..   Create (one value per field of store t, in declaration order; `_` = the store has no field)
//	        u:<t>:<id>:<v>/..       Update, nil checker        p:<t>:<id>:<mask>:<v>/..  Update with a MapFieldChecker (mask: 0/1 per field)
//	        d:<t>:<id>              DeleteById                 values: ~ nil, - "", hex
//	output per transaction: <res>#*#<coarse>@<live entities>,0
//	coarse: per store the ids, per entity the stored fk values (FindById), per fk index and live target GetRelatedEntitiesIdList

import (
	"bufio"
	"fmt"
	"sort"
	"strconv"
	"strings"

	"github.com/openziti/storage/boltz"
	"go.etcd.io/bbolt"
)

type c04GDecl struct {
	src, tgt int
	index    bool
	nullable bool
	cascade  bool
}

type c04GSchema struct {
	reuse bool
	n     int
	decls []c04GDecl
	sc    *uvSchema
}

func (d c04GDecl) String() string {
	k, n, r := "c", "0", "r"
	if d.index {
		k = "i"
	}
	if d.nullable {
		n = "1"
	}
	if d.cascade {
		r = "d"
	}
	return fmt.Sprintf("%d.%d.%s.%s.%s", d.src, d.tgt, k, n, r)
}

func c04GParse(w string) *c04GSchema {
	f := strings.Split(w, ";")
	if len(f) < 2 {
		return nil
	}
	n, err := strconv.Atoi(f[1])
	if err != nil || n < 1 || n > 6 {
		return nil
	}
	g := &c04GSchema{reuse: f[0] == "1", n: n}
	for _, dw := range f[2:] {
		p := strings.Split(dw, ".")
		if len(p) != 5 || (p[2] != "i" && p[2] != "c") || (p[4] != "d" && p[4] != "r") {
			return nil
		}
		s, e1 := strconv.Atoi(p[0])
		t, e2 := strconv.Atoi(p[1])
		if e1 != nil || e2 != nil || s < 0 || t < 0 || s >= n || t >= n {
			return nil
		}
		g.decls = append(g.decls, c04GDecl{src: s, tgt: t, index: p[2] == "i", nullable: p[3] == "1", cascade: p[4] == "d"})
	}
	var tok []string
	for t := 0; t < n; t++ {
		tok = append(tok, fmt.Sprintf("st:g%d:gs%d:-:0:u:0", t, t))
	}
	for k, d := range g.decls {
		tok = append(tok, fmt.Sprintf("f:g%d:f%d:f%d:-:f%d:s:g%d", d.src, k, k, k, d.tgt))
	}
	for k, d := range g.decls {
		if d.index {
			tok = append(tok, fmt.Sprintf("bk:g%d:b%d:g%d", d.tgt, k, d.src))
		}
	}
	for k, d := range g.decls {
		switch {
		case d.index && d.cascade:
			tok = append(tok, fmt.Sprintf("fi:g%d:f%d:0:1:g%d:b%d", d.src, k, d.tgt, k))
		case d.index:
			tok = append(tok, fmt.Sprintf("fi:g%d:f%d:%s:0:g%d:b%d", d.src, k, uvB(d.nullable), d.tgt, k))
		default:
			cd := "n"
			if d.cascade {
				cd = "d"
			}
			tok = append(tok, fmt.Sprintf("fc:g%d:f%d:%s:%s:g%d", d.src, k, uvB(d.nullable), cd, d.tgt))
		}
	}
	sc, err := uvParseSchema(tok)
	if err != nil {
		return nil
	}
	sc.wire()
	g.sc = sc
	return g
}

func (g *c04GSchema) fieldsOf(t int) []int {
	var fs []int
	for k, d := range g.decls {
		if d.src == t {
			fs = append(fs, k)
		}
	}
	return fs
}

// my op -> the universe stream's op
func (g *c04GSchema) uvOp(op string) (string, bool) {
	f := strings.Split(op, ":")
	if len(f) < 3 {
		return "", false
	}
	t, err := strconv.Atoi(f[1])
	if err != nil || t < 0 || t >= g.n {
		return "", false
	}
	fs := g.fieldsOf(t)
	assigns := func(w string, sel string) (string, string, bool) {
		var vs []string
		if w != "_" {
			vs = strings.Split(w, "/")
		}
		if len(vs) != len(fs) || (sel != "" && sel != "_" && len(sel) != len(fs)) {
			return "", "", false
		}
		var as, names []string
		for j, k := range fs {
			as = append(as, fmt.Sprintf("f%d=%s", k, vs[j]))
			if sel != "" && sel != "_" && sel[j] == '1' {
				names = append(names, fmt.Sprintf("f%d", k))
			}
		}
		a, nm := "-", "-"
		if len(as) > 0 {
			a = strings.Join(as, ",")
		}
		if len(names) > 0 {
			nm = strings.Join(names, "+")
		}
		return a, nm, true
	}
	switch {
	case (f[0] == "c" || f[0] == "u") && len(f) == 4:
		a, _, ok := assigns(f[3], "")
		return fmt.Sprintf("%s:g%d:%s:%s", f[0], t, f[2], a), ok
	case f[0] == "p" && len(f) == 5:
		a, nm, ok := assigns(f[4], f[3])
		return fmt.Sprintf("p:g%d:%s:%s:%s", t, f[2], nm, a), ok
	case f[0] == "d" && len(f) == 3:
		return fmt.Sprintf("d:g%d:%s", t, f[2]), true
	}
	return "", false
}

func c04GRunTx(rn *c04Runner, g *c04GSchema, tx string) (res string) {
	ops := strings.Split(tx, ",")
	failed := -1
	defer func() {
		if r := recover(); r != nil {
			if _, ok := r.(c04Diverge); ok {
				res = fmt.Sprintf("%d:diverge", failed)
				return
			}
			panic(r)
		}
	}()
	err := rn.update(func(base boltz.MutateContext) error {
		for i, op := range ops {
			failed = i
			uop, ok := g.uvOp(op)
			if !ok {
				return fmt.Errorf("bad op %q", op)
			}
			if err := g.sc.apply(&c04Guard{MutateContext: base}, uop); err != nil {
				return err
			}
		}
		return nil
	})
	if err != nil {
		return fmt.Sprintf("%d:%s", failed, c04ErrEnum(err))
	}
	return "ok"
}

func c04GObserve(rn *c04Runner, g *c04GSchema) (coarse string, n int) {
	_ = rn.view(func(btx *bbolt.Tx) error {
		var cl []string
		ids := make([][]string, g.n)
		for t := 0; t < g.n; t++ {
			st := g.sc.stores[t]
			ids[t] = c04Ids(btx, st.bs)
			n += len(ids[t])
			cl = append(cl, fmt.Sprintf("S%d:%s", t, c04HexList(ids[t])))
			fs := g.fieldsOf(t)
			for _, id := range ids[t] {
				e, found, err := st.bs.FindById(btx, id)
				if err != nil || !found || e == nil {
					cl = append(cl, fmt.Sprintf("%d:%s:unreadable", t, toWire(id)))
					continue
				}
				var vs []string
				for _, k := range fs {
					vs = append(vs, c04FV(e.S[fmt.Sprintf("f%d", k)]))
				}
				cl = append(cl, fmt.Sprintf("%d:%s:%s", t, toWire(id), strings.Join(vs, "/")))
			}
		}
		for k, d := range g.decls {
			if !d.index {
				continue
			}
			for _, y := range ids[d.tgt] {
				cl = append(cl, fmt.Sprintf("K%d:%s:%s", k, toWire(y),
					c04HexList(g.sc.stores[d.tgt].bs.GetRelatedEntitiesIdList(btx, y, fmt.Sprintf("b%d", k)))))
			}
		}
		coarse = strings.Join(cl, "\n")
		return nil
	})
	return
}

var c04GCache = map[string]*c04GSchema{}

func c04GenExec(f []string) string {
	verbose := f[0] == "G"
	g, ok := c04GCache[f[1]]
	if !ok {
		g = c04GParse(f[1])
		if len(c04GCache) > 64 {
			c04GCache = map[string]*c04GSchema{}
		}
		c04GCache[f[1]] = g
	}
	if g == nil {
		return "bad-case"
	}
	var rn *c04Runner
	if g.reuse {
		rn = c04ReuseRunner(c04OpenBoltzDb())
	} else {
		rn = c04DirectRunner(c04OpenDb())
	}
	_ = rn.fresh(func(ctx boltz.MutateContext) error {
		if ctx.Tx().Bucket([]byte("u")) != nil {
			return ctx.Tx().DeleteBucket([]byte("u"))
		}
		return nil
	})
	var out []string
	for _, tx := range f[2:] {
		if tx == "" {
			continue
		}
		res := c04GRunTx(rn, g, tx)
		coarse, n := c04GObserve(rn, g)
		cnt := fmt.Sprintf("@%d,0", n)
		if verbose {
			out = append(out, res+"#*#{"+strings.ReplaceAll(coarse, "\n", "|")+"}"+cnt)
		} else {
			out = append(out, res+"#*#"+c04Fnv(coarse)+cnt)
		}
	}
	if len(out) == 0 {
		return "empty"
	}
	return strings.Join(out, " ")
}

// ------------------------------------------------------------------ generator

type c04GShadow struct {
	rows []map[string][]string // per store: id -> value per declaration number ("" = null); only own fields meaningful
}

func (s *c04GShadow) clone() *c04GShadow {
	c := &c04GShadow{rows: make([]map[string][]string, len(s.rows))}
	for t, m := range s.rows {
		c.rows[t] = map[string][]string{}
		for id, r := range m {
			c.rows[t][id] = append([]string{}, r...)
		}
	}
	return c
}

func (s *c04GShadow) ids(t int) []string {
	var xs []string
	for id := range s.rows[t] {
		xs = append(xs, id)
	}
	sort.Strings(xs)
	return xs
}

type c04GGen struct {
	r     *rng
	decls []c04GDecl
	n     int
	pools [][]string
	sh    *c04GShadow
}

func (g *c04GGen) fieldsOf(t int) []int {
	var fs []int
	for k, d := range g.decls {
		if d.src == t {
			fs = append(fs, k)
		}
	}
	return fs
}

// believed write check
func (g *c04GGen) writeOk(t int, id string, row []string, create bool) bool {
	old := g.sh.rows[t][id]
	for _, k := range g.fieldsOf(t) {
		d := g.decls[k]
		if !create && old != nil && old[k] == row[k] {
			continue
		}
		if row[k] == "" {
			if !d.nullable || (d.index && d.cascade) {
				return false
			}
			continue
		}
		if _, ok := g.sh.rows[d.tgt][row[k]]; !ok && !(d.tgt == t && row[k] == id) {
			return false
		}
	}
	return true
}

// believed delete: closure through cascading declarations, refused when a restrict referrer remains
func (g *c04GGen) deleteOk(t int, id string) (bool, map[[2]string]bool) {
	key := func(t int, id string) [2]string { return [2]string{strconv.Itoa(t), id} }
	gone := map[[2]string]bool{key(t, id): true}
	for grew := true; grew; {
		grew = false
		for k, d := range g.decls {
			if !d.cascade {
				continue
			}
			for x, row := range g.sh.rows[d.src] {
				if row[k] != "" && gone[key(d.tgt, row[k])] && !gone[key(d.src, x)] {
					gone[key(d.src, x)] = true
					grew = true
				}
			}
		}
	}
	for k, d := range g.decls {
		if d.cascade {
			continue
		}
		for x, row := range g.sh.rows[d.src] {
			if row[k] != "" && gone[key(d.tgt, row[k])] && !gone[key(d.src, x)] {
				return false, gone
			}
		}
	}
	return true, gone
}

func (g *c04GGen) value(t int, self string, k int) (wire string, val string) {
	d := g.decls[k]
	r := g.r
	tg := g.sh.ids(d.tgt)
	mayNull := d.nullable && !(d.index && d.cascade)
	switch {
	case mayNull && r.chance(1, 4):
		if r.chance(1, 3) {
			return "-", ""
		}
		return "~", ""
	case !mayNull && r.chance(1, 25):
		return "~", ""
	case d.tgt == t && (len(tg) == 0 || r.chance(1, 4)):
		return toWire(self), self
	case len(tg) > 0 && !r.chance(1, 12):
		v := pick(r, tg)
		return toWire(v), v
	default:
		v := pick(r, g.pools[d.tgt])
		return toWire(v), v
	}
}

func (g *c04GGen) genOp() (string, func() bool) {
	r := g.r
	t := r.intn(g.n)
	fs := g.fieldsOf(t)
	live := g.sh.ids(t)
	mkRow := func(id string) (string, []string) {
		row := make([]string, len(g.decls))
		var ws []string
		for _, k := range fs {
			w, v := g.value(t, id, k)
			ws = append(ws, w)
			row[k] = v
		}
		if len(ws) == 0 {
			return "_", row
		}
		return strings.Join(ws, "/"), row
	}
	switch c := r.intn(10); {
	case c < 4 || len(live) == 0:
		id := pick(r, g.pools[t])
		w, row := mkRow(id)
		return fmt.Sprintf("c:%d:%s:%s", t, toWire(id), w), func() bool {
			if _, ex := g.sh.rows[t][id]; ex || !g.writeOk(t, id, row, true) {
				return false
			}
			g.sh.rows[t][id] = row
			return true
		}
	case c < 7:
		id := pick(r, live)
		if r.chance(1, 15) {
			id = pick(r, g.pools[t])
		}
		w, row := mkRow(id)
		patch := r.chance(1, 2) && len(fs) > 0
		mask := ""
		if patch {
			for range fs {
				if r.chance(1, 2) {
					mask += "1"
				} else {
					mask += "0"
				}
			}
		}
		apply := func() bool {
			old, ex := g.sh.rows[t][id]
			if !ex {
				return false
			}
			nr := append([]string{}, row...)
			if patch {
				for j, k := range fs {
					if mask[j] == '0' {
						nr[k] = old[k]
					}
				}
			}
			if !g.writeOk(t, id, nr, false) {
				return false
			}
			g.sh.rows[t][id] = nr
			return true
		}
		if patch {
			return fmt.Sprintf("p:%d:%s:%s:%s", t, toWire(id), mask, w), apply
		}
		return fmt.Sprintf("u:%d:%s:%s", t, toWire(id), w), apply
	default:
		// deletes prefer referenced entities
		id := pick(r, live)
		for try := 0; try < 3; try++ {
			refd := false
			for k, d := range g.decls {
				if d.tgt != t {
					continue
				}
				for _, row := range g.sh.rows[d.src] {
					if row[k] == id {
						refd = true
					}
				}
			}
			if refd {
				break
			}
			id = pick(r, live)
		}
		if r.chance(1, 15) {
			id = pick(r, g.pools[t])
		}
		return fmt.Sprintf("d:%d:%s", t, toWire(id)), func() bool {
			if _, ex := g.sh.rows[t][id]; !ex {
				return false
			}
			ok, gone := g.deleteOk(t, id)
			if !ok {
				return false
			}
			for k := range gone {
				tt, _ := strconv.Atoi(k[0])
				delete(g.sh.rows[tt], k[1])
			}
			return true
		}
	}
}

func c04GRandDecl(r *rng, n int) c04GDecl {
	d := c04GDecl{src: r.intn(n), tgt: r.intn(n), index: r.chance(1, 2), nullable: r.chance(1, 2), cascade: r.chance(1, 2)}
	if d.index && d.cascade {
		d.nullable = false
	}
	return d
}

func c04GenGHistory(r *rng, out *bufio.Writer) {
	n := 2 + r.intn(3)
	var decls []c04GDecl
	kind := func() (bool, bool) { return r.chance(1, 2), r.chance(1, 2) }
	switch r.intn(6) {
	case 0: // an fk index (restrict through the back-reference set) reached by a cascade
		if n < 3 {
			n = 3
		}
		i1, _ := kind()
		decls = append(decls, c04GDecl{src: 1, tgt: 0, index: i1, nullable: !i1 && r.chance(1, 2), cascade: true},
			c04GDecl{src: 2, tgt: 1, index: true, nullable: r.chance(1, 2)})
	case 1: // a restrict declaration pointing into a self-referencing cascade
		i1, n1 := kind()
		decls = append(decls, c04GDecl{src: 0, tgt: 0, index: r.chance(2, 3), cascade: true},
			c04GDecl{src: 1, tgt: 0, index: i1, nullable: n1})
		if decls[0].index == false {
			decls[0].nullable = r.chance(1, 2)
		}
	case 2, 3: // a cycle of length 2–3 across stores mixing index and constraint
		l := 2 + r.intn(2)
		if n < l {
			n = l
		}
		for j := 0; j < l; j++ {
			ix, nl := kind()
			d := c04GDecl{src: j, tgt: (j + 1) % l, index: ix, nullable: nl || j == 0, cascade: !r.chance(1, 5)}
			if d.index && d.cascade {
				d.nullable = false
				if j == 0 {
					d.index = false
					d.nullable = true
				}
			}
			decls = append(decls, d)
		}
	case 4: // several declarations between the same two stores
		i1, n1 := kind()
		decls = append(decls, c04GDecl{src: 1, tgt: 0, index: i1, nullable: n1 && !i1, cascade: true},
			c04GDecl{src: 1, tgt: 0, index: r.chance(1, 2), nullable: true})
	}
	want := 1 + r.intn(6)
	for len(decls) < want {
		decls = append(decls, c04GRandDecl(r, n))
	}
	if len(decls) > 6 {
		decls = decls[:6]
	}
	if r.chance(1, 3) { // registration order matters (Indexer.constraints): shuffle
		for i := len(decls) - 1; i > 0; i-- {
			j := r.intn(i + 1)
			decls[i], decls[j] = decls[j], decls[i]
		}
	}
	g := &c04GGen{r: r, decls: decls, n: n, sh: &c04GShadow{}}
	hostile := r.chance(1, 3)
	shared := r.chance(1, 2)
	var base []string
	for t := 0; t < n; t++ {
		g.sh.rows = append(g.sh.rows, map[string][]string{})
		var pool []string
		if shared && t > 0 {
			pool = append(pool, base...)
		} else {
			for len(pool) < 3+r.intn(3) {
				var id string
				if hostile {
					id = pick(r, c04Pool)
				} else {
					id = string(rune('a' + r.intn(8)))
				}
				dup := false
				for _, p := range pool {
					dup = dup || p == id
				}
				if !dup {
					pool = append(pool, id)
				}
			}
		}
		if t == 0 {
			base = pool
		}
		g.pools = append(g.pools, pool)
	}
	reuse := "0"
	if r.chance(2, 5) {
		reuse = "1"
	}
	hd := []string{reuse, strconv.Itoa(n)}
	for _, d := range decls {
		hd = append(hd, d.String())
	}
	line := []string{"g", strings.Join(hd, ";")}
	ntx := 8 + r.intn(20)
	for k := 0; k < ntx; k++ {
		nops := 1
		if r.chance(1, 4) {
			nops = 2 + r.intn(2)
		}
		before := g.sh.clone()
		var ops []string
		okAll := true
		for j := 0; j < nops; j++ {
			var op string
			var apply func() bool
			for try := 0; try < 6; try++ {
				save := g.sh.clone()
				op, apply = g.genOp()
				if apply() || r.chance(1, 8) {
					g.sh = save
					break
				}
				g.sh = save
			}
			ops = append(ops, op)
			if okAll && !apply() {
				okAll = false
			}
		}
		if !okAll {
			g.sh = before
		}
		line = append(line, strings.Join(ops, ","))
	}
	fmt.Fprintln(out, strings.Join(line, " "))
}

func c04GenG(tier string, r *rng, out *bufio.Writer) {
	n := 3000
	if tier == "thorough" {
		n = 20000
	}
	for i := 0; i < n; i++ {
		c04GenGHistory(r, out)
	}
}
