package main

// C20: queries assembled through the exported API of package ast rather than by the parser alone
// (tag a), and what the Query interface hands out besides Accept.
//
//	a <mask> <maps> <pub> x<hex recipe> <tree>
//	recipe := <text1> \x1f <text2> \x1f <op>{;<op>}
//
// base := ast.Parse(text1), other := ast.Parse(text2), then the ops in order:
//
//	P    base.SetPredicate(other.GetPredicate())
//	A    base.AdoptSortFields(other)
//	&    base.SetPredicate(ast.NewAndExprNode(base.GetPredicate(), other.GetPredicate()))
//	&n &t &T   … NewAndExprNode(x, other.GetPredicate()) with x = nil, (*ast.BoolConstNode)(nil), (*ast.AndExprNode)(nil)
//	Pn Pt PT Pz   base.SetPredicate(nil | (*ast.BoolConstNode)(nil) | (*ast.NotExprNode)(nil) | &ast.NotExprNode{})
//	S<n> L<n>     base.SetSkip(n), base.SetLimit(n)
//	I<sym>        base.SetPredicate(p) with p the untyped `sym in ["a"]` built by NewInArrayExprNode and typed by ast.PostProcess
//	B<sym>        base.SetPredicate(ast.NewInt64BetweenOp({typed sym, (*ast.LimitExprNode)(nil), (*ast.SkipExprNode)(nil)}))
//
// <tree> is the resulting query read field by field; exec runs the recipe again and checks that.
//
// The line ends with `// X <names> // G <names>`: what the assembled query references BY CONSTRUCTION, computed from the
// recipe's inputs and not from the resulting object — X: the identifiers of the predicate(s) handed in (listener tree of
// the text, resp. the symbol given to I/B) followed by the identifiers of the sort clause that is in force (the base
// text's own, or the one adopted from `other`), in visit order; G: that sort clause's identifiers, i.e. exactly what
// GetSortFields() of the result must list.  The specification judges verdict, named symbol and the set of announced
// symbols against X, and GetSortFields() against G.

import (
	"fmt"
	"reflect"
	"strconv"
	"strings"

	"github.com/openziti/storage/ast"
)

func c20RunRecipe(st *c20Stores, recipe string) (q ast.Query, err error) {
	defer func() {
		if r := recover(); r != nil {
			q, err = nil, fmt.Errorf("recipe panicked: %v", r)
		}
	}()
	parts := strings.Split(recipe, "\x1f")
	if len(parts) != 3 {
		return nil, fmt.Errorf("bad recipe")
	}
	base, err := ast.Parse(st.a, parts[0])
	if err != nil {
		return nil, err
	}
	other, err := ast.Parse(st.a, parts[1])
	if err != nil {
		return nil, err
	}
	for _, op := range strings.Split(parts[2], ";") {
		switch {
		case op == "":
		case op == "P":
			base.SetPredicate(other.GetPredicate())
		case op == "A":
			if err := base.AdoptSortFields(other); err != nil {
				return nil, err
			}
		case op == "&":
			base.SetPredicate(ast.NewAndExprNode(base.GetPredicate(), other.GetPredicate()))
		case op == "&n":
			base.SetPredicate(ast.NewAndExprNode(nil, other.GetPredicate()))
		case op == "&t":
			base.SetPredicate(ast.NewAndExprNode((*ast.BoolConstNode)(nil), other.GetPredicate()))
		case op == "&T":
			base.SetPredicate(ast.NewAndExprNode((*ast.AndExprNode)(nil), other.GetPredicate()))
		case op == "Pn":
			base.SetPredicate(nil)
		case op == "Pt":
			base.SetPredicate((*ast.BoolConstNode)(nil))
		case op == "PT":
			base.SetPredicate((*ast.NotExprNode)(nil))
		case op == "Pz":
			base.SetPredicate(&ast.NotExprNode{})
		case op[0] == 'S' || op[0] == 'L':
			n, err := strconv.ParseInt(op[1:], 10, 64)
			if err != nil {
				return nil, err
			}
			if op[0] == 'S' {
				base.SetSkip(n)
			} else {
				base.SetLimit(n)
			}
		case op[0] == 'I':
			var p ast.BoolNode = ast.NewInArrayExprNode(ast.NewUntypedSymbolNode(op[1:]), ast.NewStringArrayNode([]string{"a"}))
			if err := ast.PostProcess(st.a, &p); err != nil {
				return nil, err
			}
			base.SetPredicate(p)
		case op[0] == 'B':
			sym, err := ast.NewUntypedSymbolNode(op[1:]).(*ast.UntypedSymbolNode).TypeTransform(st.a)
			if err != nil {
				return nil, err
			}
			i64, ok := sym.(ast.Int64Node)
			if !ok {
				return nil, fmt.Errorf("%s is not an int64 symbol", op[1:])
			}
			p, err := ast.NewInt64BetweenOp([]ast.Int64Node{i64, (*ast.LimitExprNode)(nil), (*ast.SkipExprNode)(nil)})
			if err != nil {
				return nil, err
			}
			base.SetPredicate(p)
		default:
			return nil, fmt.Errorf("bad op %q", op)
		}
	}
	return base, nil
}

// identifiers of the predicate and of the sort clause of a query text, from the untyped tree the listener builds
func c20TextSymbols(text string) (pred, sort []string, err error) {
	if text == "" {
		return nil, nil, nil
	}
	n, err := c20UntypedTree(text)
	if err != nil {
		return nil, nil, err
	}
	rv := reflect.ValueOf(n)
	for rv.Kind() == reflect.Ptr || rv.Kind() == reflect.Interface {
		rv = rv.Elem()
	}
	part := func(field string) []string {
		f, ok := c20FieldByName(rv.Type(), field)
		if !ok {
			return nil
		}
		fv := rv.FieldByIndex(f.index)
		if (fv.Kind() == reflect.Ptr || fv.Kind() == reflect.Interface) && fv.IsNil() {
			return nil
		}
		toks, _, _ := c20WalkNode(c20Settable(fv).Interface(), nil)
		var res []string
		for i := 0; i+4 < len(toks); i++ {
			if toks[i] == "N" && toks[i+1] == "UntypedSymbolNode" && toks[i+2] == "1" && toks[i+3] == "symbol" {
				if s, err := c20UnName(toks[i+4]); err == nil {
					res = append(res, s)
				}
			}
		}
		return res
	}
	return part("predicate"), part("sortBy"), nil
}

// what the assembled query references by construction (see the file comment)
func c20RecipeExpected(recipe string) (x, g []string, err error) {
	parts := strings.Split(recipe, "\x1f")
	if len(parts) != 3 {
		return nil, nil, fmt.Errorf("bad recipe")
	}
	pred, sort, err := c20TextSymbols(parts[0])
	if err != nil {
		return nil, nil, err
	}
	opred, osort, err := c20TextSymbols(parts[1])
	if err != nil {
		return nil, nil, err
	}
	for _, op := range strings.Split(parts[2], ";") {
		switch {
		case op == "" || op[0] == 'S' || op[0] == 'L':
		case op == "P" || op == "&n" || op == "&t" || op == "&T":
			pred = append([]string{}, opred...)
		case op == "A":
			sort = append([]string{}, osort...)
		case op == "&":
			pred = append(append([]string{}, pred...), opred...)
		case op == "Pn" || op == "Pt" || op == "PT" || op == "Pz":
			pred = nil
		case op[0] == 'I' || op[0] == 'B':
			pred = []string{op[1:]}
		default:
			return nil, nil, fmt.Errorf("bad op %q", op)
		}
	}
	return append(append([]string{}, pred...), sort...), sort, nil
}

var c20RecipeOps = [][]string{{"P"}, {"A"}, {"P", "A"}, {"&"}, {"&", "A"}, {"&n"}, {"&t"}, {"&T"}, {"Pn"}, {"Pt"}, {"PT"}, {"Pz"},
	{"S3"}, {"L7"}, {"S1", "L2", "A"}, {"Iname"}, {"Itags.k"}, {"Ikids.label"}, {"Bn"}, {"Btags.k"}, {"Bn", "A"}, {"A", "&"}, {"Imeta.x", "A", "L0"}}

var c20RecipeTexts = []string{``, `true`, `name = "x"`, `flag`, `n > 1 sort by n desc`, `true sort by name, tags.k`, `tags.k = null sort by boss.name limit 2`,
	`anyOf(roles) = "a" sort by id`, `count(from kids where label = "x" sort by name) > 0`, `meta.x contains "a" skip 1`,
	`not isEmpty(kids) and at != null sort by at, f, flag`, `sort by kids.label`, `true limit none`,
	`true sort by id, name, n, f, flag, at`, `flag sort by kids.label, boss.name desc, id, id`,
	`count(from kids where name = "x" sort by label) > 1.5 sort by n`, `count(from kids where n > 1) between 0.5 and 3.5`,
	`n in [1, 2] sort by a, b`} // the last one does not parse (unknown symbols): skipped

func (e *c20Emitter) recipes(thorough bool) {
	base := c20StoreFor(0)
	n := 0
	for i, t1 := range c20RecipeTexts {
		for j, t2 := range c20RecipeTexts {
			for k, ops := range c20RecipeOps {
				// quick tier: a slice of the product that still uses every op and every text
				if !thorough && (i+2*j+k)%7 != 0 {
					continue
				}
				recipe := t1 + "\x1f" + t2 + "\x1f" + strings.Join(ops, ";")
				q, err := c20RunRecipe(base, recipe)
				if err != nil {
					continue
				}
				toks, strs, _ := c20WalkNode(q, nil)
				x, g, err := c20RecipeExpected(recipe)
				if err != nil {
					continue
				}
				strs = append(strs, x...)
				toks = append(append(append(toks, "//", "X", c20Names(x)), "//", "G"), c20Names(g))
				cap := 3
				if thorough {
					cap = 5
				}
				for _, m := range e.masks(strs, cap) {
					e.line("a", m, recipe, toks)
				}
				n++
			}
		}
	}
}

// what the Query interface hands out besides Accept: the symbols of GetSortFields() (`!` where Symbol() panics)
// and whether GetPredicate() is the node stored in the predicate field
func c20ApiObservations(q ast.Query, toks []string) string {
	var syms []string
	func() {
		defer func() {
			if r := recover(); r != nil {
				syms = append(syms, "?")
			}
		}()
		for _, sf := range q.GetSortFields() {
			func() {
				defer func() {
					if r := recover(); r != nil {
						syms = append(syms, "!")
					}
				}()
				syms = append(syms, c20Name(sf.Symbol()))
			}()
		}
	}()
	g := "-"
	if len(syms) > 0 {
		g = strings.Join(syms, ",")
	}
	gp := 0
	func() {
		defer func() { _ = recover() }()
		// the tree is `N queryNode 0 4 Predicate <tree> SortBy …`: compare the getter's node with the first child
		pt, _, _ := c20WalkNode(q.GetPredicate(), nil)
		if len(toks) > 5+len(pt) && toks[4] == "Predicate" && strings.Join(toks[5:5+len(pt)], " ") == strings.Join(pt, " ") && toks[5+len(pt)] == "SortBy" {
			gp = 1
		}
	}()
	return fmt.Sprintf(" g=%s gp=%d", g, gp)
}
