package main

import (
	"encoding/hex"
	"fmt"
	"io"
	"os"
	"reflect"
	"runtime"
	"strings"
	"time"

	"github.com/openziti/storage/boltz"
	"go.etcd.io/bbolt"
)

// C17 — `stage api:<Method>`: a Db method called from INSIDE a transaction body while a restore is waiting.
//
//	Update{ <a RestoreSnapshot is started and has reached reloadLock.Lock()> ; db.<Method>(…) }
//
// The method is found by reflection on *boltz.DbImpl and its arguments are made up from the parameter types
// (the running *bbolt.Tx / MutateContext where it takes them), so the list of methods comes from outside: the
// check module generates one case per method of the lock table regenerated from boltz/db.go.
// The body waits for the call; if it has not returned within the watchdog the outcome is `hang:<goroutine dump>`
// (the method took the reload read lock again behind the waiting writer; the restore waits for the transaction,
// the transaction for the method) — then the body gives up, which lets restore and call run to their end, so
// nothing stays blocked in the harness process.  Return values are not looked at (RootBucket reports a missing
// root bucket): the question is whether the call returns.
// Not called: Close / Open (lifecycle) and RestoreSnapshot / RestoreFromReader (a restore from inside a
// transaction waits for its own read hold).
var c17ApiExcluded = map[string]bool{"Close": true, "Open": true, "RestoreSnapshot": true, "RestoreFromReader": true}

// ids of the goroutines that are inside RestoreFromReader waiting in RWMutex.Lock
func c17PendingWriters() map[string]bool {
	buf := make([]byte, 1<<20)
	n := runtime.Stack(buf, true)
	res := map[string]bool{}
	for _, g := range strings.Split(string(buf[:n]), "\n\n") {
		if strings.Contains(g, "RestoreFromReader") && strings.Contains(g, "sync.(*RWMutex).Lock") {
			if i := strings.Index(g, " ["); i > 0 {
				res[g[:i]] = true
			}
		}
	}
	return res
}

func c17WaitWriterPending(before map[string]bool, limit time.Duration) bool {
	deadline := time.Now().Add(limit)
	for time.Now().Before(deadline) {
		for id := range c17PendingWriters() {
			if !before[id] {
				return true
			}
		}
		time.Sleep(2 * time.Millisecond)
	}
	return false
}

func c17ApiArgs(mt reflect.Type, ctx boltz.MutateContext, tx *bbolt.Tx, e *c17Env) []reflect.Value {
	var args []reflect.Value
	for i := 0; i < mt.NumIn(); i++ {
		t := mt.In(i)
		var v reflect.Value
		switch t.String() {
		case "*bbolt.Tx":
			v = reflect.ValueOf(tx)
		case "boltz.MutateContext":
			v = reflect.ValueOf(ctx)
		case "string":
			v = reflect.ValueOf(e.slot("api"))
		case "func(*bbolt.Tx) error":
			v = reflect.ValueOf(func(*bbolt.Tx) error { return nil })
		case "func(boltz.MutateContext) error":
			v = reflect.ValueOf(func(boltz.MutateContext) error { return nil })
		case "func(boltz.MutateContext)":
			v = reflect.ValueOf(func(boltz.MutateContext) {})
		case "func()":
			v = reflect.ValueOf(func() {})
		case "func() (string, error)":
			v = reflect.ValueOf(func() (string, error) { return "Tapi", nil })
		case "io.Writer":
			v = reflect.ValueOf(io.Discard)
		case "boltz.TimelineMode":
			v = reflect.ValueOf(boltz.TimelineModeDefault)
		default:
			v = reflect.Zero(t)
		}
		if !v.Type().AssignableTo(t) {
			v = v.Convert(t)
		}
		args = append(args, v)
	}
	return args
}

func c17StageApi(name string) string {
	if c17ApiExcluded[name] {
		return "excluded"
	}
	e, err := c17Open()
	if err != nil {
		return "setup-failed"
	}
	m := reflect.ValueOf(e.db).MethodByName(name)
	if !m.IsValid() {
		e.close()
		return "nomethod"
	}
	snapPath, _, err := e.db.Snapshot(e.slot("A"))
	if err != nil {
		e.close()
		return "setup-failed"
	}
	snapBytes, _ := os.ReadFile(snapPath)
	before := c17PendingWriters()
	restoreDone := make(chan string, 1)
	callDone := make(chan string, 1)
	result := "ok"
	hung := false
	_ = e.db.Update(nil, func(ctx boltz.MutateContext) error {
		go func() {
			defer func() {
				if rec := recover(); rec != nil {
					restoreDone <- "panic:" + hex.EncodeToString([]byte(fmt.Sprint(rec)))
				}
			}()
			e.db.RestoreSnapshot(snapBytes)
			restoreDone <- "ok"
		}()
		if !c17WaitWriterPending(before, 3*time.Second) {
			result = "setup-failed:no-waiting-restore"
			return nil
		}
		args := c17ApiArgs(m.Type(), ctx, ctx.Tx(), e)
		go func() {
			defer func() {
				if rec := recover(); rec != nil {
					callDone <- "panic:" + hex.EncodeToString([]byte(fmt.Sprint(rec)))
				}
			}()
			m.Call(args)
			callDone <- "ok"
		}()
		select {
		case r := <-callDone:
			result = r
		case <-time.After(c17Watchdog):
			hung = true
			result = "hang:" + c17LockStacks()
		}
		return nil
	})
	// the transaction is over: the restore gets its lock, and a call that was queued behind it runs (on a finished
	// transaction, if it was handed one: whatever it does then is not an observation)
	select {
	case r := <-restoreDone:
		if r != "ok" && !hung {
			result = r
		}
	case <-time.After(2 * c17Watchdog):
		_ = os.RemoveAll(e.dir)
		return "hang:" + c17LockStacks()
	}
	if hung {
		select {
		case <-callDone:
		case <-time.After(2 * c17Watchdog):
			_ = os.RemoveAll(e.dir)
			return result
		}
	}
	e.close()
	return result
}

// stage migrate: the repository's own transaction that calls Db methods from inside its body —
// migrationManager.Migrate with a version change: Update{ RootBucket(tx); SnapshotInTx(tx, GetDefaultSnapshotPath()); .. }.
// To place the restore between the start of that transaction and its calls: another Update holds bbolt's writer
// lock, Migrate's Update takes its read hold on reloadLock and waits for the writer lock, the restore is started and
// reaches reloadLock.Lock(), then the holder finishes.  Migrate must return within the watchdog.
func c17GoroutineWith(words ...string) bool {
	buf := make([]byte, 1<<20)
	n := runtime.Stack(buf, true)
	for _, g := range strings.Split(string(buf[:n]), "\n\n") {
		all := true
		for _, w := range words {
			all = all && strings.Contains(g, w)
		}
		if all {
			return true
		}
	}
	return false
}

func c17StageMigrate() string {
	e, err := c17Open()
	if err != nil {
		return "setup-failed"
	}
	err = e.db.Update(nil, func(ctx boltz.MutateContext) error {
		_, err := ctx.Tx().CreateBucketIfNotExists([]byte("root"))
		return err
	})
	mm := boltz.NewMigratorManager(e.db)
	if err == nil {
		err = mm.Migrate("c17", 1, func(*boltz.MigrationStep) int { return 1 })
	}
	var snapBytes []byte
	if err == nil {
		var snapPath string
		if snapPath, _, err = e.db.Snapshot(e.slot("A")); err == nil {
			snapBytes, err = os.ReadFile(snapPath)
		}
	}
	if err != nil {
		e.close()
		return "setup-failed"
	}
	hold := make(chan struct{})
	holderIn := make(chan struct{})
	holderDone := make(chan error, 1)
	go func() {
		holderDone <- e.db.Update(nil, func(boltz.MutateContext) error {
			close(holderIn)
			<-hold
			return nil
		})
	}()
	<-holderIn
	migrateDone := make(chan string, 1)
	go func() {
		defer func() {
			if rec := recover(); rec != nil {
				migrateDone <- "panic:" + hex.EncodeToString([]byte(fmt.Sprint(rec)))
			}
		}()
		if err := mm.Migrate("c17", 2, func(*boltz.MigrationStep) int { return 2 }); err != nil {
			migrateDone <- "txerr:migrate:" + hex.EncodeToString([]byte(err.Error()))
			return
		}
		migrateDone <- "ok"
	}()
	deadline := time.Now().Add(3 * time.Second)
	for !c17GoroutineWith("migrationManager).Migrate", "beginRWTx") && time.Now().Before(deadline) {
		time.Sleep(2 * time.Millisecond)
	}
	before := c17PendingWriters()
	restoreDone := make(chan string, 1)
	go func() {
		defer func() {
			if rec := recover(); rec != nil {
				restoreDone <- "panic:" + hex.EncodeToString([]byte(fmt.Sprint(rec)))
			}
		}()
		e.db.RestoreSnapshot(snapBytes)
		restoreDone <- "ok"
	}()
	pending := c17WaitWriterPending(before, 3*time.Second)
	close(hold)
	if !pending {
		<-holderDone
		return "setup-failed:no-waiting-restore"
	}
	res := "ok"
	for _, ch := range []chan string{migrateDone, restoreDone} {
		select {
		case r := <-ch:
			if r != "ok" && res == "ok" {
				res = r
			}
		case <-time.After(c17Watchdog):
			stacks := c17LockStacks()
			_ = os.RemoveAll(e.dir)
			return "hang:" + stacks
		}
	}
	e.close()
	return res
}
