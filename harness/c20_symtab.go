package main

// C20: the symbol types a query text is parsed against, as data for the Lean model of the
// type-directed transformation (lean/StorageModel/C20/Transform.lean).
//
//	symtab := S <n> { x<hex name> <NodeTypeXxx | -> <symtab | Z> }
//
// For every string that occurs in the untyped tree (a superset of its identifiers): what the real
// ast.SymbolTypes answers to GetSymbolType(name) (`-` = not found) and, where
// GetSetSymbolTypes(name) is not nil and the tree contains sub-queries, the same table for that
// linked type (nested as deep as sub-queries nest).

import (
	"sort"
	"strconv"

	"github.com/openziti/storage/ast"
)

func c20NodeTypeName(t ast.NodeType) string {
	switch t {
	case ast.NodeTypeBool:
		return "NodeTypeBool"
	case ast.NodeTypeDatetime:
		return "NodeTypeDatetime"
	case ast.NodeTypeFloat64:
		return "NodeTypeFloat64"
	case ast.NodeTypeInt64:
		return "NodeTypeInt64"
	case ast.NodeTypeString:
		return "NodeTypeString"
	case ast.NodeTypeAnyType:
		return "NodeTypeAnyType"
	}
	return "NodeTypeOther"
}

func c20SymTabToks(st ast.SymbolTypes, names []string, depth int) (toks []string) {
	defer func() {
		if r := recover(); r != nil {
			toks = []string{"S", "0"}
		}
	}()
	toks = []string{"S", strconv.Itoa(len(names))}
	for _, n := range names {
		tn := "-"
		if t, found := st.GetSymbolType(n); found {
			tn = c20NodeTypeName(t)
		}
		toks = append(toks, c20Name(n), tn)
		var sub ast.SymbolTypes
		if depth > 0 {
			sub = st.GetSetSymbolTypes(n)
		}
		if sub == nil {
			toks = append(toks, "Z")
		} else {
			toks = append(toks, c20SymTabToks(sub, names, depth-1)...)
		}
	}
	return toks
}

// the table for one parsed query: names = strings of its untyped tree, depth = number of sub-query nodes
func c20SymTabFor(st ast.SymbolTypes, untypedToks []string, strs []string) []string {
	seen := map[string]bool{}
	var names []string
	for _, s := range strs {
		if !seen[s] {
			seen[s] = true
			names = append(names, s)
		}
	}
	sort.Strings(names)
	depth := 0
	for _, t := range untypedToks {
		if t == "UntypedSubQueryNode" {
			depth++
		}
	}
	if depth > 3 {
		depth = 3
	}
	return c20SymTabToks(st, names, depth)
}
