package main

import (
	"bufio"
	"errors"
	"fmt"
	"io"
	"os"
	"path/filepath"
	"runtime"
	"sort"
	"strconv"
	"strings"
	"sync"
	"sync/atomic"

	"github.com/openziti/foundation/v2/errorz"
	"github.com/openziti/storage/ast"
	"github.com/openziti/storage/boltz"
	"github.com/openziti/storage/zitiql"
	"github.com/sirupsen/logrus"
	"go.etcd.io/bbolt"
)

// C18 cases
//
//	mv <readers> <keep> <seed> <tx> <tx> ...
//	    one writer goroutine commits the transactions in order (c:<ops> commit, a:<ops> body returns an
//	    error after the operations -> rollback), each committed one also stores the version counter;
//	    <readers> goroutines run read transactions (Db.View) until the writer is done; every read
//	    transaction reads the version counter, then 5 random observations (parse + QueryIds, unique /
//	    set index reads, link reads from both sides, LoadById), then the counter again.
//	    ops:  p<id>.<name>.<rank>.<r>+<r>  Create-or-Update    d<id> DeleteById if present
//	          l<id>.<g>+<g> SetLinks if present
//	    output: v<final counter> then one token per recorded read transaction
//	          <reader>.<n>:<tagStart>:<tagEnd>:<q>=<answer>|<q>=<answer>...
//	          q: N<n> K<n> R<r> G<g> H<g> T<k> iN<n> iR<r> lG<id> lM<g> E<id>; answer: numbers joined by '.', '-' if empty
//	          round 2:  A0 QueryIds ""   P<skip><limit> q := ast.Parse(things, ""), q.SetSkip / q.SetLimit (digit 0 = not called), QueryIdsC
//	          Q<rank><skip><limit> the same on `rank >= n`   X<b> even = true|false   Z<b><k> even = .. and rank >= k   Y<n> ext = "x<n>"
//	          (even, ext: externally computed symbols, NewBoolFuncSymbol / NewStringFuncSymbol + AddEntitySymbol)
//	          V<aa><bb> / W<aa><bb>: even / ext .Eval for row a<aa> held, .Eval for row a<bb>, then both values decoded
//	          round 3:  M<k><v> QueryIds `<nested map key k> = "s<v>"` (c18MapKeys: tags.site.name, tags.site.zone, tags.owner.name, tags.a.b.c,
//	          attrs.a.b.c, attrs.a.x.c, attrs.site.name, attrs.owner.name; tags registered with AddMapSymbol under ext/meta, attrs under ext/meta/deep)
//	          I<ka><kb><id> A := GetSymbol(key ka), B := GetSymbol(key kb), then A.Eval and B.Eval on row a<id>, decoded
//	          round 5:  FA<j> FindMatching / JA<j> IteratorMatchingAllOf / FO<j> FindMatchingAnyOf / JO<j> IteratorMatchingAnyOf on the roles set index
//	          with values slice number j (c18SharedVals), the SAME slice object for every reader; answer = 1|0 (caller's slice unchanged?) then the ids
//	          round 6:  U<t> QueryIds with template t of c18SpellTemplates in a spelling (keyword case, white space inside keyword operators) that no
//	          earlier parse of the process used
//	cr <readers> <iters> <seed> <kind,kind,..> <tx> <tx> ...
//	    the transactions are committed first (serially); then the harness evaluates, in one read transaction, every query of the
//	    listed kinds (token s.0, the serial baseline); then <readers> goroutines, released together, each run <iters> read
//	    transactions of 5 random queries of those kinds.  Recorded: the baseline, the first 2 read transactions of every reader and
//	    (up to 3 per reader) every read transaction with an answer that differs from the baseline.  Output format as for mv; the
//	    verdict is the Lean driver's: every recorded answer = model on the tagged version.
//	          round 14: C<k><aa> / D<k><aa><xx> cursor walks and re-walks after Seek, see c18_cursor.go
//	cw <seed> <event> ...   one goroutine plays a script of writer and reader events, see c18_cursor.go
//	race <scenario> <goroutines> <iters>       concurrent use of the helpers; prints "done" (or "wrong:<what>");
//	    the interesting output is the Go race detector's report when the harness is built with -race
//	    scenarios: parse getsymbol errors query extsym emptyfilter mapsym debugparse argslice cursorwalk pubsym sharedquery
func init() {
	register("c18", &propHarness{gen: c18Gen, exec: c18Exec})
	logrus.SetLevel(logrus.PanicLevel)
	logrus.SetOutput(io.Discard)
}

type c18Thing struct {
	Id    string
	Name  string
	Rank  int64
	Roles []string
}

func (e *c18Thing) GetId() string         { return e.Id }
func (e *c18Thing) SetId(id string)       { e.Id = id }
func (e *c18Thing) GetEntityType() string { return "things" }

type c18ThingStrategy struct{}

func (c18ThingStrategy) NewEntity() *c18Thing { return &c18Thing{} }
func (c18ThingStrategy) FillEntity(e *c18Thing, b *boltz.TypedBucket) {
	e.Name = b.GetStringOrError("name")
	e.Rank = b.GetInt64WithDefault("rank", -1)
	e.Roles = b.GetStringList("roles")
}
func (c18ThingStrategy) PersistEntity(e *c18Thing, ctx *boltz.PersistContext) {
	ctx.SetString("name", e.Name)
	ctx.SetInt64("rank", e.Rank)
	ctx.SetStringList("roles", e.Roles)
	// nested map data, a function of the rank (so the model needs no further field): see c18MapKeys
	for k, mk := range c18MapKeys {
		parts := strings.Split(mk.name, ".")
		path := append(append([]string{}, mk.prefix...), parts[:len(parts)-1]...)
		ctx.Bucket.GetOrCreatePath(path...).SetString(parts[len(parts)-1], fmt.Sprintf("s%d", c18MapVal(k, int(e.Rank))), nil)
	}
}

// nested elements of the two map symbols: tags lives under ext/meta (2-bucket prefix), attrs under ext/meta/deep (3)
var c18MapKeys = []struct {
	name   string
	prefix []string
}{
	{"tags.site.name", []string{"ext", "meta"}}, {"tags.site.zone", []string{"ext", "meta"}}, {"tags.owner.name", []string{"ext", "meta"}},
	{"tags.a.b.c", []string{"ext", "meta"}}, {"attrs.a.b.c", []string{"ext", "meta", "deep"}}, {"attrs.a.x.c", []string{"ext", "meta", "deep"}},
	{"attrs.site.name", []string{"ext", "meta", "deep"}}, {"attrs.owner.name", []string{"ext", "meta", "deep"}},
}

func c18MapVal(k, r int) int {
	switch k {
	case 0, 7:
		return r % 3
	case 1, 6:
		return (r + 1) % 3
	case 2:
		return (r + 2) % 3
	case 3:
		return r % 2
	case 4:
		return (r + 1) % 2
	case 5:
		return (2 * r) % 3
	}
	return 9
}

type c18Group struct {
	Id    string
	Label string
}

func (e *c18Group) GetId() string         { return e.Id }
func (e *c18Group) SetId(id string)       { e.Id = id }
func (e *c18Group) GetEntityType() string { return "groups" }

type c18GroupStrategy struct{}

func (c18GroupStrategy) NewEntity() *c18Group { return &c18Group{} }
func (c18GroupStrategy) FillEntity(e *c18Group, b *boltz.TypedBucket) {
	e.Label = b.GetStringOrError("label")
}
func (c18GroupStrategy) PersistEntity(e *c18Group, ctx *boltz.PersistContext) {
	ctx.SetString("label", e.Label)
}

type c18ThingStore struct {
	*boltz.BaseStore[*c18Thing]
}
type c18GroupStore struct {
	*boltz.BaseStore[*c18Group]
}

type c18Env struct {
	dir      string
	db       boltz.Db
	things   *c18ThingStore
	groups   *c18GroupStore
	idxName  boltz.ReadIndex
	idxRoles boltz.SetReadIndex
	links    boltz.LinkCollection
	members  boltz.EntitySetSymbol
	// round 5: values slices of set-index lookups, ONE slice object per entry shared by every reader of the case
	sharedVals [][]string
	even       boltz.EntitySymbol // externally computed: id a<n> -> n even
	ext        boltz.EntitySymbol // externally computed: id a<n> -> nil if n%4 == 3, else "x<n%3>"
	// round 14: `tags` is a PUBLIC map symbol, `attrs` is not; what the validation APIs say (serially) about the fixed names
	publicCount int
	publicFixed map[string]bool
}

// the pristine contents of the shared values slices (= sharedVals in C18/Store.lean): not ascending, a duplicate, single, empty
var c18SharedVals = [][]string{
	{"r2", "r0"}, {"r1", "r0"}, {"r2", "r1", "r0"}, {"r3", "r0", "r1"}, {"r4", "r2", "r0", "r1"}, {"r1"}, {"r2", "r0", "r2"}, {},
}

func c18IdNum(id string) int {
	if len(id) < 2 {
		return -1
	}
	n, err := strconv.Atoi(id[1:])
	if err != nil {
		return -1
	}
	return n
}

func c18Open() (*c18Env, error) {
	dir, err := os.MkdirTemp("", "verif-*")
	if err != nil {
		return nil, err
	}
	db, err := boltz.Open(filepath.Join(dir, "c18.db"), "root")
	if err != nil {
		os.RemoveAll(dir)
		return nil, err
	}
	e := &c18Env{dir: dir, db: db}
	e.things = &c18ThingStore{BaseStore: boltz.NewBaseStore(boltz.StoreDefinition[*c18Thing]{
		EntityType:      "things",
		EntityStrategy:  c18ThingStrategy{},
		BasePath:        []string{"u"},
		EntityNotFoundF: func(id string) error { return boltz.NewNotFoundError("thing", "id", id) },
	})}
	e.things.InitImpl(e.things)
	e.groups = &c18GroupStore{BaseStore: boltz.NewBaseStore(boltz.StoreDefinition[*c18Group]{
		EntityType:      "groups",
		EntityStrategy:  c18GroupStrategy{},
		BasePath:        []string{"u"},
		EntityNotFoundF: func(id string) error { return boltz.NewNotFoundError("group", "id", id) },
	})}
	e.groups.InitImpl(e.groups)

	e.things.AddIdSymbol("id", ast.NodeTypeString)
	symName := e.things.AddSymbol("name", ast.NodeTypeString)
	e.idxName = e.things.AddUniqueIndex(symName)
	e.things.AddSymbol("rank", ast.NodeTypeInt64)
	symRoles := e.things.AddSetSymbol("roles", ast.NodeTypeString)
	e.idxRoles = e.things.AddSetIndex(symRoles)
	symGroups := e.things.AddFkSetSymbol("groups", e.groups)

	for _, v := range c18SharedVals {
		e.sharedVals = append(e.sharedVals, append([]string{}, v...))
	}
	e.things.AddMapSymbol("tags", ast.NodeTypeAnyType, "tags", "ext", "meta")
	e.things.AddMapSymbol("attrs", ast.NodeTypeAnyType, "attrs", "ext", "meta", "deep")
	e.even = boltz.NewBoolFuncSymbol(e.things, "even", func(id string) bool {
		n := c18IdNum(id)
		return n >= 0 && n%2 == 0
	})
	e.things.AddEntitySymbol(e.even)
	e.ext = boltz.NewStringFuncSymbol(e.things, "ext", func(id string) *string {
		n := c18IdNum(id)
		if n < 0 || n%4 == 3 {
			return nil
		}
		v := fmt.Sprintf("x%d", n%3)
		return &v
	})
	e.things.AddEntitySymbol(e.ext)

	e.groups.AddIdSymbol("id", ast.NodeTypeString)
	e.groups.AddSymbol("label", ast.NodeTypeString)
	e.members = e.groups.AddFkSetSymbol("members", e.things)

	e.links = e.things.AddLinkCollection(symGroups, e.members)
	e.things.MakeSymbolPublic("tags")
	e.publicCount = len(e.things.GetPublicSymbols())
	e.publicFixed = map[string]bool{}
	for _, n := range []string{"id", "name", "rank", "roles", "groups", "tags", "attrs", "even", "nosuch", "tags.site.name", "attrs.site.name"} {
		e.publicFixed[n] = e.things.IsPublicSymbol(n)
	}
	e.groups.AddLinkCollection(e.members, symGroups)

	err = db.Update(nil, func(ctx boltz.MutateContext) error {
		holder := &errorz.ErrorHolderImpl{}
		e.things.InitializeIndexes(ctx.Tx(), holder)
		e.groups.InitializeIndexes(ctx.Tx(), holder)
		if holder.HasError() {
			return holder.GetError()
		}
		for i := 0; i < 3; i++ {
			if err := e.groups.Create(ctx, &c18Group{Id: fmt.Sprintf("g%d", i), Label: fmt.Sprintf("L%d", i)}); err != nil {
				return err
			}
		}
		b := boltz.GetOrCreatePath(ctx.Tx(), "ver")
		b.SetInt64("n", 0, nil)
		return b.GetError()
	})
	if err != nil {
		e.close()
		return nil, err
	}
	return e, nil
}

func (e *c18Env) close() {
	_ = e.db.Close()
	_ = os.RemoveAll(e.dir)
}

func c18Nums(s string) []int {
	if s == "" {
		return nil
	}
	var res []int
	for _, p := range strings.Split(s, "+") {
		n, _ := strconv.Atoi(p)
		res = append(res, n)
	}
	return res
}

func (e *c18Env) applyOp(ctx boltz.MutateContext, op string) error {
	tx := ctx.Tx()
	switch op[0] {
	case 'p':
		f := strings.Split(op[1:], ".")
		id, _ := strconv.Atoi(f[0])
		name, _ := strconv.Atoi(f[1])
		rank, _ := strconv.Atoi(f[2])
		var roles []string
		seen := map[int]bool{}
		rs := c18Nums(f[3])
		sort.Ints(rs)
		for _, r := range rs {
			if !seen[r] {
				seen[r] = true
				roles = append(roles, fmt.Sprintf("r%d", r))
			}
		}
		ent := &c18Thing{Id: fmt.Sprintf("a%d", id), Name: fmt.Sprintf("n%d", name), Rank: int64(rank), Roles: roles}
		if e.things.IsEntityPresent(tx, ent.Id) {
			return e.things.Update(ctx, ent, nil)
		}
		return e.things.Create(ctx, ent)
	case 'd':
		id, _ := strconv.Atoi(op[1:])
		sid := fmt.Sprintf("a%d", id)
		if e.things.IsEntityPresent(tx, sid) {
			return e.things.DeleteById(ctx, sid)
		}
		return nil
	case 'l':
		f := strings.Split(op[1:], ".")
		id, _ := strconv.Atoi(f[0])
		sid := fmt.Sprintf("a%d", id)
		if !e.things.IsEntityPresent(tx, sid) {
			return nil
		}
		var gs []string
		for _, g := range c18Nums(f[1]) {
			gs = append(gs, fmt.Sprintf("g%d", g))
		}
		return e.links.SetLinks(tx, sid, gs)
	}
	return errors.New("bad op " + op)
}

func c18Tag(tx *bbolt.Tx) int64 {
	b := boltz.Path(tx, "ver")
	if b == nil {
		return -1
	}
	return b.GetInt64WithDefault("n", -1)
}

func c18IdNums(ids []string) string {
	if len(ids) == 0 {
		return "-"
	}
	out := make([]string, len(ids))
	for i, id := range ids {
		if len(id) < 2 {
			out[i] = "?"
			continue
		}
		out[i] = id[1:]
	}
	return strings.Join(out, ".")
}

// one observation inside a read transaction
func (e *c18Env) observe(tx *bbolt.Tx, q string) string {
	arg := 0
	kind := strings.TrimRight(q, "0123456789")
	arg, _ = strconv.Atoi(q[len(kind):])
	query := func(text string) string {
		ids, _, err := e.things.QueryIds(tx, text)
		if err != nil {
			return "err"
		}
		return c18IdNums(ids)
	}
	// the caller's own query object: parse, adjust paging on it, run it
	paged := func(text string, skip, limit int) string {
		q, err := ast.Parse(e.things, text)
		if err != nil {
			return "err"
		}
		if skip > 0 {
			q.SetSkip(int64(skip))
		}
		if limit > 0 {
			q.SetLimit(int64(limit))
		}
		ids, _, err := e.things.QueryIdsC(tx, q)
		if err != nil {
			return "err"
		}
		return c18IdNums(ids)
	}
	switch kind {
	case "A":
		return query("")
	case "P":
		return paged("", arg/10, arg%10)
	case "Q":
		return paged(fmt.Sprintf(`rank >= %d`, arg/100), arg/10%10, arg%10)
	case "X":
		return query(fmt.Sprintf(`even = %v`, arg == 1))
	case "Z":
		return query(fmt.Sprintf(`even = %v and rank >= %d`, arg/10 == 1, arg%10))
	case "Y":
		return query(fmt.Sprintf(`ext = "x%d"`, arg))
	case "U":
		return query(c18FreshSpelling(arg))
	case "O":
		return e.c18SortFieldsTwice(arg)
	case "C", "D":
		return e.observeCursor(tx, kind, arg)
	case "FA", "FO", "JA", "JO":
		// a read-only set-index lookup with a values slice other read transactions are using too; the first number of the
		// answer says whether the caller's slice still holds what it held (post-condition of a read API)
		if arg >= len(e.sharedVals) {
			return "bad-q"
		}
		vals := e.sharedVals[arg]
		var ids []string
		switch kind {
		case "FA":
			ids = e.things.FindMatching(tx, e.idxRoles, vals)
		case "FO":
			ids = e.things.FindMatchingAnyOf(tx, e.idxRoles, vals)
			sort.Strings(ids)
		default:
			provider := e.things.IteratorMatchingAllOf(e.idxRoles, vals)
			if kind == "JO" {
				provider = e.things.IteratorMatchingAnyOf(e.idxRoles, vals)
			}
			for c := provider(tx, true); c.IsValid(); c.Next() {
				ids = append(ids, string(c.Current()))
			}
		}
		unchanged := "1"
		for i, v := range c18SharedVals[arg] {
			if vals[i] != v {
				unchanged = "0"
			}
		}
		if unchanged == "0" {
			copy(vals, c18SharedVals[arg]) // put it back, so that every later call starts from the caller's contents again
		}
		if len(ids) == 0 {
			return unchanged
		}
		return unchanged + "." + c18IdNums(ids)
	case "M":
		if arg/10 >= len(c18MapKeys) {
			return "bad-q"
		}
		return query(fmt.Sprintf(`%s = "s%d"`, c18MapKeys[arg/10].name, arg%10))
	case "I":
		// resolve symbol A, resolve symbol B, then evaluate A (and B): the schedule "reader 1 resolves its symbol, reader 2
		// resolves another nested key of the same map, reader 1 evaluates a row", played in one goroutine
		ka, kb, id := arg/1000, arg/100%10, arg%100
		if ka >= len(c18MapKeys) || kb >= len(c18MapKeys) {
			return "bad-q"
		}
		symA := e.things.GetSymbol(c18MapKeys[ka].name)
		symB := e.things.GetSymbol(c18MapKeys[kb].name)
		if symA == nil || symB == nil {
			return "err"
		}
		row := []byte(fmt.Sprintf("a%d", id))
		dec := func(t boltz.FieldType, v []byte) string {
			sv := boltz.FieldToString(t, v)
			if sv == nil || *sv == "" {
				return "9"
			}
			return strings.TrimPrefix(*sv, "s")
		}
		ta, va := symA.Eval(tx, row)
		tb, vb := symB.Eval(tx, row)
		return dec(ta, va) + "." + dec(tb, vb)
	case "V", "W":
		// two evaluations outstanding before either value is decoded (the schedule "reader 1 evaluates row a, reader 2
		// evaluates row b, reader 1 decodes"; the external symbols do not look at the transaction)
		sym := e.even
		if kind == "W" {
			sym = e.ext
		}
		ta, va := sym.Eval(tx, []byte(fmt.Sprintf("a%d", arg/100)))
		tb, vb := sym.Eval(tx, []byte(fmt.Sprintf("a%d", arg%100)))
		dec := func(t boltz.FieldType, v []byte) string {
			if kind == "V" {
				b := boltz.FieldToBool(t, v)
				if b == nil {
					return "9"
				}
				if *b {
					return "1"
				}
				return "0"
			}
			sv := boltz.FieldToString(t, v)
			if sv == nil || *sv == "" { // a nil string value decodes as "" (BytesToString)
				return "9"
			}
			return strings.TrimPrefix(*sv, "x")
		}
		return dec(ta, va) + "." + dec(tb, vb)
	case "N":
		return query(fmt.Sprintf(`name = "n%d"`, arg))
	case "K":
		return query(fmt.Sprintf(`rank >= %d`, arg))
	case "R":
		return query(fmt.Sprintf(`anyOf(roles) = "r%d"`, arg))
	case "G":
		return query(fmt.Sprintf(`anyOf(groups) = "g%d"`, arg))
	case "H":
		return query(fmt.Sprintf(`anyOf(groups.label) = "L%d"`, arg))
	case "T":
		return query(fmt.Sprintf(`true sort by rank desc limit %d`, arg))
	case "iN":
		id := e.idxName.Read(tx, []byte(fmt.Sprintf("n%d", arg)))
		if id == nil {
			return "-"
		}
		return c18IdNums([]string{string(id)})
	case "iR":
		var ids []string
		e.idxRoles.Read(tx, []byte(fmt.Sprintf("r%d", arg)), func(val []byte) { ids = append(ids, string(val)) })
		return c18IdNums(ids)
	case "lG":
		return c18IdNums(e.links.GetLinks(tx, fmt.Sprintf("a%d", arg)))
	case "lM":
		return c18IdNums(e.groups.GetRelatedEntitiesIdList(tx, fmt.Sprintf("g%d", arg), "members"))
	case "E":
		ent, found, err := e.things.FindById(tx, fmt.Sprintf("a%d", arg))
		if err != nil {
			return "err"
		}
		if !found {
			return "0"
		}
		parts := []string{"1", strings.TrimPrefix(ent.Name, "n"), strconv.FormatInt(ent.Rank, 10)}
		for _, r := range ent.Roles {
			parts = append(parts, strings.TrimPrefix(r, "r"))
		}
		return strings.Join(parts, ".")
	}
	return "bad-q"
}

var c18QKinds = []string{"C", "C", "D", "D", "O", "U", "U", "FA", "FO", "JA", "JO", "N", "K", "R", "G", "H", "T", "iN", "iR", "lG", "lM", "E", "A", "P", "Q", "X", "Z", "Y", "V", "W", "M", "M", "I"}

var c18MvIds = []int{0, 1, 2, 3, 4, 5}

func c18Range(lo, hi int) []int {
	var r []int
	for i := lo; i <= hi; i++ {
		r = append(r, i)
	}
	return r
}

// the arguments of one query kind over the row ids a case uses
func c18Args(kind string, ids []int) []int {
	var r []int
	switch kind {
	case "N", "iN":
		for _, id := range ids {
			for g := 0; g < 3; g++ {
				r = append(r, id*10+g)
			}
		}
	case "K":
		return c18Range(0, 5)
	case "R", "iR", "G", "H", "lM", "Y":
		return c18Range(0, 2)
	case "T":
		return c18Range(1, 4)
	case "A":
		return []int{0}
	case "P":
		for sk := 0; sk < 4; sk++ {
			for l := 0; l < 5; l++ {
				r = append(r, sk*10+l)
			}
		}
	case "Q":
		for n := 0; n < 4; n++ {
			for sk := 0; sk < 3; sk++ {
				for l := 0; l < 4; l++ {
					r = append(r, n*100+sk*10+l)
				}
			}
		}
	case "X":
		return []int{0, 1}
	case "Z":
		for b := 0; b < 2; b++ {
			for k := 0; k < 6; k++ {
				r = append(r, b*10+k)
			}
		}
	case "U":
		return c18Range(0, len(c18SpellTemplates)-1)
	case "O":
		return c18Range(1, 8)
	case "C":
		return c18CursorArgs(ids)
	case "D":
		return c18SeekArgs(ids)
	case "FA", "FO", "JA", "JO":
		return c18Range(0, len(c18SharedVals)-1)
	case "M":
		for k := range c18MapKeys {
			for v := 0; v < 3; v++ {
				r = append(r, k*10+v)
			}
		}
	case "I":
		sub := ids
		if len(sub) > 6 {
			sub = sub[:6]
		}
		for ka := range c18MapKeys {
			for kb := range c18MapKeys {
				if ka != kb {
					for _, id := range sub {
						r = append(r, ka*1000+kb*100+id)
					}
				}
			}
		}
	case "V", "W":
		sub := ids
		if len(sub) > 8 {
			sub = sub[:8]
		}
		for _, a := range sub {
			for _, b := range sub {
				r = append(r, a*100+b)
			}
		}
	default: // lG, E
		return ids
	}
	return r
}

func c18RandQ(r *rng, kinds []string, ids []int) string {
	k := pick(r, kinds)
	return k + strconv.Itoa(pick(r, c18Args(k, ids)))
}

// the writer: commits / aborts the transactions in order, the version counter written first in each
func (e *c18Env) runWriter(txs []string, yield bool) (int64, string) {
	committed := int64(0)
	for _, t := range txs {
		commit := t[0] == 'c'
		var ops []string
		if len(t) > 2 {
			ops = strings.Split(t[2:], "/")
		}
		err := e.db.Update(nil, func(ctx boltz.MutateContext) error {
			// the counter first, so that a reader seeing part of this transaction would be caught
			b := boltz.GetOrCreatePath(ctx.Tx(), "ver")
			b.SetInt64("n", committed+1, nil)
			if b.HasError() {
				return b.GetError()
			}
			for _, op := range ops {
				if op == "" {
					continue
				}
				if err := e.applyOp(ctx, op); err != nil {
					return fmt.Errorf("op %s: %w", op, err)
				}
			}
			if !commit {
				return errors.New("abort requested")
			}
			return nil
		})
		if commit {
			if err != nil {
				return committed, "writer-error:" + strings.ReplaceAll(err.Error(), " ", "_")
			}
			committed++
		} else if err == nil {
			return committed, "abort-committed"
		}
		if yield {
			runtime.Gosched()
		}
	}
	return committed, ""
}

func c18Mv(f []string) string {
	readers, _ := strconv.Atoi(f[1])
	keep, _ := strconv.Atoi(f[2])
	seed, _ := strconv.ParseUint(f[3], 10, 64)
	txs := f[4:]
	e, err := c18Open()
	if err != nil {
		return "setup-failed " + err.Error()
	}
	defer e.close()
	var writerDone atomic.Bool
	var wg sync.WaitGroup
	logs := make([][]string, readers)
	var problem atomic.Value
	for ri := 0; ri < readers; ri++ {
		wg.Add(1)
		ri := ri
		go func() {
			defer wg.Done()
			defer func() {
				if rec := recover(); rec != nil {
					problem.Store(fmt.Sprintf("reader-panic:%v", rec))
				}
			}()
			r := newRng(seed*131 + uint64(ri))
			lastTag := int64(-2)
			n := 0
			for {
				final := writerDone.Load()
				var tok string
				var tagS int64
				err := e.db.View(func(tx *bbolt.Tx) error {
					tagS = c18Tag(tx)
					obs := make([]string, 0, 5)
					for i := 0; i < 5; i++ {
						q := c18RandQ(r, c18QKinds, c18MvIds)
						obs = append(obs, q+"="+e.observe(tx, q))
						if i == 2 {
							runtime.Gosched()
						}
					}
					tagE := c18Tag(tx)
					tok = fmt.Sprintf("%d.%d:%d:%d:%s", ri, n, tagS, tagE, strings.Join(obs, "|"))
					return nil
				})
				if err != nil {
					problem.Store("view-error:" + err.Error())
					return
				}
				// keep the first read transaction of every version this reader met, and `keep` more
				if tagS != lastTag || n < keep || final {
					logs[ri] = append(logs[ri], tok)
					lastTag = tagS
				}
				n++
				if final {
					return
				}
				runtime.Gosched()
			}
		}()
	}
	_, werr := e.runWriter(txs, true)
	writerDone.Store(true)
	wg.Wait()
	if werr != "" {
		return werr
	}
	if p := problem.Load(); p != nil {
		return strings.ReplaceAll(p.(string), " ", "_")
	}
	final := int64(-1)
	_ = e.db.View(func(tx *bbolt.Tx) error { final = c18Tag(tx); return nil })
	out := []string{fmt.Sprintf("v%d", final)}
	for _, l := range logs {
		out = append(out, l...)
	}
	return strings.Join(out, " ")
}

// ------------------------------------------------------------------ cr: concurrent readers on one committed version

func c18CaseIds(txs []string) []int {
	seen := map[int]bool{}
	for _, t := range txs {
		if len(t) <= 2 {
			continue
		}
		for _, op := range strings.Split(t[2:], "/") {
			if len(op) > 1 && op[0] == 'p' {
				id, err := strconv.Atoi(strings.SplitN(op[1:], ".", 2)[0])
				if err == nil {
					seen[id] = true
				}
			}
		}
	}
	var ids []int
	for id := range seen {
		ids = append(ids, id)
	}
	sort.Ints(ids)
	return ids
}

func c18Cr(f []string) string {
	if len(f) < 5 {
		return "bad-case"
	}
	readers, _ := strconv.Atoi(f[1])
	iters, _ := strconv.Atoi(f[2])
	seed, _ := strconv.ParseUint(f[3], 10, 64)
	kinds := strings.Split(f[4], ",")
	txs := f[5:]
	ids := c18CaseIds(txs)
	if len(ids) == 0 {
		ids = c18MvIds
	}
	e, err := c18Open()
	if err != nil {
		return "setup-failed " + err.Error()
	}
	defer e.close()
	if _, werr := e.runWriter(txs, false); werr != "" {
		return werr
	}
	// serial baseline: every query of the listed kinds, one read transaction, one goroutine
	var universe []string
	for _, k := range kinds {
		for _, a := range c18Args(k, ids) {
			universe = append(universe, k+strconv.Itoa(a))
		}
	}
	baseline := map[string]string{}
	var baseTok string
	_ = e.db.View(func(tx *bbolt.Tx) error {
		tagS := c18Tag(tx)
		obs := make([]string, 0, len(universe))
		for _, q := range universe {
			a := e.observe(tx, q)
			baseline[q] = a
			obs = append(obs, q+"="+a)
		}
		baseTok = fmt.Sprintf("s.0:%d:%d:%s", tagS, c18Tag(tx), strings.Join(obs, "|"))
		return nil
	})
	logs := make([][]string, readers)
	var problem atomic.Value
	var wg, ready sync.WaitGroup
	start := make(chan struct{})
	for ri := 0; ri < readers; ri++ {
		wg.Add(1)
		ready.Add(1)
		ri := ri
		go func() {
			defer wg.Done()
			defer func() {
				if rec := recover(); rec != nil {
					problem.Store(fmt.Sprintf("reader-panic:%v", rec))
				}
			}()
			r := newRng(seed*131 + uint64(ri))
			deviating := 0
			ready.Done()
			<-start
			for n := 0; n < iters; n++ {
				var tok string
				differs := false
				err := e.db.View(func(tx *bbolt.Tx) error {
					tagS := c18Tag(tx)
					obs := make([]string, 0, 5)
					for i := 0; i < 5; i++ {
						q := pick(r, universe)
						a := e.observe(tx, q)
						if a != baseline[q] {
							differs = true
						}
						obs = append(obs, q+"="+a)
					}
					tok = fmt.Sprintf("%d.%d:%d:%d:%s", ri, n, tagS, c18Tag(tx), strings.Join(obs, "|"))
					return nil
				})
				if err != nil {
					problem.Store("view-error:" + err.Error())
					return
				}
				if n < 2 || (differs && deviating < 3) {
					logs[ri] = append(logs[ri], tok)
					if differs {
						deviating++
					}
				}
			}
		}()
	}
	ready.Wait()
	close(start)
	wg.Wait()
	if p := problem.Load(); p != nil {
		return strings.ReplaceAll(p.(string), " ", "_")
	}
	final := int64(-1)
	_ = e.db.View(func(tx *bbolt.Tx) error { final = c18Tag(tx); return nil })
	out := []string{fmt.Sprintf("v%d", final), baseTok}
	for _, l := range logs {
		out = append(out, l...)
	}
	return strings.Join(out, " ")
}

// ------------------------------------------------------------------ race scenarios

var c18ParseQueries = []string{
	`name = "n1"`, `rank >= 3 and anyOf(roles) = "r1"`, `anyOf(groups.label) = "L1" or name contains "n"`,
	`true sort by rank desc limit 2`, `not (rank < 2) skip 1 limit 3`, `count(groups) > 1`, `isEmpty(roles)`,
	`name = `, `rank between 1 and 4`, `name in ["n1", "n2"]`, `anyOf(groups) = "g0" sort by name`, `bogus = 1`, `rank = "x" @`,
}

var c18SymbolNames = []string{"id", "name", "rank", "roles", "groups", "groups.label", "groups.id", "groups.members",
	"groups.members.name", "groups.members.roles", "nosuch", "groups.nosuch", "name.x",
	"tags.site.name", "tags.owner.name", "tags.a.b.c", "attrs.a.b.c", "attrs.a.x.c", "attrs.site.name"}

func c18Race(scenario string, goroutines, iters int) string {
	e, err := c18Open()
	if err != nil {
		return "setup-failed"
	}
	defer e.close()
	// a little data
	_ = e.db.Update(nil, func(ctx boltz.MutateContext) error {
		for i := 0; i < 4; i++ {
			if err := e.applyOp(ctx, fmt.Sprintf("p%d.%d.%d.%d+%d", i, i*10, i, i%3, (i+1)%3)); err != nil {
				return err
			}
			if err := e.applyOp(ctx, fmt.Sprintf("l%d.%d+%d", i, i%3, (i+2)%3)); err != nil {
				return err
			}
		}
		// rows with many roles, for the all-of lookups
		for _, op := range []string{"p4.40.4.0+1+2", "p5.50.5.0+1+2+3+4"} {
			if err := e.applyOp(ctx, op); err != nil {
				return err
			}
		}
		return nil
	})
	var wrong atomic.Value
	var wg sync.WaitGroup
	// serial outcomes of the parse scenario's inputs
	parseErrs := make([]int, len(c18ParseQueries))
	parseFails := make([]bool, len(c18ParseQueries))
	setFunctionNames := len(ast.SetFunctionNames) // the one exported table of the parsing layer: parsing must not grow it
	lexErrs := 0
	if scenario == "debugparse" {
		lexErrs = len(zitiql.Parse(`rank = 1 # b`, ast.NewListener()))
		prev := runtime.GOMAXPROCS(2)
		defer runtime.GOMAXPROCS(prev)
	}
	if scenario == "parse" || scenario == "debugparse" {
		for i, q := range c18ParseQueries {
			parseErrs[i] = len(zitiql.Parse(q, ast.NewListener()))
			_, err := ast.Parse(e.things, q)
			parseFails[i] = err != nil
		}
		// a diagnostic parse keeps ANTLR's console listener, which prints to os.Stderr; the check reads stdout+stderr
		if devnull, err := os.OpenFile(os.DevNull, os.O_WRONLY, 0); err == nil {
			saved := os.Stderr
			os.Stderr = devnull
			defer func() { os.Stderr = saved; _ = devnull.Close(); ast.EnableQueryDebug.Store(false) }()
		}
	}
	notFound := fmt.Errorf("wrapped: %w", boltz.NewNotFoundError("thing", "id", "x"))
	refExists := fmt.Errorf("wrapped: %w", boltz.NewReferenceByIdError("thing", "a", "group", "g", "members"))
	dup := fmt.Errorf("wrapped: %w", &boltz.UniqueIndexDuplicateError{Field: "name", Value: "v", EntityType: "things"})
	plain := errors.New("plain")
	if scenario == "sharedquery" {
		// PROBE (outside the property's wording): one compiled query object used by several goroutines at the
		// same moment, each inside its own read transaction.  setPaging stores default skip/limit nodes in it.
		for round := 0; round < iters; round++ {
			shared, err := ast.Parse(e.things, `rank >= 0`)
			if err != nil {
				return "setup-failed"
			}
			var ready, done sync.WaitGroup
			start := make(chan struct{})
			for g := 0; g < goroutines; g++ {
				ready.Add(1)
				done.Add(1)
				go func() {
					defer done.Done()
					_ = e.db.View(func(tx *bbolt.Tx) error {
						ready.Done()
						<-start
						_, _, err := e.things.QueryIdsC(tx, shared)
						return err
					})
				}()
			}
			ready.Wait()
			close(start)
			done.Wait()
		}
		return "done"
	}
	// serial answers of the queries the read-only scenarios use (data is fixed: no writer in those scenarios)
	extExpected := map[string]string{}
	if scenario == "cursorwalk" {
		// the pooled objects of a scan change hands when a goroutine yields between a Put and the next Get on few Ps
		prev := runtime.GOMAXPROCS(2)
		defer runtime.GOMAXPROCS(prev)
	}
	if scenario == "extsym" || scenario == "emptyfilter" || scenario == "mapsym" || scenario == "argslice" || scenario == "cursorwalk" {
		_ = e.db.View(func(tx *bbolt.Tx) error {
			for _, k := range []string{"X", "Y", "Z", "P", "A", "M", "FA", "FO", "JA", "JO", "C", "D", "K"} {
				if (scenario == "cursorwalk") != (k == "C" || k == "D" || k == "K") {
					continue
				}
				for _, a := range c18Args(k, c18MvIds) {
					// P / A answers computed from a query that is never paged by anybody: rank >= 0 matches every row
					q := k + strconv.Itoa(a)
					switch k {
					case "A":
						extExpected[q] = e.observe(tx, "K0")
					case "P":
						extExpected[q] = e.observe(tx, "Q0"+fmt.Sprintf("%02d", a))
					default:
						extExpected[q] = e.observe(tx, q)
					}
				}
			}
			return nil
		})
	}
	var stop atomic.Bool
	if scenario == "query" {
		wg.Add(1)
		go func() {
			defer wg.Done()
			for i := 0; !stop.Load(); i++ {
				_ = e.db.Update(nil, func(ctx boltz.MutateContext) error {
					return e.applyOp(ctx, fmt.Sprintf("p%d.%d.%d.%d", i%5, (i%5)*10+i%3, i%6, i%3))
				})
			}
		}()
	}
	var readers sync.WaitGroup
	for g := 0; g < goroutines; g++ {
		readers.Add(1)
		g := g
		go func() {
			defer readers.Done()
			defer func() {
				if rec := recover(); rec != nil {
					wrong.Store(fmt.Sprintf("panic:%v", rec))
				}
			}()
			r := newRng(uint64(g) + 7)
			for i := 0; i < iters; i++ {
				switch scenario {
				case "parse":
					// every exported entry point of the parsing layer, with its debug / diagnostic variants
					qi := r.intn(len(c18ParseQueries))
					q := c18ParseQueries[qi]
					switch m := r.intn(10); m {
					case 8, 9: // a spelling of a keyword / keyword operator nobody has presented before
						if _, err := ast.Parse(e.things, c18FreshSpelling(i+g)); err != nil {
							wrong.Store("parse:fresh-spelling-rejected:" + strings.ReplaceAll(err.Error(), " ", "_"))
						}
					case 0: // diagnostic parse (DiagnosticErrorListener on the pooled parser)
						_ = zitiql.ParseWithDebug(q, ast.NewListener(), true)
					case 1:
						if n := len(zitiql.ParseWithDebug(q, ast.NewListener(), false)); n != parseErrs[qi] {
							wrong.Store(fmt.Sprintf("parse:%d-errors-instead-of-%d:%s", n, parseErrs[qi], q))
						}
					case 2:
						if n := len(zitiql.Parse(q, ast.NewListener())); n != parseErrs[qi] {
							wrong.Store(fmt.Sprintf("parse:%d-errors-instead-of-%d:%s", n, parseErrs[qi], q))
						}
					case 3: // query debugging switched on and off while others parse
						ast.EnableQueryDebug.Store(i%2 == 0)
						_, err := ast.Parse(e.things, q)
						if (err != nil) != parseFails[qi] {
							wrong.Store("parse:outcome-changed:" + q)
						}
					default:
						_, err := ast.Parse(e.things, q)
						if (err != nil) != parseFails[qi] {
							wrong.Store("parse:outcome-changed:" + q)
						}
					}
				case "debugparse":
					// repaired by 956c2a8: a diagnostic parse of an input with a syntax error right after (on the same pooled parser
					// as) somebody's plain parse used to write into that caller's error collector
					switch g % 4 {
					case 0:
						_ = zitiql.ParseWithDebug(`name = `, ast.NewListener(), true)
					case 2: // a LEXER error (a character the lexer cannot tokenize) in a plain parse
						if n := len(zitiql.Parse(`rank = 1 # b`, ast.NewListener())); n != lexErrs {
							wrong.Store(fmt.Sprintf("parse:%d-errors-instead-of-%d:lexer-error-input", n, lexErrs))
						}
					default:
						if n := len(zitiql.Parse(`name = "n1"`, ast.NewListener())); n != 0 {
							wrong.Store(fmt.Sprintf("parse:%d-errors-instead-of-0:valid-filter", n))
						}
					}
					// sync.Pool hands a goroutine back the object it has just put (per-P slot); with few Ps and a yield after every
					// parse the pooled parser really changes hands between the diagnostic and the plain callers
					runtime.Gosched()
				case "getsymbol":
					n := pick(r, c18SymbolNames)
					s := e.things.GetSymbol(n)
					_, _ = e.things.GetSymbolType(n)
					_, _ = e.things.IsSet(n)
					if (s == nil) != (strings.Contains(n, "nosuch") || n == "name.x") {
						wrong.Store("getsymbol:" + n)
					}
				case "errors":
					if !boltz.IsErrNotFoundErr(notFound) || boltz.IsErrNotFoundErr(refExists) || boltz.IsErrNotFoundErr(plain) ||
						!boltz.IsReferenceExistsError(refExists) || boltz.IsReferenceExistsError(dup) || boltz.IsReferenceExistsError(plain) ||
						!boltz.IsUniqueIndexDuplicateError(dup) || boltz.IsUniqueIndexDuplicateError(notFound) || boltz.IsUniqueIndexDuplicateError(plain) {
						wrong.Store("errors:classification")
					}
				case "extsym":
					// externally computed symbols evaluated by all readers at once, on rows with different outcomes
					_ = e.db.View(func(tx *bbolt.Tx) error {
						for _, q := range []string{"X" + strconv.Itoa((g+i)%2), "Y" + strconv.Itoa((g+i)%3), "Z" + strconv.Itoa(((g+i)%2)*10+i%3)} {
							if a := e.observe(tx, q); a != extExpected[q] {
								wrong.Store("extsym:" + q + "=" + a + "_serial:" + extExpected[q])
							}
						}
						return nil
					})
				case "cursorwalk":
					// cursor-style readers: walk to the end, yield, seek, walk again - next to plain scans of other read transactions
					_ = e.db.View(func(tx *bbolt.Tx) error {
						var q string
						switch (g + i) % 3 {
						case 0:
							q = "K" + strconv.Itoa(i%6)
						case 1:
							q = "C" + strconv.Itoa(pick(r, c18CursorArgs(c18MvIds)))
						default:
							q = "D" + strconv.Itoa(pick(r, c18SeekArgs(c18MvIds)))
						}
						if a := e.observe(tx, q); a != extExpected[q] {
							wrong.Store("cursorwalk:" + q + "=" + a + "_serial:" + extExpected[q])
						}
						return nil
					})
					runtime.Gosched()
				case "pubsym":
					if w := e.pubsymIteration(g, i); w != "" {
						wrong.Store(w)
					}
				case "argslice":
					// set-index lookups from many read transactions with the same values slices
					_ = e.db.View(func(tx *bbolt.Tx) error {
						q := []string{"JA", "FA", "JO", "FO"}[(g+i)%4] + strconv.Itoa((g/2+i)%len(c18SharedVals))
						if a := e.observe(tx, q); a != extExpected[q] {
							wrong.Store("argslice:" + q + "=" + a + "_serial:" + extExpected[q])
						}
						return nil
					})
				case "mapsym":
					// every reader filters on another nested key of the two map symbols: resolution and evaluation interleave
					_ = e.db.View(func(tx *bbolt.Tx) error {
						q := "M" + strconv.Itoa(((g+i)%len(c18MapKeys))*10+i%3)
						if a := e.observe(tx, q); a != extExpected[q] {
							wrong.Store("mapsym:" + q + "=" + a + "_serial:" + extExpected[q])
						}
						return nil
					})
				case "emptyfilter":
					// every reader parses the empty filter itself; some put their own paging on what they got back
					_ = e.db.View(func(tx *bbolt.Tx) error {
						q := "A0"
						if (g+i)%2 == 0 {
							q = "P" + strconv.Itoa(((g+i)/2%3)*10+1+i%3)
						}
						if a := e.observe(tx, q); a != extExpected[q] {
							wrong.Store("emptyfilter:" + q + "=" + a + "_serial:" + extExpected[q])
						}
						return nil
					})
				case "query":
					_ = e.db.View(func(tx *bbolt.Tx) error {
						tag := c18Tag(tx)
						for j := 0; j < 3; j++ {
							q := c18RandQ(r, c18QKinds, c18MvIds)
							_ = e.observe(tx, q)
						}
						if c18Tag(tx) != tag {
							wrong.Store("query:tag-moved")
						}
						return nil
					})
				}
			}
		}()
	}
	readers.Wait()
	stop.Store(true)
	wg.Wait()
	if len(ast.SetFunctionNames) != setFunctionNames {
		wrong.Store("exported-table-ast.SetFunctionNames-changed-size")
	}
	if w := wrong.Load(); w != nil {
		return "wrong:" + strings.ReplaceAll(w.(string), " ", "_")
	}
	return "done"
}

func c18Exec(line string) string {
	f := fields(line)
	switch f[0] {
	case "mv":
		return c18Mv(f)
	case "cr":
		return c18Cr(f)
	case "sq":
		return c18Sq(f)
	case "cw":
		return c18Cw(f)
	case "race":
		g, _ := strconv.Atoi(f[2])
		n, _ := strconv.Atoi(f[3])
		return c18Race(f[1], g, n)
	}
	return "bad-case"
}

// ------------------------------------------------------------------ generator

func c18GenTx(r *rng, gen []int) string {
	n := 1 + r.intn(4)
	var ops []string
	for i := 0; i < n; i++ {
		id := r.intn(6)
		switch x := r.intn(10); {
		case x < 6:
			gen[id] = (gen[id] + 1) % 3
			nr := r.intn(5)
			var roles []string
			for j := 0; j < nr; j++ {
				roles = append(roles, strconv.Itoa(r.intn(5)))
			}
			ops = append(ops, fmt.Sprintf("p%d.%d.%d.%s", id, id*10+gen[id], r.intn(6), strings.Join(roles, "+")))
		case x < 8:
			ng := r.intn(3)
			var gs []string
			for j := 0; j < ng; j++ {
				gs = append(gs, strconv.Itoa(r.intn(3)))
			}
			ops = append(ops, fmt.Sprintf("l%d.%s", id, strings.Join(gs, "+")))
		default:
			ops = append(ops, fmt.Sprintf("d%d", id))
		}
	}
	c := "c"
	if r.chance(1, 6) {
		c = "a"
	}
	return c + ":" + strings.Join(ops, "/")
}

// the query kinds the readers of one cr case concentrate on (collisions need the same symbol / object at the same moment)
var c18Focus = [][]string{
	{"C", "D", "K"}, {"D"}, {"O", "T", "K"}, {"U"}, {"U", "K", "N"}, {"JA", "FA"}, {"JA", "JO", "FA", "FO", "iR"}, {"M"}, {"M", "I", "K"}, {"X", "Z"}, {"X", "Y", "V"}, {"A", "P"}, {"A", "P", "Q", "K"}, {"Y", "W", "Z"}, {"R", "H", "G"}, {"T", "K", "Q"}, {"N", "iN", "E", "lG", "lM", "iR"},
}

func c18GenCr(r *rng, focus []string, iters int) string {
	rows := 16 + r.intn(25)
	ids := c18Range(10, 10+rows-1)
	var txs []string
	gen := map[int]int{}
	// the rows, a few transactions of up to 12 creates
	for i := 0; i < len(ids); i += 12 {
		var ops []string
		for j := i; j < i+12 && j < len(ids); j++ {
			id := ids[j]
			nr := r.intn(5)
			var roles []string
			for k := 0; k < nr; k++ {
				roles = append(roles, strconv.Itoa(r.intn(5)))
			}
			ops = append(ops, fmt.Sprintf("p%d.%d.%d.%s", id, id*10, r.intn(6), strings.Join(roles, "+")))
		}
		txs = append(txs, "c:"+strings.Join(ops, "/"))
	}
	// then a short random history over them
	for n := 2 + r.intn(5); n > 0; n-- {
		var ops []string
		for k := 1 + r.intn(4); k > 0; k-- {
			id := pick(r, ids)
			switch x := r.intn(10); {
			case x < 4:
				gen[id] = (gen[id] + 1) % 3
				ops = append(ops, fmt.Sprintf("p%d.%d.%d.%d", id, id*10+gen[id], r.intn(6), r.intn(3)))
			case x < 8:
				ops = append(ops, fmt.Sprintf("l%d.%d+%d", id, r.intn(3), r.intn(3)))
			default:
				ops = append(ops, fmt.Sprintf("d%d", id))
			}
		}
		c := "c"
		if r.chance(1, 6) {
			c = "a"
		}
		txs = append(txs, c+":"+strings.Join(ops, "/"))
	}
	return fmt.Sprintf("cr %d %d %d %s %s", 3+r.intn(4), iters, r.next()%1000000, strings.Join(focus, ","), strings.Join(txs, " "))
}

func c18Gen(tier string, seed uint64, out *bufio.Writer) {
	r := newRng(seed)
	nmv, ntx := 30, 14
	if tier == "thorough" {
		nmv, ntx = 500, 24
	}
	for i := 0; i < nmv; i++ {
		gen := make([]int, 6)
		n := 4 + r.intn(ntx)
		txs := make([]string, n)
		for j := range txs {
			txs[j] = c18GenTx(r, gen)
		}
		fmt.Fprintf(out, "mv %d %d %d %s\n", 2+r.intn(4), 2, r.next()%1000000, strings.Join(txs, " "))
	}
	ncr, crIters := len(c18Focus), 150
	if tier == "thorough" {
		ncr, crIters = 160, 500
	}
	for i := 0; i < ncr; i++ {
		focus := c18Focus[i%len(c18Focus)]
		if i >= 2*len(c18Focus) && i%2 == 1 {
			focus = []string{pick(r, c18QKinds), pick(r, c18QKinds), pick(r, c18QKinds)}
		}
		fmt.Fprintln(out, c18GenCr(r, focus, crIters))
	}
	nsq, sqRounds := 3, 30
	if tier == "thorough" {
		nsq, sqRounds = 40, 100
	}
	for i := 0; i < nsq; i++ {
		fmt.Fprintln(out, c18GenSq(r, sqRounds))
	}
	ncw, cwLen := 40, 30
	if tier == "thorough" {
		ncw, cwLen = 400, 45
	}
	for i := 0; i < ncw; i++ {
		fmt.Fprintln(out, c18GenCw(r, cwLen+r.intn(20)))
	}
	it := 300
	if tier == "thorough" {
		it = 3000
	}
	for _, sc := range []string{"parse", "getsymbol", "errors", "query", "extsym", "emptyfilter", "mapsym", "debugparse", "argslice", "cursorwalk", "pubsym"} {
		fmt.Fprintf(out, "race %s %d %d\n", sc, 6, it)
	}
}
