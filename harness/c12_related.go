package main

import (
	"bufio"
)

// C12, generator stream "related operands": skeletons LARGER than the exhaustive bound whose
// sub-trees are related to each other — the same sequence of atoms and connectives grouped in two
// different ways, identical operands, mirrored operands, an operand repeated at a distance, operands
// that differ in one atom or one connective only — combined by and / or, under `not`, nested, with
// constants and with a string-typed symbol inside.  Anything that happens to the tree AFTER parsing
// (typing, a simplification or rewrite of the typed tree) and looks at more than one node at a time
// is exercised here; the expected outcome is the spec's reading of the text (k-cases: truth table
// over all assignments of the distinct atoms; r-cases: operation atoms over the row table).

// c12BT is a bracketing: a binary tree over a sequence of atoms and connectives, optionally
// negated (`not` in front of the bracketed expression).
type c12BT struct {
	l, r *c12BT
	op   byte
	atom string
	neg  bool
}

func (t *c12BT) leaf() bool { return t.l == nil }

// every bracketing of atoms[0..n) with ops[0..n-1)
func c12AllBT(atoms []string, ops []byte) []*c12BT {
	if len(atoms) == 1 {
		return []*c12BT{{atom: atoms[0]}}
	}
	var res []*c12BT
	for k := 1; k < len(atoms); k++ {
		ls := c12AllBT(atoms[:k], ops[:k-1])
		rs := c12AllBT(atoms[k:], ops[k:])
		for _, l := range ls {
			for _, r := range rs {
				res = append(res, &c12BT{l: l, r: r, op: ops[k-1]})
			}
		}
	}
	return res
}

// a random bracketing
func c12RandBT(r *rng, atoms []string, ops []byte) *c12BT {
	if len(atoms) == 1 {
		return &c12BT{atom: atoms[0]}
	}
	k := 1 + r.intn(len(atoms)-1)
	return &c12BT{l: c12RandBT(r, atoms[:k], ops[:k-1]), r: c12RandBT(r, atoms[k:], ops[k:]), op: ops[k-1]}
}

// shape of a bracketing (to tell two groupings of the same sequence apart)
func (t *c12BT) shape() string {
	if t.leaf() {
		if t.neg {
			return "!."
		}
		return "."
	}
	s := "(" + t.l.shape() + t.r.shape() + ")"
	if t.neg {
		return "!" + s
	}
	return s
}

// the mirror image: operands swapped at every node
func (t *c12BT) mirror() *c12BT {
	if t.leaf() {
		return &c12BT{atom: t.atom, neg: t.neg}
	}
	return &c12BT{l: t.r.mirror(), r: t.l.mirror(), op: t.op, neg: t.neg}
}

func (t *c12BT) copyBT() *c12BT {
	if t.leaf() {
		return &c12BT{atom: t.atom, neg: t.neg}
	}
	return &c12BT{l: t.l.copyBT(), r: t.r.copyBT(), op: t.op, neg: t.neg}
}

func (t *c12BT) leaves(acc []*c12BT) []*c12BT {
	if t.leaf() {
		return append(acc, t)
	}
	return t.r.leaves(t.l.leaves(acc))
}

func (t *c12BT) inner(acc []*c12BT) []*c12BT {
	if t.leaf() {
		return acc
	}
	return t.r.inner(t.l.inner(append(acc, t)))
}

// level writes the bracketing as a skeleton.  Composite operands are parenthesised; with
// probability drop/8 the parentheses of an operand are left out (the operand's units are spliced
// into the level: the text is then grouped by precedence, possibly differently from the tree —
// the expected outcome is always computed from the text).  A negated expression is written
// `not <expr>`; it is parenthesised unless it ends its level.
func (t *c12BT) level(r *rng, drop int) *c12Level {
	var l *c12Level
	if t.leaf() {
		l = &c12Level{units: []*c12Unit{{atom: t.atom}}}
	} else {
		l = &c12Level{}
		add := func(c *c12BT, last bool) {
			cl := c.level(r, drop)
			endsWithNot := cl.units[len(cl.units)-1].neg != nil
			switch {
			case len(cl.units) == 1 && cl.units[0].neg == nil:
				l.units = append(l.units, cl.units[0])
			case len(cl.units) == 1 && last && r.chance(1, 2):
				l.units = append(l.units, cl.units[0]) // trailing bare `not …`
			case drop > 0 && r.intn(8) < drop && (last || !endsWithNot) && len(cl.units) > 1:
				l.units = append(l.units, cl.units...)
				l.ops = append(l.ops, cl.ops...)
			default:
				l.units = append(l.units, &c12Unit{grp: cl})
			}
		}
		add(t.l, false)
		l.ops = append(l.ops, t.op)
		add(t.r, true)
	}
	if t.neg {
		inner := l
		if len(inner.units) > 1 {
			// `not (a op b)`: without the parentheses `not` would still take the whole level, so
			// both spellings are the same reading; use either
			if r.chance(1, 2) {
				inner = &c12Level{units: []*c12Unit{{grp: inner}}}
			}
		}
		return &c12Level{units: []*c12Unit{{neg: inner}}}
	}
	return l
}

func c12RandOps(r *rng, n int) []byte {
	ops := make([]byte, n)
	for i := range ops {
		ops[i] = pick(r, []byte{'&', '|'})
	}
	return ops
}

// a sequence of n atoms: usually pairwise distinct, sometimes with a repeated atom
func c12AtomSeq(r *rng, n int, letters []byte) []string {
	atoms := make([]string, n)
	perm := append([]byte{}, letters...)
	for i := len(perm) - 1; i > 0; i-- {
		j := r.intn(i + 1)
		perm[i], perm[j] = perm[j], perm[i]
	}
	for i := range atoms {
		atoms[i] = string(perm[i%len(perm)])
	}
	if n >= 3 && r.chance(1, 5) {
		atoms[r.intn(n)] = atoms[r.intn(n)]
	}
	return atoms
}

// two different bracketings of one sequence (the same one if there is only one)
func c12TwoBT(r *rng, atoms []string, ops []byte) (*c12BT, *c12BT) {
	g1 := c12RandBT(r, atoms, ops)
	g2 := c12RandBT(r, atoms, ops)
	for i := 0; i < 8 && g2.shape() == g1.shape(); i++ {
		g2 = c12RandBT(r, atoms, ops)
	}
	return g1, g2
}

// c12RelatedBT builds one skeleton of the family over the given atom letters.
func c12RelatedBT(r *rng, n int, letters []byte, extra string) (*c12BT, string) {
	atoms := c12AtomSeq(r, n, letters)
	ops := c12RandOps(r, n-1)
	g1, g2 := c12TwoBT(r, atoms, ops)
	o := pick(r, []byte{'&', '|'})
	o2 := pick(r, []byte{'&', '|'})
	var t *c12BT
	kind := ""
	switch r.intn(14) {
	case 12, 13: // one operand is a prefix / suffix of the other (absorption-like shapes)
		k := 1 + r.intn(n-1)
		var part *c12BT
		if r.chance(1, 2) {
			part = c12RandBT(r, atoms[:k], ops[:k-1])
		} else {
			part = c12RandBT(r, atoms[k:], ops[k:])
		}
		t, kind = &c12BT{l: part, r: g2, op: o}, "part-whole"
		if r.chance(1, 2) {
			t = &c12BT{l: g1, r: part, op: o}
		}
		if r.chance(1, 4) {
			part.neg = true
		}
	case 0, 1, 2: // the same sequence grouped in two ways
		t, kind = &c12BT{l: g1, r: g2, op: o}, "regrouped"
	case 3: // … negated as a whole, or one operand negated
		t, kind = &c12BT{l: g1, r: g2, op: o}, "regrouped-not"
		switch r.intn(4) {
		case 0:
			t.neg = true
		case 1:
			t.l.neg = true
		case 2:
			t.r.neg = true
		default:
			t.l.neg, t.r.neg = true, true
		}
	case 4: // identical operands (where `X op X = X` would be legitimate)
		t, kind = &c12BT{l: g1, r: g1.copyBT(), op: o}, "identical"
		if r.chance(1, 4) {
			t.r.neg = true
			kind = "identical-not"
		}
	case 5: // mirrored operands
		t, kind = &c12BT{l: g1, r: g1.mirror(), op: o}, "mirrored"
		if r.chance(1, 2) {
			t = &c12BT{l: g1, r: g2.mirror(), op: o}
		}
	case 6: // three related operands
		_, g3 := c12TwoBT(r, atoms, ops)
		t, kind = &c12BT{l: &c12BT{l: g1, r: g2, op: o}, r: g3, op: o2}, "three"
		if r.chance(1, 2) {
			t = &c12BT{l: g1, r: &c12BT{l: g2, r: g3, op: o2}, op: o}
		}
	case 7: // an operand repeated at a distance
		mid := c12RandBT(r, c12AtomSeq(r, 1+r.intn(3), letters), c12RandOps(r, 2))
		t, kind = &c12BT{l: &c12BT{l: g1, r: mid, op: o}, r: g2, op: o2}, "distant"
		if r.chance(1, 2) {
			t = &c12BT{l: g1, r: &c12BT{l: mid, r: g1.copyBT(), op: o2}, op: o}
		}
	case 8: // the related pair below another operand
		t, kind = &c12BT{l: &c12BT{atom: extra}, r: &c12BT{l: g1, r: g2, op: o}, op: o2}, "nested"
		if r.chance(1, 2) {
			t = &c12BT{l: &c12BT{l: g1, r: g2, op: o}, r: &c12BT{atom: extra}, op: o2}
		}
		if r.chance(1, 3) {
			t.neg = true
		}
	case 9: // near miss: one connective differs
		ops2 := append([]byte{}, ops...)
		k := r.intn(len(ops2))
		ops2[k] = '&' + '|' - ops2[k]
		g2 = c12RandBT(r, atoms, ops2)
		if r.chance(1, 2) { // the same tree shape, one connective changed
			g2 = g1.copyBT()
			in := g2.inner(nil)
			x := pick(r, in)
			x.op = '&' + '|' - x.op
		}
		t, kind = &c12BT{l: g1, r: g2, op: o}, "near-op"
	case 10: // near miss: one atom differs
		g2 = g1.copyBT()
		if r.chance(1, 2) {
			_, g2 = c12TwoBT(r, atoms, ops)
			g2 = g2.copyBT()
		}
		pick(r, g2.leaves(nil)).atom = extra
		t, kind = &c12BT{l: g1, r: g2, op: o}, "near-atom"
	default: // double negation of related operands
		t, kind = &c12BT{l: g1, r: g2, op: o}, "double-not"
		inner := &c12BT{l: t, r: &c12BT{atom: extra}, op: o2, neg: true}
		t = &c12BT{l: inner, r: g2.copyBT(), op: o, neg: r.chance(1, 2)}
	}
	return t, kind
}

// constants and a string-typed symbol inside related operands: `true or X`, `X and false`, … keep
// the typing error of X; constants do not disturb the grouping
func c12Disturb(r *rng, t *c12BT) {
	ls := t.leaves(nil)
	switch r.intn(3) {
	case 0:
		pick(r, ls).atom = pick(r, []string{"T", "F"})
	case 1:
		pick(r, ls).atom = "z"
		pick(r, ls).atom = pick(r, []string{"T", "F"})
	default:
		a, b := pick(r, ls), pick(r, ls)
		a.atom, b.atom = pick(r, []string{"T", "F"}), pick(r, []string{"T", "F"})
	}
}

func c12GenRelated(tier string, seed uint64, out *bufio.Writer) {
	r := newRng(seed ^ 0x6c12c12c12c12c12)
	thorough := tier == "thorough"
	// 1. exhaustive: every ordered pair of bracketings of one sequence of n atoms (also the pair of
	//    a bracketing with itself), every sequence of connectives, both top connectives; n = 3 also
	//    negated and with the second operand unparenthesised
	maxN := 4
	if thorough {
		maxN = 5
	}
	names := []string{"a", "b", "c", "d", "e"}
	for n := 3; n <= maxN; n++ {
		for m := 0; m < 1<<uint(n-1); m++ {
			ops := make([]byte, n-1)
			for i := range ops {
				ops[i] = '&'
				if m>>uint(i)&1 == 1 {
					ops[i] = '|'
				}
			}
			bts := c12AllBT(names[:n], ops)
			for _, g1 := range bts {
				for _, g2 := range bts {
					for _, o := range []byte{'&', '|'} {
						t := &c12BT{l: g1, r: g2, op: o}
						c12EmitK(out, t.level(r, 0).String())
						if n == 3 {
							nt := &c12BT{l: g1, r: g2, op: o, neg: true}
							c12EmitK(out, nt.level(r, 0).String())
							c12EmitK(out, t.level(r, 4).String())
						}
					}
				}
			}
		}
	}
	// 2. the typing error of an operand survives constants next to it
	for _, sk := range []string{"T|z", "z|T", "F&z", "z&F", "T&z", "F|z", "T|(a&z)", "(a|T)&z", "!(T|z)", "T|!z",
		"(T|a)&(T|z)", "(F&a)|(F&z)", "a|T|z", "F&a&z", "T|a", "a|T", "F&a", "a&F", "T&a&b", "F|a|b", "!(T|a)", "!(F&a)",
		"(a&b)|(a&b)", "(a|b)&(a|b)", "a&a", "a|a", "!a&!a", "(!a)|(!a)", "a&b&a&b", "(a&b)&(a&b)", "(a|b)|(a|b)"} {
		c12EmitK(out, sk)
	}
	// 3. random members of the family, 3..8 atoms per operand
	nRand := 900
	if thorough {
		nRand = 8000
	}
	letters := []byte("abcdefgh")
	for i := 0; i < nRand; i++ {
		n := 3 + r.intn(6)
		if r.chance(1, 3) {
			n = 3 + r.intn(2)
		}
		t, _ := c12RelatedBT(r, n, letters[:n], string(letters[(n)%len(letters)]))
		if r.chance(1, 8) {
			c12Disturb(r, t)
		}
		drop := 0
		if r.chance(1, 3) {
			drop = 1 + r.intn(4) // random re-grouping: some parentheses left out
		}
		c12EmitK(out, t.level(r, drop).String())
	}
	// 4. the same family over operation atoms, re-spelled (keyword case, whitespace, redundant
	//    parentheses), evaluated over the row table
	nSpelled := 200
	if thorough {
		nSpelled = 1500
	}
	opLetters := c12AtomLetters()
	for i := 0; i < nSpelled; i++ {
		n := 3 + r.intn(3)
		perm := append([]byte{}, opLetters...)
		for j := len(perm) - 1; j > 0; j-- {
			k := r.intn(j + 1)
			perm[j], perm[k] = perm[k], perm[j]
		}
		t, _ := c12RelatedBT(r, n, perm[:n], string(perm[n]))
		c12EmitR(out, r, t.level(r, 0), r.intn(3))
	}
}
