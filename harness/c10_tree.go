package main

import (
	"fmt"
	"strconv"
	"strings"

	"github.com/openziti/storage/ast"
)

// T <fwd> <extra> <vals...>: ast.NewTreeSet(fwd), Add every value (duplicates allowed), ToCursor,
// enumerate while IsValid, then `extra` more Next calls (IsValid must stay false, no panic).
//
//	-> vals=<hex.hex...> after=<bits> size=<n>
func c10ExecTree(f []string) string {
	fwd := f[1] == "1"
	extra, _ := strconv.Atoi(f[2])
	set := ast.NewTreeSet(fwd)
	for _, v := range f[3:] {
		set.Add([]byte(fromWire(v)))
	}
	cur := set.ToCursor()
	var vals []string
	for cur.IsValid() {
		vals = append(vals, toWire(string(cur.Current())))
		cur.Next()
		if len(vals) > 10000 {
			return "runaway"
		}
	}
	var after strings.Builder
	for i := 0; i < extra; i++ {
		cur.Next()
		after.WriteString(b01(cur.IsValid()))
	}
	vs := "-"
	if len(vals) > 0 {
		vs = strings.Join(vals, ".")
	}
	as := after.String()
	if as == "" {
		as = "-"
	}
	return fmt.Sprintf("vals=%s after=%s size=%d", vs, as, set.Size())
}

func (g *c10Gen) genTrees() {
	pool := []string{"", "a", "b", "ab", "abc", "b\x00", "\xff", "c", "ca", "z", "0", "1", "10", "2"}
	emit := func(fwd bool, extra int, vals []string) {
		parts := []string{"T", b01(fwd), strconv.Itoa(extra)}
		for _, v := range vals {
			parts = append(parts, toWire(v))
		}
		fmt.Fprintln(g.out, strings.Join(parts, " "))
	}
	// the empty tree first, then every multiset of <= 3 values over a 5-value pool, then random
	for _, fwd := range []bool{true, false} {
		for extra := 0; extra <= 2; extra++ {
			emit(fwd, extra, nil)
		}
		small := pool[:5]
		for i := range small {
			emit(fwd, 1, []string{small[i]})
			for j := range small {
				emit(fwd, 2, []string{small[i], small[j]})
				for k := range small {
					emit(fwd, 1, []string{small[i], small[j], small[k]})
				}
			}
		}
	}
	n := 300
	if g.tier == "thorough" {
		n = 6000
	}
	for i := 0; i < n; i++ {
		k := g.r.intn(12)
		vals := make([]string, k)
		for j := range vals {
			vals[j] = pick(g.r, pool)
		}
		emit(g.r.chance(1, 2), g.r.intn(4), vals)
	}
}
