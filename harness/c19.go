package main

// C19 — the in-memory object store answers queries like the bolt-backed store.
//
// Case line:   o <rows> <filter> <sort> <skip> <limit> <order> [<variant> [<reps>]]
//
//	<reps>     - | <id>:<rep>,…  how the object's *time.Time represents the instant of column t (the bolt store holds the
//	           instant): z1 z2 z3 = three FixedZone pointers (z1 and z3 alike in name and offset), z4 = time.Local,
//	           m = derived from ONE time.Now() reading with Add (time.Local + monotonic clock reading); default: UTC
//
//	<filter>   atom | and~F~F | or~F~F | not~F (prefix notation) | setfn.<fn>.<symbol> (a set function on that symbol)
//	<variant>  full (default; a symbol of every Add…Symbol kind) | sub (only id, s, i) | noid (no id symbol)
//
//	the dataset is loaded into the bolt store "things" and into an objectz.ObjectStore with the same
//	field values (see c02_c19_common.go); <order> is the order in which the object store's iterator
//	yields the objects: fwd | rev | rot<k> | map (objectz.IterateMap over a Go map) | nil (the iterator function
//	returns nil: generated for the empty datasets only, where the bolt store holds nothing either)
//
// Output line:
//
//	bolt=<ids>#<count>                 boltz Store.QueryIds
//	obj=<ids>#<count>                  ObjectStore.QueryEntities
//	objc=<r1>/<r2>/<skip>:<limit>      ObjectStore.QueryEntitiesC twice on one query object, and the
//	                                   skip/limit left in the query

import (
	"bufio"
	"fmt"
	"strconv"
	"strings"
	"time"

	"github.com/openziti/storage/ast"
	"go.etcd.io/bbolt"
)

func init() {
	register("c19", &propHarness{gen: c19Gen, exec: c19Exec})
}

func c19Exec(line string) string {
	if strings.HasPrefix(line, "H ") {
		return c19HistExec(line) // histories of calls on one set of store objects: c19_history.go
	}
	f := fields(line)
	if len(f) == 7 {
		f = append(f, "full")
	}
	reps := "-"
	if len(f) == 9 {
		reps, f = f[8], f[:8]
	}
	if len(f) != 8 || f[0] != "o" {
		return "bad-case"
	}
	s := pgLoad(f[1])
	// the objects' time.Time values take the requested representation for this case only (the stores are cached; the
	// bolt store was written at load time and holds the instant)
	defer c19ApplyReps(s.rows, f[1], reps)()
	ostore := s.objs
	switch f[7] {
	case "sub":
		ostore = s.objsSub
	case "noid":
		ostore = s.objsNoId
	}
	text := pgQueryText(f[2], f[3], f[4], f[5])
	var out []string
	_ = s.db.View(func(tx *bbolt.Tx) error {
		ids, count, err := s.things.QueryIds(tx, text)
		out = append(out, "bolt="+pgIds(ids, count, err))
		return nil
	})
	// iteration order of the object store
	s.useMap = f[6] == "map"
	s.nilIter = f[6] == "nil"
	s.objOrder = append(s.objOrder[:0], s.rows...)
	switch {
	case f[6] == "rev":
		for i, j := 0, len(s.objOrder)-1; i < j; i, j = i+1, j-1 {
			s.objOrder[i], s.objOrder[j] = s.objOrder[j], s.objOrder[i]
		}
	case strings.HasPrefix(f[6], "rot"):
		k, _ := strconv.Atoi(f[6][3:])
		n := len(s.objOrder)
		if n > 0 {
			k %= n
			s.objOrder = append(append([]*pgThing{}, s.objOrder[k:]...), s.objOrder[:k]...)
		}
	}
	objs, count, err := ostore.QueryEntities(text)
	out = append(out, "obj="+pgIds(pgThingIds(objs), count, err))
	q, perr := ast.Parse(ostore, text)
	if perr != nil {
		out = append(out, "objc=err")
	} else {
		o1, c1, e1 := ostore.QueryEntitiesC(q)
		o2, c2, e2 := ostore.QueryEntitiesC(q)
		st := "nil"
		if q.GetSkip() != nil {
			st = strconv.FormatInt(*q.GetSkip(), 10)
		}
		st += ":"
		if q.GetLimit() != nil {
			st += strconv.FormatInt(*q.GetLimit(), 10)
		} else {
			st += "nil"
		}
		out = append(out, "objc="+pgIds(pgThingIds(o1), c1, e1)+"/"+pgIds(pgThingIds(o2), c2, e2)+"/"+st)
	}
	return strings.Join(out, "|")
}

var c19Now = time.Now()
var c19Zones = map[string]*time.Location{"z1": time.FixedZone("east", 7200), "z2": time.FixedZone("west", -18000),
	"z3": time.FixedZone("east", 7200), "z4": time.Local}

// c19MonoWindow: base.Add(d) keeps the monotonic reading only while the wall seconds fit the 33-bit field that counts
// from 1885-01-01 (time.Time.addSec)
func c19MonoWindow(tok string) bool {
	if tok == pgZeroTime {
		return false
	}
	ns, err := strconv.ParseInt(tok, 10, 64)
	if err != nil {
		return false
	}
	sec := ns / 1000000000
	if ns%1000000000 < 0 {
		sec--
	}
	sec += 2682288000
	return 0 <= sec && sec <= 1<<33-1
}

// c19Rep: a time.Time denoting the same instant as t in the representation rep
func c19Rep(t time.Time, tok, rep string) time.Time {
	if z, ok := c19Zones[rep]; ok {
		return t.In(z)
	}
	if rep == "m" {
		var v time.Time
		if c19MonoWindow(tok) {
			ns, _ := strconv.ParseInt(tok, 10, 64)
			v = c19Now.Add(time.Duration(ns - c19Now.UnixNano()))
		} else {
			v = t.In(time.Local)
		}
		if hasMono := strings.Contains(v.String(), " m="); hasMono != c19MonoWindow(tok) || !v.Equal(t) {
			panic("c19Rep: monotonic reading window")
		}
		return v
	}
	return t
}

// c19ApplyReps sets the representation of the objects' time values and returns the function that restores them.
func c19ApplyReps(rows []*pgThing, ds, reps string) func() {
	if reps == "-" || reps == "" {
		return func() {}
	}
	want := map[string]string{}
	for _, e := range strings.Split(reps, ",") {
		if kv := strings.SplitN(e, ":", 2); len(kv) == 2 {
			want[kv[0]] = kv[1]
		}
	}
	toks := map[string]string{}
	for _, r := range strings.Split(ds, ";") {
		if c := strings.Split(r, ","); len(c) > 6 {
			toks[c[0]] = strings.TrimPrefix(c[6], "T")
		}
	}
	type saved struct {
		e *pgThing
		t time.Time
	}
	var undo []saved
	for _, e := range rows {
		if rep, ok := want[e.Id]; ok && e.T != nil {
			undo = append(undo, saved{e, *e.T})
			*e.T = c19Rep(*e.T, toks[e.Id], rep)
		}
	}
	return func() {
		for _, u := range undo {
			*u.e.T = u.t
		}
	}
}

func c19Emit(out *bufio.Writer, ds, filter, sortTok, skip, limit, order string) {
	fmt.Fprintf(out, "o %s %s %s %s %s %s\n", ds, filter, sortTok, skip, limit, order)
}

func c19EmitV(out *bufio.Writer, ds, filter, sortTok, skip, limit, order, variant string) {
	fmt.Fprintf(out, "o %s %s %s %s %s %s %s\n", ds, filter, sortTok, skip, limit, order, variant)
}

// ---- the enlarged universe: object-store variants, nested filters, unknown symbols, set functions on non-set
// symbols, long / duplicate sort lists, NaN data

// c19GenNested: and / or / not over the atoms (depth <= 3)
func c19GenNested(r *rng, depth int) string {
	if depth == 0 || r.chance(1, 3) {
		a := c19GenFilter(r)
		return a
	}
	switch r.intn(3) {
	case 0:
		return "and~" + c19GenNested(r, depth-1) + "~" + c19GenNested(r, depth-1)
	case 1:
		return "or~" + c19GenNested(r, depth-1) + "~" + c19GenNested(r, depth-1)
	}
	return "not~" + c19GenNested(r, depth-1)
}

// c19GenLongSort: 0..9 sort fields, duplicates welcome, id anywhere, sometimes an unknown field
func c19GenLongSort(r *rng) string {
	n := r.intn(10)
	if n == 0 {
		return "-"
	}
	var fs []string
	for i := 0; i < n; i++ {
		name := pick(r, pgSortFields)
		if r.chance(1, 4) && len(fs) > 0 {
			name = fs[r.intn(len(fs))]
			name = name[:len(name)-1] // a duplicate of an earlier field, maybe in the other direction
		}
		fs = append(fs, name+pick(r, []string{"+", "-", "~"}))
	}
	if r.chance(1, 25) {
		fs[r.intn(len(fs))] = pick(r, []string{"nosuch+", "roles-", "owner+", "a-", "tags.k+"})
	}
	return strings.Join(fs, ",")
}

const c19NaN = "7ff8000000000001"

// c19WithNaN replaces the float of some rows by NaN
func c19WithNaN(r *rng, ds string) string {
	if ds == "-" || ds == "0" {
		return ds
	}
	rows := strings.Split(ds, ";")
	for i, row := range rows {
		if r.chance(1, 2) {
			f := strings.Split(row, ",")
			f[4] = pick(r, []string{c19NaN, c19NaN, "fff8000000000000"})
			rows[i] = strings.Join(f, ",")
		}
	}
	return strings.Join(rows, ";")
}

// c19GenNaNKeys: NaN (two bit patterns), +-Inf, -0/+0 and numbers under a float64 SORT key, every iteration order:
// since 1532996 NaN sorts before every number in both stores (before, the answer depended on the order in which the
// rows reached the result tree).
func c19GenNaNKeys(r *rng, out *bufio.Writer, nData, perData int) {
	fpool := []string{c19NaN, c19NaN, "fff8000000000000", "3ff0000000000000", "4000000000000000", "3fe0000000000000", "N",
		"7ff0000000000000", "fff0000000000000", "8000000000000000", "0000000000000000"}
	for d := 0; d < nData; d++ {
		n := 2 + r.intn(5)
		rows := strings.Split(pgGenRows(r, n), ";")
		for i, row := range rows {
			f := strings.Split(row, ",")
			f[4] = pick(r, fpool)
			rows[i] = strings.Join(f, ",")
		}
		ds := strings.Join(rows, ";")
		sp, lp := pgSkipPool(n), pgLimitPool(n)
		for k := 0; k < perData; k++ {
			skip, limit := "-", "-"
			if r.chance(1, 2) {
				skip, limit = pgPickPaging(r, sp, n, false), pgPickPaging(r, lp, n, true)
			}
			sortTok := "f" + pick(r, []string{"+", "-", "~"}) + pick(r, []string{"", "", ",s+", ",b-,i+"})
			if r.chance(1, 5) {
				sortTok = pick(r, []string{"s+,", "b-,"}) + sortTok
			}
			filter := "true"
			if r.chance(1, 4) {
				filter = c19GenFilter(r)
			}
			order := pick(r, []string{"fwd", "rev", "map", "rot" + strconv.Itoa(1+r.intn(5))})
			c19EmitV(out, ds, filter, sortTok, skip, limit, order, "full")
		}
	}
}

// c19GenAliases: keyword-like symbol names (pgAliases) in sort lists and filters, against the object stores that declare them
func c19GenAliases(r *rng, out *bufio.Writer, nData, perData int) {
	for d := 0; d < nData; d++ {
		n := 1 + r.intn(7)
		ds := pgGenRows(r, n)
		sp, lp := pgSkipPool(n), pgLimitPool(n)
		for k := 0; k < perData; k++ {
			skip, limit := "-", "-"
			if r.chance(1, 3) {
				skip, limit = pgPickPaging(r, sp, n, false), pgPickPaging(r, lp, n, true)
			}
			filter := "true"
			if r.chance(1, 2) {
				filter = pgAliasFilter(r)
			}
			order := pick(r, []string{"fwd", "rev", "map", "rot" + strconv.Itoa(r.intn(7))})
			c19EmitV(out, ds, filter, pgGenAliasSort(r), skip, limit, order, pick(r, []string{"full", "full", "full", "noid", "sub"}))
		}
	}
}

// c19GenTimeReps: collections in which several objects carry the SAME instant as different time.Time values (UTC, fixed
// zones, Local, with a monotonic reading), sorted by t in either direction (alone, before or after other keys), every
// iteration order, every paging boundary: equal instants tie and fall through to the id.
func c19GenTimeReps(r *rng, out *bufio.Writer, nData, perData int) {
	repPool := []string{"", "z1", "z2", "z3", "z4", "m", "m"}
	for d := 0; d < nData; d++ {
		n := 2 + r.intn(5)
		rows := strings.Split(pgGenRows(r, n), ";")
		// few distinct instants: ties are the rule
		tpool := []string{pick(r, pgTimePool), pick(r, pgTimePool), pick(r, pgTimeConsts)}
		var reps []string
		for i, row := range rows {
			f := strings.Split(row, ",")
			f[6] = pick(r, tpool)
			rows[i] = strings.Join(f, ",")
			if rep := pick(r, repPool); rep != "" {
				reps = append(reps, f[0]+":"+rep)
			}
		}
		repTok := "-"
		if len(reps) > 0 {
			repTok = strings.Join(reps, ",")
		}
		ds := strings.Join(rows, ";")
		sp, lp := pgSkipPool(n), pgLimitPool(n)
		for k := 0; k < perData; k++ {
			skip, limit := "-", "-"
			if r.chance(1, 2) {
				skip, limit = pgPickPaging(r, sp, n, false), pgPickPaging(r, lp, n, true)
			}
			sortTok := "t" + pick(r, []string{"+", "-", "~"}) + pick(r, []string{"", "", "", ",s+", ",id-", ",b-,i+"})
			if r.chance(1, 5) {
				sortTok = pick(r, []string{"b+,", "s-,"}) + sortTok
			}
			filter := "true"
			if r.chance(1, 3) {
				filter = pick(r, []string{"notnull.t", "cmp.t.eq." + pick(r, pgTimeConsts), "cmp.t.ge." + pick(r, pgTimeConsts), c19GenFilter(r)})
			}
			order := pick(r, []string{"fwd", "rev", "rev", "map", "rot" + strconv.Itoa(1+r.intn(5))})
			fmt.Fprintf(out, "o %s %s %s %s %s %s full %s\n", ds, filter, sortTok, skip, limit, order, repTok)
		}
	}
}

func c19GenWide(r *rng, out *bufio.Writer, nData, perData int) {
	for d := 0; d < nData; d++ {
		n := r.intn(8)
		ds := pgGenRows(r, n)
		nan := r.chance(1, 3)
		if nan {
			ds = c19WithNaN(r, ds)
		}
		sp, lp := pgSkipPool(n), pgLimitPool(n)
		for k := 0; k < perData; k++ {
			skip, limit := pgPickPaging(r, sp, n, false), pgPickPaging(r, lp, n, true)
			sortTok := c19GenLongSort(r)
			order := pick(r, []string{"fwd", "rev", "map", "rot" + strconv.Itoa(r.intn(7))})
			variant := pick(r, []string{"full", "full", "full", "sub", "noid"})
			var filter string
			switch r.intn(12) {
			case 0:
				filter = "setfn." + pick(r, []string{"anyOf", "allOf", "count", "isEmpty"}) + "." + pick(r, []string{"s", "i", "id", "b", "nosuch"})
			case 1:
				filter = pick(r, []string{"cmp.nosuch.eq.S61", "null.nosuch", "notnull.zz", "and~true~null.nosuch", "not~cmp.zz.lt.S62"})
			case 2, 3:
				filter = c19GenFilter(r)
			default:
				filter = c19GenNested(r, 3)
			}
			c19EmitV(out, ds, filter, sortTok, skip, limit, order, variant)
		}
	}
}

func c19GenFilter(r *rng) string {
	// null tests are this property's own subject: weight them up
	k := r.intn(10)
	switch {
	case k < 3:
		return "null." + pick(r, []string{"b", "i", "n", "f", "s", "t"})
	case k < 5:
		return "notnull." + pick(r, []string{"b", "i", "n", "f", "s", "t"})
	}
	return pgGenFilter(r, true)
}

func c19Gen(tier string, seed uint64, out *bufio.Writer) {
	r := newRng(seed ^ 0xC19)
	nData, perData := 200, 75
	if tier == "thorough" {
		nData, perData = 4000, 100
	}
	for _, ds := range []string{"-", "0"} {
		for _, sk := range []string{"-", "0", "2", "-1"} {
			for _, li := range []string{"-", "none", "0", "3"} {
				c19Emit(out, ds, "true", "-", sk, li, "fwd")
				c19Emit(out, ds, "null.s", "s-", sk, li, "map")
				c19Emit(out, ds, "true", []string{"-", "s+", "id-", "b-,i+"}[(len(sk)+len(li))%4], sk, li, "nil")
			}
		}
	}
	for d := 0; d < nData; d++ {
		n := r.intn(8)
		ds := pgGenRows(r, n)
		sp, lp := pgSkipPool(n), pgLimitPool(n)
		for k := 0; k < perData; k++ {
			skip, limit := pgPickPaging(r, sp, n, false), pgPickPaging(r, lp, n, true)
			if r.chance(1, 80) {
				skip = pick(r, []string{"x", "big"})
			}
			if r.chance(1, 80) {
				limit = pick(r, []string{"x", "big"})
			}
			sortTok := pgGenSort(r)
			if r.chance(1, 100) {
				sortTok = pick(r, []string{"roles+", "nosuch+"})
			}
			order := pick(r, []string{"fwd", "rev", "map", "rot" + strconv.Itoa(r.intn(7))})
			c19Emit(out, ds, c19GenFilter(r), sortTok, skip, limit, order)
		}
	}
	if tier == "thorough" {
		c19GenHist(newRng(seed^0xC19E), out, 12000)
	} else {
		c19GenHist(newRng(seed^0xC19E), out, 1800)
	}
	if tier == "thorough" {
		c19GenWide(newRng(seed^0xC19A), out, 2500, 60)
		c19GenNaNKeys(newRng(seed^0xC19B), out, 600, 30)
		c19GenAliases(newRng(seed^0xC19C), out, 600, 30)
		c19GenTimeReps(newRng(seed^0xC19D), out, 600, 30)
	} else {
		c19GenWide(newRng(seed^0xC19A), out, 150, 40)
		c19GenNaNKeys(newRng(seed^0xC19B), out, 40, 25)
		c19GenAliases(newRng(seed^0xC19C), out, 40, 30)
		c19GenTimeReps(newRng(seed^0xC19D), out, 60, 25)
	}
}
