package main

// C19 — the in-memory object store answers queries like the bolt-backed store.
//
// Case line:   o <rows> <filter> <sort> <skip> <limit> <order>
//
//	the dataset is loaded into the bolt store "things" and into an objectz.ObjectStore with the same
//	field values (see c02_c19_common.go); <order> is the order in which the object store's iterator
//	yields the objects: fwd | rev | rot<k> | map (objectz.IterateMap over a Go map)
//
// Output line:
//
//	bolt=<ids>#<count>                 boltz Store.QueryIds
//	obj=<ids>#<count>                  ObjectStore.QueryEntities
//	objc=<r1>/<r2>/<skip>:<limit>      ObjectStore.QueryEntitiesC twice on one query object, and the
//	                                   skip/limit left in the query

import (
	"bufio"
	"fmt"
	"strconv"
	"strings"

	"github.com/openziti/storage/ast"
	"go.etcd.io/bbolt"
)

func init() {
	register("c19", &propHarness{gen: c19Gen, exec: c19Exec})
}

func c19Exec(line string) string {
	f := fields(line)
	if len(f) != 7 || f[0] != "o" {
		return "bad-case"
	}
	s := pgLoad(f[1])
	text := pgQueryText(f[2], f[3], f[4], f[5])
	var out []string
	_ = s.db.View(func(tx *bbolt.Tx) error {
		ids, count, err := s.things.QueryIds(tx, text)
		out = append(out, "bolt="+pgIds(ids, count, err))
		return nil
	})
	// iteration order of the object store
	s.useMap = f[6] == "map"
	s.objOrder = append(s.objOrder[:0], s.rows...)
	switch {
	case f[6] == "rev":
		for i, j := 0, len(s.objOrder)-1; i < j; i, j = i+1, j-1 {
			s.objOrder[i], s.objOrder[j] = s.objOrder[j], s.objOrder[i]
		}
	case strings.HasPrefix(f[6], "rot"):
		k, _ := strconv.Atoi(f[6][3:])
		n := len(s.objOrder)
		if n > 0 {
			k %= n
			s.objOrder = append(append([]*pgThing{}, s.objOrder[k:]...), s.objOrder[:k]...)
		}
	}
	objs, count, err := s.objs.QueryEntities(text)
	out = append(out, "obj="+pgIds(pgThingIds(objs), count, err))
	q, perr := ast.Parse(s.objs, text)
	if perr != nil {
		out = append(out, "objc=err")
	} else {
		o1, c1, e1 := s.objs.QueryEntitiesC(q)
		o2, c2, e2 := s.objs.QueryEntitiesC(q)
		st := "nil"
		if q.GetSkip() != nil {
			st = strconv.FormatInt(*q.GetSkip(), 10)
		}
		st += ":"
		if q.GetLimit() != nil {
			st += strconv.FormatInt(*q.GetLimit(), 10)
		} else {
			st += "nil"
		}
		out = append(out, "objc="+pgIds(pgThingIds(o1), c1, e1)+"/"+pgIds(pgThingIds(o2), c2, e2)+"/"+st)
	}
	return strings.Join(out, "|")
}

func c19Emit(out *bufio.Writer, ds, filter, sortTok, skip, limit, order string) {
	fmt.Fprintf(out, "o %s %s %s %s %s %s\n", ds, filter, sortTok, skip, limit, order)
}

func c19GenFilter(r *rng) string {
	// null tests are this property's own subject: weight them up
	k := r.intn(10)
	switch {
	case k < 3:
		return "null." + pick(r, []string{"b", "i", "n", "f", "s", "t"})
	case k < 5:
		return "notnull." + pick(r, []string{"b", "i", "n", "f", "s", "t"})
	}
	return pgGenFilter(r, true)
}

func c19Gen(tier string, seed uint64, out *bufio.Writer) {
	r := newRng(seed ^ 0xC19)
	nData, perData := 200, 75
	if tier == "thorough" {
		nData, perData = 4000, 100
	}
	for _, ds := range []string{"-", "0"} {
		for _, sk := range []string{"-", "0", "2", "-1"} {
			for _, li := range []string{"-", "none", "0", "3"} {
				c19Emit(out, ds, "true", "-", sk, li, "fwd")
				c19Emit(out, ds, "null.s", "s-", sk, li, "map")
			}
		}
	}
	for d := 0; d < nData; d++ {
		n := r.intn(8)
		ds := pgGenRows(r, n)
		sp, lp := pgSkipPool(n), pgLimitPool(n)
		for k := 0; k < perData; k++ {
			skip, limit := pgPickPaging(r, sp, n, false), pgPickPaging(r, lp, n, true)
			if r.chance(1, 80) {
				skip = pick(r, []string{"x", "big"})
			}
			if r.chance(1, 80) {
				limit = pick(r, []string{"x", "big"})
			}
			sortTok := pgGenSort(r)
			if r.chance(1, 100) {
				sortTok = pick(r, []string{"roles+", "nosuch+"})
			}
			order := pick(r, []string{"fwd", "rev", "map", "rot" + strconv.Itoa(r.intn(7))})
			c19Emit(out, ds, c19GenFilter(r), sortTok, skip, limit, order)
		}
	}
}
