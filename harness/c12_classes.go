package main

import (
	"bufio"
	"fmt"
	"reflect"

	"github.com/openziti/storage/ast"
)

// C12, round 8: the TYPED class of an operand of not / and / or.
//
//	c <letter>
//	    the operation atom <letter> (canonical spelling) on its own: the executor prints
//	    `class <Go struct of the typed predicate> <constant its GetType() reports>`, e.g.
//	    `class BinaryFloat64ExprNode NodeTypeFloat64`.  The model prints the class its atom table
//	    gives the letter and the GetType() constant the regenerated class table
//	    (Generated/C10Classes.lean) has for that class; the spec has no opinion (`any`).
//
// This ties the class parameter of the Lean model (`transformC`: UntypedNotExprNode /
// BooleanLogicExprNode.TypeTransformBool decide by the interface assertion `.(BoolNode)` on the
// typed operand, whatever its GetType() says) to the node the typing stage really builds for every
// atom of the r-cases: comparisons typed as bool / int64 / float64 (float symbol against any number,
// int symbol against a literal with a decimal point) / string / datetime comparisons, `= null`, in
// over the four array types, between over the three, their not-forms (NotExprNode), the set
// functions, isEmpty, counts of sets and sub-queries (a comparison over CountSetExprNode), a bool
// symbol alone.  What `not (P)` / `P and Q` / `P or Q` must evaluate to over these operands is
// checked by the r-cases (negated atoms, related operands, re-spellings) against the generator's
// truth per row.

func c12NodeTypeConst(t ast.NodeType) string {
	switch t {
	case ast.NodeTypeBool:
		return "NodeTypeBool"
	case ast.NodeTypeDatetime:
		return "NodeTypeDatetime"
	case ast.NodeTypeFloat64:
		return "NodeTypeFloat64"
	case ast.NodeTypeInt64:
		return "NodeTypeInt64"
	case ast.NodeTypeString:
		return "NodeTypeString"
	case ast.NodeTypeAnyType:
		return "NodeTypeAnyType"
	case ast.NodeTypeOther:
		return "NodeTypeOther"
	}
	return fmt.Sprintf("NodeType(%d)", int(t))
}

func c12ExecClass(letter byte) string {
	if _, ok := c12Atoms[letter]; !ok {
		return "bad-case"
	}
	query, err := ast.Parse(c12Any(c12Rows[0]), c12SpellAtom(letter, 0))
	if err != nil {
		return c12ErrClass(err)
	}
	p := query.GetPredicate()
	t := reflect.TypeOf(p)
	for t.Kind() == reflect.Ptr {
		t = t.Elem()
	}
	return "class " + t.Name() + " " + c12NodeTypeConst(p.GetType())
}

func c12GenClasses(out *bufio.Writer) {
	for _, l := range c12AtomLetters() {
		fmt.Fprintf(out, "c %c\n", l)
	}
}
