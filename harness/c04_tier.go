package main

// C04, round 9 — a CHAIN of three stores with an fk constraint on each link, every combination of
// restrict / cascade and nullable / not:
//
//	zowners  <-- ref --  zitems  <-- ref --  znotes
//
//	items.AddFkConstraint(items.ref -> owners, variant&2, variant&1 ? CascadeDelete : CascadeNone)
//	notes.AddFkConstraint(notes.ref -> items,  variant&8, variant&4 ? CascadeDelete : CascadeNone)
//
// so that a cascade which starts at an owner REACHES entities (items) which a restrict constraint of the
// next link protects.  Model: lean/StorageModel/C04/Tier.lean.
//
//	case:  t|T <variant 0..15> <tx> <tx> ...       (T = verbose)
//	op:    n0:<id>  n1:<id>:<ref>  n2:<id>:<ref>   create owner / item / note    (<ref>: ~ nil, - "", hex)
//	       m1:<id>:<ref>  m2:<id>:<ref>            update item / note (nil checker)
//	       r0:<id>  r1:<id>  r2:<id>               DeleteById on owners / items / notes
//	output per transaction: <res>#<fine>#<coarse>@<n owners + n items>,<n notes>

import (
	"bufio"
	"fmt"
	"sort"
	"strconv"
	"strings"

	"encoding/hex"

	"github.com/openziti/storage/ast"
	"github.com/openziti/storage/boltz"
	"go.etcd.io/bbolt"
)

var c04TierTypes = [3]string{"zowners", "zitems", "znotes"}

type c04T struct {
	Id   string
	Type string
	Ref  *string
}

func (e *c04T) GetId() string         { return e.Id }
func (e *c04T) SetId(id string)       { e.Id = id }
func (e *c04T) GetEntityType() string { return e.Type }

type c04TStrategy struct {
	entityType string
	hasRef     bool
}

func (s c04TStrategy) NewEntity() *c04T { return &c04T{Type: s.entityType} }
func (s c04TStrategy) FillEntity(e *c04T, b *boltz.TypedBucket) {
	if s.hasRef {
		e.Ref = b.GetString("ref")
	}
}
func (s c04TStrategy) PersistEntity(e *c04T, ctx *boltz.PersistContext) {
	if s.hasRef {
		ctx.SetStringP("ref", e.Ref)
	}
}

type c04TStore struct{ *boltz.BaseStore[*c04T] }

type c04TierStores struct{ s [3]*c04TStore }

func c04NewTierStores(variant int) *c04TierStores {
	st := &c04TierStores{}
	for i := 0; i < 3; i++ {
		t := c04TierTypes[i]
		s := &c04TStore{BaseStore: boltz.NewBaseStore(boltz.StoreDefinition[*c04T]{
			EntityType:      t,
			EntityStrategy:  c04TStrategy{entityType: t, hasRef: i > 0},
			BasePath:        []string{"u"},
			EntityNotFoundF: func(id string) error { return boltz.NewNotFoundError(t, "id", id) },
		})}
		s.InitImpl(s)
		s.AddIdSymbol("id", ast.NodeTypeString)
		st.s[i] = s
	}
	mode := func(c bool) boltz.CascadeType {
		if c {
			return boltz.CascadeDelete
		}
		return boltz.CascadeNone
	}
	r1 := st.s[1].AddFkSymbol("ref", st.s[0])
	st.s[1].AddFkConstraint(r1, variant&2 != 0, mode(variant&1 != 0))
	r2 := st.s[2].AddFkSymbol("ref", st.s[1])
	st.s[2].AddFkConstraint(r2, variant&8 != 0, mode(variant&4 != 0))
	return st
}

var c04TierCache = map[int]*c04TierStores{}

func c04TierApply(st *c04TierStores, ctx boltz.MutateContext, op string) error {
	f := strings.Split(op, ":")
	if len(f) < 2 || len(f[0]) != 2 {
		return fmt.Errorf("bad op %q", op)
	}
	lvl := int(f[0][1] - '0')
	if lvl < 0 || lvl > 2 {
		return fmt.Errorf("bad op %q", op)
	}
	e := &c04T{Id: fromWire(f[1]), Type: c04TierTypes[lvl]}
	if len(f) >= 3 && lvl > 0 {
		e.Ref = c04OptStr(f[2])
	}
	switch f[0][0] {
	case 'n':
		return st.s[lvl].Create(ctx, e)
	case 'm':
		return st.s[lvl].Update(ctx, e, nil)
	case 'r':
		return st.s[lvl].DeleteById(ctx, e.Id)
	}
	return fmt.Errorf("bad op %q", op)
}

func c04TierRunTx(rn *c04Runner, st *c04TierStores, tx string) (res string) {
	ops := strings.Split(tx, ",")
	failed := -1
	defer func() {
		if r := recover(); r != nil {
			if _, ok := r.(c04Diverge); ok {
				res = fmt.Sprintf("%d:diverge", failed)
				return
			}
			panic(r)
		}
	}()
	err := rn.update(func(base boltz.MutateContext) error {
		for i, op := range ops {
			failed = i
			if err := c04TierApply(st, &c04Guard{MutateContext: base}, op); err != nil {
				return err
			}
		}
		return nil
	})
	if err != nil {
		return fmt.Sprintf("%d:%s", failed, c04ErrEnum(err))
	}
	return "ok"
}

var c04TierStructural = map[string]bool{
	"B:" + ":" + hex.EncodeToString([]byte("u")):                                                true,
	"B:" + hex.EncodeToString([]byte("/u")) + ":" + hex.EncodeToString([]byte(c04TierTypes[0])): true,
	"B:" + hex.EncodeToString([]byte("/u")) + ":" + hex.EncodeToString([]byte(c04TierTypes[1])): true,
	"B:" + hex.EncodeToString([]byte("/u")) + ":" + hex.EncodeToString([]byte(c04TierTypes[2])): true,
}

func c04TierObserve(rn *c04Runner, st *c04TierStores) (fine, coarse string, n01, n2 int) {
	_ = rn.view(func(btx *bbolt.Tx) error {
		v := &c04Visitor{}
		boltz.Traverse(btx, "", v)
		var lines []string
		for _, l := range v.lines {
			if !c04TierStructural[l] {
				lines = append(lines, l)
			}
		}
		sort.Strings(lines)
		fine = strings.Join(lines, "\n")

		var cl []string
		for lvl := 0; lvl < 3; lvl++ {
			ids := c04Ids(btx, st.s[lvl])
			if lvl < 2 {
				n01 += len(ids)
			} else {
				n2 = len(ids)
			}
			cl = append(cl, fmt.Sprintf("S%d:%s", lvl, c04HexList(ids)))
			if lvl == 0 {
				continue
			}
			for _, id := range ids {
				e, found, err := st.s[lvl].FindById(btx, id)
				if err != nil || !found {
					cl = append(cl, fmt.Sprintf("%d:%s:unreadable", lvl, toWire(id)))
					continue
				}
				cl = append(cl, fmt.Sprintf("%d:%s:%s", lvl, toWire(id), c04FV(e.Ref)))
			}
		}
		coarse = strings.Join(cl, "\n")
		return nil
	})
	return
}

func c04TierExec(f []string) string {
	verbose := f[0] == "T"
	variant, err := strconv.Atoi(f[1])
	if err != nil || variant < 0 || variant > 15 {
		return "bad-case"
	}
	rn := c04DirectRunner(c04OpenDb())
	st, ok := c04TierCache[variant]
	if !ok {
		st = c04NewTierStores(variant)
		c04TierCache[variant] = st
	}
	_ = rn.fresh(func(ctx boltz.MutateContext) error {
		if ctx.Tx().Bucket([]byte("u")) != nil {
			return ctx.Tx().DeleteBucket([]byte("u"))
		}
		return nil
	})
	var out []string
	for _, tx := range f[2:] {
		if tx == "" {
			continue
		}
		res := c04TierRunTx(rn, st, tx)
		fine, coarse, a, b := c04TierObserve(rn, st)
		cnt := fmt.Sprintf("@%d,%d", a, b)
		if verbose {
			out = append(out, res+"#{"+strings.ReplaceAll(fine, "\n", "|")+"}#{"+strings.ReplaceAll(coarse, "\n", "|")+"}"+cnt)
		} else {
			out = append(out, res+"#"+c04Fnv(fine)+"#"+c04Fnv(coarse)+cnt)
		}
	}
	if len(out) == 0 {
		return "empty"
	}
	return strings.Join(out, " ")
}

// ------------------------------------------------------------------ generator

// scripted: for every variant and every pool id p (as owner, as the protected item, as the note; and the SAME id
// in all three stores): two owners, items under both, a note on one item of the first owner; then the item is
// deleted directly, the unreferenced owner, the owner whose cascade reaches the referenced item, the note, and
// the owner again
func c04GenTierScripts(out *bufio.Writer) {
	w := toWire
	for variant := 0; variant < 16; variant++ {
		for pi, p := range c04Pool {
			q := c04Pool[(pi+1)%len(c04Pool)]
			r := c04Pool[(pi+5)%len(c04Pool)]
			// distinct ids per level
			fmt.Fprintf(out, "t %d n0:%s n0:%s n1:%s:%s n1:%s:%s n1:%s:%s n2:%s:%s r1:%s r0:%s r0:%s r2:%s r0:%s\n", variant,
				w(p), w(q), w(r), w(p), w(q), w(p), w(p), w(q), w(r), w(q),
				w(q), w(q), w(p), w(r), w(p))
			// the same id at all three levels, the note on the item of the same name
			fmt.Fprintf(out, "t %d n0:%s n1:%s:%s n1:%s:%s n2:%s:%s r0:%s r2:%s r0:%s\n", variant,
				w(p), w(p), w(p), w(q), w(p), w(p), w(p), w(p), w(p), w(p))
			// the reference moved away / cleared before the owner goes
			fmt.Fprintf(out, "t %d n0:%s n0:%s n1:%s:%s n2:%s:%s m1:%s:%s r0:%s m2:%s:~ r0:%s r1:%s\n", variant,
				w(p), w(q), w(r), w(p), w(q), w(r), w(r), w(q), w(p), w(q), w(q), w(r))
		}
	}
}

type c04TierShadow struct {
	has [3]map[string]bool
	ref [3]map[string]string // "" = null
}

func c04GenTierHistory(r *rng, out *bufio.Writer, hostile bool) {
	variant := r.intn(16)
	if r.chance(1, 3) {
		variant = variant&^5 | 1 // cascade on the upper link, restrict on the lower one
	}
	pool := c04Pool
	if !hostile {
		pool = []string{"a", "b", "c", "d", "e", "f", "g"}
	}
	pick := func(n int) []string {
		ids := make([]string, n)
		for i := range ids {
			ids[i] = pool[r.intn(len(pool))]
		}
		return ids
	}
	var ids [3][]string
	ids[0] = pick(2 + r.intn(2))
	ids[1] = pick(3 + r.intn(3))
	ids[2] = pick(2 + r.intn(4))
	if r.chance(1, 2) { // the same names at every level
		ids[1] = append(ids[1], ids[0]...)
		ids[2] = append(ids[2], ids[1][:2]...)
	}
	sh := &c04TierShadow{}
	for i := range sh.has {
		sh.has[i] = map[string]bool{}
		sh.ref[i] = map[string]string{}
	}
	existing := func(lvl int) []string {
		var l []string
		for k := range sh.has[lvl] {
			l = append(l, k)
		}
		sort.Strings(l)
		return l
	}
	pickRef := func(lvl int) string {
		ex := existing(lvl - 1)
		switch {
		case len(ex) > 0 && !r.chance(1, 8):
			return toWire(ex[r.intn(len(ex))])
		case r.chance(1, 3):
			return "~"
		case r.chance(1, 3):
			return "-"
		}
		return toWire(ids[lvl-1][r.intn(len(ids[lvl-1]))])
	}
	var removeFrom func(lvl int, id string)
	removeFrom = func(lvl int, id string) {
		delete(sh.has[lvl], id)
		delete(sh.ref[lvl], id)
		if lvl < 2 {
			for k, v := range sh.ref[lvl+1] {
				if v == toWire(id) {
					removeFrom(lvl+1, k)
				}
			}
		}
	}
	genOp := func() string {
		x := r.intn(100)
		switch {
		case x < 12:
			id := ids[0][r.intn(len(ids[0]))]
			sh.has[0][id] = true
			return "n0:" + toWire(id)
		case x < 40:
			lvl := 1 + r.intn(2)
			if lvl == 1 && len(sh.has[1]) >= 2 && r.chance(1, 2) {
				lvl = 2
			}
			id := ids[lvl][r.intn(len(ids[lvl]))]
			ref := pickRef(lvl)
			if !sh.has[lvl][id] {
				sh.has[lvl][id] = true
				sh.ref[lvl][id] = ref
			}
			return fmt.Sprintf("n%d:%s:%s", lvl, toWire(id), ref)
		case x < 55:
			lvl := 1 + r.intn(2)
			ex := existing(lvl)
			id := ids[lvl][r.intn(len(ids[lvl]))]
			if len(ex) > 0 && !r.chance(1, 10) {
				id = ex[r.intn(len(ex))]
			}
			ref := pickRef(lvl)
			if sh.has[lvl][id] {
				sh.ref[lvl][id] = ref
			}
			return fmt.Sprintf("m%d:%s:%s", lvl, toWire(id), ref)
		default:
			lvl := r.intn(3)
			if r.chance(1, 2) {
				lvl = 0
			}
			ex := existing(lvl)
			id := ids[lvl][r.intn(len(ids[lvl]))]
			if len(ex) > 0 && !r.chance(1, 10) {
				id = ex[r.intn(len(ex))]
			}
			// the shadow is only a steering aid (it assumes the delete went through as a full cascade)
			if r.chance(1, 2) {
				removeFrom(lvl, id)
			}
			return fmt.Sprintf("r%d:%s", lvl, toWire(id))
		}
	}
	ntx := 6 + r.intn(20)
	fmt.Fprintf(out, "t %d", variant)
	for i := 0; i < ntx; i++ {
		nops := 1
		if r.chance(1, 5) {
			nops = 2 + r.intn(2)
		}
		ops := make([]string, nops)
		for j := range ops {
			ops[j] = genOp()
		}
		fmt.Fprintf(out, " %s", strings.Join(ops, ","))
	}
	fmt.Fprintln(out)
}

func c04GenTier(tier string, r *rng, out *bufio.Writer) {
	c04GenTierScripts(out)
	n := 600
	if tier == "thorough" {
		n = 15000
	}
	for i := 0; i < n; i++ {
		c04GenTierHistory(r, out, !r.chance(1, 4))
	}
}
