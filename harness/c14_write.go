package main

// C14 — cursor objects that are re-opened / re-sought AFTER THE SET UNDER THEM WAS REWRITTEN, inside one
// write transaction (lean/StorageModel/Cursor/Write.lean).
//
// case line:   W;MODE;PATH;THINGS;OTHERS;KEEP <items>
//
//	MODE  d  one runtime symbol from things.GetSymbol(PATH); `open` = sym.OpenCursor(tx, row)
//	      r  the ast.Symbols (rowCursorImpl) of one IterateIds scan: NextRow(row); OpenSetCursor(PATH)
//	      q  same row cursor: NextRow(row); OpenSetCursorForQuery(PATH, query accepting the ids KEEP)   (q.S.L paged)
//	      n  a provider that builds a new cursor per call: relf relr link rclinkf rclinkr, and the cursor providers of
//	         the TypedBucket of the row's `tags` list: blist bdirf bdirr btypedf btypedr bseekable bopenf bopenr
//	      i  the id cursor things.IterateIds(tx, FILTER), PATH = FILTER:
//	           any.<hex T>  anyOf(tags) = "T"     none.<hex T>  not (anyOf(tags) = "T")     empty  isEmpty(tags)
//	           lnk.<hex O>  anyOf(others) = "O"   cnt.N  count(tags) >= N                   true
//	         (`open` = a new IterateIds cursor; the row of an entry is ignored)
//	items  separated by '/':   [WRITE&WRITE…>]ENTRY:ops
//	ENTRY  o<hex row> (open)   s<hex> (Seek on the object as it stands)   t<hex> (SeekToString)
//	WRITE  U=id=tags=others=boss   things.Update(thing, nil): every field rewritten (the tags bucket is deleted and re-created)
//	       T=id=tags               things.Update(thing, {tags}): only the tags list (deleted and re-created)
//	       P=id=x   X=id=x         one key put into / deleted from the tags bucket of the thing (TypedBucket)
//	       M=id=x=y                the set symbol's Map: the element x of tags replaced by y (y = `~`: removed)
//	       L+=id=o  L-=id=o        links.AddLinks / RemoveLinks
//	       R+=id=o  R-=id=o        rcLinks.IncrementLinkCount once / DecrementLinkCount until the link is gone
//	       D=id                    things.DeleteById
//	       C=id=tags               things.Create (tags only)
//	       OU=oid=tags=name        others.Update(other, nil)
//	     (lists: hex elements separated by ',', `_` = empty; boss / name `~` = nil; a write to a thing that does
//	      not exist fails inside the library and changes nothing)
//
// output: for every item the observation after the entry and after every operation.
//
// The whole script runs inside ONE db.Update transaction, twice: with the fixture written in the same transaction
// (bbolt serves everything from its in-memory nodes) and over the committed fixture (pages + the nodes the
// script's writes materialise); both transactions are rolled back; the two must agree.

import (
	"bufio"
	"context"
	"errors"
	"fmt"
	"strconv"
	"strings"

	"github.com/openziti/storage/ast"
	"github.com/openziti/storage/boltz"
	"go.etcd.io/bbolt"
)

type c14Write struct {
	kind string
	args []string
}

type c14Item struct {
	writes []c14Write
	entry  c14Op // kind 'o' (val = row), 's', 't'
	ops    []c14Op
}

func c14ParseItems(s string) []c14Item {
	var res []c14Item
	for _, p := range strings.Split(s, "/") {
		var it c14Item
		if i := strings.Index(p, ">"); i >= 0 {
			for _, w := range strings.Split(p[:i], "&") {
				f := strings.Split(w, "=")
				it.writes = append(it.writes, c14Write{kind: f[0], args: f[1:]})
			}
			p = p[i+1:]
		}
		f := strings.SplitN(p, ":", 2)
		if len(f) != 2 || len(f[0]) < 2 {
			panic("bad item " + p)
		}
		it.entry = c14Op{kind: f[0][0], val: fromWire(f[0][1:])}
		it.ops = c14ParseOps(f[1])
		res = append(res, it)
	}
	return res
}

func (w c14Write) String() string { return strings.Join(append([]string{w.kind}, w.args...), "=") }

func c14ShowItems(items []c14Item) string {
	ws := make([]string, len(items))
	for i, it := range items {
		s := ""
		if len(it.writes) > 0 {
			wr := make([]string, len(it.writes))
			for j, w := range it.writes {
				wr[j] = w.String()
			}
			s = strings.Join(wr, "&") + ">"
		}
		ws[i] = s + string(it.entry.kind) + toWire(it.entry.val) + ":" + c14ShowOps(it.ops)
	}
	return strings.Join(ws, "/")
}

type c14WriteFx struct {
	c14ReuseFx
	world *c14World
}

var errC14Rollback = errors.New("rollback")

func (fx *c14WriteFx) setupW(tx *bbolt.Tx) {
	st := c14NewStores("wr", false)
	st.init(tx)
	fx.st = st
	w := fx.world
	ctx := boltz.NewTxMutateContext(context.Background(), tx)
	for _, o := range w.others {
		c14Must(st.others.Create(ctx, &c14Other{Id: o.id, Tags: o.tags, Name: o.name}))
	}
	for _, t := range w.things {
		th := c14Thing{Id: t.id, Tags: t.tags, Others: t.others, Boss: t.boss}
		c14Must(st.things.Create(ctx, &th))
	}
	for _, t := range w.things {
		for _, id := range t.rc {
			_, err := st.rcLinks.IncrementLinkCount(tx, []byte(t.id), []byte(id))
			c14Must(err)
		}
		if t.hasRc && len(t.rc) == 0 && len(w.others) > 0 {
			o := []byte(w.others[0].id)
			_, err := st.rcLinks.IncrementLinkCount(tx, []byte(t.id), o)
			c14Must(err)
			_, err = st.rcLinks.DecrementLinkCount(tx, []byte(t.id), o)
			c14Must(err)
		}
	}
	if fx.mode == "r" || fx.mode == "q" {
		// the scan must reach the filter even when no thing is left
		c14Must(st.things.Create(ctx, &c14Thing{Id: c14Sentinel}))
	}
}

func c14WList(s string) []string { return c14ParseSet(s) }

// one write; an error of the library (entity not found, …) leaves the data as it was
func (fx *c14WriteFx) write(tx *bbolt.Tx, w c14Write) {
	st := fx.st
	ctx := boltz.NewTxMutateContext(context.Background(), tx)
	id := func(i int) string { return fromWire(w.args[i]) }
	tagsBucket := func() *boltz.TypedBucket {
		eb := st.things.GetEntityBucket(tx, []byte(id(0)))
		if eb == nil {
			return nil
		}
		return eb.GetBucket("tags")
	}
	switch w.kind {
	case "U":
		_ = st.things.Update(ctx, &c14Thing{Id: id(0), Tags: c14WList(w.args[1]), Others: c14WList(w.args[2]), Boss: c14ParseOpt(w.args[3])}, nil)
	case "T":
		_ = st.things.Update(ctx, &c14Thing{Id: id(0), Tags: c14WList(w.args[1])}, boltz.MapFieldChecker{"tags": struct{}{}})
	case "P":
		if b := tagsBucket(); b != nil {
			b.SetListEntry(boltz.TypeString, []byte(id(1)))
			c14Must(b.GetError())
		}
	case "X":
		if b := tagsBucket(); b != nil {
			c14Must(b.DeleteListEntry(boltz.TypeString, []byte(id(1))).GetError())
		}
	case "M":
		sym := st.things.GetSymbol("tags").(interface {
			Map(tx *bbolt.Tx, key []byte, f func(ctx *boltz.MapContext)) error
		})
		from := id(1)
		_ = sym.Map(tx, []byte(id(0)), func(mc *boltz.MapContext) {
			if mc.ValueS() == from {
				if w.args[2] == "~" {
					mc.Delete()
				} else {
					mc.ReplaceS(id(2))
				}
			}
		})
	case "L+":
		_ = st.links.AddLinks(tx, id(0), id(1))
	case "L-":
		_ = st.links.RemoveLinks(tx, id(0), id(1))
	case "R+":
		_, _ = st.rcLinks.IncrementLinkCount(tx, []byte(id(0)), []byte(id(1)))
	case "R-":
		for i := 0; i < 8; i++ {
			n, err := st.rcLinks.DecrementLinkCount(tx, []byte(id(0)), []byte(id(1)))
			if err != nil || n <= 0 {
				break
			}
		}
	case "D":
		_ = st.things.DeleteById(ctx, id(0))
	case "C":
		_ = st.things.Create(ctx, &c14Thing{Id: id(0), Tags: c14WList(w.args[1])})
	case "OU":
		_ = st.others.Update(ctx, &c14Other{Id: id(0), Tags: c14WList(w.args[1]), Name: c14ParseOpt(w.args[2])}, nil)
	default:
		panic("bad write " + w.kind)
	}
}

func c14IdFilter(st *c14Stores, spec string) ast.BoolNode {
	f := strings.SplitN(spec, ".", 2)
	var q string
	switch f[0] {
	case "true":
		return ast.BoolNodeTrue
	case "any":
		q = `anyOf(tags) = "` + fromWire(f[1]) + `"`
	case "none":
		q = `not (anyOf(tags) = "` + fromWire(f[1]) + `")`
	case "empty":
		q = `isEmpty(tags)`
	case "lnk":
		q = `anyOf(others) = "` + fromWire(f[1]) + `"`
	case "cnt":
		q = `count(tags) >= ` + f[1]
	default:
		panic("bad filter " + spec)
	}
	node, err := ast.Parse(st.things, q)
	c14Must(err)
	return node
}

func (fx *c14WriteFx) provider(tx *bbolt.Tx, root string) ast.SetCursor {
	st := fx.st
	switch fx.path {
	case "relf":
		return st.things.GetRelatedEntitiesCursor(tx, root, "tags", true)
	case "relr":
		return st.things.GetRelatedEntitiesCursor(tx, root, "tags", false)
	case "link":
		return st.links.IterateLinks(tx, []byte(root))
	case "rclinkf":
		return st.rcLinks.IterateLinks(tx, []byte(root), true)
	case "rclinkr":
		return st.rcLinks.IterateLinks(tx, []byte(root), false)
	}
	var l *boltz.TypedBucket
	if eb := st.things.GetEntityBucket(tx, []byte(root)); eb != nil {
		l = eb.GetBucket("tags")
	}
	if l == nil {
		return ast.NewEmptyCursor()
	}
	switch fx.path {
	case "blist":
		return l.IterateStringList()
	case "bdirf":
		return l.IterateStringListInDirection(true)
	case "bdirr":
		return l.IterateStringListInDirection(false)
	case "btypedf":
		return l.OpenTypedCursor(tx, true)
	case "btypedr":
		return l.OpenTypedCursor(tx, false)
	case "bseekable":
		return l.OpenSeekableCursor()
	case "bopenf":
		return l.OpenCursor(tx, true)
	case "bopenr":
		return l.OpenCursor(tx, false)
	}
	panic("bad provider " + fx.path)
}

// run all items on one object inside one (writing) transaction
func (fx *c14WriteFx) runW(tx *bbolt.Tx, items []c14Item) (res string) {
	var out []string
	defer func() {
		if r := recover(); r != nil {
			out = append(out, "panic")
			res = strings.Join(out, " ")
		}
	}()
	st := fx.st
	drive := func(open func(root string) ast.SetCursor) {
		var c ast.SetCursor
		for _, it := range items {
			for _, w := range it.writes {
				fx.write(tx, w)
			}
			switch it.entry.kind {
			case 'o':
				c = open(it.entry.val)
				out = append(out, c14Observe(c))
			default:
				if c == nil {
					panic("bad script: seek before open")
				}
				c14Drive(c, []c14Op{it.entry}, &out)
			}
			c14Drive(c, it.ops, &out)
		}
	}
	switch fx.mode {
	case "d":
		sym := st.things.GetSymbol(fx.path).(boltz.RuntimeEntitySetSymbol)
		drive(func(root string) ast.SetCursor { return sym.OpenCursor(tx, []byte(root)) })
	case "r", "q":
		done := false
		filter := c14CaptureFilter{f: func(s ast.Symbols) {
			if done {
				return
			}
			done = true
			rows := s.(interface{ NextRow(id []byte) })
			query := &c14SubQuery{keep: fx.keep, skip: fx.skip, limit: fx.limit}
			drive(func(root string) ast.SetCursor {
				rows.NextRow([]byte(root))
				if fx.mode == "q" {
					return s.OpenSetCursorForQuery(fx.path, query)
				}
				return s.OpenSetCursor(fx.path)
			})
		}}
		st.things.IterateIds(tx, filter)
		if !done {
			panic("fixture: the scan did not reach the filter")
		}
	case "n":
		drive(func(root string) ast.SetCursor { return fx.provider(tx, root) })
	case "i":
		filter := c14IdFilter(st, fx.path)
		drive(func(string) ast.SetCursor { return st.things.IterateIds(tx, filter) })
	default:
		panic("bad mode " + fx.mode)
	}
	return strings.Join(out, " ")
}

var c14CurW *c14WriteFx
var c14CurWDesc string

func c14WriteExec(f []string) string {
	t := strings.Split(f[0], ";")
	if len(t) != 6 {
		return "bad-case"
	}
	switch strings.SplitN(t[1], ".", 2)[0] {
	case "d", "r", "q", "n", "i":
	default:
		return "bad-case"
	}
	items := c14ParseItems(f[1])
	if len(items) == 0 || items[0].entry.kind != 'o' {
		return "bad-case"
	}
	db := c14GetDb()
	var first string
	if c14CurW == nil || c14CurWDesc != f[0] {
		fx := &c14WriteFx{}
		fx.mode, fx.path, fx.keep = t[1], t[2], map[string]bool{}
		if m := strings.Split(t[1], "."); len(m) == 3 && m[0] == "q" {
			sk, e1 := strconv.ParseInt(m[1], 10, 64)
			lim, e2 := strconv.ParseInt(m[2], 10, 64)
			if e1 != nil || e2 != nil {
				return "bad-case"
			}
			fx.mode, fx.skip = "q", &sk
			if lim >= 0 {
				fx.limit = &lim
			}
		}
		for _, k := range c14ParseSet(t[5]) {
			fx.keep[k] = true
		}
		fx.world = c14ParseWorld(t[3], t[4])
		c14Cur, c14CurW = nil, nil
		// the committed fixture
		c14Must(db.Update(func(tx *bbolt.Tx) error {
			if tx.Bucket([]byte(c14Root)) != nil {
				c14Must(tx.DeleteBucket([]byte(c14Root)))
			}
			fx.setupW(tx)
			return nil
		}))
		c14CurW, c14CurWDesc = fx, f[0]
	}
	fx := c14CurW
	// (A) fixture and script in ONE transaction: everything is served from bbolt's in-memory nodes
	err := db.Update(func(tx *bbolt.Tx) error {
		c14Must(tx.DeleteBucket([]byte(c14Root)))
		fx.setupW(tx)
		first = fx.runW(tx, items)
		return errC14Rollback
	})
	if err != errC14Rollback {
		c14Must(err)
	}
	// (B) the script over the committed fixture
	var res string
	err = db.Update(func(tx *bbolt.Tx) error {
		res = fx.runW(tx, items)
		return errC14Rollback
	})
	if err != errC14Rollback {
		c14Must(err)
	}
	if first != res {
		return "tx-mismatch same-tx: " + first + " | committed: " + res
	}
	return res
}

// ---------------------------------------------------------------------------- generator

// the generator's own picture of the world: what exists, and which bucket objects have been replaced
type c14GThing struct {
	id     string
	tags   []string
	others []string
	boss   *string
	rc     []string
	hasRc  bool
	inc    int // incarnation (Create)
	gen    int // generation of the tags bucket (Update)
}

type c14GWorld struct {
	things []*c14GThing
	others []c14WOther
	clock  int
}

func (g *c14GWorld) find(id string) *c14GThing {
	for _, t := range g.things {
		if t.id == id {
			return t
		}
	}
	return nil
}

func c14SetAdd(xs []string, x string) []string {
	if c14Has(xs, x) {
		return xs
	}
	return append(append([]string{}, xs...), x)
}

func c14SetDel(xs []string, x string) []string {
	var res []string
	for _, y := range xs {
		if y != x {
			res = append(res, y)
		}
	}
	return res
}

func (g *c14GWorld) apply(w c14Write) {
	g.clock++
	id := fromWire(w.args[0])
	t := g.find(id)
	switch w.kind {
	case "U":
		if t != nil {
			t.tags, t.others, t.boss, t.gen = c14WList(w.args[1]), c14WList(w.args[2]), c14ParseOpt(w.args[3]), g.clock
		}
	case "T":
		if t != nil {
			t.tags, t.gen = c14WList(w.args[1]), g.clock
		}
	case "P":
		if t != nil {
			t.tags = c14SetAdd(t.tags, fromWire(w.args[1]))
		}
	case "X":
		if t != nil {
			t.tags = c14SetDel(t.tags, fromWire(w.args[1]))
		}
	case "M":
		if t != nil && c14Has(t.tags, fromWire(w.args[1])) {
			t.tags = c14SetDel(t.tags, fromWire(w.args[1]))
			if w.args[2] != "~" {
				t.tags = c14SetAdd(t.tags, fromWire(w.args[2]))
			}
		}
	case "L+":
		if t != nil {
			t.others = c14SetAdd(t.others, fromWire(w.args[1]))
		}
	case "L-":
		if t != nil {
			t.others = c14SetDel(t.others, fromWire(w.args[1]))
		}
	case "R+":
		if t != nil {
			t.rc, t.hasRc = c14SetAdd(t.rc, fromWire(w.args[1])), true
		}
	case "R-":
		if t != nil {
			t.rc, t.hasRc = c14SetDel(t.rc, fromWire(w.args[1])), true
		}
	case "D":
		if t != nil {
			var rest []*c14GThing
			for _, x := range g.things {
				if x != t {
					rest = append(rest, x)
				}
			}
			g.things = rest
		}
	case "C":
		if t == nil {
			g.things = append(g.things, &c14GThing{id: id, tags: c14WList(w.args[1]), inc: g.clock, gen: g.clock})
		}
	case "OU":
		for i := range g.others {
			if g.others[i].id == id {
				g.others[i].tags, g.others[i].name = c14WList(w.args[1]), c14ParseOpt(w.args[2])
			}
		}
	}
}

// the identity of the bucket object behind (path, row), as far as a cursor opened on it is concerned
func (g *c14GWorld) ident(path, row string) string {
	t := g.find(row)
	if t == nil {
		return "none"
	}
	switch path {
	case "tags":
		return fmt.Sprintf("%d.%d", t.inc, t.gen)
	case "rcOthers":
		return fmt.Sprintf("%d.%v", t.inc, t.hasRc)
	}
	return fmt.Sprintf("%d", t.inc)
}

func c14GWorldOf(w *c14World) *c14GWorld {
	g := &c14GWorld{others: append([]c14WOther{}, w.others...)}
	for _, t := range w.things {
		g.things = append(g.things, &c14GThing{id: t.id, tags: t.tags, others: t.others, boss: t.boss, rc: t.rc, hasRc: t.hasRc})
	}
	return g
}

var c14WTagPool = []string{"a", "b", "c", "aa", "ab", "", "\x00", "\xff"}

func c14WShowList(xs []string) string { return c14ShowSet(xs) }

// a random write; `focus` is the row the object is (or will be) opened on: most writes hit it
func c14GenWrite(r *rng, g *c14GWorld, focus string, pathField string, keyOnly bool) c14Write {
	ids := []string{}
	for _, t := range g.things {
		ids = append(ids, t.id)
	}
	id := focus
	if r.chance(1, 4) || id == "" {
		id = pick(r, append(ids, "missing", "t9"))
	}
	var oids []string
	for _, o := range g.others {
		oids = append(oids, o.id)
	}
	t := g.find(id)
	tagOf := func() string {
		if t != nil && len(t.tags) > 0 && r.chance(1, 2) {
			return pick(r, t.tags)
		}
		return pick(r, c14WTagPool)
	}
	kinds := []string{"P", "X", "P", "X", "M"}
	if len(oids) > 0 {
		kinds = append(kinds, "L+", "L-", "R+", "R-")
	}
	if !keyOnly {
		kinds = append(kinds, "U", "T", "T", "U", "D", "C", "T")
		if len(oids) > 0 {
			kinds = append(kinds, "OU")
		}
	}
	// prefer writes that change the field the cursor walks
	switch pathField {
	case "tags":
		kinds = append(kinds, "P", "X", "M")
	case "others":
		if len(oids) > 0 {
			kinds = append(kinds, "L+", "L-", "L+", "L-")
		}
	case "rcOthers":
		if len(oids) > 0 {
			kinds = append(kinds, "R+", "R-", "R+", "R-")
		}
	}
	k := pick(r, kinds)
	w := toWire
	switch k {
	case "U":
		var others []string
		var boss *string
		if t != nil {
			others, boss = t.others, t.boss
		}
		if r.chance(1, 3) && len(oids) > 0 {
			others = c14SubsetP(r, oids, len(oids), true, 1, 2)
		}
		if r.chance(1, 4) {
			b := pick(r, append(ids, "nobody"))
			boss = &b
		}
		tags := c14SubsetP(r, c14WTagPool, 4, false, 1, 3)
		if t != nil && r.chance(1, 3) {
			tags = t.tags
		}
		return c14Write{"U", []string{w(id), c14WShowList(tags), c14WShowList(others), c14ShowOpt(boss)}}
	case "T":
		tags := c14SubsetP(r, c14WTagPool, 4, false, 1, 3)
		if t != nil && len(t.tags) > 0 && r.chance(1, 3) {
			// the same elements but one
			tags = c14SetDel(t.tags, pick(r, t.tags))
		}
		return c14Write{"T", []string{w(id), c14WShowList(tags)}}
	case "P", "X":
		return c14Write{k, []string{w(id), w(tagOf())}}
	case "M":
		// only the removing form: a REPLACING Map stores the new element under type byte 0 (MapContext.Replace never
		// sets newType) — a defect of that write path, not of a cursor, see notes/C14.md
		return c14Write{"M", []string{w(id), w(tagOf()), "~"}}
	case "L+", "L-", "R+", "R-":
		return c14Write{k, []string{w(id), w(pick(r, oids))}}
	case "D":
		return c14Write{"D", []string{w(id)}}
	case "C":
		nid := id
		if t != nil && r.chance(1, 2) {
			nid = pick(r, []string{"t0", "t5", "a", "zz"})
		}
		return c14Write{"C", []string{w(nid), c14WShowList(c14SubsetP(r, c14WTagPool, 3, false, 1, 2))}}
	default: // OU
		o := pick(r, g.others)
		var name *string
		if r.chance(1, 2) {
			v := pick(r, []string{"", "n", "nn"})
			name = &v
		}
		return c14Write{"OU", []string{w(o.id), c14WShowList(c14SubsetP(r, c14WTagPool, 3, false, 1, 2)), c14ShowOpt(name)}}
	}
}

type c14WKind struct {
	mode, path string
	field      string // the field of the thing the cursor walks ("" = several)
	seek       bool   // `s` operations / entries
	seekS      bool
	reseek     bool // Seek re-reads the live bucket (entries s / t after key-level writes)
	perRow     bool // false: the entry's row is ignored (id cursors)
}

func c14WKinds() []c14WKind {
	ks := []c14WKind{
		{"d", "tags", "tags", true, true, true, true},
		{"d", "others", "others", true, true, true, true},
		{"d", "rcOthers", "rcOthers", true, true, true, true},
		{"r", "tags", "tags", true, true, true, true},
		{"r", "others", "others", true, true, true, true},
		{"r", "rcOthers", "rcOthers", true, true, true, true},
		{"q", "others", "others", true, false, true, true},
		{"q", "rcOthers", "rcOthers", true, false, true, true},
		{"q", "others.things", "", true, false, false, true},
		{"q.p", "others", "others", false, false, false, true},
		{"i", "any", "tags", true, false, true, false},
		{"i", "none", "tags", true, false, true, false},
		{"i", "empty", "tags", true, false, true, false},
		{"i", "cnt", "tags", true, false, true, false},
		{"i", "lnk", "others", true, false, true, false},
		{"i", "true", "", true, false, true, false},
	}
	for _, p := range c14CompPaths {
		ks = append(ks, c14WKind{"d", p, "", false, false, false, true}, c14WKind{"r", p, "", false, false, false, true})
	}
	for _, p := range []string{"relf", "relr", "blist", "bdirf", "bdirr", "btypedf", "btypedr", "bseekable", "bopenf", "bopenr"} {
		ks = append(ks, c14WKind{"n", p, "tags", true, false, true, true})
	}
	ks = append(ks, c14WKind{"n", "link", "others", true, false, true, true},
		c14WKind{"n", "rclinkf", "rcOthers", true, false, true, true}, c14WKind{"n", "rclinkr", "rcOthers", true, false, true, true})
	return ks
}

func (k c14WKind) identPath() string {
	if k.mode == "i" {
		return "ids"
	}
	if k.mode == "n" && k.field == "rcOthers" {
		return "others" // the provider creates the bucket when it is opened inside a writing transaction
	}
	return k.field
}

// one script: items of writes / entry / operations; the same row is re-opened after a rewrite with no other
// row opened in between (most of the time), other rows in between as the control
func c14GenItems(r *rng, k c14WKind, w *c14World, targets []string, maxItems int) []c14Item {
	g := c14GWorldOf(w)
	var roots []string
	for _, t := range g.things {
		roots = append(roots, t.id)
	}
	roots = append(roots, "missing")
	sh := c14Shape{seek: k.seek, seekS: k.seekS}
	n := 2 + r.intn(maxItems-1)
	var items []c14Item
	cur, curIdent := "", ""
	for i := 0; i < n; i++ {
		var it c14Item
		focus := cur
		if focus == "" || (!k.perRow && len(roots) > 0) {
			focus = pick(r, roots)
		}
		// a reseek entry needs the bucket object to survive the writes; decide first
		wantSeek := k.reseek && cur != "" && r.chance(1, 3)
		nw := pick(r, []int{0, 1, 1, 1, 2, 3})
		if i == 0 {
			nw = pick(r, []int{0, 0, 1})
		}
		for j := 0; j < nw; j++ {
			wr := c14GenWrite(r, g, focus, k.field, wantSeek && k.mode != "i")
			g.apply(wr)
			it.writes = append(it.writes, wr)
		}
		idOk := !k.perRow || g.ident(k.identPath(), cur) == curIdent
		if wantSeek && idOk {
			kind := byte('s')
			if k.seekS && r.chance(1, 2) {
				kind = 't'
			}
			it.entry = c14Op{kind: kind, val: pick(r, targets)}
		} else {
			row := cur
			if row == "" || r.chance(1, 3) {
				row = pick(r, roots)
			}
			if r.chance(1, 12) {
				row = pick(r, []string{"t0", "t5", "a", "zz"}) // perhaps created meanwhile
			}
			it.entry = c14Op{kind: 'o', val: row}
			cur = row
		}
		curIdent = g.ident(k.identPath(), cur)
		it.ops = c14GenOps(r, sh, pick(r, []int{0, 0, 1, 1, 2, 4}), targets)
		items = append(items, it)
	}
	return items
}

func c14WTargets(w *c14World) []string {
	res := append([]string{}, c14Targets...)
	add := func(e string) { res = append(res, e, e+"\x00", "\x05"+e, "\x05"+e+"\x00") }
	for _, t := range w.things {
		add(t.id)
	}
	for _, o := range w.others {
		add(o.id)
	}
	for _, x := range c14WTagPool {
		add(x)
	}
	for _, x := range []string{"t0", "t5", "zz"} {
		add(x)
	}
	return res
}

func (k c14WKind) desc(r *rng, w *c14World) string {
	mode, path, keep := k.mode, k.path, "_"
	var ids []string
	for _, o := range w.others {
		ids = append(ids, o.id)
	}
	for _, t := range w.things {
		ids = append(ids, t.id)
	}
	switch {
	case k.mode == "q.p":
		mode = fmt.Sprintf("q.%d.%d", r.intn(3), pick(r, []int{-1, 0, 1, 2, 5}))
		keep = c14ShowSet(c14SubsetP(r, append(ids, "t0", "t5"), len(ids)+2, true, 2, 3))
	case k.mode == "q":
		keep = c14ShowSet(c14SubsetP(r, append(ids, "t0", "t5"), len(ids)+2, true, 2, 3))
	case k.mode == "i":
		switch k.path {
		case "any", "none":
			path = k.path + "." + toWire(pick(r, []string{"a", "b", "c", "aa"}))
		case "lnk":
			o := "o1"
			if len(w.others) > 0 {
				o = pick(r, w.others).id
			}
			if strings.ContainsAny(o, "\x00\x05\"\\") {
				o = "o1"
			}
			path = "lnk." + toWire(o)
		case "cnt":
			path = fmt.Sprintf("cnt.%d", 1+r.intn(3))
		}
	}
	return "W;" + mode + ";" + path + ";" + w.String() + ";" + keep
}

func c14GenWrites(tier string, r *rng, out *bufio.Writer) {
	nWorlds, perWorld := 260, 10
	if tier == "thorough" {
		nWorlds, perWorld = 2400, 20
	}
	kinds := c14WKinds()
	for i := 0; i < nWorlds; i++ {
		w, _ := c14GenReuseWorld(r)
		k := kinds[i%len(kinds)]
		if r.chance(1, 3) {
			k = pick(r, kinds)
		}
		desc := k.desc(r, w)
		targets := c14WTargets(w)
		for j := 0; j < perWorld; j++ {
			fmt.Fprintf(out, "%s %s\n", desc, c14ShowItems(c14GenItems(r, k, w, targets, 5)))
		}
	}
	c14GenWriteBlocks(tier, out)
}

// bounded-exhaustive: on a fixed world, for every kind: open a row (every script of length <= 1), ONE write out of a
// fixed list that covers every write path, then re-open the SAME row / another row / re-seek (where the bucket
// object survives), every script of length <= 1
func c14GenWriteBlocks(tier string, out *bufio.Writer) {
	a, b := "a", "b"
	w := &c14World{
		others: []c14WOther{{id: "o1", tags: []string{"a", "b"}, name: &a}, {id: "o2", tags: nil, name: nil}, {id: "o3", tags: []string{"b", "c"}, name: &b}},
		things: []c14WThing{
			{id: "e1", tags: []string{"a", "b"}, others: []string{"o1", "o3"}, boss: &b, rc: []string{"o1", "o3"}, hasRc: true, rcSet: true},
			{id: "e2", tags: nil, others: nil, boss: nil, rcSet: true},
			{id: "e3", tags: []string{"b", "c"}, others: []string{"o2"}, boss: &a, rc: nil, hasRc: true, rcSet: true},
		},
	}
	e1, e2, e3 := toWire("e1"), toWire("e2"), toWire("e3")
	wa, wb, wc, wd := toWire("a"), toWire("b"), toWire("c"), toWire("d")
	o1, o2, o3 := toWire("o1"), toWire("o2"), toWire("o3")
	mk := func(s string) c14Write {
		f := strings.Split(s, "=")
		return c14Write{f[0], f[1:]}
	}
	bucketWrites := []c14Write{ // the bucket object of the row is replaced / appears / disappears
		mk("T=" + e1 + "=" + wb + "," + wd), mk("T=" + e1 + "=_"), mk("T=" + e2 + "=" + wa),
		mk("U=" + e1 + "=" + wc + "=" + o2 + "=~"), mk("U=" + e3 + "=" + wb + "," + wc + "=" + o1 + "," + o2 + "=" + wa),
		mk("D=" + e1), mk("D=" + e3), mk("OU=" + o1 + "=" + wc + "=~"), mk("OU=" + o2 + "=" + wa + "," + wd + "=" + wb),
	}
	keyWrites := []c14Write{ // single keys: the bucket object stays
		mk("P=" + e1 + "=" + wd), mk("P=" + e1 + "=" + toWire("")), mk("X=" + e1 + "=" + wa), mk("X=" + e1 + "=" + wb),
		mk("P=" + e2 + "=" + wb), mk("X=" + e3 + "=" + wc), mk("M=" + e1 + "=" + wa + "=~"), mk("M=" + e1 + "=" + wb + "=~"),
		mk("L+=" + e1 + "=" + o2), mk("L-=" + e1 + "=" + o1), mk("L+=" + e2 + "=" + o3), mk("L-=" + e3 + "=" + o2),
		mk("R+=" + e1 + "=" + o2), mk("R-=" + e1 + "=" + o1), mk("R+=" + e3 + "=" + o3), mk("R+=" + e2 + "=" + o1),
	}
	n := c14Op{kind: 'n'}
	type kd struct {
		k     c14WKind
		path  string
		keep  string
		alpha []c14Op
		seeks []c14Op // entries after key-level writes
	}
	sk := func(v string) c14Op { return c14Op{kind: 's', val: v} }
	ts := func(v string) c14Op { return c14Op{kind: 't', val: v} }
	kinds := []kd{}
	for _, k := range c14WKinds() {
		d := kd{k: k, path: k.path, keep: "_", alpha: []c14Op{n}}
		switch {
		case k.mode == "q.p":
			d.k.mode = "q.1.1"
			d.keep = o1 + "," + o2 + "," + o3
		case k.mode == "q" && k.path == "others.things":
			d.keep = e1 + "," + e2 + "," + e3
			d.alpha = []c14Op{n, sk("e2")}
		case k.mode == "q":
			d.keep = o1 + "," + o3
			d.alpha = []c14Op{n, sk("\x05o2")}
			d.seeks = []c14Op{sk("\x05o2"), sk("\x05o1")}
		case k.mode == "i":
			switch k.path {
			case "any", "none":
				d.path = k.path + "." + wb
			case "lnk":
				d.path = "lnk." + o2
			case "cnt":
				d.path = "cnt.2"
			}
			d.alpha = []c14Op{n, sk("e2")}
			d.seeks = []c14Op{sk("e1"), sk("e2"), sk("e")}
		case k.field == "tags" && k.seekS:
			d.alpha = []c14Op{n, ts("b"), sk("\x05b")}
			d.seeks = []c14Op{ts("a"), ts("b"), sk("\x05c")}
		case k.field == "tags" && (k.path == "bseekable" || k.path == "bopenf" || k.path == "bopenr"):
			d.alpha = []c14Op{n, sk("\x05b")}
			d.seeks = []c14Op{sk("\x05a"), sk("\x05b"), sk("\x05c")}
		case k.field == "tags":
			d.alpha = []c14Op{n, sk("b")}
			d.seeks = []c14Op{sk("a"), sk("b"), sk("c")}
		case k.seekS:
			d.alpha = []c14Op{n, ts("o2"), sk("\x05o3")}
			d.seeks = []c14Op{ts("o1"), ts("o2"), sk("\x05o3")}
		case k.seek:
			d.alpha = []c14Op{n, sk("o2")}
			d.seeks = []c14Op{sk("o1"), sk("o2"), sk("o3")}
		}
		kinds = append(kinds, d)
	}
	scripts := func(alpha []c14Op) [][]c14Op {
		res := [][]c14Op{nil}
		for _, o := range alpha {
			res = append(res, []c14Op{o})
		}
		return res
	}
	roots := []string{"e1", "e2", "e3"}
	quick := tier != "thorough"
	for _, kd := range kinds {
		desc := "W;" + kd.k.mode + ";" + kd.path + ";" + w.String() + ";" + kd.keep
		ss := scripts(kd.alpha)
		rs := roots
		if !kd.k.perRow {
			rs = roots[:1]
		}
		emit := func(items []c14Item) { fmt.Fprintf(out, "%s %s\n", desc, c14ShowItems(items)) }
		for _, r1 := range rs {
			if quick && r1 == "e2" {
				continue // the row without elements is the second row of the control
			}
			for i1, s1 := range ss {
				if quick && (i1 > 1 || (r1 != "e1" && i1 > 0)) {
					continue
				}
				first := c14Item{entry: c14Op{kind: 'o', val: r1}, ops: s1}
				for _, wr := range append(append([]c14Write{}, bucketWrites...), keyWrites...) {
					for _, r2 := range rs {
						if quick && r2 != r1 && (len(s1) > 0 || r2 != "e2") {
							continue
						}
						for i2, s2 := range ss {
							if quick && i2 > 1 {
								continue
							}
							emit([]c14Item{first, {writes: []c14Write{wr}, entry: c14Op{kind: 'o', val: r2}, ops: s2}})
						}
					}
				}
				if !kd.k.reseek {
					continue
				}
				wrs := keyWrites
				if !kd.k.perRow {
					// the entities bucket is never replaced: every write keeps the id cursor's bucket
					wrs = append(append([]c14Write{}, bucketWrites...), keyWrites...)
					wrs = append(wrs, mk("C="+toWire("e0")+"="+wb), mk("C="+toWire("e15")+"="+wa+","+wb))
				}
				g0 := c14GWorldOf(w)
				for _, wr := range wrs {
					g := c14GWorldOf(w)
					g.apply(wr)
					if kd.k.perRow && g.ident(kd.k.identPath(), r1) != g0.ident(kd.k.identPath(), r1) {
						continue
					}
					for _, e := range kd.seeks {
						for i2, s2 := range ss {
							if quick && i2 > 1 {
								continue
							}
							emit([]c14Item{first, {writes: []c14Write{wr}, entry: e, ops: s2}})
						}
					}
				}
			}
		}
	}
}
