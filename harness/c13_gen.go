package main

import (
	"bufio"
	"encoding/binary"
	"fmt"
	"math"
	"strings"
	"time"
)

// ---------------------------------------------------------------------------- generators

const c13ListSizeKey = "__list__size__36484231-110c-4767-afe2-01b6e3db107a"

func c13RandBytes(r *rng, n int) string {
	b := make([]byte, n)
	for i := range b {
		switch r.intn(6) {
		case 0:
			b[i] = byte(r.intn(8)) // tag-like bytes
		case 1:
			b[i] = byte(0x7e + r.intn(4)) // around the varint continuation bit
		case 2:
			b[i] = 0xff
		default:
			b[i] = byte(r.intn(256))
		}
	}
	return string(b)
}

var c13ElemLens = []int{0, 0, 1, 1, 2, 3, 5, 17, 126, 127, 128, 129, 255, 256, 300}
var c13BigLens = []int{4095, 4096, 4097, 4098, 8192, 16383, 16384, 16385}

func c13Elem(r *rng, big bool) string {
	if big && r.chance(1, 3) {
		n := pick(r, c13BigLens)
		if r.chance(1, 2) {
			return strings.Repeat(string([]byte{byte(r.intn(256))}), n)
		}
		return c13RandBytes(r, n)
	}
	return c13RandBytes(r, pick(r, c13ElemLens))
}

func c13EmitK(out *bufio.Writer, xs []string) {
	out.WriteString("k")
	for _, x := range xs {
		out.WriteByte(' ')
		out.WriteString(toWire(x))
	}
	out.WriteByte('\n')
}

func c13EmitJ(out *bufio.Writer, a, b []string) {
	out.WriteString("j")
	for _, x := range a {
		out.WriteByte(' ')
		out.WriteString(toWire(x))
	}
	out.WriteString(" |")
	for _, x := range b {
		out.WriteByte(' ')
		out.WriteString(toWire(x))
	}
	out.WriteByte('\n')
}

// c13Resplit cuts the concatenation of xs at other places: the classic way two different lists
// collide under a naive encoding.
func c13Resplit(r *rng, xs []string) []string {
	all := strings.Join(xs, "")
	n := r.intn(7)
	var ys []string
	for i := 0; i < n; i++ {
		if len(all) == 0 {
			ys = append(ys, "")
			continue
		}
		c := r.intn(len(all) + 1)
		if i == n-1 {
			c = len(all)
		}
		ys = append(ys, all[:c])
		all = all[c:]
	}
	return ys
}

func c13Uvarint(x uint64) []byte {
	b := make([]byte, binary.MaxVarintLen64)
	return b[:binary.PutUvarint(b, x)]
}

func c13GenKeys(tier string, r *rng, out *bufio.Writer) {
	// bounded exhaustive: every list of up to 3 elements over a small pool
	pool := []string{"", "a", "\x00", "\x01a", "ab", "\x80", "\x02\x61\x62"}
	var rec func(prefix []string, n int)
	rec = func(prefix []string, n int) {
		c13EmitK(out, prefix)
		if n == 0 {
			return
		}
		for _, a := range pool {
			rec(append(append([]string{}, prefix...), a), n-1)
		}
	}
	rec(nil, 3)
	// every pair of lists of up to 2 elements over a smaller pool
	small := []string{"", "a", "\x00", "\x01a", "aa"}
	var lists [][]string
	lists = append(lists, nil)
	for _, a := range small {
		lists = append(lists, []string{a})
		for _, b := range small {
			lists = append(lists, []string{a, b})
		}
	}
	for _, a := range lists {
		for _, b := range lists {
			c13EmitJ(out, a, b)
		}
	}
	// element lengths around every boundary, alone and in company
	for _, n := range append(append([]int{}, c13ElemLens...), c13BigLens...) {
		x := strings.Repeat("x", n)
		c13EmitK(out, []string{x})
		c13EmitK(out, []string{"", x, "a"})
		c13EmitK(out, []string{"a", x})
	}
	nRand, nBig := 4000, 200
	if tier == "thorough" {
		nRand, nBig = 150000, 1500
	}
	for i := 0; i < nRand; i++ {
		n := r.intn(7)
		xs := make([]string, n)
		for j := range xs {
			xs[j] = c13Elem(r, false)
		}
		c13EmitK(out, xs)
		switch r.intn(3) {
		case 0:
			c13EmitJ(out, xs, c13Resplit(r, xs))
		case 1:
			ys := append([]string{}, xs...)
			if len(ys) > 0 {
				j := r.intn(len(ys))
				switch r.intn(3) {
				case 0:
					ys = append(ys[:j:j], ys[j+1:]...)
				case 1:
					ys[j] = ys[j] + "\x00"
				default:
					ys = append(ys, "")
				}
			} else {
				ys = []string{""}
			}
			c13EmitJ(out, xs, ys)
		default:
			c13EmitJ(out, xs, append([]string{}, xs...))
		}
	}
	for i := 0; i < nBig; i++ {
		n := 1 + r.intn(6)
		xs := make([]string, n)
		for j := range xs {
			xs[j] = c13Elem(r, true)
		}
		c13EmitK(out, xs)
	}
	// decoding of bytes that no encoder produced
	emitD := func(b []byte) { fmt.Fprintf(out, "d %s\n", toWire(string(b))) }
	for _, b := range [][]byte{{}, {0}, {1}, {1, 65}, {0x80}, {0x80, 0}, {0x80, 0x80, 0}, {0x81, 0, 65}, {2, 65}, {0xff, 0xff, 0xff, 0xff, 0xff, 0xff, 0xff, 0xff, 0xff, 1},
		{0xff, 0xff, 0xff, 0xff, 0xff, 0xff, 0xff, 0xff, 0xff, 2}, {0x80, 0x80, 0x80, 0x80, 0x80, 0x80, 0x80, 0x80, 0x80, 0x80, 1}, {0x80, 0x80, 0x80, 0x80, 0x80, 0x80, 0x80, 0x80, 0x80, 0x80}} {
		emitD(b)
	}
	for _, n := range []uint64{4095, 4096, 4097, 16384, 1 << 32, 1 << 63, math.MaxUint64} {
		hdr := c13Uvarint(n)
		emitD(hdr)
		if n < 20000 {
			emitD(append(append([]byte{}, hdr...), make([]byte, n)...))
			emitD(append(append([]byte{}, hdr...), make([]byte, n-1)...))
			emitD(append(append(append([]byte{}, hdr...), make([]byte, n)...), 0))
		}
	}
	nD := 1500
	if tier == "thorough" {
		nD = 60000
	}
	for i := 0; i < nD; i++ {
		var b []byte
		switch r.intn(3) {
		case 0:
			b = []byte(c13RandBytes(r, r.intn(14)))
		default:
			// a valid encoding, damaged
			n := 1 + r.intn(4)
			for j := 0; j < n; j++ {
				e := c13Elem(r, false)
				b = append(b, c13Uvarint(uint64(len(e)))...)
				b = append(b, e...)
			}
			switch r.intn(5) {
			case 0:
				b = b[:r.intn(len(b)+1)]
			case 1:
				b[r.intn(len(b))] ^= byte(1 << r.intn(8))
			case 2:
				b = append(b, byte(r.intn(256)))
			case 3:
				j := r.intn(len(b))
				b = append(b[:j:j], b[j+1:]...)
			}
		}
		emitD(b)
	}
}

// ---- values

var c13Ints32 = []int64{0, 1, -1, 2, 127, 128, -128, -129, 255, 256, 32767, 32768, -32768, 65535, 65536, 1 << 24, 16909060, -16909060,
	math.MaxInt32, math.MinInt32, math.MaxInt32 - 1, math.MinInt32 + 1}
var c13Ints64 = []int64{0, 1, -1, 255, 256, -256, math.MaxInt32, math.MinInt32, math.MaxInt32 + 1, math.MinInt32 - 1, 1 << 32, -(1 << 32), 1<<53 - 1, 1 << 53, 1<<53 + 1,
	-(1<<53 + 1), 72623859790382856, -72623859790382856, math.MaxInt64, math.MinInt64, math.MaxInt64 - 1, math.MinInt64 + 1}
var c13FloatBits = []uint64{0, 1 << 63, 0x7ff0000000000000, 0xfff0000000000000, 0x7ff8000000000000, 0x7ff8000000000001, 0xfff8000000000000, 0x7ff0000000000001, 0x7fffffffffffffff,
	1, 2, 0x000fffffffffffff, 0x0010000000000000, 0x800fffffffffffff, 0x7fefffffffffffff, 0xffefffffffffffff, 0x3ff0000000000000, 0x3fe0000000000000, 0x3fb999999999999a,
	0x0102030405060708, 0x4340000000000000, 0x4340000000000001, 0x7e37e43c8800759c}
var c13Strs = []string{"", "a", "\x00", "\x05", "\x07", "\x00\x00", "abc", "true", "12", "\xff\xfe", "héllo 世界", c13ListSizeKey, "\x02\x00\x00\x00\x00", " ", "a\nb", "\"q\"", "\\"}

func c13TimePayload(t time.Time) string {
	b, err := t.UTC().MarshalBinary()
	if err != nil {
		panic(err)
	}
	return string(b)
}

var c13Times = func() []string {
	ts := []time.Time{
		{},
		time.Unix(0, 0),
		time.Unix(0, 1),
		time.Unix(-1, 999999999),
		time.Unix(1700000000, 123456789),
		time.Unix(1700000000, 0),
		time.Date(1, 1, 1, 0, 0, 0, 1, time.UTC),
		time.Date(9999, 12, 31, 23, 59, 59, 999999999, time.UTC),
		time.Date(10000, 1, 1, 0, 0, 0, 0, time.UTC),
		time.Date(-5, 3, 4, 5, 6, 7, 8, time.UTC),
		time.Date(1969, 12, 31, 23, 59, 59, 500000000, time.UTC),
		time.Date(2024, 2, 29, 12, 0, 0, 1000, time.FixedZone("x", 3600)),
		time.Unix(1<<33, 5),
		time.Unix(-(1 << 35), 7),
	}
	var ps []string
	for _, t := range ts {
		ps = append(ps, c13TimePayload(t))
	}
	return ps
}()

func c13Int32(r *rng) int64 {
	if r.chance(1, 2) {
		return pick(r, c13Ints32)
	}
	return int64(int32(r.next()))
}

func c13Int64(r *rng) int64 {
	if r.chance(1, 2) {
		return pick(r, c13Ints64)
	}
	return int64(r.next()) >> uint(r.intn(64))
}

func c13Bits(r *rng) uint64 {
	if r.chance(1, 2) {
		return pick(r, c13FloatBits)
	}
	return r.next()
}

func c13Str(r *rng) string {
	switch r.intn(4) {
	case 0:
		return pick(r, c13Strs)
	case 1:
		return c13RandBytes(r, r.intn(6))
	case 2:
		return c13RandBytes(r, r.intn(40))
	}
	return pick(r, []string{"x", "y", "z", "xy", ""}) // small pool: duplicates and prefixes
}

func c13TimeP(r *rng) string {
	if r.chance(1, 2) {
		return pick(r, c13Times)
	}
	t := time.Unix(int64(r.next()>>uint(20+r.intn(30)))-(1<<33), int64(r.intn(1000000000)))
	if r.chance(1, 4) {
		t = time.Unix(t.Unix(), 0)
	}
	return c13TimePayload(t)
}

func c13Scalar(r *rng) *c13Val {
	switch r.intn(9) {
	case 0:
		return &c13Val{kind: 'N'}
	case 1:
		return &c13Val{kind: 'S', s: c13Str(r)}
	case 2:
		return &c13Val{kind: 'i', i: c13Int32(r)}
	case 3:
		return &c13Val{kind: 'I', i: c13Int64(r)}
	case 4:
		return &c13Val{kind: 'n', i: c13Int64(r)}
	case 5:
		return &c13Val{kind: 'F', bits: c13Bits(r)}
	case 6:
		return &c13Val{kind: 'B', i: int64(r.intn(2))}
	case 7:
		p := c13TimeP(r)
		return &c13Val{kind: 'T', s: p, z: c13RandRep(p)}
	}
	return &c13Val{kind: 'S', s: ""}
}

var c13MapKeys = []string{"a", "b", "ab", "k", "\x00", "\x02\x00\x00\x00\x00", "\x05x", "key with space", "ü", "z", "__list__size__", "A"}

// c13Nested builds a value of the given maximal depth; containers may be empty and hold nulls.
func c13Nested(r *rng, depth int) *c13Val {
	if depth == 0 || r.chance(2, 5) {
		return c13Scalar(r)
	}
	if r.chance(1, 2) {
		v := &c13Val{kind: 'M'}
		n := r.intn(5)
		used := map[string]bool{}
		for i := 0; i < n; i++ {
			k := pick(r, c13MapKeys)
			if r.chance(1, 4) {
				k = c13RandBytes(r, 1+r.intn(5))
			}
			if used[k] {
				continue
			}
			used[k] = true
			v.keys = append(v.keys, k)
			v.vals = append(v.vals, c13Nested(r, depth-1))
		}
		return v
	}
	v := &c13Val{kind: 'L'}
	n := r.intn(5)
	for i := 0; i < n; i++ {
		v.vals = append(v.vals, c13Nested(r, depth-1))
	}
	return v
}

func c13Map(r *rng, depth int) *c13Val {
	for {
		v := c13Nested(r, depth)
		if v.kind == 'M' {
			return v
		}
	}
}

func c13List(r *rng, depth int) *c13Val {
	for {
		v := c13Nested(r, depth)
		if v.kind == 'L' {
			return v
		}
	}
}

// c13Inject damages one place of a container value: the ways a write is refused or a reserved
// key is hit.  Returns a description for the histogram.
func c13Inject(r *rng, v *c13Val) string {
	// collect the maps reachable in v
	var maps []*c13Val
	var walk func(x *c13Val)
	walk = func(x *c13Val) {
		if x.kind == 'M' {
			maps = append(maps, x)
		}
		for _, c := range x.vals {
			walk(c)
		}
	}
	walk(v)
	if len(maps) == 0 {
		return ""
	}
	m := pick(r, maps)
	add := func(k string, x *c13Val) {
		for _, e := range m.keys {
			if e == k {
				return
			}
		}
		m.keys = append(m.keys, k)
		m.vals = append(m.vals, x)
	}
	which := r.intn(6)
	if c13QuickTier && which >= 4 && !r.chance(1, 5) {
		which = r.intn(4) // the 32768-byte keys make 64 kB case lines: fewer of them in the quick tier
	}
	switch which {
	case 0:
		add("", &c13Val{kind: 'S', s: "v"})
		return "empty-key"
	case 1:
		add("u", &c13Val{kind: 'U', i: int64(r.intn(2))})
		return "unsupported"
	case 2:
		add(c13ListSizeKey, &c13Val{kind: 'i', i: int64(r.intn(7)) - 2})
		return "reserved-key-int32"
	case 3:
		add(c13ListSizeKey, pick(r, []*c13Val{{kind: 'S', s: "3"}, {kind: 'I', i: 2}, {kind: 'N'}, {kind: 'M'}}))
		return "reserved-key-other"
	case 4:
		add(strings.Repeat("k", 32768+r.intn(2)), &c13Val{kind: 'B', i: 1})
		return "long-key"
	}
	add(strings.Repeat("b", 32768+r.intn(2)), &c13Val{kind: 'M'})
	return "long-bucket-key"
}

func c13StrList(r *rng) *c13Val {
	v := &c13Val{kind: 'L'}
	n := r.intn(7)
	for i := 0; i < n; i++ {
		v.vals = append(v.vals, &c13Val{kind: 'S', s: c13Str(r)})
	}
	return v
}

type c13Field struct {
	code string
	val  *c13Val
}

// c13FieldOp draws a field operation of the given kind (0..13) with fresh values.
func c13FieldOp(r *rng, kind int, depth int) c13Field {
	switch kind {
	case 0:
		return c13Field{"str", &c13Val{kind: 'S', s: c13Str(r)}}
	case 1:
		if r.chance(1, 3) {
			return c13Field{"strp", &c13Val{kind: 'N'}}
		}
		return c13Field{"strp", &c13Val{kind: 'S', s: c13Str(r)}}
	case 2:
		return c13Field{"i32", &c13Val{kind: 'i', i: c13Int32(r)}}
	case 3:
		return c13Field{"i64", &c13Val{kind: 'I', i: c13Int64(r)}}
	case 4:
		return c13Field{"f64", &c13Val{kind: 'F', bits: c13Bits(r)}}
	case 5:
		return c13Field{"bool", &c13Val{kind: 'B', i: int64(r.intn(2))}}
	case 6:
		p := c13TimeP(r)
		return c13Field{"time", &c13Val{kind: 'T', s: p, z: c13RandRep(p)}}
	case 7:
		if r.chance(1, 3) {
			return c13Field{"timep", &c13Val{kind: 'N'}}
		}
		p := c13TimeP(r)
		return c13Field{"timep", &c13Val{kind: 'T', s: p, z: c13RandRep(p)}}
	case 8:
		return c13Field{"sl", c13StrList(r)}
	case 9:
		return c13Field{"map", c13Map(r, depth)}
	case 10:
		return c13Field{"list", c13List(r, depth)}
	case 11:
		return c13Field{"gstr", &c13Val{kind: 'S', s: c13Str(r)}}
	case 12:
		return c13Field{"gsl", c13StrList(r)}
	case 13:
		s := c13Str(r)
		if s == "" && r.chance(3, 4) {
			s = "r"
		}
		return c13Field{"rstr", &c13Val{kind: 'S', s: s}}
	case 14:
		// a map written with allowNested=false (BaseExtEntity tags): flat, now and then with exactly
		// one nested value (which is refused)
		v := &c13Val{kind: 'M'}
		for _, k := range []string{"a", "b", "c"}[:r.intn(4)] {
			v.keys = append(v.keys, k)
			v.vals = append(v.vals, c13Scalar(r))
		}
		if depth > 0 && r.chance(1, 5) {
			v.keys = append(v.keys, "n")
			v.vals = append(v.vals, pick(r, []*c13Val{{kind: 'M'}, {kind: 'L'}, c13Map(r, 1), c13List(r, 1)}))
		}
		return c13Field{"mapf", v}
	}
	return c13Field{"nil", &c13Val{kind: 'N'}}
}

func c13OpText(pre bool, name string, f c13Field) string {
	ph := "w"
	if pre {
		ph = "p"
	}
	return ph + f.code + ":" + toWire(name) + ":" + f.val.String()
}

func c13EmitE(out *bufio.Writer, chk string, mapping string, ops []string) {
	out.WriteString("e ")
	out.WriteString(chk)
	out.WriteByte(' ')
	out.WriteString(mapping)
	for _, o := range ops {
		out.WriteByte(' ')
		out.WriteString(o)
	}
	out.WriteByte('\n')
}

func c13ChkText(names []string, mask int) string {
	var sel []string
	for i, n := range names {
		if mask&(1<<uint(i)) != 0 {
			sel = append(sel, toWire(n))
		}
	}
	return "c=." + strings.Join(sel, ",")
}

var c13FieldNames = []string{"name", "alias", "n32", "n64", "f", "flag", "at", "tags", "roles", "items", "x", "\x00k", "é"}

func c13GenValues(tier string, r *rng, out *bufio.Writer) {
	// every boundary value of every scalar type, written alone with a nil checker
	one := func(code string, v *c13Val) {
		c13EmitE(out, "c=-", "m=-", []string{c13OpText(false, "v", c13Field{code, v})})
	}
	for _, i := range c13Ints32 {
		one("i32", &c13Val{kind: 'i', i: i})
	}
	for _, i := range c13Ints64 {
		one("i64", &c13Val{kind: 'I', i: i})
	}
	for _, b := range c13FloatBits {
		one("f64", &c13Val{kind: 'F', bits: b})
	}
	for _, s := range c13Strs {
		one("str", &c13Val{kind: 'S', s: s})
		one("strp", &c13Val{kind: 'S', s: s})
		one("gstr", &c13Val{kind: 'S', s: s})
		one("rstr", &c13Val{kind: 'S', s: s})
	}
	one("strp", &c13Val{kind: 'N'})
	one("timep", &c13Val{kind: 'N'})
	one("nil", &c13Val{kind: 'N'})
	one("bool", &c13Val{kind: 'B', i: 0})
	one("bool", &c13Val{kind: 'B', i: 1})
	for _, p := range c13Times {
		one("time", &c13Val{kind: 'T', s: p})
		one("timep", &c13Val{kind: 'T', s: p})
	}
	for _, n := range []int{32766, 32767, 32768} {
		one("sl", &c13Val{kind: 'L', vals: []*c13Val{{kind: 'S', s: "a"}, {kind: 'S', s: strings.Repeat("s", n)}}})
	}
	one("map", &c13Val{kind: 'M'})
	one("list", &c13Val{kind: 'L'})
	one("sl", &c13Val{kind: 'L'})
	// every scalar inside a map and inside a list
	for _, i := range c13Ints32 {
		one("map", &c13Val{kind: 'M', keys: []string{"k"}, vals: []*c13Val{{kind: 'i', i: i}}})
	}
	for _, i := range c13Ints64 {
		one("list", &c13Val{kind: 'L', vals: []*c13Val{{kind: 'I', i: i}, {kind: 'n', i: i}}})
	}
	for _, b := range c13FloatBits {
		one("map", &c13Val{kind: 'M', keys: []string{"k"}, vals: []*c13Val{{kind: 'F', bits: b}}})
	}
	// empty field names and names that collide with list keys
	for _, name := range []string{"", c13ListSizeKey, strings.Repeat("n", 32768), strings.Repeat("n", 32769)} {
		for k := 0; k < 11; k++ {
			c13EmitE(out, "c=-", "m=-", []string{c13OpText(false, name, c13FieldOp(r, k, 1))})
		}
	}

	nMulti, nNested, nInject, nOverwrite := 3000, 3000, 1200, 1500
	depth := 4
	if tier == "thorough" {
		nMulti, nNested, nInject, nOverwrite = 80000, 80000, 20000, 30000
	}
	// several scalar fields per case
	for i := 0; i < nMulti; i++ {
		n := 1 + r.intn(8)
		var ops []string
		for j := 0; j < n; j++ {
			ops = append(ops, c13OpText(false, fmt.Sprintf("f%d", j), c13FieldOp(r, r.intn(9), 1)))
		}
		c13EmitE(out, "c=-", "m=-", ops)
	}
	// nested containers, depth up to 4 (a fifth level now and then in the thorough tier)
	for i := 0; i < nNested; i++ {
		d := 1 + r.intn(depth)
		if tier == "thorough" && r.chance(1, 20) {
			d = 5
		}
		var ops []string
		ops = append(ops, c13OpText(false, "m", c13FieldOp(r, 9, d)))
		if r.chance(1, 2) {
			ops = append(ops, c13OpText(false, "l", c13FieldOp(r, 10, d)))
		}
		c13EmitE(out, "c=-", "m=-", ops)
	}
	// one damaged place per case
	for i := 0; i < nInject; i++ {
		f := c13FieldOp(r, 9+r.intn(2), 1+r.intn(3))
		if r.chance(1, 6) {
			f = c13FieldOp(r, 14, 0)
		}
		c13Inject(r, f.val)
		c13EmitE(out, "c=-", "m=-", []string{c13OpText(r.chance(1, 4), "m", f)})
	}
	// a field written twice: overwrites, type changes, bucket/value conflicts
	for i := 0; i < nOverwrite; i++ {
		a := c13FieldOp(r, r.intn(16), 2)
		b := c13FieldOp(r, r.intn(16), 2)
		ops := []string{c13OpText(true, "f", a), c13OpText(r.chance(1, 2), "f", b)}
		if r.chance(1, 3) {
			ops = append(ops, c13OpText(false, "f", c13FieldOp(r, r.intn(16), 1)))
		}
		c13EmitE(out, "c=-", "m=-", ops)
	}
}

// c13GenCheckers: an entity of 8 fields of different kinds with a pre-state, rewritten under every
// one of the 256 subsets as field checker; plus random entities, checkers naming unknown fields,
// field overrides (MappedFieldChecker) and nil checkers.
func c13GenCheckers(tier string, r *rng, out *bufio.Writer) {
	nEnt, nRand := 4, 2500
	if tier == "thorough" {
		nEnt, nRand = 40, 50000
	}
	for e := 0; e < nEnt; e++ {
		names := []string{"name", "alias", "n32", "n64", "flag", "at", "tags", "roles"}
		kinds := []int{0, 1, 2, 3, 5, 7, 9, 8}
		if e%2 == 1 {
			names = []string{"f", "t", "items", "title", "code", "who", "tagsf", "req"}
			kinds = []int{4, 6, 10, 11, 12, 1, 14, 13}
		}
		var pre, wr []c13Field
		for _, k := range kinds {
			pre = append(pre, c13FieldOp(r, k, 2))
			wr = append(wr, c13FieldOp(r, k, 2))
		}
		for mask := 0; mask < 256; mask++ {
			var ops []string
			for i, n := range names {
				// leave some fields without pre-state: an unselected write must not create them
				if (e+i+mask/64)%5 != 0 {
					ops = append(ops, c13OpText(true, n, pre[i]))
				}
			}
			for i, n := range names {
				ops = append(ops, c13OpText(false, n, wr[i]))
			}
			c13EmitE(out, c13ChkText(names, mask), "m=-", ops)
		}
	}
	for i := 0; i < nRand; i++ {
		n := 1 + r.intn(8)
		perm := make([]string, len(c13FieldNames))
		copy(perm, c13FieldNames)
		for j := len(perm) - 1; j > 0; j-- {
			k := r.intn(j + 1)
			perm[j], perm[k] = perm[k], perm[j]
		}
		names := perm[:n]
		var ops []string
		kinds := make([]int, n)
		for j := range names {
			kinds[j] = r.intn(15)
			if r.chance(3, 4) {
				ops = append(ops, c13OpText(true, names[j], c13FieldOp(r, kinds[j], 2)))
			}
		}
		for j := range names {
			k := kinds[j]
			if r.chance(1, 10) {
				// another kind of the same storage class (value vs bucket), so that nothing is refused
				if k == 8 || k == 9 || k == 10 || k == 12 || k == 14 {
					k = pick(r, []int{8, 9, 10, 12})
				} else {
					k = pick(r, []int{0, 1, 2, 3, 4, 5, 6, 7, 11, 15})
				}
			}
			ops = append(ops, c13OpText(false, names[j], c13FieldOp(r, k, 2)))
		}
		chk := "c=-"
		if r.chance(9, 10) {
			mask := r.intn(1 << uint(n))
			chk = c13ChkText(names, mask)
			if r.chance(1, 5) {
				chk += "," + toWire("unknown")
				chk = strings.Replace(chk, "c=.,", "c=.", 1)
			}
		}
		mapping := "m=-"
		if r.chance(1, 4) && n >= 2 {
			// PersistContext.WithFieldOverrides: field a is written when b is selected
			var ms []string
			cnt := 1 + r.intn(2)
			for c := 0; c < cnt; c++ {
				a, b := names[r.intn(n)], pick(r, append([]string{"other"}, names...))
				dup := false
				for _, m := range ms {
					if strings.HasPrefix(m, toWire(a)+">") {
						dup = true
					}
				}
				if !dup {
					ms = append(ms, toWire(a)+">"+toWire(b))
				}
			}
			mapping = "m=" + strings.Join(ms, ",")
		}
		c13EmitE(out, chk, mapping, ops)
	}
}

var c13QuickTier bool

func c13Gen(tier string, seed uint64, out *bufio.Writer) {
	r := newRng(seed)
	c13QuickTier = tier != "thorough"
	c13ZoneRng = newRng(seed ^ 0x7a6f6e6573)
	c13GenKeys(tier, r, out)
	c13GenValues(tier, r, out)
	c13GenCheckers(tier, r, out)
	c13GenContexts(tier, r, out)
	c13GenSizes(tier, r, out)
	c13GenOverwrites(tier, r, out)
	c13GenOverrides(tier, r, out)
	c13GenTimes(tier, r, out)
}
