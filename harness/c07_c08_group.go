package main

// C07 / C08 — batch groups: SEVERAL Db.Batch calls coalesced by bbolt into ONE batch, driven through the exported API only.
//
//	tx g[:sched] reuse nmembers (mb faultInv faultPos nsteps step*)*
//
// The *bbolt.DB is reached as tx.DB() inside db.View; MaxBatchSize = number of members and MaxBatchDelay = one hour make
// the batch fire exactly when the last member has queued its call.  Arrival order is made deterministic: member k+1 is
// started only when k+1 goroutines are parked in bbolt.(*DB).Batch waiting for their result (seen in the goroutine dump —
// no sleep decides anything).  What stays a scheduling fact is the order in which, after a failed round, the solo re-run of
// the failing member and the next round of the batch get bbolt's writer lock: the executor records the order of the
// group's bbolt transactions as it happened (`seq=`) and the check hands it to the model as the schedule.
//
// A member's function returns an injected error on its faultInv-th invocation (0: never) after faultPos steps of its body;
// "fail1" steps and first-run-only vetoes are per member (its own invocation counter).
//
// Output record of a group:
//
//	g=<n> r=<r0>+<r1>.. same= runs=<i0>+<i1>.. seq=[R0.1-,S1+,R0+] pre= pa= sync= async= ca= dump=
//
// seq   the bbolt transactions in order: R<members invoked>± a round of the batch, S<k>± the solo re-run of member k
//       (+ committed, - rolled back)
// sync  callbacks on a committing goroutine, per committed transaction in seq order, labelled R@ / S<k>@; a tx-complete
//       listener call carries the member whose MutateContext it was handed (X.<i>.m<k>)
// A watchdog turns a group that does not finish into the outcome r=hang (the database is then left open).

import (
	"context"
	"fmt"
	"runtime"
	"sort"
	"strconv"
	"strings"
	"time"

	"github.com/openziti/storage/boltz"
	"go.etcd.io/bbolt"
)

type txMember struct {
	faultInv, faultPos int
	steps              []txStep
}

func (p *txTokens) member() txMember {
	if p.next() != "mb" {
		panic("bad member")
	}
	m := txMember{faultInv: p.nat(), faultPos: p.nat()}
	n := p.nat()
	for i := 0; i < n; i++ {
		m.steps = append(m.steps, p.step())
	}
	return m
}

type txGroupCallback struct {
	goid  uint64
	entry string
}

type txInvocation struct {
	member, n int
	goid      uint64
	failed    bool
}

type txGroupRun struct {
	ctxs      []boltz.MutateContext
	invs      []int
	log       []txInvocation
	cur       int
	callbacks []txGroupCallback
}

// markFailed: the running invocation makes its transaction fail (called with r.mu held)
func (g *txGroupRun) markFailed() {
	if g.cur >= 0 && g.cur < len(g.log) {
		g.log[g.cur].failed = true
	}
}

func (r *txRun) groupMemberSuffix(ctx boltz.MutateContext) string {
	r.mu.Lock()
	defer r.mu.Unlock()
	if r.grp == nil {
		return ""
	}
	for k, c := range r.grp.ctxs {
		if c == ctx {
			return fmt.Sprintf(".m%d", k)
		}
	}
	return ".m?"
}

// number of goroutines parked in bbolt.(*DB).Batch waiting for the result of their call
func txParkedInBatch() int {
	buf := make([]byte, 1<<20)
	n := runtime.Stack(buf, true)
	count := 0
	for _, blk := range strings.Split(string(buf[:n]), "\n\n") {
		lines := strings.SplitN(blk, "\n", 3)
		if len(lines) < 2 || !strings.Contains(lines[0], "[chan receive") {
			continue
		}
		if strings.HasPrefix(lines[1], "go.etcd.io/bbolt.(*DB).Batch(") {
			count++
		}
	}
	return count
}

func txFaultTag(k, n int) int { return 900 + 10*k + n }

func (r *txRun) runGroup(tx txTx, ctx0 boltz.MutateContext, baseline int) (string, boltz.MutateContext) {
	n := len(tx.members)
	before := r.dump()
	grp := &txGroupRun{ctxs: make([]boltz.MutateContext, n), invs: make([]int, n), cur: -1}
	for k := range grp.ctxs {
		if k == 0 && tx.reuse && ctx0 != nil {
			grp.ctxs[k] = ctx0
		} else {
			grp.ctxs[k] = boltz.NewMutateContext(context.Background())
		}
	}
	r.mu.Lock()
	r.pre, r.preRan, r.sync, r.async = nil, nil, nil, nil
	r.ca = map[uint64][]string{}
	r.grp = grp
	r.mu.Unlock()

	var bdb *bbolt.DB
	_ = r.db.View(func(t *bbolt.Tx) error { bdb = t.DB(); return nil })
	oldSize, oldDelay := bdb.MaxBatchSize, bdb.MaxBatchDelay
	bdb.MaxBatchSize, bdb.MaxBatchDelay = n, time.Hour

	body := func(k int) func(boltz.MutateContext) error {
		m := tx.members[k]
		return func(c boltz.MutateContext) (err error) {
			g := txGoid()
			r.mu.Lock()
			grp.invs[k]++
			inv := grp.invs[k]
			r.curRun = inv
			grp.log = append(grp.log, txInvocation{member: k, n: inv, goid: g})
			idx := len(grp.log) - 1
			grp.cur = idx
			r.mu.Unlock()
			defer func() {
				p := recover()
				if p != nil || err != nil {
					r.mu.Lock()
					grp.log[idx].failed = true
					r.mu.Unlock()
				}
				if p != nil {
					panic(p)
				}
			}()
			// the body as this invocation executes it: what fails the first time only is spent from the second on
			steps := m.steps
			if inv > 1 {
				steps = nil
				for _, s := range m.steps {
					if s.kind != "fail1" {
						steps = append(steps, s)
					}
				}
			}
			fault := m.faultInv != 0 && inv == m.faultInv
			if fault && m.faultPos < len(steps) {
				steps = steps[:m.faultPos]
			}
			if _, err = r.runSteps(c, steps, 0); err != nil {
				return err
			}
			if fault {
				return &txCallerErr{tag: txFaultTag(k, inv)}
			}
			return nil
		}
	}

	deadline := time.Now().Add(20 * time.Second)
	res := make([]string, n)
	callerGoid := make([]uint64, n)
	done := make(chan int, n)
	hang := ""
	for k := 0; k < n && hang == ""; k++ {
		k := k
		started := make(chan struct{})
		go func() {
			callerGoid[k] = txGoid()
			close(started)
			defer func() {
				if p := recover(); p != nil {
					res[k] = fmt.Sprintf("panic:%s", toWire(fmt.Sprint(p)))
				}
				done <- k
			}()
			res[k] = txErrKind(r.db.Batch(grp.ctxs[k], body(k)))
		}()
		<-started
		if k < n-1 {
			// arrival order = member order: the next member starts when this one is parked inside bbolt's Batch
			for i := 0; txParkedInBatch() < k+1; i++ {
				if time.Now().After(deadline) {
					hang = fmt.Sprintf("member-%d-never-queued", k)
					break
				}
				if i < 50 {
					runtime.Gosched()
				} else {
					time.Sleep(100 * time.Microsecond)
				}
			}
		}
	}
	finished := 0
	for finished < n && hang == "" {
		select {
		case <-done:
			finished++
		case <-time.After(time.Until(deadline)):
			hang = fmt.Sprintf("%d-of-%d-calls-returned", finished, n)
		}
	}
	if hang != "" {
		r.hung = true
		r.mu.Lock()
		defer r.mu.Unlock()
		runs := make([]string, n)
		for k := range runs {
			runs[k] = strconv.Itoa(grp.invs[k])
		}
		return fmt.Sprintf("g=%d r=hang:%s runs=%s", n, hang, strings.Join(runs, "+")), grp.ctxs[0]
	}
	bdb.MaxBatchSize, bdb.MaxBatchDelay = oldSize, oldDelay
	quiet := txWaitQuiescent(baseline)
	after := r.dump()

	r.mu.Lock()
	defer r.mu.Unlock()
	r.grp = nil
	same, dump := "0", after
	if before == after {
		same, dump = "1", "-"
	}
	// the bbolt transactions, in order: a solo re-run happens on the goroutine of the member's caller, the rounds of the
	// batch on bbolt's batch goroutine; a round ends with the invocation that failed (or, the last one, with its commit)
	type gtx struct {
		label     string
		members   []string
		goid      uint64
		committed bool
	}
	var txs []gtx
	bodyGoids := map[uint64]bool{}
	var round *gtx
	for _, inv := range grp.log {
		bodyGoids[inv.goid] = true
		if inv.goid == callerGoid[inv.member] {
			txs = append(txs, gtx{label: fmt.Sprintf("S%d", inv.member), goid: inv.goid, committed: !inv.failed})
			continue
		}
		if round == nil {
			txs = append(txs, gtx{label: "R", goid: inv.goid, committed: true})
			round = &txs[len(txs)-1]
		}
		round.members = append(round.members, strconv.Itoa(inv.member))
		if inv.failed {
			round.committed = false
			round = nil
		}
	}
	var seq, syncs, asyncs []string
	labelOf := map[uint64]string{}
	for _, t := range txs {
		s := t.label + strings.Join(t.members, ".")
		if t.committed {
			s += "+"
			if _, dup := labelOf[t.goid]; dup {
				labelOf[t.goid] = "?" // two committed transactions on one goroutine: cannot be told apart
			} else {
				labelOf[t.goid] = t.label
			}
		} else {
			s += "-"
		}
		seq = append(seq, s)
	}
	for _, t := range txs {
		if !t.committed {
			continue
		}
		for _, cb := range grp.callbacks {
			if cb.goid == t.goid && labelOf[t.goid] == t.label {
				syncs = append(syncs, t.label+"@"+cb.entry)
			}
		}
	}
	for _, cb := range grp.callbacks {
		if l, ok := labelOf[cb.goid]; ok && l != "?" {
			continue
		}
		if bodyGoids[cb.goid] {
			// on a goroutine that ran transaction functions but committed nothing (or more than one transaction)
			syncs = append(syncs, "?@"+cb.entry)
		} else {
			asyncs = append(asyncs, cb.entry)
		}
	}
	sort.Strings(asyncs)
	var cas []string
	for g, tags := range r.ca {
		prefix := "A."
		if bodyGoids[g] {
			prefix = "S."
		}
		cas = append(cas, prefix+strings.Join(tags, "."))
	}
	sort.Strings(cas)
	runs := make([]string, n)
	for k := range runs {
		runs[k] = strconv.Itoa(grp.invs[k])
	}
	out := fmt.Sprintf("g=%d r=%s same=%s runs=%s seq=%s pre=%s pa=%s sync=%s async=%s ca=%s dump=%s", n,
		strings.Join(res, "+"), same, strings.Join(runs, "+"), txList(seq), txList(r.pre), txList(r.preRan), txList(syncs),
		txList(asyncs), txList(cas), dump)
	if !quiet {
		out += " goroutines-still-running"
	}
	return out, grp.ctxs[0]
}

// ---------------------------------------------------------------- generators

// member k's own entity (plain parent; every other member as child data through C), so that members do not get in each
// other's way unless a case wants them to
func txGroupMemberBody(k int) []txStep {
	id := fmt.Sprintf("m%d", k)
	var op txStep
	if k%2 == 0 {
		op = opCreate('P', id, "nm"+strconv.Itoa(k), []string{"r"}, nil, "")
	} else {
		op = opCreate('C', id, "nm"+strconv.Itoa(k), nil, nil, "k"+strconv.Itoa(k))
	}
	return []txStep{{kind: "ac", tag: 10*k + 1}, op, {kind: "ac", tag: 10*k + 2}}
}

func txGroupCase(pre []txTx, g txTx, post []txTx) string {
	c := &txCase{regsP: txObservers(), regsC: txObservers(), regsD: txObservers()[:2], txl: 2}
	c.txs = append(append(append([]txTx(nil), pre...), g), post...)
	return txCaseLine(c)
}

func txGroupCases(r *rng, p txProfile, nRandom int, emit func(string)) {
	members := func(n int) []txMember {
		ms := make([]txMember, n)
		for k := range ms {
			ms[k].steps = txGroupMemberBody(k)
		}
		return ms
	}
	later := []txTx{{mode: 'u', reuse: true, steps: []txStep{{kind: "ac", tag: 77}, opCreate('P', "p9", "n9", nil, nil, "")}}}
	for n := 2; n <= 4; n++ {
		// nobody fails
		emit(txGroupCase(nil, txTx{mode: 'g', members: members(n)}, later))
		for i := 0; i < n; i++ {
			// one member fails on its first invocation, before / in the middle of / after its work (the others are re-run)
			for _, pos := range []int{0, 2, 3} {
				ms := members(n)
				ms[i].faultInv, ms[i].faultPos = 1, pos
				emit(txGroupCase(nil, txTx{mode: 'g', members: ms}, later))
			}
			// one member fails always: the caller's error, a failing pre-commit action, a natural rejection
			for v := 0; v < 3; v++ {
				ms := members(n)
				switch v {
				case 0:
					ms[i].steps = append(ms[i].steps, txStep{kind: "fail", tag: 5})
				case 1:
					ms[i].steps = append(ms[i].steps, txStep{kind: "ap", tag: 6, fails: true})
				default:
					ms[i].steps = append(ms[i].steps, opDelete('P', "zz"))
				}
				emit(txGroupCase([]txTx{txSetupTx()}, txTx{mode: 'g', members: ms}, later))
			}
			// one member fails the first time only, by itself (fail1 step)
			ms := members(n)
			ms[i].steps = append(ms[i].steps, txStep{kind: "fail1", tag: 4})
			emit(txGroupCase(nil, txTx{mode: 'g', reuse: true, members: ms}, later))
			// two faulty members: i on its first invocation, j on its 1st / 2nd / 3rd
			for j := 0; j < n; j++ {
				if j == i {
					continue
				}
				for inv := 1; inv <= 3; inv++ {
					ms := members(n)
					ms[i].faultInv, ms[i].faultPos = 1, 3
					ms[j].faultInv, ms[j].faultPos = inv, 3
					emit(txGroupCase(nil, txTx{mode: 'g', members: ms}, nil))
				}
			}
		}
	}
	// members that get in each other's way: the same entity created by two members (whoever commits first wins)
	for n := 2; n <= 3; n++ {
		ms := members(n)
		ms[n-1].steps = txGroupMemberBody(0)
		emit(txGroupCase(nil, txTx{mode: 'g', members: ms}, later))
		// a member deletes what an earlier member of the shared transaction created
		ms = members(n)
		ms[n-1].steps = []txStep{opDelete('P', "m0"), {kind: "ac", tag: 55}}
		emit(txGroupCase(nil, txTx{mode: 'g', members: ms}, nil))
	}
	// a group after a failed Update whose context member 0 uses again, and an Update after the group with that context
	for _, pos := range []int{0, 3} {
		ms := members(2)
		ms[1].faultInv, ms[1].faultPos = 1, pos
		failed := txTx{mode: 'u', steps: []txStep{{kind: "ac", tag: 88}, opCreate('P', "p8", "n8", nil, nil, ""), {kind: "fail", tag: 3}}}
		emit(txGroupCase([]txTx{failed}, txTx{mode: 'g', reuse: true, members: ms}, later))
	}
	for i := 0; i < nRandom; i++ {
		emit(txRandomGroupCase(r, p))
	}
}

// random histories with a batch group among the other transaction modes
func txRandomGroupCase(r *rng, p txProfile) string {
	c := &txCase{}
	c.regsP = txRandomRegs(r, p.listeners, txIdsAll)
	c.regsC = txRandomRegs(r, p.listeners, txIdsAll)
	if r.chance(1, 2) {
		c.regsD = txRandomRegs(r, p.listeners, txIdsAll)
	}
	c.txl = r.intn(3)
	c.sharedSlice = r.chance(1, 3)
	live := txLive{}
	if r.chance(2, 3) {
		c.txs = append(c.txs, txSetupTx())
		live["p1"], live["c1"], live["d1"], live["b1"] = true, true, true, true
	}
	if r.chance(1, 3) {
		c.ixP = txRandomIxRegs(r, 2, txIdsAll, false)
		c.ixC = txRandomIxRegs(r, 2, txIdsAll, false)
		c.ixD = txRandomIxRegs(r, 2, txIdsAll, false)
	}
	body := func(t, max int) []txStep {
		var steps []txStep
		n := 1 + r.intn(max)
		for i := 0; i < n; i++ {
			switch x := r.intn(20); {
			case x < 12:
				steps = append(steps, txRandomOp(r, p, false, live))
			case x < 15:
				steps = append(steps, txStep{kind: "ac", tag: 10*t + i})
			case x < 17:
				steps = append(steps, txStep{kind: "ap", tag: 10*t + i, fails: r.intn(100) < p.failBias})
			case x == 17:
				steps = append(steps, txStep{kind: pick(r, []string{"fail", "fail1", "fail1"}), tag: r.intn(3)})
			default:
				steps = append(steps, txStep{kind: "sys"})
			}
		}
		return steps
	}
	plain := func(t int) txTx {
		tx := txTx{mode: 'u', reuse: r.chance(1, 2), steps: body(t, p.maxSteps)}
		if r.chance(1, 4) {
			tx.mode = 'b'
		}
		return tx
	}
	t := 1
	if r.chance(1, 2) {
		c.txs = append(c.txs, plain(t))
		t++
	}
	groups := 1
	if r.chance(1, 5) {
		groups = 2
	}
	for ; groups > 0; groups-- {
		g := txTx{mode: 'g', reuse: r.chance(1, 2)}
		n := 2 + r.intn(3)
		for k := 0; k < n; k++ {
			m := txMember{steps: body(t, 3)}
			t++
			if r.chance(1, 2) {
				m.faultInv = 1 + r.intn(3)
				m.faultPos = r.intn(len(m.steps) + 1)
			}
			g.members = append(g.members, m)
		}
		c.txs = append(c.txs, g)
		if r.chance(2, 3) {
			c.txs = append(c.txs, plain(t))
			t++
		}
	}
	return txCaseLine(c)
}
