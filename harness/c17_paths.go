package main

// C17 — the PATH argument of Snapshot / SnapshotInTx (model: lean/StorageModel/C17/Paths.lean).
//
//	snapp:<k>:<tmpl>        Snapshot(<tmpl>)
//	snaptp:<k>:<tmpl>       View{ SnapshotInTx(tx, <tmpl>) }
//	snapup:<k>:<ws>:<tmpl>  Update{ writes; SnapshotInTx(tx, <tmpl>) }
//	    -> snapped:<id>:<dump at that time>@<returned path>@<other directory entries created or rewritten | ->
//
// <tmpl> is a path template (DATE, TIME, DB_DIR, DB_FILE and their __X__ forms), taken relative to the
// directory of the live database unless it starts with DB_DIR/ or __DB_DIR__/.  Slot k is from then on the
// file under the path the call RETURNED: every later restore of slot k reads that file — as a caller of
// Snapshot would.  (The plain operations snap / snapt / snapu / snaptc / snapuc follow the same rule.)
// Canonical form of the returned path: the temporary directory is shown as $D, the date / time strings of
// the clock during the call (every second between entry and return is a candidate) as <D> / <T>.

import (
	"fmt"
	"io"
	"os"
	"path/filepath"
	"sort"
	"strings"
	"time"

	"github.com/openziti/storage/boltz"
	"go.etcd.io/bbolt"
)

func (e *c17Env) setSlot(k, actual string, err error) {
	if err != nil {
		return
	}
	if e.returned == nil {
		e.returned = map[string]string{}
	}
	e.returned[k] = actual
}

func (e *c17Env) slotFile(k string) string {
	if p, ok := e.returned[k]; ok {
		return p
	}
	return e.slot(k)
}

type c17Entry struct {
	size int64
	mod  time.Time
}

func (e *c17Env) listDir() map[string]c17Entry {
	res := map[string]c17Entry{}
	_ = filepath.Walk(e.dir, func(p string, info os.FileInfo, err error) error {
		if err != nil || info.IsDir() {
			return nil
		}
		res[p] = c17Entry{info.Size(), info.ModTime()}
		return nil
	})
	return res
}

func (e *c17Env) canonPath(p string, from, to time.Time) string {
	p = strings.ReplaceAll(p, e.dir, "$D")
	var cands []time.Time
	for t, i := from.Truncate(time.Second), 0; !t.After(to) && i < 8; t, i = t.Add(time.Second), i+1 {
		cands = append(cands, t)
	}
	for _, t := range cands {
		p = strings.ReplaceAll(p, t.Format("20060102"), "<D>")
	}
	for _, t := range cands {
		p = strings.ReplaceAll(p, t.Format("150405"), "<T>")
	}
	return p
}

func (e *c17Env) snapTemplate(f []string) string {
	if (f[0] == "snapup" && len(f) != 4) || (f[0] != "snapup" && len(f) != 3) {
		return "bad-op"
	}
	tmpl := f[len(f)-1]
	full := tmpl
	if !strings.HasPrefix(tmpl, "DB_DIR/") && !strings.HasPrefix(tmpl, "__DB_DIR__/") {
		full = e.dir + "/" + tmpl
	}
	at := e.dump()
	before := e.listDir()
	var actual, id string
	var err error
	from := time.Now()
	switch f[0] {
	case "snapp":
		actual, id, err = e.db.Snapshot(full)
	case "snaptp":
		err = e.db.View(func(tx *bbolt.Tx) error {
			var err error
			actual, id, err = e.db.SnapshotInTx(tx, full)
			return err
		})
	case "snapup":
		err = e.db.Update(nil, func(ctx boltz.MutateContext) error {
			if err := c17Writes(ctx.Tx(), f[2]); err != nil {
				return err
			}
			var err error
			actual, id, err = e.db.SnapshotInTx(ctx.Tx(), full)
			return err
		})
	}
	to := time.Now()
	res := e.snapped(id, err, at)
	if err != nil {
		return res
	}
	e.setSlot(f[1], actual, nil)
	var others []string
	live := filepath.Join(e.dir, "live.db")
	for p, a := range e.listDir() {
		if p == actual || p == live {
			continue
		}
		if b, ok := before[p]; !ok || b != a {
			others = append(others, e.canonPath(p, from, to))
		}
	}
	sort.Strings(others)
	o := "-"
	if len(others) > 0 {
		o = strings.Join(others, ",")
	}
	return fmt.Sprintf("%s@%s@%s", res, e.canonPath(actual, from, to), o)
}

// templates: every placeholder in both forms, several at once, adjacent, at the front, as the directory, a
// placeholder between single underscores, half a `__X__` form, lower case (no placeholder), none at all
var c17Tmpls = []string{
	"s%d-DATE", "s%d-TIME", "s%d-__DATE__", "s%d-__TIME__", "s%d-DATE-TIME.snap", "s%d-__DATE____TIME__",
	"s%d-DATETIME.db", "s%d-DB_FILE", "s%d-__DB_FILE__.bak", "DB_DIR/s%d-x", "__DB_DIR__/s%d-DATE",
	"s%d-DB_FILE-DATE_TIME", "s%d-plain", "s%d-date-time", "s%d-_DATE_", "s%d-DATE-DATE", "DATE-s%d", "s%d-__DATE",
	"DB_DIR/s%d.__DB_FILE__.TIME",
}

func c17GenTmpl(r *rng, slot int) string {
	return fmt.Sprintf(c17Tmpls[r.intn(len(c17Tmpls))], slot)
}

// the property's shape through every template and every snapshot route
func c17GenPathsFixed(out io.Writer) {
	rests := []string{"rest:0", "restr:0", "restr:0:-:w:d", "restr:0:0+1+0+3:4096:s"}
	n := 0
	for _, t := range c17Tmpls {
		tm := fmt.Sprintf(t, 0)
		for _, snap := range []string{"snapp:0:" + tm, "snaptp:0:" + tm, "snapup:0:p1.2:" + tm} {
			fmt.Fprintf(out, "seq tx:p0.1/p4.2:c gtl:i:1 %s tx:p0.3/d4/p2.0:c %s gsid gtl:d:1 gtl:d:1 dump\n", snap, rests[n%len(rests)])
			n++
		}
	}
	// the slot follows the returned path: template, plain path and stream into one slot, two slots side by side
	fmt.Fprint(out, "seq tx:p0.1:c snapp:0:s0-DATE tx:p0.2:c snap:0 tx:p0.3:c rest:0 gsid dump snapp:0:s0-TIME tx:d0:c stream:0 restr:0 gsid dump\n")
	fmt.Fprint(out, "seq tx:p0.1:c snapp:0:s0-DATE-TIME tx:p0.2:c snaptp:1:s1-DATE-TIME tx:p0.3:c rest:0 gsid gtl:i:1 dump rest:1 gsid gtl:d:1 dump\n")
}
