package main

// C14 — SEVERAL cursors alive at once, opened from ONE bucket object / link collection / store inside one
// transaction and driven by an interleaved script: each must behave as if it were alone.
//
// case line:   M;OPENER,OPENER[,OPENER];SET <script>      (see lean/StorageModel/Driver/C14.lean)
//
//	OPENER  list dirf dirr typedf typedr seekable openf openr : all called on the SAME *TypedBucket value
//	        link rclinkf rclinkr : the same collection object; relf relr : the same store and entity;
//	        setsym : runtime symbols of the same set field on the same row; ids : IterateIds of the same store
//	script  steps <i><op> (i = index of the cursor, op = n | s<hex> | t<hex>), ',' separated, '_' = none
//
// output: the observation of every cursor after all have been opened, then after every step the
// observation of the cursor that was operated.

import (
	"bufio"
	"context"
	"fmt"
	"strings"

	"github.com/openziti/storage/ast"
	"github.com/openziti/storage/boltz"
	"go.etcd.io/bbolt"
)

type c14MultiFx struct {
	openers []string
	set     []string
	st      *c14Stores // entity `e` with tags / links / rc links = set
	ids     *c14Stores // things with ids = set
}

type c14Step struct {
	idx int
	op  c14Op
}

func c14ParseSteps(s string) []c14Step {
	if s == "_" {
		return nil
	}
	var res []c14Step
	for _, t := range strings.Split(s, ",") {
		res = append(res, c14Step{idx: int(t[0] - '0'), op: c14ParseOps(t[1:])[0]})
	}
	return res
}

func c14ShowSteps(steps []c14Step) string {
	if len(steps) == 0 {
		return "_"
	}
	ws := make([]string, len(steps))
	for i, s := range steps {
		ws[i] = fmt.Sprintf("%d%s", s.idx, c14ShowOps([]c14Op{s.op}))
	}
	return strings.Join(ws, ",")
}

func (fx *c14MultiFx) needs(names ...string) bool {
	for _, o := range fx.openers {
		for _, n := range names {
			if o == n {
				return true
			}
		}
	}
	return false
}

func (fx *c14MultiFx) setup(tx *bbolt.Tx) {
	b := boltz.GetOrCreatePath(tx, c14Root, "mb")
	c14Must(b.GetError())
	b.SetStringList("l", fx.set, nil)
	c14Must(b.GetError())
	ctx := boltz.NewTxMutateContext(context.Background(), tx)
	if fx.needs("link", "rclinkf", "rclinkr", "relf", "relr", "setsym") {
		st := c14NewStores("m", false)
		st.init(tx)
		fx.st = st
		th := &c14Thing{Id: c14E, Tags: fx.set}
		if fx.needs("link", "rclinkf", "rclinkr") {
			for _, id := range fx.set {
				c14Must(st.others.Create(ctx, &c14Other{Id: id}))
			}
			th.Others = fx.set
		}
		c14Must(st.things.Create(ctx, th))
		if fx.needs("rclinkf", "rclinkr") {
			for _, id := range fx.set {
				_, err := st.rcLinks.IncrementLinkCount(tx, []byte(c14E), []byte(id))
				c14Must(err)
			}
		}
	}
	if fx.needs("ids") {
		st := c14NewStores("mi", false)
		st.init(tx)
		fx.ids = st
		for _, id := range fx.set {
			c14Must(st.things.Create(ctx, &c14Thing{Id: id}))
		}
	}
}

func (fx *c14MultiFx) run(tx *bbolt.Tx, steps []c14Step) (res string) {
	var out []string
	defer func() {
		if r := recover(); r != nil {
			out = append(out, "panic")
			res = strings.Join(out, " ")
		}
	}()
	// ONE TypedBucket value for all bucket-level openers
	var l *boltz.TypedBucket
	if fx.needs("list", "dirf", "dirr", "typedf", "typedr", "seekable", "openf", "openr") {
		l = boltz.Path(tx, c14Root, "mb").GetBucket("l")
	}
	cursors := make([]ast.SetCursor, len(fx.openers))
	for i, o := range fx.openers {
		switch o {
		case "list":
			cursors[i] = l.IterateStringList()
		case "dirf":
			cursors[i] = l.IterateStringListInDirection(true)
		case "dirr":
			cursors[i] = l.IterateStringListInDirection(false)
		case "typedf":
			cursors[i] = l.OpenTypedCursor(tx, true)
		case "typedr":
			cursors[i] = l.OpenTypedCursor(tx, false)
		case "seekable":
			cursors[i] = l.OpenSeekableCursor()
		case "openf":
			cursors[i] = l.OpenCursor(tx, true)
		case "openr":
			cursors[i] = l.OpenCursor(tx, false)
		case "link":
			cursors[i] = fx.st.links.IterateLinks(tx, []byte(c14E))
		case "rclinkf":
			cursors[i] = fx.st.rcLinks.IterateLinks(tx, []byte(c14E), true)
		case "rclinkr":
			cursors[i] = fx.st.rcLinks.IterateLinks(tx, []byte(c14E), false)
		case "relf":
			cursors[i] = fx.st.things.GetRelatedEntitiesCursor(tx, c14E, "tags", true)
		case "relr":
			cursors[i] = fx.st.things.GetRelatedEntitiesCursor(tx, c14E, "tags", false)
		case "setsym":
			// GetSymbol hands out a runtime copy per call
			cursors[i] = fx.st.things.GetSymbol("tags").(boltz.RuntimeEntitySetSymbol).OpenCursor(tx, []byte(c14E))
		case "ids":
			cursors[i] = fx.ids.things.IterateIds(tx, ast.BoolNodeTrue)
		default:
			panic("bad opener " + o)
		}
	}
	for _, c := range cursors {
		out = append(out, c14Observe(c))
	}
	for _, s := range steps {
		if s.idx < 0 || s.idx >= len(cursors) {
			panic("bad cursor index")
		}
		c14Drive(cursors[s.idx], []c14Op{s.op}, &out)
	}
	return strings.Join(out, " ")
}

func c14MultiExec(f []string) string {
	t := strings.Split(f[0], ";")
	if len(t) != 3 {
		return "bad-case"
	}
	steps := c14ParseSteps(f[1])
	db := c14GetDb()
	var first string
	fresh := false
	if c14Cur == nil || c14Cur.desc != f[0] {
		fx := &c14MultiFx{openers: strings.Split(t[1], ","), set: c14ParseSet(t[2])}
		c14Cur = nil
		c14Must(db.Update(func(tx *bbolt.Tx) error {
			if tx.Bucket([]byte(c14Root)) != nil {
				c14Must(tx.DeleteBucket([]byte(c14Root)))
			}
			fx.setup(tx)
			first = fx.run(tx, steps)
			return nil
		}))
		c14Cur = &c14Fixture{desc: f[0], multi: fx}
		fresh = true
	}
	fx := c14Cur.multi
	var res string
	c14Must(db.View(func(tx *bbolt.Tx) error {
		res = fx.run(tx, steps)
		return nil
	}))
	if fresh && first != res {
		return "tx-mismatch write-tx: " + first + " | read-tx: " + res
	}
	return res
}

// ---------------------------------------------------------------------------- generator

var c14BucketOpeners = []string{"list", "dirf", "dirr", "typedf", "typedr", "seekable", "openf", "openr"}
var c14OtherOpeners = []string{"link", "rclinkf", "rclinkr", "relf", "relr", "setsym", "ids"}

func c14GenMultiSteps(r *rng, openers []string, targets []string, maxLen int) []c14Step {
	n := 1 + r.intn(maxLen)
	steps := make([]c14Step, 0, n)
	for i := 0; i < n; i++ {
		idx := r.intn(len(openers))
		o := openers[idx]
		var op c14Op
		switch {
		case o == "setsym" && r.chance(1, 4):
			op = c14Op{kind: 't', val: pick(r, targets)}
		case r.chance(1, 3):
			t := pick(r, targets)
			if (o == "seekable" || o == "openf" || o == "openr" || o == "setsym") && r.chance(2, 3) {
				t = "\x05" + t // these compare stored keys
			}
			op = c14Op{kind: 's', val: t}
		default:
			op = c14Op{kind: 'n'}
		}
		steps = append(steps, c14Step{idx: idx, op: op})
	}
	return steps
}

func c14GenMulti(tier string, r *rng, out *bufio.Writer) {
	nDesc, perDesc := 120, 10
	if tier == "thorough" {
		nDesc, perDesc = 1500, 20
	}
	for i := 0; i < nDesc; i++ {
		k := 2 + r.intn(2)
		openers := make([]string, k)
		bucketOnly := r.chance(1, 2)
		for j := range openers {
			switch {
			case bucketOnly || r.chance(1, 3):
				openers[j] = pick(r, c14BucketOpeners)
			case j > 0 && r.chance(1, 2):
				openers[j] = openers[j-1] // the same provider twice
			default:
				openers[j] = pick(r, c14OtherOpeners)
			}
		}
		noEmpty := false
		for _, o := range openers {
			if o == "link" || o == "rclinkf" || o == "rclinkr" || o == "ids" {
				noEmpty = true
			}
		}
		set := c14Subset(r, c14Universe, 6, noEmpty)
		if len(set) < 2 {
			set = []string{"a", "b", "c"}
		}
		targets := append(append([]string{}, c14Targets...), set...)
		desc := "M;" + strings.Join(openers, ",") + ";" + c14ShowSet(set)
		// lock step: every cursor advances in turn
		var lock []c14Step
		for s := 0; s < len(set)+1; s++ {
			for j := range openers {
				lock = append(lock, c14Step{idx: j, op: c14Op{kind: 'n'}})
			}
		}
		fmt.Fprintf(out, "%s %s\n", desc, c14ShowSteps(lock))
		for j := 0; j < perDesc; j++ {
			fmt.Fprintf(out, "%s %s\n", desc, c14ShowSteps(c14GenMultiSteps(r, openers, targets, 8)))
		}
	}
	// every ordered pair of bucket-level openers on one bucket object: lock step, and one cursor
	// enumerating while the other probes with Seek
	set := []string{"a", "b", "c", "d"}
	for _, a := range c14BucketOpeners {
		for _, b := range c14BucketOpeners {
			desc := "M;" + a + "," + b + ";" + c14ShowSet(set)
			fmt.Fprintf(out, "%s 0n,1n,0n,1n,0n,1n,0n,1n,0n,1n\n", desc)
			tb := "b"
			if b == "seekable" || b == "openf" || b == "openr" {
				tb = "\x05b"
			}
			fmt.Fprintf(out, "%s 0n,1s%s,0n,1s%s,0n,1n,0n\n", desc, toWire(tb), toWire(tb[:len(tb)-1]+"d"))
		}
	}
}
