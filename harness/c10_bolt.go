package main

import (
	"fmt"
	"os"
	"strings"
	"time"

	"github.com/openziti/storage/ast"
	"github.com/openziti/storage/boltz"
	"go.etcd.io/bbolt"
)

// B <dataset> <text>: the query through real bolt stores (boltz.BaseStore.QueryIds and the
// rowCursorImpl of boltz/query_cursor.go as ast.Symbols).
//
//	dataset: empty (no entity at all) | nulls (entities without any field, empty / absent set buckets)
//	         | full (every field set, sets with elements, linked entities)
//	         | mixedA / mixedB (the full entities plus entities without fields and partially filled ones,
//	           sorting before (A) or after (B) the full ones in id order)
//	-> bolt=<ok:n | err> iter=<n | err>      a Go panic is caught by safeExec and printed as `panic ...`
//
// Only freedom from panics (and termination) is judged for B cases; what the queries return is
// C01's business.

type c10Bolt struct {
	db     *bbolt.DB
	things boltz.Store
	kids   boltz.Store
}

var c10BoltCache = map[string]*c10Bolt{}

func c10OpenBolt(dataset string) *c10Bolt {
	if b, ok := c10BoltCache[dataset]; ok {
		return b
	}
	dir, err := os.MkdirTemp("", "verif-*")
	if err != nil {
		panic(err)
	}
	db, err := bbolt.Open(dir+"/c10.db", 0600, &bbolt.Options{NoSync: true, NoFreelistSync: true, Timeout: time.Second})
	if err != nil {
		panic(err)
	}
	_ = os.RemoveAll(dir) // the open file stays usable, nothing is left on disk
	things := boltz.NewBaseStore(*(&boltz.StoreDefinition[boltz.Entity]{EntityType: "things"}).WithBasePath("u"))
	kids := boltz.NewBaseStore(*(&boltz.StoreDefinition[boltz.Entity]{EntityType: "kids"}).WithBasePath("u"))
	for _, st := range []*boltz.BaseStore[boltz.Entity]{things, kids} {
		st.AddIdSymbol("id", ast.NodeTypeString)
		st.AddSymbol("s", ast.NodeTypeString)
		st.AddSymbol("n", ast.NodeTypeInt64)
		st.AddSymbol("f", ast.NodeTypeFloat64)
		st.AddSymbol("b", ast.NodeTypeBool)
		st.AddSymbol("d", ast.NodeTypeDatetime)
		st.AddSetSymbol("ss", ast.NodeTypeString)
		st.AddSetSymbol("ns", ast.NodeTypeInt64)
		st.AddMapSymbol("tags", ast.NodeTypeAnyType, "tags")
		st.AddFkSetSymbol("kids", kids)
	}
	things.AddFkSymbol("owner", kids)
	b := &c10Bolt{db: db, things: things, kids: kids}
	err = db.Update(func(tx *bbolt.Tx) error {
		tb := boltz.GetOrCreatePath(tx, "u", "things")
		kb := boltz.GetOrCreatePath(tx, "u", "kids")
		switch dataset {
		case "empty":
		case "nulls":
			for _, id := range []string{"t1", "t2"} {
				e := tb.GetOrCreatePath(id)
				e.SetNil("s")
				e.GetOrCreateBucket("ss") // an empty set bucket; "ns" and "kids" have no bucket at all
			}
			kb.GetOrCreatePath("k1")
		default:
			for i, id := range []string{"k1", "k2", "k3"} {
				e := kb.GetOrCreatePath(id)
				e.SetString("s", []string{"x", "", "a b"}[i], nil)
				e.SetInt64("n", int64(i*5), nil)
				e.SetStringList("ss", []string{"x", "y"}[:i%3%2+1], nil)
			}
			for i, id := range []string{"t1", "t2", "t3"} {
				e := tb.GetOrCreatePath(id)
				e.SetString("s", []string{"x", "X", "世"}[i], nil)
				e.SetInt64("n", int64(i*5-1), nil)
				e.SetFloat64("f", []float64{1.5, -0.25, 1000}[i], nil)
				e.SetBool("b", i%2 == 0, nil)
				e.SetTime("d", time.Unix(1577836800+int64(i)*86400, 0).UTC(), nil)
				e.SetStringList("ss", []string{"x", "y", ""}[:i+1], nil)
				ns := e.GetOrCreateBucket("ns")
				for j := 0; j <= i; j++ {
					ns.SetListEntry(boltz.TypeInt64, func() []byte {
						buf := make([]byte, 8)
						v := uint64(j * 5)
						for k := 0; k < 8; k++ {
							buf[k] = byte(v >> (8 * k))
						}
						return buf
					}())
				}
				e.PutMap("tags", map[string]interface{}{"x": []interface{}{"x", int64(5), true}[i]}, nil, false)
				e.SetStringList("kids", []string{"k1", "k2", "k3", "zz"}[i:], nil)
				e.SetString("owner", "k1", nil)
			}
			if strings.HasPrefix(dataset, "mixed") {
				// entities without any field and partially filled ones, before (A) or after (B) the full ones
				ids := []string{"a0", "a1", "a2"}
				if dataset == "mixedB" {
					ids = []string{"z0", "z1", "z2"}
				}
				tb.GetOrCreatePath(ids[0])
				e := tb.GetOrCreatePath(ids[1])
				e.SetNil("s")
				e.SetInt64("n", 7, nil)
				e.SetBool("b", true, nil)
				e.GetOrCreateBucket("ss")
				e = tb.GetOrCreatePath(ids[2])
				e.SetString("s", "m", nil)
				e.SetFloat64("f", 2.5, nil)
				e.SetTime("d", time.Unix(1577836800, 0).UTC(), nil)
				e.SetNil("owner")
				e.SetStringList("kids", []string{"k2"}, nil)
			}
		}
		return nil
	})
	if err != nil {
		panic(err)
	}
	c10BoltCache[dataset] = b
	return b
}

func c10ExecBolt(f []string) string {
	b := c10OpenBolt(f[1])
	text := fromWire(f[2])
	var res string
	_ = b.db.View(func(tx *bbolt.Tx) error {
		ids, _, err := b.things.QueryIds(tx, text)
		r1 := "err"
		if err == nil {
			r1 = fmt.Sprintf("ok:%d", len(ids))
		}
		r2 := "err"
		if q, perr := ast.Parse(b.things, text); perr == nil {
			n := 0
			for c := b.things.IterateIds(tx, q); c.IsValid(); c.Next() {
				n++
				if n > 100000 {
					break
				}
			}
			r2 = fmt.Sprint(n)
		}
		res = "bolt=" + r1 + " iter=" + r2
		return nil
	})
	return res
}

func (g *c10Gen) genBolt() {
	n := 400
	if g.tier == "thorough" {
		n = 20000
	}
	emit := func(ds, text string) {
		fmt.Fprintf(g.out, "B %s %s\n", ds, toWire(string([]rune(text))))
	}
	fixed := []string{"", "true", `s icontains "X"`, "d between 1 and 2", "tags.x between 5 and 7", `anyOf(ss) = "x"`, `allOf(ss) != "x"`,
		"count(kids) > 1", "isEmpty(kids)", `count(from kids where s = "x") = 1`, `isEmpty(from kids where anyOf(ss) = "x")`,
		"anyOf(ns) in [0, 5]", "anyOf(kids.ss) = \"x\"", "anyOf(kids.n) > 1", "owner.s = \"x\"", "owner = null", "tags.x = 5", `tags.x = "x"`,
		"tags.x = true", "sort by s desc, n skip 1 limit 1", "limit none", "skip 5", "n = 4 or f > 1 and not b", "anyOf(kids) = \"k1\"",
		"count(from kids where limit 5) > 1", "a = 1 @", "zz = 1", "not (n between 1 and 9)", "n not in [4, 9]", "s in [\"x\", \"X\"]",
		"d > datetime(2020-01-01T00:00:00Z)", "d in [datetime(2020-01-01T00:00:00Z)]", "count(ns) >= 2", "isEmpty(ss) or isEmpty(ns)",
		"true sort by s", "true sort by s desc", "sort by n", "sort by n desc limit 2", "sort by f", "sort by f desc skip 1", "sort by b",
		"sort by b desc", "sort by d", "sort by d desc", "sort by s, n, f, b, d", "sort by d desc, b, f desc, n, s desc", "sort by id desc",
		"sort by owner", "sort by owner.s", "sort by tags.x", "sort by ss", "n > 0 sort by f limit 1", "f > 1.5 sort by n", "n > 1.5 sort by s"}
	for _, ds := range []string{"empty", "nulls", "full", "mixedA", "mixedB"} {
		for _, q := range fixed {
			emit(ds, q)
		}
	}
	g.nums, g.strs, g.dts = c10SafeNumbers, c10SafeStrings, c10SafeDatetimes
	g.plainIdents = []string{"s", "n", "f", "b", "d", "tags.x", "owner", "owner.s", "id", "s", "n"}
	g.setIdents = []string{"ss", "ns", "kids", "kids.ss", "kids.n", "kids", "ss"}
	defer func() {
		g.nums, g.strs, g.dts = c10Numbers, c10Strings, c10Datetimes
		g.plainIdents, g.setIdents = nil, nil
	}()
	for i := 0; i < n; i++ {
		p := g.sentence(c10QIdents, 1+g.r.intn(3))
		emit(pick(g.r, []string{"empty", "nulls", "full", "mixedA", "mixedB", "mixedA", "mixedB"}), strings.Join(p, ""))
	}
}
