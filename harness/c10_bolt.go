package main

import (
	"fmt"
	"math"
	"os"
	"strings"
	"time"

	"github.com/openziti/storage/ast"
	"github.com/openziti/storage/boltz"
	"go.etcd.io/bbolt"
)

// B <dataset> <text>: the query through real bolt stores (boltz.BaseStore.QueryIds and the
// rowCursorImpl of boltz/query_cursor.go as ast.Symbols).
//
//	dataset: empty (no entity at all) | nulls (entities without any field, empty / absent set buckets)
//	         | full (every field set, sets with elements, linked entities)
//	         | mixedA / mixedB (the full entities plus entities without fields and partially filled ones,
//	           sorting before (A) or after (B) the full ones in id order)
//	-> bolt=<ok:n | err> iter=<n | err>      a Go panic is caught by safeExec and printed as `panic ...`
//
// Only freedom from panics (and termination) is judged for B cases; what the queries return is
// C01's business.

type c10Bolt struct {
	db     *bbolt.DB
	things boltz.Store
	kids   boltz.Store
}

var c10BoltCache = map[string]*c10Bolt{}

func c10OpenBolt(dataset string) *c10Bolt {
	if b, ok := c10BoltCache[dataset]; ok {
		return b
	}
	dir, err := os.MkdirTemp("", "verif-*")
	if err != nil {
		panic(err)
	}
	db, err := bbolt.Open(dir+"/c10.db", 0600, &bbolt.Options{NoSync: true, NoFreelistSync: true, Timeout: time.Second})
	if err != nil {
		panic(err)
	}
	_ = os.RemoveAll(dir) // the open file stays usable, nothing is left on disk
	things := boltz.NewBaseStore(*(&boltz.StoreDefinition[boltz.Entity]{EntityType: "things"}).WithBasePath("u"))
	kids := boltz.NewBaseStore(*(&boltz.StoreDefinition[boltz.Entity]{EntityType: "kids"}).WithBasePath("u"))
	for _, st := range []*boltz.BaseStore[boltz.Entity]{things, kids} {
		st.AddIdSymbol("id", ast.NodeTypeString)
		st.AddSymbol("s", ast.NodeTypeString)
		st.AddSymbol("n", ast.NodeTypeInt64)
		st.AddSymbol("f", ast.NodeTypeFloat64)
		st.AddSymbol("b", ast.NodeTypeBool)
		st.AddSymbol("d", ast.NodeTypeDatetime)
		st.AddSetSymbol("ss", ast.NodeTypeString)
		st.AddSetSymbol("ns", ast.NodeTypeInt64)
		st.AddMapSymbol("tags", ast.NodeTypeAnyType, "tags")
		st.AddFkSetSymbol("kids", kids)
	}
	things.AddFkSymbol("owner", kids)
	// further symbol kinds (sort clauses and predicates meet every kind of symbol the store can hold)
	kids.AddFkSymbol("parent", things)                         // link back: owner.parent.s, cycles owner.parent.owner.n
	things.AddSymbolWithKey("nk", ast.NodeTypeInt64, "n")      // a symbol whose key differs from its name
	things.AddSymbol("ps", ast.NodeTypeString, "sub")          // a symbol inside a nested bucket
	things.AddSymbol("ms", ast.NodeTypeString)                 // a mapped symbol (symbolMapWrapper)
	things.MapSymbol("ms", boltz.NotNilStringMapper{})
	things.AddSymbol("a", ast.NodeTypeAnyType)                 // types a comparator does not exist for
	things.AddSymbol("o", ast.NodeTypeOther)
	things.AddPublicSetSymbol("pss", ast.NodeTypeString)
	things.AddSymbol("createdAt", ast.NodeTypeDatetime)
	things.AddSymbol("isSystem", ast.NodeTypeBool)
	b := &c10Bolt{db: db, things: things, kids: kids}
	err = db.Update(func(tx *bbolt.Tx) error {
		tb := boltz.GetOrCreatePath(tx, "u", "things")
		kb := boltz.GetOrCreatePath(tx, "u", "kids")
		switch dataset {
		case "empty":
		case "nulls":
			for _, id := range []string{"t1", "t2"} {
				e := tb.GetOrCreatePath(id)
				e.SetNil("s")
				e.GetOrCreateBucket("ss") // an empty set bucket; "ns" and "kids" have no bucket at all
			}
			kb.GetOrCreatePath("k1")
		default:
			for i, id := range []string{"k1", "k2", "k3"} {
				e := kb.GetOrCreatePath(id)
				e.SetString("s", []string{"x", "", "a b"}[i], nil)
				e.SetInt64("n", int64(i*5), nil)
				e.SetStringList("ss", []string{"x", "y"}[:i%3%2+1], nil)
			}
			for i, id := range []string{"t1", "t2", "t3"} {
				e := tb.GetOrCreatePath(id)
				e.SetString("s", []string{"x", "X", "世"}[i], nil)
				e.SetInt64("n", int64(i*5-1), nil)
				e.SetFloat64("f", []float64{1.5, -0.25, 1000}[i], nil)
				e.SetBool("b", i%2 == 0, nil)
				e.SetTime("d", time.Unix(1577836800+int64(i)*86400, 0).UTC(), nil)
				e.SetStringList("ss", []string{"x", "y", ""}[:i+1], nil)
				ns := e.GetOrCreateBucket("ns")
				for j := 0; j <= i; j++ {
					ns.SetListEntry(boltz.TypeInt64, func() []byte {
						buf := make([]byte, 8)
						v := uint64(j * 5)
						for k := 0; k < 8; k++ {
							buf[k] = byte(v >> (8 * k))
						}
						return buf
					}())
				}
				e.PutMap("tags", map[string]interface{}{"x": []interface{}{"x", int64(5), true}[i]}, nil, false)
				e.SetStringList("kids", []string{"k1", "k2", "k3", "zz"}[i:], nil)
				e.SetString("owner", "k1", nil)
			}
			if dataset == "big" {
				c10FillBig(tb, kb)
			}
			if dataset == "mistyped" {
				c10FillMistyped(tb, kb)
			}
			if strings.HasPrefix(dataset, "mixed") {
				// entities without any field and partially filled ones, before (A) or after (B) the full ones
				ids := []string{"a0", "a1", "a2"}
				if dataset == "mixedB" {
					ids = []string{"z0", "z1", "z2"}
				}
				tb.GetOrCreatePath(ids[0])
				e := tb.GetOrCreatePath(ids[1])
				e.SetNil("s")
				e.SetInt64("n", 7, nil)
				e.SetBool("b", true, nil)
				e.GetOrCreateBucket("ss")
				e = tb.GetOrCreatePath(ids[2])
				e.SetString("s", "m", nil)
				e.SetFloat64("f", 2.5, nil)
				e.SetTime("d", time.Unix(1577836800, 0).UTC(), nil)
				e.SetNil("owner")
				e.SetStringList("kids", []string{"k2"}, nil)
			}
		}
		return nil
	})
	if err != nil {
		panic(err)
	}
	c10BoltCache[dataset] = b
	return b
}

// big: 14 more entities whose sort keys are null, equal or special (NaN, infinities, -0, empty string)
// in an order (by id) that puts nulls on either side of every comparison while the result tree is
// rebalanced and trimmed.
func c10FillBig(tb, kb *boltz.TypedBucket) {
	strs := []string{"", "x", "x", "m", "世", "a b", "X"}
	fl := []float64{math.NaN(), math.Inf(1), math.Inf(-1), math.Copysign(0, -1), 0, 2.5, 2.5}
	for i := 0; i < 14; i++ {
		e := tb.GetOrCreatePath(fmt.Sprintf("b%02d", (i*5)%14)) // ids in a scrambled order
		if i%3 != 0 {
			e.SetString("s", strs[i%len(strs)], nil)
		}
		if i%4 != 1 {
			e.SetInt64("n", int64([]int{0, -1, 7, 7, 1 << 40, -(1 << 40), 3}[i%7]), nil)
		}
		if i%5 != 2 {
			e.SetFloat64("f", fl[i%len(fl)], nil)
		}
		if i%3 != 1 {
			e.SetBool("b", i%2 == 0, nil)
		}
		if i%4 != 2 {
			e.SetTime("d", time.Unix(1577836800+int64(i%3)*86400, int64(i%2)).In(time.FixedZone("x", (i%5-2)*3600)), nil)
		}
		if i%2 == 0 {
			e.SetString("ms", strs[(i/2)%len(strs)], nil)
			e.SetString("owner", []string{"k1", "k2", "zz", ""}[(i/2)%4], nil)
			e.GetOrCreatePath("sub").SetString("ps", strs[i%len(strs)], nil)
		}
		if i%3 == 0 {
			e.SetStringList("ss", []string{"x", "y", "z"}[:i%4%3+1], nil)
			e.SetStringList("kids", []string{"k3", "k1"}[:i%2+1], nil)
			e.SetStringList("pss", []string{"p"}, nil)
		}
		if i%7 == 0 {
			e.SetTime("createdAt", time.Unix(int64(i), 0).UTC(), nil)
			e.SetBool("isSystem", i%2 == 0, nil)
			e.PutMap("tags", map[string]interface{}{"x": map[string]interface{}{"y": "deep"}, "y": nil}, nil, false)
		}
	}
	for i, id := range []string{"k1", "k2", "k3"} {
		kb.GetOrCreatePath(id).SetString("parent", []string{"t1", "b00", "nope"}[i], nil)
	}
}

// mistyped: fields that hold a value of another type than their symbol declares, sets whose elements
// have mixed types, links that are not strings.
func c10FillMistyped(tb, kb *boltz.TypedBucket) {
	for i, id := range []string{"m1", "m2", "m3", "m4"} {
		e := tb.GetOrCreatePath(id)
		switch i {
		case 0:
			e.SetInt64("s", 5, nil)
			e.SetString("n", "7", nil)
			e.SetBool("f", true, nil)
			e.SetString("b", "true", nil)
			e.SetInt64("d", 1577836800, nil)
			e.SetInt64("owner", 1, nil)
			e.SetInt64("ms", 3, nil)
		case 1:
			e.SetFloat64("s", 1.5, nil)
			e.SetFloat64("n", 2.5, nil)
			e.SetInt32("f", 3, nil)
			e.SetTime("b", time.Unix(0, 0).UTC(), nil)
			e.SetString("d", "2020-01-01T00:00:00Z", nil)
			e.SetBool("owner", false, nil)
		case 2:
			e.SetBool("s", false, nil)
			e.SetTime("n", time.Unix(5, 0).UTC(), nil)
			e.SetTime("s2", time.Unix(5, 0).UTC(), nil)
			e.SetInt32("n", 9, nil)
			e.SetString("f", "x", nil)
			e.SetInt64("b", 1, nil)
			e.SetFloat64("d", 0.5, nil)
			e.SetString("tags", "not a map", nil)
		case 3:
			e.SetTime("s", time.Unix(7, 0).UTC(), nil)
			e.SetString("ss", "not a set", nil)
			e.SetInt64("kids", 4, nil)
			e.SetString("sub", "not a bucket", nil)
		}
		if i < 3 {
			// sets with elements of several types
			ss := e.GetOrCreateBucket("ss")
			ss.SetListEntry(boltz.TypeString, []byte("x"))
			ss.SetListEntry(boltz.TypeInt64, []byte{1, 0, 0, 0, 0, 0, 0, 0})
			ss.SetListEntry(boltz.TypeBool, []byte{1})
			ss.SetListEntry(boltz.TypeNil, nil)
			ns := e.GetOrCreateBucket("ns")
			ns.SetListEntry(boltz.TypeString, []byte("5"))
			ns.SetListEntry(boltz.TypeFloat64, []byte{0, 0, 0, 0, 0, 0, 0xf8, 0x3f})
			kd := e.GetOrCreateBucket("kids")
			kd.SetListEntry(boltz.TypeInt64, []byte{2, 0, 0, 0, 0, 0, 0, 0})
			kd.SetListEntry(boltz.TypeString, []byte("k1"))
			kd.SetListEntry(boltz.TypeString, []byte(""))
		}
	}
	kb.GetOrCreatePath("k1").SetInt64("parent", 1, nil)
	kb.GetOrCreatePath("").SetString("s", "empty id", nil)
}

func c10ExecBolt(f []string) string {
	b := c10OpenBolt(f[1])
	text := fromWire(f[2])
	var res string
	_ = b.db.View(func(tx *bbolt.Tx) error {
		ids, _, err := b.things.QueryIds(tx, text)
		r1 := "err"
		if err == nil {
			r1 = fmt.Sprintf("ok:%d", len(ids))
		}
		r2 := "err"
		if q, perr := ast.Parse(b.things, text); perr == nil {
			n := 0
			for c := b.things.IterateIds(tx, q); c.IsValid(); c.Next() {
				n++
				if n > 100000 {
					break
				}
			}
			r2 = fmt.Sprint(n)
		}
		// a parsed query used twice (setPaging and the comparator write into the query object)
		r3 := "err"
		if q, perr := ast.Parse(b.things, text); perr == nil {
			ids1, n1, e1 := b.things.QueryIdsC(tx, q)
			ids2, n2, e2 := b.things.QueryIdsC(tx, q)
			switch {
			case e1 != nil || e2 != nil:
				r3 = "qerr"
			case len(ids1) == len(ids2) && n1 == n2:
				r3 = "same"
			default:
				r3 = "differs"
			}
		}
		// the same query with the process-wide debug configuration switched on
		r4 := "same"
		c10UnderDebugConfig(func() {
			ids, _, err := b.things.QueryIds(tx, text)
			rd := "err"
			if err == nil {
				rd = fmt.Sprintf("ok:%d", len(ids))
			}
			if rd != r1 {
				r4 = "differs:" + rd
			}
		})
		res = "bolt=" + r1 + " iter=" + r2 + " twice=" + r3 + " cfg=" + r4
		return nil
	})
	return res
}

func (g *c10Gen) genBolt() {
	n := 400
	if g.tier == "thorough" {
		n = 20000
	}
	emit := func(ds, text string) {
		fmt.Fprintf(g.out, "B %s %s\n", ds, toWire(string([]rune(text))))
	}
	fixed := []string{"", "true", `s icontains "X"`, "d between 1 and 2", "tags.x between 5 and 7", `anyOf(ss) = "x"`, `allOf(ss) != "x"`,
		"count(kids) > 1", "isEmpty(kids)", `count(from kids where s = "x") = 1`, `isEmpty(from kids where anyOf(ss) = "x")`,
		"anyOf(ns) in [0, 5]", "anyOf(kids.ss) = \"x\"", "anyOf(kids.n) > 1", "owner.s = \"x\"", "owner = null", "tags.x = 5", `tags.x = "x"`,
		"tags.x = true", "sort by s desc, n skip 1 limit 1", "limit none", "skip 5", "n = 4 or f > 1 and not b", "anyOf(kids) = \"k1\"",
		"count(from kids where limit 5) > 1", "a = 1 @", "zz = 1", "not (n between 1 and 9)", "n not in [4, 9]", "s in [\"x\", \"X\"]",
		"d > datetime(2020-01-01T00:00:00Z)", "d in [datetime(2020-01-01T00:00:00Z)]", "count(ns) >= 2", "isEmpty(ss) or isEmpty(ns)",
		"true sort by s", "true sort by s desc", "sort by n", "sort by n desc limit 2", "sort by f", "sort by f desc skip 1", "sort by b",
		"sort by b desc", "sort by d", "sort by d desc", "sort by s, n, f, b, d", "sort by d desc, b, f desc, n, s desc", "sort by id desc",
		"sort by owner", "sort by owner.s", "sort by tags.x", "sort by ss", "n > 0 sort by f limit 1", "f > 1.5 sort by n", "n > 1.5 sort by s"}
	for _, ds := range c10BoltDatasets {
		for _, q := range fixed {
			emit(ds, q)
		}
	}
	g.genBoltSort(emit)
	g.nums, g.strs, g.dts = c10SafeNumbers, c10SafeStrings, c10SafeDatetimes
	g.plainIdents = []string{"s", "n", "f", "b", "d", "tags.x", "owner", "owner.s", "id", "s", "n"}
	g.setIdents = []string{"ss", "ns", "kids", "kids.ss", "kids.n", "kids", "ss"}
	defer func() {
		g.nums, g.strs, g.dts = c10Numbers, c10Strings, c10Datetimes
		g.plainIdents, g.setIdents = nil, nil
	}()
	for i := 0; i < n; i++ {
		p := g.sentence(c10QIdents, 1+g.r.intn(3))
		emit(pick(g.r, []string{"empty", "nulls", "full", "mixedA", "mixedB", "mixedA", "mixedB", "big", "mistyped"}), strings.Join(p, ""))
	}
}

var c10BoltDatasets = []string{"empty", "nulls", "full", "mixedA", "mixedB", "big", "mistyped"}

// every kind of symbol a sort clause can name: id, typed fields, aliased / nested / mapped fields,
// any-typed and other-typed fields, fk symbol, set symbols (plain, public, fk), map and map elements,
// linked and doubly linked symbols (plain and set), symbols over a set, unknown names in every
// position, quoted and odd spellings
var c10SortSymbols = []string{"id", "s", "n", "f", "b", "d", "nk", "ps", "ms", "a", "o", "createdAt", "isSystem", "owner",
	"ss", "ns", "kids", "pss", "tags", "tags.x", "tags.y", "tags.x.y", "owner.s", "owner.n", "owner.id", "owner.ss", "owner.kids",
	"owner.parent", "owner.parent.s", "owner.parent.owner.n", "owner.tags.x", "kids.s", "kids.ss", "kids.parent.s", "kids.id",
	"zz", "zz.s", "owner.zz", "s.x", "id.x", "'s'", "'owner.s'", "S", "q.r-s", "sub", "sub.ps"}

var c10PagingValues = []string{"0", "1", "2", "3", "5", "100", "-1", "-2", "9223372036854775807", "9223372036854775806",
	"-9223372036854775808", "9223372036854775808", "4611686018427387904", "1.5", "1e3", "-0"}

// genBoltSort: sort clauses over every symbol kind, many fields, duplicates, `id` in every position,
// and the extremes of skip / limit, on every dataset - judged for panics.
func (g *c10Gen) genBoltSort(emit func(ds, text string)) {
	thorough := g.tier == "thorough"
	dirs := []string{"", " asc", " desc", " DESC"}
	preds := []string{"", "true ", "n > 0 ", "not b ", `anyOf(ss) = "x" `, `count(kids) > 0 `, `owner.s = "x" `, `isEmpty(from kids where s = "x") `, "s = null ", "tags.x != null "}
	// one field, every symbol, every direction, with and without a predicate
	for _, ds := range c10BoltDatasets {
		for _, sym := range c10SortSymbols {
			for di, d := range dirs {
				if di == 3 && !thorough {
					continue
				}
				emit(ds, "sort by "+sym+d)
				emit(ds, pick(g.r, preds[1:])+"sort by "+sym+d+pick(g.r, []string{"", " limit 2", " skip 1", " skip 1 limit 1"}))
			}
		}
	}
	field := func() string { return pick(g.r, c10SortSymbols) + pick(g.r, dirs) }
	good := []string{"s", "n", "f", "b", "d", "nk", "ps", "ms", "createdAt", "isSystem", "owner", "id"}
	goodField := func() string { return pick(g.r, good) + pick(g.r, dirs) }
	n := 900
	if thorough {
		n = 40000
	}
	for i := 0; i < n; i++ {
		var fs []string
		k := 1 + g.r.intn(8) // up to 8 fields: more than SortMax
		for j := 0; j < k; j++ {
			switch g.r.intn(6) {
			case 0:
				fs = append(fs, field())
			case 1:
				if len(fs) > 0 { // a duplicate, possibly in the other direction
					fs = append(fs, strings.Fields(pick(g.r, fs))[0]+pick(g.r, dirs))
				} else {
					fs = append(fs, goodField())
				}
			case 2:
				fs = append(fs, "id"+pick(g.r, dirs))
			default:
				fs = append(fs, goodField())
			}
		}
		q := pick(g.r, preds) + "sort by " + strings.Join(fs, pick(g.r, []string{", ", ",", " , "}))
		if g.r.chance(1, 3) {
			q += " skip " + pick(g.r, c10PagingValues)
		}
		if g.r.chance(1, 3) {
			q += " limit " + pick(g.r, append([]string{"none"}, c10PagingValues...))
		}
		emit(pick(g.r, c10BoltDatasets), q)
	}
	// paging extremes: every skip x every limit, unsorted, sorted by id (both directions), sorted by a
	// field, sorted with duplicates in the key; in the outer query and inside a sub-query
	lims := append([]string{"none", "NONE"}, c10PagingValues...)
	sorts := []string{"", "sort by id ", "sort by id desc ", "sort by n desc ", "sort by b, s desc ", "sort by zz "}
	for _, sk := range append([]string{""}, c10PagingValues...) {
		for _, li := range append([]string{""}, lims...) {
			tail := ""
			if sk != "" {
				tail += "skip " + sk + " "
			}
			if li != "" {
				tail += "limit " + li
			}
			if tail == "" {
				continue
			}
			for si, so := range sorts {
				if !thorough && si > 1 && !g.r.chance(1, 2) {
					continue
				}
				ds := pick(g.r, c10BoltDatasets[1:])
				emit(ds, so+tail)
				if g.r.chance(1, 3) {
					emit(pick(g.r, c10BoltDatasets), pick(g.r, preds[1:])+so+tail)
				}
				if g.r.chance(1, 4) {
					emit(ds, "count(from kids where true "+so+tail+") > 0")
					emit(ds, "isEmpty(from kids where "+strings.TrimSpace(so+tail)+")")
				}
			}
		}
	}
}
