package main

import (
	"fmt"
	"strings"
	"time"

	"github.com/openziti/storage/ast"
	"github.com/openziti/storage/objectz"
)

// O <dataset> <text>: the query through an objectz.ObjectStore (the in-memory store that shares the
// filter AST, typing and evaluation with the bolt-backed one; objectz.ObjectCursor is the ast.Symbols).
//
//	dataset: empty (no object) | nulls (objects whose every field but id is a nil pointer)
//	         | full | mixed (full objects interleaved with objects with nil fields, equal keys, NaN)
//	         | noiter (the store's iterator function returns nil: "there is nothing to iterate")
//	-> obj=<ok:n | err> twice=<same|differs|qerr|err>     a Go panic is caught and printed as `panic ...`
//
// Only freedom from panics (and termination) is judged; what the queries return is C19's business.

type c10Obj struct {
	id string
	s  *string
	n  *int64
	f  *float64
	b  *bool
	d  *time.Time
	t  *string // symbol "tags.x": a name with a dot
}

type c10SliceIter struct {
	objs []*c10Obj
	pos  int
}

func (it *c10SliceIter) IsValid() bool { return it.pos < len(it.objs) }
func (it *c10SliceIter) Next()         { it.pos++ }
func (it *c10SliceIter) Current() *c10Obj {
	if it.pos < len(it.objs) {
		return it.objs[it.pos]
	}
	return nil // like objectz.ChannelIterator: the zero value of T, which must never be evaluated
}

var c10ObjCache = map[string]*objectz.ObjectStore[*c10Obj]{}

func c10ObjDataset(dataset string) []*c10Obj {
	sp := func(v string) *string { return &v }
	ip := func(v int64) *int64 { return &v }
	fp := func(v float64) *float64 { return &v }
	bp := func(v bool) *bool { return &v }
	tp := func(sec int64) *time.Time { t := time.Unix(1577836800+sec, 0).UTC(); return &t }
	full := []*c10Obj{
		{id: "t1", s: sp("x"), n: ip(-1), f: fp(1.5), b: bp(true), d: tp(0), t: sp("x")},
		{id: "t2", s: sp("X"), n: ip(4), f: fp(-0.25), b: bp(false), d: tp(86400), t: sp("5")},
		{id: "t3", s: sp("世"), n: ip(9), f: fp(1000), b: bp(true), d: tp(172800), t: sp("")},
	}
	switch dataset {
	case "empty", "noiter":
		return nil
	case "nulls":
		return []*c10Obj{{id: "a0"}, {id: "a1"}, {id: ""}}
	case "full":
		return full
	}
	nan := fp(0)
	*nan = *nan / *nan
	mixed := []*c10Obj{{id: "a0"}, full[0], {id: "a1", n: ip(7), b: bp(true)}, full[1], {id: "m", s: sp("m"), f: fp(2.5), d: tp(0)},
		full[2], {id: "z0"}, {id: "z1", s: sp("x"), n: ip(4), f: nan, t: sp("x")}, {id: "z2", s: sp(""), n: ip(-1), f: fp(1.5), b: bp(false), d: tp(0)},
		{id: "t1", s: sp("dup id")}}
	return mixed
}

func c10OpenObj(dataset string) *objectz.ObjectStore[*c10Obj] {
	if st, ok := c10ObjCache[dataset]; ok {
		return st
	}
	objs := c10ObjDataset(dataset)
	st := objectz.NewObjectStore[*c10Obj](func() objectz.ObjectIterator[*c10Obj] {
		if dataset == "noiter" {
			return nil
		}
		return &c10SliceIter{objs: objs}
	})
	st.AddStringSymbol("id", func(e *c10Obj) *string { return &e.id })
	st.AddStringSymbol("s", func(e *c10Obj) *string { return e.s })
	st.AddInt64Symbol("n", func(e *c10Obj) *int64 { return e.n })
	st.AddFloat64Symbol("f", func(e *c10Obj) *float64 { return e.f })
	st.AddBoolSymbol("b", func(e *c10Obj) *bool { return e.b })
	st.AddDatetimeSymbol("d", func(e *c10Obj) *time.Time { return e.d })
	st.AddStringSymbol("tags.x", func(e *c10Obj) *string { return e.t })
	c10ObjCache[dataset] = st
	return st
}

func c10ExecObj(f []string) string {
	st := c10OpenObj(f[1])
	text := fromWire(f[2])
	r1 := "err"
	if res, _, err := st.QueryEntities(text); err == nil {
		r1 = fmt.Sprintf("ok:%d", len(res))
	}
	r2 := "err"
	if q, perr := ast.Parse(st, text); perr == nil {
		a, n1, e1 := st.QueryEntitiesC(q)
		b, n2, e2 := st.QueryEntitiesC(q)
		switch {
		case e1 != nil || e2 != nil:
			r2 = "qerr"
		case len(a) == len(b) && n1 == n2:
			r2 = "same"
		default:
			r2 = "differs"
		}
	}
	return "obj=" + r1 + " twice=" + r2
}

var c10ObjDatasets = []string{"empty", "nulls", "full", "mixed", "noiter"}

// genObj: the sentences of the Q / B streams over the object store's symbols (set functions and
// sub-queries are refused by typing, everything else evaluates), the sort clauses and the paging
// extremes of the B stream.
func (g *c10Gen) genObj() {
	n := 350
	if g.tier == "thorough" {
		n = 30000
	}
	emit := func(ds, text string) {
		fmt.Fprintf(g.out, "O %s %s\n", ds, toWire(string([]rune(text))))
	}
	fixed := []string{"", "true", "false", `s icontains "X"`, `s contains "x"`, "d between 1 and 2", "tags.x between 5 and 7", `anyOf(s) = "x"`,
		"count(s) > 1", "isEmpty(s)", `count(from s where s = "x") = 1`, "n in [0, 5]", "n not in [4, 9]", `s in ["x", "X"]`, "s = null", "s != null",
		"n = null", "f != null", "b = null", "d = null", "tags.x = null", "id = null", "b", "not b", "b = true", "n = 4 or f > 1 and not b",
		"n > 1.5", "f > 1", "f = 2.5", "n between 1 and 9", "n between 0.5 and 9.5", "f between 0 and 2", `s between "a" and "z"`,
		"d > datetime(2020-01-01T00:00:00Z)", "d in [datetime(2020-01-01T00:00:00Z)]", "d between datetime(2020-01-01T00:00:00Z) and datetime(2020-01-02T00:00:00Z)",
		`s = 5`, `n = "5"`, `b = 1`, `d = "x"`, `id = "t1"`, `id > "a"`, "zz = 1", "a = 1 @", "sort by s", "sort by s desc, n skip 1 limit 1",
		"sort by n", "sort by f desc", "sort by b", "sort by d desc", "sort by id desc", "sort by tags.x", "sort by zz", "sort by s, s, s, s, s, s, s",
		"limit none", "skip 5", "limit 0", "skip -1 limit -1", "skip 9223372036854775807 limit 9223372036854775807"}
	for _, ds := range c10ObjDatasets {
		for _, q := range fixed {
			emit(ds, q)
		}
	}
	g.nums, g.strs, g.dts = c10SafeNumbers, c10SafeStrings, c10SafeDatetimes
	g.plainIdents = []string{"s", "n", "f", "b", "d", "tags.x", "id", "s", "n"}
	g.setIdents = []string{"s", "n", "zz", "tags.x"}
	defer func() {
		g.nums, g.strs, g.dts = c10Numbers, c10Strings, c10Datetimes
		g.plainIdents, g.setIdents = nil, nil
	}()
	ds := func() string { return pick(g.r, []string{"empty", "nulls", "full", "mixed", "mixed", "mixed", "noiter"}) }
	for i := 0; i < n; i++ {
		p := g.sentence(c10QIdents, 1+g.r.intn(3))
		emit(ds(), strings.Join(p, ""))
	}
	// sort clauses: every symbol, directions, many fields, duplicates, unknown names
	syms := []string{"id", "s", "n", "f", "b", "d", "tags.x", "zz", "tags.y", "S", "'s'"}
	dirs := []string{"", " asc", " desc"}
	for _, d0 := range c10ObjDatasets {
		for _, sym := range syms {
			for _, d := range dirs {
				emit(d0, "sort by "+sym+d)
				emit(d0, pick(g.r, []string{"true ", "n > 0 ", "not b ", "s = null ", "f != null "})+"sort by "+sym+d+pick(g.r, []string{"", " limit 2", " skip 1"}))
			}
		}
	}
	for i := 0; i < n; i++ {
		var fs []string
		for j, k := 0, 1+g.r.intn(8); j < k; j++ {
			s := pick(g.r, syms)
			if g.r.chance(3, 4) {
				s = pick(g.r, syms[:7])
			}
			fs = append(fs, s+pick(g.r, dirs))
		}
		q := pick(g.r, []string{"", "true ", "n > 0 ", "b ", `s != "x" `}) + "sort by " + strings.Join(fs, ", ")
		if g.r.chance(1, 3) {
			q += " skip " + pick(g.r, c10PagingValues)
		}
		if g.r.chance(1, 3) {
			q += " limit " + pick(g.r, append([]string{"none"}, c10PagingValues...))
		}
		emit(ds(), q)
	}
	for _, sk := range append([]string{""}, c10PagingValues...) {
		for _, li := range append([]string{"", "none"}, c10PagingValues...) {
			tail := ""
			if sk != "" {
				tail += "skip " + sk + " "
			}
			if li != "" {
				tail += "limit " + li
			}
			if tail == "" {
				continue
			}
			emit(ds(), tail)
			emit(ds(), pick(g.r, []string{"sort by n desc ", "sort by id desc ", "sort by b, s desc ", "true sort by f "})+tail)
		}
	}
}
