package main

// C11 `b` cases: the literal travels through a real bolt-backed store.
//
//	b <op> <lit> <s> <value>...
//
// One entity per (distinct, non-empty) value: id = value and field name = value.  The filters
// `id <op> lit` and `name <op> lit` are run through Store.QueryIds (the text is exactly
// `id = "..."` etc., nothing else, so that any pre-parser shortcut of the store is on the path);
// output = membership bits of the values in the two answers.
//
//	c <op> <lit> <s> <lit2> <s2> <value>...
//
// the same with a second, neighbouring literal queried afterwards on the same store object.

import (
	"os"
	"strings"
	"time"

	"github.com/openziti/storage/ast"
	"github.com/openziti/storage/boltz"
	"go.etcd.io/bbolt"
)

func c11BoltFilter(sym, op, lit string) string {
	switch op {
	case "eq":
		return sym + " = " + lit
	case "ne":
		return sym + " != " + lit
	case "in":
		return sym + " in [" + lit + "]"
	case "nin":
		return sym + " not in [" + lit + "]"
	case "contains":
		return sym + " contains " + lit
	case "ncontains":
		return sym + " not contains " + lit
	case "icontains":
		return sym + " icontains " + lit
	case "nicontains":
		return sym + " not icontains " + lit
	}
	return sym + " = " + lit
}

func c11ExecBolt(f []string) string {
	op := f[1]
	lits := []string{fromWire(f[2])}
	first := 4
	if f[0] == "c" {
		// c <op> <lit> <s> <lit2> <s2> <value>...: the two filters are run one after the other on the SAME store
		// object (anything the store remembers between queries - a compiled-query cache, say - is on the path)
		lits = append(lits, fromWire(f[4]))
		first = 6
	}
	var vals []string
	extraEmpty := false
	for _, w := range f[first:] {
		if w == "E" {
			// an extra entity whose name is the empty string (its id is "~E": the empty string cannot be a key)
			extraEmpty = true
			continue
		}
		vals = append(vals, fromWire(w))
	}
	dir, err := os.MkdirTemp("", "verif-*")
	if err != nil {
		return "tmp-error"
	}
	defer os.RemoveAll(dir)
	db, err := bbolt.Open(dir+"/c11.db", 0600, &bbolt.Options{NoSync: true, NoFreelistSync: true, Timeout: time.Second})
	if err != nil {
		return "open-error"
	}
	defer db.Close()
	def := (&boltz.StoreDefinition[boltz.Entity]{EntityType: "things"}).WithBasePath("u")
	store := boltz.NewBaseStore(*def)
	store.AddIdSymbol("id", ast.NodeTypeString)
	store.AddSymbol("name", ast.NodeTypeString)
	err = db.Update(func(tx *bbolt.Tx) error {
		base := boltz.GetOrCreatePath(tx, "u", "things")
		for _, v := range vals {
			b := base.GetOrCreatePath(v)
			b.SetString("name", v, nil)
			if b.Err != nil {
				return b.Err
			}
		}
		if extraEmpty {
			b := base.GetOrCreatePath("~E")
			b.SetString("name", "", nil)
			if b.Err != nil {
				return b.Err
			}
		}
		return base.Err
	})
	if err != nil {
		return "write-error"
	}
	var out []string
	for _, lit := range lits {
	for _, sym := range []string{"id", "name"} {
		var ids []string
		err = db.View(func(tx *bbolt.Tx) error {
			var e error
			ids, _, e = store.QueryIds(tx, c11BoltFilter(sym, op, lit))
			return e
		})
		if err != nil {
			out = append(out, "query-error")
			continue
		}
		got := map[string]bool{}
		for _, id := range ids {
			got[id] = true
		}
		var b strings.Builder
		ids2 := vals
		if extraEmpty {
			ids2 = append(append([]string{}, vals...), "~E")
		}
		for _, v := range ids2 {
			if got[v] {
				b.WriteByte('1')
			} else {
				b.WriteByte('0')
			}
		}
		if len(ids) != len(got) {
			b.WriteString("+dup")
		}
		out = append(out, b.String())
	}
	}
	return strings.Join(out, " ")
}
